(** What the boolean specifications of Model/Sample.v mean, for ANY event list
    (in particular the logs of the implementation on which the violation search
    evaluates them). *)

From DivanV Require Import Base.Res Model.Sample Proofs.Sample.
From Coq Require Import Arith.
Local Open Scope nat_scope.
Local Arguments Nat.ltb _ _ : simpl never.

(** * [sb_timed] *)

Lemma split_at_some {A} (p : A -> bool) : forall l a y b,
  split_at p l = (a, Some (y, b)) ->
  l = a ++ y :: b /\ Forall (fun x => p x = false) a /\ p y = true.
Proof.
  induction l as [|x l IH]; intros a y b H; cbn in H; [discriminate|].
  destruct (p x) eqn:Hx.
  - inversion H; subst. repeat split; [constructor|exact Hx].
  - destruct (split_at p l) as [a' o] eqn:E. inversion H; subst.
    destruct (IH a' y b eq_refl) as (-> & Ha & Hy).
    repeat split; [constructor; assumption|exact Hy].
Qed.

Lemma forallb_Forall {A} (p : A -> bool) l : forallb p l = true -> Forall (fun x => p x = true) l.
Proof. intros H. apply Forall_forall. apply forallb_forall. exact H. Qed.

(** [sb_timed l = true] says: [l] is generation/counting/start synchronisation
    with exactly one tally clear, the start timestamp, only calls (and what the
    callee itself drops), the end timestamp, only barrier waits, the snapshot,
    only drops — nothing else anywhere. *)
Theorem sb_timed_meaning {A} (l : list (oev A)) :
  sb_timed l = true ->
  exists pre timed sync post,
    l = pre ++ OTsStart :: timed ++ OTsEnd :: sync ++ OSnapshot :: post
    /\ Forall (fun e => is_pre_ev e = true) pre
    /\ length (filter is_clear pre) = 1
    /\ Forall (fun e => is_timed_ev e = true) timed
    /\ Forall (fun e => is_end_sync_ev e = true) sync
    /\ Forall (fun e => is_post_ev e = true) post.
Proof.
  unfold sb_timed. intros H.
  destruct (split_at is_ts_start l) as [pre [[y1 r1]|]] eqn:E1; [|discriminate].
  destruct (split_at is_ts_end r1) as [timed [[y2 r2]|]] eqn:E2; [|discriminate].
  destruct (split_at is_snapshot r2) as [sync [[y3 post]|]] eqn:E3; [|discriminate].
  apply split_at_some in E1. destruct E1 as (-> & _ & Hy1).
  apply split_at_some in E2. destruct E2 as (-> & _ & Hy2).
  apply split_at_some in E3. destruct E3 as (-> & _ & Hy3).
  destruct y1; try discriminate. destruct y2; try discriminate. destruct y3; try discriminate.
  repeat rewrite Bool.andb_true_iff in H. destruct H as ((((Hp & Hc) & Ht) & Hs) & Hq).
  exists pre, timed, sync, post. split; [reflexivity|].
  repeat split; try (apply forallb_Forall; assumption).
  apply Nat.eqb_eq. exact Hc.
Qed.

(** * [sb_sample]: counting consequences of the monitor *)

Fixpoint count {A} (p : A -> bool) (l : list A) : nat :=
  match l with [] => 0 | x :: r => (if p x then 1 else 0) + count p r end.

(** If accepted [P]-events flip a flag of the state from false to true and no
    other accepted event changes it, then an accepted list contains at most one
    [P]-event, and exactly one iff the flag went from false to true. *)
Lemma count_flag m (P : oev nat -> bool) (phi : mstate -> bool) :
  (forall s e s', mon_step m s e = inr s' -> P e = true -> phi s = false /\ phi s' = true) ->
  (forall s e s', mon_step m s e = inr s' -> P e = false -> phi s' = phi s) ->
  forall l s s', mon_exec m l s = Some s' ->
  count P l = (if phi s then 0 else if phi s' then 1 else 0) /\ (phi s = true -> phi s' = true).
Proof.
  intros H1 H2. induction l as [|e l IH]; intros s s' H; cbn in H.
  - inversion H; subst. cbn. destruct (phi s'); auto.
  - destruct (mon_step m s e) as [c|s1] eqn:E; [discriminate|].
    destruct (IH s1 s' H) as (Hc & Hm). cbn [count]. destruct (P e) eqn:Pe.
    + destruct (H1 s e s1 E Pe) as (F0 & F1). rewrite F0. rewrite F1 in Hc. rewrite Hc.
      rewrite (Hm F1). split; [reflexivity|discriminate].
    + rewrite (H2 s e s1 E Pe) in Hc, Hm. rewrite Hc. split; [reflexivity|exact Hm].
Qed.

Lemma mon_exec_of_run m l s0 s : mon_run m l s0 0 = MOk s -> mon_exec m l s0 = Some s.
Proof.
  generalize 0. revert s0. induction l as [|e l IH]; intros s0 pos H; cbn in *.
  - inversion H; reflexivity.
  - destruct (mon_step m s0 e); [discriminate|]. eapply IH. exact H.
Qed.

Definition is_call_of (i : nat) (e : oev nat) : bool :=
  match e with OCall j _ => Nat.eqb j i | _ => false end.
Definition is_gen_of (i : nat) (e : oev nat) : bool :=
  match e with OGen j => Nat.eqb j i | _ => false end.
Definition is_dropout_of (i : nat) (e : oev nat) : bool :=
  match e with ODropOut j => Nat.eqb j i | _ => false end.
Definition is_dropin_of (i : nat) (e : oev nat) : bool :=
  match e with ODropIn j | OUDropIn j => Nat.eqb j i | _ => false end.

(** A step on an event about index [j] leaves the value [i <> j] alone; a
    global event leaves all values alone. *)
Lemma step_other m s e s' i :
  mon_step m s e = inr s' -> ev_index e <> Some i -> vals s' i = vals s i.
Proof.
  unfold mon_step. intros H Hi. destruct (ev_index e) as [j|] eqn:Ej.
  - destruct (mon_local m (ph s) (ncall s) j (vals s j) e) as [c|[v nc]]; [discriminate|].
    inversion H; subst; cbn. apply upd_other. congruence.
  - destruct (mon_global m (ph s) (ncall s) e); [discriminate|]. inversion H; subst. reflexivity.
Qed.

Lemma step_at m s e s' i :
  mon_step m s e = inr s' -> ev_index e = Some i ->
  exists v nc, mon_local m (ph s) (ncall s) i (vals s i) e = inr (v, nc)
               /\ vals s' i = v /\ ncall s' = nc /\ ph s' = ph s.
Proof.
  unfold mon_step. intros H Hi. rewrite Hi in H.
  destruct (mon_local m (ph s) (ncall s) i (vals s i) e) as [c|[v nc]]; [discriminate|].
  inversion H; subst; cbn. exists v, nc. rewrite upd_same. auto.
Qed.

Lemma step_ncall_other m s e s' :
  mon_step m s e = inr s' -> (forall j o, e <> OCall j o) -> ncall s' = ncall s.
Proof.
  unfold mon_step. intros H Hn. destruct (ev_index e) as [j|] eqn:Ej.
  - destruct (mon_local m (ph s) (ncall s) j (vals s j) e) as [c|[v nc]] eqn:E; [discriminate|].
    inversion H; subst; cbn. unfold mon_local in E.
    destruct e; try discriminate; try (exfalso; eapply Hn; reflexivity);
      repeat match type of E with
      | (if ?b then _ else _) = _ => destruct b; try discriminate
      end; inversion E; reflexivity.
  - destruct (mon_global m (ph s) (ncall s) e); [discriminate|]. inversion H; subst. reflexivity.
Qed.

(** ** Exactly one call per index *)
Theorem calls_once m l :
  sb_sample m l = true -> forall i, count (is_call_of i) l = if i <? m_n m then 1 else 0.
Proof.
  unfold sb_sample. intros H i.
  destruct (mon_run m l mstate0 0) as [s|] eqn:R; [|discriminate].
  apply mon_exec_of_run in R.
  destruct (count_flag m (is_call_of i) (fun s => i <? ncall s)) with (l := l) (s := mstate0) (s' := s)
    as (Hc & _); [| |exact R|].
  - intros s0 e s1 Hs Pe. destruct e; try discriminate. cbn in Pe. apply Nat.eqb_eq in Pe. subst in_id.
    destruct (step_at m s0 _ s1 i Hs eq_refl) as (v & nc & E & _ & Hn & _).
    unfold mon_local in E.
    destruct (phase_eqb (ph s0) PTimed && (i <? m_n m) && Nat.eqb i (ncall s0) && Nat.eqb out_id i
              && in_ready m (vals s0 i) && oval_eqb (v_out (vals s0 i)) WNone) eqn:C; [|discriminate].
    injection E as Ev Enc. repeat rewrite Bool.andb_true_iff in C.
    destruct C as (((((_ & _) & Hi) & _) & _) & _). apply Nat.eqb_eq in Hi.
    rewrite Hn, <- Enc, <- Hi. split; [apply Nat.ltb_irrefl|apply Nat.ltb_lt; lia].
  - intros s0 e s1 Hs Pe.
    destruct e; try (rewrite (step_ncall_other m s0 _ s1 Hs); [reflexivity|intros; discriminate]).
    cbn in Pe. apply Nat.eqb_neq in Pe.
    destruct (step_at m s0 _ s1 in_id Hs eq_refl) as (v & nc & E & _ & Hn & _).
    unfold mon_local in E.
    destruct (phase_eqb (ph s0) PTimed && (in_id <? m_n m) && Nat.eqb in_id (ncall s0) && Nat.eqb out_id in_id
              && in_ready m (vals s0 in_id) && oval_eqb (v_out (vals s0 in_id)) WNone) eqn:C; [|discriminate].
    injection E as Ev Enc. repeat rewrite Bool.andb_true_iff in C.
    destruct C as (((((_ & _) & Hi) & _) & _) & _). apply Nat.eqb_eq in Hi.
    rewrite Hn, <- Enc, <- Hi.
    destruct (Nat.ltb_spec i (S in_id)), (Nat.ltb_spec i in_id); try reflexivity; lia.
  - cbn [ncall mstate0] in Hc. rewrite Hc. cbn.
    unfold mon_final in H. repeat rewrite Bool.andb_true_iff in H. destruct H as ((_ & Hn) & _).
    apply Nat.eqb_eq in Hn. rewrite Hn. reflexivity.
Qed.

(** ** No accepted event of a kind: the list has none *)
Lemma count_none m (P : oev nat -> bool) :
  (forall s e s', mon_step m s e = inr s' -> P e = false) ->
  forall l s s', mon_exec m l s = Some s' -> count P l = 0.
Proof.
  intros H. induction l as [|e l IH]; intros s s' Hl; cbn in *; [reflexivity|].
  destruct (mon_step m s e) as [c|s1] eqn:E; [discriminate|].
  rewrite (H s e s1 E). cbn. eapply IH. exact Hl.
Qed.

(** Unfolds an accepted step on an event about index [i]. *)
Ltac local_step Hs i :=
  let v := fresh "v" in let nc := fresh "nc" in let E := fresh "E" in
  let Hv := fresh "Hv" in let Hn := fresh "Hn" in let Hp := fresh "Hp" in
  destruct (step_at _ _ _ _ i Hs eq_refl) as (v & nc & E & Hv & Hn & Hp);
  unfold mon_local in E.

Ltac split_ifs E :=
  repeat match type of E with
  | (if ?b then _ else _) = _ => let C := fresh "C" in destruct b eqn:C; try discriminate
  end.

Lemma sb_sample_exec m l :
  sb_sample m l = true -> exists s, mon_exec m l mstate0 = Some s /\ mon_final m s = true.
Proof.
  unfold sb_sample. intros H. destruct (mon_run m l mstate0 0) as [s|] eqn:R; [|discriminate].
  exists s. split; [apply mon_exec_of_run; exact R|exact H].
Qed.

Lemma final_at m s i : mon_final m s = true -> i < m_n m -> final_val m (vals s i) = true.
Proof.
  unfold mon_final. intros H Hi. repeat rewrite Bool.andb_true_iff in H. destruct H as (_ & Hf).
  rewrite forallb_forall in Hf. apply Hf. apply in_seq. lia.
Qed.

(** ** Every value is generated exactly once *)
Theorem gen_once m l :
  sb_sample m l = true -> m_gen m = true ->
  forall i, count (is_gen_of i) l = if i <? m_n m then 1 else 0.
Proof.
  intros H Hg i. destruct (sb_sample_exec m l H) as (s & R & F).
  destruct (Nat.ltb_spec i (m_n m)) as [Hi|Hi].
  - destruct (count_flag m (is_gen_of i) (fun s => negb (ival_eqb (v_in (vals s i)) VNone)))
      with (l := l) (s := mstate0) (s' := s) as (Hc & _); [| |exact R|].
    + intros s0 e s1 Hs Pe. destruct e; try discriminate. cbn in Pe. apply Nat.eqb_eq in Pe. subst id.
      local_step Hs i. split_ifs E. injection E as Ev _. rewrite Hv, <- Ev.
      repeat rewrite Bool.andb_true_iff in C. destruct C as (_ & C). rewrite C. split; reflexivity.
    + intros s0 e s1 Hs Pe.
      destruct (ev_index e) as [j|] eqn:Ej.
      * destruct (Nat.eq_dec j i) as [->|Hne]; [|rewrite (step_other m s0 e s1 i Hs) by congruence; reflexivity].
        destruct e; try discriminate; cbn in Ej; injection Ej as ->;
          try (cbn in Pe; rewrite Nat.eqb_refl in Pe; discriminate);
          local_step Hs i; split_ifs E; injection E as Ev _; rewrite Hv, <- Ev; cbn [v_in]; try reflexivity.
        -- (* call *) repeat rewrite Bool.andb_true_iff in C. destruct C as ((_ & Hr) & _).
           unfold in_ready in Hr. rewrite Hg in Hr. apply Bool.andb_true_iff in Hr. destruct Hr as (Hr & _).
           destruct (v_in (vals s0 i)); try discriminate. rewrite Hg. destruct (m_ref m); reflexivity.
        -- (* user drop *) repeat rewrite Bool.andb_true_iff in C. destruct C as ((_ & Hr) & _).
           destruct (v_in (vals s0 i)); try discriminate. reflexivity.
        -- (* drop in *) repeat rewrite Bool.andb_true_iff in C0. destruct C0 as ((_ & Hr) & _).
           destruct (v_in (vals s0 i)); try discriminate. reflexivity.
      * rewrite (step_other m s0 e s1 i Hs) by congruence. reflexivity.
    + cbn in Hc. rewrite Hc.
      pose proof (final_at m s i F Hi) as Fv. unfold final_val in Fv. rewrite Hg in Fv.
      apply Bool.andb_true_iff in Fv. destruct Fv as (Fv & _).
      destruct (v_in (vals s i)); try reflexivity.
      destruct (m_ref m), (m_idrop m); discriminate.
  - eapply (count_none m (is_gen_of i)); [|exact R].
    intros s0 e s1 Hs. destruct e; try reflexivity. cbn.
    local_step Hs id. split_ifs E. repeat rewrite Bool.andb_true_iff in C. destruct C as ((_ & C) & _).
    apply Nat.ltb_lt in C. apply Nat.eqb_neq. lia.
Qed.

(** ** Every output with a destructor is dropped exactly once; no other output is ever dropped *)
Theorem dropout_once m l :
  sb_sample m l = true ->
  forall i, count (is_dropout_of i) l = if (i <? m_n m) && m_odrop m then 1 else 0.
Proof.
  intros H i. destruct (sb_sample_exec m l H) as (s & R & F).
  destruct ((i <? m_n m) && m_odrop m) eqn:Hcond.
  - apply Bool.andb_true_iff in Hcond. destruct Hcond as (Hi & Ho). apply Nat.ltb_lt in Hi.
    destruct (count_flag m (is_dropout_of i) (fun s => oval_eqb (v_out (vals s i)) WDropped))
      with (l := l) (s := mstate0) (s' := s) as (Hc & _); [| |exact R|].
    + intros s0 e s1 Hs Pe. destruct e; try discriminate. cbn in Pe. apply Nat.eqb_eq in Pe. subst id.
      local_step Hs i. split_ifs E. injection E as Ev _. rewrite Hv, <- Ev.
      repeat rewrite Bool.andb_true_iff in C. destruct C as (_ & C).
      destruct (v_out (vals s0 i)); try discriminate. split; reflexivity.
    + intros s0 e s1 Hs Pe.
      destruct (ev_index e) as [j|] eqn:Ej.
      * destruct (Nat.eq_dec j i) as [->|Hne]; [|rewrite (step_other m s0 e s1 i Hs) by congruence; reflexivity].
        destruct e; try discriminate; cbn in Ej; injection Ej as ->;
          try (cbn in Pe; rewrite Nat.eqb_refl in Pe; discriminate);
          local_step Hs i; split_ifs E; injection E as Ev _; rewrite Hv, <- Ev; cbn [v_out]; try reflexivity.
        (* call *) repeat rewrite Bool.andb_true_iff in C. destruct C as (_ & Hr).
        destruct (v_out (vals s0 i)); try discriminate. reflexivity.
      * rewrite (step_other m s0 e s1 i Hs) by congruence. reflexivity.
    + cbn in Hc. rewrite Hc.
      pose proof (final_at m s i F Hi) as Fv. unfold final_val in Fv. rewrite Ho in Fv.
      apply Bool.andb_true_iff in Fv. destruct Fv as (_ & Fv). rewrite Fv. reflexivity.
  - eapply (count_none m (is_dropout_of i)); [|exact R].
    intros s0 e s1 Hs. destruct e; try reflexivity. cbn.
    local_step Hs id. split_ifs E. repeat rewrite Bool.andb_true_iff in C. destruct C as (((_ & C1) & C2) & _).
    apply Nat.eqb_neq. intros ->. rewrite C1, C2 in Hcond. discriminate.
Qed.

(** ** Nobody drops an input twice; the framework drops exactly the lent ones with a destructor *)
Lemma dropin_count m l s :
  mon_exec m l mstate0 = Some s -> forall i,
  count (is_dropin_of i) l = if ival_eqb (v_in (vals s i)) VDropped then 1 else 0.
Proof.
  intros R i.
  destruct (count_flag m (is_dropin_of i) (fun s => ival_eqb (v_in (vals s i)) VDropped))
    with (l := l) (s := mstate0) (s' := s) as (Hc & _); [| |exact R|exact Hc].
  - intros s0 e s1 Hs Pe. destruct e; try discriminate; cbn in Pe; apply Nat.eqb_eq in Pe; subst id;
      local_step Hs i; split_ifs E; injection E as Ev _; rewrite Hv, <- Ev.
    + repeat rewrite Bool.andb_true_iff in C. destruct C as ((_ & Hr) & _).
      destruct (v_in (vals s0 i)); try discriminate. split; reflexivity.
    + repeat rewrite Bool.andb_true_iff in C0. destruct C0 as ((_ & Hr) & _).
      destruct (v_in (vals s0 i)); try discriminate. split; reflexivity.
  - intros s0 e s1 Hs Pe.
    destruct (ev_index e) as [j|] eqn:Ej.
    + destruct (Nat.eq_dec j i) as [->|Hne]; [|rewrite (step_other m s0 e s1 i Hs) by congruence; reflexivity].
      destruct e; try discriminate; cbn in Ej; injection Ej as ->;
        try (cbn in Pe; rewrite Nat.eqb_refl in Pe; discriminate);
        local_step Hs i; split_ifs E; injection E as Ev _; rewrite Hv, <- Ev; cbn [v_in]; try reflexivity.
      * (* gen *) repeat rewrite Bool.andb_true_iff in C. destruct C as (_ & C).
        destruct (v_in (vals s0 i)); try discriminate. reflexivity.
      * (* call *) repeat rewrite Bool.andb_true_iff in C. destruct C as ((_ & Hr) & _).
        unfold in_ready in Hr. destruct (m_gen m).
        -- apply Bool.andb_true_iff in Hr. destruct Hr as (Hr & _).
           destruct (v_in (vals s0 i)); try discriminate. destruct (m_ref m); reflexivity.
        -- destruct (v_in (vals s0 i)); try discriminate. reflexivity.
    + rewrite (step_other m s0 e s1 i Hs) by congruence. reflexivity.
Qed.

Theorem dropin_at_most_once m l :
  sb_sample m l = true -> forall i, count (is_dropin_of i) l <= 1.
Proof.
  intros H i. destruct (sb_sample_exec m l H) as (s & R & _).
  rewrite (dropin_count m l s R i). destruct (ival_eqb (v_in (vals s i)) VDropped); lia.
Qed.

Definition is_fw_dropin (e : oev nat) : bool := match e with ODropIn _ => true | _ => false end.
Definition is_udropin (e : oev nat) : bool := match e with OUDropIn _ => true | _ => false end.
Definition is_fw_dropin_of (i : nat) (e : oev nat) : bool :=
  match e with ODropIn j => Nat.eqb j i | _ => false end.
Definition is_udropin_of (i : nat) (e : oev nat) : bool :=
  match e with OUDropIn j => Nat.eqb j i | _ => false end.

(** An input given away by value is never dropped by the framework. *)
Theorem by_value_never_dropped m l :
  sb_sample m l = true -> m_ref m = false -> count is_fw_dropin l = 0.
Proof.
  intros H Hr. destruct (sb_sample_exec m l H) as (s & R & _).
  eapply (count_none m is_fw_dropin); [|exact R].
  intros s0 e s1 Hs. destruct e; try reflexivity.
  local_step Hs id. rewrite Hr in E. cbn in E. discriminate.
Qed.

(** With an invariant of the reachable states. *)
Lemma count_none_inv m (P : oev nat -> bool) (I : mstate -> Prop) :
  (forall s e s', I s -> mon_step m s e = inr s' -> I s') ->
  (forall s e s', I s -> mon_step m s e = inr s' -> P e = false) ->
  forall l s s', I s -> mon_exec m l s = Some s' -> count P l = 0.
Proof.
  intros HI H. induction l as [|e l IH]; intros s s' Is Hl; cbn in *; [reflexivity|].
  destruct (mon_step m s e) as [c|s1] eqn:E; [discriminate|].
  rewrite (H s e s1 Is E). cbn. eapply IH; [eapply HI; eassumption|exact Hl].
Qed.

(** A lent input is never owned by the benchmarked function, which hence never drops it. *)
Theorem lent_never_dropped_by_callee m l :
  sb_sample m l = true -> m_ref m = true -> count is_udropin l = 0.
Proof.
  intros H Hr. destruct (sb_sample_exec m l H) as (s & R & _).
  eapply (count_none_inv m is_udropin (fun s => forall i, v_in (vals s i) <> VGiven)); [| | |exact R].
  - intros s0 e s1 I0 Hs i.
    destruct (ev_index e) as [j|] eqn:Ej.
    + destruct (Nat.eq_dec j i) as [->|Hne]; [|rewrite (step_other m s0 e s1 i Hs) by congruence; apply I0].
      destruct e; try discriminate; cbn in Ej; injection Ej as ->;
        local_step Hs i; split_ifs E; injection E as Ev _; rewrite Hv, <- Ev; cbn [v_in];
        try discriminate; try apply I0.
      rewrite Hr. destruct (m_gen m); discriminate.
    + rewrite (step_other m s0 e s1 i Hs) by congruence. apply I0.
  - intros s0 e s1 I0 Hs. destruct e; try reflexivity.
    local_step Hs id. split_ifs E. repeat rewrite Bool.andb_true_iff in C. destruct C as ((_ & Hx) & _).
    exfalso. apply (I0 id). destruct (v_in (vals s0 id)); try discriminate. reflexivity.
  - intros i. cbn. discriminate.
Qed.

Lemma count_dropin_split i l :
  count (is_dropin_of i) l = count (is_fw_dropin_of i) l + count (is_udropin_of i) l.
Proof.
  induction l as [|e l IH]; cbn; [reflexivity|]. rewrite IH.
  destruct e; cbn; try lia; destruct (Nat.eqb id i); lia.
Qed.

Lemma count_le {A} (P Q : A -> bool) l :
  (forall x, P x = true -> Q x = true) -> count P l <= count Q l.
Proof.
  intros H. induction l as [|x l IH]; cbn; [lia|].
  destruct (P x) eqn:Px; [rewrite (H x Px); lia|destruct (Q x); lia].
Qed.

(** A lent input with a destructor is dropped by the framework exactly once;
    without destructor, never. *)
Theorem lent_dropped_once m l :
  sb_sample m l = true -> m_gen m = true -> m_ref m = true ->
  forall i, i < m_n m -> count (is_fw_dropin_of i) l = if m_idrop m then 1 else 0.
Proof.
  intros H Hg Hr i Hi. destruct (sb_sample_exec m l H) as (s & R & F).
  pose proof (dropin_count m l s R i) as Hc. rewrite count_dropin_split in Hc.
  assert (Hu : count (is_udropin_of i) l = 0).
  { pose proof (lent_never_dropped_by_callee m l H Hr) as Hz.
    pose proof (count_le (is_udropin_of i) is_udropin l) as Hle.
    assert (count (is_udropin_of i) l <= count is_udropin l).
    { apply Hle. intros e He. destruct e; try discriminate. reflexivity. }
    lia. }
  rewrite Hu, Nat.add_0_r in Hc. rewrite Hc.
  pose proof (final_at m s i F Hi) as Fv. unfold final_val in Fv. rewrite Hg, Hr in Fv.
  apply Bool.andb_true_iff in Fv. destruct Fv as (Fv & _).
  destruct (m_idrop m); [rewrite Fv; reflexivity|].
  destruct (v_in (vals s i)); try discriminate. reflexivity.
Qed.

(** ** Order: what must have happened before an accepted event *)

Lemma flag_event m (P : oev nat -> bool) (phi : mstate -> bool) :
  (forall s e s', mon_step m s e = inr s' -> P e = false -> phi s' = true -> phi s = true) ->
  forall l s s', mon_exec m l s = Some s' -> phi s = false -> phi s' = true -> 1 <= count P l.
Proof.
  intros H. induction l as [|e l IH]; intros s s' Hl F0 F1; cbn in *.
  - inversion Hl; subst. congruence.
  - destruct (mon_step m s e) as [c|s1] eqn:E; [discriminate|].
    destruct (P e) eqn:Pe; [lia|]. cbn.
    destruct (phi s1) eqn:F; [|eapply IH; eassumption].
    rewrite (H s e s1 E Pe F) in F0. discriminate.
Qed.

Lemma exec_split m l1 e l2 s :
  mon_exec m (l1 ++ e :: l2) mstate0 = Some s ->
  exists s1 s2, mon_exec m l1 mstate0 = Some s1 /\ mon_step m s1 e = inr s2 /\ mon_exec m l2 s2 = Some s.
Proof.
  rewrite mon_exec_app. destruct (mon_exec m l1 mstate0) as [s1|]; [|discriminate]. cbn.
  destruct (mon_step m s1 e) as [c|s2] eqn:E; [discriminate|]. intros H. exists s1, s2. auto.
Qed.

Definition ckind_eqb (a b : ckind) : bool :=
  match a, b with
  | Bytes, Bytes | Chars, Chars | Cycles, Cycles | Items, Items => true
  | _, _ => false
  end.

Definition is_count_of (k : ckind) (i : nat) (e : oev nat) : bool :=
  match e with OCount k' j => ckind_eqb k' k && Nat.eqb j i | _ => false end.

Lemma uses_set_cnt cs k' k : uses (set_cnt cs k') k = if ckind_eqb k' k then true else uses cs k.
Proof. destruct k', k; reflexivity. Qed.

Lemma cs_eqb_uses a b k : cs_eqb a b = true -> uses a k = uses b k.
Proof.
  unfold cs_eqb. repeat rewrite Bool.andb_true_iff. intros (((H1 & H2) & H3) & H4).
  apply Bool.eqb_prop in H1, H2, H3, H4. destruct k; cbn; assumption.
Qed.

(** Steps that are not a count of kind [k] on index [i] leave that counter flag alone. *)
Lemma count_flag_step m k i s e s' :
  mon_step m s e = inr s' -> is_count_of k i e = false ->
  uses (v_cnt (vals s' i)) k = uses (v_cnt (vals s i)) k.
Proof.
  intros Hs Pe. destruct (ev_index e) as [j|] eqn:Ej.
  - destruct (Nat.eq_dec j i) as [->|Hne]; [|rewrite (step_other m s e s' i Hs) by congruence; reflexivity].
    destruct e; try discriminate; cbn in Ej; injection Ej as ->;
      local_step Hs i; split_ifs E; injection E as Ev _; rewrite Hv, <- Ev; cbn [v_cnt]; try reflexivity.
    rewrite uses_set_cnt. cbn in Pe. rewrite Nat.eqb_refl, Bool.andb_true_r in Pe. rewrite Pe. reflexivity.
  - rewrite (step_other m s e s' i Hs) by congruence. reflexivity.
Qed.

Lemma count_ge_split {A} (P : A -> bool) l :
  1 <= count P l -> exists l1 e l2, l = l1 ++ e :: l2 /\ P e = true.
Proof.
  induction l as [|x l IH]; cbn; [lia|]. destruct (P x) eqn:Px.
  - intros _. exists [], x, l. auto.
  - intros H. destruct (IH H) as (l1 & e & l2 & -> & He). exists (x :: l1), e, l2. auto.
Qed.

(** ** Every value is shown exactly once to each counter that exists, never to another *)
Theorem counted_once m l :
  sb_sample m l = true -> m_gen m = true ->
  forall k i, count (is_count_of k i) l = if (i <? m_n m) && uses (m_cs m) k then 1 else 0.
Proof.
  intros H Hg k i. destruct (sb_sample_exec m l H) as (s & R & F).
  destruct ((i <? m_n m) && uses (m_cs m) k) eqn:Hcond.
  - apply Bool.andb_true_iff in Hcond. destruct Hcond as (Hi & Hk).
    destruct (count_flag m (is_count_of k i) (fun s => uses (v_cnt (vals s i)) k))
      with (l := l) (s := mstate0) (s' := s) as (Hc & _); [| |exact R|].
    + intros s0 e s1 Hs Pe. destruct e; try discriminate. cbn in Pe.
      apply Bool.andb_true_iff in Pe. destruct Pe as (Pk & Pi). apply Nat.eqb_eq in Pi. subst id.
      assert (k0 = k) by (destruct k0, k; try discriminate; reflexivity). subst k0.
      local_step Hs i. split_ifs E. injection E as Ev _. rewrite Hv, <- Ev. cbn [v_cnt].
      repeat rewrite Bool.andb_true_iff in C. destruct C as (_ & C). apply Bool.negb_true_iff in C.
      rewrite C, uses_set_cnt. destruct k; split; reflexivity.
    + intros s0 e s1 Hs Pe. apply (count_flag_step m k i s0 e s1 Hs Pe).
    + cbn in Hc. rewrite Hc.
      (* the call of [i] saw all counters set, and flags only go up *)
      pose proof (calls_once m l H i) as Hcall. rewrite Hi in Hcall.
      destruct (count_ge_split (is_call_of i) l) as (l1 & e & l2 & -> & He); [lia|].
      destruct e; try discriminate. cbn in He. apply Nat.eqb_eq in He. subst in_id.
      destruct (exec_split m l1 _ l2 s R) as (s1 & s2 & R1 & Hs & R2).
      assert (F2 : uses (v_cnt (vals s2 i)) k = true).
      { local_step Hs i. split_ifs E. injection E as Ev _. rewrite Hv, <- Ev. cbn [v_cnt].
        repeat rewrite Bool.andb_true_iff in C. destruct C as ((_ & Hr) & _).
        unfold in_ready in Hr. rewrite Hg in Hr. apply Bool.andb_true_iff in Hr. destruct Hr as (_ & Hr).
        rewrite (cs_eqb_uses _ _ k Hr). exact Hk. }
      destruct (count_flag m (is_count_of k i) (fun s => uses (v_cnt (vals s i)) k))
        with (l := l2) (s := s2) (s' := s) as (_ & Hm); [| |exact R2|].
      * intros s0 e s3 Hs' Pe. destruct e; try discriminate. cbn in Pe.
        apply Bool.andb_true_iff in Pe. destruct Pe as (Pk & Pi). apply Nat.eqb_eq in Pi. subst id.
        assert (k0 = k) by (destruct k0, k; try discriminate; reflexivity). subst k0.
        local_step Hs' i. split_ifs E. injection E as Ev _. rewrite Hv, <- Ev. cbn [v_cnt].
        repeat rewrite Bool.andb_true_iff in C. destruct C as (_ & C). apply Bool.negb_true_iff in C.
        rewrite C, uses_set_cnt. destruct k; split; reflexivity.
      * intros s0 e s3 Hs' Pe. apply (count_flag_step m k i s0 e s3 Hs' Pe).
      * rewrite (Hm F2). destruct k; reflexivity.
  - eapply (count_none m (is_count_of k i)); [|exact R].
    intros s0 e s1 Hs. destruct e; try reflexivity. cbn.
    local_step Hs id. split_ifs E. repeat rewrite Bool.andb_true_iff in C.
    destruct C as ((((_ & C1) & _) & C2) & _).
    destruct (ckind_eqb k0 k) eqn:Ek; [|reflexivity]. cbn.
    assert (k0 = k) by (destruct k0, k; try discriminate; reflexivity). subst k0.
    apply Nat.eqb_neq. intros ->. rewrite C1, C2 in Hcond. discriminate.
Qed.

(** ** Before-ness *)

(** A count of value [i] comes after its generation; the call of [i] after its
    generation and after its count by every existing counter; the drop of
    output [i] after call [i]; the drop of a lent input [i] after the drop of
    output [i] when outputs have a destructor. *)
Theorem happens_before m l1 e l2 :
  sb_sample m (l1 ++ e :: l2) = true ->
  match e with
  | OCount _ i => 1 <= count (is_gen_of i) l1
  | OCall i _ =>
      (m_gen m = true -> 1 <= count (is_gen_of i) l1)
      /\ (m_gen m = true -> forall k, uses (m_cs m) k = true -> 1 <= count (is_count_of k i) l1)
  | ODropOut i => 1 <= count (is_call_of i) l1
  | ODropIn i => m_odrop m = true -> 1 <= count (is_dropout_of i) l1
  | _ => True
  end.
Proof.
  intros H. destruct (sb_sample_exec m _ H) as (s & R & _).
  destruct (exec_split m l1 e l2 s R) as (s1 & s2 & R1 & Hs & _).
  assert (Gen : forall i, v_in (vals s1 i) <> VNone -> 1 <= count (is_gen_of i) l1).
  { intros i Hne.
    apply (flag_event m (is_gen_of i) (fun s => negb (ival_eqb (v_in (vals s i)) VNone))) with (s := mstate0) (s' := s1);
      [|exact R1|reflexivity|destruct (v_in (vals s1 i)); try reflexivity; contradiction].
    intros s0 e0 s3 Hs0 Pe F3.
    destruct (ev_index e0) as [j|] eqn:Ej.
    - destruct (Nat.eq_dec j i) as [->|Hn]; [|rewrite (step_other m s0 e0 s3 i Hs0) in F3 by congruence; exact F3].
      destruct e0; try discriminate; cbn in Ej; injection Ej as ->;
        try (cbn in Pe; rewrite Nat.eqb_refl in Pe; discriminate);
        local_step Hs0 i; split_ifs E; injection E as Ev _; rewrite Hv, <- Ev in F3; cbn [v_in] in F3;
        try exact F3.
      + (* call *) repeat rewrite Bool.andb_true_iff in C. destruct C as ((_ & Hr) & _).
        unfold in_ready in Hr. destruct (m_gen m); [|discriminate].
        apply Bool.andb_true_iff in Hr. destruct Hr as (Hr & _).
        destruct (v_in (vals s0 i)); try discriminate. reflexivity.
      + (* user drop *) repeat rewrite Bool.andb_true_iff in C. destruct C as ((_ & Hr) & _).
        destruct (v_in (vals s0 i)); try discriminate. reflexivity.
      + (* drop in *) repeat rewrite Bool.andb_true_iff in C0. destruct C0 as ((_ & Hr) & _).
        destruct (v_in (vals s0 i)); try discriminate. reflexivity.
    - rewrite (step_other m s0 e0 s3 i Hs0) in F3 by congruence. exact F3. }
  destruct e; try exact I.
  - (* count *)
    apply Gen. local_step Hs id. split_ifs E. repeat rewrite Bool.andb_true_iff in C.
    destruct C as (((_ & C) & _) & _). destruct (v_in (vals s1 id)); discriminate.
  - (* call *)
    local_step Hs in_id. split_ifs E. repeat rewrite Bool.andb_true_iff in C. destruct C as ((_ & Hr) & _).
    unfold in_ready in Hr. split.
    + intros Hg. rewrite Hg in Hr. apply Bool.andb_true_iff in Hr. destruct Hr as (Hr & _).
      apply Gen. destruct (v_in (vals s1 in_id)); discriminate.
    + intros Hg k Hk. rewrite Hg in Hr. apply Bool.andb_true_iff in Hr. destruct Hr as (_ & Hr).
      apply (flag_event m (is_count_of k in_id) (fun s => uses (v_cnt (vals s in_id)) k)) with (s := mstate0) (s' := s1);
        [|exact R1|destruct k; reflexivity|rewrite (cs_eqb_uses _ _ k Hr); exact Hk].
      intros s0 e0 s3 Hs0 Pe F3. rewrite (count_flag_step m k in_id s0 e0 s3 Hs0 Pe) in F3. exact F3.
  - (* drop out *)
    local_step Hs id. split_ifs E. repeat rewrite Bool.andb_true_iff in C. destruct C as (_ & C).
    apply (flag_event m (is_call_of id) (fun s => negb (oval_eqb (v_out (vals s id)) WNone))) with (s := mstate0) (s' := s1);
      [|exact R1|reflexivity|destruct (v_out (vals s1 id)); try discriminate; reflexivity].
    intros s0 e0 s3 Hs0 Pe F3.
    destruct (ev_index e0) as [j|] eqn:Ej.
    + destruct (Nat.eq_dec j id) as [->|Hjd]; [|rewrite (step_other m s0 e0 s3 id Hs0) in F3 by congruence; exact F3].
      destruct e0; try discriminate; cbn in Ej; injection Ej as ->;
        try (cbn in Pe; rewrite Nat.eqb_refl in Pe; discriminate);
        local_step Hs0 id; split_ifs E0; injection E0 as Ev _; rewrite Hv0, <- Ev in F3; cbn [v_out] in F3;
        try exact F3.
      repeat rewrite Bool.andb_true_iff in C0. destruct C0 as (_ & C0).
      destruct (v_out (vals s0 id)); try discriminate; reflexivity.
    + rewrite (step_other m s0 e0 s3 id Hs0) in F3 by congruence. exact F3.
  - (* drop in *)
    intros Ho. local_step Hs id. split_ifs E. rewrite Ho in C0.
    repeat rewrite Bool.andb_true_iff in C0. destruct C0 as (_ & C0).
    apply (flag_event m (is_dropout_of id) (fun s => oval_eqb (v_out (vals s id)) WDropped)) with (s := mstate0) (s' := s1);
      [|exact R1|reflexivity|exact C0].
    intros s0 e0 s3 Hs0 Pe F3.
    destruct (ev_index e0) as [j|] eqn:Ej.
    + destruct (Nat.eq_dec j id) as [->|Hjd]; [|rewrite (step_other m s0 e0 s3 id Hs0) in F3 by congruence; exact F3].
      destruct e0; try discriminate; cbn in Ej; injection Ej as ->;
        try (cbn in Pe; rewrite Nat.eqb_refl in Pe; discriminate);
        local_step Hs0 id; split_ifs E0; injection E0 as Ev _; rewrite Hv0, <- Ev in F3; cbn [v_out] in F3;
        try exact F3; try discriminate.
    + rewrite (step_other m s0 e0 s3 id Hs0) in F3 by congruence. exact F3.
Qed.
