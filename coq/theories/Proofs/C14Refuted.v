(** The behaviour before the repairs a75ec0a (F2) and 8d95131 (F3), kept as
    refutations: with the old code the C14 statements fail on concrete trees. *)
From DivanV Require Import Base.Res Model.Registry Model.Tree Model.Driver.
Local Open Scope N_scope.

(** [run_tree_list] before 8d95131: [ignore] taken from each node's own
    attribute only, decided at every node (parents included). *)
Fixpoint old_list_node (c : cfg) (pp : str) (t : tree) : list action :=
  let ignore := default_false (match node_opts t with Some o => o_ignore o | None => None end) in
  if should_ignore c ignore then []
  else
    let full := join_path pp (display_name t) in
    match t with
    | Leaf e None => [APrintln (full ++ s_benchmark)]
    | Leaf e (Some l) => map (fun i => APrintln (arg_path full e i ++ s_benchmark)) l
    | Parent _ _ ch => flat_map (old_list_node c full) ch
    end.

Definition r_c : str := [99].
Definition r_g : str := [103].
Definition r_k : str := [107].
Definition r_cg : str := [99; 58; 58; 103].
Definition r_opts (b : bool) : opts := {| o_ignore := Some b; o_sample_count := None |}.
Definition r_meta (d modpath : str) (o : option opts) : meta :=
  {| m_display := d; m_raw := d; m_modpath := modpath; m_line := 1; m_col := 1; m_opts := o |}.
Definition r_kept : bench_entry := {| b_id := 0; b_meta := r_meta r_k r_cg (Some (r_opts false)); b_runner := RPlain |}.
Definition r_group : group_entry := {| g_id := 10; g_meta := r_meta r_g r_c (Some (r_opts true)); g_generic := None |}.
Definition r_ign : bench_entry := {| b_id := 1; b_meta := r_meta r_k r_c (Some (r_opts true)); b_runner := RPlain |}.
Definition r_cfg (ri : run_ignored) : cfg :=
  {| c_run_ignored := ri; c_opts := {| o_ignore := None; o_sample_count := None |}; c_filter := fun _ => true; c_threads := [] |}.

(** F3a: an ignored group hides a child that sets [ignore = false]: the run
    executes it, the old listing printed nothing, the repaired one lists it. *)
Example F3_ignored_group_hides_override :
  let t := build_tree [r_kept] [r_group] in
  exec_paths (fst (run_forest (r_cfg RINo) Test [] None t)) = [[99; 58; 58; 103; 58; 58; 107]] /\
  lines (flat_map (old_list_node (r_cfg RINo) []) t) = [] /\
  lines (list_forest (r_cfg RINo) [] None t) = [[99; 58; 58; 103; 58; 58; 107] ++ s_benchmark].
Proof. repeat split; vm_compute; reflexivity. Qed.

(** F3b: under [--ignored] the old listing printed nothing at all (the crate
    root counts as "not ignored"), while the run executes the ignored benchmark. *)
Example F3_only_ignored_lists_nothing :
  let t := build_tree [r_ign] [] in
  exec_paths (fst (run_forest (r_cfg RIOnly) Test [] None t)) = [[99; 58; 58; 107]] /\
  lines (flat_map (old_list_node (r_cfg RIOnly) []) t) = [] /\
  lines (list_forest (r_cfg RIOnly) [] None t) = [[99; 58; 58; 107] ++ s_benchmark].
Proof. repeat split; vm_compute; reflexivity. Qed.

(** F2: [Divan::list_benches] used to be [run_action(Action::Test)]: it ran everything. *)
Definition old_list_benches c srt := run_action c srt Test.
Example F2_list_benches_ran_everything :
  existsb runs_something (fst (old_list_benches (r_cfg RINo) (fun t => t) [r_ign; r_kept] [r_group])) = true /\
  existsb runs_something (fst (list_benches (r_cfg RINo) (fun t => t) [r_ign; r_kept] [r_group])) = false.
Proof. split; vm_compute; reflexivity. Qed.
