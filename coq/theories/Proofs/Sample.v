(** Proofs about Model/Sample.v: the memory discipline ([exec]) and the
    per-sample monitor ([sb_sample]) hold of [sample_prog] for every entry
    point, shape, counter set, sample size. *)

From DivanV Require Import Base.Res Model.Sample.
From Coq Require Import Arith.
Local Open Scope nat_scope.
Local Arguments Nat.ltb _ _ : simpl never.
Local Arguments Nat.eqb _ _ : simpl nomatch.

(** * Generic list facts *)

Lemma flat_map_flat_map {A B C} (f : A -> list B) (g : B -> list C) (l : list A) :
  flat_map g (flat_map f l) = flat_map (fun x => flat_map g (f x)) l.
Proof.
  induction l as [|x l IH]; cbn; [reflexivity|].
  rewrite flat_map_app, IH. reflexivity.
Qed.

Lemma upd_same {A} (f : nat -> A) i v : upd f i v i = v.
Proof. unfold upd. rewrite Nat.eqb_refl. reflexivity. Qed.

Lemma upd_other {A} (f : nat -> A) i v j : j <> i -> upd f i v j = f j.
Proof. intros H. unfold upd. destruct (Nat.eqb_spec j i); [contradiction|reflexivity]. Qed.

(** * The memory discipline *)

Lemma exec_app l1 l2 s :
  exec (l1 ++ l2) s =
  match exec l1 s with SOk s' => exec l2 s' | SFault f i => SFault f i end.
Proof.
  revert s. induction l1 as [|a l1 IH]; intros s; cbn; [reflexivity|].
  destruct (exec_step s a); [apply IH|reflexivity].
Qed.

Fixpoint cell_run (l : list action) (v : ist * ost) : fault + ist * ost :=
  match l with
  | [] => inr v
  | a :: r => match cell_step v a with inl f => inl f | inr v' => cell_run r v' end
  end.

Definition block_at (i : nat) (l : list action) : Prop :=
  Forall (fun a => act_index a = Some i) l.

Lemma exec_block i l :
  block_at i l -> forall s v, cell_run l (s i) = inr v ->
  exists s', exec l s = SOk s' /\ s' i = v /\ forall j, j <> i -> s' j = s j.
Proof.
  induction 1 as [|a l Ha Hl IH]; intros s v Hrun; cbn in *.
  - inversion Hrun; subst. exists s. auto.
  - unfold exec_step. rewrite Ha.
    destruct (cell_step (s i) a) as [f|v1] eqn:E; [discriminate|].
    destruct (IH (upd s i v1) v) as (s' & He & Hi & Ho).
    { rewrite upd_same. exact Hrun. }
    exists s'. split; [exact He|]. split; [exact Hi|].
    intros j Hj. rewrite (Ho j Hj). apply upd_other. exact Hj.
Qed.

Lemma exec_range (blk : nat -> list action) (X Y : ist * ost) :
  (forall i, block_at i (blk i)) ->
  (forall i, cell_run (blk i) X = inr Y) ->
  forall k a s, (forall j, a <= j < a + k -> s j = X) ->
  exists s', exec (flat_map blk (seq a k)) s = SOk s'
             /\ (forall j, a <= j < a + k -> s' j = Y)
             /\ (forall j, ~ (a <= j < a + k) -> s' j = s j).
Proof.
  intros Hb Hc. induction k as [|k IH]; intros a s Hs; cbn.
  - exists s. split; [reflexivity|]. split; [intros j Hj; lia|auto].
  - rewrite exec_app.
    destruct (exec_block a (blk a) (Hb a) s Y) as (s1 & He1 & Ha1 & Ho1).
    { rewrite Hs by lia. apply Hc. }
    rewrite He1.
    destruct (IH (S a) s1) as (s2 & He2 & Hin & Hout).
    { intros j Hj. rewrite Ho1 by lia. apply Hs. lia. }
    exists s2. split; [exact He2|]. split.
    + intros j Hj. destruct (Nat.eq_dec j a) as [->|Hne].
      * rewrite Hout by lia. exact Ha1.
      * apply Hin. lia.
    + intros j Hj. rewrite Hout by lia. apply Ho1. lia.
Qed.

(** States of a cell pair after each phase. *)
Definition gen_in (p : path) : ist := match p with PathZst => IForgotten | _ => IInit end.
Definition call_in (p : path) (r u : bool) : ist :=
  if r then gen_in p else if u then IDropped else IMoved.
Definition call_out (p : path) : ost :=
  match p with PathZst => OForgotten | PathSlots => OInit | PathInputs => ODropped end.
Definition drop_in (p : path) (sh : shape) (r u : bool) : ist :=
  if r && i_drop sh then IDropped else call_in p r u.
Definition drop_out (p : path) (sh : shape) : ost :=
  match p with
  | PathZst => if o_zst sh then ODropped else OForgotten
  | _ => ODropped
  end.

Lemma gen_block_at p cs i : block_at i (gen_block p cs i).
Proof. destruct p, cs as [[] [] [] []]; repeat constructor. Qed.

Lemma gen_cell p cs i : cell_run (gen_block p cs i) (IUninit, OUninit) = inr (gen_in p, OUninit).
Proof. destruct p, cs as [[] [] [] []]; reflexivity. Qed.

Lemma call_block_at p r u i : block_at i (call_block p r u i).
Proof. destruct p, r, u; repeat constructor. Qed.

Lemma call_cell p r u i :
  cell_run (call_block p r u i) (gen_in p, OUninit) = inr (call_in p r u, call_out p).
Proof. destruct p, r, u; reflexivity. Qed.

Lemma drop_block_at p sh r i : block_at i (drop_block p sh r i).
Proof. destruct p, sh as [[] [] [] []], r; repeat constructor. Qed.

Lemma drop_cell sh r u i :
  let p := path_of sh in
  (p = PathInputs -> i_drop sh = true) ->
  cell_run (drop_block p sh r i) (call_in p r u, call_out p) = inr (drop_in p sh r u, drop_out p sh).
Proof.
  destruct sh as [[] [] [] []], r, u; cbn; intros H; try reflexivity;
    (discriminate (H eq_refl)).
Qed.

Lemma exec_nil_effect s : exec [SyncStart; TsStart] s = SOk s /\ exec [TsEnd; SyncEnd; Snapshot] s = SOk s.
Proof. split; reflexivity. Qed.

(** The sample, on the resolved parameters. *)
Lemma exec_core_ok sh cs r u n :
  let p := path_of sh in
  exists st, exec (sample_core p sh cs r u n) empty_store = SOk st
             /\ (forall j, j < n -> st j = (drop_in p sh r u, drop_out p sh))
             /\ (forall j, n <= j -> st j = (IUninit, OUninit)).
Proof.
  intros p. unfold sample_core, gen_phase, call_phase.
  destruct (exec_range (gen_block p cs) (IUninit, OUninit) (gen_in p, OUninit)
              (gen_block_at p cs) (gen_cell p cs) n 0 empty_store) as (s1 & E1 & I1 & O1).
  { intros; reflexivity. }
  rewrite exec_app, E1. change (exec ([SyncStart; TsStart] ++ ?l) s1) with (exec l s1).
  destruct (exec_range (call_block p r u) (gen_in p, OUninit) (call_in p r u, call_out p)
              (call_block_at p r u) (call_cell p r u) n 0 s1) as (s2 & E2 & I2 & O2).
  { intros j Hj. apply I1. exact Hj. }
  rewrite exec_app, E2. change (exec ([TsEnd; SyncEnd; Snapshot] ++ ?l) s2) with (exec l s2).
  assert (Hout : forall j, n <= j -> s2 j = (IUninit, OUninit)).
  { intros j Hj. rewrite O2 by lia. rewrite O1 by lia. reflexivity. }
  destruct (Bool.bool_dec (match p with PathInputs => negb (i_drop sh) | _ => false end) true) as [Hskip|Hrun].
  - (* inputs-only path, no destructor on inputs: no drop loop at all *)
    assert (Hp : p = PathInputs /\ i_drop sh = false).
    { destruct p; try discriminate. split; [reflexivity|]. destruct (i_drop sh); [discriminate|reflexivity]. }
    destruct Hp as [Hp Hd]. unfold drop_phase. rewrite Hp, Hd. cbn [exec].
    exists s2. split; [reflexivity|]. split; [|exact Hout].
    intros j Hj. rewrite I2 by lia. unfold drop_in, drop_out. rewrite Hp, Hd.
    rewrite Bool.andb_false_r. reflexivity.
  - assert (Hp : p = PathInputs -> i_drop sh = true).
    { intros Hp. rewrite Hp in Hrun. destruct (i_drop sh); [reflexivity|]. exfalso. apply Hrun. reflexivity. }
    assert (Hphase : drop_phase p sh r n = flat_map (drop_block p sh r) (seq 0 n)).
    { unfold drop_phase. destruct p; try reflexivity. rewrite (Hp eq_refl). reflexivity. }
    rewrite Hphase.
    destruct (exec_range (drop_block p sh r) (call_in p r u, call_out p) (drop_in p sh r u, drop_out p sh)
                (drop_block_at p sh r) (fun i => drop_cell sh r u i Hp) n 0 s2) as (s3 & E3 & I3 & O3).
    { intros j Hj. apply I2. exact Hj. }
    exists s3. split; [exact E3|]. split.
    + intros j Hj. apply I3. lia.
    + intros j Hj. rewrite O3 by lia. apply Hout. exact Hj.
Qed.

(** What the final store says, entry point by entry point. *)
Definition final_in (e : entry) (sh : shape) (u : bool) : ist :=
  let s := eff_shape e sh in drop_in (path_of s) s (by_ref e) u.
Definition final_out (e : entry) (sh : shape) : ost :=
  let s := eff_shape e sh in drop_out (path_of s) s.

Theorem exec_sample_ok e sh n cs u :
  exists st, exec (sample_prog e sh n cs u) empty_store = SOk st
             /\ (forall j, j < n -> st j = (final_in e sh u, final_out e sh))
             /\ (forall j, n <= j -> st j = (IUninit, OUninit)).
Proof. unfold sample_prog, final_in, final_out. apply exec_core_ok. Qed.

(** Reading of the final store: a lent input with a destructor was dropped; an
    input given by value was moved out (and dropped by its new owner iff that
    owner chose to); an output with a destructor was dropped; nothing else was. *)
Lemma final_in_meaning e sh u :
  final_in e sh u =
  if by_ref e then
    (if i_drop (eff_shape e sh) then IDropped
     else match path_of (eff_shape e sh) with PathZst => IForgotten | _ => IInit end)
  else if u then IDropped else IMoved.
Proof.
  unfold final_in, drop_in, call_in, gen_in.
  destruct (by_ref e), (i_drop (eff_shape e sh)), u; reflexivity.
Qed.

Lemma final_out_meaning e sh :
  o_drop (eff_shape e sh) = true -> final_out e sh = ODropped.
Proof.
  unfold final_out, drop_out, path_of.
  destruct (eff_shape e sh) as [[] [] [] []]; cbn; intros H; try reflexivity; discriminate.
Qed.

(** * The monitor *)

Fixpoint mon_exec (m : mcfg) (l : list (oev nat)) (s : mstate) : option mstate :=
  match l with
  | [] => Some s
  | e :: rest => match mon_step m s e with inr s' => mon_exec m rest s' | inl _ => None end
  end.

Lemma mon_run_exec m l : forall s s' pos, mon_exec m l s = Some s' -> mon_run m l s pos = MOk s'.
Proof.
  induction l as [|e l IH]; intros s s' pos H; cbn in *.
  - inversion H; reflexivity.
  - destruct (mon_step m s e); [discriminate|]. apply IH. exact H.
Qed.

Lemma mon_exec_app m l1 l2 s :
  mon_exec m (l1 ++ l2) s = match mon_exec m l1 s with Some s' => mon_exec m l2 s' | None => None end.
Proof.
  revert s. induction l1 as [|e l1 IH]; intros s; cbn; [reflexivity|].
  destruct (mon_step m s e); [reflexivity|apply IH].
Qed.

Fixpoint local_run (m : mcfg) (p : phase) (i : nat) (l : list (oev nat)) (v : vst) (nc : nat)
  : option (vst * nat) :=
  match l with
  | [] => Some (v, nc)
  | e :: rest =>
      match mon_local m p nc i v e with
      | inr (v', nc') => local_run m p i rest v' nc'
      | inl _ => None
      end
  end.

Definition evs_at (i : nat) (l : list (oev nat)) : Prop :=
  Forall (fun e => ev_index e = Some i) l.

Lemma mon_block m i l :
  evs_at i l -> forall s v nc,
  local_run m (ph s) i l (vals s i) (ncall s) = Some (v, nc) ->
  exists s', mon_exec m l s = Some s' /\ ph s' = ph s /\ ncall s' = nc /\ vals s' i = v
             /\ forall j, j <> i -> vals s' j = vals s j.
Proof.
  induction 1 as [|e l He Hl IH]; intros s v nc Hrun; cbn in *.
  - inversion Hrun; subst. exists s. auto.
  - unfold mon_step. rewrite He.
    destruct (mon_local m (ph s) (ncall s) i (vals s i) e) as [c|[v1 nc1]] eqn:E; [discriminate|].
    destruct (IH (mkS (ph s) (upd (vals s) i v1) nc1) v nc) as (s' & He' & Hp & Hn & Hv & Ho).
    { cbn. rewrite upd_same. exact Hrun. }
    exists s'. split; [exact He'|]. cbn in Hp. repeat split; auto.
    intros j Hj. rewrite (Ho j Hj). cbn. apply upd_other. exact Hj.
Qed.

Lemma mon_range m (blk : nat -> list (oev nat)) (p : phase) (X Y : vst) (fnc : nat -> nat) (hi : nat) :
  (forall i, evs_at i (blk i)) ->
  (forall i, i < hi -> local_run m p i (blk i) X (fnc i) = Some (Y, fnc (S i))) ->
  forall k a s, a + k <= hi -> ph s = p -> ncall s = fnc a ->
  (forall j, a <= j < a + k -> vals s j = X) ->
  exists s', mon_exec m (flat_map blk (seq a k)) s = Some s' /\ ph s' = p /\ ncall s' = fnc (a + k)
             /\ (forall j, a <= j < a + k -> vals s' j = Y)
             /\ (forall j, ~ (a <= j < a + k) -> vals s' j = vals s j).
Proof.
  intros Hb Hc. induction k as [|k IH]; intros a s Hhi Hp Hn Hs; cbn.
  - exists s. rewrite Nat.add_0_r. repeat split; auto. intros j Hj; lia.
  - rewrite mon_exec_app.
    destruct (mon_block m a (blk a) (Hb a) s Y (fnc (S a))) as (s1 & E1 & P1 & N1 & V1 & O1).
    { rewrite Hp, Hn, Hs by lia. apply Hc. lia. }
    rewrite E1.
    destruct (IH (S a) s1) as (s2 & E2 & P2 & N2 & I2 & O2).
    { lia. } { congruence. } { exact N1. }
    { intros j Hj. rewrite O1 by lia. apply Hs. lia. }
    exists s2. split; [exact E2|]. split; [exact P2|]. split.
    { rewrite N2. f_equal. lia. }
    split.
    + intros j Hj. destruct (Nat.eq_dec j a) as [->|Hne].
      * rewrite O2 by lia. exact V1.
      * apply I2. lia.
    + intros j Hj. rewrite O2 by lia. apply O1. lia.
Qed.

(** Resolved parameters of the monitor and of the visibility. *)
Definition mk_m (g : bool) (sh : shape) (cs : counters) (r : bool) (n : nat) : mcfg :=
  mkM g cs r (i_drop sh) (o_drop sh) n.
Definition mk_v (g : bool) (sh : shape) (multi : bool) : vis :=
  mkVis g (i_drop sh) (o_drop sh) multi.

(** For [bench]/[bench_local]: no counters, by value, unit input. *)
Definition unit_ok (g : bool) (sh : shape) (cs : counters) (r : bool) : Prop :=
  g = false -> cs = no_counters /\ r = false /\ i_drop sh = false.

Definition val_gen (g : bool) (cs : counters) : vst := mkV (if g then VLive else VNone) cs WNone.
Definition val_call (g : bool) (sh : shape) (cs : counters) (r u : bool) : vst :=
  mkV (if g then (if r then VLive else if u && i_drop sh then VDropped else VGiven) else VNone) cs WLive.
Definition val_drop (g : bool) (sh : shape) (cs : counters) (r u : bool) : vst :=
  mkV (if g then (if r then (if i_drop sh then VDropped else VLive)
                  else if u && i_drop sh then VDropped else VGiven) else VNone)
      cs (if o_drop sh then WDropped else WLive).

Lemma obs_gen_at v p cs i : evs_at i (obs v (gen_block p cs i)).
Proof. destruct v as [[] ? ? ?], p, cs as [[] [] [] []]; repeat constructor. Qed.

Lemma obs_call_at v p r u i : evs_at i (obs v (call_block p r u i)).
Proof. destruct v as [? [] ? ?], p, r, u; repeat constructor. Qed.

Lemma obs_drop_at v p sh r i : evs_at i (obs v (drop_block p sh r i)).
Proof. destruct v as [? [] [] ?], p, sh as [[] [] [] []], r; repeat constructor. Qed.

Ltac ltb_true H :=
  repeat match goal with
  | |- context [?i <? ?n] => rewrite H
  end.

Lemma mon_gen_local g sh cs r n multi p i :
  unit_ok g sh cs r -> i < n ->
  local_run (mk_m g sh cs r n) PPre i (obs (mk_v g sh multi) (gen_block p cs i)) vst0 0
  = Some (val_gen g cs, 0).
Proof.
  intros Hu Hlt. apply Nat.ltb_lt in Hlt.
  destruct g.
  - destruct p, cs as [[] [] [] []]; cbn; rewrite ?Hlt; cbn; reflexivity.
  - destruct (Hu eq_refl) as (-> & -> & _). destruct p; cbn; reflexivity.
Qed.

Lemma mon_call_local g sh cs r u n multi i :
  unit_ok g sh cs r -> i < n ->
  let p := path_of sh in
  local_run (mk_m g sh cs r n) PTimed i (obs (mk_v g sh multi) (call_block p r u i)) (val_gen g cs) i
  = Some (val_call g sh cs r u, S i).
Proof.
  intros Hu Hlt p. apply Nat.ltb_lt in Hlt.
  assert (Hcs : cs_eqb cs cs = true) by (destruct cs as [[] [] [] []]; reflexivity).
  destruct g.
  - destruct sh as [[] [] [] []], r, u; cbn; rewrite ?Hlt, ?Nat.eqb_refl, ?Hcs; cbn;
      rewrite ?Nat.eqb_refl; reflexivity.
  - destruct (Hu eq_refl) as (-> & -> & Hd).
    destruct sh as [[] [] [] []], u; cbn in Hd; try discriminate; cbn;
      rewrite ?Hlt, ?Nat.eqb_refl; cbn; reflexivity.
Qed.

Lemma mon_drop_local g sh cs r u n multi i :
  unit_ok g sh cs r -> i < n ->
  let p := path_of sh in
  (p = PathInputs -> i_drop sh = true) ->
  local_run (mk_m g sh cs r n) PPost i (obs (mk_v g sh multi) (drop_block p sh r i)) (val_call g sh cs r u) n
  = Some (val_drop g sh cs r u, n).
Proof.
  intros Hu Hlt p Hp. apply Nat.ltb_lt in Hlt.
  destruct g.
  - destruct sh as [[] [] [] []], r, u; cbn in *; rewrite ?Hlt; cbn; try reflexivity;
      discriminate (Hp eq_refl).
  - destruct (Hu eq_refl) as (-> & -> & Hd).
    destruct sh as [[] [] [] []], u; cbn in Hd; try discriminate; cbn in *; rewrite ?Hlt; cbn; reflexivity.
Qed.

Lemma obs_app v l1 l2 : obs v (l1 ++ l2) = obs v l1 ++ obs v l2.
Proof. apply flat_map_app. Qed.

Lemma obs_flat_map v (blk : nat -> list action) l :
  obs v (flat_map blk l) = flat_map (fun i => obs v (blk i)) l.
Proof. apply flat_map_flat_map. Qed.

Lemma final_val_drop g sh cs r u n :
  final_val (mk_m g sh cs r n) (val_drop g sh cs r u) = true.
Proof. destruct g, r, u, sh as [? [] ? []]; reflexivity. Qed.

(** The monitor accepts the sample, on the resolved parameters. *)
Lemma mon_core_ok g sh cs r u n multi :
  unit_ok g sh cs r ->
  let p := path_of sh in
  exists s, mon_exec (mk_m g sh cs r n) (obs (mk_v g sh multi) (sample_core p sh cs r u n)) mstate0 = Some s
            /\ ph s = PPost /\ ncall s = n
            /\ forall j, j < n -> vals s j = val_drop g sh cs r u.
Proof.
  intros Hu p. set (m := mk_m g sh cs r n). set (v := mk_v g sh multi).
  unfold sample_core, gen_phase, call_phase.
  rewrite !obs_app, !obs_flat_map.
  (* generation *)
  destruct (mon_range m (fun i => obs v (gen_block p cs i)) PPre vst0 (val_gen g cs) (fun _ => 0) n
              (fun i => obs_gen_at v p cs i)
              (fun i Hi => mon_gen_local g sh cs r n multi p i Hu Hi) n 0 mstate0)
    as (s1 & E1 & P1 & N1 & I1 & O1); [lia | reflexivity | reflexivity | intros; reflexivity | ].
  rewrite mon_exec_app, E1.
  (* clear, start *)
  assert (E1' : exists s1', mon_exec m (obs v [SyncStart; TsStart]) s1 = Some s1'
                            /\ ph s1' = PTimed /\ ncall s1' = 0 /\ vals s1' = vals s1).
  { destruct s1 as [ph1 vals1 nc1]. cbn in P1, N1. subst ph1 nc1.
    destruct multi; cbn; eexists; repeat split. }
  destruct E1' as (s1' & E1' & P1' & N1' & V1').
  rewrite mon_exec_app, E1'.
  (* calls *)
  destruct (mon_range m (fun i => obs v (call_block p r u i)) PTimed (val_gen g cs) (val_call g sh cs r u)
              (fun i => i) n
              (fun i => obs_call_at v p r u i)
              (fun i Hi => mon_call_local g sh cs r u n multi i Hu Hi) n 0 s1')
    as (s2 & E2 & P2 & N2 & I2 & O2);
    [lia | exact P1' | exact N1' | intros j Hj; rewrite V1'; apply I1; exact Hj | ].
  rewrite mon_exec_app, E2.
  (* end, snapshot *)
  assert (E2' : exists s2', mon_exec m (obs v [TsEnd; SyncEnd; Snapshot]) s2 = Some s2'
                            /\ ph s2' = PPost /\ ncall s2' = n /\ vals s2' = vals s2).
  { destruct s2 as [ph2 vals2 nc2]. cbn in P2, N2. subst ph2 nc2.
    destruct multi; cbn; rewrite Nat.eqb_refl; cbn; eexists; repeat split. }
  destruct E2' as (s2' & E2' & P2' & N2' & V2').
  rewrite mon_exec_app, E2'.
  (* drops *)
  destruct (Bool.bool_dec (match p with PathInputs => negb (i_drop sh) | _ => false end) true) as [Hskip|Hrun].
  - assert (Hp : p = PathInputs /\ i_drop sh = false).
    { destruct p; try discriminate. split; [reflexivity|]. destruct (i_drop sh); [discriminate|reflexivity]. }
    destruct Hp as [Hp Hd]. unfold drop_phase. rewrite Hp, Hd. cbn [obs flat_map mon_exec].
    exists s2'. repeat split; auto.
    intros j Hj. rewrite V2', I2 by lia.
    assert (Ho : o_drop sh = false).
    { unfold p, path_of in Hp. destruct sh as [[] [] [] []]; cbn in *; try discriminate; reflexivity. }
    unfold val_call, val_drop. rewrite Hd, Ho. rewrite !Bool.andb_false_r. reflexivity.
  - assert (Hp : p = PathInputs -> i_drop sh = true).
    { intros Hp. rewrite Hp in Hrun. destruct (i_drop sh); [reflexivity|]. exfalso. apply Hrun. reflexivity. }
    assert (Hphase : drop_phase p sh r n = flat_map (drop_block p sh r) (seq 0 n)).
    { unfold drop_phase. destruct p; try reflexivity. rewrite (Hp eq_refl). reflexivity. }
    rewrite Hphase, obs_flat_map.
    destruct (mon_range m (fun i => obs v (drop_block p sh r i)) PPost (val_call g sh cs r u) (val_drop g sh cs r u)
                (fun _ => n) n
                (fun i => obs_drop_at v p sh r i)
                (fun i Hi => mon_drop_local g sh cs r u n multi i Hu Hi Hp) n 0 s2')
      as (s3 & E3 & P3 & N3 & I3 & O3);
      [lia | exact P2' | exact N2' | intros j Hj; rewrite V2'; apply I2; exact Hj | ].
    exists s3. repeat split; auto. intros j Hj. apply I3. lia.
Qed.

Lemma unit_ok_entry e sh cs :
  unit_ok (has_gen e) (eff_shape e sh) (eff_counters e cs) (by_ref e).
Proof.
  unfold unit_ok, eff_shape, eff_counters. destruct e; cbn; intros H; try discriminate; auto.
Qed.

(** [sb_sample] holds of the observable events of [sample_prog], for every
    entry point, shape, sample size, counter set, behaviour of the benchmarked
    function towards owned inputs, with and without barrier. *)
Theorem sb_sample_model e sh n cs u multi :
  sb_sample (mcfg_of e sh n cs) (obs (vis_of e sh multi) (sample_prog e sh n cs u)) = true.
Proof.
  unfold sb_sample, sample_prog, mcfg_of, vis_of.
  destruct (mon_core_ok (has_gen e) (eff_shape e sh) (eff_counters e cs) (by_ref e) u n multi
              (unit_ok_entry e sh cs)) as (s & E & P & N & V).
  unfold mk_m, mk_v in E.
  rewrite (mon_run_exec _ _ _ _ 0 E).
  unfold mon_final. cbn [m_n]. rewrite P, N, Nat.eqb_refl. cbn [phase_eqb andb].
  apply forallb_forall. intros j Hj. apply in_seq in Hj.
  rewrite V by lia. apply final_val_drop.
Qed.
