(** Proofs about Model/Tally.v (property C10). *)
From DivanV Require Import Base.Res Model.Tally.
From Coq Require Import ZifyN ZifyBool ZifyNat.
Local Open Scope Z_scope.
Ltac Zify.zify_post_hook ::= Z.div_mod_to_equations.

Arguments N.add : simpl never.
Arguments N.sub : simpl never.
Arguments N.modulo : simpl never.
Arguments Z.add : simpl never.
Arguments Z.sub : simpl never.
Arguments Z.modulo : simpl never.
Arguments Z.max : simpl never.
Arguments Z.opp : simpl never.

(** * Machine arithmetic inside its range *)

Lemma add_u64_ok chk a b : (a + b < two64N)%N -> add_u64 chk a b = Ok (a + b)%N.
Proof.
  intros H. unfold add_u64. apply N.ltb_lt in H. rewrite H. reflexivity.
Qed.

Lemma in_i64_true z : - two63 <= z < two63 -> in_i64 z = true.
Proof. unfold in_i64, two63. lia. Qed.

Lemma add_i64_ok chk a b : - two63 <= a + b < two63 -> add_i64 chk a b = Ok (a + b).
Proof. intros H. unfold add_i64. rewrite in_i64_true by exact H. reflexivity. Qed.

Lemma sub_i64_ok chk a b : - two63 <= a - b < two63 -> sub_i64 chk a b = Ok (a - b).
Proof. intros H. unfold sub_i64. rewrite in_i64_true by exact H. reflexivity. Qed.

Lemma wrap_i64_id z : - two63 <= z < two63 -> wrap_i64 z = z.
Proof. unfold wrap_i64, two63, two64. lia. Qed.

Lemma usize_as_i64_small n : Z.of_N n < two63 -> usize_as_i64 n = Z.of_N n.
Proof. intros H. unfold usize_as_i64. apply wrap_i64_id. unfold two63 in *. lia. Qed.

(** [new.overflowing_sub(old) as isize] is the signed difference whenever that
    difference fits in an isize. *)
Lemma realloc_diff a b :
  (a < two64N)%N -> (b < two64N)%N ->
  - two63 < Z.of_N b - Z.of_N a < two63 ->
  usize_as_i64 (fst (overflowing_sub_u64 b a)) = Z.of_N b - Z.of_N a.
Proof.
  intros Ha Hb Hd. unfold overflowing_sub_u64, usize_as_i64, wrap_i64, two63, two64, two64N in *.
  cbn [fst]. destruct (a <=? b)%N eqn:E.
  - apply N.leb_le in E. rewrite Z.mod_small by lia. lia.
  - apply N.leb_gt in E.
    replace (Z.of_N (b + 18446744073709551616 - a) + 9223372036854775808)
      with ((Z.of_N b - Z.of_N a + 9223372036854775808) + 1 * 18446744073709551616) by lia.
    rewrite Z.mod_add by lia. rewrite Z.mod_small by lia. lia.
Qed.

Lemma realloc_abs a b :
  - two63 < Z.of_N b - Z.of_N a < two63 ->
  i64_as_usize (wrapping_abs_i64 (Z.of_N b - Z.of_N a)) = op_bytes (ORealloc a b).
Proof.
  intros Hd. unfold i64_as_usize, wrapping_abs_i64, op_bytes, two63, two64 in *.
  destruct (Z.eqb _ _) eqn:E1; [lia|].
  rewrite Z.mod_small by lia.
  destruct (b <? a)%N eqn:E2; lia.
Qed.

(** * The specification functions on [pre ++ [o]] *)

Lemma sumN_app l1 l2 : sumN (l1 ++ l2) = (sumN l1 + sumN l2)%N.
Proof. unfold sumN. induction l1 as [|x l1 IH]; cbn [app fold_right]; lia. Qed.

Lemma sumZ_app l1 l2 : sumZ (l1 ++ l2) = sumZ l1 + sumZ l2.
Proof. unfold sumZ. induction l1 as [|x l1 IH]; cbn [app fold_right]; lia. Qed.

Definition ind (b : bool) : N := if b then 1%N else 0%N.

Lemma ops_of_kind_app k l1 l2 : ops_of_kind k (l1 ++ l2) = ops_of_kind k l1 ++ ops_of_kind k l2.
Proof. unfold ops_of_kind. apply filter_app. Qed.

Lemma spec_count_snoc k pre o :
  spec_count k (pre ++ [o]) = (spec_count k pre + ind (opk_eqb (kind_of o) k))%N.
Proof.
  unfold spec_count. rewrite ops_of_kind_app, app_length.
  unfold ops_of_kind at 2. cbn [filter]. destruct (opk_eqb (kind_of o) k); cbn [length ind]; lia.
Qed.

Lemma spec_bytes_snoc k pre o :
  spec_bytes k (pre ++ [o]) = (spec_bytes k pre + ind (opk_eqb (kind_of o) k) * op_bytes o)%N.
Proof.
  unfold spec_bytes. rewrite ops_of_kind_app, map_app, sumN_app.
  unfold ops_of_kind at 2. cbn [filter].
  destruct (opk_eqb (kind_of o) k); unfold sumN; cbn [map fold_right ind]; lia.
Qed.

Lemma live_count_snoc pre o : live_count (pre ++ [o]) = live_count pre + delta_count o.
Proof. unfold live_count. rewrite map_app, sumZ_app. unfold sumZ at 2. cbn [map fold_right]. lia. Qed.

Lemma live_size_snoc pre o : live_size (pre ++ [o]) = live_size pre + delta_size o.
Proof. unfold live_size. rewrite map_app, sumZ_app. unfold sumZ at 2. cbn [map fold_right]. lia. Qed.

Lemma peak_nonneg d ops : 0 <= peak d ops.
Proof. destruct ops; cbn [peak]; lia. Qed.

Lemma peak_snoc d pre o :
  peak d (pre ++ [o]) = Z.max (peak d pre) (sumZ (map d pre) + d o).
Proof.
  induction pre as [|x pre IH].
  - cbn [app peak map]. unfold sumZ. cbn [fold_right]. lia.
  - cbn [app peak map]. rewrite IH. unfold sumZ. cbn [fold_right]. fold (sumZ (map d pre)). lia.
Qed.

Lemma total_weight_app l1 l2 : total_weight (l1 ++ l2) = (total_weight l1 + total_weight l2)%N.
Proof. unfold total_weight. rewrite map_app. apply sumN_app. Qed.

(** * Everything is bounded by the weight *)

Lemma spec_count_bytes_le k ops : (spec_count k ops + spec_bytes k ops <= total_weight ops)%N.
Proof.
  induction ops as [|o ops IH] using rev_ind.
  - unfold spec_count, spec_bytes, total_weight, sumN. cbn. lia.
  - rewrite spec_count_snoc, spec_bytes_snoc, total_weight_app.
    unfold total_weight at 2. unfold sumN. cbn [map fold_right]. unfold op_weight.
    destruct (opk_eqb (kind_of o) k); cbn [ind]; lia.
Qed.

Lemma delta_count_abs o : Z.abs (delta_count o) <= Z.of_N (op_weight o).
Proof. unfold op_weight. destruct o; cbn [delta_count]; lia. Qed.

Lemma delta_size_abs o : Z.abs (delta_size o) <= Z.of_N (op_weight o).
Proof.
  unfold op_weight. destruct o as [s|s|a b]; cbn [delta_size op_bytes]; try lia.
  destruct (b <? a)%N eqn:E; lia.
Qed.

Lemma sum_abs_le (d : aop -> Z) ops :
  (forall o, Z.abs (d o) <= Z.of_N (op_weight o)) ->
  Z.abs (sumZ (map d ops)) <= Z.of_N (total_weight ops).
Proof.
  intros Hd. induction ops as [|o ops IH].
  - cbn. lia.
  - unfold total_weight, sumN, sumZ in *. cbn [map fold_right]. specialize (Hd o). lia.
Qed.

Lemma peak_le (d : aop -> Z) ops :
  (forall o, Z.abs (d o) <= Z.of_N (op_weight o)) ->
  peak d ops <= Z.of_N (total_weight ops).
Proof.
  intros Hd. induction ops as [|o ops IH].
  - cbn. lia.
  - unfold total_weight, sumN in *. cbn [map fold_right peak]. specialize (Hd o). lia.
Qed.

(** The running sum never exceeds the peak (the last prefix is a prefix). *)
Lemma sum_le_peak d ops : sumZ (map d ops) <= peak d ops.
Proof.
  induction ops as [|o ops IH].
  - cbn. lia.
  - unfold sumZ in *. cbn [map fold_right peak]. lia.
Qed.

(** * The state reached after [pre], as the specification describes it *)

Definition spec_tally (k : opk) (ops : list aop) : tally := mkT (spec_count k ops) (spec_bytes k ops).

Definition spec_info (ops : list aop) : info :=
  mkI (spec_tally KGrow ops) (spec_tally KShrink ops) (spec_tally KAlloc ops) (spec_tally KDealloc ops)
      (live_count ops) (peak delta_count ops) (live_size ops) (peak delta_size ops).

Lemma spec_info_nil : spec_info [] = info_init.
Proof. reflexivity. Qed.

Lemma step_exact chk pre o :
  op_wf o = true ->
  (total_weight (pre ++ [o]) < 9223372036854775808)%N ->
  step chk (spec_info pre) o = Ok (spec_info (pre ++ [o])).
Proof.
  intros Hwf Hw.
  rewrite total_weight_app in Hw. unfold total_weight at 2 in Hw. unfold sumN in Hw.
  cbn [map fold_right] in Hw.
  pose proof (spec_count_bytes_le KGrow pre) as Bg.
  pose proof (spec_count_bytes_le KShrink pre) as Bs.
  pose proof (spec_count_bytes_le KAlloc pre) as Ba.
  pose proof (spec_count_bytes_le KDealloc pre) as Bd.
  pose proof (sum_abs_le delta_count pre delta_count_abs) as Bcc. fold (live_count pre) in Bcc.
  pose proof (sum_abs_le delta_size pre delta_size_abs) as Bcs. fold (live_size pre) in Bcs.
  pose proof (peak_le delta_count pre delta_count_abs) as Bmc.
  pose proof (peak_le delta_size pre delta_size_abs) as Bms.
  pose proof (peak_nonneg delta_count pre) as Nmc.
  pose proof (peak_nonneg delta_size pre) as Nms.
  pose proof (sum_le_peak delta_count pre) as Lc. fold (live_count pre) in Lc.
  pose proof (sum_le_peak delta_size pre) as Ls. fold (live_size pre) in Ls.
  unfold spec_info at 2.
  unfold spec_tally.
  rewrite !spec_count_snoc, !spec_bytes_snoc, live_count_snoc, live_size_snoc, !peak_snoc.
  fold (live_count pre). fold (live_size pre).
  destruct o as [s|s|a b]; cbn [step].
  - (* alloc *)
    cbn [op_wf] in Hwf. unfold op_weight in Hw. cbn [op_bytes] in Hw.
    unfold tally_alloc, tally_op, spec_info, spec_tally.
    cbn [get_tally i_alloc t_count t_size].
    rewrite add_u64_ok by (unfold two64N; lia). cbn [bind].
    rewrite add_u64_ok by (unfold two64N; lia). cbn [bind].
    cbn [set_tally i_grow i_shrink i_alloc i_dealloc i_cur_count i_max_count i_cur_size i_max_size].
    rewrite add_i64_ok by (unfold two63; lia). cbn [bind].
    unfold set_counts; cbn [i_grow i_shrink i_alloc i_dealloc i_cur_count i_max_count i_cur_size i_max_size].
    rewrite usize_as_i64_small by (unfold two63; lia).
    rewrite add_i64_ok by (unfold two63; lia). cbn [bind].
    unfold set_sizes; cbn [i_grow i_shrink i_alloc i_dealloc i_cur_count i_max_count i_cur_size i_max_size].
    cbn [kind_of opk_eqb ind delta_count delta_size op_bytes].
    f_equal. f_equal; try (f_equal; lia); try lia.
  - (* dealloc *)
    cbn [op_wf] in Hwf. unfold op_weight in Hw. cbn [op_bytes] in Hw.
    unfold tally_dealloc, tally_op, spec_info, spec_tally.
    cbn [get_tally i_dealloc t_count t_size].
    rewrite add_u64_ok by (unfold two64N; lia). cbn [bind].
    rewrite add_u64_ok by (unfold two64N; lia). cbn [bind].
    cbn [set_tally i_grow i_shrink i_alloc i_dealloc i_cur_count i_max_count i_cur_size i_max_size].
    rewrite sub_i64_ok by (unfold two63; lia). cbn [bind].
    unfold set_counts; cbn [i_grow i_shrink i_alloc i_dealloc i_cur_count i_max_count i_cur_size i_max_size].
    rewrite usize_as_i64_small by (unfold two63; lia).
    rewrite sub_i64_ok by (unfold two63; lia). cbn [bind].
    unfold set_sizes; cbn [i_grow i_shrink i_alloc i_dealloc i_cur_count i_max_count i_cur_size i_max_size].
    cbn [kind_of opk_eqb ind delta_count delta_size op_bytes].
    f_equal. f_equal; try (f_equal; lia); try lia.
  - (* realloc *)
    cbn [op_wf] in Hwf. apply andb_prop in Hwf. destruct Hwf as [Hwa Hwb].
    apply N.ltb_lt in Hwa. apply N.ltb_lt in Hwb.
    assert (Hd : - two63 < Z.of_N b - Z.of_N a < two63).
    { unfold op_weight in Hw. cbn [op_bytes] in Hw. unfold two63.
      destruct (b <? a)%N eqn:E; lia. }
    unfold tally_realloc.
    pose proof (realloc_diff a b Hwa Hwb Hd) as Hdiff.
    destruct (overflowing_sub_u64 b a) as [du sh] eqn:Eos.
    cbn [fst] in Hdiff. rewrite Hdiff. rewrite realloc_abs by exact Hd.
    assert (Hsh : sh = (b <? a)%N).
    { unfold overflowing_sub_u64 in Eos. inversion Eos. reflexivity. }
    subst sh.
    unfold op_weight in Hw.
    cbn [kind_of delta_count delta_size].
    destruct (b <? a)%N eqn:E.
    + unfold tally_op, spec_info, spec_tally.
      cbn [get_tally i_shrink t_count t_size].
      rewrite add_u64_ok by (unfold two64N; lia). cbn [bind].
      rewrite add_u64_ok by (unfold two64N; lia). cbn [bind].
      cbn [set_tally i_grow i_shrink i_alloc i_dealloc i_cur_count i_max_count i_cur_size i_max_size].
      rewrite add_i64_ok by (unfold two63 in *; cbn [op_bytes] in Hw; rewrite E in Hw; lia). cbn [bind].
      unfold set_sizes; cbn [i_grow i_shrink i_alloc i_dealloc i_cur_count i_max_count i_cur_size i_max_size].
      cbn [opk_eqb ind].
      f_equal. f_equal; try (f_equal; lia); try lia.
    + unfold tally_op, spec_info, spec_tally.
      cbn [get_tally i_grow t_count t_size].
      rewrite add_u64_ok by (unfold two64N; lia). cbn [bind].
      rewrite add_u64_ok by (unfold two64N; lia). cbn [bind].
      cbn [set_tally i_grow i_shrink i_alloc i_dealloc i_cur_count i_max_count i_cur_size i_max_size].
      rewrite add_i64_ok by (unfold two63 in *; cbn [op_bytes] in Hw; rewrite E in Hw; lia). cbn [bind].
      unfold set_sizes; cbn [i_grow i_shrink i_alloc i_dealloc i_cur_count i_max_count i_cur_size i_max_size].
      cbn [opk_eqb ind].
      f_equal. f_equal; try (f_equal; lia); try lia.
Qed.

(** * Whole sequences *)

Lemma no_overflow_app a b :
  no_overflow (a ++ b) = true -> no_overflow a = true /\ no_overflow b = true.
Proof.
  unfold no_overflow. rewrite forallb_app, total_weight_app. intros H.
  apply andb_prop in H. destruct H as [H1 H2]. apply andb_prop in H1. destruct H1 as [Ha Hb].
  rewrite Ha, Hb. cbn [andb]. lia.
Qed.

Lemma no_overflow_snoc_parts pre o :
  no_overflow (pre ++ [o]) = true ->
  op_wf o = true /\ (total_weight (pre ++ [o]) < 9223372036854775808)%N.
Proof.
  unfold no_overflow. rewrite forallb_app. cbn [forallb]. intros H.
  apply andb_prop in H. destruct H as [H1 H2]. apply andb_prop in H1. destruct H1 as [_ Hb].
  rewrite andb_true_r in Hb. split; [exact Hb|lia].
Qed.

Lemma run_from_exact chk ops : forall pre,
  no_overflow (pre ++ ops) = true ->
  run_from chk (spec_info pre) ops = Ok (spec_info (pre ++ ops)).
Proof.
  induction ops as [|o ops IH]; intros pre H.
  - rewrite app_nil_r. reflexivity.
  - cbn [run_from].
    replace (pre ++ o :: ops) with ((pre ++ [o]) ++ ops) in * by (rewrite <- app_assoc; reflexivity).
    pose proof (no_overflow_app _ _ H) as [H1 _].
    apply no_overflow_snoc_parts in H1. destruct H1 as [Hwf Hw].
    rewrite step_exact by assumption. cbn [bind]. apply IH. exact H.
Qed.

Lemma run_exact chk ops : no_overflow ops = true -> run chk ops = Ok (spec_info ops).
Proof. intros H. unfold run. rewrite <- spec_info_nil. apply (run_from_exact chk ops []). exact H. Qed.

(** Debug and release builds agree inside the guard (and neither panics). *)
Lemma run_build_independent ops :
  no_overflow ops = true -> run true ops = run false ops /\ is_ok (run true ops) = true.
Proof. intros H. rewrite !run_exact by exact H. split; reflexivity. Qed.

(** * What [peak] means: the largest running sum over all prefixes *)

Lemma peak_spec d ops :
  (forall n, sumZ (map d (firstn n ops)) <= peak d ops) /\
  (exists n, (n <= length ops)%nat /\ sumZ (map d (firstn n ops)) = peak d ops).
Proof.
  induction ops as [|o ops [IHle [m [Hm IHeq]]]].
  - split.
    + intros n. rewrite firstn_nil. cbn. lia.
    + exists 0%nat. split; [lia|reflexivity].
  - split.
    + intros [|n]; cbn [firstn map peak]; unfold sumZ; cbn [fold_right].
      * lia.
      * specialize (IHle n). unfold sumZ in IHle. lia.
    + cbn [peak]. destruct (Z.max_spec 0 (d o + peak d ops)) as [[Hlt Heq]|[Hge Heq]].
      * exists (S m). split; [cbn [length]; lia|].
        cbn [firstn map]. unfold sumZ in *. cbn [fold_right]. lia.
      * exists 0%nat. split; [lia|]. cbn [firstn map]. unfold sumZ. cbn [fold_right]. lia.
Qed.

Lemma equal_size_realloc_is_zero_byte_grow a :
  kind_of (ORealloc a a) = KGrow /\ op_bytes (ORealloc a a) = 0%N.
Proof. cbn [kind_of op_bytes]. rewrite N.ltb_irrefl. split; [reflexivity|lia]. Qed.

(** Rows in words: how many operations of the sequence are of that row, and
    the sum of their bytes. *)
Lemma spec_count_meaning k ops :
  spec_count k ops = N.of_nat (length (filter (fun o => opk_eqb (kind_of o) k) ops)).
Proof. reflexivity. Qed.

Lemma spec_bytes_meaning k ops :
  spec_bytes k ops = sumN (map op_bytes (filter (fun o => opk_eqb (kind_of o) k) ops)).
Proof. reflexivity. Qed.

Lemma op_bytes_realloc a b :
  Z.of_N (op_bytes (ORealloc a b)) = Z.abs (Z.of_N b - Z.of_N a).
Proof. cbn [op_bytes]. destruct (b <? a)%N eqn:E; lia. Qed.

Theorem tally_exact chk ops :
  no_overflow ops = true ->
  exists i, run chk ops = Ok i /\
    (forall k, get_tally i k = mkT (spec_count k ops) (spec_bytes k ops)) /\
    i_cur_count i = live_count ops /\ i_cur_size i = live_size ops.
Proof.
  intros H. exists (spec_info ops). split; [apply run_exact; exact H|].
  split; [intros []; reflexivity|split; reflexivity].
Qed.

Theorem max_is_peak chk ops :
  no_overflow ops = true ->
  exists i, run chk ops = Ok i /\
    (forall n, live_count (firstn n ops) <= i_max_count i) /\
    (exists n, (n <= length ops)%nat /\ live_count (firstn n ops) = i_max_count i) /\
    (forall n, live_size (firstn n ops) <= i_max_size i) /\
    (exists n, (n <= length ops)%nat /\ live_size (firstn n ops) = i_max_size i).
Proof.
  intros H. exists (spec_info ops). split; [apply run_exact; exact H|].
  cbn [spec_info i_max_count i_max_size]. unfold live_count, live_size.
  destruct (peak_spec delta_count ops) as [A B]. destruct (peak_spec delta_size ops) as [C D].
  repeat split; assumption.
Qed.

(** * The boolean specification *)

Lemma tally_eqb_spec t c s : tally_eqb t c s = true <-> t = mkT c s.
Proof.
  destruct t as [c' s']. unfold tally_eqb. cbn [t_count t_size].
  rewrite andb_true_iff, !N.eqb_eq. split.
  - intros [-> ->]. reflexivity.
  - intros E. inversion E. split; reflexivity.
Qed.

Lemma clauses_spec ops i : forallb fst (tally_sb_clauses ops i) = true <-> i = spec_info ops.
Proof.
  unfold tally_sb_clauses. cbn [forallb fst]. rewrite !andb_true_iff, !tally_eqb_spec, !Z.eqb_eq.
  destruct i as [g s a d cc mc cs ms]. cbn [i_grow i_shrink i_alloc i_dealloc i_cur_count i_max_count i_cur_size i_max_size].
  unfold spec_info, spec_tally. split.
  - intros (-> & -> & -> & -> & -> & -> & -> & -> & _). reflexivity.
  - intros E. inversion E. repeat split; reflexivity.
Qed.

Theorem tally_sb_meaning ops i :
  tally_sb ops (Ok i) = true <-> (no_overflow ops = true -> i = spec_info ops).
Proof.
  unfold tally_sb. destruct (no_overflow ops).
  - rewrite clauses_spec. split; [intros H _; exact H|intros H; apply H; reflexivity].
  - split; [intros _ H; discriminate H|reflexivity].
Qed.

Theorem tally_sb_no_panic ops p : no_overflow ops = true -> tally_sb ops (Panic p) = false.
Proof. intros H. unfold tally_sb. rewrite H. reflexivity. Qed.

Theorem tally_model_sb chk ops : tally_sb ops (run chk ops) = true.
Proof.
  destruct (no_overflow ops) eqn:H.
  - rewrite run_exact by exact H. apply tally_sb_meaning. reflexivity.
  - unfold tally_sb. rewrite H. reflexivity.
Qed.

(** * Threads *)

Lemma tmap_step_other chk m t e t' : t' <> t -> tmap_step chk m (t, e) t' = m t'.
Proof.
  intros H. unfold tmap_step. cbn [fst snd]. destruct (t' =? t)%N eqn:E; [|reflexivity].
  apply N.eqb_eq in E. contradiction.
Qed.

Lemma tmap_fold_proj chk g : forall m t,
  fold_left (tmap_step chk) g m t = fold_left (ev_step chk) (proj t g) (m t).
Proof.
  induction g as [|[u e] g IH]; intros m t.
  - reflexivity.
  - cbn [fold_left]. rewrite IH. unfold proj. cbn [filter fst].
    unfold tmap_step. cbn [fst snd]. rewrite (N.eqb_sym t u).
    destruct (u =? t)%N eqn:E.
    + apply N.eqb_eq in E. subst u. cbn [map snd fold_left]. reflexivity.
    + reflexivity.
Qed.

(** Whatever the interleaving, thread [t]'s tally is the one its own events
    produce. *)
Theorem thread_isolated chk g t : tmap_run chk g t = run_ev chk (proj t g).
Proof. unfold tmap_run, run_ev. rewrite tmap_fold_proj. reflexivity. Qed.

Corollary thread_isolated_interleavings chk g1 g2 t :
  proj t g1 = proj t g2 -> tmap_run chk g1 t = tmap_run chk g2 t.
Proof. intros H. rewrite !thread_isolated, H. reflexivity. Qed.

(** * Clearing *)

Lemma fold_ev_panic chk evs p : fold_left (ev_step chk) evs (Panic p) = Panic p.
Proof. induction evs as [|e evs IH]; [reflexivity|]. cbn [fold_left ev_step bind]. exact IH. Qed.

Lemma run_from_app chk a : forall i b,
  run_from chk i (a ++ b) = (do i' <- run_from chk i a; run_from chk i' b).
Proof.
  induction a as [|o a IH]; intros i b.
  - reflexivity.
  - cbn [app run_from]. destruct (step chk i o) as [i'|p]; cbn [bind]; [apply IH|reflexivity].
Qed.

Lemma run_snoc chk ops o : run chk (ops ++ [o]) = (do i <- run chk ops; step chk i o).
Proof.
  unfold run. rewrite run_from_app. destruct (run_from chk info_init ops) as [i|p]; cbn [bind]; [|reflexivity].
  cbn [run_from]. destruct (step chk i o); reflexivity.
Qed.

Lemma run_ev_since_clear_gen chk evs : forall acc i,
  fold_left (ev_step chk) evs (run chk (rev acc)) = Ok i ->
  run chk (since_clear evs acc) = Ok i.
Proof.
  induction evs as [|[o|] evs IH]; intros acc i H.
  - exact H.
  - cbn [fold_left since_clear] in *. apply IH. cbn [rev]. rewrite run_snoc. exact H.
  - cbn [fold_left since_clear] in *. apply IH. cbn [rev].
    destruct (run chk (rev acc)) as [j|p]; cbn [ev_step bind] in H.
    + exact H.
    + rewrite fold_ev_panic in H. discriminate H.
Qed.

(** A tally that can be read at all describes exactly the operations since
    the last clear. *)
Theorem clear_resets chk evs i :
  run_ev chk evs = Ok i -> run chk (ops_since_clear evs) = Ok i.
Proof. intros H. apply (run_ev_since_clear_gen chk evs [] i). exact H. Qed.

Lemma run_ev_exact_gen chk evs : forall acc,
  no_overflow (rev acc ++ all_ops evs) = true ->
  fold_left (ev_step chk) evs (Ok (spec_info (rev acc))) = Ok (spec_info (since_clear evs acc)).
Proof.
  induction evs as [|[o|] evs IH]; intros acc H.
  - reflexivity.
  - cbn [fold_left since_clear ev_step bind]. unfold all_ops in H. cbn [flat_map] in H. fold (all_ops evs) in H.
    replace (rev acc ++ [o] ++ all_ops evs) with ((rev acc ++ [o]) ++ all_ops evs) in H
      by (rewrite <- app_assoc; reflexivity).
    pose proof (no_overflow_app _ _ H) as [H1 _]. apply no_overflow_snoc_parts in H1. destruct H1 as [Hwf Hw].
    rewrite step_exact by assumption. apply (IH (o :: acc)). cbn [rev]. exact H.
  - cbn [fold_left since_clear ev_step bind]. unfold all_ops in H. cbn [flat_map app] in H. fold (all_ops evs) in H.
    apply no_overflow_app in H. destruct H as [_ H]. apply (IH []). exact H.
Qed.

Theorem run_ev_exact chk evs :
  no_overflow (all_ops evs) = true -> run_ev chk evs = Ok (spec_info (ops_since_clear evs)).
Proof. intros H. apply (run_ev_exact_gen chk evs []). exact H. Qed.

Lemma since_clear_sub evs : forall acc,
  no_overflow (rev acc ++ all_ops evs) = true -> no_overflow (since_clear evs acc) = true.
Proof.
  induction evs as [|[o|] evs IH]; intros acc H.
  - cbn [since_clear]. unfold all_ops in H. cbn [flat_map] in H. rewrite app_nil_r in H. exact H.
  - cbn [since_clear]. apply IH. cbn [rev]. rewrite <- app_assoc. exact H.
  - cbn [since_clear]. apply (IH []). unfold all_ops in H. cbn [flat_map app] in H.
    apply no_overflow_app in H. destruct H as [_ H]. exact H.
Qed.

Theorem ev_model_sb chk evs : ev_sb evs (run_ev chk evs) = true.
Proof.
  unfold ev_sb. destruct (no_overflow (all_ops evs)) eqn:H; [|reflexivity].
  rewrite run_ev_exact by exact H. apply tally_sb_meaning. reflexivity.
Qed.

Theorem ev_sb_meaning evs i :
  ev_sb evs (Ok i) = true <->
  (no_overflow (all_ops evs) = true -> i = spec_info (ops_since_clear evs)).
Proof.
  unfold ev_sb. destruct (no_overflow (all_ops evs)) eqn:H.
  - rewrite tally_sb_meaning. split.
    + intros A _. apply A. apply (since_clear_sub evs []). exact H.
    + intros A _. apply A. reflexivity.
  - split; [intros _ A; discriminate A|reflexivity].
Qed.

(** * The hypotheses are satisfiable by non-trivial values *)

Example guard_satisfiable :
  no_overflow [OAlloc 1099511627776; ORealloc 1099511627776 0; ORealloc 0 0; ODealloc 0; ODealloc 7; OAlloc 3] = true.
Proof. vm_compute. reflexivity. Qed.

Example guard_example_run :
  run true [OAlloc 1099511627776; ORealloc 1099511627776 0; ORealloc 0 0; ODealloc 0; ODealloc 7; OAlloc 3]
  = Ok (mkI (mkT 1 0) (mkT 1 1099511627776) (mkT 2 1099511627779) (mkT 2 7) 0 1 (-4) 1099511627776).
Proof. vm_compute. reflexivity. Qed.

(** Outside the guard the builds really differ (so the guard is not vacuous). *)
Example overflow_debug_panics : run true [OAlloc 9223372036854775807; OAlloc 1] = Panic Overflow.
Proof. vm_compute. reflexivity. Qed.

Example overflow_release_wraps :
  run false [OAlloc 9223372036854775807; OAlloc 1]
  = Ok (mkI tally_zero tally_zero (mkT 2 9223372036854775808) tally_zero 2 2 (-9223372036854775808) 9223372036854775807).
Proof. vm_compute. reflexivity. Qed.

Lemma row_meaning k ops :
  spec_count k ops = N.of_nat (length (filter (fun o => opk_eqb (kind_of o) k) ops)) /\
  spec_bytes k ops = sumN (map op_bytes (filter (fun o => opk_eqb (kind_of o) k) ops)).
Proof. split; reflexivity. Qed.

Lemma thread_isolated_full chk g t :
  (forall m e t', t' <> t -> tmap_step chk m (t, e) t' = m t') /\
  tmap_run chk g t = run_ev chk (proj t g).
Proof. split; [intros m e t'; apply tmap_step_other|apply thread_isolated]. Qed.
