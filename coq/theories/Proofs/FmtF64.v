(** Lemmas about Model/FmtF64.v: list slicing, [strip0]/[pre_zero], decimal
    numerals, and the core fact that [format_f64_str] applied to the exact
    numeral of [n / 10^s] yields the numeral truncated to [sig - d] places. *)

From DivanV Require Import Base.Res Model.FmtF64.
From Coq Require Import Lia ZifyBool ZifyN ZifyNat.
Ltac Zify.zify_post_hook ::= Z.div_mod_to_equations.
Local Open Scope N_scope.
Arguments N.add : simpl never.
Arguments N.sub : simpl never.
Arguments N.mul : simpl never.
Arguments N.div : simpl never.
Arguments N.modulo : simpl never.
Arguments N.pow : simpl never.

(** * Slicing *)

Lemma len_app : forall a b : str, len (a ++ b) = len a + len b.
Proof. intros. unfold len. rewrite app_length. lia. Qed.

Lemma len_cons : forall (x : N) (a : str), len (x :: a) = 1 + len a.
Proof. intros. unfold len. cbn [length]. lia. Qed.

Lemma len_nil : len [] = 0.
Proof. reflexivity. Qed.

Lemma len_repeat : forall (c : N) n, len (repeat c n) = N.of_nat n.
Proof. intros. unfold len. now rewrite repeat_length. Qed.

Lemma len_zero_nil : forall a : str, len a = 0 -> a = [].
Proof. intros [|x a] H; [reflexivity|]. unfold len in H. cbn [length] in H. lia. Qed.

Lemma take_app_le : forall n (a b : str), n <= len a -> take n (a ++ b) = take n a.
Proof.
  intros n a b H. unfold take, len in *. rewrite firstn_app.
  replace (N.to_nat n - length a)%nat with O by lia. cbn [firstn]. now rewrite app_nil_r.
Qed.

Lemma take_app_ge : forall n (a b : str), len a <= n -> take n (a ++ b) = a ++ take (n - len a) b.
Proof.
  intros n a b H. unfold take, len in *. rewrite firstn_app.
  rewrite firstn_all2 by lia. f_equal. f_equal. lia.
Qed.

Lemma take_all : forall n (a : str), len a <= n -> take n a = a.
Proof. intros. unfold take, len in *. apply firstn_all2. lia. Qed.

Lemma take_0 : forall a : str, take 0 a = [].
Proof. reflexivity. Qed.

Lemma len_take : forall n (a : str), len (take n a) = N.min n (len a).
Proof. intros. unfold take, len. rewrite firstn_length. lia. Qed.

Lemma drop_app_exact : forall n (a b : str), n = len a -> drop n (a ++ b) = b.
Proof.
  intros n a b ->. unfold drop, len. rewrite skipn_app.
  rewrite Nat2N.id, skipn_all, Nat.sub_diag. reflexivity.
Qed.

Lemma take_repeat : forall n (c : N) m, take n (repeat c m) = repeat c (Nat.min (N.to_nat n) m).
Proof.
  intros n c m. unfold take. generalize (N.to_nat n) as j. clear n.
  induction m as [|m IH]; intros [|j]; cbn [firstn repeat Nat.min]; try reflexivity.
  now rewrite IH.
Qed.

(** * [find_byte] and [split_at] *)

Definition notin (c : N) (l : str) : Prop := Forall (fun x => x <> c) l.

Lemma find_byte_notin : forall c l, notin c l -> find_byte c l = None.
Proof.
  intros c l H. induction H as [|x l Hx _ IH]; cbn [find_byte]; [reflexivity|].
  destruct (x =? c) eqn:E; [lia|]. now rewrite IH.
Qed.

Lemma find_byte_app : forall c a b, notin c a -> find_byte c (a ++ c :: b) = Some (len a).
Proof.
  intros c a b H. induction H as [|x l Hx _ IH]; cbn [find_byte app].
  - now rewrite N.eqb_refl.
  - destruct (x =? c) eqn:E; [lia|]. rewrite IH. rewrite len_cons. f_equal. lia.
Qed.

Lemma split_at_notin : forall c l, notin c l -> split_at c l = (l, None).
Proof.
  intros c l H. induction H as [|x l Hx _ IH]; cbn [split_at]; [reflexivity|].
  destruct (x =? c) eqn:E; [lia|]. now rewrite IH.
Qed.

Lemma split_at_app : forall c a b, notin c a -> split_at c (a ++ c :: b) = (a, Some b).
Proof.
  intros c a b H. induction H as [|x l Hx _ IH]; cbn [split_at app].
  - now rewrite N.eqb_refl.
  - destruct (x =? c) eqn:E; [lia|]. now rewrite IH.
Qed.

Lemma split_at_inv : forall c s x y, split_at c s = (x, y) ->
  notin c x /\ match y with Some r => s = x ++ c :: r | None => s = x end.
Proof.
  intros c s. induction s as [|b s IH]; intros x y H; cbn [split_at] in H.
  - inversion H; subst. split; [constructor|reflexivity].
  - destruct (b =? c) eqn:E.
    + inversion H; subst. split; [constructor|]. cbn. f_equal. lia.
    + destruct (split_at c s) as [x' y'] eqn:S. inversion H; subst.
      destruct (IH x' y eq_refl) as [Hn Hy]. split.
      * constructor; [lia|exact Hn].
      * destruct y; cbn [app]; now f_equal.
Qed.

(** * Trailing zeros *)

Lemma drop_while0_split : forall R, exists m, R = repeat ch_0 m ++ drop_while0 R.
Proof.
  induction R as [|b R [m IH]]; cbn [drop_while0].
  - exists O. reflexivity.
  - destruct (b =? ch_0) eqn:E.
    + exists (S m). cbn [repeat app]. f_equal; [lia|exact IH].
    + exists O. reflexivity.
Qed.

Lemma drop_while0_repeat_app : forall m R, drop_while0 (repeat ch_0 m ++ R) = drop_while0 R.
Proof. induction m as [|m IH]; intros R; cbn [repeat app drop_while0]; [reflexivity|]. now rewrite N.eqb_refl. Qed.

Lemma rev_repeat0 : forall (c : N) m, rev (repeat c m) = repeat c m.
Proof.
  induction m as [|m IH]; [reflexivity|]. cbn [repeat rev]. rewrite IH. symmetry. apply repeat_cons.
Qed.

Lemma strip0_split : forall L, exists m, L = strip0 L ++ repeat ch_0 m.
Proof.
  intros L. unfold strip0. destruct (drop_while0_split (rev L)) as [m H].
  exists m. rewrite <- (rev_involutive L) at 1. rewrite H at 1.
  now rewrite rev_app_distr, rev_repeat0.
Qed.

Lemma strip0_app_zeros : forall l m, strip0 (l ++ repeat ch_0 m) = strip0 l.
Proof. intros. unfold strip0. now rewrite rev_app_distr, rev_repeat0, drop_while0_repeat_app. Qed.

Lemma strip0_idem : forall L, strip0 (strip0 L) = strip0 L.
Proof. intros L. destruct (strip0_split L) as [m H]. rewrite H at 2. now rewrite strip0_app_zeros. Qed.

Lemma strip0_repeat : forall m, strip0 (repeat ch_0 m) = [].
Proof. intros. change (repeat ch_0 m) with ([] ++ repeat ch_0 m). now rewrite strip0_app_zeros. Qed.

Lemma drop_while0_head : forall R b W, drop_while0 R = b :: W -> b <> ch_0.
Proof.
  induction R as [|x R IH]; intros b W H; cbn [drop_while0] in H; [discriminate|].
  destruct (x =? ch_0) eqn:E; [eauto|]. inversion H; subst. lia.
Qed.

Lemma strip0_last : forall L, strip0 L <> [] -> last_byte (strip0 L) <> ch_0.
Proof.
  intros L H. unfold strip0 in *. destruct (drop_while0 (rev L)) as [|b W] eqn:E; [now elim H|].
  apply drop_while0_head in E. cbn [rev]. unfold last_byte. now rewrite last_last.
Qed.

Lemma strip0_fixed : forall l, l <> [] -> last_byte l <> ch_0 -> strip0 l = l.
Proof.
  intros l Hne Hl. destruct (exists_last Hne) as [l' [b ->]].
  unfold last_byte in Hl. rewrite last_last in Hl.
  unfold strip0. rewrite rev_app_distr. cbn [rev app drop_while0].
  destruct (b =? ch_0) eqn:E; [lia|]. cbn [rev]. now rewrite rev_involutive.
Qed.

Lemma first_non0_spec : forall R i,
  match first_non0 R i with
  | None => drop_while0 R = []
  | Some j => exists pz, j = i + N.of_nat pz /\ R = repeat ch_0 pz ++ drop_while0 R /\ drop_while0 R <> []
  end.
Proof.
  induction R as [|b R IH]; intros i; cbn [first_non0 drop_while0]; [reflexivity|].
  destruct (b =? ch_0) eqn:E.
  - specialize (IH (i + 1)). destruct (first_non0 R (i + 1)) as [j|]; [|exact IH].
    destruct IH as [pz [Hj [HR Hne]]]. exists (S pz). split; [lia|]. split; [|exact Hne].
    cbn [repeat app]. f_equal; [lia|exact HR].
  - exists O. split; [lia|]. split; [reflexivity|discriminate].
Qed.

Lemma pre_zero_spec : forall l,
  match pre_zero l with
  | None => strip0 l = []
  | Some pz => pz < len l /\ strip0 l = take (len l - pz) l /\ strip0 l <> []
  end.
Proof.
  intros l. unfold pre_zero. pose proof (first_non0_spec (rev l) 0) as H.
  destruct (first_non0 (rev l) 0) as [j|].
  - destruct H as [pz [Hj [HR Hne]]]. unfold strip0.
    assert (Hl : l = rev (drop_while0 (rev l)) ++ repeat ch_0 pz).
    { rewrite <- (rev_involutive l) at 1. rewrite HR at 1. now rewrite rev_app_distr, rev_repeat0. }
    assert (Hlen : len l = len (rev (drop_while0 (rev l))) + N.of_nat pz).
    { rewrite Hl at 1. now rewrite len_app, len_repeat. }
    assert (Hpos : len (rev (drop_while0 (rev l))) <> 0).
    { intros H0. apply len_zero_nil in H0. apply Hne. rewrite <- (rev_involutive (drop_while0 (rev l))). now rewrite H0. }
    split; [lia|]. split.
    + rewrite Hl at 3. rewrite take_app_le by lia. rewrite take_all by lia. reflexivity.
    + intros H0. apply Hpos. now rewrite H0.
  - unfold strip0. now rewrite H.
Qed.

(** * The core of [format_f64]: on [D ++ "." ++ strip0 L] it keeps [D] and the
    first [sig - len D] bytes of [L], stripped again. *)

Definition dotfrac (z : str) : str := match z with [] => [] | _ => ch_dot :: z end.

Lemma format_core : forall (D L : str) sig,
  notin ch_dot D -> sig + 1 < 2 ^ 64 ->
  format_f64_str (D ++ dotfrac (strip0 L)) sig
  = Ok (D ++ dotfrac (strip0 (take (sig - len D) L))).
Proof.
  intros D L sig HD Hsig.
  destruct (strip0_split L) as [m HL].
  set (z := strip0 L) in *. set (j := sig - len D).
  destruct z as [|z0 zr] eqn:Ez.
  - (* no fraction *)
    cbn [dotfrac]. rewrite app_nil_r. unfold format_f64_str. rewrite find_byte_notin by exact HD.
    rewrite HL. cbn [app]. rewrite take_repeat, strip0_repeat. cbn [dotfrac]. now rewrite app_nil_r.
  - assert (Hz : z = z0 :: zr) by (subst z; exact Ez). rewrite <- Hz in *. clear Ez.
    assert (Hdf : dotfrac z = ch_dot :: z) by (rewrite Hz; reflexivity). rewrite Hdf.
    unfold format_f64_str. rewrite find_byte_app by exact HD. fold j.
    destruct (j =? 0) eqn:Ej.
    + rewrite take_app_le by lia. rewrite take_all by lia.
      replace j with 0 by lia. rewrite take_0. cbn [strip0 rev drop_while0 dotfrac]. now rewrite app_nil_r.
    + unfold checked_add. destruct (len D + 1 + j <? 2 ^ 64) eqn:Eov; [|lia]. cbn [bind].
      rewrite len_app, len_cons.
      destruct (len D + 1 + j <=? len D + (1 + len z)) eqn:Efe.
      * (* the slice exists *)
        assert (Hjz : j <= len z) by lia.
        replace (D ++ ch_dot :: z) with ((D ++ [ch_dot]) ++ z) by (now rewrite <- app_assoc).
        rewrite drop_app_exact by (rewrite len_app, len_cons, len_nil; lia).
        assert (HtL : take j L = take j z) by (rewrite HL; now apply take_app_le).
        rewrite HtL.
        pose proof (pre_zero_spec (take j z)) as Hp. rewrite len_take in Hp.
        replace (N.min j (len z)) with j in Hp by lia.
        destruct (pre_zero (take j z)) as [pz|].
        -- destruct Hp as [Hpz [Hs Hne]]. rewrite Hs.
           rewrite take_app_ge by (rewrite len_app, len_cons, len_nil; lia).
           rewrite len_app, len_cons, len_nil.
           replace (len D + 1 + j - pz - (len D + (1 + 0))) with (j - pz) by lia.
           assert (Ht : take (j - pz) (take j z) = take (j - pz) z).
           { unfold take. rewrite firstn_firstn. f_equal. lia. }
           rewrite Ht in *. rewrite <- app_assoc. cbn [app].
           destruct (take (j - pz) z) eqn:Et; [now elim Hne|]. reflexivity.
        -- rewrite Hp. cbn [dotfrac]. rewrite app_nil_r.
           rewrite take_app_le by (rewrite len_app, len_cons, len_nil; lia).
           rewrite take_app_le by lia. now rewrite take_all by lia.
      * (* the string is shorter than the slice: unchanged *)
        assert (Hjz : len z < j) by lia.
        rewrite HL. rewrite take_app_ge by lia. rewrite take_repeat, strip0_app_zeros.
        unfold z. rewrite strip0_idem. fold z. now rewrite Hdf.
Qed.

(** * Decimal numerals *)

Definition digit (b : N) : Prop := 48 <= b <= 57.

Lemma is_digit_iff : forall b, is_digit b = true <-> digit b.
Proof. intros b. unfold is_digit, digit, ch_0. lia. Qed.

Lemma forallb_digit : forall l, forallb is_digit l = true <-> Forall digit l.
Proof.
  intros l. rewrite forallb_forall, Forall_forall. split; intros H x Hx; apply is_digit_iff; auto.
Qed.

Lemma digit_notin : forall c l, ~ digit c -> Forall digit l -> notin c l.
Proof. intros c l Hc H. unfold notin. eapply Forall_impl; [|exact H]. intros a Ha ->. auto. Qed.

Lemma val_nil : val [] = 0.
Proof. reflexivity. Qed.

Lemma val_app1 : forall l b, val (l ++ [b]) = val l * 10 + (b - 48).
Proof. intros. unfold val. rewrite fold_left_app. reflexivity. Qed.

Lemma val_single : forall b, val [b] = b - 48.
Proof. intros. change [b] with ([] ++ [b]). rewrite val_app1, val_nil. lia. Qed.

Lemma val_app : forall b a, val (a ++ b) = val a * 10 ^ len b + val b.
Proof.
  induction b as [|x b IH] using rev_ind; intros a.
  - rewrite app_nil_r, len_nil, val_nil. change (10 ^ 0) with 1. lia.
  - rewrite app_assoc, !val_app1, IH, len_app, len_cons, len_nil, N.pow_add_r.
    change (10 ^ (1 + 0)) with 10. lia.
Qed.

Lemma val_repeat0 : forall m, val (repeat ch_0 m) = 0.
Proof.
  induction m as [|m IH]; [reflexivity|]. cbn [repeat]. rewrite repeat_cons, val_app1, IH. reflexivity.
Qed.

Lemma pow10_pos : forall k, 0 < 10 ^ k.
Proof. intros. apply N.neq_0_lt_0. apply N.pow_nonzero. lia. Qed.

Lemma val_lt : forall l, Forall digit l -> val l < 10 ^ len l.
Proof.
  induction l as [|x l IH] using rev_ind; intros H.
  - rewrite val_nil, len_nil. change (10 ^ 0) with 1. lia.
  - apply Forall_app in H. destruct H as [Hl Hx]. inversion Hx as [|? ? Hd _]; subst.
    specialize (IH Hl). rewrite val_app1, len_app, len_cons, len_nil, N.pow_add_r.
    change (10 ^ (1 + 0)) with 10. unfold digit in Hd. lia.
Qed.

Lemma pad_length : forall k r, length (pad_digits k r) = k.
Proof. induction k as [|k IH]; intros r; cbn [pad_digits]; [reflexivity|]. rewrite app_length, IH. cbn. lia. Qed.

Lemma pad_len : forall k r, len (pad_digits k r) = N.of_nat k.
Proof. intros. unfold len. now rewrite pad_length. Qed.

Lemma pad_digit : forall k r, Forall digit (pad_digits k r).
Proof.
  induction k as [|k IH]; intros r; cbn [pad_digits]; [constructor|].
  apply Forall_app. split; [apply IH|]. constructor; [|constructor].
  unfold digit, ch_0. pose proof (N.mod_upper_bound r 10). lia.
Qed.

Lemma pad_val : forall k r, val (pad_digits k r) = r mod 10 ^ N.of_nat k.
Proof.
  induction k as [|k IH]; intros r; cbn [pad_digits].
  - rewrite val_nil. change (10 ^ N.of_nat 0) with 1. now rewrite N.mod_1_r.
  - rewrite val_app1, IH. rewrite Nat2N.inj_succ, N.pow_succ_r'.
    rewrite (N.mod_mul_r r 10 (10 ^ N.of_nat k)) by (try apply N.pow_nonzero; lia).
    unfold ch_0. lia.
Qed.

Lemma pad_unique : forall l, Forall digit l -> l = pad_digits (length l) (val l).
Proof.
  induction l as [|x l IH] using rev_ind; intros H; [reflexivity|].
  apply Forall_app in H. destruct H as [Hl Hx]. inversion Hx as [|? ? Hd _]; subst.
  rewrite app_length. cbn [length]. replace (length l + 1)%nat with (S (length l)) by lia.
  cbn [pad_digits]. rewrite val_app1. unfold digit in Hd.
  replace ((val l * 10 + (x - 48)) / 10) with (val l) by lia.
  replace ((val l * 10 + (x - 48)) mod 10) with (x - 48) by lia.
  rewrite <- IH by exact Hl. f_equal. f_equal. unfold ch_0. lia.
Qed.

Lemma pad_firstn : forall s j r, (j <= s)%nat ->
  firstn j (pad_digits s r) = pad_digits j (r / 10 ^ N.of_nat (s - j)).
Proof.
  induction s as [|s IH]; intros j r Hj.
  - replace j with O by lia. reflexivity.
  - destruct (Nat.eq_dec j (S s)) as [->|Hne].
    + rewrite Nat.sub_diag. change (10 ^ N.of_nat 0) with 1. rewrite N.div_1_r.
      apply firstn_all2. rewrite pad_length. lia.
    + cbn [pad_digits]. rewrite firstn_app, pad_length.
      replace (j - s)%nat with O by lia. cbn [firstn]. rewrite app_nil_r.
      rewrite IH by lia. f_equal.
      replace (S s - j)%nat with (S (s - j)) by lia.
      rewrite Nat2N.inj_succ, N.pow_succ_r'. rewrite N.div_div; [reflexivity|lia|].
      apply N.pow_nonzero. lia.
Qed.

(** Canonical integer numerals. *)
Definition canon (l : str) : Prop :=
  Forall digit l /\ l <> [] /\ (forall b t, l = b :: t -> t <> [] -> b <> 48).

Lemma canonical_int_iff : forall l, canonical_int l = true <-> canon l.
Proof.
  intros l. unfold canonical_int, canon. rewrite andb_true_iff, forallb_digit.
  destruct l as [|b [|c t]].
  - split; [intros [_ H]; discriminate|intros [_ [H _]]; now elim H].
  - split; [intros [H _]|intros [H _]]; auto. split; [exact H|]. split; [discriminate|].
    intros b0 t0 E Ht. inversion E; subst. now elim Ht.
  - unfold ch_0. split.
    + intros [H Hb]. split; [exact H|]. split; [discriminate|]. intros b0 t0 E _. inversion E; subst. lia.
    + intros [H [_ Hb]]. split; [exact H|]. specialize (Hb b (c :: t) eq_refl). 
      assert (b <> 48) by (apply Hb; discriminate). lia.
Qed.

Lemma canon_lower : forall b t, Forall digit (b :: t) -> b <> 48 -> 10 ^ len t <= val (b :: t).
Proof.
  intros b t H Hb. inversion H as [|? ? Hd Ht]; subst.
  change (b :: t) with ([b] ++ t). rewrite val_app, val_single. unfold digit in Hd.
  pose proof (pow10_pos (len t)). nia.
Qed.

Lemma canon_zero : forall l, canon l -> val l = 0 -> l = [48].
Proof.
  intros l [Hd [Hne Hh]] Hv. destruct l as [|b t]; [now elim Hne|].
  destruct t as [|c t].
  - rewrite val_single in Hv. inversion Hd as [|? ? Hb _]; subst. unfold digit in Hb. f_equal. lia.
  - assert (Hb : b <> 48) by (eapply Hh; [reflexivity|discriminate]).
    pose proof (canon_lower b (c :: t) Hd Hb) as Hl. pose proof (pow10_pos (len (c :: t))). lia.
Qed.

Lemma canon_bounds : forall l, canon l -> 0 < val l -> 10 ^ (len l - 1) <= val l < 10 ^ len l.
Proof.
  intros l [Hd [Hne Hh]] Hv. split; [|now apply val_lt].
  destruct l as [|b t]; [now elim Hne|]. rewrite len_cons.
  replace (1 + len t - 1) with (len t) by lia. apply canon_lower; [exact Hd|].
  destruct t as [|c t]; [|eapply Hh; [reflexivity|discriminate]].
  rewrite val_single in Hv. lia.
Qed.

Lemma pow10_lt_inv : forall a b, 10 ^ a < 10 ^ b -> a < b.
Proof. intros a b H. apply (N.pow_lt_mono_r_iff 10); [lia|exact H]. Qed.

Lemma canon_unique : forall l1 l2, canon l1 -> canon l2 -> val l1 = val l2 -> l1 = l2.
Proof.
  intros l1 l2 H1 H2 Hv. destruct (N.eq_dec (val l1) 0) as [H0|H0].
  - rewrite (canon_zero l1 H1 H0). rewrite (canon_zero l2 H2) by lia. reflexivity.
  - pose proof (canon_bounds l1 H1 ltac:(lia)) as [L1 U1].
    pose proof (canon_bounds l2 H2 ltac:(lia)) as [L2 U2].
    assert (Hlen : len l1 = len l2).
    { assert (len l1 - 1 < len l2) by (apply pow10_lt_inv; lia).
      assert (len l2 - 1 < len l1) by (apply pow10_lt_inv; lia).
      destruct H1 as [_ [N1 _]], H2 as [_ [N2 _]].
      destruct l1; [now elim N1|]. destruct l2; [now elim N2|]. rewrite !len_cons in *. lia. }
    destruct H1 as [D1 _], H2 as [D2 _].
    rewrite (pad_unique l1 D1), (pad_unique l2 D2). unfold len in Hlen. f_equal; lia.
Qed.

Lemma digits_fuel_spec : forall f n, n < 2 ^ N.of_nat (S f) ->
  canon (digits_fuel (S f) n) /\ val (digits_fuel (S f) n) = n.
Proof.
  induction f as [|f IH]; intros n Hn.
  - change (2 ^ N.of_nat 1) with 2 in Hn. cbn [digits_fuel].
    destruct (n <? 10) eqn:E; [|lia]. split; [|rewrite val_single; unfold ch_0; lia].
    split; [constructor; [unfold digit, ch_0; lia|constructor]|]. split; [discriminate|].
    intros b t Eq Ht. inversion Eq; subst. now elim Ht.
  - rewrite Nat2N.inj_succ, N.pow_succ_r' in Hn.
    change (digits_fuel (S (S f)) n) with
      (if n <? 10 then [ch_0 + n] else digits_fuel (S f) (n / 10) ++ [ch_0 + n mod 10]).
    destruct (n <? 10) eqn:E.
    + split; [|rewrite val_single; unfold ch_0; lia].
      split; [constructor; [unfold digit, ch_0; lia|constructor]|]. split; [discriminate|].
      intros b t Eq Ht. inversion Eq; subst. now elim Ht.
    + assert (Hq : n / 10 < 2 ^ N.of_nat (S f)) by lia.
      destruct (IH (n / 10) Hq) as [[Hd [Hne Hh]] Hv].
      set (l' := digits_fuel (S f) (n / 10)) in *.
      split; [|rewrite val_app1, Hv; unfold ch_0; lia].
      split; [|split].
      * apply Forall_app. split; [exact Hd|]. constructor; [|constructor].
        unfold digit, ch_0. pose proof (N.mod_upper_bound n 10). lia.
      * destruct l'; discriminate.
      * intros b t Eq _. destruct l' as [|b' t']; [now elim Hne|].
        cbn [app] in Eq. inversion Eq; subst.
        destruct t' as [|c t'']; [|eapply Hh; [reflexivity|discriminate]].
        rewrite val_single in Hv. lia.
Qed.

Lemma digits_of_spec : forall n, canon (digits_of n) /\ val (digits_of n) = n.
Proof.
  intros n. unfold digits_of. apply digits_fuel_spec.
  pose proof (N.size_gt n) as H. rewrite Nat2N.inj_succ, N2Nat.id, N.pow_succ_r'. lia.
Qed.

Lemma digits_of_canon : forall n, canon (digits_of n).
Proof. intros. apply digits_of_spec. Qed.

Lemma digits_of_val : forall n, val (digits_of n) = n.
Proof. intros. apply digits_of_spec. Qed.

Lemma digits_of_digit : forall n, Forall digit (digits_of n).
Proof. intros. apply digits_of_canon. Qed.

Lemma digits_of_unique : forall l, canon l -> l = digits_of (val l).
Proof. intros l H. apply canon_unique; [exact H|apply digits_of_canon|now rewrite digits_of_val]. Qed.

Lemma digits_of_len_pos : forall n, 1 <= len (digits_of n).
Proof.
  intros n. destruct (digits_of_canon n) as [_ [Hne _]]. destruct (digits_of n); [now elim Hne|].
  rewrite len_cons. lia.
Qed.

(** The number of integer digits: [10^(d-1) <= n < 10^d] (and [d = 1] for 0). *)
Lemma digits_of_len_bounds : forall n,
  n < 10 ^ len (digits_of n) /\ (0 < n -> 10 ^ (len (digits_of n) - 1) <= n).
Proof.
  intros n. pose proof (digits_of_canon n) as Hc. split.
  - rewrite <- (digits_of_val n) at 1. apply val_lt. apply Hc.
  - intros Hn. rewrite <- (digits_of_val n) in Hn. pose proof (canon_bounds _ Hc Hn) as [L _].
    now rewrite digits_of_val in L.
Qed.

Lemma digits_of_0 : digits_of 0 = [48].
Proof. reflexivity. Qed.

(** * Rendering and [format_f64] on exact numerals *)

Lemma frac_part_eq : forall k r, frac_part k r = dotfrac (strip0 (pad_digits k r)).
Proof. intros. unfold frac_part, dotfrac. destruct (strip0 (pad_digits k r)); reflexivity. Qed.

Lemma pow10_nz : forall k, 10 ^ k <> 0.
Proof. intros. apply N.pow_nonzero. lia. Qed.

Lemma div_mod_swap : forall n A B, A <> 0 -> B <> 0 -> (n / A) mod B = (n mod (A * B)) / A.
Proof.
  intros n A B HA HB. rewrite (N.mod_mul_r n A B HA HB).
  rewrite (N.mul_comm A), N.div_add by exact HA.
  rewrite (N.div_small (n mod A) A) by (apply N.mod_upper_bound; exact HA). reflexivity.
Qed.

Lemma format_render : forall n s sig, sig + 1 < 2 ^ 64 ->
  let d := len (digits_of (n / 10 ^ s)) in
  let k := N.min (sig - d) s in
  format_f64_str (render_fix n s) sig = Ok (render_fix (n / 10 ^ (s - k)) k).
Proof.
  intros n s sig Hsig d k. unfold render_fix at 1. rewrite frac_part_eq.
  rewrite format_core; [|apply digit_notin; [unfold digit, ch_dot; lia|apply digits_of_digit]|exact Hsig].
  fold d. f_equal. unfold render_fix. rewrite frac_part_eq.
  assert (Hk : k <= s) by lia.
  assert (Hpow : 10 ^ s = 10 ^ (s - k) * 10 ^ k) by (rewrite <- N.pow_add_r; f_equal; lia).
  assert (Hq : n / 10 ^ (s - k) / 10 ^ k = n / 10 ^ s).
  { rewrite N.div_div by apply pow10_nz. now rewrite Hpow. }
  rewrite Hq. f_equal. f_equal. f_equal.
  rewrite div_mod_swap by apply pow10_nz. rewrite <- Hpow.
  unfold take. destruct (N.le_gt_cases (sig - d) s) as [Hle|Hgt].
  - replace k with (sig - d) by lia. rewrite pad_firstn by lia.
    f_equal. f_equal. f_equal. lia.
  - replace k with s by lia. rewrite firstn_all2 by (rewrite pad_length; lia).
    rewrite N.sub_diag. change (10 ^ 0) with 1. now rewrite N.div_1_r.
Qed.

(** [format_f64] on the exact numeral of [floor(a * 10^sig / b) / 10^sig]
    is the truncation of [a / b] to [sig - d] places. *)
Lemma format_trunc : forall a b sig, b <> 0 -> sig + 1 < 2 ^ 64 ->
  format_f64_str (render_fix (a * 10 ^ sig / b) sig) sig = Ok (trunc_numeral a b sig).
Proof.
  intros a b sig Hb Hsig. rewrite format_render by exact Hsig.
  assert (Hq : a * 10 ^ sig / b / 10 ^ sig = a / b).
  { rewrite N.div_div by (try apply pow10_nz; exact Hb).
    apply N.div_mul_cancel_r; [exact Hb|apply pow10_nz]. }
  rewrite Hq. unfold trunc_numeral.
  set (d := len (digits_of (a / b))).
  replace (N.min (sig - d) sig) with (sig - d) by lia.
  f_equal. f_equal.
  rewrite N.div_div by (try apply pow10_nz; exact Hb).
  assert (Hpow : 10 ^ sig = 10 ^ (sig - d) * 10 ^ (sig - (sig - d))) by (rewrite <- N.pow_add_r; f_equal; lia).
  rewrite Hpow at 1. rewrite N.mul_assoc.
  apply N.div_mul_cancel_r; [exact Hb|apply pow10_nz].
Qed.

(** Bytes of a rendered numeral are digits or the dot. *)
Lemma strip0_incl : forall L (P : N -> Prop), Forall P L -> Forall P (strip0 L).
Proof.
  intros L P H. destruct (strip0_split L) as [m E]. rewrite E in H. now apply Forall_app in H.
Qed.

Lemma render_fix_bytes : forall t k, Forall (fun x => digit x \/ x = ch_dot) (render_fix t k).
Proof.
  intros t k. unfold render_fix. apply Forall_app. split.
  - eapply Forall_impl; [|apply digits_of_digit]. auto.
  - rewrite frac_part_eq. unfold dotfrac.
    destruct (strip0 (pad_digits (N.to_nat k) (t mod 10 ^ k))) eqn:E; [constructor|].
    constructor; [now right|]. rewrite <- E. eapply Forall_impl; [|apply strip0_incl, pad_digit]. auto.
Qed.

Lemma render_fix_no_space : forall t k, notin ch_space (render_fix t k).
Proof.
  intros. unfold notin. eapply Forall_impl; [|apply render_fix_bytes].
  intros x [Hd| ->]; unfold digit, ch_space, ch_dot in *; lia.
Qed.

(** * Meaning of [numeral_sb] *)

Lemma strip0_pad_decomp : forall k r, r < 10 ^ N.of_nat k ->
  let z := strip0 (pad_digits k r) in
  Forall digit z /\ len z <= N.of_nat k /\ val z * 10 ^ (N.of_nat k - len z) = r.
Proof.
  intros k r Hr z. destruct (strip0_split (pad_digits k r)) as [m E]. fold z in E.
  assert (Hd : Forall digit z) by (apply strip0_incl, pad_digit).
  assert (Hl : N.of_nat k = len z + N.of_nat m).
  { rewrite <- (pad_len k r). rewrite E at 1. now rewrite len_app, len_repeat. }
  split; [exact Hd|]. split; [lia|].
  replace (N.of_nat k - len z) with (N.of_nat m) by lia.
  pose proof (pad_val k r) as Hv. rewrite E, val_app, val_repeat0, len_repeat in Hv.
  rewrite N.mod_small in Hv by exact Hr. lia.
Qed.

Lemma numeral_sb_complete : forall a b sig, b <> 0 -> numeral_sb (trunc_numeral a b sig) a b sig = true.
Proof.
  intros a b sig Hb. unfold numeral_sb, trunc_numeral.
  set (d := len (digits_of (a / b))). set (k := sig - d). set (T := a * 10 ^ k / b).
  assert (HTq : T / 10 ^ k = a / b).
  { unfold T. rewrite N.div_div by (try apply pow10_nz; exact Hb).
    apply N.div_mul_cancel_r; [exact Hb|apply pow10_nz]. }
  unfold render_fix. rewrite frac_part_eq, HTq.
  set (r := T mod 10 ^ k).
  assert (Hr : r < 10 ^ N.of_nat (N.to_nat k)) by (rewrite N2Nat.id; apply N.mod_upper_bound, pow10_nz).
  pose proof (strip0_pad_decomp (N.to_nat k) r Hr) as [Hzd [Hzl Hzv]]. rewrite N2Nat.id in Hzl, Hzv.
  pose proof (digits_of_canon (a / b)) as Hc.
  assert (HT : T = a / b * 10 ^ k + r).
  { pose proof (N.div_mod T (10 ^ k) (pow10_nz k)) as HD. rewrite HTq in HD. fold r in HD. lia. }
  assert (Hnd : notin ch_dot (digits_of (a / b))).
  { apply digit_notin; [unfold digit, ch_dot; lia|apply digits_of_digit]. }
  destruct (strip0 (pad_digits (N.to_nat k) r)) as [|z0 zr] eqn:Ez.
  - cbn [dotfrac]. rewrite app_nil_r, split_at_notin by exact Hnd.
    apply canonical_int_iff in Hc. rewrite Hc, digits_of_val, N.eqb_refl. cbn [andb].
    rewrite val_nil, len_nil in Hzv. apply N.eqb_eq. lia.
  - cbn [dotfrac]. rewrite split_at_app by exact Hnd.
    apply canonical_int_iff in Hc. rewrite Hc, digits_of_val, N.eqb_refl. cbn [andb].
    apply forallb_digit in Hzd. rewrite Hzd. cbn [andb].
    assert (Hlast : last_byte (z0 :: zr) <> ch_0) by (rewrite <- Ez; apply strip0_last; rewrite Ez; discriminate).
    assert (Hlen : len (z0 :: zr) <> 0) by (rewrite len_cons; lia).
    destruct (len (z0 :: zr) =? 0) eqn:E1; [lia|]. destruct (last_byte (z0 :: zr) =? ch_0) eqn:E2; [lia|].
    destruct (len (z0 :: zr) <=? k) eqn:E3; [|lia]. cbn [negb andb]. apply N.eqb_eq.
    assert (Hp : 10 ^ k = 10 ^ len (z0 :: zr) * 10 ^ (k - len (z0 :: zr))) by (rewrite <- N.pow_add_r; f_equal; lia).
    rewrite HT, <- Hzv, Hp. lia.
Qed.

Lemma numeral_sb_sound : forall s a b sig, b <> 0 -> numeral_sb s a b sig = true -> s = trunc_numeral a b sig.
Proof.
  intros s a b sig Hb H. unfold numeral_sb in H. unfold trunc_numeral.
  set (d := len (digits_of (a / b))) in *. set (k := sig - d) in *. set (T := a * 10 ^ k / b) in *.
  destruct (split_at ch_dot s) as [ip ofp] eqn:Es. apply split_at_inv in Es. destruct Es as [_ Es].
  assert (HTq : T / 10 ^ k = a / b).
  { unfold T. rewrite N.div_div by (try apply pow10_nz; exact Hb).
    apply N.div_mul_cancel_r; [exact Hb|apply pow10_nz]. }
  apply andb_true_iff in H. destruct H as [H Hf]. apply andb_true_iff in H. destruct H as [Hc Hv].
  apply canonical_int_iff in Hc. apply N.eqb_eq in Hv.
  unfold render_fix. rewrite frac_part_eq, HTq.
  assert (Hip : ip = digits_of (a / b)) by (rewrite <- Hv; now apply digits_of_unique).
  pose proof (pow10_nz k) as Hk0.
  destruct ofp as [fp|].
  - subst s. rewrite <- Hip. f_equal.
    repeat (apply andb_true_iff in Hf; destruct Hf as [Hf ?]).
    apply forallb_digit in Hf.
    assert (Hne : fp <> []) by (intros ->; cbn in *; discriminate).
    assert (Hlast : last_byte fp <> ch_0) by lia.
    assert (Hm : len fp <= k) by lia.
    assert (Heq : (val ip * 10 ^ len fp + val fp) * 10 ^ (k - len fp) = T) by lia.
    pose proof (val_lt fp Hf) as Hlt.
    assert (Hp : 10 ^ k = 10 ^ len fp * 10 ^ (k - len fp)) by (rewrite <- N.pow_add_r; f_equal; lia).
    pose proof (pow10_pos (k - len fp)) as Hpp.
    assert (Hr : T mod 10 ^ k = val fp * 10 ^ (k - len fp)).
    { symmetry. apply (N.mod_unique _ _ (val ip)); [rewrite Hp; nia|]. rewrite <- Heq, Hp. lia. }
    rewrite Hr.
    assert (Hpad : pad_digits (N.to_nat k) (val fp * 10 ^ (k - len fp)) = fp ++ repeat ch_0 (N.to_nat (k - len fp))).
    { assert (Hd : Forall digit (fp ++ repeat ch_0 (N.to_nat (k - len fp)))).
      { apply Forall_app. split; [exact Hf|]. apply Forall_forall. intros x Hx. apply repeat_spec in Hx. subst.
        unfold digit, ch_0. lia. }
      rewrite (pad_unique _ Hd). f_equal.
      - rewrite app_length, repeat_length. unfold len in *. lia.
      - rewrite val_app, val_repeat0, len_repeat, N2Nat.id. lia. }
    rewrite Hpad, strip0_app_zeros, strip0_fixed by assumption.
    destruct fp; [now elim Hne|reflexivity].
  - subst s. apply N.eqb_eq in Hf.
    assert (Hr : T mod 10 ^ k = 0).
    { fold T in Hf. rewrite <- Hf. apply N.mod_mul. exact Hk0. }
    rewrite Hr. assert (Hz : pad_digits (N.to_nat k) 0 = repeat ch_0 (N.to_nat k)).
    { assert (Hd : Forall digit (repeat ch_0 (N.to_nat k))).
      { apply Forall_forall. intros x Hx. apply repeat_spec in Hx. subst. unfold digit, ch_0. lia. }
      rewrite (pad_unique _ Hd). now rewrite repeat_length, val_repeat0. }
    rewrite Hz, strip0_repeat. cbn [dotfrac]. rewrite app_nil_r. exact Hip.
Qed.

Lemma numeral_sb_spec : forall s a b sig, b <> 0 ->
  (numeral_sb s a b sig = true <-> s = trunc_numeral a b sig).
Proof.
  intros s a b sig Hb. split; [now apply numeral_sb_sound|]. intros ->. now apply numeral_sb_complete.
Qed.

(** * Character content of numerals (glue for C05: finite values never print
    "NaN" or "inf") *)

Definition contains (pat s : str) : Prop := exists pre post, s = pre ++ pat ++ post.
Definition starts_with (pat s : str) : Prop := exists post, s = pat ++ post.
Definition nan_str : str := [78; 97; 78].       (* "NaN" *)
Definition inf_str : str := [105; 110; 102].    (* "inf" *)

(** Only digits and at most one '.'. *)
Definition numeral_chars (s : str) : Prop :=
  Forall (fun x => digit x \/ x = ch_dot) s /\ (count_occ N.eq_dec s ch_dot <= 1)%nat.

Lemma not_contains_byte : forall c pat s, In c pat -> ~ In c s -> ~ contains pat s.
Proof.
  intros c pat s Hc Hn [pre [post ->]]. apply Hn. apply in_or_app. right. apply in_or_app. now left.
Qed.

Lemma digits_no_dot_count : forall l, Forall digit l -> count_occ N.eq_dec l ch_dot = O.
Proof.
  intros l H. apply count_occ_not_In. intros Hin. rewrite Forall_forall in H.
  specialize (H _ Hin). unfold digit, ch_dot in H. lia.
Qed.

Lemma render_fix_numeral_chars : forall t k, numeral_chars (render_fix t k).
Proof.
  intros t k. split; [apply render_fix_bytes|]. unfold render_fix.
  rewrite count_occ_app, digits_no_dot_count by apply digits_of_digit.
  rewrite frac_part_eq. unfold dotfrac.
  destruct (strip0 (pad_digits (N.to_nat k) (t mod 10 ^ k))) as [|z0 zr] eqn:E; [cbn; lia|].
  rewrite <- E. rewrite count_occ_cons_eq by reflexivity.
  rewrite digits_no_dot_count by (apply strip0_incl, pad_digit). lia.
Qed.

Lemma trunc_numeral_chars : forall a b sig, numeral_chars (trunc_numeral a b sig).
Proof. intros. unfold trunc_numeral. apply render_fix_numeral_chars. Qed.

Lemma numeral_chars_notin : forall c s, numeral_chars s -> ~ digit c -> c <> ch_dot -> ~ In c s.
Proof.
  intros c s [H _] Hd Hc Hin. rewrite Forall_forall in H. destruct (H _ Hin) as [Hx| ->]; auto.
Qed.

Lemma render_fix_head_digit : forall t k, exists b r, render_fix t k = b :: r /\ digit b.
Proof.
  intros t k. unfold render_fix. pose proof (digits_of_canon (t / 10 ^ k)) as [Hd [Hne _]].
  destruct (digits_of (t / 10 ^ k)) as [|b r]; [now elim Hne|]. inversion Hd; subst.
  exists b. eexists. split; [reflexivity|assumption].
Qed.

(** A string [num ++ " " ++ suffix] whose numeral has only digits / '.' and
    whose suffix has neither 'N' nor 'f' contains neither "NaN" nor "inf". *)
Lemma no_nan_inf : forall num suffix, numeral_chars num -> ~ In 78 suffix -> ~ In 102 suffix ->
  ~ contains nan_str (num ++ [ch_space] ++ suffix) /\ ~ contains inf_str (num ++ [ch_space] ++ suffix).
Proof.
  intros num suffix Hn H78 H102. split.
  - apply (not_contains_byte 78); [cbn; auto|]. intros Hin.
    apply in_app_or in Hin. destruct Hin as [Hin|Hin].
    + revert Hin. apply numeral_chars_notin; [exact Hn|unfold digit; lia|unfold ch_dot; lia].
    + cbn [app In] in Hin. destruct Hin as [Hin|Hin]; [unfold ch_space in Hin; lia|auto].
  - apply (not_contains_byte 102); [cbn; auto|]. intros Hin.
    apply in_app_or in Hin. destruct Hin as [Hin|Hin].
    + revert Hin. apply numeral_chars_notin; [exact Hn|unfold digit; lia|unfold ch_dot; lia].
    + cbn [app In] in Hin. destruct Hin as [Hin|Hin]; [unfold ch_space in Hin; lia|auto].
Qed.
