(** Proofs about the pool model, part 2: consequences of the control-state
    invariant for C07 (no lost wake-up, deadlock freedom, termination measure,
    every execution with finitely many spurious wake-ups ends, workers exit)
    and the spawn/reuse clause of C06. *)

From DivanV Require Import Base.Res Generated.Consts Model.Pool Proofs.Pool.
From Coq Require Import Arith Lia List Bool Wf_nat.
Import ListNotations.
Import PoolM.

Arguments Nat.sub : simpl never.
Arguments Nat.mul : simpl never.
Arguments Nat.eqb : simpl never.
Arguments Nat.leb : simpl never.
Arguments Nat.ltb : simpl never.
Arguments list_sum : simpl never.

(** * No lost wake-up *)

Lemma Exists_nth_error {A} (P : A -> Prop) l : Exists P l -> exists j x, nth_error l j = Some x /\ P x.
Proof.
  induction 1 as [x l H|x l H IH].
  - exists 0, x. auto.
  - destruct IH as (j & y & E & Py). exists (S j), y. auto.
Qed.

Theorem no_lost_wakeup c scr s n :
  good c -> reachable c scr s ->
  cst s = CPark n -> rc s = 0 -> token s = false ->
  exists k, getw s k = Some (WUnpark (cur s)) /\ step c s (EWUnpark k) = Some (st_wunpark s k).
Proof.
  intros G R Hc Hr Ht. pose proof (inv_reachable _ _ _ G R) as I.
  pose proof (I_wake s I) as W. unfold wake_ok in W. rewrite Hc in W.
  destruct (Exists_nth_error _ _ (W Hr Ht)) as (j & x & E & ->).
  exists (S j). split; [exact E|]. unfold step. cbn [getw]. rewrite E. now destruct (cst s).
Qed.

(** * Deadlock freedom *)

Definition can_move (c : cfg) (s : state) : Prop :=
  exists l s', l <> ESpurious /\ step c s l = Some s'.

Lemma worker_moves c s k w :
  getw s k = Some w -> w <> WIdle -> w <> WExit -> can_move c s.
Proof.
  intros Hg N1 N2. destruct w; try contradiction.
  - exists (EWRun k false), (st_wrun s k b false). split; [discriminate|]. unfold step. rewrite Hg. now destruct (cst s).
  - exists (EWClone k), (st_wclone s k b). split; [discriminate|]. unfold step. rewrite Hg. now destruct (cst s).
  - exists (EWDec k), (st_wdec c s k b). split; [discriminate|]. unfold step. rewrite Hg. now destruct (cst s).
  - exists (EWUnpark k), (st_wunpark s k). split; [discriminate|]. unfold step. rewrite Hg. now destruct (cst s).
Qed.

Lemma count_pos_exists {A} (p : A -> bool) l :
  1 <= length (filter p l) -> exists j x, nth_error l j = Some x /\ p x = true.
Proof.
  induction l as [|h t IH]; cbn; [lia|].
  destruct (p h) eqn:E; cbn; intro H.
  - exists 0, h. auto.
  - destruct (IH H) as (j & x & E1 & E2). exists (S j), x. auto.
Qed.

Lemma forallb_false_exists {A} (p : A -> bool) l :
  forallb p l = false -> exists j x, nth_error l j = Some x /\ p x = false.
Proof.
  induction l as [|h t IH]; cbn; [discriminate|].
  destruct (p h) eqn:E; cbn; intro H.
  - destruct (IH H) as (j & x & E1 & E2). exists (S j), x. auto.
  - exists 0, h. auto.
Qed.

Theorem deadlock_free c scr s :
  good c -> reachable c scr s -> final s = false -> can_move c s.
Proof.
  intros G R F. pose proof (inv_reachable _ _ _ G R) as I.
  destruct (cst s) eqn:Hc.
  - (* CIdle *)
    destruct (script s) as [|n rest] eqn:Es.
    + exists EDrop, (st_drop s). split; [discriminate|]. unfold step. now rewrite Hc, Es.
    + exists (EBegin n), (st_begin s n rest). split; [discriminate|]. unfold step. now rewrite Hc, Es, Nat.eqb_refl.
  - (* CSend k n *)
    pose proof (I_rc s I) as Rc. unfold rc_ok in Rc. rewrite Hc in Rc. destruct Rc as (_ & K1 & K2 & K3).
    destruct k as [|j]; [lia|].
    destruct (nth_error (ws s) j) as [w|] eqn:E; [|apply nth_error_None in E; lia].
    destruct w eqn:Ew.
    + exists (ESend (S j)), (st_send s (S j) n). split; [discriminate|].
      unfold step. rewrite Hc, Nat.eqb_refl. cbn [getw]. now rewrite E.
    + eapply (worker_moves c s (S j)); [exact E|discriminate|discriminate].
    + eapply (worker_moves c s (S j)); [exact E|discriminate|discriminate].
    + eapply (worker_moves c s (S j)); [exact E|discriminate|discriminate].
    + eapply (worker_moves c s (S j)); [exact E|discriminate|discriminate].
    + exfalso. assert (N : cst s <> CDone) by (rewrite Hc; discriminate).
      pose proof (Forall_nth_error _ _ _ _ (I_exit s I N) E) as X. now apply X.
  - exists (ERun0 false), (st_run0 s n false). split; [discriminate|]. unfold step. now rewrite Hc.
  - destruct (leave c s) eqn:El.
    + exists ELoad, (do_return s n (load_view c s) (token s)). split; [discriminate|]. unfold step. now rewrite Hc, El.
    + exists ELoad, (st_topark s n (load_view c s)). split; [discriminate|]. unfold step. now rewrite Hc, El.
  - (* CPark *)
    destruct (token s) eqn:Et.
    + exists EPark. eexists. split; [discriminate|]. unfold step. rewrite Hc, Et. reflexivity.
    + destruct (Nat.eq_dec (rc s) 0) as [Z|NZ].
      * destruct (no_lost_wakeup c scr s n G R Hc Z Et) as (k & _ & St).
        exists (EWUnpark k). eexists. split; [discriminate|]. exact St.
      * pose proof (I_rc s I) as Rc. unfold rc_ok in Rc. rewrite Hc in Rc. destruct Rc as (Rc & _).
        assert (P : 1 <= length (filter (pre_dec (cur s)) (ws s))) by (unfold count_pre in Rc; lia).
        destruct (count_pos_exists _ _ P) as (j & w & E & Pw).
        eapply (worker_moves c s (S j) w); [exact E| |]; intros ->; discriminate.
  - (* CDone *)
    unfold final in F. rewrite Hc in F. unfold all_exited in F.
    destruct (forallb_false_exists _ _ F) as (j & w & E & Nw).
    destruct w eqn:Ew; try discriminate.
    + exists (EWExit (S j)), (st_wexit s (S j)). split; [discriminate|].
      unfold step. rewrite Hc. cbn [getw]. now rewrite E.
    + eapply (worker_moves c s (S j)); [exact E|discriminate|discriminate].
    + eapply (worker_moves c s (S j)); [exact E|discriminate|discriminate].
    + eapply (worker_moves c s (S j)); [exact E|discriminate|discriminate].
    + eapply (worker_moves c s (S j)); [exact E|discriminate|discriminate].
Qed.

(** The final state has no successor at all, so "non-final" is exactly
    "something can still happen". *)
Lemma final_stuck c s l : Inv s -> final s = true -> step c s l = None.
Proof.
  intros I F. unfold final in F. destruct (cst s) eqn:Hc; try discriminate.
  unfold all_exited in F. rewrite forallb_forall in F.
  assert (X : forall k w, getw s k = Some w -> w = WExit).
  { intros k w Hg. destruct (getw_pos _ _ _ Hg) as (j & -> & Hj).
    apply nth_error_In in Hj. specialize (F _ Hj). now destruct w. }
  destruct (step c s l) eqn:St; auto. exfalso.
  apply step_inv in St. destruct l; cbn in St.
  - destruct St as (H & _); congruence.
  - destruct St as (n & H & _); congruence.
  - destruct St as (n & H & _); congruence.
  - destruct St as (n & H & _); congruence.
  - destruct St as (n & H & _); congruence.
  - destruct St as (n & H & _); congruence.
  - destruct St as (b & H & _). apply X in H. discriminate.
  - destruct St as (b & H & _). apply X in H. discriminate.
  - destruct St as (b & H & _). apply X in H. discriminate.
  - destruct St as (b & H & _). apply X in H. discriminate.
  - destruct St as (H & _); congruence.
  - destruct St as (_ & H & _). apply X in H. discriminate.
Qed.

(** * Termination measure *)

Definition lex_lt (s' s : state) : Prop :=
  outer_measure s' < outer_measure s
  \/ (outer_measure s' = outer_measure s /\ inner_measure s' < inner_measure s).

Lemma inner_worker s s' j w w' :
  nth_error (ws s) j = Some w -> ws s' = set_nth j w' (ws s) -> cst s' = cst s ->
  wrank w' + (if token s' then 2 else 0) < wrank w + (if token s then 2 else 0) ->
  inner_measure s' < inner_measure s.
Proof.
  intros E Hw Hc Hr. unfold inner_measure. rewrite Hw, Hc.
  pose proof (sum_set_nth wrank j w' w (ws s) E). lia.
Qed.

Lemma outer_same s s' :
  script s' = script s -> (cst s' = CDone <-> cst s = CDone) -> outer_measure s' = outer_measure s.
Proof.
  intros Hs Hd. unfold outer_measure. rewrite Hs.
  destruct (cst s') eqn:E1; destruct (cst s) eqn:E2; auto;
    try (destruct Hd as [Hd _]; specialize (Hd eq_refl); discriminate);
    try (destruct Hd as [_ Hd]; specialize (Hd eq_refl); discriminate).
Qed.

Theorem measure_decreases c s l s' :
  Inv s -> step c s l = Some s' -> l <> ESpurious -> lex_lt s' s.
Proof.
  intros I H NS. apply step_inv in H. destruct l; cbn in H; try contradiction.
  - (* EBegin *)
    destruct H as (Hc & rest & Es & ->). left. unfold outer_measure, st_begin; cbn. rewrite Es, Hc. cbn.
    destruct (Nat.eqb n 0); cbn; lia.
  - (* ESend *)
    destruct H as (n & Hc & Hg & ->). destruct (getw_pos _ _ _ Hg) as (j & -> & Hj).
    pose proof (I_rc s I) as Rc. unfold rc_ok in Rc. rewrite Hc in Rc. destruct Rc as (_ & K1 & K2 & K3).
    right. split.
    + apply outer_same; cbn; auto. rewrite Hc. destruct (Nat.eqb (S j) n); split; discriminate.
    + unfold inner_measure, st_send; cbn. rewrite Hc.
      pose proof (sum_set_nth wrank j (WRun (cur s)) WIdle (ws s) Hj) as Sm. cbn in Sm.
      destruct (Nat.eqb (S j) n) eqn:E; cbn.
      * apply Nat.eqb_eq in E. lia.
      * apply Nat.eqb_neq in E. lia.
  - (* ERun0 *)
    destruct H as (n & Hc & ->). right. split.
    + apply outer_same; cbn; auto. rewrite Hc. split; discriminate.
    + unfold inner_measure, st_run0; cbn. rewrite Hc. cbn. lia.
  - (* ELoad *)
    destruct H as (n & Hc & ->). right. destruct (leave c s); split.
    + apply outer_same; cbn; auto. rewrite Hc. split; discriminate.
    + unfold inner_measure, do_return; cbn. rewrite Hc. cbn. lia.
    + apply outer_same; cbn; auto. rewrite Hc. split; discriminate.
    + unfold inner_measure, st_topark; cbn. rewrite Hc. cbn. lia.
  - (* EPark *)
    destruct H as (n & Hc & Ht & ->). right. destruct (c_loop c); split.
    + apply outer_same; cbn; auto. rewrite Hc. split; discriminate.
    + unfold inner_measure, to_load; cbn. rewrite Hc, Ht. cbn. lia.
    + apply outer_same; cbn; auto. rewrite Hc. split; discriminate.
    + unfold inner_measure, do_return; cbn. rewrite Hc, Ht. cbn. lia.
  - (* EWRun *)
    destruct H as (b & Hg & ->). destruct (getw_pos _ _ _ Hg) as (j & -> & Hj). right. split.
    + apply outer_same; cbn; tauto.
    + eapply (inner_worker s _ j _ (WClone b) Hj); cbn; [reflexivity|reflexivity|]. destruct (token s); lia.
  - destruct H as (b & Hg & ->). destruct (getw_pos _ _ _ Hg) as (j & -> & Hj). right. split.
    + apply outer_same; cbn; tauto.
    + eapply (inner_worker s _ j _ (WDec b) Hj); cbn; [reflexivity|reflexivity|]. destruct (token s); lia.
  - destruct H as (b & Hg & ->). destruct (getw_pos _ _ _ Hg) as (j & -> & Hj). right. split.
    + apply outer_same; cbn; tauto.
    + eapply (inner_worker s _ j _ _ Hj); cbn; [reflexivity|reflexivity|].
      destruct (Nat.eqb (rc s) (c_unpark_old c)); destruct (token s); cbn; lia.
  - destruct H as (b & Hg & ->). destruct (getw_pos _ _ _ Hg) as (j & -> & Hj). right. split.
    + apply outer_same; cbn; tauto.
    + eapply (inner_worker s _ j _ WIdle Hj); cbn; [reflexivity|reflexivity|]. destruct (token s); lia.
  - (* EDrop *)
    destruct H as (Hc & Es & ->). left. unfold outer_measure, st_drop; cbn. rewrite Es, Hc. cbn. lia.
  - (* EWExit *)
    destruct H as (Hc & Hg & ->). destruct (getw_pos _ _ _ Hg) as (j & -> & Hj). right. split.
    + apply outer_same; cbn; auto. rewrite Hc. tauto.
    + eapply (inner_worker s _ j _ WExit Hj); cbn; [reflexivity|auto|]. destruct (token s); lia.
Qed.

(** Well-founded induction on the lexicographic measure. *)
Lemma lex_induction (P : state -> Prop) :
  (forall s, (forall s', lex_lt s' s -> P s') -> P s) -> forall s, P s.
Proof.
  intros H.
  assert (X : forall o i s, outer_measure s = o -> inner_measure s = i -> P s).
  { induction o as [o IHo] using lt_wf_ind. induction i as [i IHi] using lt_wf_ind.
    intros s Ho Hi. apply H. intros s' [L|[E L]].
    - eapply (IHo (outer_measure s')); [lia|reflexivity|reflexivity].
    - eapply (IHi (inner_measure s')); [lia|congruence|reflexivity]. }
  intros s. eapply X; eauto.
Qed.

(** From every reachable state the final state can be reached without any
    spurious wake-up, and every maximal spurious-free execution ends there. *)
Theorem reaches_final c scr s :
  good c -> reachable c scr s ->
  exists ls s', run c s ls = Some s' /\ final s' = true /\ ~ In ESpurious ls.
Proof.
  intros G. revert s. apply (lex_induction (fun s => reachable c scr s -> exists ls s', run c s ls = Some s' /\ final s' = true /\ ~ In ESpurious ls)).
  intros s IH R. destruct (final s) eqn:F.
  - exists [], s. cbn. auto.
  - destruct (deadlock_free c scr s G R F) as (l & s1 & NS & St).
    pose proof (measure_decreases c s l s1 (inv_reachable _ _ _ G R) St NS) as L.
    destruct (IH s1 L (R_step _ _ _ _ _ R St)) as (ls & s' & Rn & Fn & Nin).
    exists (l :: ls), s'. cbn. rewrite St. repeat split; auto.
    intros [E|E]; [congruence|contradiction].
Qed.

(** No infinite execution has only finitely many spurious wake-ups: in any
    infinite sequence of steps, a spurious wake-up occurs after every point. *)
Theorem no_infinite_run c scr (f : nat -> state) (ls : nat -> label) :
  good c -> f 0 = init scr -> (forall i, step c (f i) (ls i) = Some (f (S i))) ->
  forall N, exists i, N <= i /\ ls i = ESpurious.
Proof.
  intros G H0 Hs.
  assert (R : forall i, reachable c scr (f i)).
  { induction i; [rewrite H0; constructor|]. econstructor; eauto. }
  assert (X : forall s, forall k, f k = s -> exists i, k <= i /\ ls i = ESpurious).
  { apply (lex_induction (fun s => forall k, f k = s -> exists i, k <= i /\ ls i = ESpurious)).
    intros s IH k Hk. destruct (ls k) eqn:El;
      try (assert (NS : ls k <> ESpurious) by (rewrite El; discriminate);
           pose proof (measure_decreases c (f k) (ls k) (f (S k)) (inv_reachable _ _ _ G (R k)) (Hs k) NS) as L;
           rewrite Hk in L; destruct (IH _ L (S k) eq_refl) as (i & Hi & Ei); exists i; split; [lia|exact Ei]).
    exists k. auto. }
  intros N. eapply X; eauto.
Qed.

(** * Workers exit after the pool is dropped *)

Lemma done_stays c s l s' : step c s l = Some s' -> cst s = CDone -> cst s' = CDone.
Proof.
  intros H Hc. apply step_inv in H. destruct l; cbn in H.
  - destruct H as (H & _); congruence.
  - destruct H as (n & H & _); congruence.
  - destruct H as (n & H & _); congruence.
  - destruct H as (n & H & _); congruence.
  - destruct H as (n & H & _); congruence.
  - destruct H as (n & H & _); congruence.
  - destruct H as (b & _ & ->). exact Hc.
  - destruct H as (b & _ & ->). exact Hc.
  - destruct H as (b & _ & ->). exact Hc.
  - destruct H as (b & _ & ->). exact Hc.
  - destruct H as (H & _); congruence.
  - destruct H as (_ & _ & ->). reflexivity.
Qed.

(** Once the pool is dropped no task is ever called again, the control state
    stays [CDone], and the execution reaches a state where every worker has
    exited. *)
Theorem workers_exit c scr s :
  good c -> reachable c scr s -> cst s = CDone ->
  (forall l s', step c s l = Some s' -> cst s' = CDone /\ calls s' = calls s)
  /\ exists ls s', run c s ls = Some s' /\ cst s' = CDone /\ all_exited s' = true.
Proof.
  intros G R Hc. pose proof (inv_reachable _ _ _ G R) as I. split.
  - intros l s' St. split; [eapply done_stays; eauto|].
    assert (NP : Forall (fun w => any_pre w = false) (ws s)) by (apply no_pre_idle; auto; now rewrite Hc).
    apply step_inv in St. destruct l; cbn in St.
    + destruct St as (H & _); congruence.
    + destruct St as (n & H & _); congruence.
    + destruct St as (n & H & _); congruence.
    + destruct St as (n & H & _); congruence.
    + destruct St as (n & H & _); congruence.
    + destruct St as (n & H & _); congruence.
    + destruct St as (b & Hg & _). destruct (getw_pos _ _ _ Hg) as (j & -> & Hj).
      pose proof (Forall_nth_error _ _ _ _ NP Hj) as X. discriminate.
    + destruct St as (b & _ & ->). reflexivity.
    + destruct St as (b & _ & ->). reflexivity.
    + destruct St as (b & _ & ->). reflexivity.
    + destruct St as (H & _); congruence.
    + destruct St as (_ & _ & ->). reflexivity.
  - destruct (reaches_final c scr s G R) as (ls & s' & Rn & F & _).
    exists ls, s'. split; auto. unfold final in F. destruct (cst s'); try discriminate. auto.
Qed.

(** * Worker threads are created only when missing, and kept *)

Theorem spawn_reuse c s l s' :
  step c s l = Some s' ->
  match l with
  | EBegin n => length (ws s') = Nat.max (length (ws s)) n /\ firstn (length (ws s)) (ws s') = ws s
                /\ skipn (length (ws s)) (ws s') = repeat WIdle (n - length (ws s))
  | _ => length (ws s') = length (ws s)
  end.
Proof.
  intro H. apply step_inv in H. destruct l; cbn in H.
  - destruct H as (_ & rest & _ & ->). unfold st_begin; cbn. repeat split.
    + rewrite app_length, repeat_length. lia.
    + rewrite firstn_app, Nat.sub_diag, firstn_all. cbn. apply app_nil_r.
    + rewrite skipn_app, Nat.sub_diag, skipn_all. reflexivity.
  - destruct H as (n & _ & Hg & ->). destruct (getw_pos _ _ _ Hg) as (j & -> & _). cbn. apply set_nth_length.
  - destruct H as (n & _ & ->). reflexivity.
  - destruct H as (n & _ & ->). now destruct (leave c s).
  - destruct H as (n & _ & _ & ->). now destruct (c_loop c).
  - destruct H as (n & _ & ->). now destruct (c_loop c).
  - destruct H as (b & Hg & ->). destruct (getw_pos _ _ _ Hg) as (j & -> & _). cbn. apply set_nth_length.
  - destruct H as (b & Hg & ->). destruct (getw_pos _ _ _ Hg) as (j & -> & _). cbn. apply set_nth_length.
  - destruct H as (b & Hg & ->). destruct (getw_pos _ _ _ Hg) as (j & -> & _). cbn. apply set_nth_length.
  - destruct H as (b & Hg & ->). destruct (getw_pos _ _ _ Hg) as (j & -> & _). cbn. apply set_nth_length.
  - destruct H as (_ & _ & ->). reflexivity.
  - destruct H as (_ & Hg & ->). destruct (getw_pos _ _ _ Hg) as (j & -> & _). cbn. apply set_nth_length.
Qed.

(** * No worker touches a dead task block *)

Theorem no_access_after_return c scr s :
  good c -> reachable c scr s ->
  bad s = false
  /\ Forall (fun w => any_pre w = true -> pre_dec (cur s) w = true /\ alive s = true) (ws s).
Proof.
  intros G R. pose proof (inv_reachable _ _ _ G R) as I. split; [apply I|].
  eapply Forall_impl; [|exact (I_wf s I)]. intros w. apply wf_pre.
Qed.

(** * Whenever the caller is outside the wait loop, all workers are past their decrement

    [pool.rs] drops the caller's caught panic payload after the loop (line 131).
    If that destructor panics, the panic escapes from [broadcast]; by this
    theorem nothing is left behind: no worker still holds the task block. *)
Theorem caller_past_loop c scr s :
  good c -> reachable c scr s -> in_broadcast (cst s) = false ->
  alive s = false /\ Forall (fun w => any_pre w = false) (ws s).
Proof.
  intros G R B. pose proof (inv_reachable _ _ _ G R) as I. split.
  - now rewrite (I_alive s I).
  - now apply no_pre_idle.
Qed.
