(** Proofs about Model/TreeBuild.v: what [from_benches] builds (every benchmark
    once, below exactly the parents its module path names, no two sibling
    parents with one name) and what [insert_group] may change (one group slot;
    names, leaves and uniqueness stay). *)
From Coq Require Import Permutation.
From DivanV Require Import Base.Res Model.SplitVec Model.Filter Model.Options Model.TreeBuild
  Proofs.SplitVec Proofs.Filter.

Definition is_parent_named (m : str) (t : btree) : bool :=
  match t with BParent r _ _ => str_eqb r m | BLeaf _ => false end.

Lemma str_eqb_refl' (s : str) : str_eqb s s = true.
Proof. apply str_eqb_eq. reflexivity. Qed.

(** * [update_first_parent] *)
Lemma ufp_some (m : str) (f : list btree -> list btree) (tree : list btree) : forall tree',
  update_first_parent m f tree = Some tree' ->
  exists pre g ch post,
    tree = pre ++ BParent m g ch :: post /\
    (forall t, In t pre -> is_parent_named m t = false) /\
    tree' = pre ++ BParent m g (f ch) :: post.
Proof.
  induction tree as [|t tree IH]; intros tree' H; cbn [update_first_parent] in H; [discriminate|].
  destruct t as [r g ch|b].
  - destruct (str_eqb r m) eqn:E.
    + injection H as <-. apply str_eqb_eq in E. subst r.
      exists [], g, ch, tree. split; [reflexivity|]. split; [intros t []|reflexivity].
    + destruct (update_first_parent m f tree) as [rest'|] eqn:Er; [|discriminate].
      injection H as <-. destruct (IH rest' eq_refl) as (pre & g' & ch' & post & H1 & H2 & H3).
      exists (BParent r g ch :: pre), g', ch', post. subst. split; [reflexivity|]. split; [|reflexivity].
      intros t [<-|Hin]; [exact E|apply H2; exact Hin].
  - destruct (update_first_parent m f tree) as [rest'|] eqn:Er; [|discriminate].
    injection H as <-. destruct (IH rest' eq_refl) as (pre & g' & ch' & post & H1 & H2 & H3).
    exists (BLeaf b :: pre), g', ch', post. subst. split; [reflexivity|]. split; [|reflexivity].
    intros t [<-|Hin]; [reflexivity|apply H2; exact Hin].
Qed.

Lemma ufp_none (m : str) (f : list btree -> list btree) (tree : list btree) :
  update_first_parent m f tree = None -> forall t, In t tree -> is_parent_named m t = false.
Proof.
  induction tree as [|t tree IH]; intros H x Hin; [destruct Hin|].
  cbn [update_first_parent] in H. destruct t as [r g ch|b].
  - destruct (str_eqb r m) eqn:E; [discriminate|].
    destruct (update_first_parent m f tree) eqn:Er; [discriminate|].
    destruct Hin as [<-|Hin]; [exact E|apply IH; [reflexivity|exact Hin]].
  - destruct (update_first_parent m f tree) eqn:Er; [discriminate|].
    destruct Hin as [<-|Hin]; [reflexivity|apply IH; [reflexivity|exact Hin]].
Qed.

Lemma parent_names_app (a b : list btree) : parent_names (a ++ b) = parent_names a ++ parent_names b.
Proof.
  induction a as [|t a IH]; [reflexivity|]. cbn [app parent_names]. destruct t; cbn [app]; rewrite IH; reflexivity.
Qed.

Lemma in_parent_names (m : str) (tree : list btree) :
  In m (parent_names tree) <-> exists g ch, In (BParent m g ch) tree.
Proof.
  induction tree as [|t tree IH]; cbn [parent_names].
  - split; [intros []|intros (g & ch & [])].
  - destruct t as [r g ch|b]; cbn [In]; rewrite IH; split.
    + intros [<-|(g' & ch' & H)]; [exists g, ch; left; reflexivity|exists g', ch'; right; exact H].
    + intros (g' & ch' & [H|H]); [injection H as -> _ _; left; reflexivity|right; exists g', ch'; exact H].
    + intros (g' & ch' & H). exists g', ch'. right. exact H.
    + intros (g' & ch' & [H|H]); [discriminate|exists g', ch'; exact H].
Qed.

Lemma not_named_not_in (m : str) (tree : list btree) :
  (forall t, In t tree -> is_parent_named m t = false) -> ~ In m (parent_names tree).
Proof.
  intros H Hin. apply in_parent_names in Hin. destruct Hin as (g & ch & Hin).
  specialize (H _ Hin). cbn [is_parent_named] in H. rewrite str_eqb_refl' in H. discriminate.
Qed.

(** * No two sibling parents with one raw name, anywhere in the tree. *)
Inductive uniq : list btree -> Prop :=
| uniq_intro (tree : list btree) :
    NoDup (parent_names tree) ->
    (forall r g ch, In (BParent r g ch) tree -> uniq ch) ->
    uniq tree.

Lemma uniq_nil : uniq [].
Proof. constructor; [constructor|intros r g ch []]. Qed.

Lemma uniq_from_path (b : nat) (modules : list str) : uniq [from_path b modules].
Proof.
  induction modules as [|m rest IH]; cbn [from_path].
  - constructor; [constructor|]. intros r g ch [H|[]]. discriminate.
  - constructor.
    + cbn [parent_names]. constructor; [intros []|constructor].
    + intros r g ch [H|[]]. injection H as _ _ <-. exact IH.
Qed.

(** Replacing the children of one parent by a [uniq] forest keeps [uniq]. *)
Lemma uniq_replace (pre post : list btree) (m : str) (g g' : option nat) (ch ch' : list btree) :
  uniq (pre ++ BParent m g ch :: post) -> uniq ch' -> uniq (pre ++ BParent m g' ch' :: post).
Proof.
  intros H Hch. inversion H as [tree Hnd Hsub]; subst. constructor.
  - rewrite parent_names_app in *. exact Hnd.
  - intros r g0 ch0 Hin. apply in_app_or in Hin. destruct Hin as [Hin|[Hin|Hin]].
    + apply (Hsub r g0 ch0). apply in_or_app. left. exact Hin.
    + injection Hin as _ _ <-. exact Hch.
    + apply (Hsub r g0 ch0). apply in_or_app. right. right. exact Hin.
Qed.

Lemma uniq_child (pre post : list btree) (m : str) (g : option nat) (ch : list btree) :
  uniq (pre ++ BParent m g ch :: post) -> uniq ch.
Proof.
  intros H. inversion H as [tree Hnd Hsub]; subst. apply (Hsub m g ch). apply in_or_app. right. left. reflexivity.
Qed.

Lemma NoDup_snoc {A : Type} (l : list A) (x : A) : NoDup l -> ~ In x l -> NoDup (l ++ [x]).
Proof.
  intros Hnd Hx. induction Hnd as [|y l Hy Hnd IH]; cbn [app].
  - constructor; [intros []|constructor].
  - constructor.
    + intros Hin. apply in_app_or in Hin. destruct Hin as [Hin|[->|[]]]; [exact (Hy Hin)|]. apply Hx. left. reflexivity.
    + apply IH. intros Hin. apply Hx. right. exact Hin.
Qed.

Lemma insert_entry_uniq (b : nat) (p : list str) : forall tree, uniq tree -> uniq (insert_entry b p tree).
Proof.
  induction p as [|m rest IH]; intros tree H; cbn [insert_entry].
  - inversion H as [t Hnd Hsub]; subst. constructor.
    + rewrite parent_names_app. cbn [parent_names]. rewrite app_nil_r. exact Hnd.
    + intros r g ch Hin. apply in_app_or in Hin. destruct Hin as [Hin|[Hin|[]]]; [|discriminate].
      apply (Hsub r g ch Hin).
  - destruct (update_first_parent m (insert_entry b rest) tree) as [tree'|] eqn:E.
    + destruct (ufp_some _ _ _ _ E) as (pre & g & ch & post & -> & _ & ->).
      apply (uniq_replace pre post m g g ch); [exact H|]. apply IH. apply (uniq_child _ _ _ _ _ H).
    + pose proof (ufp_none _ _ _ E) as Hnone.
      inversion H as [t Hnd Hsub]; subst. constructor.
      * rewrite parent_names_app. cbn [parent_names from_path].
        apply NoDup_snoc; [exact Hnd|]. apply not_named_not_in. exact Hnone.
      * intros r g ch Hin. apply in_app_or in Hin. destruct Hin as [Hin|[Hin|[]]]; [apply (Hsub r g ch Hin)|].
        cbn [from_path] in Hin. injection Hin as _ _ <-. apply uniq_from_path.
Qed.

Lemma from_benches_from_uniq (paths : list (list str)) : forall i tree,
  uniq tree -> uniq (from_benches_from i paths tree).
Proof.
  induction paths as [|p rest IH]; intros i tree H; cbn [from_benches_from]; [exact H|].
  apply IH. apply insert_entry_uniq. exact H.
Qed.

(** * Every benchmark is a leaf exactly once, below the parents its module
    path names, none of which has a group yet. *)
Inductive nog : list btree -> Prop :=
| nog_intro (tree : list btree) :
    (forall r g ch, In (BParent r g ch) tree -> g = None /\ nog ch) -> nog tree.

Definition chains (above : list (str * option nat)) (tree : list btree) : list (nat * list (str * option nat)) :=
  flat_map (leaf_chains_tree above) tree.

Definition plain (p : list str) : list (str * option nat) := map (fun m => (m, None)) p.

Lemma chains_app above a b : chains above (a ++ b) = chains above a ++ chains above b.
Proof. unfold chains. apply flat_map_app. Qed.

Lemma chains_from_path (b : nat) (ms : list str) : forall above,
  leaf_chains_tree above (from_path b ms) = [(b, above ++ plain ms)].
Proof.
  induction ms as [|m rest IH]; intros above; cbn [from_path leaf_chains_tree plain map].
  - rewrite app_nil_r. reflexivity.
  - cbn [flat_map]. rewrite app_nil_r. rewrite IH. rewrite <- app_assoc. reflexivity.
Qed.

Lemma nog_from_path (b : nat) (ms : list str) : nog [from_path b ms].
Proof.
  induction ms as [|m rest IH]; cbn [from_path]; constructor; intros r g ch [H|[]]; [discriminate|].
  injection H as _ <- <-. split; [reflexivity|exact IH].
Qed.

Lemma insert_entry_chains (b : nat) (p : list str) : forall tree above,
  nog tree ->
  Permutation (chains above (insert_entry b p tree)) ((b, above ++ plain p) :: chains above tree)
  /\ nog (insert_entry b p tree).
Proof.
  induction p as [|m rest IH]; intros tree above H; cbn [insert_entry].
  - split.
    + rewrite chains_app. cbn [chains flat_map leaf_chains_tree plain map app]. rewrite !app_nil_r.
      apply Permutation_sym. apply Permutation_cons_append.
    + inversion H as [t Hsub]; subst. constructor. intros r g ch Hin.
      apply in_app_or in Hin. destruct Hin as [Hin|[Hin|[]]]; [exact (Hsub r g ch Hin)|discriminate].
  - destruct (update_first_parent m (insert_entry b rest) tree) as [tree'|] eqn:E.
    + destruct (ufp_some _ _ _ _ E) as (pre & g & ch & post & -> & _ & ->).
      inversion H as [t Hsub]; subst.
      assert (Hmem : In (BParent m g ch) (pre ++ BParent m g ch :: post)) by (apply in_or_app; right; left; reflexivity).
      destruct (Hsub m g ch Hmem) as [-> Hch].
      destruct (IH ch (above ++ [(m, None)]) Hch) as [Hperm Hnog].
      split.
      * rewrite !chains_app. cbn [chains flat_map leaf_chains_tree]. fold (chains (above ++ [(m, None)]) (insert_entry b rest ch)).
        fold (chains (above ++ [(m, None)]) ch). fold (chains above post).
        replace (above ++ plain (m :: rest)) with ((above ++ [(m, None)]) ++ plain rest)
          by (cbn [plain map]; rewrite <- app_assoc; reflexivity).
        eapply Permutation_trans.
        { apply Permutation_app_head. apply Permutation_app_tail. exact Hperm. }
        cbn [app]. apply Permutation_sym. apply Permutation_middle.
      * constructor. intros r g ch0 Hin. apply in_app_or in Hin. destruct Hin as [Hin|[Hin|Hin]].
        -- apply (Hsub r g ch0). apply in_or_app. left. exact Hin.
        -- injection Hin as _ <- <-. split; [reflexivity|exact Hnog].
        -- apply (Hsub r g ch0). apply in_or_app. right. right. exact Hin.
    + split.
      * rewrite chains_app. cbn [chains flat_map]. rewrite chains_from_path. cbn [app]. try rewrite app_nil_r.
        apply Permutation_sym. apply Permutation_cons_append.
      * inversion H as [t Hsub]; subst. constructor. intros r g ch Hin.
        apply in_app_or in Hin. destruct Hin as [Hin|[Hin|[]]]; [exact (Hsub r g ch Hin)|].
        cbn [from_path] in Hin. injection Hin as _ <- <-. split; [reflexivity|apply nog_from_path].
Qed.

(** What the leaves of the finished tree must be: benchmark [i] below [plain p_i]. *)
Fixpoint expected_from (i : nat) (paths : list (list str)) : list (nat * list (str * option nat)) :=
  match paths with
  | [] => []
  | p :: rest => (i, plain p) :: expected_from (S i) rest
  end.

Lemma from_benches_from_chains (paths : list (list str)) : forall i tree,
  nog tree ->
  Permutation (chains [] (from_benches_from i paths tree)) (expected_from i paths ++ chains [] tree)
  /\ nog (from_benches_from i paths tree).
Proof.
  induction paths as [|p rest IH]; intros i tree H; cbn [from_benches_from expected_from app].
  - split; [apply Permutation_refl|exact H].
  - destruct (insert_entry_chains i p tree [] H) as [Hp Hn].
    destruct (IH (S i) (insert_entry i p tree) Hn) as [Hp2 Hn2]. split; [|exact Hn2].
    eapply Permutation_trans; [exact Hp2|]. cbn [app] in Hp.
    eapply Permutation_trans; [apply Permutation_app_head; exact Hp|].
    apply Permutation_sym. apply Permutation_middle.
Qed.

Lemma nog_nil : nog [].
Proof. constructor. intros r g ch []. Qed.

(** [C15_tree_from_benches] *)
Lemma from_benches_spec (paths : list (list str)) :
  Permutation (leaf_chains (from_benches paths)) (expected_from 0 paths)
  /\ uniq (from_benches paths).
Proof.
  unfold from_benches. split.
  - destruct (from_benches_from_chains paths 0 [] nog_nil) as [H _].
    cbn [chains flat_map] in H. rewrite app_nil_r in H. exact H.
  - apply from_benches_from_uniq. apply uniq_nil.
Qed.

(** * [insert_group] changes group slots only. *)
Fixpoint erase_tree (t : btree) : btree :=
  match t with
  | BLeaf b => BLeaf b
  | BParent r _ ch => BParent r None (map erase_tree ch)
  end.

Lemma set_group_first_erase (raw : str) (g : nat) (tree : list btree) :
  map erase_tree (set_group_first raw g tree) = map erase_tree tree.
Proof.
  induction tree as [|t tree IH]; [reflexivity|]. cbn [set_group_first].
  destruct t as [r slot ch|b].
  - destruct (str_eqb (strip_raw raw) (strip_raw r)); cbn [map erase_tree]; [reflexivity|]. rewrite IH. reflexivity.
  - cbn [map erase_tree]. rewrite IH. reflexivity.
Qed.

Lemma insert_group_erase (g : nat) (gp : list str) (raw : str) : forall tree,
  map erase_tree (insert_group g gp raw tree) = map erase_tree tree.
Proof.
  induction gp as [|m rest IH]; intros tree; cbn [insert_group]; [apply set_group_first_erase|].
  destruct (update_first_parent m (insert_group g rest raw) tree) as [tree'|] eqn:E; [|reflexivity].
  destruct (ufp_some _ _ _ _ E) as (pre & g0 & ch & post & -> & _ & ->).
  rewrite !map_app. cbn [map erase_tree]. rewrite IH. reflexivity.
Qed.

Lemma insert_groups_from_erase (groups : list (list str * str)) : forall g tree,
  map erase_tree (insert_groups_from g groups tree) = map erase_tree tree.
Proof.
  induction groups as [|[p raw] rest IH]; intros g tree; cbn [insert_groups_from]; [reflexivity|].
  rewrite IH. apply insert_group_erase.
Qed.

(** Uniqueness only looks at names, which [erase_tree] keeps. *)
Lemma parent_names_erase (tree : list btree) : parent_names (map erase_tree tree) = parent_names tree.
Proof.
  induction tree as [|t tree IH]; [reflexivity|]. destruct t; cbn [map erase_tree parent_names]; rewrite IH; reflexivity.
Qed.

Section BtreeInd.
  Variable P : btree -> Prop.
  Hypothesis HP : forall r g ch, Forall P ch -> P (BParent r g ch).
  Hypothesis HL : forall b, P (BLeaf b).
  Fixpoint btree_ind' (t : btree) : P t :=
    match t with
    | BParent r g ch =>
        HP r g ch ((fix go (l : list btree) : Forall P l :=
                      match l with [] => Forall_nil P | c :: rest => Forall_cons c (btree_ind' c) (go rest) end) ch)
    | BLeaf b => HL b
    end.
End BtreeInd.

Lemma uniq_erase_forest (tree : list btree) :
  Forall (fun t => forall r g ch, t = BParent r g ch -> (uniq (map erase_tree ch) <-> uniq ch)) tree ->
  (uniq (map erase_tree tree) <-> uniq tree).
Proof.
  intros HF. split; intros H; inversion H as [t Hnd Hsub]; subst; constructor.
  - rewrite parent_names_erase in Hnd. exact Hnd.
  - intros r g ch Hin. rewrite Forall_forall in HF. apply (HF _ Hin r g ch eq_refl).
    apply (Hsub r None (map erase_tree ch)). apply in_map_iff. exists (BParent r g ch). split; [reflexivity|exact Hin].
  - rewrite parent_names_erase. exact Hnd.
  - intros r g ch Hin. apply in_map_iff in Hin. destruct Hin as (t & Ht & Hin).
    destruct t as [r0 g0 ch0|b0]; cbn [erase_tree] in Ht; [|discriminate]. injection Ht as <- <- <-.
    rewrite Forall_forall in HF. apply (HF _ Hin r0 g0 ch0 eq_refl). apply (Hsub r0 g0 ch0 Hin).
Qed.

Lemma uniq_erase_tree (t : btree) : forall r g ch, t = BParent r g ch -> (uniq (map erase_tree ch) <-> uniq ch).
Proof.
  induction t as [r0 g0 ch0 IH|b] using btree_ind'; intros r g ch E; [|discriminate].
  injection E as <- <- <-. apply uniq_erase_forest. exact IH.
Qed.

Lemma uniq_erase (tree : list btree) : uniq (map erase_tree tree) <-> uniq tree.
Proof. apply uniq_erase_forest. apply Forall_forall. intros t _. apply uniq_erase_tree. Qed.

(** [C15_tree_groups_shape_partial] *)
Lemma build_tree_shape (paths : list (list str)) (groups : list (list str * str)) :
  map erase_tree (build_tree paths groups) = map erase_tree (from_benches paths)
  /\ uniq (build_tree paths groups).
Proof.
  unfold build_tree. split; [apply insert_groups_from_erase|].
  apply uniq_erase. rewrite insert_groups_from_erase. apply uniq_erase. apply from_benches_spec.
Qed.

(** The registration orders of the fixed corpus: a function [sort] before,
    between and after the benchmarks of module [sort] — one parent, the group on
    it, whichever order. *)
Example leaf_between_example :
  let m := [109%N] in let s := [115%N] in
  build_tree [[m; s]; [m]; [m; s]; [m; s]] [([m], s)]
  = [BParent m None [BParent s (Some 0%nat) [BLeaf 0; BLeaf 2; BLeaf 3]; BLeaf 1]].
Proof. reflexivity. Qed.
