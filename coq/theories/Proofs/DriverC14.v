(** C14: sorting as an arbitrary permutation of siblings and argument names;
    the terse listing against the test run at the level of [run_action];
    exact round trip. *)
From Coq Require Import Permutation.
From DivanV Require Import Base.Res Model.Registry Model.Tree Model.Driver Proofs.TreeBase Proofs.DriverExec.
Local Open Scope N_scope.

(** ** What [EntryTree::sort_by_attr] may do: permute siblings at every level
    and the argument pointers of every leaf; nothing else. *)
Inductive sib_perm : tree -> tree -> Prop :=
| SP_leaf_none : forall e, sib_perm (Leaf e None) (Leaf e None)
| SP_leaf_some : forall e a a', Permutation a a' -> sib_perm (Leaf e (Some a)) (Leaf e (Some a'))
| SP_parent : forall r g ch ch1 ch2,
    Forall2 sib_perm ch ch1 -> Permutation ch1 ch2 -> sib_perm (Parent r g ch) (Parent r g ch2).

Definition forest_perm (l l2 : list tree) : Prop :=
  exists l1, Forall2 sib_perm l l1 /\ Permutation l1 l2.

Lemma sib_perm_refl : forall t, sib_perm t t.
Proof.
  induction t as [e [a|]|r g ch IH] using tree_ind'.
  - apply SP_leaf_some. apply Permutation_refl.
  - apply SP_leaf_none.
  - apply (SP_parent r g ch ch ch); [|apply Permutation_refl].
    induction IH; constructor; assumption.
Qed.

Lemma forest_perm_refl : forall l, forest_perm l l.
Proof.
  intro l. exists l. split; [|apply Permutation_refl].
  induction l; constructor; [apply sib_perm_refl|assumption].
Qed.

Lemma forest_perm_rev : forall l, forest_perm l (rev l).
Proof.
  intro l. exists l. split; [|apply Permutation_rev].
  induction l; constructor; [apply sib_perm_refl|assumption].
Qed.

Lemma sib_perm_same_head : forall t t',
  sib_perm t t' -> display_name t = display_name t' /\ node_opts t = node_opts t'.
Proof. intros t t' H. inversion H; subst; split; reflexivity. Qed.

Lemma Permutation_flat_map_Forall2 : forall A B (R : A -> A -> Prop) (f : A -> list B) l l',
  Forall2 R l l' -> (forall x y, In x l -> R x y -> Permutation (f x) (f y)) ->
  Permutation (flat_map f l) (flat_map f l').
Proof.
  intros A B R f l l' H. induction H as [|x y l l' Hxy Hl IH]; intro Hf; cbn; [apply Permutation_refl|].
  apply Permutation_app; [apply Hf; [left; reflexivity|exact Hxy]|].
  apply IH. intros a b Ha Hab. apply Hf; [right; exact Ha|exact Hab].
Qed.

Lemma exec_sib_perm : forall c t t' pp po,
  sib_perm t t' -> Permutation (exec_node c pp po t) (exec_node c pp po t').
Proof.
  intros c. induction t as [e args|r g ch IH] using tree_ind'; intros t' pp po H;
    inversion H as [e0|e0 a0 a' HPa|r0 g0 ch0 ch1 ch2 HF HP]; subst.
  - apply Permutation_refl.
  - cbn [exec_node]. cbn [display_name node_opts node_meta].
    destruct (leaf_ignored c _); [apply Permutation_refl|].
    destruct (entry_runner e); [apply Permutation_refl|].
    apply Permutation_flat_map. exact HPa.
  - cbn [exec_node]. cbn [display_name node_opts node_meta].
    set (path := join_path pp _). set (options := merge_opts po _).
    apply Permutation_trans with (flat_map (exec_node c path options) ch1).
    + apply (Permutation_flat_map_Forall2 _ _ sib_perm); [exact HF|].
      intros x y Hx Hxy. rewrite Forall_forall in IH. apply (IH x Hx). exact Hxy.
    + apply Permutation_flat_map. exact HP.
Qed.

Lemma exec_forest_perm : forall c l l' pp po,
  forest_perm l l' -> Permutation (exec_forest c pp po l) (exec_forest c pp po l').
Proof.
  intros c l l' pp po [l1 [H1 H2]]. unfold exec_forest.
  apply Permutation_trans with (flat_map (exec_node c pp po) l1).
  - apply (Permutation_flat_map_Forall2 _ _ sib_perm); [exact H1|].
    intros x y _ Hxy. apply exec_sib_perm. exact Hxy.
  - apply Permutation_flat_map. exact H2.
Qed.

Lemma forallb_perm : forall A (q : A -> bool) l l', Permutation l l' -> forallb q l = true -> forallb q l' = true.
Proof.
  intros A q l l' H Hq. rewrite forallb_forall in *. intros x Hx. apply Hq.
  apply (Permutation_in x (Permutation_sym H)). exact Hx.
Qed.

Lemma wf_sib_perm : forall t t', sib_perm t t' -> wf_node t = true -> wf_node t' = true.
Proof.
  induction t as [e args|r g ch IH] using tree_ind'; intros t' H Hwf;
    inversion H as [e0|e0 a0 a' HPa|r0 g0 ch0 ch1 ch2 HF HP]; subst.
  - exact Hwf.
  - cbn in *. destruct (entry_runner e); [discriminate|]. eapply forallb_perm; eassumption.
  - cbn in *. apply (forallb_perm _ _ ch1 ch2); [exact HP|].
    clear -IH Hwf HF. induction HF as [|x y l l' Hxy Hl IHl]; [reflexivity|].
    cbn in *. apply andb_true_iff in Hwf. destruct Hwf as [Hx Htl].
    inversion IH as [|? ? Px Ptl]; subst.
    rewrite (Px y Hxy Hx). cbn. apply IHl; assumption.
Qed.

Lemma wf_forest_perm : forall l l', forest_perm l l' -> wf_forest l = true -> wf_forest l' = true.
Proof.
  intros l l' [l1 [H1 H2]] Hwf. unfold wf_forest in *. apply (forallb_perm _ _ l1 l'); [exact H2|].
  clear H2. induction H1 as [|x y l l1 Hxy Hl IH]; [reflexivity|].
  cbn in *. apply andb_true_iff in Hwf. destruct Hwf as [Hx Htl].
  rewrite (wf_sib_perm x y Hxy Hx). cbn. apply IH. exact Htl.
Qed.

(** ** The terse listing against the test run *)

(** Every forest, any parent path and inherited options: same lines, same order. *)
Lemma terse_eq_run_forest : forall c t pp po,
  wf_forest t = true ->
  snd (run_forest c Test pp po t) = None /\
  lines (list_forest c pp po t)
  = map (fun p => p ++ s_benchmark) (exec_paths (fst (run_forest c Test pp po t))).
Proof.
  intros c t pp po Hwf.
  destruct (run_forest_ok c Test eq_refl t pp po Hwf) as [Hp Hx].
  split; [exact Hp|]. rewrite (list_forest_ok c t pp po Hwf). unfold exec_paths. rewrite Hx.
  rewrite map_map. reflexivity.
Qed.

Section RunAction.
  Variable srt : list tree -> list tree.
  Hypothesis srt_perm : forall t, forest_perm t (srt t).

  Lemma run_action_exec : forall c a benches groups,
    is_list a = false -> a <> ListTerse ->
    okx (run_action c srt a benches groups)
        (exec_forest c [] None (srt (retain (c_filter c) (build_tree benches groups)))).
  Proof.
    intros c a benches groups Ha Hb. unfold run_action.
    set (t := retain (c_filter c) (build_tree benches groups)).
    assert (Hwf : wf_forest t = true) by (apply wf_retain, wf_build_tree).
    destruct (is_nil t) eqn:En.
    - apply is_nil_spec in En. rewrite En.
      destruct (srt_perm []) as [l1 [H1 H2]]. inversion H1; subst. apply Permutation_nil in H2. rewrite H2.
      split; reflexivity.
    - assert (Hrun : okx (run_forest c a [] None (srt t)) (exec_forest c [] None (srt t))).
      { apply run_forest_ok; [exact Ha|]. apply (wf_forest_perm t); [apply srt_perm|exact Hwf]. }
      destruct a; try exact Hrun. congruence.
  Qed.

  Lemma terse_lines : forall c benches groups,
    lines (fst (run_action c srt ListTerse benches groups))
    = map line_of (exec_forest c [] None (retain (c_filter c) (build_tree benches groups))).
  Proof.
    intros c benches groups. unfold run_action.
    set (t := retain (c_filter c) (build_tree benches groups)).
    assert (Hwf : wf_forest t = true) by (apply wf_retain, wf_build_tree).
    destruct (is_nil t) eqn:En.
    - apply is_nil_spec in En. rewrite En. reflexivity.
    - cbn [fst tret]. apply list_forest_ok. exact Hwf.
  Qed.

  Lemma terse_eq_run : forall c benches groups,
    snd (run_action c srt Test benches groups) = None /\
    Permutation (lines (fst (run_action c srt ListTerse benches groups)))
                (map (fun p => p ++ s_benchmark) (exec_paths (fst (run_action c srt Test benches groups)))).
  Proof.
    intros c benches groups.
    destruct (run_action_exec c Test benches groups eq_refl) as [Hp Hx]; [discriminate|].
    split; [exact Hp|]. rewrite terse_lines. unfold exec_paths. rewrite Hx, map_map.
    apply (Permutation_map line_of). apply exec_forest_perm. apply srt_perm.
  Qed.

  (** ** Exact round trip *)
  Lemma filter_eq_nodup : forall (l : list xcase) p,
    NoDup (map xpath l) -> In p (map xpath l) ->
    map xpath (filter (fun x => str_eqb p (xpath x)) l) = [p].
  Proof.
    induction l as [|x tl IH]; intros p Hnd Hin; [contradiction|].
    cbn in Hnd. inversion Hnd as [|? ? Hnot Hnd']; subst. cbn [filter].
    destruct (str_eqb p (xpath x)) eqn:E.
    - apply str_eqb_spec in E. subst p. cbn [map]. f_equal.
      rewrite filter_none; [reflexivity|]. intros y Hy.
      destruct (str_eqb (xpath x) (xpath y)) eqn:E2; [|reflexivity].
      apply str_eqb_spec in E2. exfalso. apply Hnot. rewrite E2. apply in_map. exact Hy.
    - apply IH; [exact Hnd'|]. cbn in Hin. destruct Hin as [Hin|Hin]; [|exact Hin].
      subst p. rewrite str_eqb_refl in E. discriminate.
  Qed.

  Lemma NoDup_filter_map : forall (l : list xcase) q, NoDup (map xpath l) -> NoDup (map xpath (filter q l)).
  Proof.
    induction l as [|x tl IH]; intros q H; [constructor|].
    cbn in H. inversion H as [|? ? Hnot Hnd]; subst. cbn [filter]. destruct (q x).
    - cbn. constructor; [|apply IH; exact Hnd]. intro Hin. apply Hnot.
      apply in_map_iff in Hin. destruct Hin as [y [Hy Hin]]. apply filter_In in Hin. rewrite <- Hy. apply in_map. apply Hin.
    - apply IH. exact Hnd.
  Qed.

  Definition with_filter (c : cfg) (f : str -> bool) : cfg :=
    {| c_run_ignored := c_run_ignored c; c_opts := c_opts c; c_filter := f; c_threads := c_threads c |}.

  Lemma exec_with_filter : forall c f pp po t, exec_node (with_filter c f) pp po t = exec_node c pp po t.
  Proof.
    intros c f pp po t. revert pp po. induction t as [e args|r g ch IH] using tree_ind'; intros pp po.
    - reflexivity.
    - cbn [exec_node]. apply flat_map_ext_in. intros x Hx. rewrite Forall_forall in IH. apply IH. exact Hx.
  Qed.

  Lemma exact_roundtrip : forall c benches groups p,
    let t0 := build_tree benches groups in
    NoDup (map xpath (exec_forest c [] None t0)) ->
    In (p ++ s_benchmark) (lines (fst (run_action c srt ListTerse benches groups))) ->
    let c' := with_filter c (str_eqb p) in
    lines (fst (run_action c' srt ListTerse benches groups)) = [p ++ s_benchmark] /\
    snd (run_action c' srt Test benches groups) = None /\
    exec_paths (fst (run_action c' srt Test benches groups)) = [p].
  Proof.
    intros c benches groups p t0 Hnd Hin c'.
    assert (Hwf : wf_forest t0 = true) by apply wf_build_tree.
    rewrite terse_lines in Hin. fold t0 in Hin. rewrite (exec_retain c _ t0 None Hwf) in Hin.
    apply in_map_iff in Hin. destruct Hin as [x [Hx Hin]]. unfold line_of in Hx. apply app_inv_tail in Hx.
    apply filter_In in Hin. destruct Hin as [Hin _].
    assert (Hp : In p (map xpath (exec_forest c [] None t0))) by (rewrite <- Hx; apply in_map; exact Hin).
    assert (Hsame : exec_forest c' [] None t0 = exec_forest c [] None t0).
    { unfold exec_forest. apply flat_map_ext_in. intros y _. apply exec_with_filter. }
    assert (Hsel : map xpath (exec_forest c' [] None (retain (c_filter c') t0)) = [p]).
    { rewrite (exec_retain c' _ t0 None Hwf), Hsame. cbn [c_filter c' with_filter]. apply filter_eq_nodup; assumption. }
    split; [|split].
    - rewrite terse_lines. fold t0. unfold line_of.
      rewrite <- (map_map xpath (fun p => p ++ s_benchmark)), Hsel. reflexivity.
    - apply (run_action_exec c' Test benches groups eq_refl). discriminate.
    - destruct (run_action_exec c' Test benches groups eq_refl) as [_ Hx']; [discriminate|].
      unfold exec_paths. rewrite Hx'. fold t0.
      assert (Hperm : Permutation (map xpath (exec_forest c' [] None (retain (c_filter c') t0)))
                                  (map xpath (exec_forest c' [] None (srt (retain (c_filter c') t0))))).
      { apply Permutation_map. apply exec_forest_perm. apply srt_perm. }
      rewrite Hsel in Hperm. apply Permutation_length_1_inv in Hperm. exact Hperm.
  Qed.
End RunAction.

(** ** The hypotheses are satisfiable *)
Example srt_identity_ok : forall t, forest_perm t ((fun x => x) t).
Proof. intro t. apply forest_perm_refl. Qed.

Example srt_reverse_ok : forall t, forest_perm t (rev t).
Proof. intro t. apply forest_perm_rev. Qed.

(** ** Meaning of the boolean specifications, and the model satisfies them *)
Lemma remove_one_some : forall s l l', remove_one s l = Some l' -> Permutation l (s :: l').
Proof.
  intros s. induction l as [|x tl IH]; intros l' H; cbn in H; [discriminate|].
  destruct (str_eqb x s) eqn:E.
  - apply str_eqb_spec in E. inversion H; subst. apply Permutation_refl.
  - destruct (remove_one s tl) as [r|] eqn:E2; [|discriminate]. inversion H; subst.
    apply Permutation_trans with (x :: s :: r); [apply perm_skip; apply IH; reflexivity|apply perm_swap].
Qed.

Lemma remove_one_none : forall s l, remove_one s l = None -> ~ In s l.
Proof.
  intros s. induction l as [|x tl IH]; intros H Hin; cbn in H; [exact Hin|].
  destruct (str_eqb x s) eqn:E; [discriminate|].
  destruct (remove_one s tl) eqn:E2; [discriminate|].
  destruct Hin as [Hin|Hin]; [subst; rewrite str_eqb_refl in E; discriminate|]. apply (IH eq_refl Hin).
Qed.

Lemma multiset_eqb_spec : forall a b, multiset_eqb a b = true <-> Permutation a b.
Proof.
  induction a as [|x tl IH]; intro b; cbn.
  - split; intro H.
    + apply is_nil_spec in H. subst. apply Permutation_refl.
    + apply Permutation_nil in H. subst. reflexivity.
  - destruct (remove_one x b) as [b'|] eqn:E; split; intro H.
    + apply IH in H. apply Permutation_trans with (x :: b'); [apply perm_skip; exact H|].
      apply Permutation_sym. apply remove_one_some. exact E.
    + apply IH. apply remove_one_some in E. apply (Permutation_cons_inv (a := x)).
      apply Permutation_trans with b; assumption.
    + discriminate.
    + exfalso. apply (remove_one_none _ _ E). apply (Permutation_in x H). left. reflexivity.
Qed.

Lemma c14_terse_sb_spec : forall terse ran,
  c14_terse_sb terse ran = true <-> Permutation terse (map (fun p => p ++ s_benchmark) ran).
Proof. intros. apply multiset_eqb_spec. Qed.

Lemma list_eqb_str_spec : forall a b, list_eqb str_eqb a b = true <-> a = b.
Proof.
  induction a as [|x a IH]; destruct b as [|y b]; cbn; split; intro H; try congruence; try discriminate.
  - apply andb_true_iff in H. destruct H as [H1 H2]. apply str_eqb_spec in H1. apply IH in H2. congruence.
  - inversion H; subst. rewrite str_eqb_refl. cbn. apply IH. reflexivity.
Qed.

Lemma c14_roundtrip_sb_spec : forall p terse ran,
  c14_roundtrip_sb p terse ran = true <-> terse = [p ++ s_benchmark] /\ ran = [p].
Proof.
  intros. unfold c14_roundtrip_sb. rewrite andb_true_iff, !list_eqb_str_spec. reflexivity.
Qed.

Lemma model_terse_sb : forall srt, (forall t, forest_perm t (srt t)) ->
  forall c benches groups,
  c14_terse_sb (lines (fst (run_action c srt ListTerse benches groups)))
               (exec_paths (fst (run_action c srt Test benches groups))) = true.
Proof.
  intros srt Hs c benches groups. apply c14_terse_sb_spec. apply (terse_eq_run srt Hs).
Qed.

Lemma list_benches_runs_nothing : forall c srt benches groups,
  snd (list_benches c srt benches groups) = None /\
  forallb (fun x => negb (runs_something x)) (fst (list_benches c srt benches groups)) = true.
Proof. intros. apply list_runs_nothing. left. reflexivity. Qed.

Lemma built_trees_wf : forall f benches groups,
  wf_forest (retain f (build_tree benches groups)) = true.
Proof. intros. apply wf_retain, wf_build_tree. Qed.

Lemma sort_hypothesis_satisfiable :
  (forall t, forest_perm t ((fun x => x) t)) /\ (forall t, forest_perm t (rev t)).
Proof. split; [exact srt_identity_ok|exact srt_reverse_ok]. Qed.
