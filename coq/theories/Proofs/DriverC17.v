(** C17: the case shown under a label runs with the value whose rendering is
    that label; the executed cases are exactly the selected ones; argument
    lists are evaluated once and shared. *)
From Coq Require Import Permutation.
From DivanV Require Import Base.Res Model.Registry Model.Tree Model.Driver
  Proofs.TreeBase Proofs.DriverExec Proofs.DriverC14 Proofs.TreeLeaves Proofs.Flat Proofs.Expand.
Local Open Scope N_scope.

(** "label = to_string value": the display path ends in "::" ++ rendering of the received value. *)
Definition label_ok (x : xcase) : Prop :=
  match snd x with
  | Some (i, v) => exists base, xpath x = base ++ s_colons ++ value_to_string v
  | None => True
  end.

Lemma arg_label_value : forall e o vals i v,
  entry_runner e = RArgs o vals -> nth_error vals (N.to_nat i) = Some v -> arg_label e i = value_to_string v.
Proof.
  intros e o vals i v He Hn. unfold arg_label, entry_arg_names. rewrite He. unfold arg_names.
  rewrite (map_nth_error value_to_string _ _ Hn). reflexivity.
Qed.

Lemma arg_case_label : forall e o vals path i x,
  entry_runner e = RArgs o vals -> In x (arg_case e vals path i) ->
  label_ok x /\ exists v, nth_error vals (N.to_nat i) = Some v /\ x = (entry_id e, arg_path path e i, Some (i, v)).
Proof.
  intros e o vals path i x He Hx. unfold arg_case in Hx.
  destruct (nth_error vals (N.to_nat i)) as [v|] eqn:E; [|contradiction].
  destruct Hx as [Hx|[]]. subst x. split.
  - unfold label_ok. cbn [snd xpath fst]. exists path. unfold arg_path. rewrite (arg_label_value e o vals i v He E). reflexivity.
  - exists v. split; [reflexivity|reflexivity].
Qed.

Lemma exec_node_label : forall c t pp po, Forall label_ok (exec_node c pp po t).
Proof.
  intros c. induction t as [e a|r g ch IH] using tree_ind'; intros pp po.
  - cbn [exec_node]. destruct (leaf_ignored c _); [constructor|].
    destruct (entry_runner e) as [|o vals] eqn:He.
    + constructor; [exact I|constructor].
    + apply Forall_forall. intros x Hx. apply in_flat_map in Hx. destruct Hx as [i [_ Hx]].
      apply (arg_case_label e o vals _ i x He Hx).
  - cbn [exec_node]. apply Forall_forall. intros x Hx. apply in_flat_map in Hx. destruct Hx as [t [Ht Hx]].
    rewrite Forall_forall in IH. specialize (IH t Ht (join_path pp (display_name (Parent r g ch))) (merge_opts po (node_opts (Parent r g ch)))).
    rewrite Forall_forall in IH. apply IH. exact Hx.
Qed.

Lemma exec_forest_label : forall c l pp po, Forall label_ok (exec_forest c pp po l).
Proof.
  intros c l pp po. apply Forall_forall. intros x Hx. apply in_flat_map in Hx. destruct Hx as [t [_ Hx]].
  pose proof (exec_node_label c t pp po) as H. rewrite Forall_forall in H. apply H. exact Hx.
Qed.

Section Sorted.
  Variable srt : list tree -> list tree.
  Hypothesis srt_perm : forall t, forest_perm t (srt t).

  (** For every registry, filter, ignore flag, sort and action that runs. *)
  Lemma label_value : forall c a benches groups,
    is_list a = false -> a <> ListTerse ->
    snd (run_action c srt a benches groups) = None /\
    Forall label_ok (executed (fst (run_action c srt a benches groups))).
  Proof.
    intros c a benches groups Ha Hb.
    destruct (run_action_exec srt srt_perm c a benches groups Ha Hb) as [Hp Hx].
    split; [exact Hp|]. rewrite Hx. apply exec_forest_label.
  Qed.

  (** The executed multiset is exactly the selected subset of the registered cases. *)
  Lemma selected_subset : forall c a benches groups,
    is_list a = false -> a <> ListTerse ->
    Permutation (executed (fst (run_action c srt a benches groups)))
                (filter (fun x => c_filter c (xpath x))
                        (flat_map (keyed_case c (attach_key benches groups) groups) (all_entries benches groups))).
  Proof.
    intros c a benches groups Ha Hb.
    destruct (run_action_exec srt srt_perm c a benches groups Ha Hb) as [_ Hx]. rewrite Hx.
    eapply Permutation_trans; [apply Permutation_sym; apply exec_forest_perm; apply srt_perm|].
    apply exec_keyed_filtered.
  Qed.

  (** Every executed argument case is value number [i] of the argument list of the entry it names. *)
  Definition value_ok (es : list any_entry) (x : xcase) : Prop :=
    match snd x with
    | Some (i, v) => exists e o vals, In e es /\ entry_id e = fst (fst x) /\ entry_runner e = RArgs o vals
                                      /\ nth_error vals (N.to_nat i) = Some v
    | None => exists e, In e es /\ entry_id e = fst (fst x) /\ entry_runner e = RPlain
    end.

  Lemma keyed_case_value : forall c kf groups e x, In x (keyed_case c kf groups e) -> value_ok [e] x.
  Proof.
    intros c kf groups e x Hx. unfold keyed_case, case_of in Hx. cbn [fst snd rekey rleaf_of] in Hx.
    destruct (leaf_ignored c _); [contradiction|].
    destruct (entry_runner e) as [|o vals] eqn:He.
    - destruct Hx as [Hx|[]]. subst x. exists e. cbn. auto.
    - apply in_flat_map in Hx. destruct Hx as [i [_ Hx]].
      destruct (arg_case_label e o vals _ i x He Hx) as [_ [v [Hn Hxe]]]. subst x.
      unfold value_ok. cbn [snd fst]. exists e, o, vals. cbn. auto.
  Qed.

  Lemma value_ok_weaken : forall e es x, In e es -> value_ok [e] x -> value_ok es x.
  Proof.
    intros e es x He H. unfold value_ok in *. destruct (snd x) as [[i v]|].
    - destruct H as [e' [o [vals [[H1|[]] H2]]]]. subst e'. exists e, o, vals. auto.
    - destruct H as [e' [[H1|[]] H2]]. subst e'. exists e. auto.
  Qed.

  Lemma received_value : forall c a benches groups,
    is_list a = false -> a <> ListTerse ->
    Forall (value_ok (all_entries benches groups)) (executed (fst (run_action c srt a benches groups))).
  Proof.
    intros c a benches groups Ha Hb. apply Forall_forall. intros x Hx.
    apply (Permutation_in x (selected_subset c a benches groups Ha Hb)) in Hx.
    apply filter_In in Hx. destruct Hx as [Hx _]. apply in_flat_map in Hx. destruct Hx as [e [He Hx]].
    apply (value_ok_weaken e); [exact He|]. apply (keyed_case_value c _ groups e x Hx).
  Qed.
End Sorted.

(** ** Evaluated once, shared *)
Lemma dedup_nodup : forall l seen, NoDup (dedup l seen) /\ (forall x, In x (dedup l seen) -> ~ In x seen).
Proof.
  induction l as [|x tl IH]; intro seen; cbn [dedup]; [split; [constructor|intros ? []]|].
  destruct (existsb (N.eqb x) seen) eqn:E; [apply IH|].
  destruct (IH (x :: seen)) as [Hnd Hnot]. split.
  - constructor; [|exact Hnd]. intro Hin. apply (Hnot x Hin). left. reflexivity.
  - intros y [Hy|Hy].
    + subst y. intro Hin. assert (Ht : existsb (N.eqb x) seen = true).
      { apply existsb_exists. exists x. split; [exact Hin|apply N.eqb_refl]. }
      congruence.
    + intro Hin. apply (Hnot y Hy). right. exact Hin.
Qed.

Lemma dedup_complete : forall l seen x, In x l -> In x seen \/ In x (dedup l seen).
Proof.
  induction l as [|y tl IH]; intros seen x Hx; [contradiction|]. cbn [dedup].
  destruct (existsb (N.eqb y) seen) eqn:E.
  - destruct Hx as [Hx|Hx]; [|apply IH; exact Hx]. subst y. left.
    apply existsb_exists in E. destruct E as [z [Hz Hxz]]. apply N.eqb_eq in Hxz. subst. exact Hz.
  - destruct Hx as [Hx|Hx]; [subst; right; left; reflexivity|].
    destruct (IH (y :: seen) x Hx) as [[H|H]|H]; [subst; right; left; reflexivity|left; exact H|right; right; exact H].
Qed.

(** Each [BenchArgs] static is initialised exactly once per process, and every
    argument runner finds its list initialised. *)
Lemma evaluated_once : forall es,
  NoDup (args_evaluations es) /\
  (forall e o vals, In e es -> entry_runner e = RArgs o vals -> In o (args_evaluations es)).
Proof.
  intro es. unfold args_evaluations. split; [apply dedup_nodup|].
  intros e o vals He Hr.
  destruct (dedup_complete (flat_map args_owner es) [] o) as [[]|H]; [|exact H].
  apply in_flat_map. exists e. split; [exact He|]. unfold args_owner. rewrite Hr. left. reflexivity.
Qed.

(** All generic instantiations of one function share one argument list (one owner, the same values). *)
Lemma shared_by_instantiations : forall mp n b rows,
  expand_bench mp n b = Ok ([], [{| g_id := n; g_meta := bench_meta mp b; g_generic := Some rows |}],
                            n + 1 + N.of_nat (length (concat rows))) ->
  generic_is_empty (bd_types b) (bd_consts b) = false ->
  (bd_types b <> None \/ bd_consts b <> None) -> consts_compile (bd_consts b) ->
  forall e, In e (concat rows) -> ge_runner e = runner_of n (bd_args b).
Proof.
  intros mp n b rows H He Hg Hc e Hin.
  destruct (expand_bench_generic mp n b He Hg Hc) as [rows' [H1 [_ [H3 _]]]].
  rewrite H1 in H. inversion H; subst. apply H3. exact Hin.
Qed.

(** ** Meaning of the boolean specifications *)
Lemma suffixb_spec : forall suf s, suffixb suf s = true <-> exists pre, s = pre ++ suf.
Proof.
  intros suf. induction s as [|c tl IH]; cbn [suffixb].
  - rewrite orb_false_r. split; intro H.
    + apply str_eqb_spec in H. subst. exists []. reflexivity.
    + destruct H as [pre H]. symmetry in H. apply app_eq_nil in H. destruct H as [_ H]. subst. apply str_eqb_refl.
  - split; intro H.
    + apply orb_true_iff in H. destruct H as [H|H].
      * apply str_eqb_spec in H. subst. exists []. reflexivity.
      * apply IH in H. destruct H as [pre H]. exists (c :: pre). rewrite H. reflexivity.
    + destruct H as [pre H]. apply orb_true_iff. destruct pre as [|p pre].
      * left. cbn in H. subst. apply str_eqb_refl.
      * right. apply IH. cbn in H. inversion H. exists pre. reflexivity.
Qed.

Lemma c17_label_sb_spec : forall path v,
  c17_label_sb path v = true <-> exists base, path = base ++ s_colons ++ value_to_string v.
Proof. intros. unfold c17_label_sb. apply suffixb_spec. Qed.

(** ** Row labels under thread branches: the row of a case keeps the case's label
    and path whatever the number of thread counts; with two or more it is a parent
    with one leaf "t=N" per count below it, and the function receives the same
    argument for every count. *)
Lemma painted_run_threads : forall a id path arg first tcs,
  painted (run_threads a id path arg first tcs) = map (fun tc => (2, join_path path (thread_name tc))) tcs.
Proof.
  intros a id path arg first tcs. revert first. induction tcs as [|tc tl IH]; intro first; [reflexivity|].
  cbn [run_threads map]. unfold painted in *. rewrite flat_map_app, IH. destruct first, (is_bench a); reflexivity.
Qed.

Lemma painted_app : forall l1 l2, painted (l1 ++ l2) = painted l1 ++ painted l2.
Proof. intros. unfold painted. apply flat_map_app. Qed.

Lemma row_labels : forall tcs a id name path il arg,
  painted (run_bench tcs a id name path il arg)
  = match tcs with
    | _ :: _ :: _ => (0, path) :: map (fun tc => (2, join_path path (thread_name tc))) tcs
    | _ => [(2, path)]
    end.
Proof.
  intros tcs a id name path il arg. unfold run_bench.
  destruct tcs as [|t1 [|t2 tl]]; try (destruct (is_bench a); reflexivity).
  rewrite !painted_app, painted_run_threads. cbn [painted flat_map app]. rewrite app_nil_r. reflexivity.
Qed.

Definition invoked_args (l : list action) : list (N * option (N * value)) :=
  flat_map (fun x => match x with
                     | AInvoke id _ arg => [(id, arg)]
                     | AInvokeMore id _ arg _ => [(id, arg)]
                     | _ => [] end) l.

Lemma invoked_run_threads : forall a id path arg first tcs,
  invoked_args (run_threads a id path arg first tcs) = map (fun _ => (id, arg)) tcs.
Proof.
  intros a id path arg first tcs. revert first. induction tcs as [|tc tl IH]; intro first; [reflexivity|].
  cbn [run_threads map]. unfold invoked_args in *. rewrite flat_map_app, IH. destruct first, (is_bench a); reflexivity.
Qed.

Lemma same_argument_every_thread_count : forall tcs a id name path il arg,
  invoked_args (run_bench tcs a id name path il arg)
  = match tcs with _ :: _ :: _ => map (fun _ => (id, arg)) tcs | _ => [(id, arg)] end.
Proof.
  intros tcs a id name path il arg. unfold run_bench.
  destruct tcs as [|t1 [|t2 tl]]; try (destruct (is_bench a); reflexivity).
  unfold invoked_args. rewrite !flat_map_app. fold (invoked_args (run_threads a id path arg true (t1 :: t2 :: tl))).
  rewrite invoked_run_threads. cbn [flat_map app]. rewrite app_nil_r. reflexivity.
Qed.
