(** Proofs about Model/Record.v (property C10, the recording step). *)
From DivanV Require Import Base.Res Model.Tally Model.Record Proofs.Tally.
From Coq Require Import ZifyN ZifyBool ZifyNat.
Local Open Scope N_scope.

Arguments N.add : simpl never.
Arguments N.modulo : simpl never.
Arguments N.of_nat : simpl never.

(** * The association list *)

Lemma get_filter k k' m :
  map_get k (filter (fun kv => negb (fst kv =? k')) m) = if k =? k' then None else map_get k m.
Proof.
  induction m as [|[a v] m IH]; cbn [filter map_get fst].
  - destruct (k =? k'); reflexivity.
  - destruct (a =? k') eqn:E1; cbn [negb map_get].
    + rewrite IH. apply N.eqb_eq in E1. subst a. rewrite (N.eqb_sym k' k).
      destruct (k =? k'); reflexivity.
    + rewrite IH. destruct (a =? k) eqn:E2; [|reflexivity].
      apply N.eqb_eq in E2. subst a. rewrite E1. reflexivity.
Qed.

Lemma get_insert k k' v m :
  map_get k (map_insert k' v m) = if k' =? k then Some v else map_get k m.
Proof.
  unfold map_insert. cbn [map_get]. destruct (k' =? k) eqn:E; [reflexivity|].
  rewrite get_filter. rewrite (N.eqb_sym k k'), E. reflexivity.
Qed.

Lemma existsb_filter_key k k' (m : list (N * info)) :
  existsb (fun kv => fst kv =? k) (filter (fun kv => negb (fst kv =? k')) m)
  = negb (k =? k') && existsb (fun kv => fst kv =? k) m.
Proof.
  induction m as [|[a v] m IH]; cbn [filter existsb fst].
  - rewrite andb_false_r. reflexivity.
  - destruct (a =? k') eqn:E1; cbn [negb existsb fst].
    + rewrite IH. apply N.eqb_eq in E1. subst a. rewrite (N.eqb_sym k' k).
      destruct (k =? k'); reflexivity.
    + rewrite IH. destruct (a =? k) eqn:E2; cbn [orb]; [|reflexivity].
      apply N.eqb_eq in E2. subst a. rewrite E1. reflexivity.
Qed.

Lemma keys_distinct_filter k' m :
  keys_distinct m = true -> keys_distinct (filter (fun kv => negb (fst kv =? k')) m) = true.
Proof.
  induction m as [|[a v] m IH]; intros H; cbn [filter keys_distinct fst] in *; [reflexivity|].
  apply andb_prop in H. destruct H as [H1 H2].
  destruct (a =? k'); cbn [negb keys_distinct]; [apply IH; exact H2|].
  rewrite existsb_filter_key. rewrite IH by exact H2.
  destruct (existsb (fun kv => fst kv =? a) m); [discriminate H1|].
  rewrite andb_false_r. reflexivity.
Qed.

Lemma keys_distinct_insert k v m :
  keys_distinct m = true -> keys_distinct (map_insert k v m) = true.
Proof.
  intros H. unfold map_insert. cbn [keys_distinct]. rewrite existsb_filter_key, N.eqb_refl. cbn [negb andb].
  apply keys_distinct_filter. exact H.
Qed.

Lemma key_in_get k v m : In (k, v) m -> map_get k m <> None.
Proof.
  induction m as [|[a w] m IH]; intros H; [contradiction|].
  cbn [map_get]. destruct (a =? k) eqn:E; [discriminate|].
  destruct H as [H|H]; [inversion H; subst; rewrite N.eqb_refl in E; discriminate|apply IH; exact H].
Qed.

(** * The invariant: the state after recording the snapshots [P] *)

Definition lookup_spec (P : list info) (k : N) : option info :=
  if k <? N.of_nat (length P) then expected_record P (N.to_nat k) else None.

Record rinv (P : list info) (s : samples) : Prop := {
  r_len : s_len s = N.of_nat (length P);
  r_get : forall k, map_get k (s_map s) = lookup_spec P k;
  r_keys : keys_distinct (s_map s) = true
}.

Lemma rinv_empty : rinv [] samples_empty.
Proof.
  constructor; try reflexivity. intros k. unfold lookup_spec. cbn [length].
  destruct (k <? N.of_nat 0) eqn:E; [lia|reflexivity].
Qed.

Lemma lookup_spec_snoc P x k :
  lookup_spec (P ++ [x]) k =
  if k =? N.of_nat (length P) then (if tallies_empty x then None else Some x) else lookup_spec P k.
Proof.
  unfold lookup_spec. rewrite app_length. cbn [length].
  destruct (k =? N.of_nat (length P)) eqn:E.
  - apply N.eqb_eq in E. subst k.
    destruct (N.of_nat (length P) <? N.of_nat (length P + 1)) eqn:E2; [|lia].
    unfold expected_record. rewrite Nat2N.id.
    rewrite nth_error_app2 by lia. rewrite Nat.sub_diag. reflexivity.
  - apply N.eqb_neq in E.
    destruct (k <? N.of_nat (length P)) eqn:E1.
    + destruct (k <? N.of_nat (length P + 1)) eqn:E2; [|lia].
      unfold expected_record. rewrite nth_error_app1 by lia. reflexivity.
    + destruct (k <? N.of_nat (length P + 1)) eqn:E2; [lia|reflexivity].
Qed.

Lemma as_u32_small x : x < 4294967296 -> as_u32 x = x.
Proof. intros H. unfold as_u32. apply N.mod_small. exact H. Qed.

Lemma record_sample_rinv P s x :
  rinv P s -> N.of_nat (length P) < 4294967296 -> rinv (P ++ [x]) (record_sample s x).
Proof.
  intros [Hl Hg Hk] Hb. unfold record_sample. rewrite Hl, as_u32_small by exact Hb.
  destruct (tallies_empty x) eqn:Ex; cbn [negb]; constructor; cbn [s_len s_map].
  - rewrite app_length. cbn [length]. lia.
  - intros k. rewrite lookup_spec_snoc, Ex, Hg.
    destruct (k =? N.of_nat (length P)) eqn:E; [|reflexivity].
    apply N.eqb_eq in E. subst k. unfold lookup_spec.
    destruct (N.of_nat (length P) <? N.of_nat (length P)) eqn:E2; [lia|reflexivity].
  - exact Hk.
  - rewrite app_length. cbn [length]. lia.
  - intros k. rewrite lookup_spec_snoc, Ex, get_insert, Hg. rewrite (N.eqb_sym k). reflexivity.
  - apply keys_distinct_insert. exact Hk.
Qed.

Lemma record_round_rinv L : forall P s,
  rinv P s -> N.of_nat (length (P ++ L)) <= 4294967296 -> rinv (P ++ L) (record_round s L).
Proof.
  induction L as [|x L IH]; intros P s H Hb.
  - rewrite app_nil_r. exact H.
  - unfold record_round. cbn [fold_left]. fold (record_round (record_sample s x) L).
    replace (P ++ x :: L) with ((P ++ [x]) ++ L) in * by (rewrite <- app_assoc; reflexivity).
    apply IH; [|exact Hb]. apply record_sample_rinv; [exact H|].
    rewrite !app_length in Hb. cbn [length] in Hb. lia.
Qed.

Lemma rec_run_rinv ops : forall acc s,
  rinv (concat acc) s ->
  N.of_nat (length (concat acc)) + total_snaps ops <= 4294967296 ->
  rinv (concat (kept_from ops acc)) (fold_left rec_step ops s).
Proof.
  induction ops as [|[snaps|] ops IH]; intros acc s H Hb.
  - exact H.
  - cbn [fold_left kept_from rec_step total_snaps] in *. apply IH.
    + rewrite concat_app. cbn [concat]. rewrite app_nil_r. apply record_round_rinv; [exact H|].
      rewrite app_length. lia.
    + rewrite concat_app. cbn [concat]. rewrite app_nil_r, app_length. lia.
  - cbn [fold_left kept_from rec_step total_snaps] in *. apply IH.
    + exact rinv_empty.
    + cbn [concat length]. lia.
Qed.

Lemma rec_run_inv ops :
  record_guard ops = true -> rinv (concat (kept_rounds ops)) (rec_run ops).
Proof.
  intros H. unfold record_guard in H. apply N.leb_le in H.
  apply (rec_run_rinv ops [] samples_empty); [exact rinv_empty|]. cbn [concat length]. lia.
Qed.

(** * Keys: (round, thread) to sample index *)

Lemma firstn_snoc_nth {A} (l : list A) i x :
  nth_error l i = Some x -> firstn (S i) l = firstn i l ++ [x].
Proof.
  revert i. induction l as [|a l IH]; intros [|i] H; cbn in H; try discriminate.
  - inversion H. reflexivity.
  - change (a :: firstn (S i) l = a :: (firstn i l ++ [x])). f_equal. apply IH. exact H.
Qed.

Lemma flat_index_nth (RS : list (list info)) : forall i t round snap,
  nth_error RS i = Some round -> nth_error round t = Some snap ->
  nth_error (concat RS) (flat_index RS i t) = Some snap.
Proof.
  induction RS as [|r0 RS IH]; intros [|i] t round snap Hr Hs; cbn in Hr; try discriminate.
  - inversion Hr. subst r0. unfold flat_index. cbn [firstn concat length Nat.add].
    rewrite nth_error_app1; [exact Hs|]. apply nth_error_Some. rewrite Hs. discriminate.
  - unfold flat_index. cbn [firstn concat]. rewrite app_length.
    rewrite nth_error_app2 by lia.
    replace (length r0 + length (concat (firstn i RS)) + t - length r0)%nat with (flat_index RS i t)
      by (unfold flat_index; lia).
    apply (IH i t round snap Hr Hs).
Qed.

Lemma prefix_len_mono (RS : list (list info)) a b :
  (a <= b)%nat -> (length (concat (firstn a RS)) <= length (concat (firstn b RS)))%nat.
Proof.
  intros H. rewrite <- (firstn_skipn a (firstn b RS)).
  rewrite firstn_firstn. replace (Nat.min a b) with a by lia.
  rewrite concat_app, app_length. lia.
Qed.

Lemma flat_index_lt (RS : list (list info)) i i' t t' round :
  nth_error RS i = Some round -> (t < length round)%nat -> (i < i')%nat ->
  (flat_index RS i t < flat_index RS i' t')%nat.
Proof.
  intros Hr Ht Hi. unfold flat_index.
  pose proof (prefix_len_mono RS (S i) i' Hi) as M.
  rewrite (firstn_snoc_nth RS i round Hr), concat_app, app_length in M.
  cbn [concat] in M. rewrite app_nil_r in M. lia.
Qed.

(** Distinct (round, thread) pairs get distinct sample indices. *)
Theorem flat_index_injective (RS : list (list info)) i t round i' t' round' :
  nth_error RS i = Some round -> (t < length round)%nat ->
  nth_error RS i' = Some round' -> (t' < length round')%nat ->
  flat_index RS i t = flat_index RS i' t' -> i = i' /\ t = t'.
Proof.
  intros Hr Ht Hr' Ht' E.
  destruct (Nat.lt_trichotomy i i') as [L|[L|L]].
  - pose proof (flat_index_lt RS i i' t t' round Hr Ht L). lia.
  - subst i'. unfold flat_index in E. split; [reflexivity|lia].
  - pose proof (flat_index_lt RS i' i t' t round' Hr' Ht' L). lia.
Qed.

(** * The recording step, for every sequence of rounds and clears *)

Theorem record_exact ops :
  record_guard ops = true ->
  s_len (rec_run ops) = N.of_nat (length (concat (kept_rounds ops))) /\
  (forall i t round snap,
      nth_error (kept_rounds ops) i = Some round -> nth_error round t = Some snap ->
      map_get (N.of_nat (flat_index (kept_rounds ops) i t)) (s_map (rec_run ops))
      = if tallies_empty snap then None else Some snap) /\
  (forall k, N.of_nat (length (concat (kept_rounds ops))) <= k -> map_get k (s_map (rec_run ops)) = None) /\
  keys_distinct (s_map (rec_run ops)) = true.
Proof.
  intros H. destruct (rec_run_inv ops H) as [Hl Hg Hk]. split; [exact Hl|]. split; [|split; [|exact Hk]].
  - intros i t round snap Hr Hs. rewrite Hg. unfold lookup_spec.
    pose proof (flat_index_nth _ i t round snap Hr Hs) as Hn.
    assert (Hlt : (flat_index (kept_rounds ops) i t < length (concat (kept_rounds ops)))%nat).
    { apply nth_error_Some. rewrite Hn. discriminate. }
    destruct (N.of_nat (flat_index (kept_rounds ops) i t) <? N.of_nat (length (concat (kept_rounds ops)))) eqn:E; [|lia].
    unfold expected_record. rewrite Nat2N.id, Hn. reflexivity.
  - intros k Hk'. rewrite Hg. unfold lookup_spec.
    destruct (k <? N.of_nat (length (concat (kept_rounds ops)))) eqn:E; [lia|reflexivity].
Qed.

(** Nothing survives a clear. *)
Theorem clear_forgets pre post : rec_run (pre ++ RClear :: post) = rec_run post.
Proof. unfold rec_run. rewrite fold_left_app. reflexivity. Qed.

Lemma kept_from_clear pre post : forall acc, kept_from (pre ++ RClear :: post) acc = kept_from post [].
Proof.
  induction pre as [|[s|] pre IH]; intros acc; cbn [app kept_from].
  - reflexivity.
  - apply IH.
  - apply IH.
Qed.

Theorem kept_after_clear pre post : kept_rounds (pre ++ RClear :: post) = kept_rounds post.
Proof. apply kept_from_clear. Qed.

(** * The boolean specification *)

Lemma tally_eqb_self_spec a b : tally_eqb a (t_count b) (t_size b) = true <-> a = b.
Proof. rewrite tally_eqb_spec. destruct b; reflexivity. Qed.

Lemma info_eqb_spec a b : info_eqb a b = true <-> a = b.
Proof.
  unfold info_eqb. rewrite !andb_true_iff, !tally_eqb_self_spec, !Z.eqb_eq.
  destruct a as [g1 s1 a1 d1 cc1 mc1 cs1 ms1], b as [g2 s2 a2 d2 cc2 mc2 cs2 ms2]. cbn [i_grow i_shrink i_alloc i_dealloc i_cur_count i_max_count i_cur_size i_max_size]. split.
  - intros [[[[[[[-> ->] ->] ->] ->] ->] ->] ->]. reflexivity.
  - intros E. inversion E. repeat split; reflexivity.
Qed.

Lemma opt_info_eqb_spec a b : opt_info_eqb a b = true <-> a = b.
Proof.
  destruct a as [x|], b as [y|]; cbn [opt_info_eqb]; try (split; [discriminate|intros E; discriminate E]).
  - rewrite info_eqb_spec. split; [intros ->; reflexivity|intros E; inversion E; reflexivity].
  - split; reflexivity.
Qed.

Theorem record_sb_meaning ops len recs :
  record_sb ops len recs = true <->
  (record_guard ops = true ->
   len = N.of_nat (length (concat (kept_rounds ops))) /\
   (forall j, (j < length (concat (kept_rounds ops)))%nat ->
              map_get (N.of_nat j) recs = expected_record (concat (kept_rounds ops)) j) /\
   (forall kv, In kv recs -> fst kv < N.of_nat (length (concat (kept_rounds ops)))) /\
   keys_distinct recs = true).
Proof.
  unfold record_sb. destruct (record_guard ops).
  - unfold record_sb_clauses. cbn [forallb fst]. rewrite !andb_true_iff, N.eqb_eq, !forallb_forall. split.
    + intros (H1 & H2 & H3 & H4 & _) _. split; [exact H1|]. split; [|split; [|exact H4]].
      * intros j Hj. apply opt_info_eqb_spec. apply H2. apply in_seq. lia.
      * intros kv Hin. specialize (H3 kv Hin). lia.
    + intros H. destruct (H eq_refl) as (H1 & H2 & H3 & H4). repeat split; try assumption.
      * intros j Hj. apply in_seq in Hj. apply opt_info_eqb_spec. apply H2. lia.
      * intros kv Hin. specialize (H3 kv Hin). lia.
  - split; [intros _ H; discriminate H|reflexivity].
Qed.

Theorem record_model_sb ops : record_sb ops (s_len (rec_run ops)) (s_map (rec_run ops)) = true.
Proof.
  apply record_sb_meaning. intros H. destruct (rec_run_inv ops H) as [Hl Hg Hk].
  split; [exact Hl|]. split; [|split; [|exact Hk]].
  - intros j Hj. rewrite Hg. unfold lookup_spec.
    destruct (N.of_nat j <? N.of_nat (length (concat (kept_rounds ops)))) eqn:E; [|lia].
    rewrite Nat2N.id. reflexivity.
  - intros [k v] Hin. cbn [fst]. pose proof (key_in_get k v _ Hin) as Hne. rewrite Hg in Hne.
    unfold lookup_spec in Hne.
    destruct (k <? N.of_nat (length (concat (kept_rounds ops)))) eqn:E; [lia|contradiction].
Qed.

(** * Example with three threads: two tuning rounds (each clears, then
    records), then two collecting rounds; thread 1 never allocates, thread 2
    only in the first and last round. *)
Definition snap_alloc (n s : N) : info :=
  mkI tally_zero tally_zero (mkT n (n * s)) tally_zero (Z.of_N n) (Z.of_N n) (Z.of_N (n * s)) (Z.of_N (n * s)).

Example record_three_threads :
  let ops := [RClear; RRound [snap_alloc 1 16; info_init; snap_alloc 1 48];
              RClear; RRound [snap_alloc 2 16; info_init; info_init];
              RRound [snap_alloc 2 16; info_init; info_init];
              RRound [snap_alloc 2 16; info_init; snap_alloc 2 48]] in
  record_guard ops = true /\
  s_len (rec_run ops) = 9 /\
  map (fun j => map_get j (s_map (rec_run ops))) [0; 1; 2; 3; 4; 5; 6; 7; 8; 9]
  = [Some (snap_alloc 2 16); None; None; Some (snap_alloc 2 16); None; None;
     Some (snap_alloc 2 16); None; Some (snap_alloc 2 48); None] /\
  flat_index (kept_rounds ops) 2 2 = 8%nat.
Proof. vm_compute. repeat split; reflexivity. Qed.
