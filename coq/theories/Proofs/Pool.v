(** Proofs about the pool model (C06, C07), part 1: the control-state invariant
    [Inv] (reference count = number of workers that still hold the task block,
    those workers belong to the current broadcast and the block is alive, no
    lost wake-up), its preservation by every transition, and the consequences
    that need nothing else: [bad = false], no lost wake-up, deadlock freedom,
    the termination measure, worker exit. *)

From DivanV Require Import Base.Res Generated.Consts Model.Pool.
From Coq Require Import Arith Lia List Bool.
Import ListNotations.
Import PoolM.

Arguments Nat.sub : simpl never.
Arguments Nat.mul : simpl never.
Arguments Nat.eqb : simpl never.
Arguments Nat.leb : simpl never.
Arguments Nat.ltb : simpl never.

(** * Lists *)

Section Lists.
Context {A : Type}.

Lemma set_nth_length i (x : A) l : length (set_nth i x l) = length l.
Proof. revert i; induction l as [|h t IH]; intros [|i]; cbn; auto. Qed.

Lemma nth_error_set_nth_eq i (x : A) l : i < length l -> nth_error (set_nth i x l) i = Some x.
Proof.
  revert i; induction l as [|h t IH]; intros [|i] H; cbn in *; try lia; auto.
  apply IH; lia.
Qed.

Lemma nth_error_set_nth_neq i j (x : A) l : i <> j -> nth_error (set_nth i x l) j = nth_error l j.
Proof.
  revert i j; induction l as [|h t IH]; intros [|i] [|j] H; cbn; auto; try lia.
Qed.

Lemma nth_error_lt i (x : A) l : nth_error l i = Some x -> i < length l.
Proof. intro H. apply nth_error_Some. congruence. Qed.

Lemma Forall_set_nth (P : A -> Prop) i x l : Forall P l -> P x -> Forall P (set_nth i x l).
Proof.
  revert i; induction l as [|h t IH]; intros [|i] H Hx; cbn; auto; inversion H; subst; constructor; auto.
Qed.

Lemma Forall_nth_error (P : A -> Prop) l i x : Forall P l -> nth_error l i = Some x -> P x.
Proof. intros H E. rewrite Forall_forall in H. apply H. eapply nth_error_In; eauto. Qed.

Lemma Exists_set_nth_other (P : A -> Prop) l j w x :
  Exists P l -> nth_error l j = Some w -> ~ P w -> Exists P (set_nth j x l).
Proof.
  revert j; induction l as [|h t IH]; intros j H E N; [inversion H|].
  destruct j as [|j]; cbn in *.
  - inversion E; subst. inversion H; subst; [contradiction|]. now apply Exists_cons_tl.
  - inversion H; subst; [now apply Exists_cons_hd|]. apply Exists_cons_tl. eapply IH; eauto.
Qed.

Lemma Exists_set_nth_here (P : A -> Prop) l j x : j < length l -> P x -> Exists P (set_nth j x l).
Proof.
  revert j; induction l as [|h t IH]; intros [|j] H Hx; cbn in *; try lia.
  - now apply Exists_cons_hd.
  - apply Exists_cons_tl. apply IH; auto; lia.
Qed.

Definition b2n (b : bool) : nat := if b then 1 else 0.

Lemma count_set_nth (p : A -> bool) i x w l :
  nth_error l i = Some w ->
  length (filter p (set_nth i x l)) + b2n (p w) = length (filter p l) + b2n (p x).
Proof.
  unfold b2n.
  revert i; induction l as [|h t IH]; intros [|i] E; cbn in *; try discriminate.
  - inversion E; subst. destruct (p w), (p x); cbn; lia.
  - specialize (IH _ E). destruct (p h); cbn; [f_equal|]; exact IH.
Qed.

Lemma count_zero_forall (p : A -> bool) l :
  length (filter p l) = 0 <-> Forall (fun x => p x = false) l.
Proof.
  induction l as [|h t IH]; cbn; [split; auto|].
  destruct (p h) eqn:E; cbn; split; intro H.
  - lia.
  - inversion H; congruence.
  - constructor; auto. now apply IH.
  - inversion H; subst. now apply IH.
Qed.

Lemma count_pos (p : A -> bool) l i w :
  nth_error l i = Some w -> p w = true -> 1 <= length (filter p l).
Proof.
  revert i; induction l as [|h t IH]; intros [|i] E Hp; cbn in *; try discriminate.
  - inversion E; subst. rewrite Hp. cbn. lia.
  - specialize (IH _ E Hp). destruct (p h); cbn; lia.
Qed.

Lemma sum_set_nth (f : A -> nat) i x w l :
  nth_error l i = Some w ->
  list_sum (map f (set_nth i x l)) + f w = list_sum (map f l) + f x.
Proof.
  unfold list_sum.
  revert i; induction l as [|h t IH]; intros [|i] E; cbn in *; try discriminate.
  - inversion E; subst. lia.
  - specialize (IH _ E). lia.
Qed.

Lemma Forall_repeat (P : A -> Prop) x n : P x -> Forall P (repeat x n).
Proof. intro H. induction n; cbn; constructor; auto. Qed.

End Lists.

(** * Configurations the theorems are about *)

(** The code's [== 1] test, [while] loop and [> 0] condition.  The memory
    orderings are not constrained here: only the publication theorem needs
    them. *)
Definition good (c : cfg) : Prop :=
  c_unpark_old c = 1 /\ c_loop c = true /\ c_nonzero c = true.

Inductive reachable (c : cfg) (scr : list nat) : state -> Prop :=
| R_init : reachable c scr (init scr)
| R_step s l s' : reachable c scr s -> step c s l = Some s' -> reachable c scr s'.

(** * Inversion of [step] *)

Definition step_spec (c : cfg) (s : state) (l : label) (s' : state) : Prop :=
  match l with
  | EBegin n => cst s = CIdle /\ exists rest, script s = n :: rest /\ s' = st_begin s n rest
  | ESend k => exists n, cst s = CSend k n /\ getw s k = Some WIdle /\ s' = st_send s k n
  | ERun0 p => exists n, cst s = CRun n /\ s' = st_run0 s n p
  | ELoad => exists n, cst s = CLoad n /\
             s' = if leave c s then do_return s n (load_view c s) (token s) else st_topark s n (load_view c s)
  | EPark => exists n, cst s = CPark n /\ token s = true /\
             s' = if c_loop c then to_load s n false else do_return s n (cview s) false
  | ESpurious => exists n, cst s = CPark n /\
             s' = if c_loop c then to_load s n (token s) else do_return s n (cview s) (token s)
  | EWRun k p => exists b, getw s k = Some (WRun b) /\ s' = st_wrun s k b p
  | EWClone k => exists b, getw s k = Some (WClone b) /\ s' = st_wclone s k b
  | EWDec k => exists b, getw s k = Some (WDec b) /\ s' = st_wdec c s k b
  | EWUnpark k => exists b, getw s k = Some (WUnpark b) /\ s' = st_wunpark s k
  | EDrop => cst s = CIdle /\ script s = [] /\ s' = st_drop s
  | EWExit k => cst s = CDone /\ getw s k = Some WIdle /\ s' = st_wexit s k
  end.

Lemma step_inv c s l s' : step c s l = Some s' -> step_spec c s l s'.
Proof.
  unfold step, step_spec. intro H.
  destruct l.
  - destruct (cst s); try discriminate. split; auto.
    destruct (script s) as [|m rest]; try discriminate.
    destruct (Nat.eqb n m) eqn:E; try discriminate. apply Nat.eqb_eq in E; subst.
    exists rest. split; auto. now inversion H.
  - destruct (cst s) eqn:Ec; try discriminate.
    destruct (Nat.eqb k k0) eqn:E; try discriminate. apply Nat.eqb_eq in E; subst.
    exists n. split; auto.
    destruct (getw s k0) as [[| | | | |]|]; try discriminate. split; auto. now inversion H.
  - destruct (cst s); try discriminate. eexists; split; eauto. now inversion H.
  - destruct (cst s); try discriminate. eexists; split; eauto.
    destruct (leave c s); now inversion H.
  - destruct (cst s); try discriminate. destruct (token s); try discriminate.
    eexists; repeat split; eauto. now inversion H.
  - destruct (cst s); try discriminate. eexists; split; eauto. now inversion H.
  - destruct (cst s); destruct (getw s k) as [[| | | | |]|]; try discriminate; eexists; split; eauto; now inversion H.
  - destruct (cst s); destruct (getw s k) as [[| | | | |]|]; try discriminate; eexists; split; eauto; now inversion H.
  - destruct (cst s); destruct (getw s k) as [[| | | | |]|]; try discriminate; eexists; split; eauto; now inversion H.
  - destruct (cst s); destruct (getw s k) as [[| | | | |]|]; try discriminate; eexists; split; eauto; now inversion H.
  - destruct (cst s); try discriminate. destruct (script s); try discriminate. repeat split; auto. now inversion H.
  - destruct (cst s); try discriminate. destruct (getw s k) as [[| | | | |]|]; try discriminate.
    repeat split; auto. now inversion H.
Qed.

Lemma getw_pos s k w : getw s k = Some w -> exists j, k = S j /\ nth_error (ws s) j = Some w.
Proof. destruct k; cbn; [discriminate|]. intro H. eauto. Qed.

(** * The control-state invariant *)

Definition wf_w (cu : nat) (al : bool) (w : wstate) : Prop :=
  match w with
  | WRun b | WClone b | WDec b => b = cu /\ al = true
  | WUnpark b => b <= cu
  | _ => True
  end.

Definition rc_ok (s : state) : Prop :=
  match cst s with
  | CRun n | CLoad n | CPark n => rc s = count_pre s /\ n <= length (ws s)
  | CSend k n => rc s = count_pre s + (S n - k) /\ 1 <= k /\ k <= n /\ n <= length (ws s)
  | CIdle | CDone => count_pre s = 0
  end.

Definition wake_ok (s : state) : Prop :=
  match cst s with
  | CPark _ => rc s = 0 -> token s = false -> Exists (fun w => w = WUnpark (cur s)) (ws s)
  | _ => True
  end.

Definition sent_ok (s : state) : Prop :=
  forall j w, nth_error (ws s) j = Some w -> any_pre w = true -> S j < sent (cst s).

Record Inv (s : state) : Prop := {
  I_rc : rc_ok s;
  I_wf : Forall (wf_w (cur s) (alive s)) (ws s);
  I_alive : alive s = in_broadcast (cst s);
  I_wake : wake_ok s;
  I_exit : cst s <> CDone -> Forall (fun w => w <> WExit) (ws s);
  I_bad : bad s = false;
  I_sent : sent_ok s;
  I_wv : length (wviews s) = length (ws s)
}.

Lemma any_pre_false_pre_dec b w : any_pre w = false -> pre_dec b w = false.
Proof. destruct w; cbn; auto; discriminate. Qed.

Lemma pre_dec_any_pre b w : pre_dec b w = true -> any_pre w = true.
Proof. destruct w; cbn; auto. Qed.

Lemma wf_false_no_pre cu w : wf_w cu false w -> any_pre w = false.
Proof. destruct w; cbn; auto; intros [_ H]; discriminate. Qed.

Lemma wf_pre cu al w : wf_w cu al w -> any_pre w = true -> pre_dec cu w = true /\ al = true.
Proof. destruct w; cbn; try discriminate; intros [-> ->] _; now rewrite Nat.eqb_refl. Qed.

Lemma wf_next cu al w : any_pre w = false -> wf_w cu al w -> wf_w (S cu) true w.
Proof. destruct w; cbn; try discriminate; auto. Qed.

Lemma wf_kill cu w : wf_w cu true w -> pre_dec cu w = false -> wf_w cu false w.
Proof.
  destruct w; cbn; auto; intros [-> _]; rewrite Nat.eqb_refl; discriminate.
Qed.

Lemma Forall_impl2 {A} (P Q R : A -> Prop) l :
  (forall x, P x -> Q x -> R x) -> Forall P l -> Forall Q l -> Forall R l.
Proof.
  intros H HP HQ. rewrite Forall_forall in *. auto.
Qed.

Lemma no_pre_idle s : Inv s -> in_broadcast (cst s) = false -> Forall (fun w => any_pre w = false) (ws s).
Proof.
  intros I H. pose proof (I_wf s I) as W. rewrite (I_alive s I), H in W.
  eapply Forall_impl; [|exact W]. intros w. apply wf_false_no_pre.
Qed.

Lemma count_pre_none b l : Forall (fun w => any_pre w = false) l -> length (filter (pre_dec b) l) = 0.
Proof.
  intro H. apply count_zero_forall. eapply Forall_impl; [|exact H]. intros w. apply any_pre_false_pre_dec.
Qed.

Lemma inv_init scr : Inv (init scr).
Proof.
  constructor; cbn; auto.
  all: try exact Logic.I.
  intros j w H. destruct j; discriminate.
Qed.

(** ** EBegin *)

Lemma inv_begin s n rest : Inv s -> cst s = CIdle -> Inv (st_begin s n rest).
Proof.
  intros I Hc.
  assert (NP : Forall (fun w => any_pre w = false) (ws s)) by (apply no_pre_idle; auto; now rewrite Hc).
  assert (NP' : Forall (fun w => any_pre w = false) (ws s ++ repeat WIdle (n - length (ws s)))).
  { apply Forall_app; split; auto. now apply Forall_repeat. }
  constructor; unfold st_begin; cbn.
  - unfold rc_ok, count_pre; cbn. rewrite (count_pre_none _ _ NP').
    rewrite app_length, repeat_length.
    destruct (Nat.eqb n 0) eqn:E; cbn.
    + apply Nat.eqb_eq in E. lia.
    + apply Nat.eqb_neq in E. lia.
  - apply Forall_app; split.
    + eapply Forall_impl2; [|exact NP|exact (I_wf s I)]. intros w H1 H2. eapply wf_next; eauto.
    + apply Forall_repeat. exact Logic.I.
  - now destruct (Nat.eqb n 0).
  - unfold wake_ok; cbn. now destruct (Nat.eqb n 0).
  - intros _. apply Forall_app; split.
    + apply (I_exit s I). rewrite Hc. discriminate.
    + apply Forall_repeat. discriminate.
  - apply (I_bad s I).
  - intros j w E P. exfalso. pose proof (Forall_nth_error _ _ _ _ NP' E) as F. cbn in F. congruence.
  - rewrite !app_length, !repeat_length. now rewrite (I_wv s I).
Qed.

(** ** ESend *)

Lemma inv_send s k n : Inv s -> cst s = CSend k n -> getw s k = Some WIdle -> Inv (st_send s k n).
Proof.
  intros I Hc Hg. destruct (getw_pos _ _ _ Hg) as (j & -> & Hj).
  pose proof (I_rc s I) as R. unfold rc_ok in R. rewrite Hc in R. destruct R as (R1 & R2 & R3 & R4).
  assert (Al : alive s = true) by (rewrite (I_alive s I), Hc; reflexivity).
  pose proof (count_set_nth (pre_dec (cur s)) j (WRun (cur s)) WIdle (ws s) Hj) as C.
  cbn in C. rewrite Nat.eqb_refl in C. cbn in C.
  constructor; unfold st_send; cbn.
  - unfold rc_ok, count_pre; cbn. rewrite set_nth_length.
    destruct (Nat.eqb (S j) n) eqn:E; cbn.
    + apply Nat.eqb_eq in E. unfold count_pre in R1. lia.
    + apply Nat.eqb_neq in E. unfold count_pre in R1. lia.
  - apply Forall_set_nth; [exact (I_wf s I)|]. cbn. auto.
  - rewrite Al. now destruct (Nat.eqb (S j) n).
  - unfold wake_ok; cbn. now destruct (Nat.eqb (S j) n).
  - intros _. apply Forall_set_nth; [|discriminate]. apply (I_exit s I). rewrite Hc; discriminate.
  - apply (I_bad s I).
  - intros j' w E P. cbn in E.
    destruct (Nat.eq_dec j j') as [<-|N].
    + destruct (Nat.eqb (S j) n) eqn:E2; cbn; [apply Nat.eqb_eq in E2|]; lia.
    + rewrite nth_error_set_nth_neq in E by auto.
      pose proof (I_sent s I _ _ E P) as Hs. rewrite Hc in Hs. cbn in Hs.
      destruct (Nat.eqb (S j) n) eqn:E2; cbn; lia.
  - rewrite !set_nth_length. apply (I_wv s I).
Qed.

(** ** Transitions that only move the caller *)

Lemma inv_caller_move s s' :
  Inv s -> ws s' = ws s -> rc s' = rc s -> alive s' = alive s -> cur s' = cur s -> bad s' = bad s ->
  wviews s' = wviews s ->
  in_broadcast (cst s') = in_broadcast (cst s) -> sent (cst s') = sent (cst s) ->
  cst s <> CDone ->
  rc_ok s' -> wake_ok s' -> Inv s'.
Proof.
  intros I Hw Hr Ha Hcu Hb Hv Hin Hs Hd R W.
  constructor.
  - exact R.
  - rewrite Hw, Hcu, Ha. apply (I_wf s I).
  - rewrite Ha, Hin. apply (I_alive s I).
  - exact W.
  - intros _. rewrite Hw. apply (I_exit s I). auto.
  - rewrite Hb. apply (I_bad s I).
  - unfold sent_ok. rewrite Hw, Hs. apply (I_sent s I).
  - rewrite Hv, Hw. apply (I_wv s I).
Qed.

Lemma inv_run0 s n p : Inv s -> cst s = CRun n -> Inv (st_run0 s n p).
Proof.
  intros I Hc. eapply inv_caller_move; eauto; cbn; try (now rewrite Hc); try (rewrite Hc; discriminate).
  - pose proof (I_rc s I) as R. unfold rc_ok in *. now rewrite Hc in R.
  - exact Logic.I.
Qed.

Lemma inv_topark s n cv : Inv s -> cst s = CLoad n -> rc s <> 0 -> Inv (st_topark s n cv).
Proof.
  intros I Hc Hr. eapply inv_caller_move; eauto; cbn; try (now rewrite Hc); try (rewrite Hc; discriminate).
  - pose proof (I_rc s I) as R. unfold rc_ok in *. now rewrite Hc in R.
  - unfold wake_ok; cbn. intros; contradiction.
Qed.

Lemma inv_to_load s n tok : Inv s -> cst s = CPark n -> Inv (to_load s n tok).
Proof.
  intros I Hc. eapply inv_caller_move; eauto; cbn; try (now rewrite Hc); try (rewrite Hc; discriminate).
  - pose proof (I_rc s I) as R. unfold rc_ok in *. now rewrite Hc in R.
  - exact Logic.I.
Qed.

Lemma inv_return s n cv tok : Inv s -> cst s = CLoad n -> rc s = 0 -> Inv (do_return s n cv tok).
Proof.
  intros I Hc Hr.
  pose proof (I_rc s I) as R. unfold rc_ok in R. rewrite Hc in R. destruct R as (R1 & R2).
  assert (Al : alive s = true) by (rewrite (I_alive s I), Hc; reflexivity).
  assert (Z : count_pre s = 0) by lia.
  assert (W : Forall (wf_w (cur s) false) (ws s)).
  { unfold count_pre in Z. apply count_zero_forall in Z.
    eapply Forall_impl2; [|exact (I_wf s I)|exact Z]. intros w H1 H2. rewrite Al in H1. now apply wf_kill. }
  constructor; unfold do_return; cbn.
  - unfold rc_ok, count_pre in *; cbn. exact Z.
  - exact W.
  - reflexivity.
  - exact Logic.I.
  - intros _. apply (I_exit s I). rewrite Hc; discriminate.
  - apply (I_bad s I).
  - intros j w E P. exfalso. pose proof (Forall_nth_error _ _ _ _ W E) as F.
    apply wf_false_no_pre in F. congruence.
  - apply (I_wv s I).
Qed.

Lemma inv_drop s : Inv s -> cst s = CIdle -> Inv (st_drop s).
Proof.
  intros I Hc. eapply inv_caller_move; eauto; cbn; try (now rewrite Hc); try (rewrite Hc; discriminate).
  - pose proof (I_rc s I) as R. unfold rc_ok in *. now rewrite Hc in R.
  - exact Logic.I.
Qed.

(** ** Worker transitions: worker [S j] goes from [w] to [w'] *)

Lemma rc_ok_same s s' :
  cst s' = cst s -> rc s' = rc s -> count_pre s' = count_pre s -> length (ws s') = length (ws s) ->
  rc_ok s -> rc_ok s'.
Proof. unfold rc_ok. intros -> -> -> ->. auto. Qed.

Lemma wake_keep s j w w' :
  nth_error (ws s) j = Some w -> (forall b, w <> WUnpark b) ->
  wake_ok s ->
  match cst s with
  | CPark _ => rc s = 0 -> token s = false -> Exists (fun x => x = WUnpark (cur s)) (set_nth j w' (ws s))
  | _ => True
  end.
Proof.
  intros E N W. unfold wake_ok in W. destruct (cst s); auto.
  intros H1 H2. eapply Exists_set_nth_other; eauto.
Qed.

Lemma sent_keep s j w w' :
  nth_error (ws s) j = Some w -> (any_pre w' = true -> any_pre w = true) ->
  sent_ok s ->
  forall j' x, nth_error (set_nth j w' (ws s)) j' = Some x -> any_pre x = true -> S j' < sent (cst s).
Proof.
  intros E Imp Hs j' x E' P.
  destruct (Nat.eq_dec j j') as [<-|N].
  - rewrite nth_error_set_nth_eq in E' by (eapply nth_error_lt; eauto).
    inversion E'; subst. eapply Hs; eauto.
  - rewrite nth_error_set_nth_neq in E' by auto. eapply Hs; eauto.
Qed.

Lemma inv_wrun s k b p : Inv s -> getw s k = Some (WRun b) -> Inv (st_wrun s k b p).
Proof.
  intros I Hg. destruct (getw_pos _ _ _ Hg) as (j & -> & Hj).
  pose proof (Forall_nth_error _ _ _ _ (I_wf s I) Hj) as Wf. cbn in Wf. destruct Wf as [-> Al].
  pose proof (count_set_nth (pre_dec (cur s)) j (WClone (cur s)) _ (ws s) Hj) as C.
  cbn in C. rewrite Nat.eqb_refl in C. cbn in C.
  constructor; unfold st_wrun; cbn.
  - eapply rc_ok_same; [..|exact (I_rc s I)]; cbn; auto.
    + unfold count_pre in *; cbn. lia.
    + apply set_nth_length.
  - apply Forall_set_nth; [exact (I_wf s I)|]. cbn. auto.
  - apply (I_alive s I).
  - unfold wake_ok; cbn. eapply wake_keep; eauto. discriminate. apply (I_wake s I).
  - intros N. apply Forall_set_nth; [|discriminate]. now apply (I_exit s I).
  - unfold upd_bad, touch_ok. now rewrite (I_bad s I), Al, Nat.eqb_refl.
  - unfold sent_ok; cbn. eapply sent_keep; eauto. apply (I_sent s I).
  - rewrite !set_nth_length. apply (I_wv s I).
Qed.

Lemma inv_wclone s k b : Inv s -> getw s k = Some (WClone b) -> Inv (st_wclone s k b).
Proof.
  intros I Hg. destruct (getw_pos _ _ _ Hg) as (j & -> & Hj).
  pose proof (Forall_nth_error _ _ _ _ (I_wf s I) Hj) as Wf. cbn in Wf. destruct Wf as [-> Al].
  pose proof (count_set_nth (pre_dec (cur s)) j (WDec (cur s)) _ (ws s) Hj) as C.
  cbn in C. rewrite Nat.eqb_refl in C. cbn in C.
  constructor; unfold st_wclone; cbn.
  - eapply rc_ok_same; [..|exact (I_rc s I)]; cbn; auto.
    + unfold count_pre in *; cbn. lia.
    + apply set_nth_length.
  - apply Forall_set_nth; [exact (I_wf s I)|]. cbn. auto.
  - apply (I_alive s I).
  - unfold wake_ok; cbn. eapply wake_keep; eauto. discriminate. apply (I_wake s I).
  - intros N. apply Forall_set_nth; [|discriminate]. now apply (I_exit s I).
  - unfold upd_bad, touch_ok. now rewrite (I_bad s I), Al, Nat.eqb_refl.
  - unfold sent_ok; cbn. eapply sent_keep; eauto. apply (I_sent s I).
  - rewrite set_nth_length. apply (I_wv s I).
Qed.

Lemma inv_wdec c s k b : good c -> Inv s -> getw s k = Some (WDec b) -> Inv (st_wdec c s k b).
Proof.
  intros (G1 & G2 & G3) I Hg. destruct (getw_pos _ _ _ Hg) as (j & -> & Hj).
  pose proof (Forall_nth_error _ _ _ _ (I_wf s I) Hj) as Wf. cbn in Wf. destruct Wf as [-> Al].
  set (w' := if Nat.eqb (rc s) (c_unpark_old c) then WUnpark (cur s) else WIdle).
  assert (NP : pre_dec (cur s) w' = false) by (unfold w'; now destruct (Nat.eqb (rc s) (c_unpark_old c))).
  pose proof (count_set_nth (pre_dec (cur s)) j w' _ (ws s) Hj) as C.
  rewrite NP in C. cbn in C. rewrite Nat.eqb_refl in C. cbn in C.
  assert (P1 : 1 <= count_pre s).
  { unfold count_pre. eapply count_pos; eauto. cbn. apply Nat.eqb_refl. }
  assert (Rpos : 1 <= rc s).
  { pose proof (I_rc s I) as R. unfold rc_ok in R. destruct (cst s); lia. }
  constructor; unfold st_wdec; fold w'; cbn.
  - pose proof (I_rc s I) as R. unfold rc_ok, count_pre in *; cbn. rewrite set_nth_length.
    destruct (cst s); lia.
  - apply Forall_set_nth; [exact (I_wf s I)|]. unfold w'.
    destruct (Nat.eqb (rc s) (c_unpark_old c)); cbn; auto.
  - apply (I_alive s I).
  - unfold wake_ok; cbn. destruct (cst s) eqn:Ec; auto.
    intros Z _. apply Exists_set_nth_here; [eapply nth_error_lt; eauto|].
    unfold w'. rewrite G1. replace (rc s) with 1 by lia. reflexivity.
  - intros N. apply Forall_set_nth; [now apply (I_exit s I)|].
    unfold w'. destruct (Nat.eqb (rc s) (c_unpark_old c)); discriminate.
  - unfold upd_bad, touch_ok. rewrite (I_bad s I), Al, Nat.eqb_refl.
    destruct (Nat.eqb (rc s) 0) eqn:E; auto. apply Nat.eqb_eq in E. lia.
  - unfold sent_ok; cbn. eapply (sent_keep s j _ w' Hj); [|apply (I_sent s I)].
    intros _. reflexivity.
  - rewrite set_nth_length. apply (I_wv s I).
Qed.

Lemma inv_wunpark s k b : Inv s -> getw s k = Some (WUnpark b) -> Inv (st_wunpark s k).
Proof.
  intros I Hg. destruct (getw_pos _ _ _ Hg) as (j & -> & Hj).
  pose proof (count_set_nth (pre_dec (cur s)) j WIdle _ (ws s) Hj) as C. cbn in C.
  constructor; unfold st_wunpark; cbn.
  - eapply rc_ok_same; [..|exact (I_rc s I)]; cbn; auto.
    + unfold count_pre in *; cbn. lia.
    + apply set_nth_length.
  - apply Forall_set_nth; [exact (I_wf s I)|]. exact Logic.I.
  - apply (I_alive s I).
  - unfold wake_ok; cbn. destruct (cst s); auto. discriminate.
  - intros N. apply Forall_set_nth; [|discriminate]. now apply (I_exit s I).
  - apply (I_bad s I).
  - unfold sent_ok; cbn. eapply (sent_keep s j _ WIdle Hj); [|apply (I_sent s I)]. discriminate.
  - rewrite set_nth_length. apply (I_wv s I).
Qed.

Lemma inv_wexit s k : Inv s -> cst s = CDone -> getw s k = Some WIdle -> Inv (st_wexit s k).
Proof.
  intros I Hc Hg. destruct (getw_pos _ _ _ Hg) as (j & -> & Hj).
  pose proof (count_set_nth (pre_dec (cur s)) j WExit _ (ws s) Hj) as C. cbn in C.
  constructor; unfold st_wexit; cbn.
  - pose proof (I_rc s I) as R. unfold rc_ok, count_pre in *; cbn. rewrite Hc in R. lia.
  - apply Forall_set_nth; [exact (I_wf s I)|]. exact Logic.I.
  - rewrite (I_alive s I), Hc. reflexivity.
  - exact Logic.I.
  - intros N. congruence.
  - apply (I_bad s I).
  - intros j' x E P.
    assert (Imp : any_pre WExit = true -> any_pre WIdle = true) by (cbn; discriminate).
    pose proof (sent_keep s j WIdle WExit Hj Imp (I_sent s I) j' x E P) as K.
    now rewrite Hc in K.
  - rewrite set_nth_length. apply (I_wv s I).
Qed.

(** ** The invariant is inductive *)

Lemma leave_good c s : good c -> leave c s = Nat.eqb (rc s) 0.
Proof. intros (_ & _ & G). unfold leave. now rewrite G. Qed.

Theorem inv_step c s l s' : good c -> Inv s -> step c s l = Some s' -> Inv s'.
Proof.
  intros G I H. pose proof G as (G1 & G2 & G3). apply step_inv in H. destruct l; cbn in H.
  - destruct H as (Hc & rest & _ & ->). now apply inv_begin.
  - destruct H as (n & Hc & Hg & ->). now apply inv_send.
  - destruct H as (n & Hc & ->). now apply inv_run0.
  - destruct H as (n & Hc & ->). rewrite leave_good by auto.
    destruct (Nat.eqb (rc s) 0) eqn:E.
    + apply Nat.eqb_eq in E. now apply inv_return.
    + apply Nat.eqb_neq in E. now apply inv_topark.
  - destruct H as (n & Hc & _ & ->). rewrite G2. now apply inv_to_load.
  - destruct H as (n & Hc & ->). rewrite G2. now apply inv_to_load.
  - destruct H as (b & Hg & ->). now apply inv_wrun.
  - destruct H as (b & Hg & ->). now apply inv_wclone.
  - destruct H as (b & Hg & ->). now apply inv_wdec.
  - destruct H as (b & Hg & ->). eapply inv_wunpark; eauto.
  - destruct H as (Hc & _ & ->). now apply inv_drop.
  - destruct H as (Hc & Hg & ->). now apply inv_wexit.
Qed.

Theorem inv_reachable c scr s : good c -> reachable c scr s -> Inv s.
Proof.
  intros G R. induction R.
  - apply inv_init.
  - eapply inv_step; eauto.
Qed.
