(** Which allocation blocks the table shows: the [is_zero] tests. *)
From DivanV Require Import Base.Res Model.Stats Proofs.StatsLists Proofs.Stats.
From Coq Require Import ZifyN ZifyBool ZifyNat.
Local Open Scope N_scope.
Local Arguments N.mul : simpl never.
Local Arguments N.add : simpl never.
Local Arguments N.max : simpl never.

(** [is_zero] of a [StatsSet<f64>]: true iff every one of the four columns is 0. *)
Lemma set_is_zero_spec s :
  set_is_zero s = true <->
  xq_is_zero (fastest s) = true /\ xq_is_zero (slowest s) = true /\
  xq_is_zero (median s) = true /\ xq_is_zero (mean s) = true.
Proof. unfold set_is_zero. rewrite !andb_true_iff. tauto. Qed.

Lemma find_le_total {g : alloc_info -> N} allocs : forall i info,
  alist_find i allocs = Some info -> g info <= total_of g allocs.
Proof.
  induction allocs as [|[k v] r IH]; intros i info H; cbn [alist_find] in H; [discriminate|].
  unfold total_of in *. cbn [map sum_list snd].
  destruct (k =? i); [injection H as <-; lia|]. specialize (IH _ _ H). lia.
Qed.

Lemma info_figure_zero (f : option alloc_info -> N) (g : alloc_info -> N) allocs s :
  f None = 0 -> (forall i, f (Some i) = g i) ->
  total_of g allocs = 0 -> f (sample_alloc_info allocs s) = 0.
Proof.
  intros HN HS HT. destruct (sample_alloc_info allocs s) as [i|] eqn:E; [|exact HN].
  destruct s as [[idx d]|]; cbn [sample_alloc_info] in E; [|discriminate].
  destruct (idx <? 2 ^ 32); [|discriminate]. pose proof (find_le_total (g := g) allocs idx i E).
  rewrite HS. lia.
Qed.

(** A column set of [compute_stats] is all-zero iff the total of its figure over
    all recorded allocation infos is 0. *)
Lemma column_is_zero inp sv mids tc (f : option alloc_info -> N) (g : alloc_info -> N) :
  f None = 0 -> (forall i, f (Some i) = g i) ->
  set_is_zero (column true inp sv mids tc f (total_of g (in_allocs inp)))
  = (total_of g (in_allocs inp) =? 0).
Proof.
  intros HN HS. unfold set_is_zero, column. cbn [fastest slowest median mean].
  destruct (total_of g (in_allocs inp) =? 0) eqn:ET.
  - apply N.eqb_eq in ET.
    rewrite !(info_figure_zero f g _ _ HN HS ET). rewrite ET.
    unfold per_size, med_entry, xq_of_N, xq_div, xq_add.
    destruct (N.max (in_size inp) 1 =? 0) eqn:E1; [apply N.eqb_eq in E1; lia|].
    destruct (N.max (N.of_nat (length mids)) 1 =? 0) eqn:E2; [apply N.eqb_eq in E2; lia|].
    destruct (N.max tc 1 =? 0) eqn:E3; [apply N.eqb_eq in E3; lia|].
    cbn [xq_is_zero]. rewrite ?N.mul_0_l. rewrite ?N.add_0_l. rewrite ?N.mul_0_l. reflexivity.
  - apply N.eqb_neq in ET. apply andb_false_iff. right.
    unfold xq_of_N, xq_div. destruct (N.max tc 1 =? 0) eqn:E3; [apply N.eqb_eq in E3; lia|].
    cbn [xq_is_zero]. apply N.eqb_neq. lia.
Qed.

(** [C05_printed_blocks]: the blocks the table shows for the statistics of
    [compute_stats] are exactly those with a non-zero figure in some recorded
    allocation info — whichever samples happen to be fastest and slowest. *)
Theorem printed_blocks_spec dbg sv inp st :
  compute_stats true dbg sv inp = Ok st -> printed_blocks st = blocks_spec inp.
Proof.
  intros H. apply compute_stats_inv in H.
  destruct H as (tc & td & mids & mn & mx & md & counts & _ & _ & _ & _ & _ & _ & _ & ->).
  unfold printed_blocks, blocks_spec, assemble.
  cbn [st_max_size st_tallies map all_ops fst snd].
  rewrite (column_is_zero inp sv mids tc max_size_of ai_max_size) by (reflexivity || (intros; reflexivity)).
  repeat match goal with
  | |- context [set_is_zero (column true inp sv mids tc (fun o => t_count (tally_of ?op o)) _)] =>
      rewrite (column_is_zero inp sv mids tc (fun o => t_count (tally_of op o)) (fun i => t_count (ai_tally op i)))
        by (reflexivity || (intros; reflexivity))
  | |- context [set_is_zero (column true inp sv mids tc (fun o => t_size (tally_of ?op o)) _)] =>
      rewrite (column_is_zero inp sv mids tc (fun o => t_size (tally_of op o)) (fun i => t_size (ai_tally op i)))
        by (reflexivity || (intros; reflexivity))
  end.
  reflexivity.
Qed.

(** The scenario of an interior allocation: six samples, only the one of
    median time allocates; fastest and slowest columns are 0, the blocks are shown. *)
Example interior_allocation_is_shown :
  let a := {| ai_grow := tally_zero; ai_shrink := tally_zero; ai_alloc := {| t_count := 1; t_size := 64 |};
              ai_dealloc := {| t_count := 1; t_size := 64 |}; ai_max_count := 1; ai_max_size := 64 |} in
  let inp := {| in_size := 1; in_durs := [4001; 9001; 6001]; in_allocs := [(2, a)]; in_counters := [] |} in
  exists st, compute_stats true true [(0, 4001); (2, 6001); (1, 9001)] inp = Ok st /\
             xq_is_zero (fastest (st_max_size st)) = true /\ xq_is_zero (slowest (st_max_size st)) = true /\
             printed_blocks st = [true; false; false; true; true].
Proof. eexists. repeat split; reflexivity. Qed.
