(** Proofs about Model/Loop.v, part 2: the statements of C03, C04 and C19,
    read off [bench_loop_spec] (Proofs/Loop.v). *)

From DivanV Require Import Base.Res Generated.Consts Model.Timestamp Model.Loop Proofs.Loop.
From Coq Require Import ZifyN ZifyBool ZifyNat Lia.
Local Open Scope N_scope.
Ltac Zify.zify_post_hook ::= Z.div_mod_to_equations.
Arguments N.add : simpl never.
Arguments N.sub : simpl never.
Arguments N.mul : simpl never.
Arguments N.div : simpl never.
Arguments N.modulo : simpl never.
Arguments N.pow : simpl never.
Arguments N.min : simpl never.
Arguments N.max : simpl never.

(** * Generic: the least index at which a predicate fails is unique *)

Lemma least_unique (P : nat -> bool) k r :
  (forall j, (j < k)%nat -> P j = true) -> P k = false ->
  (forall j, (j < r)%nat -> P j = true) -> P r = false -> k = r.
Proof.
  intros Hk Hk0 Hr Hr0.
  destruct (Nat.lt_trichotomy k r) as [H|[H|H]]; [|exact H|].
  - rewrite (Hr k H) in Hk0. discriminate.
  - rewrite (Hk r H) in Hr0. discriminate.
Qed.

(** How a run ended, given where the rule says stop. *)
Lemma ends_at_least c init hist out r :
  c_test c = false -> zero_case c = false ->
  bench_loop c init hist = Ok out ->
  (r <= length hist)%nat ->
  (forall j, (j < r)%nat -> continue_after c init hist j = true) ->
  continue_after c init hist r = false ->
  out_done out = true /\ out_state out = spec_state c init (firstn r hist).
Proof.
  intros Ht Hz H Hr Hlt Hstop.
  destruct (bench_loop_spec c init hist out Ht Hz H) as [k [Hk [Hst [Hklt Hend]]]].
  destruct (out_done out) eqn:Ed.
  - split; [reflexivity|].
    rewrite (least_unique (continue_after c init hist) k r Hklt Hend Hlt Hstop) in Hst. exact Hst.
  - destruct Hend as [Hk2 Hc]. exfalso.
    destruct (Nat.eq_dec r k) as [E|E].
    + subst r. rewrite Hc in Hstop. discriminate.
    + assert (Hrk : (r < k)%nat) by lia. rewrite (Hklt r Hrk) in Hstop. discriminate.
Qed.

(** * Uniform thread count *)

Definition uniform_p (t : nat) (hist : list round_obs) : Prop := forall o, In o hist -> length o = t.

Lemma in_firstn {A} (x : A) k : forall l, In x (firstn k l) -> In x l.
Proof.
  induction k as [|k IH]; intros l H; cbn [firstn] in H; [contradiction|].
  destruct l as [|y l]; [contradiction|]. destruct H as [H|H]; [left; exact H|right; apply IH; exact H].
Qed.

Lemma in_skipn {A} (x : A) k : forall l, In x (skipn k l) -> In x l.
Proof.
  induction k as [|k IH]; intros l H; cbn [skipn] in H; [exact H|].
  destruct l as [|y l]; [contradiction|]. right. apply IH. exact H.
Qed.

Lemma uniform_firstn t hist k : uniform_p t hist -> uniform_p t (firstn k hist).
Proof. intros H o Ho. apply H. eapply in_firstn. exact Ho. Qed.

Lemma uniform_skipn t hist k : uniform_p t hist -> uniform_p t (skipn k hist).
Proof. intros H o Ho. apply H. eapply in_skipn. exact Ho. Qed.

Lemma total_len_uniform t l : uniform_p t l -> total_len l = N.of_nat t * N.of_nat (length l).
Proof.
  induction l as [|o l IH]; intros H; cbn [total_len fold_right length].
  - lia.
  - fold (total_len l). rewrite IH by (intros x Hx; apply H; right; exact Hx).
    rewrite (H o) by (left; reflexivity). lia.
Qed.

Lemma concat_len_uniform t (l : list round_obs) : uniform_p t l -> length (concat l) = (t * length l)%nat.
Proof.
  induction l as [|o l IH]; intros H; cbn [concat length].
  - lia.
  - rewrite app_length. rewrite IH by (intros x Hx; apply H; right; exact Hx).
    rewrite (H o) by (left; reflexivity). lia.
Qed.

Lemma store_of_samples c pre :
  st_samples (store_of c pre) =
  map (fun r => sample_duration c (kept_size c pre) r (dur_of c r)) (concat (kept_of c pre)).
Proof. unfold store_of. rewrite record_one_samples. reflexivity. Qed.

Lemma store_of_samples_len c pre :
  length (st_samples (store_of c pre)) = length (concat (kept_of c pre)).
Proof. rewrite store_of_samples. apply map_length. Qed.

(** * Arithmetic of ceil(n/t) *)

Lemma ceil_div_lt n t j : 0 < t -> (j < ceil_div n t <-> t * j < n).
Proof.
  intros Ht. unfold ceil_div. split; intros H; nia.
Qed.

Lemma ceil_div_ge n t : 0 < t -> n <= t * ceil_div n t.
Proof. intros Ht. unfold ceil_div. nia. Qed.

(** * C03 *)

Lemma sizes_of_explicit c hist s k : c_test c = false -> c_size c = Some s ->
  sizes_of c hist k = repeat s k.
Proof.
  intros Ht Hs. unfold sizes_of.
  assert (H : forall a, map (size_of_round c hist) (seq a k) = repeat s k).
  { induction k as [|k IH]; intros a; cbn [seq map repeat]; [reflexivity|].
    rewrite IH. unfold size_of_round. rewrite Ht, Hs. reflexivity. }
  apply H.
Qed.

Lemma sum_repeat s k : fold_right N.add 0 (repeat s k) = s * N.of_nat k.
Proof.
  induction k as [|k IH]; cbn [repeat fold_right]; [lia|]. rewrite IH. lia.
Qed.

(** Budgets not binding: the ceiling is not reached before any of the first
    R = ceil(n/T) rounds and the floor is reached after them. *)
Theorem exact_counts c init hist out s t :
  c_test c = false -> zero_case c = false -> c_size c = Some s ->
  (0 < t)%nat -> uniform_p t hist ->
  let n := sample_count_of c in
  let r := N.to_nat (ceil_div n (N.of_nat t)) in
  (r <= length hist)%nat ->
  (forall j, (j < r)%nat -> elapsed_after c init hist j < c_max c) ->
  c_min c <= elapsed_after c init hist r ->
  bench_loop c init hist = Ok out ->
  out_done out = true /\
  rounds_of (out_state out) = r /\
  length (st_samples (s_store (out_state out))) = (t * r)%nat /\
  s_sizes (out_state out) = repeat s r /\
  calls_per_thread (out_state out) = s * N.of_nat r /\
  s_size (out_state out) = (if (r =? 0)%nat then 0 else s).
Proof.
  intros Ht Hz Hs Htpos Hu n r Hr Hmax Hmin H.
  assert (Hcnt : forall j, (j <= length hist)%nat ->
            counted_of c (firstn j hist) = N.of_nat t * N.of_nat j).
  { intros j Hj. rewrite (counted_of_explicit c _ s Ht Hs).
    rewrite (total_len_uniform t) by (apply uniform_firstn; exact Hu).
    rewrite firstn_length. f_equal. lia. }
  assert (Htn : 0 < N.of_nat t) by lia.
  assert (Hcont : forall j, (j < r)%nat -> continue_after c init hist j = true).
  { intros j Hj. unfold continue_after, continue_of. fold (elapsed_after c init hist j).
    specialize (Hmax j Hj). apply N.ltb_lt in Hmax. rewrite Hmax. cbn [andb].
    rewrite Hcnt by lia.
    assert (Hlt : N.of_nat t * N.of_nat j < n).
    { apply (ceil_div_lt n (N.of_nat t) (N.of_nat j) Htn). unfold r in Hj. lia. }
    unfold n in Hlt. apply N.ltb_lt in Hlt. rewrite Hlt. reflexivity. }
  assert (Hstop : continue_after c init hist r = false).
  { unfold continue_after, continue_of. fold (elapsed_after c init hist r).
    rewrite Hcnt by lia.
    assert (Hge : n <= N.of_nat t * N.of_nat r).
    { unfold r. rewrite N2Nat.id. apply ceil_div_ge. exact Htn. }
    unfold n in Hge. apply N.ltb_ge in Hge. rewrite Hge. cbn [orb].
    apply N.ltb_ge in Hmin. rewrite Hmin. apply Bool.andb_false_r. }
  destruct (ends_at_least c init hist out r Ht Hz H Hr Hcont Hstop) as [Hd Hst].
  split; [exact Hd|]. rewrite Hst.
  assert (Hlen : length (firstn r hist) = r) by (rewrite firstn_length; lia).
  split; [rewrite rounds_spec_state; exact Hlen|].
  split.
  { cbn [spec_state s_store]. rewrite store_of_samples_len.
    rewrite (kept_of_explicit c _ s Ht Hs).
    rewrite (concat_len_uniform t) by (apply uniform_firstn; exact Hu). rewrite Hlen. reflexivity. }
  split.
  { cbn [spec_state s_sizes]. rewrite Hlen. apply sizes_of_explicit; assumption. }
  split.
  { unfold calls_per_thread. cbn [spec_state s_sizes]. rewrite Hlen.
    rewrite (sizes_of_explicit c _ s r Ht Hs). apply sum_repeat. }
  cbn [spec_state s_size]. unfold last_size. rewrite Hlen.
  destruct r as [|r']; [reflexivity|]. cbn [Nat.eqb]. unfold size_of_round. rewrite Ht, Hs. reflexivity.
Qed.

(** The premises of [exact_counts] can be met: 2 threads, 5 samples of size 3,
    three rounds of two raw samples each, no budget. *)
Definition ex_raw (s e : N) : raw := {| r_start := s; r_end := e; r_alloc := ai_zero; r_ctotal := 0 |}.
Definition ex_cfg : cfg :=
  {| c_test := false; c_count := Some 5; c_size := Some 3; c_min := 0; c_max := u128_max; c_skip := false;
     c_freq := 1000000000000; c_prec := 1; c_oh := {| oh_loop := 0; oh_alloc := 0; oh_dealloc := 0; oh_realloc := 0 |};
     c_input_counts := false |}.
Definition ex_hist : list round_obs :=
  [[ex_raw 10 310; ex_raw 5 300]; [ex_raw 400 700; ex_raw 390 720]; [ex_raw 800 1100; ex_raw 790 1090]].

Example exact_counts_example :
  exists out, bench_loop ex_cfg 0 ex_hist = Ok out /\ out_done out = true /\
    rounds_of (out_state out) = 3%nat /\ length (st_samples (s_store (out_state out))) = 6%nat /\
    calls_per_thread (out_state out) = 9.
Proof. eexists. split; [vm_compute; reflexivity|]. vm_compute. repeat split. Qed.

(** Test mode: one round of size 1 on every thread, nothing stored. *)
Theorem test_mode_once c init obs rest :
  c_test c = true -> zero_case c = false -> obs <> [] ->
  exists st, bench_loop c init (obs :: rest) = Ok (Done st) /\
    s_sizes st = [1] /\ calls_per_thread st = 1 /\ s_size st = 1 /\
    s_store st = store_empty /\ stat_sample_count st = 0 /\ stat_iter_count st = Ok 0.
Proof.
  intros Ht Hz Ho. unfold bench_loop. unfold zero_case in Hz. rewrite Hz.
  cbn [run]. unfold loop_cond, init_state, initial_mode. rewrite Ht.
  cbn [s_elapsed s_rem is_collect s_mode mode_size].
  assert (Hmax : max_reached c 0 = false).
  { unfold max_reached, max_time_cmp_is_ge. apply Bool.orb_false_elim in Hz. destruct Hz as [Hm _].
    apply N.eqb_neq in Hm. apply N.leb_gt. lia. }
  rewrite Hmax. cbn [N.ltb N.compare]. 
  destruct obs as [|r0 obs0]; [contradiction|].
  eexists. split; [reflexivity|]. cbn [with_round s_sizes s_size s_store app].
  repeat split; reflexivity.
Qed.

(** n = 0, s = 0 or max_time = 0: nothing runs, in both modes. *)
Theorem zero_runs_nothing c init hist :
  c_count c = Some 0 \/ c_size c = Some 0 \/ c_max c = 0 ->
  bench_loop c init hist = Ok (Done (init_state c)) /\
  rounds_of (init_state c) = 0%nat /\ calls_per_thread (init_state c) = 0 /\
  s_store (init_state c) = store_empty /\
  stat_sample_count (init_state c) = 0 /\ stat_iter_count (init_state c) = Ok 0.
Proof.
  intros H. split; [|repeat split; reflexivity].
  unfold bench_loop. assert (Hz : (c_max c =? 0) || negb (has_samples c) = true).
  { unfold has_samples, opt_is. destruct H as [H|[H|H]]; rewrite H.
    - cbn. apply Bool.orb_true_r.
    - cbn. rewrite Bool.andb_false_r. apply Bool.orb_true_r.
    - reflexivity. }
  rewrite Hz. reflexivity.
Qed.

(** The reported figures: samples = recorded samples, iters = that times the
    sample size in force (the size of the rounds whose samples are kept). *)
Theorem reported_figures c init hist out :
  c_test c = false -> zero_case c = false ->
  bench_loop c init hist = Ok out ->
  let st := out_state out in
  let m := N.of_nat (length (st_samples (s_store st))) in
  m < 2 ^ 32 -> s_size st * m < 2 ^ 64 ->
  stat_sample_count st = m /\ stat_iter_count st = Ok (s_size st * m) /\
  (forall s, c_size c = Some s -> (0 < rounds_of st)%nat -> s_size st = s).
Proof.
  intros Ht Hz H st m Hm Hov.
  split; [|split].
  - unfold stat_sample_count. fold st. fold m. apply N.mod_small. exact Hm.
  - unfold stat_iter_count, checked_mul. fold st. fold m.
    assert (Hm64 : m mod 2 ^ 64 = m) by (apply N.mod_small; assert (2 ^ 32 < 2 ^ 64) by reflexivity; lia).
    rewrite Hm64. apply N.ltb_lt in Hov. rewrite Hov. reflexivity.
  - intros s Hs Hr.
    destruct (bench_loop_spec c init hist out Ht Hz H) as [k [Hk [Hst _]]].
    unfold st in *. rewrite Hst in *. rewrite rounds_spec_state in Hr.
    cbn [spec_state s_size]. unfold last_size.
    destruct (length (firstn k hist)) as [|k']; [lia|].
    unfold size_of_round. rewrite Ht, Hs. reflexivity.
Qed.
