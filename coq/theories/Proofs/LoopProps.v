(** Proofs about Model/Loop.v, part 2: the statements of C03, C04 and C19,
    read off [bench_loop_spec] (Proofs/Loop.v). *)

From DivanV Require Import Base.Res Generated.Consts Model.Timestamp Model.Loop Proofs.Loop.
From Coq Require Import ZifyN ZifyBool ZifyNat Lia.
Local Open Scope N_scope.
Ltac Zify.zify_post_hook ::= Z.div_mod_to_equations.
Arguments N.add : simpl never.
Arguments N.sub : simpl never.
Arguments N.mul : simpl never.
Arguments N.div : simpl never.
Arguments N.modulo : simpl never.
Arguments N.pow : simpl never.
Arguments N.min : simpl never.
Arguments N.max : simpl never.

(** * Generic: the least index at which a predicate fails is unique *)

Lemma least_unique (P : nat -> bool) k r :
  (forall j, (j < k)%nat -> P j = true) -> P k = false ->
  (forall j, (j < r)%nat -> P j = true) -> P r = false -> k = r.
Proof.
  intros Hk Hk0 Hr Hr0.
  destruct (Nat.lt_trichotomy k r) as [H|[H|H]]; [|exact H|].
  - rewrite (Hr k H) in Hk0. discriminate.
  - rewrite (Hk r H) in Hr0. discriminate.
Qed.

(** How a run ended, given where the rule says stop. *)
Lemma ends_at_least c init hist out r :
  c_test c = false -> zero_case c = false ->
  bench_loop c init hist = Ok out ->
  (r <= length hist)%nat ->
  (forall j, (j < r)%nat -> continue_after c init hist j = true) ->
  continue_after c init hist r = false ->
  out_done out = true /\ out_state out = spec_state c init (firstn r hist).
Proof.
  intros Ht Hz H Hr Hlt Hstop.
  destruct (bench_loop_spec c init hist out Ht Hz H) as [k [Hk [Hst [Hklt Hend]]]].
  destruct (out_done out) eqn:Ed.
  - split; [reflexivity|].
    rewrite (least_unique (continue_after c init hist) k r Hklt Hend Hlt Hstop) in Hst. exact Hst.
  - destruct Hend as [Hk2 Hc]. exfalso.
    destruct (Nat.eq_dec r k) as [E|E].
    + subst r. rewrite Hc in Hstop. discriminate.
    + assert (Hrk : (r < k)%nat) by lia. rewrite (Hklt r Hrk) in Hstop. discriminate.
Qed.

(** * Uniform thread count *)

Definition uniform_p (t : nat) (hist : list round_obs) : Prop := forall o, In o hist -> length o = t.

Lemma in_firstn {A} (x : A) k : forall l, In x (firstn k l) -> In x l.
Proof.
  induction k as [|k IH]; intros l H; cbn [firstn] in H; [contradiction|].
  destruct l as [|y l]; [contradiction|]. destruct H as [H|H]; [left; exact H|right; apply IH; exact H].
Qed.

Lemma in_skipn {A} (x : A) k : forall l, In x (skipn k l) -> In x l.
Proof.
  induction k as [|k IH]; intros l H; cbn [skipn] in H; [exact H|].
  destruct l as [|y l]; [contradiction|]. right. apply IH. exact H.
Qed.

Lemma uniform_firstn t hist k : uniform_p t hist -> uniform_p t (firstn k hist).
Proof. intros H o Ho. apply H. eapply in_firstn. exact Ho. Qed.

Lemma uniform_skipn t hist k : uniform_p t hist -> uniform_p t (skipn k hist).
Proof. intros H o Ho. apply H. eapply in_skipn. exact Ho. Qed.

Lemma total_len_uniform t l : uniform_p t l -> total_len l = N.of_nat t * N.of_nat (length l).
Proof.
  induction l as [|o l IH]; intros H; cbn [total_len fold_right length].
  - lia.
  - fold (total_len l). rewrite IH by (intros x Hx; apply H; right; exact Hx).
    rewrite (H o) by (left; reflexivity). lia.
Qed.

Lemma concat_len_uniform t (l : list round_obs) : uniform_p t l -> length (concat l) = (t * length l)%nat.
Proof.
  induction l as [|o l IH]; intros H; cbn [concat length].
  - lia.
  - rewrite app_length. rewrite IH by (intros x Hx; apply H; right; exact Hx).
    rewrite (H o) by (left; reflexivity). lia.
Qed.

Lemma store_of_samples c pre :
  st_samples (store_of c pre) =
  map (fun r => sample_duration c (kept_size c pre) r (dur_of c r)) (concat (kept_of c pre)).
Proof. unfold store_of. rewrite record_one_samples. reflexivity. Qed.

Lemma store_of_samples_len c pre :
  length (st_samples (store_of c pre)) = length (concat (kept_of c pre)).
Proof. rewrite store_of_samples. apply map_length. Qed.

(** * Arithmetic of ceil(n/t) *)

Lemma ceil_div_lt n t j : 0 < t -> (j < ceil_div n t <-> t * j < n).
Proof.
  intros Ht. unfold ceil_div. split; intros H; nia.
Qed.

Lemma ceil_div_ge n t : 0 < t -> n <= t * ceil_div n t.
Proof. intros Ht. unfold ceil_div. nia. Qed.

(** * C03 *)

Lemma sizes_of_explicit c hist s k : c_test c = false -> c_size c = Some s ->
  sizes_of c hist k = repeat s k.
Proof.
  intros Ht Hs. unfold sizes_of.
  assert (H : forall a, map (size_of_round c hist) (seq a k) = repeat s k).
  { induction k as [|k IH]; intros a; cbn [seq map repeat]; [reflexivity|].
    rewrite IH. unfold size_of_round. rewrite Ht, Hs. reflexivity. }
  apply H.
Qed.

Lemma sum_repeat s k : fold_right N.add 0 (repeat s k) = s * N.of_nat k.
Proof.
  induction k as [|k IH]; cbn [repeat fold_right]; [lia|]. rewrite IH. lia.
Qed.

(** Budgets not binding: the ceiling is not reached before any of the first
    R = ceil(n/T) rounds and the floor is reached after them. *)
Theorem exact_counts c init hist out s t :
  c_test c = false -> zero_case c = false -> c_size c = Some s ->
  (0 < t)%nat -> uniform_p t hist ->
  let n := sample_count_of c in
  let r := N.to_nat (ceil_div n (N.of_nat t)) in
  (r <= length hist)%nat ->
  (forall j, (j < r)%nat -> elapsed_after c init hist j < c_max c) ->
  c_min c <= elapsed_after c init hist r ->
  bench_loop c init hist = Ok out ->
  out_done out = true /\
  rounds_of (out_state out) = r /\
  length (st_samples (s_store (out_state out))) = (t * r)%nat /\
  s_sizes (out_state out) = repeat s r /\
  calls_per_thread (out_state out) = s * N.of_nat r /\
  s_size (out_state out) = (if (r =? 0)%nat then 0 else s).
Proof.
  intros Ht Hz Hs Htpos Hu n r Hr Hmax Hmin H.
  assert (Hcnt : forall j, (j <= length hist)%nat ->
            counted_of c (firstn j hist) = N.of_nat t * N.of_nat j).
  { intros j Hj. rewrite (counted_of_explicit c _ s Ht Hs).
    rewrite (total_len_uniform t) by (apply uniform_firstn; exact Hu).
    rewrite firstn_length. f_equal. lia. }
  assert (Htn : 0 < N.of_nat t) by lia.
  assert (Hcont : forall j, (j < r)%nat -> continue_after c init hist j = true).
  { intros j Hj. unfold continue_after, continue_of. fold (elapsed_after c init hist j).
    specialize (Hmax j Hj). apply N.ltb_lt in Hmax. rewrite Hmax. cbn [andb].
    rewrite Hcnt by lia.
    assert (Hlt : N.of_nat t * N.of_nat j < n).
    { apply (ceil_div_lt n (N.of_nat t) (N.of_nat j) Htn). unfold r in Hj. lia. }
    unfold n in Hlt. apply N.ltb_lt in Hlt. rewrite Hlt. reflexivity. }
  assert (Hstop : continue_after c init hist r = false).
  { unfold continue_after, continue_of. fold (elapsed_after c init hist r).
    rewrite Hcnt by lia.
    assert (Hge : n <= N.of_nat t * N.of_nat r).
    { unfold r. rewrite N2Nat.id. apply ceil_div_ge. exact Htn. }
    unfold n in Hge. apply N.ltb_ge in Hge. rewrite Hge. cbn [orb].
    apply N.ltb_ge in Hmin. rewrite Hmin. apply Bool.andb_false_r. }
  destruct (ends_at_least c init hist out r Ht Hz H Hr Hcont Hstop) as [Hd Hst].
  split; [exact Hd|]. rewrite Hst.
  assert (Hlen : length (firstn r hist) = r) by (rewrite firstn_length; lia).
  split; [rewrite rounds_spec_state; exact Hlen|].
  split.
  { cbn [spec_state s_store]. rewrite store_of_samples_len.
    rewrite (kept_of_explicit c _ s Ht Hs).
    rewrite (concat_len_uniform t) by (apply uniform_firstn; exact Hu). rewrite Hlen. reflexivity. }
  split.
  { cbn [spec_state s_sizes]. rewrite Hlen. apply sizes_of_explicit; assumption. }
  split.
  { unfold calls_per_thread. cbn [spec_state s_sizes]. rewrite Hlen.
    rewrite (sizes_of_explicit c _ s r Ht Hs). apply sum_repeat. }
  cbn [spec_state s_size]. unfold last_size. rewrite Hlen.
  destruct r as [|r']; [reflexivity|]. cbn [Nat.eqb]. unfold size_of_round. rewrite Ht, Hs. reflexivity.
Qed.

(** The premises of [exact_counts] can be met: 2 threads, 5 samples of size 3,
    three rounds of two raw samples each, no budget. *)
Definition ex_raw (s e : N) : raw := {| r_start := s; r_end := e; r_alloc := ai_zero; r_ctotal := qconst 7 |}.
Definition ex_cfg : cfg :=
  {| c_test := false; c_count := Some 5; c_size := Some 3; c_min := 0; c_max := u128_max; c_skip := false;
     c_freq := 1000000000000; c_prec := 1; c_oh := {| oh_loop := 0; oh_alloc := 0; oh_dealloc := 0; oh_realloc := 0 |};
     c_input_counts := qconst false |}.
Definition ex_hist : list round_obs :=
  [[ex_raw 10 310; ex_raw 5 300]; [ex_raw 400 700; ex_raw 390 720]; [ex_raw 800 1100; ex_raw 790 1090]].

Example exact_counts_example :
  exists out, bench_loop ex_cfg 0 ex_hist = Ok out /\ out_done out = true /\
    rounds_of (out_state out) = 3%nat /\ length (st_samples (s_store (out_state out))) = 6%nat /\
    calls_per_thread (out_state out) = 9.
Proof. eexists. split; [vm_compute; reflexivity|]. vm_compute. repeat split. Qed.

(** Test mode: one round of size 1 on every thread, nothing stored. *)
Theorem test_mode_once c init obs rest :
  c_test c = true -> zero_case c = false -> obs <> [] ->
  exists st, bench_loop c init (obs :: rest) = Ok (Done st) /\
    s_sizes st = [1] /\ calls_per_thread st = 1 /\ s_size st = 1 /\
    s_store st = store_empty /\ stat_sample_count st = 0 /\ stat_iter_count st = Ok 0.
Proof.
  intros Ht Hz Ho. unfold bench_loop. unfold zero_case in Hz. rewrite Hz.
  cbn [run]. unfold loop_cond, init_state, initial_mode. rewrite Ht.
  cbn [s_elapsed s_rem is_collect s_mode mode_size].
  assert (Hmax : max_reached c 0 = false).
  { unfold max_reached, max_time_cmp_is_ge. apply Bool.orb_false_elim in Hz. destruct Hz as [Hm _].
    apply N.eqb_neq in Hm. apply N.leb_gt. lia. }
  rewrite Hmax. cbn [N.ltb N.compare]. 
  destruct obs as [|r0 obs0]; [contradiction|].
  eexists. split; [reflexivity|]. cbn [with_round s_sizes s_size s_store app].
  repeat split; reflexivity.
Qed.

(** n = 0, s = 0 or max_time = 0: nothing runs, in both modes. *)
Theorem zero_runs_nothing c init hist :
  c_count c = Some 0 \/ c_size c = Some 0 \/ c_max c = 0 ->
  bench_loop c init hist = Ok (Done (init_state c)) /\
  rounds_of (init_state c) = 0%nat /\ calls_per_thread (init_state c) = 0 /\
  s_store (init_state c) = store_empty /\
  stat_sample_count (init_state c) = 0 /\ stat_iter_count (init_state c) = Ok 0.
Proof.
  intros H. split; [|repeat split; reflexivity].
  unfold bench_loop. assert (Hz : (c_max c =? 0) || negb (has_samples c) = true).
  { unfold has_samples, opt_is. destruct H as [H|[H|H]]; rewrite H.
    - cbn. apply Bool.orb_true_r.
    - cbn. rewrite Bool.andb_false_r. apply Bool.orb_true_r.
    - reflexivity. }
  rewrite Hz. reflexivity.
Qed.

(** The reported figures: samples = recorded samples, iters = that times the
    sample size in force (the size of the rounds whose samples are kept). *)
Theorem reported_figures c init hist out :
  c_test c = false -> zero_case c = false ->
  bench_loop c init hist = Ok out ->
  let st := out_state out in
  let m := N.of_nat (length (st_samples (s_store st))) in
  m < 2 ^ 32 -> s_size st * m < 2 ^ 64 ->
  stat_sample_count st = m /\ stat_iter_count st = Ok (s_size st * m) /\
  (forall s, c_size c = Some s -> (0 < rounds_of st)%nat -> s_size st = s).
Proof.
  intros Ht Hz H st m Hm Hov.
  split; [|split].
  - unfold stat_sample_count. fold st. fold m. apply N.mod_small. exact Hm.
  - unfold stat_iter_count, checked_mul. fold st. fold m.
    assert (Hm64 : m mod 2 ^ 64 = m) by (apply N.mod_small; assert (2 ^ 32 < 2 ^ 64) by reflexivity; lia).
    rewrite Hm64. apply N.ltb_lt in Hov. rewrite Hov. reflexivity.
  - intros s Hs Hr.
    destruct (bench_loop_spec c init hist out Ht Hz H) as [k [Hk [Hst _]]].
    unfold st in *. rewrite Hst in *. rewrite rounds_spec_state in Hr.
    cbn [spec_state s_size]. unfold last_size.
    destruct (length (firstn k hist)) as [|k']; [lia|].
    unfold size_of_round. rewrite Ht, Hs. reflexivity.
Qed.

(** * C04 *)

Definition counted_after (c : cfg) (hist : list round_obs) (k : nat) : N := counted_of c (firstn k hist).

(** What [continue_after] says. *)
Lemma continue_after_spec c init hist k :
  continue_after c init hist k = true <->
  elapsed_after c init hist k < c_max c /\
  (counted_after c hist k < sample_count_of c \/ elapsed_after c init hist k < c_min c).
Proof.
  unfold continue_after, continue_of, counted_after, elapsed_after.
  rewrite Bool.andb_true_iff, Bool.orb_true_iff, !N.ltb_lt. reflexivity.
Qed.

Lemma firstn_len_le {A} (l : list A) k : (k <= length l)%nat -> length (firstn k l) = k.
Proof. intros H. rewrite firstn_length. lia. Qed.

(** The number of rounds run is the least k at which the rule says stop — for
    every history, every (n, s, min, max, skip), tuned or not; max = 0 included. *)
Theorem rounds_least c init hist out :
  c_test c = false -> has_samples c = true ->
  bench_loop c init hist = Ok out ->
  let k := rounds_of (out_state out) in
  (k <= length hist)%nat /\
  (forall j, (j < k)%nat -> continue_after c init hist j = true) /\
  (if out_done out then continue_after c init hist k = false
   else k = length hist /\ continue_after c init hist k = true).
Proof.
  intros Ht Hh H. destruct (zero_case c) eqn:Hz.
  - (* only max_time = 0 is left: nothing runs, and the rule says stop at 0 *)
    unfold bench_loop in H. unfold zero_case in Hz. rewrite Hz in H. injection H as H; subst out.
    cbn [out_state out_done]. cbn. split; [lia|]. split; [intros j Hj; lia|].
    rewrite Hh in Hz. cbn [negb] in Hz. rewrite Bool.orb_false_r in Hz. apply N.eqb_eq in Hz.
    unfold continue_after, continue_of. cbn [firstn].
    assert (He : elapsed_of c init [] = 0) by (unfold elapsed_of; destruct (c_skip c); reflexivity).
    rewrite He, Hz. reflexivity.
  - destruct (bench_loop_spec c init hist out Ht Hz H) as [k [Hk [Hst [Hlt Hend]]]].
    cbn zeta. rewrite Hst, rounds_spec_state, (firstn_len_le hist k Hk).
    split; [exact Hk|]. split; [exact Hlt|exact Hend].
Qed.

Example rounds_least_example :
  exists out, bench_loop ex_cfg 0 ex_hist = Ok out /\ c_test ex_cfg = false /\ has_samples ex_cfg = true.
Proof. eexists. split; [vm_compute; reflexivity|]. split; reflexivity. Qed.

(** max_time has priority: once the elapsed time is at least max_time after
    some round, no further round is run, whatever the sample count and min_time. *)
Theorem max_has_priority c init hist out j :
  c_test c = false -> has_samples c = true ->
  bench_loop c init hist = Ok out ->
  c_max c <= elapsed_after c init hist j ->
  (rounds_of (out_state out) <= j)%nat.
Proof.
  intros Ht Hh H Hm. destruct (rounds_least c init hist out Ht Hh H) as [_ [Hlt _]].
  destruct (Nat.le_gt_cases (rounds_of (out_state out)) j) as [Hle|Hgt]; [exact Hle|].
  specialize (Hlt j Hgt). apply continue_after_spec in Hlt. lia.
Qed.

(** ... and conversely the loop does not stop for min_time or the sample count
    alone while samples are missing or the floor is not reached: that is
    [rounds_least]'s first half. *)

Lemma firstn_S_snoc {A} (l : list A) k x : nth_error l k = Some x -> firstn (S k) l = firstn k l ++ [x].
Proof.
  revert k. induction l as [|y l IH]; intros k H.
  - destruct k; discriminate.
  - destruct k as [|k]; cbn [nth_error] in H.
    + injection H as H; subst y. reflexivity.
    + cbn [firstn app]. f_equal. apply IH. exact H.
Qed.

(** The loop's [elapsed_picos] is the declarative elapsed time, which is: *)
Theorem elapsed_def c init hist out :
  c_test c = false -> has_samples c = true ->
  bench_loop c init hist = Ok out ->
  s_elapsed (out_state out) = elapsed_after c init hist (rounds_of (out_state out)) /\
  elapsed_after c init hist 0 = 0 /\
  (c_skip c = false -> forall k o, nth_error hist k = Some o ->
     elapsed_after c init hist (S k) = dur_ps (c_freq c) (latest_end o) init) /\
  (c_skip c = true -> forall k,
     elapsed_after c init hist k =
     N.min (sum_n (map (fun o => N.max (slowest_of c o) 1000) (firstn k hist))) (2 ^ 128 - 1)).
Proof.
  intros Ht Hh H. split; [|split; [|split]].
  - destruct (zero_case c) eqn:Hz.
    + unfold bench_loop in H. unfold zero_case in Hz. rewrite Hz in H. injection H as H; subst out.
      cbn [out_state]. cbn. unfold elapsed_after, elapsed_of. cbn [firstn]. destruct (c_skip c); reflexivity.
    + destruct (bench_loop_spec c init hist out Ht Hz H) as [k [Hk [Hst _]]].
      rewrite Hst, rounds_spec_state, (firstn_len_le hist k Hk). reflexivity.
  - unfold elapsed_after, elapsed_of. cbn [firstn]. destruct (c_skip c); reflexivity.
  - intros Hs k o Ho. unfold elapsed_after. rewrite (firstn_S_snoc hist k o Ho).
    apply elapsed_of_snoc_noskip. exact Hs.
  - intros Hs k. unfold elapsed_after, elapsed_of. rewrite Hs. reflexivity.
Qed.

(** * C19 *)

Lemma firstn_firstn_le {A} (l : list A) i k : (i <= k)%nat -> firstn i (firstn k l) = firstn i l.
Proof. intros H. rewrite firstn_firstn. f_equal. lia. Qed.

Lemma sizes_of_firstn c hist k : (k <= length hist)%nat ->
  sizes_of c (firstn k hist) (length (firstn k hist)) = sizes_of c hist k.
Proof.
  intros Hk. rewrite (firstn_len_le hist k Hk).
  rewrite <- (firstn_skipn k hist) at 2. apply eq_sym. apply sizes_of_app.
  rewrite (firstn_len_le hist k Hk). lia.
Qed.

(** Sizes of successive rounds: 1, 2, 4, ... while no round has passed the
    threshold, then constant. *)
Theorem tune_sequence c init hist out :
  c_test c = false -> c_size c = None -> has_samples c = true -> c_max c <> 0 ->
  bench_loop c init hist = Ok out ->
  let k := rounds_of (out_state out) in
  s_sizes (out_state out) = sizes_of c hist k /\
  (forall i, (i < k)%nat ->
     nth_error (s_sizes (out_state out)) i =
     Some (match first_pass c (firstn i hist) with Some j0 => pow2 j0 | None => pow2 i end)).
Proof.
  intros Ht Hs Hh Hm H.
  assert (Hz : zero_case c = false).
  { unfold zero_case. rewrite Hh. apply N.eqb_neq in Hm. rewrite Hm. reflexivity. }
  destruct (bench_loop_spec c init hist out Ht Hz H) as [k [Hk [Hst _]]].
  cbn zeta. rewrite Hst, rounds_spec_state, (firstn_len_le hist k Hk).
  cbn [spec_state s_sizes]. rewrite (sizes_of_firstn c hist k Hk).
  split; [reflexivity|].
  intros i Hi. unfold sizes_of. rewrite nth_error_map.
  assert (Hn : nth_error (seq 0 k) i = Some i).
  { rewrite (nth_error_nth' (seq 0 k) 0%nat) by (rewrite seq_length; exact Hi). rewrite seq_nth by exact Hi. reflexivity. }
  rewrite Hn. cbn [option_map]. unfold size_of_round. rewrite Ht, Hs. reflexivity.
Qed.

Lemma first_pass_firstn_some c l j0 i : first_pass c l = Some j0 -> (j0 < i)%nat ->
  first_pass c (firstn i l) = Some j0.
Proof.
  revert j0 i. induction l as [|o l IH]; intros j0 i H Hi; cbn [first_pass] in H; [discriminate|].
  destruct i as [|i]; [lia|]. cbn [firstn first_pass].
  destruct (passes c o); [exact H|].
  destruct (first_pass c l) as [j|] eqn:E; [|discriminate]. injection H as H; subst j0.
  rewrite (IH j i eq_refl) by lia. reflexivity.
Qed.

Lemma first_pass_firstn_none c l j0 i : first_pass c l = Some j0 -> (i <= j0)%nat ->
  first_pass c (firstn i l) = None.
Proof.
  revert j0 i. induction l as [|o l IH]; intros j0 i H Hi; cbn [first_pass] in H; [discriminate|].
  destruct i as [|i]; [reflexivity|]. cbn [firstn first_pass].
  destruct (passes c o); [injection H as H; lia|].
  destruct (first_pass c l) as [j|] eqn:E; [|discriminate]. injection H as H; subst j0.
  rewrite (IH j i eq_refl) by lia. reflexivity.
Qed.

Lemma first_pass_firstn_none' c l i : first_pass c l = None -> first_pass c (firstn i l) = None.
Proof.
  revert i. induction l as [|o l IH]; intros i H; cbn [first_pass] in H.
  - destruct i; reflexivity.
  - destruct i as [|i]; [reflexivity|]. cbn [firstn first_pass].
    destruct (passes c o); [discriminate|].
    destruct (first_pass c l) as [j|] eqn:E; [discriminate|]. rewrite (IH i eq_refl). reflexivity.
Qed.

Lemma last_as_skipn {A} (l : list A) :
  match rev l with [] => [] | o :: _ => [o] end = skipn (length l - 1) l.
Proof.
  induction l as [|x l _] using rev_ind; [reflexivity|].
  rewrite rev_app_distr. cbn [rev app]. rewrite app_length. cbn [length].
  replace (length l + 1 - 1)%nat with (length l) by lia. rewrite skipn_len_snoc. reflexivity.
Qed.

(** Only the rounds from the first passing one on (or, while none has passed,
    only the newest round) have left anything in the sample collection, the
    allocation map and the per-input counts: the store is what recording just
    those rounds into empty collections gives.  All of them have the final size. *)
Theorem discard_earlier c init hist out :
  c_test c = false -> c_size c = None -> has_samples c = true -> c_max c <> 0 ->
  bench_loop c init hist = Ok out ->
  let k := rounds_of (out_state out) in
  let pre := firstn k hist in
  let kept := match first_pass c pre with Some j0 => skipn j0 pre | None => skipn (k - 1) pre end in
  let size := match first_pass c pre with Some j0 => pow2 j0 | None => pow2 (k - 1) end in
  s_store (out_state out) = fold_left (record_one c size) (with_dur c (concat kept)) store_empty /\
  st_samples (s_store (out_state out)) = map (fun r => sample_duration c size r (dur_of c r)) (concat kept) /\
  (k <> 0%nat -> s_size (out_state out) = size).
Proof.
  intros Ht Hs Hh Hm H.
  assert (Hz : zero_case c = false).
  { unfold zero_case. rewrite Hh. apply N.eqb_neq in Hm. rewrite Hm. reflexivity. }
  destruct (bench_loop_spec c init hist out Ht Hz H) as [k [Hk [Hst _]]].
  cbn zeta. rewrite Hst, rounds_spec_state, (firstn_len_le hist k Hk).
  set (pre := firstn k hist). assert (Hlen : length pre = k) by (apply firstn_len_le; exact Hk).
  assert (Hstore : store_of c pre =
     fold_left (record_one c (match first_pass c pre with Some j0 => pow2 j0 | None => pow2 (k - 1) end))
       (with_dur c (concat (match first_pass c pre with Some j0 => skipn j0 pre | None => skipn (k - 1) pre end)))
       store_empty).
  { unfold store_of, kept_size, kept_of. rewrite (tuned_bench c Ht), Hs, Hlen.
    destruct (first_pass c pre); [reflexivity|]. rewrite last_as_skipn, Hlen. reflexivity. }
  split; [exact Hstore|]. split.
  - cbn [spec_state s_store]. rewrite Hstore. rewrite record_one_samples. reflexivity.
  - intros Hk0. cbn [spec_state s_size]. unfold last_size. rewrite Hlen.
    destruct k as [|k']; [contradiction|]. unfold size_of_round. rewrite Ht, Hs.
    replace (S k' - 1)%nat with k' by lia.
    destruct (first_pass c pre) as [j0|] eqn:Ef.
    + pose proof (first_pass_lt c pre j0 Ef) as Hlt. rewrite Hlen in Hlt.
      destruct (Nat.eq_dec j0 k') as [E|E].
      * subst j0. rewrite (first_pass_firstn_none c pre k' k' Ef) by lia. reflexivity.
      * rewrite (first_pass_firstn_some c pre j0 k' Ef) by lia. reflexivity.
    + rewrite (first_pass_firstn_none' c pre k' Ef). reflexivity.
Qed.

(** The round that first passes the threshold counts as the first recorded
    one: with no time limit binding, exactly ceil(n/t) rounds are run from it
    on (itself included) and t*ceil(n/t) samples are reported. *)
Theorem threshold_round_counts c init hist out t j0 :
  c_test c = false -> c_size c = None -> has_samples c = true ->
  (0 < t)%nat -> uniform_p t hist ->
  first_pass c hist = Some j0 ->
  let n := sample_count_of c in
  let r := N.to_nat (ceil_div n (N.of_nat t)) in
  (j0 + r <= length hist)%nat ->
  (forall j, (j < j0 + r)%nat -> elapsed_after c init hist j < c_max c) ->
  c_min c <= elapsed_after c init hist (j0 + r) ->
  bench_loop c init hist = Ok out ->
  out_done out = true /\
  rounds_of (out_state out) = (j0 + r)%nat /\
  length (st_samples (s_store (out_state out))) = (t * r)%nat /\
  s_size (out_state out) = pow2 j0.
Proof.
  intros Ht Hs Hh Htpos Hu Hf n r Hr Hmax Hmin H.
  assert (Hn0 : n <> 0) by (apply has_samples_count; exact Hh).
  assert (Htn : 0 < N.of_nat t) by lia.
  assert (Hr1 : (1 <= r)%nat).
  { unfold r. assert (0 < ceil_div n (N.of_nat t)); [|lia].
    apply (ceil_div_lt n (N.of_nat t) 0 Htn). lia. }
  assert (Hz : zero_case c = false).
  { unfold zero_case. rewrite Hh. cbn [negb]. rewrite Bool.orb_false_r. apply N.eqb_neq.
    specialize (Hmax O ltac:(lia)). lia. }
  assert (Hcnt_before : forall j, (j <= j0)%nat -> counted_of c (firstn j hist) = 0).
  { intros j Hj. unfold counted_of. rewrite (tuned_bench c Ht), Hs.
    rewrite (first_pass_firstn_none c hist j0 j Hf Hj). reflexivity. }
  assert (Hcnt_after : forall j, (j0 < j)%nat -> (j <= length hist)%nat ->
            counted_of c (firstn j hist) = N.of_nat t * N.of_nat (j - j0)).
  { intros j Hj Hjl. unfold counted_of. rewrite (tuned_bench c Ht), Hs.
    rewrite (first_pass_firstn_some c hist j0 j Hf Hj).
    rewrite (total_len_uniform t) by (apply uniform_skipn, uniform_firstn; exact Hu).
    rewrite skipn_length, (firstn_len_le hist j Hjl). reflexivity. }
  assert (Hcont : forall j, (j < j0 + r)%nat -> continue_after c init hist j = true).
  { intros j Hj. apply continue_after_spec. split; [apply Hmax; exact Hj|]. left. unfold counted_after.
    destruct (Nat.le_gt_cases j j0) as [Hle|Hgt].
    - rewrite (Hcnt_before j Hle). fold n. lia.
    - rewrite (Hcnt_after j Hgt) by lia. fold n.
      apply (ceil_div_lt n (N.of_nat t) (N.of_nat (j - j0)) Htn). unfold r in Hj. lia. }
  assert (Hstop : continue_after c init hist (j0 + r) = false).
  { destruct (continue_after c init hist (j0 + r)) eqn:E; [|reflexivity]. exfalso.
    apply continue_after_spec in E. destruct E as [_ [E|E]]; [|lia].
    unfold counted_after in E. rewrite (Hcnt_after (j0 + r)%nat) in E by lia.
    replace (j0 + r - j0)%nat with r in E by lia.
    assert (Hge : n <= N.of_nat t * N.of_nat r).
    { unfold r. rewrite N2Nat.id. apply ceil_div_ge. exact Htn. }
    fold n in E. lia. }
  destruct (ends_at_least c init hist out (j0 + r) Ht Hz H Hr Hcont Hstop) as [Hd Hst].
  split; [exact Hd|]. rewrite Hst.
  assert (Hlen : length (firstn (j0 + r) hist) = (j0 + r)%nat) by (apply firstn_len_le; exact Hr).
  assert (Hf2 : first_pass c (firstn (j0 + r) hist) = Some j0) by (apply first_pass_firstn_some; [exact Hf|lia]).
  split; [rewrite rounds_spec_state; exact Hlen|]. split.
  - cbn [spec_state s_store]. rewrite store_of_samples_len.
    rewrite (kept_of_passed c _ j0 Ht Hs Hf2).
    rewrite (concat_len_uniform t) by (apply uniform_skipn, uniform_firstn; exact Hu).
    rewrite skipn_length, Hlen. f_equal. lia.
  - cbn [spec_state s_size]. unfold last_size. rewrite Hlen.
    destruct (j0 + r)%nat as [|m] eqn:Em; [lia|]. unfold size_of_round. rewrite Ht, Hs.
    assert (Hm : (m <= length (firstn (S m) hist))%nat) by (rewrite Hlen; lia).
    rewrite (firstn_firstn_le hist m (S m)) by lia.
    destruct (Nat.eq_dec j0 m) as [E|E].
    + subst m. rewrite (first_pass_firstn_none c hist j0 j0 Hf) by lia. reflexivity.
    + rewrite (first_pass_firstn_some c hist j0 m Hf) by lia. reflexivity.
Qed.

(** max_time also covers the tuning rounds: whether or not any round has
    passed the threshold, no round starts once the elapsed time is at least
    max_time. *)
Theorem max_time_covers_tuning c init hist out :
  c_test c = false -> c_size c = None -> has_samples c = true ->
  bench_loop c init hist = Ok out ->
  (forall j, (j < rounds_of (out_state out))%nat -> elapsed_after c init hist j < c_max c) /\
  (forall j, c_max c <= elapsed_after c init hist j -> (rounds_of (out_state out) <= j)%nat).
Proof.
  intros Ht Hs Hh H. split.
  - intros j Hj. destruct (rounds_least c init hist out Ht Hh H) as [_ [Hlt _]].
    specialize (Hlt j Hj). apply continue_after_spec in Hlt. lia.
  - intros j Hj. apply (max_has_priority c init hist out j Ht Hh H Hj).
Qed.

(** A tuned run: sizes 1, 2, 4 (the third round's slowest sample is 404 > 100
    x the precision 4), then two more rounds for n = 5 on 2 threads; max_time cuts
    nothing.  Hypotheses of the C19 theorems are satisfiable. *)
Definition ex_tune_cfg : cfg :=
  {| c_test := false; c_count := Some 5; c_size := None; c_min := 0; c_max := u128_max; c_skip := false;
     c_freq := 1000000000000; c_prec := 4; c_oh := {| oh_loop := 0; oh_alloc := 0; oh_dealloc := 0; oh_realloc := 0 |};
     c_input_counts := {| q_bytes := true; q_chars := false; q_cycles := false; q_items := true |} |}.
Definition ex_tune_hist : list round_obs :=
  [[ex_raw 10 111; ex_raw 5 100]; [ex_raw 200 402; ex_raw 190 380]; [ex_raw 500 904; ex_raw 490 880];
   [ex_raw 1000 1404; ex_raw 990 1390]; [ex_raw 1500 1904; ex_raw 1490 1890]; [ex_raw 2000 2404; ex_raw 1990 2390]].

Example tune_example :
  exists out, bench_loop ex_tune_cfg 0 ex_tune_hist = Ok out /\ out_done out = true /\
    s_sizes (out_state out) = [1; 2; 4; 4; 4] /\ first_pass ex_tune_cfg ex_tune_hist = Some 2%nat /\
    length (st_samples (s_store (out_state out))) = 6%nat /\ s_size (out_state out) = 4.
Proof. eexists. split; [vm_compute; reflexivity|]. vm_compute. repeat split. Qed.

(** * Obligations on the generated constants, per property *)
Lemma consts_c04 : max_time_cmp_is_ge = true /\ min_time_cmp_is_lt = true /\ min_progress_picos = 1000.
Proof. repeat split; reflexivity. Qed.

Lemma consts_c19 : tune_threshold = 100 /\ tune_factor = 2.
Proof. split; reflexivity. Qed.

Lemma passes_spec c o : passes c o = true <-> 100 < slowest_of c o / c_prec c.
Proof. unfold passes. apply N.ltb_lt. Qed.

(** * A bound that needs no exact clock: rounds under a time ceiling *)
Theorem rounds_bounded c init hist out d :
  c_test c = false -> has_samples c = true ->
  bench_loop c init hist = Ok out ->
  (forall j, (j <= length hist)%nat -> N.of_nat j * d <= elapsed_after c init hist j) ->
  c04_os_sb (c_max c) d (N.of_nat (rounds_of (out_state out))) = true.
Proof.
  intros Ht Hh H Hd. destruct (rounds_least c init hist out Ht Hh H) as [Hk [Hlt _]].
  unfold c04_os_sb. destruct (rounds_of (out_state out)) as [|k'] eqn:Ek; [reflexivity|].
  assert (Hc : continue_after c init hist k' = true) by (apply Hlt; lia).
  apply continue_after_spec in Hc. destruct Hc as [Hmax _].
  specialize (Hd k' ltac:(lia)).
  assert (E : (N.of_nat (S k') - 1) * d <? c_max c = true) by (apply N.ltb_lt; lia).
  rewrite E. apply Bool.orb_true_r.
Qed.

Example rounds_bounded_example :
  forall j, (j <= length ex_hist)%nat -> N.of_nat j * 300 <= elapsed_after ex_cfg 0 ex_hist j.
Proof. intros j Hj. do 4 (destruct j as [|j]; [vm_compute; discriminate|]). cbn in Hj. lia. Qed.

Example decimal_nanos_example :
  decimal_nanos 0 [0; 0; 0; 4] = 400000 /\ decimal_nanos 1 [5] = 1500000000 /\ decimal_nanos 2 [] = 2000000000 /\
  decimal_nanos 0 [0; 0; 1; 4; 0; 0; 0; 0; 7] = 1400007.
Proof. repeat split; reflexivity. Qed.
