(** Proofs about Model/Loop.v, part 1: the state of the loop after any executed
    prefix of a history is a closed-form function of that prefix
    ([spec_state]), the loop condition is the documented rule
    ([continue_of]), and a run stops at the least prefix at which the rule says
    stop ([run_spec], [bench_loop_spec]).  Everything else (Proofs/LoopProps.v)
    is read off these. *)

From DivanV Require Import Base.Res Generated.Consts Model.Timestamp Model.Loop.
From Coq Require Import ZifyN ZifyBool ZifyNat Lia.
Local Open Scope N_scope.
Ltac Zify.zify_post_hook ::= Z.div_mod_to_equations.
Arguments N.add : simpl never.
Arguments N.sub : simpl never.
Arguments N.mul : simpl never.
Arguments N.div : simpl never.
Arguments N.modulo : simpl never.
Arguments N.pow : simpl never.
Arguments N.min : simpl never.
Arguments N.max : simpl never.

(** * The generated constants are the documented ones *)

Lemma consts_loop :
  default_sample_count = 100 /\ tune_threshold = 100 /\ min_progress_picos = 1000 /\
  tune_factor = 2 /\ max_time_cmp_is_ge = true /\ min_time_cmp_is_lt = true.
Proof. repeat split; reflexivity. Qed.

(** * Timestamps *)

Lemma tsc_duration_ok b a f d : tsc_duration b a f = Ok d -> d = dur_ps f b a.
Proof.
  unfold tsc_duration, dur_ps. destruct (b <? a) eqn:E.
  - intros H. inversion H. reflexivity.
  - unfold checked_mul. destruct ((b - a) * tsc_picos_const <? 2 ^ 128) eqn:E2; cbn [bind]; [|discriminate].
    unfold checked_div. destruct (f =? 0) eqn:E3; [discriminate|].
    intros H. inversion H. reflexivity.
Qed.

Definition dur_of (c : cfg) (r : raw) : N := dur_ps (c_freq c) (r_end r) (r_start r).

Lemma map_res_raw c obs durs :
  map_res (raw_duration c) obs = Ok durs -> durs = map (dur_of c) obs.
Proof.
  revert durs. induction obs as [|r obs IH]; intros durs H; cbn [map_res] in H.
  - inversion H. reflexivity.
  - unfold raw_duration at 1 in H.
    destruct (tsc_duration (r_end r) (r_start r) (c_freq c)) as [d|p] eqn:E; cbn [bind] in H; [|discriminate].
    destruct (map_res (raw_duration c) obs) as [ds|p] eqn:E2; cbn [bind] in H; [|discriminate].
    inversion H. cbn [map]. f_equal.
    + apply tsc_duration_ok in E. exact E.
    + apply IH. reflexivity.
Qed.

Lemma slowest_of_eq c obs : nmax_list (map (dur_of c) obs) = slowest_of c obs.
Proof. reflexivity. Qed.

Lemma combine_map {A B} (f : A -> B) (l : list A) : combine l (map f l) = map (fun x => (x, f x)) l.
Proof. induction l as [|x l IH]; cbn; [reflexivity|]. f_equal. exact IH. Qed.

(** * The recording fold *)

Definition with_dur (c : cfg) (l : list raw) : list (raw * N) := map (fun r => (r, dur_of c r)) l.

Lemma with_dur_app c a b : with_dur c (a ++ b) = with_dur c a ++ with_dur c b.
Proof. unfold with_dur. apply map_app. Qed.

Lemma record_fold c size l : forall sto rem,
  fold_left (record_step c size) l (sto, rem) =
  (fold_left (record_one c size) l sto, option_map (fun x => x - N.of_nat (length l)) rem).
Proof.
  induction l as [|x l IH]; intros sto rem; cbn [fold_left length].
  - destruct rem; cbn [option_map]; [|reflexivity]. f_equal. f_equal. lia.
  - unfold record_step at 2. cbn [fst snd]. rewrite IH. f_equal.
    destruct rem; cbn [option_map]; [|reflexivity]. unfold sat_sub. f_equal. lia.
Qed.

Lemma length_with_dur c l : length (with_dur c l) = length l.
Proof. unfold with_dur. apply map_length. Qed.

Lemma record_one_samples c size l : forall sto,
  st_samples (fold_left (record_one c size) (with_dur c l) sto) =
  st_samples sto ++ map (fun r => sample_duration c size r (dur_of c r)) l.
Proof.
  induction l as [|r l IH]; intros sto; cbn [with_dur map fold_left].
  - rewrite app_nil_r. reflexivity.
  - fold (with_dur c l). rewrite IH. cbn [record_one st_samples]. rewrite <- app_assoc. reflexivity.
Qed.

Lemma qget_qmap3 {A B C D} (f : A -> B -> C -> D) a b c k :
  qget k (qmap3 f a b c) = f (qget k a) (qget k b) (qget k c).
Proof. destruct k; reflexivity. Qed.

(** Per counter kind: the counts are those of the recorded samples, in order. *)
Lemma record_one_counts c size k l : forall sto,
  qget k (st_counts (fold_left (record_one c size) (with_dur c l) sto)) =
  qget k (st_counts sto) ++
  (if qget k (c_input_counts c) then map (fun r => (qget k (r_ctotal r) / size) mod 2 ^ 64) l else []).
Proof.
  induction l as [|r l IH]; intros sto; cbn [with_dur map fold_left].
  - destruct (qget k (c_input_counts c)); rewrite app_nil_r; reflexivity.
  - fold (with_dur c l). rewrite IH. cbn [record_one st_counts]. rewrite qget_qmap3.
    destruct (qget k (c_input_counts c)); [|reflexivity]. rewrite <- app_assoc. reflexivity.
Qed.

(** * Declarative reading: snoc lemmas *)

Lemma total_len_app a b : total_len (a ++ b) = total_len a + total_len b.
Proof. induction a as [|o a IH]; cbn [total_len app fold_right]; [reflexivity|]. fold (total_len (a ++ b)). fold (total_len a). rewrite IH. lia. Qed.

Lemma total_len_one o : total_len [o] = N.of_nat (length o).
Proof. cbn. lia. Qed.

Lemma sum_n_app a b : sum_n (a ++ b) = sum_n a + sum_n b.
Proof. induction a as [|x a IH]; cbn [sum_n app fold_right]; [reflexivity|]. fold (sum_n (a ++ b)). fold (sum_n a). rewrite IH. lia. Qed.

Lemma first_pass_lt c l j : first_pass c l = Some j -> (j < length l)%nat.
Proof.
  revert j. induction l as [|o l IH]; intros j H; cbn [first_pass] in H; [discriminate|].
  destruct (passes c o).
  - inversion H. cbn. lia.
  - destruct (first_pass c l) as [j'|]; [|discriminate]. inversion H. specialize (IH j' eq_refl). cbn. lia.
Qed.

Lemma first_pass_snoc c l o :
  first_pass c (l ++ [o]) =
  match first_pass c l with
  | Some j => Some j
  | None => if passes c o then Some (length l) else None
  end.
Proof.
  induction l as [|x l IH]; cbn [first_pass app length].
  - destruct (passes c o); reflexivity.
  - destruct (passes c x); [reflexivity|]. rewrite IH.
    destruct (first_pass c l); [reflexivity|]. destruct (passes c o); reflexivity.
Qed.

(** What a prefix decided stays decided. *)
Lemma first_pass_app_some c l m j : first_pass c l = Some j -> first_pass c (l ++ m) = Some j.
Proof.
  revert j. induction l as [|x l IH]; intros j H; cbn [first_pass app] in *; [discriminate|].
  destruct (passes c x); [exact H|].
  destruct (first_pass c l) as [j'|]; [|discriminate]. rewrite (IH j' eq_refl). exact H.
Qed.

Lemma skipn_snoc {A} (l : list A) (x : A) j : (j <= length l)%nat -> skipn j (l ++ [x]) = skipn j l ++ [x].
Proof. intros H. rewrite skipn_app. replace (j - length l)%nat with O by lia. reflexivity. Qed.

Lemma skipn_len_snoc {A} (l : list A) (x : A) : skipn (length l) (l ++ [x]) = [x].
Proof. rewrite skipn_app. rewrite skipn_all. rewrite Nat.sub_diag. reflexivity. Qed.

(** * The state after a prefix, in closed form (bench mode) *)

Definition mode_of (c : cfg) (pre : list round_obs) : bmode :=
  match c_size c with
  | Some s => MCollect s
  | None => match first_pass c pre with
            | Some j0 => MCollect (pow2 j0)
            | None => MTune (pow2 (length pre))
            end
  end.

Definition rem_of (c : cfg) (pre : list round_obs) : option N :=
  match c_size c with
  | Some _ => Some (sample_count_of c - counted_of c pre)
  | None => match first_pass c pre with
            | Some _ => Some (sample_count_of c - counted_of c pre)
            | None => None
            end
  end.

(** The size with which the kept rounds were recorded. *)
Definition kept_size (c : cfg) (pre : list round_obs) : N :=
  match c_size c with
  | Some s => s
  | None => match first_pass c pre with
            | Some j0 => pow2 j0
            | None => pow2 (length pre - 1)
            end
  end.

Definition store_of (c : cfg) (pre : list round_obs) : store :=
  fold_left (record_one c (kept_size c pre)) (with_dur c (concat (kept_of c pre))) store_empty.

Definition last_size (c : cfg) (pre : list round_obs) : N :=
  match length pre with O => 0 | S k => size_of_round c pre k end.

Definition spec_state (c : cfg) (init : N) (pre : list round_obs) : state :=
  {| s_mode := mode_of c pre;
     s_rem := rem_of c pre;
     s_elapsed := elapsed_of c init pre;
     s_size := last_size c pre;
     s_store := store_of c pre;
     s_sizes := sizes_of c pre (length pre) |}.

Lemma tuned_bench c : c_test c = false ->
  tuned c = match c_size c with None => true | Some _ => false end.
Proof. intros H. unfold tuned. rewrite H. reflexivity. Qed.

Lemma count_default c : count_or_default c = sample_count_of c.
Proof. reflexivity. Qed.

Lemma pow2_S n : pow2 (S n) = 2 * pow2 n.
Proof. unfold pow2. rewrite Nat2N.inj_succ. rewrite N.pow_succ_r'. reflexivity. Qed.

Lemma pow2_pos n : 0 < pow2 n.
Proof. unfold pow2. apply N.neq_0_lt_0. apply N.pow_nonzero. lia. Qed.

(** Sizes of the rounds of a prefix do not depend on what comes later. *)
Lemma size_of_round_app c pre m i : (i <= length pre)%nat ->
  size_of_round c (pre ++ m) i = size_of_round c pre i.
Proof.
  intros H. unfold size_of_round. rewrite firstn_app.
  replace (i - length pre)%nat with O by lia. cbn [firstn]. rewrite app_nil_r. reflexivity.
Qed.

Lemma sizes_of_app c pre m k : (k <= length pre)%nat ->
  sizes_of c (pre ++ m) k = sizes_of c pre k.
Proof.
  intros H. unfold sizes_of. apply map_ext_in. intros i Hi. apply in_seq in Hi.
  apply size_of_round_app. lia.
Qed.

Lemma size_of_round_len c pre m : c_test c = false ->
  size_of_round c (pre ++ m) (length pre) = mode_size (mode_of c pre).
Proof.
  intros Ht. unfold size_of_round, mode_of. rewrite Ht.
  rewrite firstn_app. rewrite Nat.sub_diag. cbn [firstn]. rewrite app_nil_r. rewrite firstn_all.
  destruct (c_size c); [reflexivity|]. destruct (first_pass c pre); reflexivity.
Qed.

Lemma sizes_of_snoc c pre o : c_test c = false ->
  sizes_of c (pre ++ [o]) (length (pre ++ [o])) = sizes_of c pre (length pre) ++ [mode_size (mode_of c pre)].
Proof.
  intros Ht. rewrite app_length. cbn [length]. rewrite Nat.add_1_r.
  unfold sizes_of at 1. rewrite seq_S. rewrite map_app. cbn [map Nat.add].
  fold (sizes_of c (pre ++ [o]) (length pre)). rewrite sizes_of_app by lia.
  rewrite size_of_round_len by exact Ht. reflexivity.
Qed.

Lemma last_size_snoc c pre o : c_test c = false ->
  last_size c (pre ++ [o]) = mode_size (mode_of c pre).
Proof.
  intros Ht. unfold last_size. rewrite app_length. cbn [length]. rewrite Nat.add_1_r.
  apply size_of_round_len. exact Ht.
Qed.

(** Saturating accumulation is the capped sum. *)
Lemma sat_add_min x p : sat_add 128 (N.min x u128_max) p = N.min (x + p) u128_max.
Proof. unfold sat_add, u128_max. lia. Qed.

Lemma elapsed_of_snoc_skip c init pre o : c_skip c = true ->
  elapsed_of c init (pre ++ [o]) = sat_add 128 (elapsed_of c init pre) (N.max (slowest_of c o) 1000).
Proof.
  intros Hs. unfold elapsed_of. rewrite Hs. rewrite map_app. rewrite sum_n_app. cbn [map].
  rewrite sat_add_min. f_equal. cbn [sum_n fold_right]. lia.
Qed.

Lemma elapsed_of_snoc_noskip c init pre o : c_skip c = false ->
  elapsed_of c init (pre ++ [o]) = dur_ps (c_freq c) (latest_end o) init.
Proof. intros Hs. unfold elapsed_of. rewrite Hs. rewrite rev_app_distr. reflexivity. Qed.

(** * The loop condition is the documented rule *)

Lemma loop_cond_spec c init pre :
  c_test c = false -> sample_count_of c <> 0 ->
  loop_cond c (spec_state c init pre) = continue_of c init pre.
Proof.
  intros Ht Hn. unfold loop_cond, continue_of, spec_state; cbn [s_elapsed s_rem].
  unfold max_reached, below_min, max_time_cmp_is_ge, min_time_cmp_is_lt.
  set (e := elapsed_of c init pre).
  assert (Hrem : (0 <? match rem_of c pre with Some r => r | None => 1 end) = (counted_of c pre <? sample_count_of c)).
  { unfold rem_of. destruct (c_size c) as [s|] eqn:Es.
    - apply eq_true_iff_eq. rewrite !N.ltb_lt. lia.
    - destruct (first_pass c pre) as [j0|] eqn:Ef.
      + apply eq_true_iff_eq. rewrite !N.ltb_lt. lia.
      + unfold counted_of. rewrite (tuned_bench c Ht), Es, Ef.
        apply eq_true_iff_eq. rewrite !N.ltb_lt. lia. }
  rewrite Hrem.
  destruct (c_max c <=? e) eqn:E1; destruct (e <? c_max c) eqn:E2; try lia; cbn [andb]; try reflexivity;
    destruct (counted_of c pre <? sample_count_of c); reflexivity.
Qed.

(** * One round *)

Lemma prec_used_tuned c : c_test c = false -> c_size c = None -> prec_used c = c_prec c.
Proof. intros Ht Hs. unfold prec_used, initial_mode. rewrite Ht, Hs. reflexivity. Qed.

Lemma kept_of_explicit c pre s : c_test c = false -> c_size c = Some s -> kept_of c pre = pre.
Proof. intros Ht Hs. unfold kept_of. rewrite (tuned_bench c Ht), Hs. reflexivity. Qed.

Lemma counted_of_explicit c pre s : c_test c = false -> c_size c = Some s -> counted_of c pre = total_len pre.
Proof. intros Ht Hs. unfold counted_of. rewrite (tuned_bench c Ht), Hs. reflexivity. Qed.

Lemma store_of_snoc_explicit c pre o s : c_test c = false -> c_size c = Some s ->
  store_of c (pre ++ [o]) = fold_left (record_one c s) (with_dur c o) (store_of c pre).
Proof.
  intros Ht Hs. unfold store_of, kept_size. rewrite Hs.
  rewrite !(kept_of_explicit c _ s Ht Hs).
  rewrite concat_app. cbn [concat]. rewrite app_nil_r. rewrite with_dur_app. apply fold_left_app.
Qed.

Lemma kept_of_passed c pre j0 : c_test c = false -> c_size c = None -> first_pass c pre = Some j0 ->
  kept_of c pre = skipn j0 pre.
Proof. intros Ht Hs Hf. unfold kept_of. rewrite (tuned_bench c Ht), Hs, Hf. reflexivity. Qed.

Lemma counted_of_passed c pre j0 : c_test c = false -> c_size c = None -> first_pass c pre = Some j0 ->
  counted_of c pre = total_len (skipn j0 pre).
Proof. intros Ht Hs Hf. unfold counted_of. rewrite (tuned_bench c Ht), Hs, Hf. reflexivity. Qed.

Lemma store_of_snoc_passed c pre o j0 : c_test c = false -> c_size c = None -> first_pass c pre = Some j0 ->
  store_of c (pre ++ [o]) = fold_left (record_one c (pow2 j0)) (with_dur c o) (store_of c pre).
Proof.
  intros Ht Hs Hf. pose proof (first_pass_lt c pre j0 Hf) as Hlt.
  assert (Hf2 : first_pass c (pre ++ [o]) = Some j0) by (apply first_pass_app_some; exact Hf).
  unfold store_of, kept_size. rewrite Hs, Hf, Hf2.
  rewrite (kept_of_passed c _ j0 Ht Hs Hf), (kept_of_passed c _ j0 Ht Hs Hf2).
  rewrite skipn_snoc by lia.
  rewrite concat_app. cbn [concat]. rewrite app_nil_r. rewrite with_dur_app. apply fold_left_app.
Qed.

(** While still tuning, or at the round that passes: only the new round is kept. *)
Lemma store_of_snoc_tuning c pre o : c_test c = false -> c_size c = None -> first_pass c pre = None ->
  store_of c (pre ++ [o]) = fold_left (record_one c (pow2 (length pre))) (with_dur c o) store_empty.
Proof.
  intros Ht Hs Hf. unfold store_of, kept_size, kept_of. rewrite (tuned_bench c Ht), Hs.
  rewrite first_pass_snoc, Hf.
  destruct (passes c o).
  - rewrite skipn_len_snoc. cbn [concat]. rewrite app_nil_r. reflexivity.
  - rewrite rev_app_distr. cbn [rev app concat]. rewrite app_nil_r.
    rewrite app_length. cbn [length]. replace (length pre + 1 - 1)%nat with (length pre) by lia. reflexivity.
Qed.

Lemma tune_branch_collect c st slow k : s_mode st = MCollect k -> tune_branch c st slow = Ok st.
Proof. intros H. unfold tune_branch. rewrite H. reflexivity. Qed.

Lemma tune_branch_tune c st slow k st1 : s_mode st = MTune k ->
  tune_branch c st slow = Ok st1 ->
  prec_used c <> 0 /\
  ((slow / prec_used c <= 100 /\ k * 2 < 2 ^ 32 /\
    st1 = {| s_mode := MTune (k * 2); s_rem := s_rem st; s_elapsed := s_elapsed st;
             s_size := s_size st; s_store := store_empty; s_sizes := s_sizes st |}) \/
   (100 < slow / prec_used c /\
    st1 = {| s_mode := MCollect k; s_rem := Some (count_or_default c); s_elapsed := s_elapsed st;
             s_size := s_size st; s_store := store_empty; s_sizes := s_sizes st |})).
Proof.
  intros Hm. unfold tune_branch. rewrite Hm. unfold checked_div.
  destruct (prec_used c =? 0) eqn:Ep; cbn [bind]; [discriminate|].
  split; [lia|]. unfold tune_threshold, tune_factor in *.
  destruct (slow / prec_used c <=? 100) eqn:El.
  - unfold checked_mul in H. destruct (k * 2 <? 2 ^ 32) eqn:Eo; cbn [bind] in H; [|discriminate].
    left. inversion H. repeat split; lia.
  - right. inversion H. split; [lia|reflexivity].
Qed.

Lemma round_step_spec c init pre obs st' :
  c_test c = false ->
  round_step c init (spec_state c init pre) obs = Ok st' ->
  st' = spec_state c init (pre ++ [obs]).
Proof.
  intros Ht H. unfold round_step in H.
  destruct obs as [|r0 obs0] eqn:Eo; [discriminate|]. rewrite <- Eo in *. clear Eo r0 obs0.
  unfold round_body in H.
  destruct (map_res (raw_duration c) obs) as [durs|p] eqn:Ed; cbn [bind] in H; [|discriminate].
  apply map_res_raw in Ed. subst durs. rewrite slowest_of_eq in H. rewrite combine_map in H.
  fold (with_dur c obs) in H.
  set (size := mode_size (s_mode (spec_state c init pre))) in *.
  assert (Hsize : size = mode_size (mode_of c pre)) by reflexivity.
  (* the elapsed time after the round, whatever the branch *)
  assert (Hel : forall el st1,
     s_elapsed st1 = elapsed_of c init pre ->
     (if c_skip c then Ok (sat_add 128 (s_elapsed st1) (N.max (slowest_of c obs) min_progress_picos))
      else tsc_duration (nmax_list (map r_end obs)) init (c_freq c)) = Ok el ->
     el = elapsed_of c init (pre ++ [obs])).
  { intros el st1 He Hx. destruct (c_skip c) eqn:Es.
    - injection Hx as Hx. subst el. rewrite He. symmetry. exact (elapsed_of_snoc_skip c init pre obs Es).
    - apply tsc_duration_ok in Hx. rewrite Hx. symmetry. exact (elapsed_of_snoc_noskip c init pre obs Es). }
  destruct (c_size c) as [s|] eqn:Es.
  - (* explicit size: plain collecting *)
    assert (Hm : mode_of c pre = MCollect s) by (unfold mode_of; rewrite Es; reflexivity).
    rewrite (tune_branch_collect c _ _ s) in H by (cbn [with_round s_mode spec_state]; exact Hm).
    cbn [bind] in H.
    destruct (qany (c_input_counts c) && (size =? 0)); [discriminate|].
    cbn [with_round spec_state s_store s_rem s_mode s_elapsed s_size s_sizes] in H.
    rewrite record_fold in H.
    match type of H with (do el <- ?X; _) = _ => destruct X as [el|p] eqn:Ee end; cbn [bind] in H; [|discriminate].
    apply (Hel el (spec_state c init pre) eq_refl) in Ee.
    injection H as H; subst st'. unfold spec_state. f_equal.
    + unfold mode_of. rewrite Es. reflexivity.
    + unfold rem_of. rewrite Es. cbn [option_map]. f_equal.
      rewrite !(counted_of_explicit c _ s Ht Es). rewrite total_len_app, total_len_one.
      rewrite length_with_dur. lia.
    + exact Ee.
    + rewrite (last_size_snoc c pre obs Ht). exact Hsize.
    + rewrite (store_of_snoc_explicit c pre obs s Ht Es). rewrite Hsize, Hm. reflexivity.
    + rewrite (sizes_of_snoc c pre obs Ht). rewrite Hsize. reflexivity.
  - destruct (first_pass c pre) as [j0|] eqn:Ef.
    + (* tuned, threshold already passed: plain collecting *)
      assert (Hm : mode_of c pre = MCollect (pow2 j0)) by (unfold mode_of; rewrite Es, Ef; reflexivity).
      rewrite (tune_branch_collect c _ _ (pow2 j0)) in H by (cbn [with_round s_mode spec_state]; exact Hm).
      cbn [bind] in H.
      destruct (qany (c_input_counts c) && (size =? 0)); [discriminate|].
      cbn [with_round spec_state s_store s_rem s_mode s_elapsed s_size s_sizes] in H.
      rewrite record_fold in H.
      match type of H with (do el <- ?X; _) = _ => destruct X as [el|p] eqn:Ee end; cbn [bind] in H; [|discriminate].
      apply (Hel el (spec_state c init pre) eq_refl) in Ee.
      pose proof (first_pass_lt c pre j0 Ef) as Hlt.
      assert (Hf2 : first_pass c (pre ++ [obs]) = Some j0) by (apply first_pass_app_some; exact Ef).
      injection H as H; subst st'. unfold spec_state. f_equal.
      * unfold mode_of. rewrite Es, Hf2, Ef. reflexivity.
      * unfold rem_of. rewrite Es, Hf2, Ef. cbn [option_map]. f_equal.
        rewrite (counted_of_passed c _ j0 Ht Es Ef), (counted_of_passed c _ j0 Ht Es Hf2).
        rewrite skipn_snoc by lia. rewrite total_len_app, total_len_one. rewrite length_with_dur. lia.
      * exact Ee.
      * rewrite (last_size_snoc c pre obs Ht). exact Hsize.
      * rewrite (store_of_snoc_passed c pre obs j0 Ht Es Ef). rewrite Hsize, Hm. reflexivity.
      * rewrite (sizes_of_snoc c pre obs Ht). rewrite Hsize. reflexivity.
    + (* tuning *)
      assert (Hm : mode_of c pre = MTune (pow2 (length pre))) by (unfold mode_of; rewrite Es, Ef; reflexivity).
      destruct (tune_branch c (with_round (spec_state c init pre) size) (slowest_of c obs)) as [st1|p] eqn:Etb;
        cbn [bind] in H; [|discriminate].
      apply (tune_branch_tune c _ _ (pow2 (length pre))) in Etb; [|cbn [with_round s_mode spec_state]; exact Hm].
      rewrite (prec_used_tuned c Ht Es) in Etb. destruct Etb as [Hp0 Hcases].
      destruct (qany (c_input_counts c) && (size =? 0)); [discriminate|].
      assert (Hsz : size = pow2 (length pre)) by (rewrite Hsize, Hm; reflexivity).
      destruct Hcases as [[Hle [Hov Hst1]]|[Hgt Hst1]]; subst st1;
        cbn [with_round spec_state s_store s_rem s_mode s_elapsed s_size s_sizes] in H;
        rewrite record_fold in H;
        (match type of H with (do el <- ?X; _) = _ => destruct X as [el|p] eqn:Ee end; cbn [bind] in H; [|discriminate]);
        match type of Ee with (if _ then Ok (sat_add 128 ?E _) else _) = _ =>
          apply (Hel el {| s_mode := MTest; s_rem := None; s_elapsed := E; s_size := 0; s_store := store_empty; s_sizes := [] |} eq_refl) in Ee end.
      * (* below the threshold: double *)
        assert (Hnp : passes c obs = false) by (unfold passes; apply N.ltb_ge; exact Hle).
        assert (Hf2 : first_pass c (pre ++ [obs]) = None) by (rewrite first_pass_snoc, Ef, Hnp; reflexivity).
        injection H as H; subst st'. unfold spec_state. f_equal.
        -- unfold mode_of. rewrite Es, Hf2. rewrite app_length. cbn [length]. rewrite Nat.add_1_r, pow2_S. f_equal. lia.
        -- unfold rem_of. rewrite Es, Hf2, Ef. reflexivity.
        -- exact Ee.
        -- rewrite (last_size_snoc c pre obs Ht). exact Hsize.
        -- rewrite (store_of_snoc_tuning c pre obs Ht Es Ef). rewrite Hsz. reflexivity.
        -- rewrite (sizes_of_snoc c pre obs Ht). rewrite Hsize. reflexivity.
      * (* the threshold is passed: settle, this round counts *)
        assert (Hpp : passes c obs = true) by (unfold passes; apply N.ltb_lt; exact Hgt).
        assert (Hf2 : first_pass c (pre ++ [obs]) = Some (length pre)) by (rewrite first_pass_snoc, Ef, Hpp; reflexivity).
        injection H as H; subst st'. unfold spec_state. f_equal.
        -- unfold mode_of. rewrite Es, Hf2. reflexivity.
        -- unfold rem_of. rewrite Es, Hf2. cbn [option_map]. f_equal.
           rewrite (counted_of_passed c _ _ Ht Es Hf2). rewrite skipn_len_snoc, total_len_one.
           rewrite length_with_dur. rewrite count_default. reflexivity.
        -- exact Ee.
        -- rewrite (last_size_snoc c pre obs Ht). exact Hsize.
        -- rewrite (store_of_snoc_tuning c pre obs Ht Es Ef). rewrite Hsz. reflexivity.
        -- rewrite (sizes_of_snoc c pre obs Ht). rewrite Hsize. reflexivity.
Qed.

(** * The whole loop (bench mode) *)

Lemma run_spec c init : c_test c = false -> sample_count_of c <> 0 -> forall rest pre out,
  run c init (spec_state c init pre) rest = Ok out ->
  exists k, (k <= length rest)%nat /\
    out_state out = spec_state c init (pre ++ firstn k rest) /\
    (forall j, (j < k)%nat -> continue_of c init (pre ++ firstn j rest) = true) /\
    (if out_done out then continue_of c init (pre ++ firstn k rest) = false
     else k = length rest /\ continue_of c init (pre ++ firstn k rest) = true).
Proof.
  intros Ht Hn. induction rest as [|obs rest IH]; intros pre out H; cbn [run] in H;
    rewrite (loop_cond_spec c init pre Ht Hn) in H;
    destruct (continue_of c init pre) eqn:Ec.
  - injection H as H; subst out. exists O. cbn [firstn out_state out_done length]. rewrite app_nil_r.
    repeat split; [lia| intros j Hj; lia | exact Ec].
  - injection H as H; subst out. exists O. cbn [firstn out_state out_done length]. rewrite app_nil_r.
    repeat split; [lia| intros j Hj; lia | exact Ec].
  - rewrite Ht in H.
    destruct (round_step c init (spec_state c init pre) obs) as [st'|p] eqn:Er; cbn [bind] in H; [|discriminate].
    apply (round_step_spec c init pre obs st' Ht) in Er. subst st'.
    destruct (IH (pre ++ [obs]) out H) as [k [Hk [Hst [Hlt Hend]]]].
    exists (S k). cbn [firstn length].
    assert (Happ : forall m, (pre ++ [obs]) ++ m = pre ++ obs :: m) by (intros m; rewrite <- app_assoc; reflexivity).
    rewrite Happ in Hst, Hend.
    split; [lia|]. split; [exact Hst|]. split.
    + intros j Hj. destruct j as [|j]; cbn [firstn].
      * rewrite app_nil_r. exact Ec.
      * rewrite <- Happ. apply Hlt. lia.
    + destruct (out_done out); [exact Hend|]. destruct Hend as [Hk2 Hc]. split; [lia|exact Hc].
  - injection H as H; subst out. exists O. cbn [firstn out_state out_done]. rewrite app_nil_r.
    repeat split; [lia| intros j Hj; lia | exact Ec].
Qed.

Lemma has_samples_count c : has_samples c = true -> sample_count_of c <> 0.
Proof.
  unfold has_samples, sample_count_of, opt_is. destruct (c_count c) as [n|]; [|lia].
  destruct (n =? 0) eqn:E; cbn [negb andb]; [discriminate|]. intros _. lia.
Qed.

Lemma spec_state_nil c init : c_test c = false -> init_state c = spec_state c init [].
Proof.
  intros Ht. unfold init_state, spec_state, initial_mode, mode_of, rem_of, last_size, store_of, sizes_of.
  rewrite Ht. cbn [length seq map first_pass].
  unfold elapsed_of, counted_of. rewrite (tuned_bench c Ht).
  destruct (c_size c) as [s|] eqn:Es; cbn [is_collect first_pass total_len fold_right rev map sum_n kept_of concat with_dur fold_left].
  - f_equal.
    + rewrite count_default. f_equal. lia.
    + destruct (c_skip c); reflexivity.
    + unfold kept_of. rewrite (tuned_bench c Ht), Es. reflexivity.
  - f_equal.
    + destruct (c_skip c); reflexivity.
    + unfold kept_of. rewrite (tuned_bench c Ht), Es. reflexivity.
Qed.

(** The rounds of a run, its final state and why it ended, for every history. *)
Theorem bench_loop_spec c init hist out :
  c_test c = false -> zero_case c = false ->
  bench_loop c init hist = Ok out ->
  exists k, (k <= length hist)%nat /\
    out_state out = spec_state c init (firstn k hist) /\
    (forall j, (j < k)%nat -> continue_after c init hist j = true) /\
    (if out_done out then continue_after c init hist k = false
     else k = length hist /\ continue_after c init hist k = true).
Proof.
  intros Ht Hz H. unfold bench_loop in H. unfold zero_case in Hz. rewrite Hz in H.
  assert (Hn : sample_count_of c <> 0).
  { apply has_samples_count. destruct (has_samples c); [reflexivity|].
    rewrite Bool.orb_true_r in Hz. discriminate. }
  rewrite (spec_state_nil c init Ht) in H.
  destruct (run_spec c init Ht Hn hist [] out H) as [k [Hk [Hst [Hlt Hend]]]].
  exists k. cbn [app] in *. unfold continue_after. repeat split; assumption.
Qed.

Lemma rounds_spec_state c init pre : rounds_of (spec_state c init pre) = length pre.
Proof. unfold rounds_of, spec_state, sizes_of; cbn [s_sizes]. rewrite map_length, seq_length. reflexivity. Qed.
