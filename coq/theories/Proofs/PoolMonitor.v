(** Proofs about the pool model, part 9: the trace monitor [PoolMon.check]
    (the boolean specification evaluated on implementation traces) accepts the
    model's own executions: no violation clause on any prefix of any execution,
    and "complete" at the final state. *)

From DivanV Require Import Base.Res Generated.Consts Model.Pool Proofs.Pool Proofs.PoolLive Proofs.PoolCalls Proofs.PoolSlots.
From Coq Require Import Arith Lia List Bool.
Import ListNotations.
Import PoolM PoolMon.

Arguments Nat.sub : simpl never.
Arguments Nat.mul : simpl never.
Arguments Nat.eqb : simpl never.
Arguments Nat.leb : simpl never.
Arguments Nat.ltb : simpl never.
Arguments Nat.max : simpl never.

Definition lift (d : call) : nat * nat * nat := (fst d, snd d, snd d).

(** Does label [l], taken in state [s], make the panic choice that [pan] prescribes? *)
Definition follows (pan : list (nat * nat)) (s : state) (l : label) : Prop :=
  match l with
  | ERun0 p => p = pan_mem (cur s) 0 pan
  | EWRun k p => forall b, getw s k = Some (WRun b) -> p = pan_mem b k pan
  | _ => True
  end.

Record Sim (pan : list (nat * nat)) (s : state) (m : mon) : Prop := {
  M_b : m_b m = cur s;
  M_open : m_open m = in_broadcast (cst s);
  M_n : in_broadcast (cst s) = true -> m_n m = bcast_n (cst s);
  M_rc : m_rc m = rc s;
  M_zero : m_zero m = true -> rc s = 0;
  M_serv : forall j w, nth_error (ws s) j = Some w -> any_pre w = true -> serving (m_serv m) (S j) = cur s;
  M_calls : m_calls m = map lift (rev (calls s));
  M_spawned : m_spawned m = length (ws s);
  M_sp0 : in_broadcast (cst s) = true -> length (ws s) = Nat.max (m_spawned0 m) (bcast_n (cst s));
  M_exited : forall j w, nth_error (ws s) j = Some w -> w = WExit -> In (S j) (m_exited m);
  M_dropped : m_dropped m = true <-> cst s = CDone;
  M_rets : m_rets m = length (returned s);
  M_fail : m_fail m = [];
  M_p1 : forall d, In d (panics s) -> pan_mem (fst d) (snd d) pan = true;
  M_p2 : forall d, In d (calls s) -> pan_mem (fst d) (snd d) pan = true -> In d (panics s)
}.

Lemma sim_init pan scr : Sim pan (init scr) mon0.
Proof.
  constructor; cbn; auto.
  all: try discriminate.
  all: try (intros j w H; destruct j; discriminate).
  all: try (split; discriminate).
  all: try (intros d []).
Qed.

Lemma set_nth_cases {A} (Q : A -> Prop) (P : nat -> Prop) (l : list A) j0 w' :
  j0 < length l ->
  (forall j w, nth_error l j = Some w -> Q w -> P j) -> (Q w' -> P j0) ->
  forall j w, nth_error (set_nth j0 w' l) j = Some w -> Q w -> P j.
Proof.
  intros Lt H H0 j w E Qw. destruct (Nat.eq_dec j0 j) as [<-|N].
  - rewrite nth_error_set_nth_eq in E by auto. inversion E; subst. auto.
  - rewrite nth_error_set_nth_neq in E by auto. eauto.
Qed.

Lemma dropped_false pan s m : Sim pan s m -> cst s <> CDone -> m_dropped m = false.
Proof.
  intros M N. destruct (m_dropped m) eqn:E; auto. exfalso. apply N. now apply (M_dropped _ _ _ M).
Qed.

Lemma touch_id m t :
  m_open m = true -> serving (m_serv m) t = m_b m -> m_zero m = false -> touch m t = m.
Proof. intros H1 H2 H3. unfold touch. now rewrite H1, H2, Nat.eqb_refl, H3. Qed.

Lemma zero_false pan s m : Sim pan s m -> 1 <= rc s -> m_zero m = false.
Proof.
  intros M H. destruct (m_zero m) eqn:E; auto. apply (M_zero _ _ _ M) in E. lia.
Qed.

(** Folding the spawn events. *)
Definition with_spawned (m : mon) (k : nat) : mon :=
  {| m_b := m_b m; m_n := m_n m; m_open := m_open m; m_rc := m_rc m; m_zero := m_zero m; m_serv := m_serv m;
     m_calls := m_calls m; m_spawned := k; m_spawned0 := m_spawned0 m; m_exited := m_exited m;
     m_dropped := m_dropped m; m_rets := m_rets m; m_fail := m_fail m |}.

Lemma spawn_fold pan extra : forall m,
  fold_left (mstep pan) (map VSpawn (seq (S (m_spawned m)) extra)) m = with_spawned m (m_spawned m + extra).
Proof.
  induction extra as [|e IH]; intros m.
  - cbn. destruct m; unfold with_spawned; cbn. f_equal. lia.
  - cbn [seq map fold_left]. rewrite <- seq_shift.
    set (m1 := mstep pan m (VSpawn (S (m_spawned m)))).
    assert (E1 : m1 = with_spawned m (S (m_spawned m))).
    { unfold m1, mstep, with_spawned. now rewrite Nat.eqb_refl. }
    rewrite seq_shift. change (S (S (m_spawned m))) with (S (m_spawned (with_spawned m (S (m_spawned m))))).
    rewrite E1, IH. unfold with_spawned; cbn. f_equal. lia.
Qed.

(** Counting over the lifted, reversed call log. *)
Lemma filter_rev_length {A} (f : A -> bool) l : length (filter f (rev l)) = length (filter f l).
Proof.
  induction l as [|h t IH]; cbn; auto.
  rewrite filter_app, app_length, IH. cbn. destruct (f h); cbn; lia.
Qed.

Lemma count3_lift b i l : count3 b i (map lift (rev l)) = count_call (b, i) l.
Proof.
  unfold count3, count_call. rewrite <- (filter_rev_length (call_eqb (b, i)) l).
  induction (rev l) as [|h t IH]; cbn; auto.
  unfold call_eqb at 1. cbn. rewrite (Nat.eqb_sym b), (Nat.eqb_sym i).
  destruct (Nat.eqb (fst h) b && Nat.eqb (snd h) i); cbn; auto.
Qed.

Lemma filter_b_lift b l :
  length (filter (fun c => Nat.eqb (fst (fst c)) b) (map lift (rev l)))
  = length (filter (fun d : call => Nat.eqb (fst d) b) l).
Proof.
  rewrite <- (filter_rev_length (fun d : call => Nat.eqb (fst d) b) l).
  induction (rev l) as [|h t IH]; cbn; auto.
  destruct (Nat.eqb (fst h) b); cbn; auto.
Qed.

Lemma on_thread_lift b i l : on_thread b i (map lift l) = true.
Proof.
  unfold on_thread. apply forallb_forall. intros c Hc. apply in_map_iff in Hc. destruct Hc as (d & <- & _).
  cbn. destruct (Nat.eqb (fst d) b && Nat.eqb (snd d) i) eqn:E; auto.
  apply andb_prop in E. tauto.
Qed.

Lemma once_ok_intro pan s m n :
  Sim pan s m -> m_n m = n -> once_per_index s (cur s) n = true -> once_ok m = true.
Proof.
  intros M Hn H. unfold once_per_index in H. apply andb_prop in H. destruct H as [H1 H2].
  unfold once_ok. rewrite (M_b _ _ _ M), Hn, (M_calls _ _ _ M). apply andb_true_intro. split.
  - apply forallb_forall. intros i Hi. rewrite forallb_forall in H1. specialize (H1 _ Hi).
    rewrite count3_lift, H1. cbn. apply on_thread_lift.
  - now rewrite filter_b_lift.
Qed.

Ltac open_sim M m :=
  destruct m as [mb mn mopen mrc mzero mserv mcalls msp msp0 mex mdrop mrets mfail];
  destruct M as [Mb Mopen Mn Mrc Mzero Mserv Mcalls Msp Msp0 Mex Mdrop Mrets Mfail Mp1 Mp2];
  cbn in Mb, Mopen, Mn, Mrc, Mzero, Mserv, Mcalls, Msp, Msp0, Mex, Mdrop, Mrets, Mfail;
  subst mb mopen mrc mcalls msp mrets mfail.

Lemma sim_begin c pan s m n rest :
  Inv s -> Sim pan s m -> cst s = CIdle ->
  Sim pan (st_begin s n rest) (fold_left (mstep pan) (events_of c s (EBegin n)) m).
Proof.
  intros I M Hc.
  assert (D : m_dropped m = false) by (eapply dropped_false; eauto; rewrite Hc; discriminate).
  assert (NP : Forall (fun w => any_pre w = false) (ws s)) by (apply no_pre_idle; auto; now rewrite Hc).
  assert (NE : Forall (fun w => w <> WExit) (ws s)) by (apply (I_exit s I); rewrite Hc; discriminate).
  cbn [events_of fold_left].
  set (m2 := mstep pan (mstep pan m (VBcast n)) (VNew n)).
  assert (Sp : m_spawned m2 = length (ws s)) by (unfold m2; cbn; apply M).
  rewrite <- Sp, spawn_fold. rewrite Sp. unfold m2. clear Sp m2.
  open_sim M m. cbn in D. subst mdrop. rewrite Hc in *. cbn.
  assert (B' : in_broadcast (if Nat.eqb n 0 then CRun 0 else CSend 1 n) = true) by now destruct (Nat.eqb n 0).
  assert (N' : bcast_n (if Nat.eqb n 0 then CRun 0 else CSend 1 n) = n).
  { destruct (Nat.eqb n 0) eqn:E; cbn; auto. apply Nat.eqb_eq in E. auto. }
  constructor; cbn; rewrite ?B', ?N'; auto.
  - discriminate.
  - intros j w E P. exfalso.
    assert (F : Forall (fun w => any_pre w = false) (ws s ++ repeat WIdle (n - length (ws s)))).
    { apply Forall_app; split; auto. now apply Forall_repeat. }
    pose proof (Forall_nth_error _ _ _ _ F E) as X. cbn in X. congruence.
  - rewrite app_length, repeat_length. reflexivity.
  - intros _. rewrite app_length, repeat_length. lia.
  - intros j w E ->. exfalso.
    assert (F : Forall (fun w => w <> WExit) (ws s ++ repeat WIdle (n - length (ws s)))).
    { apply Forall_app; split; auto. apply Forall_repeat. discriminate. }
    now apply (Forall_nth_error _ _ _ _ F E).
  - split; [discriminate|]. destruct (Nat.eqb n 0); discriminate.
Qed.

Lemma pre_facts s j w :
  Inv s -> nth_error (ws s) j = Some w -> any_pre w = true ->
  1 <= rc s /\ in_broadcast (cst s) = true /\ pre_dec (cur s) w = true.
Proof.
  intros I Hj P.
  pose proof (Forall_nth_error _ _ _ _ (I_wf s I) Hj) as Wf.
  destruct (wf_pre _ _ _ Wf P) as [Pd Al].
  assert (P1 : 1 <= count_pre s) by (unfold count_pre; eapply count_pos; eauto).
  pose proof (I_rc s I) as R. unfold rc_ok in R.
  rewrite (I_alive s I) in Al. repeat split; auto. destruct (cst s); lia.
Qed.

Lemma not_done_iff (a : bool) (c1 c2 : cstate) :
  (a = true <-> c1 = CDone) -> c1 <> CDone -> c2 <> CDone -> (a = true <-> c2 = CDone).
Proof. intros H N1 N2. split; intro X; [apply H in X|]; contradiction. Qed.

Lemma sim_send c pan s m j n :
  Inv s -> Sim pan s m -> cst s = CSend (S j) n -> nth_error (ws s) j = Some WIdle ->
  Sim pan (st_send s (S j) n) (fold_left (mstep pan) (events_of c s (ESend (S j))) m).
Proof.
  intros I M Hc Hj.
  assert (Lt : j < length (ws s)) by (eapply nth_error_lt; eauto).
  open_sim M m. rewrite Hc in *. cbn.
  assert (B' : in_broadcast (if Nat.eqb (S j) n then CRun n else CSend (S (S j)) n) = true) by now destruct (Nat.eqb (S j) n).
  assert (N' : bcast_n (if Nat.eqb (S j) n then CRun n else CSend (S (S j)) n) = n) by now destruct (Nat.eqb (S j) n).
  constructor; cbn; rewrite ?B', ?N'; auto.
  - apply (set_nth_cases (fun w => any_pre w = true) (fun j' => (if Nat.eqb (S j') (S j) then cur s else serving mserv (S j')) = cur s)); auto.
    + intros j' w E P. destruct (Nat.eqb (S j') (S j)); auto. eapply Mserv; eauto.
    + intros _. now rewrite Nat.eqb_refl.
  - now rewrite set_nth_length.
  - now rewrite set_nth_length.
  - apply (set_nth_cases (fun w => w = WExit) (fun j' => In (S j') mex)); auto. discriminate.
  - eapply not_done_iff; eauto; [discriminate|destruct (Nat.eqb (S j) n); discriminate].
Qed.

Lemma sim_log pan s m s' t x (p : bool) :
  Sim pan s m -> in_broadcast (cst s) = true ->
  p = pan_mem (cur s) x pan ->
  calls s' = calls s ++ [(cur s, x)] -> panics s' = (if p then panics s ++ [(cur s, x)] else panics s) ->
  cur s' = cur s -> rc s' = rc s -> returned s' = returned s ->
  in_broadcast (cst s') = true -> bcast_n (cst s') = bcast_n (cst s) -> cst s' <> CDone ->
  length (ws s') = length (ws s) ->
  (forall j w, nth_error (ws s') j = Some w -> any_pre w = true -> serving (m_serv m) (S j) = cur s) ->
  (forall j w, nth_error (ws s') j = Some w -> w = WExit -> In (S j) (m_exited m)) ->
  t = x ->
  Sim pan s' {| m_b := m_b m; m_n := m_n m; m_open := m_open m; m_rc := m_rc m; m_zero := m_zero m; m_serv := m_serv m;
               m_calls := (m_b m, x, t) :: m_calls m; m_spawned := m_spawned m; m_spawned0 := m_spawned0 m;
               m_exited := m_exited m; m_dropped := m_dropped m; m_rets := m_rets m; m_fail := m_fail m |}.
Proof.
  intros M B Hp Hca Hpa Hu Hr Hre B' N' ND Hl Hs He ->.
  assert (D : m_dropped m = false).
  { eapply dropped_false; eauto. intro X. rewrite X in B. discriminate. }
  open_sim M m. cbn in *. subst mdrop.
  constructor; cbn.
  - now rewrite Hu.
  - now rewrite B, B'.
  - intros _. rewrite N'. now apply Mn.
  - now rewrite Hr.
  - now rewrite Hr.
  - rewrite Hu. exact Hs.
  - rewrite Hca, rev_unit. reflexivity.
  - now rewrite Hl.
  - intros _. rewrite Hl, N'. now apply Msp0.
  - exact He.
  - split; [discriminate|contradiction].
  - now rewrite Hre.
  - reflexivity.
  - rewrite Hpa. intros d Hd. destruct p; [apply in_snoc in Hd; destruct Hd as [Hd| ->]|]; auto.
  - rewrite Hca, Hpa. intros d Hd Pm. apply in_snoc in Hd. destruct Hd as [Hd| ->].
    + specialize (Mp2 _ Hd Pm). destruct p; auto. apply in_snoc. auto.
    + cbn in Pm. rewrite Pm in Hp. subst p. apply in_snoc. auto.
Qed.

Lemma sim_run0 c pan s m n p :
  Inv s -> Sim pan s m -> cst s = CRun n -> follows pan s (ERun0 p) ->
  Sim pan (st_run0 s n p) (fold_left (mstep pan) (events_of c s (ERun0 p)) m).
Proof.
  intros I M Hc F. cbn in F. cbn [events_of fold_left mstep].
  change (Nat.eqb 0 0) with true. cbn iota.
  eapply (sim_log pan s m (st_run0 s n p) 0 0 p); eauto; cbn; auto; try (now rewrite Hc); try discriminate.
  - intros j w E P. eapply (M_serv _ _ _ M); eauto.
  - intros j w E X. eapply (M_exited _ _ _ M); eauto.
Qed.

(** The caller moves inside the broadcast, the monitor does not. *)
Lemma sim_caller pan s s' m :
  Sim pan s m -> ws s' = ws s -> rc s' = rc s -> cur s' = cur s -> calls s' = calls s -> panics s' = panics s ->
  returned s' = returned s ->
  in_broadcast (cst s') = in_broadcast (cst s) -> bcast_n (cst s') = bcast_n (cst s) ->
  cst s <> CDone -> cst s' <> CDone ->
  Sim pan s' m.
Proof.
  intros M Hw Hr Hu Hca Hpa Hre B N D D'.
  constructor.
  - rewrite Hu. apply M.
  - rewrite B. apply M.
  - rewrite B, N. apply M.
  - rewrite Hr. apply M.
  - rewrite Hr. apply M.
  - rewrite Hw, Hu. apply M.
  - rewrite Hca. apply M.
  - rewrite Hw. apply M.
  - rewrite Hw, B, N. apply M.
  - rewrite Hw. apply M.
  - apply (not_done_iff _ (cst s) (cst s')); auto. apply M.
  - rewrite Hre. apply M.
  - apply M.
  - rewrite Hpa. apply M.
  - rewrite Hca, Hpa. apply M.
Qed.

Lemma results_at_return pan scr s m n :
  Inv s -> Inv2 scr s -> InvS s -> Sim pan s m -> cst s = CLoad n -> rc s = 0 ->
  slots_eqb (slots s) (expected_results pan (cur s) n) = true.
Proof.
  intros I J SS M Hc Hr.
  assert (B : in_broadcast (cst s) = true) by now rewrite Hc.
  rewrite (S_cur _ SS B), Hc. cbn [bcast_n].
  replace (expected_results pan (cur s) n) with (expected_slots s (cur s) n); [apply slots_eqb_refl|].
  unfold expected_slots, expected_results. apply map_ext_in. intros i Hi. apply in_seq in Hi.
  unfold expected_slot.
  assert (Cl : In (cur s, i) (calls s)) by (apply (all_called_at_return scr s n I J Hc Hr); lia).
  rewrite (proj2 (vmem_In _ _) Cl). cbn.
  destruct (pan_mem (cur s) i pan) eqn:P.
  - rewrite (proj2 (vmem_In _ _) (M_p2 _ _ _ M _ Cl P)). reflexivity.
  - destruct (vmem (cur s, i) (panics s)) eqn:V; auto.
    apply vmem_In in V. apply (M_p1 _ _ _ M) in V. cbn in V. congruence.
Qed.

Lemma sim_load c pan scr s m n :
  good c -> Inv s -> Inv2 scr s -> InvS s -> Sim pan s m -> cst s = CLoad n ->
  Sim pan (if leave c s then do_return s n (load_view c s) (token s) else st_topark s n (load_view c s))
      (fold_left (mstep pan) (events_of c s ELoad) m).
Proof.
  intros G I J SS M Hc. cbn [events_of]. rewrite leave_good by auto.
  destruct (Nat.eqb (rc s) 0) eqn:E.
  - apply Nat.eqb_eq in E.
    assert (B : in_broadcast (cst s) = true) by now rewrite Hc.
    assert (O : once_ok m = true).
    { apply (once_ok_intro pan s m n M).
      - rewrite (M_n _ _ _ M B), Hc. reflexivity.
      - apply once_per_index_intro; [apply J|]. eapply all_called_at_return; eauto. }
    assert (Rs : slots_eqb (slots s) (expected_results pan (m_b m) (m_n m)) = true).
    { rewrite (M_b _ _ _ M), (M_n _ _ _ M B), Hc. cbn [bcast_n]. eapply results_at_return; eauto. }
    assert (Sp : Nat.eqb (m_spawned m) (Nat.max (m_spawned0 m) (m_n m)) = true).
    { apply Nat.eqb_eq. rewrite (M_spawned _ _ _ M), (M_n _ _ _ M B). now apply (M_sp0 _ _ _ M). }
    assert (Z : Nat.eqb (m_rc m) 0 = true) by (apply Nat.eqb_eq; now rewrite (M_rc _ _ _ M)).
    cbn [fold_left mstep]. rewrite O, Rs, Sp, Z, (M_open _ _ _ M), B.
    open_sim M m. rewrite Hc in *. constructor; cbn.
    + reflexivity.
    + reflexivity.
    + discriminate.
    + reflexivity.
    + exact Mzero.
    + exact Mserv.
    + reflexivity.
    + reflexivity.
    + discriminate.
    + exact Mex.
    + apply (not_done_iff _ (CLoad n) CIdle); auto; discriminate.
    + rewrite app_length. cbn. lia.
    + reflexivity.
    + exact Mp1.
    + exact Mp2.
  - cbn [fold_left mstep]. eapply sim_caller; eauto; cbn; try (now rewrite Hc); try (rewrite Hc; discriminate); discriminate.
Qed.

Lemma sim_to_load pan s m n tok : Sim pan s m -> cst s = CPark n -> Sim pan (to_load s n tok) m.
Proof.
  intros M Hc. eapply sim_caller; eauto; cbn; try (now rewrite Hc); try (rewrite Hc; discriminate); discriminate.
Qed.

(** Worker [S j] touches the task block legitimately. *)
Lemma touch_worker pan s m j w :
  Inv s -> Sim pan s m -> nth_error (ws s) j = Some w -> any_pre w = true -> touch m (S j) = m.
Proof.
  intros I M Hj P. destruct (pre_facts s j w I Hj P) as (R & B & _).
  apply touch_id.
  - now rewrite (M_open _ _ _ M).
  - rewrite (M_b _ _ _ M). eapply (M_serv _ _ _ M); eauto.
  - eapply zero_false; eauto.
Qed.

Lemma sim_wrun c pan s m j b p :
  Inv s -> Sim pan s m -> nth_error (ws s) j = Some (WRun b) -> follows pan s (EWRun (S j) p) ->
  Sim pan (st_wrun s (S j) b p) (fold_left (mstep pan) (events_of c s (EWRun (S j) p)) m).
Proof.
  intros I M Hj F. cbn in F. specialize (F b Hj).
  pose proof (Forall_nth_error _ _ _ _ (I_wf s I) Hj) as Wf. cbn in Wf. destruct Wf as [-> Al].
  destruct (pre_facts s j _ I Hj eq_refl) as (R & B & _).
  assert (Lt : j < length (ws s)) by (eapply nth_error_lt; eauto).
  cbn [events_of fold_left mstep].
  replace (Nat.eqb (S j) 0) with false by (symmetry; apply Nat.eqb_neq; lia). cbn iota.
  rewrite (touch_worker pan s m j _ I M Hj eq_refl).
  rewrite (M_serv _ _ _ M j _ Hj eq_refl).
  replace (cur s, S j, S j) with (m_b m, S j, S j) by (now rewrite (M_b _ _ _ M)).
  eapply (sim_log pan s m (st_wrun s (S j) (cur s) p) (S j) (S j) p); eauto; cbn; auto.
  - intro X. rewrite X in B. discriminate.
  - apply set_nth_length.
  - apply (set_nth_cases (fun w => any_pre w = true) (fun j' => serving (m_serv m) (S j') = cur s)); auto.
    + apply (M_serv _ _ _ M).
    + intros _. eapply (M_serv _ _ _ M); eauto.
  - apply (set_nth_cases (fun w => w = WExit) (fun j' => In (S j') (m_exited m))); auto.
    + apply (M_exited _ _ _ M).
    + discriminate.
Qed.

(** A worker step that changes only the worker's own state (and possibly [rc]). *)
Lemma sim_worker pan s s' m m' j w w' :
  Sim pan s m -> nth_error (ws s) j = Some w ->
  ws s' = set_nth j w' (ws s) -> cst s' = cst s -> cur s' = cur s -> calls s' = calls s -> panics s' = panics s ->
  returned s' = returned s ->
  (any_pre w' = true -> any_pre w = true) -> w' <> WExit ->
  m_b m' = m_b m -> m_n m' = m_n m -> m_open m' = m_open m -> m_rc m' = rc s' ->
  (m_zero m' = true -> rc s' = 0) -> m_serv m' = m_serv m -> m_calls m' = m_calls m -> m_spawned m' = m_spawned m ->
  m_spawned0 m' = m_spawned0 m -> m_exited m' = m_exited m -> m_dropped m' = m_dropped m -> m_rets m' = m_rets m ->
  m_fail m' = [] ->
  Sim pan s' m'.
Proof.
  intros M Hj Hw Hc Hu Hca Hpa Hre NP NE E1 E2 E3 E4 E5 E6 E7 E8 E9 E10 E11 E12 E13.
  assert (Lt : j < length (ws s)) by (eapply nth_error_lt; eauto).
  constructor; rewrite ?Hc, ?Hu, ?Hca, ?Hpa, ?Hre, ?E1, ?E2, ?E3, ?E6, ?E7, ?E8, ?E9, ?E10, ?E11, ?E12; try apply M; auto.
  - rewrite Hw. apply (set_nth_cases (fun w => any_pre w = true) (fun j' => serving (m_serv m) (S j') = cur s)); auto.
    + apply (M_serv _ _ _ M).
    + intro X. eapply (M_serv _ _ _ M); eauto.
  - rewrite Hw, set_nth_length. apply M.
  - rewrite Hw, set_nth_length. apply M.
  - rewrite Hw. apply (set_nth_cases (fun w => w = WExit) (fun j' => In (S j') (m_exited m))); auto.
    + apply (M_exited _ _ _ M).
    + contradiction.
Qed.

Lemma sim_wclone c pan s m j b :
  Inv s -> Sim pan s m -> nth_error (ws s) j = Some (WClone b) ->
  Sim pan (st_wclone s (S j) b) (fold_left (mstep pan) (events_of c s (EWClone (S j))) m).
Proof.
  intros I M Hj. cbn [events_of fold_left mstep]. rewrite (touch_worker pan s m j _ I M Hj eq_refl).
  apply (sim_worker pan s (st_wclone s (S j) b) m m j (WClone b) (WDec b)); auto; try apply M. discriminate.
Qed.

Lemma sim_wdec c pan s m j b :
  Inv s -> Sim pan s m -> nth_error (ws s) j = Some (WDec b) ->
  Sim pan (st_wdec c s (S j) b) (fold_left (mstep pan) (events_of c s (EWDec (S j))) m).
Proof.
  intros I M Hj. destruct (pre_facts s j _ I Hj eq_refl) as (R & B & _).
  cbn [events_of fold_left mstep]. rewrite (touch_worker pan s m j _ I M Hj eq_refl).
  assert (Z : m_zero m = false) by (eapply zero_false; eauto).
  assert (NZ : Nat.eqb (m_rc m) 0 = false) by (apply Nat.eqb_neq; rewrite (M_rc _ _ _ M); lia).
  rewrite NZ, Z.
  apply (sim_worker pan s (st_wdec c s (S j) b) m _ j (WDec b)
           (if Nat.eqb (rc s) (c_unpark_old c) then WUnpark b else WIdle)); auto; cbn; try apply M.
  all: try (destruct (Nat.eqb (rc s) (c_unpark_old c)); discriminate).
  all: try (now rewrite (M_rc _ _ _ M)).
  all: try (rewrite (M_rc _ _ _ M); intro X; now apply Nat.eqb_eq in X).
Qed.

Lemma sim_wunpark c pan s m j b :
  Sim pan s m -> nth_error (ws s) j = Some (WUnpark b) ->
  Sim pan (st_wunpark s (S j)) (fold_left (mstep pan) (events_of c s (EWUnpark (S j))) m).
Proof.
  intros M Hj. cbn [events_of fold_left mstep].
  apply (sim_worker pan s (st_wunpark s (S j)) m m j (WUnpark b) WIdle); auto; try apply M; discriminate.
Qed.

Lemma sim_drop c pan s m :
  Sim pan s m -> cst s = CIdle -> Sim pan (st_drop s) (fold_left (mstep pan) (events_of c s EDrop) m).
Proof.
  intros M Hc. cbn [events_of fold_left mstep].
  open_sim M m. rewrite Hc in *. constructor; cbn; auto; try discriminate.
  tauto.
Qed.

Lemma sim_wexit c pan s m j :
  Sim pan s m -> cst s = CDone -> nth_error (ws s) j = Some WIdle ->
  Sim pan (st_wexit s (S j)) (fold_left (mstep pan) (events_of c s (EWExit (S j))) m).
Proof.
  intros M Hc Hj.
  assert (D : m_dropped m = true) by now apply (M_dropped _ _ _ M).
  assert (Lt : j < length (ws s)) by (eapply nth_error_lt; eauto).
  cbn [events_of fold_left mstep]. rewrite D. cbn [mstep]. rewrite D.
  open_sim M m. rewrite Hc in *. cbn in D. subst mdrop. constructor; cbn.
  - reflexivity.
  - reflexivity.
  - discriminate.
  - reflexivity.
  - exact Mzero.
  - apply (set_nth_cases (fun w => any_pre w = true) (fun j' => serving mserv (S j') = cur s)); auto. discriminate.
  - reflexivity.
  - now rewrite set_nth_length.
  - discriminate.
  - apply (set_nth_cases (fun w => w = WExit) (fun j' => S j = S j' \/ In (S j') mex)); auto.
    intros j' w E X. right. eapply Mex; eauto.
  - tauto.
  - reflexivity.
  - reflexivity.
  - exact Mp1.
  - exact Mp2.
Qed.

(** ** One step of the model = the events it induces, accepted *)

Theorem sim_step c pan scr s m l s' :
  good c -> Inv s -> Inv2 scr s -> InvS s -> Sim pan s m ->
  step c s l = Some s' -> follows pan s l ->
  Sim pan s' (fold_left (mstep pan) (events_of c s l) m).
Proof.
  intros G I J SS M H F. pose proof G as (G1 & G2 & G3). apply step_inv in H. destruct l; cbn in H.
  - destruct H as (Hc & rest & _ & ->). now apply sim_begin.
  - destruct H as (n & Hc & Hg & ->). destruct (getw_pos _ _ _ Hg) as (j & -> & Hj). now apply sim_send.
  - destruct H as (n & Hc & ->). now apply sim_run0.
  - destruct H as (n & Hc & ->). eapply sim_load; eauto.
  - destruct H as (n & Hc & _ & ->). cbn [events_of]. rewrite G2. cbn. now apply sim_to_load.
  - destruct H as (n & Hc & ->). cbn [events_of]. rewrite G2. cbn. now apply sim_to_load.
  - destruct H as (b & Hg & ->). destruct (getw_pos _ _ _ Hg) as (j & -> & Hj). now apply sim_wrun.
  - destruct H as (b & Hg & ->). destruct (getw_pos _ _ _ Hg) as (j & -> & Hj). now apply sim_wclone.
  - destruct H as (b & Hg & ->). destruct (getw_pos _ _ _ Hg) as (j & -> & Hj). now apply sim_wdec.
  - destruct H as (b & Hg & ->). destruct (getw_pos _ _ _ Hg) as (j & -> & Hj). eapply sim_wunpark; eauto.
  - destruct H as (Hc & _ & ->). now apply sim_drop.
  - destruct H as (Hc & Hg & ->). destruct (getw_pos _ _ _ Hg) as (j & -> & Hj). now apply sim_wexit.
Qed.

(** ** The panic choices of an execution are those recorded at its end *)

Lemma pan_mem_In b i pan : pan_mem b i pan = true <-> In (b, i) pan.
Proof.
  unfold pan_mem. rewrite existsb_exists. split.
  - intros ([b' i'] & H & E). cbn in E. apply andb_prop in E. destruct E as [E1 E2].
    apply Nat.eqb_eq in E1, E2. now subst.
  - intro H. exists (b, i). split; auto. cbn. now rewrite !Nat.eqb_refl.
Qed.

Definition logs (s : state) (l : label) (x : call) (p : bool) : Prop :=
  match l with
  | ERun0 q => q = p /\ x = (cur s, 0)
  | EWRun k q => q = p /\ getw s k = Some (WRun (fst x)) /\ snd x = k
  | _ => False
  end.

Lemma step_log c s l s' :
  step c s l = Some s' ->
  (calls s' = calls s /\ panics s' = panics s /\ (forall x p, ~ logs s l x p))
  \/ exists x p, logs s l x p /\ calls s' = calls s ++ [x] /\ panics s' = (if p then panics s ++ [x] else panics s).
Proof.
  intro H. apply step_inv in H. destruct l; cbn in H.
  - destruct H as (_ & rest & _ & ->). left. cbn. tauto.
  - destruct H as (n & _ & _ & ->). left. cbn. tauto.
  - destruct H as (n & _ & ->). right. exists (cur s, 0), p. cbn. auto.
  - destruct H as (n & _ & ->). left. destruct (leave c s); cbn; tauto.
  - destruct H as (n & _ & _ & ->). left. destruct (c_loop c); cbn; tauto.
  - destruct H as (n & _ & ->). left. destruct (c_loop c); cbn; tauto.
  - destruct H as (b & Hg & ->). right. exists (b, k), p. cbn. auto.
  - destruct H as (b & _ & ->). left. cbn. tauto.
  - destruct H as (b & _ & ->). left. cbn. tauto.
  - destruct H as (b & _ & ->). left. cbn. tauto.
  - destruct H as (_ & _ & ->). left. cbn. tauto.
  - destruct H as (_ & _ & ->). left. cbn. tauto.
Qed.

Lemma run_incl c : forall ls s s', run c s ls = Some s' -> incl (panics s) (panics s') /\ incl (calls s) (calls s').
Proof.
  induction ls as [|l ls IH]; cbn; intros s s' H.
  - inversion H; subst. split; apply incl_refl.
  - destruct (step c s l) as [s1|] eqn:E; [|discriminate].
    destruct (IH _ _ H) as [I1 I2].
    destruct (step_log _ _ _ _ E) as [(C & P & _)|(x & p & _ & C & P)].
    + rewrite <- C, <- P. auto.
    + split.
      * intros d Hd. apply I1. rewrite P. destruct p; auto. apply in_snoc. auto.
      * intros d Hd. apply I2. rewrite C. apply in_snoc. auto.
Qed.

Lemma NoDup_snoc_inv {A} (l : list A) x : NoDup (l ++ [x]) -> ~ In x l.
Proof. intro N. apply NoDup_remove_2 in N. now rewrite app_nil_r in N. Qed.

Lemma run_panics_back c scr : good c -> forall ls s s',
  reachable c scr s -> run c s ls = Some s' ->
  forall d, In d (panics s') -> In d (calls s) -> In d (panics s).
Proof.
  intros G. induction ls as [|l ls IH]; cbn; intros s s' R H d Hp Hc.
  - now inversion H; subst.
  - destruct (step c s l) as [s1|] eqn:E; [|discriminate].
    assert (R1 : reachable c scr s1) by (econstructor; eauto).
    pose proof (J_nodup _ _ (inv2_reachable _ _ _ G R1)) as N.
    destruct (step_log _ _ _ _ E) as [(C & P & _)|(x & p & _ & C & P)].
    + rewrite <- P. apply (IH _ _ R1 H); auto. now rewrite C.
    + assert (X : In d (panics s1)) by (apply (IH _ _ R1 H); auto; rewrite C; apply in_snoc; auto).
      rewrite P in X. destruct p; auto. apply in_snoc in X. destruct X as [X| ->]; auto.
      exfalso. rewrite C in N. now apply NoDup_snoc_inv in N.
Qed.

Lemma run_follows c scr s l s1 ls s' :
  good c -> reachable c scr s -> step c s l = Some s1 -> run c s1 ls = Some s' ->
  follows (panics s') s l.
Proof.
  intros G R E H.
  assert (R1 : reachable c scr s1) by (econstructor; eauto).
  pose proof (inv2_reachable _ _ _ G R) as J.
  pose proof (J_nodup _ _ (inv2_reachable _ _ _ G R1)) as N1.
  destruct (run_incl _ _ _ _ H) as [I1 _].
  assert (K : forall x p, logs s l x p -> p = pan_mem (fst x) (snd x) (panics s')).
  { intros x p L.
    destruct (step_log _ _ _ _ E) as [(_ & _ & No)|(x' & p' & L' & C & P)]; [now apply No in L|].
    assert (x' = x /\ p' = p) as [-> ->].
    { destruct l; cbn in L, L'; try contradiction.
      - destruct L as [-> ->], L' as [<- ->]. auto.
      - destruct L as (-> & G1 & K1), L' as (<- & G2 & K2). split; auto.
        rewrite G1 in G2. inversion G2. destruct x, x'; cbn in *; congruence. }
    destruct p.
    - symmetry. destruct x. apply pan_mem_In. apply I1. rewrite P. apply in_snoc. auto.
    - destruct (pan_mem (fst x) (snd x) (panics s')) eqn:Pm; auto. exfalso.
      destruct x as [b i]. apply pan_mem_In in Pm. cbn in Pm.
      assert (X : In (b, i) (panics s1)).
      { apply (run_panics_back c scr G ls s1 s' R1 H); auto. rewrite C. apply in_snoc. auto. }
      rewrite P in X. apply (J_pan _ _ J) in X. rewrite C in N1. now apply NoDup_snoc_inv in N1. }
  destruct l; cbn; auto.
  - apply (K (cur s, 0) p). cbn. auto.
  - intros b Hg. apply (K (b, k) p). cbn. auto.
Qed.

(** ** The monitor accepts every execution of the model *)

Lemma run_reach c scr s ls s' : reachable c scr s -> run c s ls = Some s' -> reachable c scr s'.
Proof.
  revert s. induction ls as [|l ls IH]; cbn; intros s R H.
  - now inversion H; subst.
  - destruct (step c s l) as [s1|] eqn:E; [|discriminate]. apply (IH s1); [|exact H]. econstructor; eauto.
Qed.

Lemma sim_run c scr pan : good c -> forall ls s m s',
  reachable c scr s -> Sim pan s m -> run c s ls = Some s' -> pan = panics s' ->
  Sim pan s' (fold_left (mstep pan) (trace c s ls) m).
Proof.
  intros G. induction ls as [|l ls IH]; cbn [run trace]; intros s m s' R M H Hp.
  - inversion H; subst. exact M.
  - destruct (step c s l) as [s1|] eqn:E; [|discriminate].
    rewrite fold_left_app. apply (IH s1); auto.
    + econstructor; eauto.
    + eapply sim_step; eauto.
      * eapply inv_reachable; eauto.
      * eapply inv2_reachable; eauto.
      * eapply invs_reachable; eauto.
      * subst pan. eapply run_follows; eauto.
Qed.

(** No clause of the monitor is violated on (any prefix of) any execution:
    every prefix of an execution is an execution. *)
Theorem monitor_safe c scr ls s' :
  good c -> run c (init scr) ls = Some s' ->
  violations (panics s') (trace c (init scr) ls) = [].
Proof.
  intros G H. unfold violations.
  apply (M_fail (panics s') s'). eapply sim_run; eauto; [constructor|apply sim_init].
Qed.

(** At a final state the monitor reports the run complete: all broadcasts
    returned, pool dropped, every worker exited. *)
Theorem monitor_complete c scr ls s' :
  good c -> run c (init scr) ls = Some s' -> final s' = true ->
  check scr (panics s') (trace c (init scr) ls) = [].
Proof.
  intros G H F.
  assert (R : reachable c scr s') by (eapply run_reach; eauto; constructor).
  assert (M : Sim (panics s') s' (fold_left (mstep (panics s')) (trace c (init scr) ls) mon0)).
  { eapply sim_run; eauto; [constructor|apply sim_init]. }
  unfold check. set (m := fold_left (mstep (panics s')) (trace c (init scr) ls) mon0) in *.
  unfold final in F. destruct (cst s') eqn:Hc; try discriminate.
  assert (D : m_dropped m = true) by now apply (M_dropped _ _ _ M).
  assert (O : m_open m = false) by (rewrite (M_open _ _ _ M), Hc; reflexivity).
  assert (L : m_rets m = length scr).
  { rewrite (M_rets _ _ _ M).
    assert (F' : final s' = true) by (unfold final; now rewrite Hc).
    destruct (returned_is_script c scr s' G R F') as [E _]. rewrite <- E. now rewrite map_length. }
  assert (X : forallb (fun k => mem_nat k (m_exited m)) (seq 1 (m_spawned m)) = true).
  { apply forallb_forall. intros k Hk. apply in_seq in Hk. rewrite (M_spawned _ _ _ M) in Hk.
    destruct k as [|j]; [lia|].
    destruct (nth_error (ws s') j) as [w|] eqn:E; [|apply nth_error_None in E; lia].
    unfold all_exited in F. rewrite forallb_forall in F.
    assert (w = WExit) as -> by (specialize (F _ (nth_error_In _ _ E)); now destruct w).
    unfold mem_nat. apply existsb_exists. exists (S j). split; [|apply Nat.eqb_refl].
    eapply (M_exited _ _ _ M); eauto. }
  rewrite L, Nat.eqb_refl, D, O, X. cbn. apply M.
Qed.
