(** C20: the painted tree parses back, unambiguously, to the skeleton of the
    picture.  Part 1: lexing (lines, units, glyphs, names, cells). *)
From DivanV Require Import Base.Res Model.Painter Model.DriverPaint Model.Parse
  Proofs.Painter Proofs.PaintDriver Proofs.PaintOrder.
From Coq Require Import Lia.

(** ** Characters *)

Definition plain_char (c : N) : Prop :=
  c <> nl /\ c <> c_bar /\ c <> c_branch /\ c <> c_corner /\ c <> c_dash.

Definition plain (s : str) : Prop := forall c, In c s -> plain_char c.

(** Table-part characters: no newline, no glyph (a bar is allowed: it is the
    separator). *)
Definition tame_char (c : N) : Prop := c <> nl /\ c <> c_branch /\ c <> c_corner.
Definition tame (s : str) : Prop := forall c, In c s -> tame_char c.

Lemma plain_tame : forall s, plain s -> tame s.
Proof. intros s H c Hc. destruct (H c Hc) as (a & b & d & e & f). repeat split; auto. Qed.

Lemma tame_app : forall a b, tame a -> tame b -> tame (a ++ b).
Proof. intros a b Ha Hb c Hc. apply in_app_or in Hc. destruct Hc; auto. Qed.

Lemma tame_spaces : forall k, tame (spaces k).
Proof. intros k c Hc. apply repeat_spec in Hc. subst. repeat split; discriminate. Qed.

Lemma tame_units : forall fl, tame (units_str fl).
Proof.
  induction fl as [|f r IH]; [intros c []|]. cbn [units_str]. apply tame_app; [|exact IH].
  intros c Hc. destruct f; cbn in Hc; repeat destruct Hc as [<-|Hc]; try contradiction; repeat split; discriminate.
Qed.

(** ** split_on and lines *)

Lemma split_on_nodelim : forall d a, ~ In d a -> split_on d a = [a].
Proof.
  induction a as [|c r IH]; intros H; [reflexivity|]. cbn [split_on].
  destruct (N.eqb c d) eqn:E; [apply N.eqb_eq in E; subst; exfalso; apply H; left; reflexivity|].
  rewrite IH; [reflexivity | intros Hin; apply H; right; exact Hin].
Qed.

Lemma split_on_app : forall d a b, ~ In d a -> split_on d (a ++ d :: b) = a :: split_on d b.
Proof.
  induction a as [|c r IH]; intros b H.
  - cbn [app split_on]. rewrite N.eqb_refl. reflexivity.
  - cbn [app split_on].
    destruct (N.eqb c d) eqn:E; [apply N.eqb_eq in E; subst; exfalso; apply H; left; reflexivity|].
    rewrite IH; [reflexivity | intros Hin; apply H; right; exact Hin].
Qed.

Definition no_nl (s : str) : Prop := ~ In nl s.

Lemma split_unlines : forall ls, Forall no_nl ls -> split_on nl (unlines ls) = ls ++ [[]].
Proof.
  induction ls as [|l r IH]; intros H; [reflexivity|]. inversion H; subst.
  cbn [unlines flat_map]. fold (unlines r). rewrite <- app_assoc. cbn [app].
  rewrite split_on_app by assumption. rewrite IH by assumption. reflexivity.
Qed.

Lemma lines_unlines : forall ls, Forall no_nl ls -> lines (unlines ls) = Some ls.
Proof.
  intros ls H. unfold lines. rewrite split_unlines by assumption.
  rewrite rev_app_distr. cbn. rewrite rev_involutive. reflexivity.
Qed.

(** ** trim *)

Lemma drop_sp_spaces : forall k x, drop_sp (spaces k ++ x) = drop_sp x.
Proof. induction k; intros; [reflexivity|]. cbn. exact (IHk x). Qed.

Lemma drop_sp_app_spaces : forall x j,
  drop_sp (x ++ spaces j) = match drop_sp x with [] => [] | y => y ++ spaces j end.
Proof.
  induction x as [|c r IH]; intros j.
  - cbn [app drop_sp]. rewrite <- (app_nil_r (spaces j)), drop_sp_spaces. reflexivity.
  - cbn [app drop_sp]. destruct (N.eqb c sp); [apply IH | reflexivity].
Qed.

Lemma rev_spaces : forall k, rev (spaces k) = spaces k.
Proof.
  induction k; [reflexivity|]. cbn [spaces repeat rev]. fold (spaces k). rewrite IHk.
  unfold spaces. rewrite <- repeat_cons. reflexivity.
Qed.

Lemma trim_pad : forall i c j, trim (spaces i ++ c ++ spaces j) = trim c.
Proof.
  intros. unfold trim. rewrite drop_sp_spaces, drop_sp_app_spaces.
  destruct (drop_sp c) as [|y0 y] eqn:E; [reflexivity|].
  rewrite rev_app_distr, rev_spaces, drop_sp_spaces. reflexivity.
Qed.

Lemma trim_spaces : forall k, trim (spaces k) = [].
Proof. intros. rewrite <- (app_nil_r (spaces k)). rewrite <- (app_nil_l (spaces 0)) at 1.
  change (spaces k ++ [] ++ spaces 0) with (spaces k ++ [] ++ spaces 0).
  replace (spaces k ++ []) with (spaces k ++ [] ++ spaces 0) by reflexivity.
  rewrite trim_pad. reflexivity. Qed.

(** ** Rows *)

Definition nobar (c : str) : Prop := ~ In c_bar c.

Definition padded (c piece : str) : Prop := exists i j, piece = spaces i ++ c ++ spaces j.

Lemma nobar_spaces : forall k, nobar (spaces k).
Proof. intros k H. apply repeat_spec in H. discriminate. Qed.

Lemma nobar_app : forall a b, nobar a -> nobar b -> nobar (a ++ b).
Proof. unfold nobar. intros a b Ha Hb H. apply in_app_or in H. tauto. Qed.

Lemma spaces_S_end : forall j, spaces j ++ [sp] = spaces (S j).
Proof. intros. unfold spaces. rewrite <- repeat_cons. reflexivity. Qed.

Lemma row_split : forall row s, row_shape row s -> Forall nobar row ->
  forall k, exists pieces, split_on c_bar (spaces k ++ s) = pieces /\ Forall2 padded row pieces.
Proof.
  intros row s H. induction H as [v | v j | v j rest t Hne Ht IH]; intros Hnb k.
  - inversion Hnb; subst. eexists. split.
    + apply split_on_nodelim. apply nobar_app; [apply nobar_spaces | assumption].
    + constructor; [|constructor]. exists k, 0. cbn. rewrite app_nil_r. reflexivity.
  - inversion Hnb; subst.
    replace (spaces k ++ v ++ spaces j ++ [sp; c_bar]) with ((spaces k ++ v ++ spaces (S j)) ++ c_bar :: [])
      by (rewrite <- spaces_S_end, <- !app_assoc; reflexivity).
    eexists. split.
    + apply split_on_app. apply nobar_app; [apply nobar_spaces|]. apply nobar_app; [assumption | apply nobar_spaces].
    + constructor; [exists k, (S j); reflexivity|]. cbn. constructor; [|constructor]. exists 0, 0. reflexivity.
  - inversion Hnb as [|? ? Hv Hrest]; subst.
    replace (spaces k ++ v ++ spaces j ++ [sp; c_bar; sp] ++ t)
      with ((spaces k ++ v ++ spaces (S j)) ++ c_bar :: (spaces 1 ++ t))
      by (rewrite <- spaces_S_end, <- !app_assoc; reflexivity).
    destruct (IH Hrest 1) as (pieces & E & F).
    eexists. split.
    + rewrite split_on_app; [rewrite E; reflexivity|].
      apply nobar_app; [apply nobar_spaces|]. apply nobar_app; [assumption | apply nobar_spaces].
    + constructor; [exists k, (S j); reflexivity | exact F].
Qed.

Lemma padded_trim : forall row pieces, Forall2 padded row pieces -> map trim pieces = map trim row.
Proof.
  induction 1 as [|c p row pieces (i & j & ->) _ IH]; [reflexivity|].
  cbn [map]. rewrite trim_pad, IH. reflexivity.
Qed.

Lemma row_cells : forall row s k, row_shape row s -> Forall nobar row ->
  map trim (split_on c_bar (spaces k ++ s)) = map trim row.
Proof.
  intros row s k H Hnb. destruct (row_split row s H Hnb k) as (pieces & -> & F).
  apply padded_trim. exact F.
Qed.

Lemma row_shape_chars : forall row s, row_shape row s ->
  forall c, In c s -> c = sp \/ c = c_bar \/ exists cell, In cell row /\ In c cell.
Proof.
  induction 1 as [v | v j | v j rest t Hne Ht IH]; intros c Hc.
  - right. right. exists v. split; [left; reflexivity | exact Hc].
  - apply in_app_or in Hc. destruct Hc as [Hc|Hc]; [right; right; exists v; split; [left; reflexivity | exact Hc]|].
    apply in_app_or in Hc. destruct Hc as [Hc|Hc]; [apply repeat_spec in Hc; auto|].
    cbn in Hc. destruct Hc as [<-|[<-|[]]]; auto.
  - apply in_app_or in Hc. destruct Hc as [Hc|Hc]; [right; right; exists v; split; [left; reflexivity | exact Hc]|].
    apply in_app_or in Hc. destruct Hc as [Hc|Hc]; [apply repeat_spec in Hc; auto|].
    apply in_app_or in Hc. destruct Hc as [Hc|Hc]; [cbn in Hc; destruct Hc as [<-|[<-|[<-|[]]]]; auto|].
    destruct (IH c Hc) as [E|[E|(cell & Hi & Hj)]]; auto.
    right. right. exists cell. split; [right; exact Hi | exact Hj].
Qed.

Lemma row_shape_tame : forall row s, row_shape row s -> Forall tame row -> tame s.
Proof.
  intros row s H Ht c Hc. destruct (row_shape_chars row s H c Hc) as [->|[->|(cell & Hi & Hj)]].
  - repeat split; discriminate.
  - repeat split; discriminate.
  - rewrite Forall_forall in Ht. exact (Ht cell Hi c Hj).
Qed.

(** A row shows something after trimming: at least two cells, or one cell that
    is not blank. *)
Definition row_visible (row : list str) : Prop :=
  2 <= length row \/ exists c, row = [c] /\ trim c <> [].

Lemma in_trim_nonempty : forall s c, In c s -> c <> sp -> trim s <> [].
Proof.
  intros s c Hin Hc. unfold trim.
  assert (H1 : forall x, In c x -> In c (drop_sp x)).
  { induction x as [|a r IH]; intros H; [destruct H|]. cbn [drop_sp].
    destruct (N.eqb a sp) eqn:E; [|exact H].
    apply N.eqb_eq in E. subst. destruct H as [H|H]; [congruence | apply IH; exact H]. }
  intros E. apply (f_equal (@rev N)) in E. rewrite rev_involutive in E. cbn in E.
  assert (In c (drop_sp (rev (drop_sp s)))) as Hx.
  { apply H1. apply -> in_rev. apply H1. exact Hin. }
  rewrite E in Hx. destruct Hx.
Qed.

Lemma row_trim_visible : forall row s k, row_shape row s -> row_visible row -> trim (spaces k ++ s) <> [].
Proof.
  intros row s k H [Hl | (c & -> & Hc)].
  - assert (Hin : In c_bar s).
    { destruct H as [v | v j | v j rest t Hne Ht]; cbn in Hl; [lia | |];
        apply in_or_app; right; apply in_or_app; right; cbn; auto. }
    apply (in_trim_nonempty _ c_bar); [apply in_or_app; right; exact Hin | discriminate].
  - inversion H; subst; [|congruence]. rewrite <- (app_nil_r (spaces k ++ s)), <- app_assoc.
    change [] with (spaces 0) at 1. rewrite trim_pad. exact Hc.
Qed.

(** ** Names *)

Fixpoint name_tail_ok (s : str) : bool :=
  match s with
  | [] => true
  | a :: r =>
    match r with
    | [] => negb (N.eqb a sp)
    | b :: _ => negb (N.eqb a sp && N.eqb b sp) && name_tail_ok r
    end
  end.

Lemma take_name_spec : forall n t,
  name_tail_ok n = true -> (t = [] \/ exists t', t = sp :: sp :: t') ->
  take_name (n ++ t) = (n, t).
Proof.
  induction n as [|a r IH]; intros t Hn Ht.
  - cbn [app]. destruct Ht as [->|(t' & ->)]; [reflexivity|]. cbn. reflexivity.
  - destruct r as [|b r'].
    + cbn in Hn. cbn [app]. destruct Ht as [->|(t' & ->)]; [reflexivity|].
      cbn [take_name]. destruct (N.eqb a sp); [discriminate|]. cbn. reflexivity.
    + cbn [name_tail_ok] in Hn. apply andb_prop in Hn. destruct Hn as [H1 H2].
      change ((a :: b :: r') ++ t) with (a :: (b :: r') ++ t).
      cbn [take_name]. cbn [app].
      destruct (N.eqb a sp && N.eqb b sp); [discriminate|].
      change (b :: r' ++ t) with ((b :: r') ++ t). rewrite (IH t H2 Ht). reflexivity.
Qed.

(** ** Units and glyphs *)

Lemma strip_units_app : forall fl t,
  strip_units (units_str fl ++ t) = (fl ++ fst (strip_units t), snd (strip_units t)).
Proof.
  induction fl as [|f r IH]; intros t.
  - cbn [units_str app]. destruct (strip_units t); reflexivity.
  - cbn [units_str]. rewrite <- app_assoc.
    destruct f; cbn [u_bar u_blank app strip_units];
      change (N.eqb sp sp) with true; cbn [andb];
      [change (N.eqb c_bar c_bar) with true | change (N.eqb sp c_bar) with false; cbn match];
      rewrite IH; reflexivity.
Qed.

Lemma strip_units_glyph : forall l payload,
  strip_units (branch_glyph l ++ payload) = ([], branch_glyph l ++ payload).
Proof. intros [] payload; reflexivity. Qed.

Lemma classify_node : forall fl l payload,
  classify (units_str fl ++ branch_glyph l ++ payload) = TNode fl l payload.
Proof.
  intros. unfold classify. rewrite strip_units_app, strip_units_glyph. cbn [fst snd].
  rewrite app_nil_r. destruct l; reflexivity.
Qed.

Lemma strip_units_suffix : forall n s, length s <= n -> exists pre, s = pre ++ snd (strip_units s).
Proof.
  induction n as [|n IH]; intros s Hl.
  - destruct s; [exists []; reflexivity | cbn in Hl; lia].
  - destruct s as [|a [|b [|c r]]]; try (exists []; reflexivity).
    cbn [strip_units].
    destruct (N.eqb b sp && N.eqb c sp); [|exists []; reflexivity].
    destruct (IH r) as (pre & E); [cbn in Hl; lia|].
    destruct (N.eqb a c_bar).
    + destruct (strip_units r) as [u t] eqn:Er. cbn [snd] in *. exists (a :: b :: c :: pre). cbn. rewrite <- E. reflexivity.
    + destruct (N.eqb a sp); [|exists []; reflexivity].
      destruct (strip_units r) as [u t] eqn:Er. cbn [snd] in *. exists (a :: b :: c :: pre). cbn. rewrite <- E. reflexivity.
Qed.

Definition other_token (s : str) : token :=
  match s with
  | [] => TBlank
  | c :: _ => if N.eqb c sp || N.eqb c c_bar then TRow s else TTop s
  end.

Lemma classify_tame : forall s, tame s -> classify s = other_token s.
Proof.
  intros s Ht. unfold classify.
  destruct (strip_units_suffix (length s) s (le_n _)) as (pre & E).
  destruct (strip_units s) as [us rest] eqn:Es. cbn [snd] in E. fold (other_token s).
  destruct rest as [|a [|b [|c payload]]]; try reflexivity.
  assert (Ha : tame_char a). { apply Ht. rewrite E. apply in_or_app. right. left. reflexivity. }
  destruct Ha as (_ & H1 & H2).
  destruct (N.eqb b c_dash && N.eqb c sp); [|reflexivity].
  destruct (N.eqb a c_branch) eqn:E1; [apply N.eqb_eq in E1; congruence|].
  destruct (N.eqb a c_corner) eqn:E2; [apply N.eqb_eq in E2; congruence|]. reflexivity.
Qed.

Lemma strip_prefix_app : forall p t, strip_prefix p (p ++ t) = Some t.
Proof. induction p; intros; cbn; [reflexivity|]. rewrite N.eqb_refl. apply IHp. Qed.
