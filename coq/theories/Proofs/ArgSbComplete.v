(** Completeness of the specification of the argument sort: an output that
    satisfies [sort_sb] is the model's output (the comparator being strict on
    the arguments, the sorted permutation is unique). *)

From Coq Require Import Permutation QArith.
From DivanV Require Import Base.Res Generated.Consts Model.Natural Model.SortBy Model.ArgCmp
  Proofs.SortCmp Proofs.Natural Proofs.ArgCmp Proofs.ArgSb.
Local Open Scope N_scope.

Lemma index_from_fst_in {A} : forall (l : list A) k i,
  k <= i < k + N.of_nat (length l) -> In i (map fst (index_from k l)).
Proof.
  induction l as [|a l IH]; intros k i H; simpl in *; [lia|].
  destruct (N.eq_dec i k) as [->|Hne]; [left; reflexivity|].
  right. apply IH. lia.
Qed.

Lemma all_before_ssorted {A} (c : A -> A -> comparison) (lt : A -> A -> bool) :
  forall l, (forall x y, In x l -> In y l -> lt x y = true -> c x y <> Gt) ->
  all_before lt l = true -> ssorted c l.
Proof.
  induction l as [|x r IH]; intros H B; simpl in *; [exact I|].
  apply Bool.andb_true_iff in B. destruct B as [Bx Br]. split.
  - apply Forall_forall. intros y Hy. rewrite forallb_forall in Bx.
    apply H; [left; reflexivity|right; exact Hy|apply Bx; exact Hy].
  - apply IH; [|exact Br]. intros a b Ha Hb. apply H; right; assumption.
Qed.

Section Complete.
Variable V : Type.
Variable vcmp : V -> V -> comparison.
Variable fparse : bytes -> option V.
Variable names : list bytes.
Hypothesis OK : oracle_ok_on V vcmp fparse (in_names names).

Notation arg_cmp := (arg_cmp V vcmp fparse).
Notation spec_arg_cmp := (spec_arg_cmp V vcmp fparse).
Notation spec_name_cmp := (spec_name_cmp V vcmp fparse).
Notation spec_before := (spec_before V vcmp fparse).
Notation D := (D names).

Definition elem_of (i : N) : N * bytes :=
  (i, match nth_opt names i with Some s => s | None => [] end).

Lemma spec_before_true_lt : forall attr x y,
  spec_before attr x y = true -> spec_arg_cmp attr x y = Lt.
Proof.
  intros attr x y. unfold ArgCmp.spec_before, ArgCmp.spec_arg_cmp.
  destruct attr.
  - destruct (spec_name_cmp (snd x) (snd y)); intros H; try discriminate H; try reflexivity.
    apply N.ltb_lt in H. apply N.compare_lt_iff. exact H.
  - destruct (spec_name_cmp (snd x) (snd y)); intros H; try discriminate H; try reflexivity.
    apply N.ltb_lt in H. apply N.compare_lt_iff. exact H.
  - intros H. apply N.ltb_lt in H. apply N.compare_lt_iff. exact H.
Qed.

(** A permutation of the positions, read as arguments, is a permutation of
    the indexed arguments. *)
Lemma perm_of_range_elems : forall asc,
  is_perm_of_range (N.of_nat (length names)) asc = true ->
  Permutation (indexed names) (map elem_of asc).
Proof.
  intros asc H. unfold is_perm_of_range in H.
  apply Bool.andb_true_iff in H. destruct H as [H ND].
  apply Bool.andb_true_iff in H. destruct H as [HL HB].
  apply N.eqb_eq in HL. apply Nat2N.inj in HL. apply nodup_N_NoDup in ND.
  set (R := map fst (indexed names)).
  assert (PR : Permutation asc R).
  { apply NoDup_Permutation_bis; [exact ND| |].
    - unfold R. rewrite map_length. unfold indexed. rewrite index_from_length. lia.
    - intros i Hi. unfold R, indexed. apply index_from_fst_in.
      rewrite forallb_forall in HB. specialize (HB i Hi). apply N.ltb_lt in HB. lia. }
  rewrite <- (elems_of_positions names (indexed names) (Forall_D_indexed names)).
  fold R. apply Permutation_map. apply Permutation_sym. exact PR.
Qed.

Lemma elems_D : forall asc, Permutation (indexed names) (map elem_of asc) -> Forall D (map elem_of asc).
Proof. intros asc H. apply (Forall_perm _ (indexed names)); [exact H|apply Forall_D_indexed]. Qed.

(** [sort_sb] determines the output. *)
Lemma sort_sb_complete : forall attr rev out,
  sort_sb V vcmp fparse attr rev names out = true ->
  sort_args V vcmp fparse attr rev names = Ok out.
Proof.
  intros attr rev out H. unfold ArgCmp.sort_sb in H. cbv zeta in H.
  apply Bool.andb_true_iff in H. destruct H as [HP HB].
  set (asc := if rev then List.rev out else out) in *.
  assert (HPasc : is_perm_of_range (N.of_nat (length names)) asc = true).
  { subst asc. destruct rev; [|exact HP].
    unfold is_perm_of_range in *.
    apply Bool.andb_true_iff in HP. destruct HP as [HP ND].
    apply Bool.andb_true_iff in HP. destruct HP as [HL HBd].
    rewrite rev_length, HL. simpl.
    apply Bool.andb_true_iff. split.
    - apply forallb_forall. intros i Hi. rewrite forallb_forall in HBd. apply HBd. apply in_rev. exact Hi.
    - apply nodup_N_NoDup. apply nodup_N_NoDup in ND. apply NoDup_rev. exact ND. }
  pose proof (perm_of_range_elems asc HPasc) as PE.
  pose proof (elems_D asc PE) as DE.
  fold elem_of in HB.
  assert (SE : ssorted (arg_cmp attr) (map elem_of asc)).
  { apply (all_before_ssorted _ (spec_before attr)); [|exact HB].
    intros x y Hx Hy Hlt. rewrite Forall_forall in DE.
    rewrite (arg_cmp_spec V vcmp fparse names OK attr x y (DE x Hx) (DE y Hy)).
    rewrite (spec_before_true_lt attr x y Hlt). discriminate. }
  assert (EQ : map elem_of asc = isort (arg_cmp attr) (indexed names)).
  { apply (sort_args_unique V vcmp fparse names OK attr false); [exact PE|exact SE]. }
  rewrite (sort_args_ok V vcmp fparse names OK attr rev). f_equal.
  assert (Hfst : map fst (map elem_of asc) = asc).
  { rewrite map_map. rewrite <- (map_id asc) at 2. apply map_ext. reflexivity. }
  subst asc. destruct rev.
  - rewrite (sort_args_reverse V vcmp fparse names OK attr).
    rewrite map_rev.
    change (isort (revc false (arg_cmp attr)) (indexed names)) with (isort (arg_cmp attr) (indexed names)).
    rewrite <- EQ, Hfst, rev_involutive. reflexivity.
  - change (isort (revc false (arg_cmp attr)) (indexed names)) with (isort (arg_cmp attr) (indexed names)).
    rewrite <- EQ, Hfst. reflexivity.
Qed.

End Complete.

Lemma sort_sb_dec_complete : forall attr rev names out,
  sort_sb_dec attr rev names out = true -> sort_args_dec attr rev names = Ok out.
Proof. intros attr rev names out. apply sort_sb_complete. apply oracle_dec_ok. Qed.
