(** Group [round] (C08): list lemmas, the closed form of [prog], and the case
    analysis of one thread step.  Used by RoundInv.v, RoundTerm.v, RoundAlloc.v. *)
From Coq Require Import List Arith Bool Lia NArith.
From DivanV Require Import Model.Round.
Import ListNotations.

(** * Lists *)

Lemma upd_length : forall A i (x : A) l, length (upd i x l) = length l.
Proof. intros A i x l. revert i. induction l as [|h t IH]; intros [|i]; cbn; auto. Qed.

Lemma nth_error_upd_eq : forall A i (x o : A) l,
  nth_error l i = Some o -> nth_error (upd i x l) i = Some x.
Proof. intros A i x o l. revert i. induction l as [|h t IH]; intros [|i] H; cbn in *; try discriminate; auto. Qed.

Lemma nth_error_upd_neq : forall A i j (x : A) l,
  j <> i -> nth_error (upd i x l) j = nth_error l j.
Proof.
  intros A i j x l. revert i j. induction l as [|h t IH]; intros [|i] [|j] H; cbn; auto.
  - contradiction.
Qed.

Lemma nth_error_upd_inv : forall A i j (x y : A) l,
  nth_error (upd i x l) j = Some y -> (j = i /\ y = x) \/ (j <> i /\ nth_error l j = Some y).
Proof.
  intros A i j x y l H. destruct (Nat.eq_dec j i) as [E|E].
  - subst. left. split; auto.
    destruct (nth_error l i) eqn:N.
    + rewrite (nth_error_upd_eq _ _ _ _ _ N) in H. congruence.
    + apply nth_error_None in N. rewrite <- (upd_length _ i x) in N.
      apply nth_error_None in N. congruence.
  - right. split; auto. rewrite nth_error_upd_neq in H; auto.
Qed.

Lemma In_nth_error_ex : forall A (x : A) l, In x l -> exists i, nth_error l i = Some x.
Proof. intros. apply In_nth_error. auto. Qed.

Lemma countb_le : forall A (p : A -> bool) l, countb p l <= length l.
Proof.
  intros A p l. unfold countb. induction l as [|h t IH]; cbn; [lia|].
  destruct (p h); cbn; lia.
Qed.

Lemma countb_cons : forall A (p : A -> bool) h t, countb p (h :: t) = b2n (p h) + countb p t.
Proof. intros. unfold countb. cbn. destruct (p h); reflexivity. Qed.

Lemma countb_upd : forall A (p : A -> bool) i x o l,
  nth_error l i = Some o -> countb p (upd i x l) + b2n (p o) = countb p l + b2n (p x).
Proof.
  intros A p i x o l. revert i. induction l as [|h t IH]; intros [|i] H; cbn in H; try discriminate.
  - inversion H; subst. cbn [upd]. rewrite !countb_cons. lia.
  - cbn [upd]. rewrite !countb_cons. specialize (IH i H). lia.
Qed.

Lemma countb_full : forall A (p : A -> bool) l,
  countb p l = length l -> forall x, In x l -> p x = true.
Proof.
  intros A p l. induction l as [|h t IH]; intros H x HI; [contradiction|].
  rewrite countb_cons in H. cbn [length] in H. pose proof (countb_le _ p t) as L.
  destruct (p h) eqn:E; cbn in H; [|lia].
  destruct HI as [->|HI]; [auto|apply IH; auto; lia].
Qed.

Lemma countb_others : forall A (p : A -> bool) l i o,
  nth_error l i = Some o -> p o = false -> S (countb p l) = length l ->
  forall j y, j <> i -> nth_error l j = Some y -> p y = true.
Proof.
  intros A p l. induction l as [|h t IH]; intros [|i] o N PO C j y NE NJ; cbn in N; try discriminate.
  - inversion N; subst. rewrite countb_cons, PO in C. cbn in C.
    destruct j as [|j]; [contradiction|]. cbn in NJ.
    apply (countb_full _ p t); [lia|]. eapply nth_error_In; eauto.
  - rewrite countb_cons in C. cbn [length] in C. pose proof (countb_le _ p t) as L.
    destruct j as [|j]; cbn in NJ.
    + inversion NJ; subst. destruct (p y) eqn:E; auto. cbn in C.
      (* then t has all-true but contains o *)
      exfalso. assert (countb p t = length t) as F by lia.
      pose proof (countb_full _ p t F o (nth_error_In _ _ N)). congruence.
    + destruct (p h) eqn:E; cbn in C.
      * eapply (IH i o N PO); [lia| |exact NJ]. lia.
      * exfalso. assert (countb p t = length t) as F by lia.
        pose proof (countb_full _ p t F o (nth_error_In _ _ N)). congruence.
Qed.

Lemma countb_zero : forall A (p : A -> bool) l,
  (forall x, In x l -> p x = false) -> countb p l = 0.
Proof.
  intros A p l. induction l as [|h t IH]; intros H; [reflexivity|].
  rewrite countb_cons, (H h (or_introl eq_refl)). cbn. apply IH. intros. apply H. right; auto.
Qed.

Lemma countb_ext : forall A (p q : A -> bool) l,
  (forall x, In x l -> p x = q x) -> countb p l = countb q l.
Proof.
  intros A p q l. induction l as [|h t IH]; intros H; [reflexivity|].
  rewrite !countb_cons, (H h (or_introl eq_refl)). f_equal. apply IH. intros. apply H. right; auto.
Qed.

Lemma sum_upd : forall A (f : A -> nat) i x o l,
  nth_error l i = Some o -> sum (map f (upd i x l)) + f o = sum (map f l) + f x.
Proof.
  intros A f i x o l. revert i. induction l as [|h t IH]; intros [|i] H; cbn in H; try discriminate.
  - inversion H; subst. cbn. lia.
  - cbn. specialize (IH i H). unfold sum in IH. lia.
Qed.

Lemma sum_map_const : forall A (f : A -> nat) k l, (forall x, In x l -> f x = k) -> sum (map f l) = length l * k.
Proof.
  intros A f k l. induction l as [|h t IH]; intros H; [reflexivity|].
  cbn. rewrite (H h (or_introl eq_refl)). unfold sum in IH. rewrite IH; [lia|]. intros. apply H. right; auto.
Qed.

Lemma nth_error_seq : forall a n p, p < n -> nth_error (seq a n) p = Some (a + p).
Proof.
  intros a n. revert a. induction n as [|n IH]; intros a p H; [lia|].
  destruct p as [|p]; cbn.
  - f_equal. lia.
  - rewrite IH by lia. f_equal. lia.
Qed.

Lemma find_idx_some : forall A (p : A -> bool) l k,
  find_idx p l = Some k ->
  exists x, nth_error l k = Some x /\ p x = true /\ forall j y, j < k -> nth_error l j = Some y -> p y = false.
Proof.
  intros A p l. induction l as [|h t IH]; intros k H; cbn in H; [discriminate|].
  destruct (p h) eqn:E.
  - inversion H; subst. exists h. repeat split; auto. intros; lia.
  - destruct (find_idx p t) as [k'|] eqn:F; cbn in H; [|discriminate]. inversion H; subst.
    destruct (IH k' eq_refl) as (x & N & P & L). exists x. repeat split; auto.
    intros [|j] y Hj Ny; cbn in Ny.
    + inversion Ny; subst; auto.
    + eapply L; eauto. lia.
Qed.

Lemma find_idx_none : forall A (p : A -> bool) l,
  find_idx p l = None -> forall x, In x l -> p x = false.
Proof.
  intros A p l. induction l as [|h t IH]; intros H x HI; [contradiction|]. cbn in H.
  destruct (p h) eqn:E; [discriminate|].
  destruct (find_idx p t) eqn:F; [discriminate|].
  destruct HI as [->|HI]; auto.
Qed.

(** * The program *)

Lemma drops_length : forall n sh, length (drops n sh) = ndrops n sh.
Proof.
  intros n sh. unfold drops, ndrops.
  assert (forall l, length (flat_map (drops_of sh) l) = length l * (b2n (drop_out sh) + b2n (drop_in sh))) as G.
  { induction l as [|h t IH]; [reflexivity|]. cbn [flat_map]. rewrite app_length, IH.
    unfold drops_of. rewrite app_length. destruct (drop_out sh), (drop_in sh); cbn; lia. }
  rewrite G, seq_length. reflexivity.
Qed.

Lemma drops_are_drops : forall n sh a, In a (drops n sh) -> exists k o, a = ADrop k o.
Proof.
  intros n sh a H. unfold drops in H. apply in_flat_map in H. destruct H as (k & _ & H).
  unfold drops_of in H. apply in_app_or in H.
  destruct H as [H|H]; [destruct (drop_out sh)|destruct (drop_in sh)]; cbn in H; try contradiction;
    destruct H as [<-|[]]; eauto.
Qed.

Lemma prog_length : forall n sh, length (prog n sh) = plen n sh.
Proof.
  intros. unfold prog, plen. rewrite !app_length, !map_length, !seq_length, drops_length. cbn. lia.
Qed.

Lemma prog_nth : forall n sh p,
  nth_error (prog n sh) p =
  if p <? n then Some (AGen p) else
  if p <? n + 4 then nth_error [AWait 1; AClear; AWait 2; ATsStart] (p - n) else
  if p <? 2 * n + 4 then Some (ACall (p - (n + 4))) else
  if p <? 2 * n + 7 then nth_error [ATsEnd; AWait 3; ASnapshot] (p - (2 * n + 4)) else
  nth_error (drops n sh) (p - (2 * n + 7)).
Proof.
  intros n sh p. unfold prog.
  destruct (Nat.ltb_spec p n) as [H1|H1].
  { rewrite nth_error_app1 by (rewrite map_length, seq_length; lia).
    erewrite map_nth_error; [reflexivity|]. rewrite nth_error_seq by lia. reflexivity. }
  rewrite nth_error_app2 by (rewrite map_length, seq_length; lia).
  rewrite map_length, seq_length.
  destruct (Nat.ltb_spec p (n + 4)) as [H2|H2].
  { rewrite nth_error_app1 by (cbn; lia). reflexivity. }
  rewrite nth_error_app2 by (cbn; lia). cbn [length].
  destruct (Nat.ltb_spec p (2 * n + 4)) as [H3|H3].
  { rewrite nth_error_app1 by (rewrite map_length, seq_length; lia).
    erewrite map_nth_error; [|rewrite nth_error_seq by lia; reflexivity]. do 2 f_equal. lia. }
  rewrite nth_error_app2 by (rewrite map_length, seq_length; lia).
  rewrite map_length, seq_length.
  destruct (Nat.ltb_spec p (2 * n + 7)) as [H4|H4].
  { rewrite nth_error_app1 by (cbn; lia). f_equal. lia. }
  rewrite nth_error_app2 by (cbn; lia). cbn [length]. f_equal. lia.
Qed.

Definition is_wait (a : act) : bool := match a with AWait _ => true | _ => false end.

(** What the action at position [p] is, in terms of arithmetic on [p]. *)
Lemma prog_kind : forall n sh p a,
  nth_error (prog n sh) p = Some a ->
  p < plen n sh /\
  is_wait a = iswait n p /\
  faultable a = userpos n sh p /\
  (a = AClear <-> p = n + 1) /\
  (a = ASnapshot <-> p = 2 * n + 6).
Proof.
  intros n sh p a H.
  assert (p < plen n sh) as L.
  { rewrite <- prog_length. apply nth_error_Some. congruence. }
  split; [exact L|].
  rewrite prog_nth in H. unfold iswait, userpos.
  destruct (Nat.ltb_spec p n) as [H1|H1].
  { inversion H; subst. cbn [is_wait faultable].
    repeat match goal with |- context[?x =? ?y] => destruct (Nat.eqb_spec x y); try lia end.
    cbn. repeat split; intros; try discriminate; try lia. }
  destruct (Nat.ltb_spec p (n + 4)) as [H2|H2].
  { assert (p - n = 0 \/ p - n = 1 \/ p - n = 2 \/ p - n = 3) as [E|[E|[E|E]]] by lia;
      rewrite E in H; cbn in H; inversion H; subst; cbn [is_wait faultable];
      repeat match goal with
             | |- context[?x =? ?y] => destruct (Nat.eqb_spec x y); try lia
             | |- context[?x <=? ?y] => destruct (Nat.leb_spec x y); try lia
             | |- context[?x <? ?y] => destruct (Nat.ltb_spec x y); try lia
             end; cbn; repeat split; intros; try discriminate; try lia; auto. }
  destruct (Nat.ltb_spec p (2 * n + 4)) as [H3|H3].
  { inversion H; subst. cbn [is_wait faultable].
    repeat match goal with
           | |- context[?x =? ?y] => destruct (Nat.eqb_spec x y); try lia
           | |- context[?x <=? ?y] => destruct (Nat.leb_spec x y); try lia
           | |- context[?x <? ?y] => destruct (Nat.ltb_spec x y); try lia
           end; cbn; repeat split; intros; try discriminate; try lia. }
  destruct (Nat.ltb_spec p (2 * n + 7)) as [H4|H4].
  { assert (p - (2 * n + 4) = 0 \/ p - (2 * n + 4) = 1 \/ p - (2 * n + 4) = 2) as [E|[E|E]] by lia;
      rewrite E in H; cbn in H; inversion H; subst; cbn [is_wait faultable];
      repeat match goal with
             | |- context[?x =? ?y] => destruct (Nat.eqb_spec x y); try lia
             | |- context[?x <=? ?y] => destruct (Nat.leb_spec x y); try lia
             | |- context[?x <? ?y] => destruct (Nat.ltb_spec x y); try lia
             end; cbn; repeat split; intros; try discriminate; try lia; auto. }
  apply nth_error_In in H. destruct (drops_are_drops _ _ _ H) as (k & o & ->). cbn [is_wait faultable].
  repeat match goal with
         | |- context[?x =? ?y] => destruct (Nat.eqb_spec x y); try lia
         | |- context[?x <=? ?y] => destruct (Nat.leb_spec x y); try lia
         | |- context[?x <? ?y] => destruct (Nat.ltb_spec x y); try lia
         end; cbn; repeat split; intros; try discriminate; try lia.
Qed.

Lemma prog_none : forall n sh p, nth_error (prog n sh) p = None <-> plen n sh <= p.
Proof. intros. rewrite nth_error_None, prog_length. reflexivity. Qed.

(** * Case analysis of one thread step (with the guard) *)

Inductive tcase (c : config) (r i : nat) (th : thread) (b : barrier) : thread -> barrier -> Prop :=
| TLeaveRun g :
    md th = Run -> blk th = Some g -> g <> bgen b ->
    tcase c r i th b (next_pc (set_blk th None)) b
| TLeaveUnw g :
    md th = Unwind -> blk th = Some g -> g <> bgen b ->
    tcase c r i th b (set_blk th None) b
| TReturn :
    md th = Run -> blk th = None -> plen (ssize c r) (shp c) <= pc th ->
    tcase c r i th b (set_md th Returned) b
| TWaitRel :
    md th = Run -> blk th = None -> iswait (ssize c r) (pc th) = true -> pc th < plen (ssize c r) (shp c) ->
    ~ S (bcount b) < nthreads c ->
    tcase c r i th b (next_pc (set_rem th (pred (remaining th)))) {| bcount := 0; bgen := S (bgen b) |}
| TWaitBlk :
    md th = Run -> blk th = None -> iswait (ssize c r) (pc th) = true -> pc th < plen (ssize c r) (shp c) ->
    S (bcount b) < nthreads c ->
    tcase c r i th b (set_blk (set_rem th (pred (remaining th))) (Some (bgen b)))
          {| bcount := S (bcount b); bgen := bgen b |}
| TPanic :
    md th = Run -> blk th = None -> userpos (ssize c r) (shp c) (pc th) = true -> pc th < plen (ssize c r) (shp c) ->
    fault c i r (pc th) = true ->
    tcase c r i th b (set_md th (if guard c then Unwind else Unwound)) b
| TExec a :
    md th = Run -> blk th = None -> nth_error (prog (ssize c r) (shp c)) (pc th) = Some a ->
    iswait (ssize c r) (pc th) = false -> pc th < plen (ssize c r) (shp c) ->
    (userpos (ssize c r) (shp c) (pc th) = true -> fault c i r (pc th) = false) ->
    tcase c r i th b (exec a (allocs c i r (pc th)) th) b
| TUnwDone :
    md th = Unwind -> blk th = None -> remaining th = 0 ->
    tcase c r i th b (set_md th Unwound) b
| TUnwRel k :
    md th = Unwind -> blk th = None -> remaining th = S k -> ~ S (bcount b) < nthreads c ->
    tcase c r i th b (set_rem th k) {| bcount := 0; bgen := S (bgen b) |}
| TUnwBlk k :
    md th = Unwind -> blk th = None -> remaining th = S k -> S (bcount b) < nthreads c ->
    tcase c r i th b (set_blk (set_rem th k) (Some (bgen b))) {| bcount := S (bcount b); bgen := bgen b |}.

(** The configuration is the repaired code: the guard exists and every
    benchmark thread has its thread-local allocation info. *)
Definition fixed_code (c : config) : Prop := guard c = true /\ forall i, has_info c i = true.

Lemma tprog_info : forall c r i, has_info c i = true -> tprog c r i = prog (ssize c r) (shp c).
Proof. intros c r i H. unfold tprog. rewrite H. reflexivity. Qed.

Lemma tstep_cases : forall c r i th b th' b',
  has_info c i = true ->
  tstep c r i th b = Some (th', b') -> tcase c r i th b th' b'.
Proof.
  intros c r i th b th' b' HI H. unfold tstep in H. rewrite (tprog_info _ _ _ HI) in H.
  destruct (md th) eqn:M; destruct (blk th) as [g|] eqn:B; try discriminate.
  - (* Run, blocked *)
    destruct (Nat.eqb_spec g (bgen b)); [discriminate|]. inversion H; subst. eapply TLeaveRun; eauto.
  - (* Run *)
    destruct (nth_error (prog (ssize c r) (shp c)) (pc th)) as [a|] eqn:N.
    + destruct (prog_kind _ _ _ _ N) as (L & W & F & _ & _).
      symmetry in W. destruct a; cbn in W;
        try (rewrite F in H;
             destruct (userpos (ssize c r) (shp c) (pc th)) eqn:U; cbn [andb] in H;
             [destruct (fault c i r (pc th)) eqn:FL; inversion H; subst;
              [eapply TPanic; eauto
              | match type of N with _ = Some ?x => eapply (TExec _ _ _ _ _ x) end; eauto]
             | inversion H; subst;
               match type of N with _ = Some ?x => eapply (TExec _ _ _ _ _ x) end; eauto;
               try (intros; congruence) ]).
      (* AWait *)
      unfold arrive in H. destruct (Nat.ltb_spec (S (bcount b)) (nthreads c)); inversion H; subst.
      * eapply TWaitBlk; eauto.
      * eapply TWaitRel; eauto. lia.
    + inversion H; subst. apply prog_none in N. eapply TReturn; eauto.
  - (* Unwind, blocked *)
    destruct (Nat.eqb_spec g (bgen b)); [discriminate|]. inversion H; subst. eapply TLeaveUnw; eauto.
  - (* Unwind *)
    destruct (remaining th) as [|k] eqn:R.
    + inversion H; subst. eapply TUnwDone; eauto.
    + unfold arrive in H. destruct (Nat.ltb_spec (S (bcount b)) (nthreads c)); inversion H; subst.
      * eapply TUnwBlk; eauto.
      * eapply TUnwRel; eauto. lia.
Qed.

(** Fields of [exec]. *)
Lemma exec_pc : forall a ops th, pc (exec a ops th) = S (pc th).
Proof. destruct a; reflexivity. Qed.
Lemma exec_md : forall a ops th, md (exec a ops th) = md th.
Proof. destruct a; reflexivity. Qed.
Lemma exec_blk : forall a ops th, blk (exec a ops th) = blk th.
Proof. destruct a; reflexivity. Qed.
Lemma exec_remaining : forall a ops th, remaining (exec a ops th) = remaining th.
Proof. destruct a; reflexivity. Qed.

(** * Case analysis of a global step *)

Inductive scase (c : config) (st : state) : label -> state -> Prop :=
| SStart :
    gp st = GIdle -> round st < nrounds c ->
    scase c st LStart {| gp := GRun; round := round st; bar := {| bcount := 0; bgen := 0 |}; ths := map fresh (ths st) |}
| SFinish :
    gp st = GIdle -> nrounds c <= round st ->
    scase c st LStart {| gp := GEnd None; round := round st; bar := bar st; ths := ths st |}
| SJoinPanic k :
    gp st = GRun -> forallb finished (ths st) = true ->
    find_idx (fun th => negb (returned th)) (ths st) = Some k ->
    scase c st LJoin {| gp := GEnd (Some k); round := round st; bar := bar st; ths := ths st |}
| SJoinOk :
    gp st = GRun -> forallb finished (ths st) = true ->
    find_idx (fun th => negb (returned th)) (ths st) = None ->
    scase c st LJoin {| gp := GIdle; round := S (round st); bar := bar st; ths := ths st |}
| SThread i th th' b' :
    gp st = GRun -> nth_error (ths st) i = Some th ->
    tcase c (round st) i th (bar st) th' b' ->
    scase c st (LThread i) {| gp := GRun; round := round st; bar := b'; ths := upd i th' (ths st) |}.

Lemma step_cases : forall c st l st',
  (forall i, has_info c i = true) -> step c st l = Some st' -> scase c st l st'.
Proof.
  intros c st l st' HI H. unfold step in H.
  destruct l as [| |i]; destruct (gp st) eqn:G; try discriminate.
  - destruct (Nat.ltb_spec (round st) (nrounds c)); inversion H; subst; [apply SStart|apply SFinish]; auto.
  - destruct (forallb finished (ths st)) eqn:F; [|discriminate].
    destruct (find_idx (fun th => negb (returned th)) (ths st)) eqn:I; inversion H; subst;
      [eapply SJoinPanic|eapply SJoinOk]; eauto.
  - destruct (nth_error (ths st) i) as [th|] eqn:N; [|discriminate].
    destruct (tstep c (round st) i th (bar st)) as [[th' b']|] eqn:T; [|discriminate].
    inversion H; subst. eapply SThread; eauto. apply tstep_cases; auto.
Qed.

(** * Executions *)

Inductive exec_from (c : config) : state -> list label -> state -> Prop :=
| ENil st : exec_from c st [] st
| ECons st l st' tr st'' : step c st l = Some st' -> exec_from c st' tr st'' -> exec_from c st (l :: tr) st''.

Definition reachable (c : config) (st : state) : Prop := exists tr, exec_from c (init c) tr st.

Lemma exec_from_snoc : forall c st tr st' l st'',
  exec_from c st tr st' -> step c st' l = Some st'' -> exec_from c st (tr ++ [l]) st''.
Proof.
  intros c st tr st' l st'' H. induction H; intros S; cbn.
  - econstructor; eauto. constructor.
  - econstructor; eauto.
Qed.

(** Induction principle: a property of the initial state preserved by steps
    holds in every reachable state. *)
Lemma reachable_ind' : forall c (P : state -> Prop),
  P (init c) ->
  (forall st l st', P st -> step c st l = Some st' -> P st') ->
  forall st, reachable c st -> P st.
Proof.
  intros c P H0 HS st [tr E].
  assert (forall s tr s', exec_from c s tr s' -> P s -> P s') as G.
  { intros s t s' X. induction X; auto. intros. apply IHX. eapply HS; eauto. }
  eapply G; eauto.
Qed.

Lemma reachable_step : forall c st l st', reachable c st -> step c st l = Some st' -> reachable c st'.
Proof. intros c st l st' [tr E] S. exists (tr ++ [l]). eapply exec_from_snoc; eauto. Qed.
