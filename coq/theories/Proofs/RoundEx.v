(** Group [round] (C08): concrete executions - the pre-fix protocol deadlocks
    (F5), and the hypotheses of the theorems are satisfiable by non-trivial
    executions. *)
From Coq Require Import List Arith Bool Lia NArith.
From DivanV Require Import Model.Round Proofs.RoundBase.
Import ListNotations.

Fixpoint run_labels (c : config) (st : state) (tr : list label) : option state :=
  match tr with
  | [] => Some st
  | l :: t => match step c st l with Some st' => run_labels c st' t | None => None end
  end.

Lemma run_labels_exec : forall c tr st st', run_labels c st tr = Some st' -> exec_from c st tr st'.
Proof.
  intros c tr. induction tr as [|l t IH]; intros st st' H; cbn in H.
  - inversion H; subst. constructor.
  - destruct (step c st l) as [s|] eqn:S; [|discriminate]. econstructor; eauto.
Qed.

Definition cfg2 (g : bool) (flt : nat -> nat -> nat -> bool) : config :=
  {| nthreads := 2; nrounds := 1; ssize := fun _ => 1; shp := {| drop_out := false; drop_in := false |};
     guard := g; has_info := fun _ => true; fault := flt; allocs := fun i _ p => [Alloc (N.of_nat (100 * i + p))] |}.

(** Thread 1 panics in its (only) call of the benchmarked function (position n+4 = 5). *)
Definition flt1 (i r p : nat) : bool := (i =? 1) && (r =? 0) && (p =? 5).

Definition t0 := LThread 0.
Definition t1 := LThread 1.

(** Both threads generate, pass the two waits around the clear, take the start
    timestamp; thread 1 panics in the call; thread 0 finishes the call, takes
    the end timestamp and arrives at the last wait. *)
Definition tr_upto_panic : list label :=
  [LStart; t0; t1; t0; t1; t0; t0; t1; t0; t1; t0; t0; t1; t1; t0; t0; t0].

(** Without the guard (the code before 80a110a) thread 1 is gone and thread 0
    waits forever: the state is not final and no step is enabled. *)
Example old_deadlocks :
  exists tr st, exec_from (cfg2 false flt1) (init (cfg2 false flt1)) tr st /\
                final st = false /\ forall l, step (cfg2 false flt1) st l = None.
Proof.
  exists tr_upto_panic. eexists. split; [apply run_labels_exec; vm_compute; reflexivity|].
  split; [reflexivity|].
  intros [| |[|[|[|i]]]]; reflexivity.
Qed.

(** With the guard the same schedule goes on: thread 1 performs the missing
    wait, both finish, and the caller panics for thread 1. *)
Example new_terminates :
  exists tr st, exec_from (cfg2 true flt1) (init (cfg2 true flt1)) tr st /\
                gp st = GEnd (Some 1) /\ expected (cfg2 true flt1) = Some (0, 1).
Proof.
  exists (tr_upto_panic ++ [t1; t1; t0; t0; t0; LJoin]). eexists.
  split; [apply run_labels_exec; vm_compute; reflexivity|].
  split; reflexivity.
Qed.

Definition nofault (i r p : nat) : bool := false.

(** A reachable state in which one thread is inside its timed section. *)
Example phase_order_hyps :
  exists c st, 2 <= nthreads c /\ fixed_code c /\ reachable c st /\ gp st = GRun /\
               exists ti, In ti (ths st) /\ ssize c (round st) + 3 < pc ti.
Proof.
  exists (cfg2 true nofault). eexists. split; [cbn; lia|]. split; [split; [reflexivity|intros; reflexivity]|]. split.
  { exists [LStart; t0; t1; t0; t1; t0; t0; t1; t0; t1; t0; t0].
    apply run_labels_exec; vm_compute; reflexivity. }
  split; [reflexivity|].
  eexists. split; [left; reflexivity|]. cbn. lia.
Qed.

(** A complete run without faults: ends normally, every sample has its own calls' operations. *)
Example clean_run :
  exists tr st, exec_from (cfg2 true nofault) (init (cfg2 true nofault)) tr st /\
                gp st = GEnd None /\ expected (cfg2 true nofault) = None /\
                map result (ths st) = [Some [Alloc 5%N]; Some [Alloc 105%N]].
Proof.
  exists [LStart; t0; t1; t0; t1; t0; t0; t1; t0; t1; t0; t0; t1; t1; t0; t0; t0; t1; t1; t0; t0; t0; t1; t1; LJoin; LStart].
  eexists. split; [apply run_labels_exec; vm_compute; reflexivity|].
  repeat split; reflexivity.
Qed.

(** A model execution with a panic produces a non-trivial log. *)
Example log_sb_hyps :
  (forall r, ssize (cfg2 true flt1) r = 1) /\
  length (events (cfg2 true flt1) (init (cfg2 true flt1)) (tr_upto_panic ++ [t1; t1; t0; t0; t0; LJoin])) = 18.
Proof. split; [reflexivity|]. vm_compute. reflexivity. Qed.

(** A latent hazard of [sync_impl], not reachable on Linux: if
    [ThreadAllocInfo::current()] is None on one thread only, that thread waits
    twice per sample and the others three times; the guard does not help (the
    thread does not panic) and the round deadlocks.  T = 2, thread 1 without
    thread-local info, no fault at all. *)
Definition cfg2_noinfo1 : config :=
  {| nthreads := 2; nrounds := 1; ssize := fun _ => 1; shp := {| drop_out := false; drop_in := false |};
     guard := true; has_info := fun i => negb (i =? 1); fault := nofault; allocs := fun _ _ _ => [] |}.

Example mixed_info_deadlocks :
  exists tr st, exec_from cfg2_noinfo1 (init cfg2_noinfo1) tr st /\
                final st = false /\ forall l, step cfg2_noinfo1 st l = None.
Proof.
  exists [LStart; t0; t1; t0; t1; t0; t0; t0; t1; t1; t1; t1; t0; t0; t0; t0; t0; t1; t1].
  eexists. split; [apply run_labels_exec; vm_compute; reflexivity|].
  split; [reflexivity|].
  intros [| |[|[|[|i]]]]; reflexivity.
Qed.
