(** Uniqueness of the sorted permutation up to ties: two sorted permutations
    of the same list agree position by position up to [Equal] — the output of
    any correct sort is determined except inside tie classes. *)

From Coq Require Import Permutation.
From DivanV Require Import Base.Res Model.Natural Model.SortBy Proofs.SortCmp.
Local Open Scope N_scope.

Section UpToTies.
Context {A : Type}.
Variable P : A -> Prop.
Variable c : A -> A -> comparison.
Hypothesis T : tpo_on P c.

Definition tied (x y : A) : Prop := c x y = Eq.

Lemma F2_tied_refl : forall l, Forall P l -> Forall2 tied l l.
Proof.
  induction l as [|x r IH]; intros H; [constructor|].
  inversion H; subst. constructor; [apply (tpo_refl P c T); assumption|auto].
Qed.

Lemma F2_tied_trans : forall l1 l2 l3, Forall P l1 -> Forall P l2 -> Forall P l3 ->
  Forall2 tied l1 l2 -> Forall2 tied l2 l3 -> Forall2 tied l1 l3.
Proof.
  induction l1 as [|x r IH]; intros l2 l3 P1 P2 P3 H12 H23.
  - inversion H12; subst. inversion H23; subst. constructor.
  - inversion H12 as [|? y ? r2 Hxy Hr]; subst. inversion H23 as [|? z ? r3 Hyz Hr']; subst.
    inversion P1; inversion P2; inversion P3; subst.
    constructor; [apply (tpo_eq_trans P c T x y z); assumption|].
    apply (IH r2 r3); assumption.
Qed.

Lemma ssorted_remove : forall p x q, ssorted c (p ++ x :: q) -> ssorted c (p ++ q).
Proof.
  induction p as [|y p IH]; intros x q H; simpl in *.
  - destruct H as [_ H]. exact H.
  - destruct H as [Hy H]. split; [|eapply IH; eauto].
    apply Forall_app in Hy. destruct Hy as [Hp Hq]. inversion Hq; subst.
    apply Forall_app. split; assumption.
Qed.

(** In a sorted list [y :: p ++ x :: q] with [x ~ y], everything up to [x] is
    tied with [y]; shifting [y] behind [p] changes nothing up to ties. *)
Lemma shift_tied : forall p y x, P y -> P x -> Forall P p ->
  ssorted c (y :: p ++ [x]) -> c y x = Eq ->
  Forall2 tied (y :: p) (p ++ [x]).
Proof.
  induction p as [|e p IH]; intros y x Py Px Pp S E; simpl.
  - constructor; [exact E|constructor].
  - inversion Pp as [|? ? Pe Pp']; subst.
    destruct S as [Sy [Se Sp]].
    assert (Hye : c y e <> Gt) by (inversion Sy; assumption).
    assert (Hex : c e x <> Gt).
    { rewrite Forall_forall in Se. apply Se. apply in_or_app. right. left. reflexivity. }
    assert (Eye : c y e = Eq).
    { apply (tpo_le_antisym P c T); auto.
      (* e <= x ~ y *)
      rewrite <- (tpo_eq_r P c T y x e Py Px Pe E) in Hex. exact Hex. }
    constructor; [exact Eye|].
    apply IH; auto.
    + split; [exact Se|exact Sp].
    + rewrite <- (tpo_eq_l P c T y e x Py Pe Px Eye). exact E.
Qed.

Lemma ssorted_prefix : forall l1 l2, ssorted c (l1 ++ l2) -> ssorted c l1.
Proof.
  induction l1 as [|x r IH]; intros l2 H; simpl in *; [exact I|].
  destruct H as [Hx H]. apply Forall_app in Hx. split; [tauto|eapply IH; eauto].
Qed.

Theorem sorted_perm_unique_upto_ties : forall l1 l2,
  Forall P l1 -> Permutation l1 l2 -> ssorted c l1 -> ssorted c l2 -> Forall2 tied l1 l2.
Proof.
  induction l1 as [|x r1 IH]; intros l2 P1 HP S1 S2.
  - apply Permutation_nil in HP. subst. constructor.
  - destruct l2 as [|y r2]; [apply Permutation_sym, Permutation_nil in HP; discriminate|].
    inversion P1 as [|? ? Px Pr1]; subst.
    assert (P2 : Forall P (y :: r2)) by (eapply Forall_perm; eauto).
    inversion P2 as [|? ? Py Pr2]; subst.
    destruct S1 as [Sx S1]. pose proof S2 as S2full. destruct S2 as [Sy S2].
    assert (Hxy : c x y <> Gt).
    { assert (In y (x :: r1)) as [->|Hin] by (eapply Permutation_in; [apply Permutation_sym; exact HP|left; reflexivity]).
      - rewrite (tpo_refl P c T y Py). discriminate.
      - rewrite Forall_forall in Sx. apply Sx. exact Hin. }
    assert (Hin2 : In x (y :: r2)) by (eapply Permutation_in; [exact HP|left; reflexivity]).
    assert (Hyx : c y x <> Gt).
    { destruct Hin2 as [->|Hin].
      - rewrite (tpo_refl P c T x Px). discriminate.
      - rewrite Forall_forall in Sy. apply Sy. exact Hin. }
    assert (Exy : c x y = Eq) by (apply (tpo_le_antisym P c T); auto).
    destruct Hin2 as [Heq|Hin].
    + subst y. constructor; [exact Exy|]. apply IH; auto. eapply Permutation_cons_inv; eauto.
    + apply in_split in Hin. destruct Hin as (p & q & ->).
      (* r1 is a permutation of y :: p ++ q, which is sorted *)
      assert (HP' : Permutation r1 (y :: p ++ q)).
      { apply (Permutation_cons_inv (a := x)).
        eapply perm_trans; [exact HP|].
        change (y :: p ++ x :: q) with ((y :: p) ++ x :: q).
        eapply perm_trans; [apply Permutation_sym, Permutation_middle|]. reflexivity. }
      assert (S' : ssorted c (y :: p ++ q)).
      { change (y :: p ++ q) with ((y :: p) ++ q). eapply ssorted_remove.
        change ((y :: p) ++ x :: q) with (y :: p ++ x :: q). exact S2full. }
      pose proof (IH (y :: p ++ q) Pr1 HP' S1 S') as H1.
      apply Forall_app in Pr2. destruct Pr2 as [Pp Pxq]. inversion Pxq as [|? ? _ Pq]; subst.
      (* x :: r1 ~ x :: y :: p ++ q ~ y :: p ++ x :: q *)
      assert (H2 : Forall2 tied (x :: y :: p ++ q) (y :: p ++ x :: q)).
      { constructor; [exact Exy|].
        change (y :: p ++ q) with ((y :: p) ++ q).
        replace (p ++ x :: q) with ((p ++ [x]) ++ q) by (rewrite <- app_assoc; reflexivity).
        apply Forall2_app; [|apply F2_tied_refl; exact Pq].
        apply shift_tied; auto.
        - apply (ssorted_prefix _ q). simpl. rewrite <- app_assoc. exact S2full.
        - apply (tpo_eq_sym P c T); assumption. }
      eapply (F2_tied_trans (x :: r1) (x :: y :: p ++ q) (y :: p ++ x :: q)).
      * exact P1.
      * constructor; [exact Px|]. constructor; [exact Py|]. apply Forall_app. split; assumption.
      * exact P2.
      * constructor; [apply (tpo_refl P c T); exact Px|exact H1].
      * exact H2.
Qed.

End UpToTies.
