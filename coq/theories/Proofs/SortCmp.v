(** Comparisons that are total preorders (on a domain), their closure under
    pull-back, cascade, sums and lexicographic lists; sorted permutations. *)

From Coq Require Import Permutation.
From DivanV Require Import Base.Res Model.Natural Model.SortBy.
Local Open Scope N_scope.

(** * Total preorders given by a [comparison]-valued function *)

Section TPO.
Context {A : Type}.

(** [c] restricted to [P] is antisymmetric in the [CompOpp] sense, [Lt] is
    transitive and [Eq] is a congruence.  Everything else follows. *)
Definition tpo_on (P : A -> Prop) (c : A -> A -> comparison) : Prop :=
  (forall x y, P x -> P y -> c y x = CompOpp (c x y)) /\
  (forall x y z, P x -> P y -> P z -> c x y = Lt -> c y z = Lt -> c x z = Lt) /\
  (forall x y z, P x -> P y -> P z -> c x y = Eq -> c x z = c y z).

Variable P : A -> Prop.
Variable c : A -> A -> comparison.
Hypothesis T : tpo_on P c.

Lemma tpo_anti : forall x y, P x -> P y -> c y x = CompOpp (c x y).
Proof. apply T. Qed.

Lemma tpo_lt_trans : forall x y z, P x -> P y -> P z -> c x y = Lt -> c y z = Lt -> c x z = Lt.
Proof. apply T. Qed.

Lemma tpo_eq_l : forall x y z, P x -> P y -> P z -> c x y = Eq -> c x z = c y z.
Proof. apply T. Qed.

Lemma tpo_refl : forall x, P x -> c x x = Eq.
Proof.
  intros x Px. pose proof (tpo_anti x x Px Px) as H.
  destruct (c x x); simpl in H; congruence.
Qed.

Lemma tpo_eq_sym : forall x y, P x -> P y -> c x y = Eq -> c y x = Eq.
Proof. intros x y Px Py H. rewrite (tpo_anti x y Px Py), H. reflexivity. Qed.

Lemma tpo_eq_r : forall x y z, P x -> P y -> P z -> c x y = Eq -> c z x = c z y.
Proof.
  intros x y z Px Py Pz H.
  rewrite (tpo_anti x z Px Pz), (tpo_anti y z Py Pz), (tpo_eq_l x y z Px Py Pz H). reflexivity.
Qed.

Lemma tpo_lt_gt : forall x y, P x -> P y -> c x y = Lt -> c y x = Gt.
Proof. intros x y Px Py H. rewrite (tpo_anti x y Px Py), H. reflexivity. Qed.

Lemma tpo_gt_lt : forall x y, P x -> P y -> c x y = Gt -> c y x = Lt.
Proof. intros x y Px Py H. rewrite (tpo_anti x y Px Py), H. reflexivity. Qed.

Lemma tpo_eq_trans : forall x y z, P x -> P y -> P z -> c x y = Eq -> c y z = Eq -> c x z = Eq.
Proof. intros x y z Px Py Pz H1 H2. rewrite (tpo_eq_l x y z Px Py Pz H1). exact H2. Qed.

(** [<=] is transitive. *)
Lemma tpo_le_trans : forall x y z, P x -> P y -> P z -> c x y <> Gt -> c y z <> Gt -> c x z <> Gt.
Proof.
  intros x y z Px Py Pz H1 H2.
  destruct (c x y) eqn:E1; try congruence.
  - rewrite (tpo_eq_l x y z Px Py Pz E1). exact H2.
  - destruct (c y z) eqn:E2; try congruence.
    + rewrite <- (tpo_eq_r y z x Py Pz Px E2), E1. discriminate.
    + rewrite (tpo_lt_trans x y z Px Py Pz E1 E2). discriminate.
Qed.

Lemma tpo_le_antisym : forall x y, P x -> P y -> c x y <> Gt -> c y x <> Gt -> c x y = Eq.
Proof.
  intros x y Px Py H1 H2. rewrite (tpo_anti x y Px Py) in H2.
  destruct (c x y); simpl in H2; congruence.
Qed.

End TPO.

Lemma tpo_weaken {A} (P Q : A -> Prop) c :
  (forall x, P x -> Q x) -> tpo_on Q c -> tpo_on P c.
Proof.
  intros PQ (H1 & H2 & H3). split; [|split].
  - intros x y Px Py. apply H1; auto.
  - intros x y z Px Py Pz. apply H2; auto.
  - intros x y z Px Py Pz. apply H3; auto.
Qed.

Lemma tpo_ext {A} (P : A -> Prop) c c' :
  (forall x y, P x -> P y -> c x y = c' x y) -> tpo_on P c' -> tpo_on P c.
Proof.
  intros E (H1 & H2 & H3). split; [|split].
  - intros x y Px Py. rewrite !E by assumption. apply H1; assumption.
  - intros x y z Px Py Pz. rewrite !E by assumption. apply H2; assumption.
  - intros x y z Px Py Pz. rewrite !E by assumption. apply H3; assumption.
Qed.

Lemma tpo_pull {A B} (P : A -> Prop) (Q : B -> Prop) (f : A -> B) c :
  (forall x, P x -> Q (f x)) -> tpo_on Q c -> tpo_on P (fun x y => c (f x) (f y)).
Proof.
  intros PQ (H1 & H2 & H3). split; [|split]; intros.
  - apply H1; auto.
  - eapply H2 with (y := f y); auto.
  - apply H3; auto.
Qed.

Definition all {A} : A -> Prop := fun _ => True.

Lemma tpo_N : tpo_on all N.compare.
Proof.
  split; [|split]; intros.
  - apply N.compare_antisym.
  - rewrite N.compare_lt_iff in *. lia.
  - apply N.compare_eq in H2. subst. reflexivity.
Qed.

Lemma tpo_Z : tpo_on all Z.compare.
Proof.
  split; [|split]; intros.
  - apply Z.compare_antisym.
  - rewrite Z.compare_lt_iff in *. lia.
  - apply Z.compare_eq in H2. subst. reflexivity.
Qed.

(** The constantly-[Eq] comparison ([SortingAttr::Kind] on argument names). *)
Lemma tpo_const_eq {A} (P : A -> Prop) : tpo_on P (fun _ _ => Eq).
Proof. split; [|split]; intros; (reflexivity || discriminate). Qed.

(** Cascade: first [c1], ties broken by [c2]. *)
Lemma tpo_thenc {A} (P : A -> Prop) c1 c2 :
  tpo_on P c1 -> tpo_on P c2 -> tpo_on P (thenc c1 c2).
Proof.
  intros T1 T2. unfold thenc. split; [|split].
  - intros x y Px Py. rewrite (tpo_anti P c1 T1 x y Px Py).
    destruct (c1 x y); simpl; try reflexivity. apply (tpo_anti P c2 T2); assumption.
  - intros x y z Px Py Pz H1 H2.
    destruct (c1 x y) eqn:E1; try discriminate.
    + rewrite (tpo_eq_l P c1 T1 x y z Px Py Pz E1).
      destruct (c1 y z) eqn:E2; try discriminate; try reflexivity.
      apply (tpo_lt_trans P c2 T2 x y z); assumption.
    + destruct (c1 y z) eqn:E2; try discriminate.
      * rewrite <- (tpo_eq_r P c1 T1 y z x Py Pz Px E2), E1. reflexivity.
      * rewrite (tpo_lt_trans P c1 T1 x y z Px Py Pz E1 E2). reflexivity.
  - intros x y z Px Py Pz H.
    destruct (c1 x y) eqn:E1; try discriminate.
    rewrite (tpo_eq_l P c1 T1 x y z Px Py Pz E1).
    destruct (c1 y z); try reflexivity.
    apply (tpo_eq_l P c2 T2); assumption.
Qed.

(** Reversal. *)
Lemma CompOpp_inj : forall a b, CompOpp a = CompOpp b -> a = b.
Proof. intros [] []; simpl; congruence. Qed.

Lemma tpo_rev {A} (P : A -> Prop) c b : tpo_on P c -> tpo_on P (revc b c).
Proof.
  intros T. destruct b; unfold revc, apply_reverse; [|exact T].
  split; [|split].
  - intros x y Px Py. rewrite (tpo_anti P c T x y Px Py). reflexivity.
  - intros x y z Px Py Pz H1 H2.
    assert (G1 : c x y = Gt) by (destruct (c x y); simpl in H1; congruence).
    assert (G2 : c y z = Gt) by (destruct (c y z); simpl in H2; congruence).
    pose proof (tpo_gt_lt P c T x y Px Py G1) as L1.
    pose proof (tpo_gt_lt P c T y z Py Pz G2) as L2.
    pose proof (tpo_lt_trans P c T z y x Pz Py Px L2 L1) as L3.
    rewrite (tpo_lt_gt P c T z x Pz Px L3). reflexivity.
  - intros x y z Px Py Pz H.
    assert (E : c x y = Eq) by (destruct (c x y); simpl in H; congruence).
    rewrite (tpo_eq_l P c T x y z Px Py Pz E). reflexivity.
Qed.

(** Disjoint sum: everything on the left is below everything on the right. *)
Definition sumcmp {L R} (cl : L -> L -> comparison) (cr : R -> R -> comparison)
  (x y : L + R) : comparison :=
  match x, y with
  | inl a, inl b => cl a b
  | inl _, inr _ => Lt
  | inr _, inl _ => Gt
  | inr a, inr b => cr a b
  end.

Definition sumP {L R} (PL : L -> Prop) (PR : R -> Prop) (x : L + R) : Prop :=
  match x with inl a => PL a | inr b => PR b end.

Lemma tpo_sum {L R} (PL : L -> Prop) (PR : R -> Prop) cl cr :
  tpo_on PL cl -> tpo_on PR cr -> tpo_on (sumP PL PR) (sumcmp cl cr).
Proof.
  intros TL TR. split; [|split].
  - intros [a|a] [b|b] Px Py; simpl in *; try reflexivity.
    + apply (tpo_anti PL cl TL); assumption.
    + apply (tpo_anti PR cr TR); assumption.
  - intros [a|a] [b|b] [d|d] Px Py Pz; simpl in *; try discriminate; try reflexivity.
    + apply (tpo_lt_trans PL cl TL); assumption.
    + apply (tpo_lt_trans PR cr TR); assumption.
  - intros [a|a] [b|b] [d|d] Px Py Pz; simpl in *; try discriminate; try reflexivity.
    + apply (tpo_eq_l PL cl TL); assumption.
    + apply (tpo_eq_l PR cr TR); assumption.
Qed.

(** Lexicographic lists. *)
Lemma tpo_lex {A} (P : A -> Prop) c :
  tpo_on P c -> tpo_on (Forall P) (lex c).
Proof.
  intros T. split; [|split].
  - induction x as [|a x IH]; intros [|b y] Px Py; simpl; try reflexivity.
    inversion Px; inversion Py; subst.
    rewrite (tpo_anti P c T a b) by assumption.
    destruct (c a b); simpl; try reflexivity. apply IH; assumption.
  - induction x as [|a x IH]; intros [|b y] [|d z] Px Py Pz; simpl; try discriminate; try reflexivity.
    intros L1 L2. inversion Px; inversion Py; inversion Pz; subst.
    destruct (c a b) eqn:E1; try discriminate.
    + rewrite (tpo_eq_l P c T a b d) by assumption.
      destruct (c b d) eqn:E2; try discriminate; try reflexivity.
      apply (IH y z); assumption.
    + destruct (c b d) eqn:E2; try discriminate.
      * rewrite <- (tpo_eq_r P c T b d a) by assumption. rewrite E1. reflexivity.
      * rewrite (tpo_lt_trans P c T a b d) by assumption. reflexivity.
  - induction x as [|a x IH]; intros [|b y] [|d z] Px Py Pz; simpl; try discriminate; try reflexivity.
    intros L1. inversion Px; inversion Py; inversion Pz; subst.
    destruct (c a b) eqn:E1; try discriminate.
    rewrite (tpo_eq_l P c T a b d) by assumption.
    destruct (c b d); try reflexivity. apply IH; assumption.
Qed.

Lemma lex_ext {A} (c c' : A -> A -> comparison) (P : A -> Prop) :
  (forall x y, P x -> P y -> c x y = c' x y) ->
  forall a b, Forall P a -> Forall P b -> lex c a b = lex c' a b.
Proof.
  intros E. induction a as [|x a IH]; intros [|y b] Pa Pb; simpl; try reflexivity.
  inversion Pa; inversion Pb; subst. rewrite E by assumption.
  destruct (c' x y); try reflexivity. apply IH; assumption.
Qed.

Lemma lex_map {A B} (c : B -> B -> comparison) (f : A -> B) :
  forall a b, lex c (map f a) (map f b) = lex (fun x y => c (f x) (f y)) a b.
Proof.
  induction a as [|x a IH]; intros [|y b]; simpl; try reflexivity.
  destruct (c (f x) (f y)); try reflexivity. apply IH.
Qed.

(** * Sorted permutations *)

Section Sorting.
Context {A : Type}.
Variable P : A -> Prop.
Variable c : A -> A -> comparison.
Hypothesis T : tpo_on P c.

(** Strongly sorted: every element is [<=] every later one. *)
Fixpoint ssorted (l : list A) : Prop :=
  match l with
  | [] => True
  | x :: r => Forall (fun y => c x y <> Gt) r /\ ssorted r
  end.

Lemma leb_c_true : forall x y, leb_c c x y = true <-> c x y <> Gt.
Proof. intros x y. unfold leb_c. destruct (c x y); split; congruence. Qed.

Lemma insert_perm : forall x l, Permutation (x :: l) (insert c x l).
Proof.
  induction l as [|y r IH]; simpl; [apply Permutation_refl|].
  destruct (leb_c c x y); [apply Permutation_refl|].
  eapply perm_trans; [apply perm_swap|]. apply perm_skip. exact IH.
Qed.

Lemma isort_perm : forall l, Permutation l (isort c l).
Proof.
  induction l as [|x r IH]; simpl; [constructor|].
  eapply perm_trans; [apply perm_skip; exact IH|]. apply insert_perm.
Qed.

Lemma Forall_perm : forall (Q : A -> Prop) l l', Permutation l l' -> Forall Q l -> Forall Q l'.
Proof. intros Q l l' HP HF. rewrite Forall_forall in *. intros z Hz. apply HF. eapply Permutation_in; [apply Permutation_sym; exact HP|exact Hz]. Qed.

Lemma insert_sorted : forall x l, P x -> Forall P l -> ssorted l -> ssorted (insert c x l).
Proof.
  induction l as [|y r IH]; intros Px Pl S; simpl.
  - split; [constructor|exact I].
  - inversion Pl as [|? ? Py Pr]; subst. destruct S as [Sy Sr].
    destruct (leb_c c x y) eqn:E.
    + apply leb_c_true in E. split; [|split; assumption].
      constructor; [exact E|].
      rewrite Forall_forall in *. intros z Hz.
      apply (tpo_le_trans P c T x y z); auto.
    + assert (G : c x y = Gt) by (unfold leb_c in E; destruct (c x y); congruence).
      split; [|apply IH; assumption].
      apply (Forall_perm _ (x :: r)); [apply insert_perm|].
      constructor; [|exact Sy].
      rewrite (tpo_gt_lt P c T x y Px Py G). discriminate.
Qed.

Lemma isort_sorted : forall l, Forall P l -> ssorted (isort c l).
Proof.
  induction l as [|x r IH]; intros Pl; simpl; [exact I|].
  inversion Pl; subst. apply insert_sorted; auto.
  apply (Forall_perm _ r); [apply isort_perm|assumption].
Qed.

(** Sorted permutations of one another agree when [Eq] means identity
    (strict total order): the result of sorting does not depend on the algorithm. *)
Lemma sorted_perm_unique :
  (forall x y, P x -> P y -> c x y = Eq -> x = y) ->
  forall l1 l2, Forall P l1 -> Permutation l1 l2 -> ssorted l1 -> ssorted l2 -> l1 = l2.
Proof.
  intros Strict. induction l1 as [|x r1 IH]; intros l2 P1 HP S1 S2.
  - apply Permutation_nil in HP. subst. reflexivity.
  - destruct l2 as [|y r2]; [apply Permutation_sym, Permutation_nil in HP; discriminate|].
    inversion P1 as [|? ? Px Pr1]; subst.
    assert (P2 : Forall P (y :: r2)) by (eapply Forall_perm; eauto).
    inversion P2 as [|? ? Py Pr2]; subst.
    destruct S1 as [Sx S1]. destruct S2 as [Sy S2].
    assert (x = y) as ->.
    { assert (Hxy : c x y <> Gt).
      { assert (In y (x :: r1)) as [->|Hin] by (eapply Permutation_in; [apply Permutation_sym; exact HP|left; reflexivity]).
        - rewrite (tpo_refl P c T y Py). discriminate.
        - rewrite Forall_forall in Sx. apply Sx. exact Hin. }
      assert (Hyx : c y x <> Gt).
      { assert (In x (y :: r2)) as [->|Hin] by (eapply Permutation_in; [exact HP|left; reflexivity]).
        - rewrite (tpo_refl P c T x Px). discriminate.
        - rewrite Forall_forall in Sy. apply Sy. exact Hin. }
      apply Strict; auto. apply (tpo_le_antisym P c T); auto. }
    f_equal. apply IH; auto. eapply Permutation_cons_inv; eauto.
Qed.

(** Consistency check of [sort_by] passes on a strongly sorted list. *)
Lemma all_pairs_ok_sorted : forall l, Forall P l -> ssorted l -> all_pairs_ok c l = true.
Proof.
  induction l as [|x r IH]; intros Pl S; simpl; [reflexivity|].
  inversion Pl as [|? ? Px Pr]; subst. destruct S as [Sx Sr].
  rewrite IH by assumption. rewrite Bool.andb_true_r.
  apply forallb_forall. intros y Hy.
  rewrite Forall_forall in Sx, Pr. specialize (Sx y Hy). specialize (Pr y Hy).
  rewrite (tpo_anti P c T x y Px Pr).
  unfold leb_c. destruct (c x y); simpl; congruence.
Qed.

Lemma sort_by_ok : forall l, Forall P l -> sort_by c l = Ok (isort c l).
Proof.
  intros l Pl. unfold sort_by.
  rewrite all_pairs_ok_sorted; [reflexivity| |apply isort_sorted; assumption].
  apply (Forall_perm _ l); [apply isort_perm|assumption].
Qed.

(** Reverse of a strongly sorted list is strongly sorted for the reversed comparison. *)
Lemma ssorted_app : forall l1 l2,
  ssorted l1 -> ssorted l2 -> (forall x y, In x l1 -> In y l2 -> c x y <> Gt) -> ssorted (l1 ++ l2).
Proof.
  induction l1 as [|x r IH]; intros l2 S1 S2 H; simpl; [exact S2|].
  destruct S1 as [Sx Sr]. split.
  - apply Forall_app. split; [exact Sx|]. rewrite Forall_forall. intros y Hy. apply H; [left; reflexivity|exact Hy].
  - apply IH; auto. intros a b Ha Hb. apply H; [right; exact Ha|exact Hb].
Qed.

End Sorting.

Lemma ssorted_rev {A} (P : A -> Prop) (c : A -> A -> comparison) :
  tpo_on P c -> forall l, Forall P l -> ssorted c l -> ssorted (revc true c) (rev l).
Proof.
  intros T. induction l as [|x r IH]; intros Pl S; simpl; [exact I|].
  inversion Pl as [|? ? Px Pr]; subst. destruct S as [Sx Sr].
  apply ssorted_app.
  - apply IH; assumption.
  - simpl. split; [constructor|exact I].
  - intros a b Ha [<-|[]]. apply in_rev in Ha.
    rewrite Forall_forall in Sx, Pr. specialize (Sx a Ha). specialize (Pr a Ha).
    unfold revc, apply_reverse. rewrite (tpo_anti P c T x a Px Pr).
    destruct (c x a); simpl; congruence.
Qed.

(** Stability of the insertion sort: elements that compare [Eq] keep their
    relative order.  Stated through filtering by an equivalence class closed
    predicate: the subsequence of elements equivalent to [z] is unchanged. *)
Section Stable.
Context {A : Type}.
Variable P : A -> Prop.
Variable c : A -> A -> comparison.
Hypothesis T : tpo_on P c.

Definition eqv_b (z x : A) : bool := match c z x with Eq => true | _ => false end.

Lemma insert_filter_in : forall z x l, P z -> P x -> Forall P l -> ssorted c l ->
  eqv_b z x = true -> filter (eqv_b z) (insert c x l) = x :: filter (eqv_b z) l.
Proof.
  induction l as [|y r IH]; intros Pz Px Pl S E; simpl.
  - rewrite E. reflexivity.
  - inversion Pl as [|? ? Py Pr]; subst. destruct S as [Sy Sr].
    destruct (leb_c c x y) eqn:L; simpl.
    + rewrite E. reflexivity.
    + assert (G : c x y = Gt) by (unfold leb_c in L; destruct (c x y); congruence).
      assert (Ezx : c z x = Eq) by (unfold eqv_b in E; destruct (c z x); congruence).
      assert (Ny : eqv_b z y = false).
      { unfold eqv_b. rewrite (tpo_eq_l P c T z x y Pz Px Py Ezx), G. reflexivity. }
      rewrite Ny. apply IH; assumption.
Qed.

Lemma insert_filter_out : forall z x l,
  eqv_b z x = false -> filter (eqv_b z) (insert c x l) = filter (eqv_b z) l.
Proof.
  induction l as [|y r IH]; intros E; simpl.
  - rewrite E. reflexivity.
  - destruct (leb_c c x y); simpl.
    + rewrite E. reflexivity.
    + destruct (eqv_b z y); [f_equal|]; apply IH; assumption.
Qed.

Lemma isort_stable : forall z l, P z -> Forall P l ->
  filter (eqv_b z) (isort c l) = filter (eqv_b z) l.
Proof.
  induction l as [|x r IH]; intros Pz Pl; simpl; [reflexivity|].
  inversion Pl as [|? ? Px Pr]; subst.
  destruct (eqv_b z x) eqn:E.
  - rewrite insert_filter_in; auto.
    + f_equal. apply IH; assumption.
    + apply (Forall_perm _ r); [apply isort_perm|assumption].
    + apply (isort_sorted P c T). assumption.
  - rewrite insert_filter_out by assumption. apply IH; assumption.
Qed.

End Stable.
