(** Non-vacuity: the hypotheses of the theorems of C03 / C04 / C19 are met by
    concrete configurations and histories (closed computations). *)

From DivanV Require Import Base.Res Generated.Consts Model.Timestamp Model.Loop Proofs.Loop Proofs.LoopProps Proofs.LoopTotal.
Local Open Scope N_scope.

Definition ex_oh0 : overheads := {| oh_loop := 0; oh_alloc := 0; oh_dealloc := 0; oh_realloc := 0 |}.

(** Test mode, explicit size 4, three threads. *)
Definition ex_test_cfg : cfg :=
  {| c_test := true; c_count := Some 5; c_size := Some 4; c_min := 9000; c_max := 1000; c_skip := false;
     c_freq := 1000000000000; c_prec := 1; c_oh := ex_oh0; c_input_counts := {| q_bytes := true; q_chars := false; q_cycles := false; q_items := true |} |}.

Example test_mode_example :
  c_test ex_test_cfg = true /\ zero_case ex_test_cfg = false /\
  exists st, bench_loop ex_test_cfg 0 [[ex_raw 1 2; ex_raw 1 3; ex_raw 0 9]; [ex_raw 5 6]] = Ok (Done st) /\
             s_sizes st = [1] /\ s_store st = store_empty.
Proof. split; [reflexivity|]. split; [reflexivity|]. eexists. split; [vm_compute; reflexivity|]. split; reflexivity. Qed.

(** Zero cases in both modes. *)
Example zero_example :
  bench_loop {| c_test := true; c_count := Some 0; c_size := None; c_min := 5; c_max := 7; c_skip := true;
                c_freq := 1; c_prec := 1; c_oh := ex_oh0; c_input_counts := qconst false |} 0 ex_hist
  = Ok (Done (init_state {| c_test := true; c_count := Some 0; c_size := None; c_min := 5; c_max := 7; c_skip := true;
                c_freq := 1; c_prec := 1; c_oh := ex_oh0; c_input_counts := qconst false |})).
Proof. reflexivity. Qed.

(** A time ceiling that binds: n = 5 on two threads would take three rounds,
    max_time = 700 ps is reached by the second round's latest end (720). *)
Definition ex_max_cfg : cfg :=
  {| c_test := false; c_count := Some 5; c_size := Some 3; c_min := 5000; c_max := 700; c_skip := false;
     c_freq := 1000000000000; c_prec := 1; c_oh := ex_oh0; c_input_counts := qconst false |}.

Example max_priority_example :
  c_test ex_max_cfg = false /\ has_samples ex_max_cfg = true /\
  c_max ex_max_cfg <= elapsed_after ex_max_cfg 0 ex_hist 2 /\
  elapsed_after ex_max_cfg 0 ex_hist 2 < c_min ex_max_cfg /\
  counted_after ex_max_cfg ex_hist 2 < sample_count_of ex_max_cfg /\
  exists out, bench_loop ex_max_cfg 0 ex_hist = Ok out /\ rounds_of (out_state out) = 2%nat /\ out_done out = true.
Proof.
  split; [reflexivity|]. split; [reflexivity|]. split; [vm_compute; discriminate|].
  split; [vm_compute; reflexivity|]. split; [vm_compute; reflexivity|].
  eexists. split; [vm_compute; reflexivity|]. split; reflexivity.
Qed.

(** skip_ext_time: three rounds of 300 / 330 / 300 ps count as 1000 ps each. *)
Definition ex_skip_cfg : cfg :=
  {| c_test := false; c_count := Some 1; c_size := Some 3; c_min := 3000; c_max := u128_max; c_skip := true;
     c_freq := 1000000000000; c_prec := 1; c_oh := ex_oh0; c_input_counts := qconst false |}.

Example skip_floor_example :
  elapsed_after ex_skip_cfg 0 ex_hist 3 = 3000 /\
  exists out, bench_loop ex_skip_cfg 0 ex_hist = Ok out /\ rounds_of (out_state out) = 3%nat /\ out_done out = true.
Proof. split; [vm_compute; reflexivity|]. eexists. split; [vm_compute; reflexivity|]. split; reflexivity. Qed.

(** The tuned run of [tune_example] meets the hypotheses of
    [threshold_round_counts] (j0 = 2, t = 2, n = 5: 2 + 3 rounds) and of [loop_total]. *)
Lemma ex_tune_uniform : uniform_p 2 ex_tune_hist.
Proof. intros o Ho. repeat (destruct Ho as [Ho|Ho]; [subst o; reflexivity|]). contradiction. Qed.

Example threshold_round_counts_example :
  c_test ex_tune_cfg = false /\ c_size ex_tune_cfg = None /\ has_samples ex_tune_cfg = true /\
  uniform_p 2 ex_tune_hist /\ first_pass ex_tune_cfg ex_tune_hist = Some 2%nat /\
  (2 + N.to_nat (ceil_div (sample_count_of ex_tune_cfg) 2) <= length ex_tune_hist)%nat /\
  (forall j, (j < 2 + 3)%nat -> elapsed_after ex_tune_cfg 0 ex_tune_hist j < c_max ex_tune_cfg) /\
  c_min ex_tune_cfg <= elapsed_after ex_tune_cfg 0 ex_tune_hist (2 + 3).
Proof.
  split; [reflexivity|]. split; [reflexivity|]. split; [reflexivity|]. split; [exact ex_tune_uniform|].
  split; [vm_compute; reflexivity|]. split; [vm_compute; lia|]. split.
  - intros j Hj. do 5 (destruct j as [|j]; [vm_compute; reflexivity|]). lia.
  - vm_compute. discriminate.
Qed.

Example loop_total_example :
  c_test ex_tune_cfg = false /\ c_freq ex_tune_cfg <> 0 /\ (0 < 2 ^ 64) /\
  (forall o, In o ex_tune_hist -> wf_round o) /\ c_prec ex_tune_cfg <> 0 /\ (length ex_tune_hist <= 31)%nat.
Proof.
  split; [reflexivity|]. split; [discriminate|]. split; [reflexivity|]. split.
  - intros o Ho. repeat (destruct Ho as [Ho|Ho]; [subst o; split; [discriminate|];
      intros r Hr; repeat (destruct Hr as [Hr|Hr]; [subst r; split; reflexivity|]); contradiction|]). contradiction.
  - split; [discriminate|]. cbn. lia.
Qed.
