(** C12: the tree [run_action] builds against a tree-free description.
    Every leaf's chain of (raw name, group slot) pairs is determined by its raw
    path alone: the slot at prefix P holds the last registered group whose key
    (module path + raw name) is P. *)
From Coq Require Import Permutation.
From DivanV Require Import Base.Res Model.Registry Model.Tree Model.Driver
  Proofs.TreeBase Proofs.DriverExec Proofs.TreeLeaves.
Local Open Scope N_scope.
Arguments mk_leaf : simpl never.

Definition chain := list (str * option group_entry).
Definition cleaf := (chain * any_entry * option (list N))%type.

Definition cprepend (x : str * option group_entry) (l : cleaf) : cleaf := (x :: fst (fst l), snd (fst l), snd l).

Fixpoint leaves_rel (t : tree) : list cleaf :=
  match t with
  | Leaf e a => [([], e, a)]
  | Parent r g ch => map (cprepend (r, g)) (flat_map leaves_rel ch)
  end.

Definition strip (x : cleaf) : rleaf := (map fst (fst (fst x)), snd (fst x), snd x).

Lemma strip_leaves_node : forall t, map strip (leaves_rel t) = raw_leaves_node t.
Proof.
  induction t as [e a|r g ch IH] using tree_ind'; [reflexivity|].
  cbn [leaves_rel raw_leaves_node]. rewrite map_map.
  assert (H : map strip (flat_map leaves_rel ch) = flat_map raw_leaves_node ch).
  { induction IH as [|x tl Hx Htl IHl]; [reflexivity|]. cbn [flat_map]. rewrite map_app, Hx, IHl. reflexivity. }
  rewrite <- H, map_map. apply map_ext. intros [[c e] a]. reflexivity.
Qed.

Lemma strip_leaves : forall l, map strip (flat_map leaves_rel l) = raw_leaves l.
Proof.
  induction l as [|x tl IH]; [reflexivity|]. cbn [flat_map]. rewrite map_app, strip_leaves_node, IH. reflexivity.
Qed.

(** ** What is executed is a function of the leaves' chains *)
Definition case_of (c : cfg) (pp : str) (po : option opts) (x : cleaf) : list xcase :=
  let ch := fst (fst x) in
  let e := snd (fst x) in
  let pp' := fold_left (fun p y => join_path p (chain_display y)) ch pp in
  let po' := fold_left (fun o y => merge_opts o (chain_opts y)) ch po in
  let path := join_path pp' (entry_display e) in
  let options := merge_opts po' (m_opts (entry_meta e)) in
  if leaf_ignored c options then []
  else match entry_runner e with
       | RPlain => [(entry_id e, path, None)]
       | RArgs _ vals => flat_map (arg_case e vals path) (match snd x with Some l => l | None => [] end)
       end.

Lemma flat_map_map : forall A B C (f : B -> list C) (g : A -> B) l,
  flat_map f (map g l) = flat_map (fun x => f (g x)) l.
Proof. intros A B C f g. induction l as [|x tl IH]; cbn; [reflexivity|]. rewrite IH. reflexivity. Qed.

Lemma exec_by_chains : forall c t pp po,
  exec_node c pp po t = flat_map (case_of c pp po) (leaves_rel t).
Proof.
  intros c. induction t as [e a|r g ch IH] using tree_ind'; intros pp po.
  - cbn [leaves_rel flat_map]. rewrite app_nil_r. reflexivity.
  - cbn [exec_node leaves_rel].
    set (path := join_path pp (display_name (Parent r g ch))).
    set (options := merge_opts po (node_opts (Parent r g ch))).
    assert (Hpre : forall x, case_of c pp po (cprepend (r, g) x) = case_of c path options x).
    { intros [[cx ex] ax]. unfold case_of, cprepend. cbn [fst snd fold_left].
      replace (join_path pp (chain_display (r, g))) with path by (destruct g; reflexivity).
      replace (merge_opts po (chain_opts (r, g))) with options by (destruct g; reflexivity).
      reflexivity. }
    rewrite flat_map_map. rewrite (flat_map_ext _ _ Hpre).
    clear Hpre. clearbody path options. induction IH as [|x tl Hx Htl IHl]; [reflexivity|].
    cbn [flat_map]. rewrite flat_map_app, Hx, IHl. reflexivity.
Qed.

Lemma exec_forest_by_chains : forall c l pp po,
  exec_forest c pp po l = flat_map (case_of c pp po) (flat_map leaves_rel l).
Proof.
  intros c l pp po. unfold exec_forest. induction l as [|x tl IH]; [reflexivity|].
  cbn [flat_map]. rewrite flat_map_app, exec_by_chains, IH. reflexivity.
Qed.

(** ** Looking a raw path up in a forest *)
Fixpoint find_parent (r : str) (l : list tree) : option (option group_entry * list tree) :=
  match l with
  | [] => None
  | Parent r' g ch :: tl => if str_eqb r' r then Some (g, ch) else find_parent r tl
  | Leaf _ _ :: tl => find_parent r tl
  end.

Fixpoint chain_of (rp : list str) (l : list tree) : chain :=
  match rp with
  | [] => []
  | r :: rest =>
      match find_parent r l with
      | Some (g, ch) => (r, g) :: chain_of rest ch
      | None => []
      end
  end.

Lemma find_parent_none : forall r l, ~ In r (parent_names l) -> find_parent r l = None.
Proof.
  intros r. induction l as [|x tl IH]; intro H; [reflexivity|].
  destruct x as [r' g ch|e a]; cbn [find_parent].
  - destruct (str_eqb r' r) eqn:E.
    + apply str_eqb_spec in E. subst. exfalso. apply H. left. reflexivity.
    + apply IH. intro Hin. apply H. right. exact Hin.
  - apply IH. exact H.
Qed.

Lemma find_parent_app : forall r l1 l2,
  find_parent r (l1 ++ l2) = match find_parent r l1 with Some x => Some x | None => find_parent r l2 end.
Proof.
  intros r. induction l1 as [|x tl IH]; intro l2; [reflexivity|].
  destruct x as [r' g ch|e a]; cbn [find_parent app]; [destruct (str_eqb r' r); [reflexivity|]|]; apply IH.
Qed.

Lemma find_parent_some_in : forall r l x, find_parent r l = Some x -> In r (parent_names l).
Proof.
  intros r. induction l as [|t tl IH]; intros x H; [discriminate|].
  destruct t as [r' g ch|e a]; cbn [find_parent] in H.
  - destruct (str_eqb r' r) eqn:E.
    + apply str_eqb_spec in E. subst. left. reflexivity.
    + right. apply (IH x H).
  - apply (IH x H).
Qed.

Lemma find_parent_unique : forall r g ch l,
  NoDup (parent_names l) -> In (Parent r g ch) l -> find_parent r l = Some (g, ch).
Proof.
  intros r g ch. induction l as [|x tl IH]; intros Hnd Hin; [contradiction|].
  destruct Hin as [Hin|Hin].
  - subst x. cbn [find_parent]. rewrite str_eqb_refl. reflexivity.
  - destruct x as [r' g' ch'|e a]; cbn [find_parent].
    + cbn in Hnd. inversion Hnd as [|? ? Hn Hnd']; subst.
      destruct (str_eqb r' r) eqn:E.
      * apply str_eqb_spec in E. subst. exfalso. apply Hn.
        unfold parent_names. apply in_flat_map. exists (Parent r g ch). split; [exact Hin|left; reflexivity].
      * apply IH; assumption.
    + apply IH; assumption.
Qed.

(** In a trie the chain of every leaf is what [chain_of] finds along its raw path. *)
Lemma chain_of_leaves_node : forall t, trie t -> forall l, In t l -> NoDup (parent_names l) ->
  Forall (fun x : cleaf => chain_of (map fst (fst (fst x))) l = fst (fst x)) (leaves_rel t).
Proof.
  induction t as [e a|r g ch IH] using tree_ind'; intros Ht l Hin Hnd.
  - cbn. constructor; [reflexivity|constructor].
  - cbn [leaves_rel]. inversion Ht as [|? ? ? Hn Hf]; subst.
    apply Forall_forall. intros x Hx. apply in_map_iff in Hx. destruct Hx as [y [Hy Hyin]]. subst x.
    apply in_flat_map in Hyin. destruct Hyin as [t' [Ht' Hy']].
    rewrite Forall_forall in IH, Hf.
    specialize (IH t' Ht' (Hf t' Ht') ch Ht' Hn). rewrite Forall_forall in IH. specialize (IH y Hy').
    unfold cprepend. cbn [fst snd map chain_of]. rewrite (find_parent_unique r g ch l Hnd Hin). rewrite IH. reflexivity.
Qed.

Lemma chain_of_leaves : forall l, trie_forest l ->
  Forall (fun x : cleaf => chain_of (map fst (fst (fst x))) l = fst (fst x)) (flat_map leaves_rel l).
Proof.
  intros l [Hnd Hall]. apply Forall_forall. intros x Hx. apply in_flat_map in Hx. destruct Hx as [t [Ht Hx]].
  rewrite Forall_forall in Hall.
  pose proof (chain_of_leaves_node t (Hall t Ht) l Ht Hnd) as H. rewrite Forall_forall in H. apply H. exact Hx.
Qed.

(** ** [insert_group] as a recursion on the key, and its effect on [chain_of] *)
Fixpoint ig (key : list str) (g : group_entry) (l : list tree) : list tree :=
  match key with
  | [] => l
  | k :: key' =>
      or_same l (update_first (is_parent_named k)
                   (match key' with [] => set_group g | _ :: _ => map_children (ig key' g) end) l)
  end.

Lemma update_first_ext : forall p f f' l, (forall x, f x = f' x) -> update_first p f l = update_first p f' l.
Proof.
  intros p f f' l H. induction l as [|x tl IH]; [reflexivity|]. cbn. rewrite H, IH. reflexivity.
Qed.

Lemma map_children_ext : forall f f' t, (forall l, f l = f' l) -> map_children f t = map_children f' t.
Proof. intros f f' [r g ch|e a] H; cbn; [rewrite H|]; reflexivity. Qed.

Lemma descend_ig : forall g raw comps l,
  descend comps (fun t => or_same t (update_first (is_parent_named raw) (set_group g) t)) l
  = ig (comps ++ [raw]) g l.
Proof.
  intros g raw. induction comps as [|c rest IH]; intro l; [reflexivity|].
  cbn [descend app ig]. destruct (rest ++ [raw]) as [|k key'] eqn:E.
  - destruct rest; discriminate.
  - f_equal. apply update_first_ext. intro x. apply map_children_ext. intro l0. rewrite IH. reflexivity.
Qed.

(** *** Where a group attaches.  The walk along the group's module path is exact;
    the final match is modulo a leading "r#": the group attaches to the first
    sibling whose name equals its raw name up to that prefix.  [attach_name] is
    that sibling's spelling (the group's own spelling if there is none), computed
    from the names in the forest only ([skel]). *)
Inductive skel := SLeaf | SNode (r : str) (ch : list skel).
Fixpoint skel_of (t : tree) : skel :=
  match t with Leaf _ _ => SLeaf | Parent r _ ch => SNode r (map skel_of ch) end.

Fixpoint attach_name (raw : str) (l : list skel) : str :=
  match l with
  | [] => raw
  | SNode r _ :: tl => if str_eqb (strip_raw r) (strip_raw raw) then r else attach_name raw tl
  | SLeaf :: tl => attach_name raw tl
  end.

Fixpoint skel_children (c : str) (l : list skel) : option (list skel) :=
  match l with
  | [] => None
  | SNode r ch :: tl => if str_eqb r c then Some ch else skel_children c tl
  | SLeaf :: tl => skel_children c tl
  end.

Fixpoint attach_last (comps : list str) (raw : str) (l : list skel) : str :=
  match comps with
  | [] => attach_name raw l
  | c :: rest => match skel_children c l with Some ch => attach_last rest raw ch | None => raw end
  end.

Definition raw_key_s (sk : list skel) (g : group_entry) : list str :=
  module_components (g_meta g) ++ [attach_last (module_components (g_meta g)) (m_raw (g_meta g)) sk].
Definition raw_key (l : list tree) (g : group_entry) : list str := raw_key_s (map skel_of l) g.

Lemma attach_name_strip : forall raw l, strip_raw (attach_name raw l) = strip_raw raw.
Proof.
  intros raw. induction l as [|[|r ch] tl IH]; cbn; [reflexivity|exact IH|].
  destruct (str_eqb (strip_raw r) (strip_raw raw)) eqn:E; [apply str_eqb_spec in E; exact E|exact IH].
Qed.

Lemma update_first_raw_named : forall raw f l,
  update_first (is_parent_named_raw raw) f l = update_first (is_parent_named (attach_name raw (map skel_of l))) f l.
Proof.
  intros raw f. induction l as [|x tl IH]; [reflexivity|]. cbn [map update_first].
  destruct x as [r g ch|e a]; cbn [skel_of attach_name is_parent_named_raw is_parent_named].
  - destruct (str_eqb (strip_raw r) (strip_raw raw)) eqn:E.
    + rewrite str_eqb_refl. reflexivity.
    + assert (Hn : str_eqb r (attach_name raw (map skel_of tl)) = false).
      { destruct (str_eqb r (attach_name raw (map skel_of tl))) eqn:E2; [|reflexivity].
        apply str_eqb_spec in E2. rewrite E2, attach_name_strip, str_eqb_refl in E. discriminate. }
      rewrite Hn, IH. reflexivity.
  - rewrite IH. reflexivity.
Qed.

Lemma update_first_children : forall m F1 F2 l,
  (forall ch, skel_children m (map skel_of l) = Some (map skel_of ch) -> F1 ch = F2 ch) ->
  update_first (is_parent_named m) (map_children F1) l = update_first (is_parent_named m) (map_children F2) l.
Proof.
  intros m F1 F2. induction l as [|x tl IH]; intro H; [reflexivity|]. cbn [update_first].
  destruct x as [r g ch|e a]; cbn [is_parent_named].
  - cbn [map skel_of skel_children] in H. destruct (str_eqb r m) eqn:E.
    + cbn [map_children]. rewrite (H ch eq_refl). reflexivity.
    + rewrite (IH H). reflexivity.
  - cbn [map skel_of skel_children] in H. rewrite (IH H). reflexivity.
Qed.

Lemma descend_ig_raw : forall g raw comps l,
  descend comps (fun t => or_same t (update_first (is_parent_named_raw raw) (set_group g) t)) l
  = ig (comps ++ [attach_last comps raw (map skel_of l)]) g l.
Proof.
  intros g raw. induction comps as [|c rest IH]; intro l.
  - cbn [descend app attach_last ig]. rewrite update_first_raw_named. reflexivity.
  - cbn [descend app ig attach_last].
    destruct (rest ++ [match skel_children c (map skel_of l) with
                       | Some ch => attach_last rest raw ch
                       | None => raw end]) as [|k key'] eqn:E; [destruct rest; discriminate|].
    f_equal. apply update_first_children. intros ch Hch. rewrite IH. rewrite Hch in E. rewrite E. reflexivity.
Qed.

Lemma insert_group_ig : forall l g, insert_group l g = ig (raw_key l g) g l.
Proof. intros. unfold insert_group, raw_key, raw_key_s. apply descend_ig_raw. Qed.

(** Group insertion changes no name: the attachment key of any group is the same before and after. *)
Lemma skel_update_first : forall p f l l',
  (forall x, skel_of (f x) = skel_of x) -> update_first p f l = Some l' -> map skel_of l' = map skel_of l.
Proof.
  intros p f. induction l as [|x tl IH]; intros l' Hf H; cbn in H; [discriminate|].
  destruct (p x).
  - inversion H; subst. cbn. rewrite Hf. reflexivity.
  - destruct (update_first p f tl) as [tl'|] eqn:E; [|discriminate]. inversion H; subst. cbn. rewrite (IH tl' Hf eq_refl). reflexivity.
Qed.

Lemma skel_ig : forall key g l, map skel_of (ig key g l) = map skel_of l.
Proof.
  induction key as [|k key' IH]; intros g l; [reflexivity|]. cbn [ig].
  destruct (update_first _ _ l) as [l'|] eqn:E; cbn [or_same]; [|reflexivity].
  eapply skel_update_first; [|exact E]. intros [r g0 ch|e a]; destruct key'; cbn [skel_of map_children set_group]; try reflexivity.
  rewrite IH. reflexivity.
Qed.

Lemma raw_key_ig : forall key g l g', raw_key (ig key g l) g' = raw_key l g'.
Proof. intros. unfold raw_key. rewrite skel_ig. reflexivity. Qed.

(** The built tree: every group inserted at the key fixed by the names of the benches' tree. *)
Definition attach_key (benches : list bench_entry) (groups : list group_entry) (g : group_entry) : list str :=
  raw_key (from_benches (all_entries benches groups)) g.

Lemma fold_insert_group_ig : forall groups T0 l,
  map skel_of l = map skel_of T0 ->
  fold_left insert_group groups l = fold_left (fun l g => ig (raw_key T0 g) g l) groups l.
Proof.
  induction groups as [|g gs IH]; intros T0 l H; [reflexivity|]. cbn [fold_left].
  rewrite insert_group_ig. assert (E : raw_key l g = raw_key T0 g) by (unfold raw_key; rewrite H; reflexivity).
  rewrite E. apply IH. rewrite skel_ig. exact H.
Qed.

Fixpoint upd (key : list str) (g : group_entry) (ch : chain) : chain :=
  match key, ch with
  | k :: key', (r, s) :: tl =>
      if str_eqb k r then match key' with [] => (r, Some g) :: tl | _ :: _ => (r, s) :: upd key' g tl end
      else ch
  | _, _ => ch
  end.

Lemma upd_nil : forall key g, upd key g [] = [].
Proof. intros [|k key'] g; reflexivity. Qed.

Lemma str_eqb_sym : forall a b, str_eqb a b = str_eqb b a.
Proof.
  intros a b. destruct (str_eqb a b) eqn:E1, (str_eqb b a) eqn:E2; try reflexivity.
  - apply str_eqb_spec in E1. subst. rewrite str_eqb_refl in E2. discriminate.
  - apply str_eqb_spec in E2. subst. rewrite str_eqb_refl in E1. discriminate.
Qed.

Lemma chain_of_ig : forall key g rp l, chain_of rp (ig key g l) = upd key g (chain_of rp l).
Proof.
  induction key as [|k key' IH]; intros g rp l; [cbn [ig upd]; reflexivity|].
  destruct rp as [|r rest]; [reflexivity|].
  cbn [ig]. set (f := match key' with [] => set_group g | _ :: _ => map_children (ig key' g) end).
  destruct (update_first (is_parent_named k) f l) as [l'|] eqn:E; cbn [or_same].
  - apply update_first_some in E. destruct E as [l1 [g0 [ch0 [l2 [H1 [H2 Hnot]]]]]]. subst l l'.
    cbn [chain_of]. rewrite !find_parent_app.
    destruct (find_parent r l1) as [[g1 ch1]|] eqn:E1.
    + (* found before the updated node: its name is not k *)
      assert (Hrk : str_eqb k r = false).
      { destruct (str_eqb k r) eqn:E2; [|reflexivity]. apply str_eqb_spec in E2. subst.
        exfalso. apply Hnot. eapply find_parent_some_in. exact E1. }
      cbn [upd]. rewrite Hrk. reflexivity.
    + assert (Hf : f (Parent k g0 ch0) = match key' with
                                         | [] => Parent k (Some g) ch0
                                         | _ :: _ => Parent k g0 (ig key' g ch0) end).
      { unfold f. destruct key'; reflexivity. }
      rewrite Hf. destruct (str_eqb k r) eqn:E2.
      * apply str_eqb_spec in E2. subst r.
        destruct key' as [|k2 key2]; cbn [find_parent]; rewrite str_eqb_refl; cbn [upd]; rewrite str_eqb_refl.
        -- reflexivity.
        -- rewrite IH. reflexivity.
      * assert (E3 : str_eqb k r = false) by exact E2.
        destruct key' as [|k2 key2]; cbn [find_parent]; rewrite E3;
          destruct (find_parent r l2) as [[g2 ch2]|]; cbn [upd]; try rewrite E3; reflexivity.
  - (* no parent named k *)
    pose proof (update_first_none _ _ _ E) as Hnot.
    cbn [chain_of]. destruct (find_parent r l) as [[g1 ch1]|] eqn:E1; [|rewrite upd_nil; reflexivity].
    assert (Hrk : str_eqb k r = false).
    { destruct (str_eqb k r) eqn:E2; [|reflexivity]. apply str_eqb_spec in E2. subst.
      exfalso. apply Hnot. eapply find_parent_some_in. exact E1. }
    cbn [upd]. rewrite Hrk. reflexivity.
Qed.

(** [kf]: the key under which each group attaches. *)
Definition upd_all (kf : group_entry -> list str) (groups : list group_entry) (ch : chain) : chain :=
  fold_left (fun ch g => upd (kf g) g ch) groups ch.

Lemma chain_of_fold_groups : forall kf groups rp l,
  chain_of rp (fold_left (fun l g => ig (kf g) g l) groups l) = upd_all kf groups (chain_of rp l).
Proof.
  intros kf. induction groups as [|g gs IH]; intros rp l; [reflexivity|].
  cbn [fold_left]. unfold upd_all. cbn [fold_left]. rewrite IH, chain_of_ig. reflexivity.
Qed.

(** ** Before group insertion all slots are empty *)
Fixpoint no_groups (t : tree) : bool :=
  match t with
  | Leaf _ _ => true
  | Parent _ None ch => forallb no_groups ch
  | Parent _ (Some _) _ => false
  end.

Lemma no_groups_from_path : forall e rest m, no_groups (from_path e m rest) = true.
Proof.
  intros e. induction rest as [|n r IH]; intro m; cbn [from_path no_groups forallb].
  - unfold mk_leaf. reflexivity.
  - rewrite IH. reflexivity.
Qed.

Lemma no_groups_insert_entry : forall e path t,
  forallb no_groups t = true -> forallb no_groups (insert_entry path e t) = true.
Proof.
  intros e. induction path as [|m rest IH]; intros t H; cbn [insert_entry].
  - apply forallb_app_intro; [exact H|]. unfold mk_leaf. reflexivity.
  - destruct (update_first _ _ t) as [t'|] eqn:E.
    + eapply update_first_forallb; [|exact E|exact H].
      intros [r [g|] ch|e0 a] Hx; cbn in *; try discriminate; [|reflexivity]. apply IH. exact Hx.
    + apply forallb_app_intro; [exact H|]. cbn [forallb]. rewrite no_groups_from_path. reflexivity.
Qed.

Lemma no_groups_from_benches : forall es, forallb no_groups (from_benches es) = true.
Proof.
  intro es. unfold from_benches. assert (H : forallb no_groups [] = true) by reflexivity.
  revert H. generalize (@nil tree). induction es as [|e es IH]; intros t H; cbn; [exact H|].
  apply IH. apply no_groups_insert_entry. exact H.
Qed.

Definition nones (rp : list str) : chain := map (fun r => (r, None)) rp.

Lemma leaves_rel_no_groups : forall t, no_groups t = true ->
  Forall (fun x : cleaf => fst (fst x) = nones (map fst (fst (fst x)))) (leaves_rel t).
Proof.
  induction t as [e a|r g ch IH] using tree_ind'; intro H.
  - constructor; [reflexivity|constructor].
  - destruct g as [g|]; [discriminate|]. cbn [no_groups] in H. cbn [leaves_rel].
    apply Forall_forall. intros x Hx. apply in_map_iff in Hx. destruct Hx as [y [Hy Hyin]]. subst x.
    apply in_flat_map in Hyin. destruct Hyin as [t' [Ht' Hy']].
    rewrite Forall_forall in IH. rewrite forallb_forall in H.
    specialize (IH t' Ht' (H t' Ht')). rewrite Forall_forall in IH. specialize (IH y Hy').
    unfold cprepend. cbn [fst snd map nones]. f_equal. exact IH.
Qed.

(** ** The chains of the final tree, by raw path alone *)
Definition keyed_chain (kf : group_entry -> list str) (groups : list group_entry) (rp : list str) : chain :=
  upd_all kf groups (nones rp).
Definition rekey (kf : group_entry -> list str) (groups : list group_entry) (x : rleaf) : cleaf :=
  (keyed_chain kf groups (fst (fst x)), snd (fst x), snd x).

Lemma build_tree_chains : forall benches groups x,
  In x (flat_map leaves_rel (build_tree benches groups)) -> x = rekey (attach_key benches groups) groups (strip x).
Proof.
  intros benches groups x Hx.
  set (T0 := from_benches (all_entries benches groups)).
  assert (HT0 : build_tree benches groups = fold_left insert_group groups T0) by reflexivity.
  assert (HT : build_tree benches groups = fold_left (fun l g => ig (raw_key T0 g) g l) groups T0).
  { rewrite HT0. apply fold_insert_group_ig. reflexivity. }
  pose proof (chain_of_leaves _ (modules_merged benches groups)) as HC. rewrite Forall_forall in HC.
  specialize (HC x Hx). rewrite HT in HC. rewrite chain_of_fold_groups in HC.
  (* the same raw leaf exists in T0, where all slots are empty *)
  assert (Hraw : In (strip x) (raw_leaves T0)).
  { rewrite <- (raw_leaves_fold_groups groups T0). rewrite <- HT0. rewrite <- strip_leaves. apply in_map. exact Hx. }
  rewrite <- strip_leaves in Hraw. apply in_map_iff in Hraw. destruct Hraw as [x0 [Hs Hx0]].
  pose proof (chain_of_leaves T0 (trie_from_benches _)) as HC0. rewrite Forall_forall in HC0. specialize (HC0 x0 Hx0).
  assert (HN : fst (fst x0) = nones (map fst (fst (fst x0)))).
  { apply in_flat_map in Hx0. destruct Hx0 as [t [Ht Hx0]].
    pose proof (no_groups_from_benches (all_entries benches groups)) as Hng. rewrite forallb_forall in Hng.
    pose proof (leaves_rel_no_groups t (Hng t Ht)) as HF. rewrite Forall_forall in HF. apply HF. exact Hx0. }
  assert (Hrp : map fst (fst (fst x0)) = map fst (fst (fst x))) by (unfold strip in Hs; congruence).
  rewrite Hrp in HC0, HN. rewrite HC0, HN in HC.
  destruct x as [[ch e] a]. unfold rekey, strip, keyed_chain, attach_key. fold T0. cbn [fst snd] in *. f_equal. f_equal. symmetry. exact HC.
Qed.

Lemma build_tree_leaves_rel : forall benches groups,
  flat_map leaves_rel (build_tree benches groups)
  = map (rekey (attach_key benches groups) groups) (raw_leaves (build_tree benches groups)).
Proof.
  intros. rewrite <- strip_leaves, map_map.
  rewrite <- (map_id (flat_map leaves_rel (build_tree benches groups))) at 1.
  apply map_ext_in. intros x Hx. apply build_tree_chains in Hx. exact Hx.
Qed.

(** What runs, said per entry: the entry's raw path decides names and options. *)
Definition keyed_case (c : cfg) (kf : group_entry -> list str) (groups : list group_entry) (e : any_entry) : list xcase :=
  case_of c [] None (rekey kf groups (rleaf_of e)).

Lemma Permutation_flat_map_l : forall A B (f : A -> list B) l l',
  Permutation l l' -> Permutation (flat_map f l) (flat_map f l').
Proof. intros. apply Permutation_flat_map. assumption. Qed.

Lemma exec_keyed : forall c benches groups,
  Permutation (exec_forest c [] None (build_tree benches groups))
              (flat_map (keyed_case c (attach_key benches groups) groups) (all_entries benches groups)).
Proof.
  intros c benches groups. rewrite exec_forest_by_chains, build_tree_leaves_rel.
  set (kf := attach_key benches groups).
  unfold keyed_case. rewrite <- (flat_map_map _ _ _ (case_of c [] None) (fun e => rekey kf groups (rleaf_of e))).
  apply Permutation_flat_map_l. rewrite <- (map_map rleaf_of (rekey kf groups)). apply Permutation_map. apply tree_complete.
Qed.

Lemma filter_perm : forall A (p : A -> bool) l l', Permutation l l' -> Permutation (filter p l) (filter p l').
Proof.
  intros A p l l' H. induction H; cbn.
  - constructor.
  - destruct (p x); [constructor|]; assumption.
  - destruct (p x), (p y); [apply perm_swap| | |]; apply Permutation_refl.
  - eapply Permutation_trans; eassumption.
Qed.

Lemma exec_keyed_filtered : forall c benches groups,
  Permutation (exec_forest c [] None (retain (c_filter c) (build_tree benches groups)))
              (filter (fun x => c_filter c (xpath x))
                      (flat_map (keyed_case c (attach_key benches groups) groups) (all_entries benches groups))).
Proof.
  intros. rewrite exec_retain by apply wf_build_tree. apply filter_perm. apply exec_keyed.
Qed.

(** ** Registration order does not matter when group keys are distinct *)
Lemma upd_head_false : forall k key' g r s tl, str_eqb k r = false -> upd (k :: key') g ((r, s) :: tl) = (r, s) :: tl.
Proof. intros. cbn [upd]. rewrite H. reflexivity. Qed.

Lemma upd_last : forall k g r s tl, upd [k] g ((r, s) :: tl) = if str_eqb k r then (r, Some g) :: tl else (r, s) :: tl.
Proof. reflexivity. Qed.

Lemma upd_more : forall k k2 key' g r s tl,
  upd (k :: k2 :: key') g ((r, s) :: tl) = if str_eqb k r then (r, s) :: upd (k2 :: key') g tl else (r, s) :: tl.
Proof. reflexivity. Qed.

Lemma upd_comm : forall ch k1 g1 k2 g2, k1 <> k2 ->
  upd k1 g1 (upd k2 g2 ch) = upd k2 g2 (upd k1 g1 ch).
Proof.
  induction ch as [|[r s] tl IH]; intros k1 g1 k2 g2 Hne.
  - rewrite !upd_nil. reflexivity.
  - destruct k1 as [|a k1']; [reflexivity|]. destruct k2 as [|b k2']; [reflexivity|].
    destruct (str_eqb a r) eqn:Ea, (str_eqb b r) eqn:Eb.
    + apply str_eqb_spec in Ea, Eb. subst a b.
      destruct k1' as [|a1 k1''], k2' as [|b1 k2''].
      * congruence.
      * rewrite upd_more, upd_last, str_eqb_refl, upd_more, upd_last, !str_eqb_refl. reflexivity.
      * rewrite upd_last, upd_more, str_eqb_refl, upd_last, upd_more, !str_eqb_refl. reflexivity.
      * rewrite !upd_more, !str_eqb_refl, !upd_more, !str_eqb_refl. f_equal. apply IH. congruence.
    + rewrite (upd_head_false b k2' g2 r s tl Eb).
      destruct k1' as [|a1 k1'']; [rewrite upd_last|rewrite upd_more]; rewrite Ea; apply eq_sym; apply upd_head_false; exact Eb.
    + rewrite (upd_head_false a k1' g1 r s tl Ea).
      destruct k2' as [|b1 k2'']; [rewrite upd_last|rewrite upd_more]; rewrite Eb; apply upd_head_false; exact Ea.
    + rewrite (upd_head_false b k2' g2 r s tl Eb), (upd_head_false a k1' g1 r s tl Ea).
      apply eq_sym. apply upd_head_false. exact Eb.
Qed.

Lemma upd_all_perm : forall kf gs gs', Permutation gs gs' -> NoDup (map kf gs) ->
  forall ch, upd_all kf gs ch = upd_all kf gs' ch.
Proof.
  intros kf gs gs' H. induction H as [|x l l' Hp IH|x y l|l l' l'' H1 IH1 H2 IH2]; intros Hnd ch.
  - reflexivity.
  - unfold upd_all. cbn [fold_left]. cbn in Hnd. inversion Hnd; subst. apply IH. assumption.
  - unfold upd_all. cbn [fold_left]. f_equal. cbn in Hnd. inversion Hnd as [|? ? Hn _]; subst.
    apply upd_comm. intro E. apply Hn. left. exact E.
  - rewrite IH1 by exact Hnd. apply IH2. eapply Permutation_NoDup; [|exact Hnd]. apply Permutation_map. exact H1.
Qed.

Lemma upd_all_ext : forall kf kf' gs, (forall g, In g gs -> kf g = kf' g) -> forall ch, upd_all kf gs ch = upd_all kf' gs ch.
Proof.
  intros kf kf'. induction gs as [|g tl IH]; intros H ch; [reflexivity|]. unfold upd_all. cbn [fold_left].
  rewrite (H g (or_introl eq_refl)). apply IH. intros x Hx. apply H. right. exact Hx.
Qed.

Lemma all_entries_perm : forall b b' g g',
  Permutation b b' -> Permutation g g' -> Permutation (all_entries b g) (all_entries b' g').
Proof.
  intros. unfold all_entries. apply Permutation_app; [apply Permutation_map|apply Permutation_flat_map]; assumption.
Qed.

(** The attachment keys are those of the first tree; the second registry must attach its groups at the same keys
    (it does when no two sibling modules differ only by a leading "r#"). *)
Lemma order_independent : forall c benches groups benches' groups',
  Permutation benches benches' -> Permutation groups groups' ->
  NoDup (map (attach_key benches groups) groups) ->
  (forall g, In g groups -> attach_key benches' groups' g = attach_key benches groups g) ->
  Permutation (exec_forest c [] None (retain (c_filter c) (build_tree benches groups)))
              (exec_forest c [] None (retain (c_filter c) (build_tree benches' groups'))).
Proof.
  intros c b g b' g' Hb Hg Hnd Hkf.
  eapply Permutation_trans; [apply exec_keyed_filtered|].
  eapply Permutation_trans; [|apply Permutation_sym; apply exec_keyed_filtered].
  apply filter_perm.
  eapply Permutation_trans; [apply Permutation_flat_map_l; apply (all_entries_perm _ _ _ _ Hb Hg)|].
  assert (He : forall e, keyed_case c (attach_key b g) g e = keyed_case c (attach_key b' g') g' e).
  { intro e. unfold keyed_case, rekey, keyed_chain. rewrite (upd_all_perm _ g g' Hg Hnd).
    rewrite (upd_all_ext (attach_key b g) (attach_key b' g') g').
    - reflexivity.
    - intros x Hx. symmetry. apply Hkf. apply (Permutation_in x (Permutation_sym Hg)). exact Hx. }
  rewrite (flat_map_ext _ _ He). apply Permutation_refl.
Qed.

(** ** Every registered case runs exactly once (include-ignored, no filter) *)
Definition entry_calls (e : any_entry) : list (N * option value) :=
  match entry_runner e with
  | RPlain => [(entry_id e, None)]
  | RArgs _ vals => map (fun v => (entry_id e, Some v)) vals
  end.
Definition call_of (x : xcase) : N * option value :=
  (fst (fst x), match snd x with Some iv => Some (snd iv) | None => None end).

Lemma arg_cases_all : forall e path vals pre,
  map call_of (flat_map (arg_case e (pre ++ vals) path) (map N.of_nat (seq (length pre) (length vals))))
  = map (fun v => (entry_id e, Some v)) vals.
Proof.
  intros e path. induction vals as [|v tl IH]; intro pre; [reflexivity|].
  cbn [length seq map flat_map]. unfold arg_case at 1. rewrite Nat2N.id.
  rewrite nth_error_app2 by lia. rewrite Nat.sub_diag. cbn [nth_error app map call_of fst snd]. f_equal.
  specialize (IH (pre ++ [v])). rewrite <- app_assoc in IH. cbn [app] in IH.
  rewrite app_length in IH. cbn [length] in IH. rewrite Nat.add_1_r in IH. exact IH.
Qed.

Definition cfg_all : cfg :=
  {| c_run_ignored := RIYes; c_opts := {| o_ignore := None; o_sample_count := None |}; c_filter := fun _ => true; c_threads := [] |}.

Lemma leaf_ignored_all : forall o, leaf_ignored cfg_all o = false.
Proof. intros [[[[]|] sc]|]; reflexivity. Qed.

Lemma keyed_case_all : forall kf groups e, map call_of (keyed_case cfg_all kf groups e) = entry_calls e.
Proof.
  intros kf groups e. unfold keyed_case, case_of, entry_calls. rewrite leaf_ignored_all.
  unfold rleaf_of, rekey, leaf_args. cbn [fst snd]. destruct (entry_runner e) as [|o vals]; [reflexivity|].
  unfold index_list. apply (arg_cases_all e _ vals []).
Qed.

Lemma map_flat_map : forall A B C (f : B -> C) (g : A -> list B) l,
  map f (flat_map g l) = flat_map (fun x => map f (g x)) l.
Proof. intros A B C f g. induction l as [|x tl IH]; cbn; [reflexivity|]. rewrite map_app, IH. reflexivity. Qed.

Lemma all_run_once : forall benches groups,
  Permutation (map call_of (exec_forest cfg_all [] None (retain (c_filter cfg_all) (build_tree benches groups))))
              (flat_map entry_calls (all_entries benches groups)).
Proof.
  intros benches groups.
  eapply Permutation_trans; [apply Permutation_map; apply exec_keyed_filtered|].
  rewrite filter_all by (intros; reflexivity).
  rewrite map_flat_map. rewrite (flat_map_ext _ _ (keyed_case_all (attach_key benches groups) groups)). apply Permutation_refl.
Qed.

(** ** F8: a module and a generic function of the same name share a node.
    crate "c": [#[bench_group(name = "G", ignore)] mod f { #[bench] fn a() {} }] beside
    [#[bench(types = [T])] fn f<T>() {}].  The tree runs [c::f::a] although its
    group says ignore, and whether it does depends on the registration order. *)
Definition w_c : str := [99].
Definition w_f : str := [102].
Definition w_a : str := [97].
Definition w_G : str := [71].
Definition w_cf : str := [99; 58; 58; 102].
Definition w_opts_ign : opts := {| o_ignore := Some true; o_sample_count := None |}.
Definition w_bench_a : bench_entry :=
  {| b_id := 0; b_meta := {| m_display := w_a; m_raw := w_a; m_modpath := w_cf; m_line := 2; m_col := 5; m_opts := None |};
     b_runner := RPlain |}.
Definition w_mod_group : group_entry :=
  {| g_id := 10; g_meta := {| m_display := w_G; m_raw := w_f; m_modpath := w_c; m_line := 1; m_col := 1; m_opts := Some w_opts_ign |};
     g_generic := None |}.
Definition w_fn_group : group_entry :=
  {| g_id := 11; g_meta := {| m_display := w_f; m_raw := w_f; m_modpath := w_c; m_line := 4; m_col := 1; m_opts := None |};
     g_generic := Some [[ {| ge_id := 1; ge_runner := RPlain; ge_kind := GType [105] |} ]] |}.
Definition cfg_plain : cfg :=
  {| c_run_ignored := RINo; c_opts := {| o_ignore := None; o_sample_count := None |}; c_filter := fun _ => true; c_threads := [] |}.

Definition runs_a (l : list xcase) : bool := existsb (fun x => fst (fst x) =? 0) l.

Example name_clash_refuted :
  (* the intended (flat) semantics: [a] is ignored *)
  runs_a (flat_exec cfg_plain [w_bench_a] [w_mod_group; w_fn_group]) = false /\
  (* the tree: [a] runs when the function's entry is registered after the module's ... *)
  runs_a (exec_forest cfg_plain [] None (build_tree [w_bench_a] [w_mod_group; w_fn_group])) = true /\
  (* ... and does not in the other registration order *)
  runs_a (exec_forest cfg_plain [] None (build_tree [w_bench_a] [w_fn_group; w_mod_group])) = false.
Proof. repeat split; vm_compute; reflexivity. Qed.

(** ** F8, second member: two generic functions of the same name under one
    module path (nested in different function bodies: [module_path!()] omits the
    enclosing function) share one node and one group slot.  A function that
    leaves a field unset takes the other's setting when that one is registered
    last; if both set the field, each leaf's own options decide and nothing leaks. *)
Definition s_gen (gid eid : N) (ty : str) (o : option opts) : group_entry :=
  {| g_id := gid; g_meta := {| m_display := w_f; m_raw := w_f; m_modpath := w_c; m_line := gid; m_col := 1; m_opts := o |};
     g_generic := Some [[ {| ge_id := eid; ge_runner := RPlain; ge_kind := GType ty |} ]] |}.
Definition s_first : group_entry := s_gen 20 1 [105] (Some w_opts_ign).                (* ignore = true *)
Definition s_second_unset : group_entry := s_gen 21 2 [106] None.                       (* no options *)
Definition s_second_set : group_entry :=
  s_gen 21 2 [106] (Some {| o_ignore := Some false; o_sample_count := None |}).         (* ignore = false *)
Definition runs_id (id : N) (l : list xcase) : bool := existsb (fun x => fst (fst x) =? id) l.

Example same_name_generic_refuted :
  (* as written: the second function's benchmark is not ignored *)
  runs_id 2 (flat_exec cfg_plain [] [s_first; s_second_unset]) = true /\
  (* the tree agrees when the second function is registered last ... *)
  runs_id 2 (exec_forest cfg_plain [] None (build_tree [] [s_first; s_second_unset])) = true /\
  (* ... and ignores it when the first one is *)
  runs_id 2 (exec_forest cfg_plain [] None (build_tree [] [s_second_unset; s_first])) = false.
Proof. repeat split; vm_compute; reflexivity. Qed.

Example same_name_generic_both_set :
  runs_id 2 (exec_forest cfg_plain [] None (build_tree [] [s_first; s_second_set])) = true /\
  runs_id 2 (exec_forest cfg_plain [] None (build_tree [] [s_second_set; s_first])) = true /\
  runs_id 1 (exec_forest cfg_plain [] None (build_tree [] [s_first; s_second_set])) = false /\
  runs_id 1 (exec_forest cfg_plain [] None (build_tree [] [s_second_set; s_first])) = false.
Proof. repeat split; vm_compute; reflexivity. Qed.
