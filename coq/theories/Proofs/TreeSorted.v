(** Sorting the descendants of a node does not change what the sibling
    comparator sees of it (address, kind, name, constant, location — the
    earliest location among the children is independent of their order), hence
    the output of [sort_forest] is sorted at every level with respect to the
    comparator evaluated on the output's own nodes. *)

From Coq Require Import Permutation QArith.
From DivanV Require Import Base.Res Generated.Consts Model.Natural Model.SortBy Model.ArgCmp Model.TreeCmp
  Proofs.SortCmp Proofs.SortUniq Proofs.Natural Proofs.ArgCmp Proofs.TreeCmp Proofs.TreeSort.
Local Open Scope N_scope.

(** * The minimum location is order independent *)

Lemma bytes_cmp_eq : forall a b, bytes_cmp a b = Eq -> a = b.
Proof.
  unfold bytes_cmp. induction a as [|x a IH]; intros [|y b]; simpl; try discriminate; [reflexivity|].
  destruct (x ?= y) eqn:E; try discriminate. apply N.compare_eq in E. subst y.
  intros H. f_equal. apply IH. exact H.
Qed.

Lemma loc_cmp_eq : forall a b, loc_cmp a b = Eq -> a = b.
Proof.
  intros [fa [la ca]] [fb [lb cb]]. unfold loc_cmp. simpl.
  destruct (bytes_cmp fa fb) eqn:E1; try discriminate. apply bytes_cmp_eq in E1. subst fb.
  destruct (la ?= lb) eqn:E2; try discriminate. apply N.compare_eq in E2. subst lb.
  intros E3. apply N.compare_eq in E3. subst cb. reflexivity.
Qed.

Definition is_min (m : loc) (ol : list (option loc)) : Prop :=
  In (Some m) ol /\ forall x, In (Some x) ol -> loc_cmp m x <> Gt.

Definition fold_min (ol : list (option loc)) : option loc := fold_right min_opt_loc None ol.

Lemma fold_min_spec : forall ol,
  match fold_min ol with
  | None => forall x, ~ In (Some x) ol
  | Some m => is_min m ol
  end.
Proof.
  pose proof tpo_loc_cmp as T.
  induction ol as [|o r IH]; simpl.
  - intros x [].
  - unfold fold_min in *. simpl. destruct (fold_right min_opt_loc None r) as [m|] eqn:E.
    + destruct o as [x|]; simpl.
      * destruct IH as [Hin Hmin]. destruct (loc_cmp m x) eqn:C.
        -- split; [left; reflexivity|]. intros y [[= <-]|Hy].
           ++ rewrite (tpo_refl all _ T x I). discriminate.
           ++ apply loc_cmp_eq in C. subst x. apply Hmin. exact Hy.
        -- split; [right; exact Hin|]. intros y [[= <-]|Hy]; [rewrite C; discriminate|apply Hmin; exact Hy].
        -- split; [left; reflexivity|]. intros y [[= <-]|Hy].
           ++ rewrite (tpo_refl all _ T x I). discriminate.
           ++ apply (tpo_le_trans all _ T x m y I I I); [|apply Hmin; exact Hy].
              rewrite (tpo_gt_lt all _ T m x I I C). discriminate.
      * destruct IH as [Hin Hmin]. split; [right; exact Hin|].
        intros y [Hy|Hy]; [discriminate|apply Hmin; exact Hy].
    + destruct o as [x|]; simpl.
      * split; [left; reflexivity|]. intros y [[= <-]|Hy]; [|exfalso; eapply IH; eauto].
        rewrite (tpo_refl all _ T x I). discriminate.
      * intros y [Hy|Hy]; [discriminate|eapply IH; eauto].
Qed.

Lemma is_min_unique : forall ol m m', is_min m ol -> is_min m' ol -> m = m'.
Proof.
  intros ol m m' [I1 H1] [I2 H2]. apply loc_cmp_eq.
  apply (tpo_le_antisym all _ tpo_loc_cmp m m' I I); [apply H1; exact I2|apply H2; exact I1].
Qed.

Lemma fold_min_perm : forall ol ol', Permutation ol ol' -> fold_min ol = fold_min ol'.
Proof.
  intros ol ol' HP. pose proof (fold_min_spec ol) as S1. pose proof (fold_min_spec ol') as S2.
  destruct (fold_min ol) as [m|]; destruct (fold_min ol') as [m'|]; try reflexivity.
  - f_equal. apply (is_min_unique ol' m m'); [|exact S2].
    destruct S1 as [Hin Hmin]. split.
    + eapply Permutation_in; eauto.
    + intros x Hx. apply Hmin. eapply Permutation_in; [apply Permutation_sym; exact HP|exact Hx].
  - exfalso. destruct S1 as [Hin _]. apply (S2 m). eapply Permutation_in; eauto.
  - exfalso. destruct S2 as [Hin _]. apply (S1 m'). eapply Permutation_in; [apply Permutation_sym; exact HP|exact Hin].
Qed.

Lemma location_parent : forall raw ch,
  location (Parent raw None ch) = fold_min (map location ch).
Proof.
  intros raw ch. unfold fold_min. simpl.
  induction ch as [|c r IH]; simpl; [reflexivity|]. rewrite IH. reflexivity.
Qed.

(** * What the comparator sees is invariant *)

Section Invariance.
Variable V : Type.
Variable vcmp : V -> V -> comparison.
Variable fparse : bytes -> option V.
Notation sorted_perm := (sorted_perm V vcmp fparse).

Lemma sp_location : forall attr rev t t', sorted_perm attr rev t t' -> location t' = location t.
Proof.
  intros attr rev. fix IH 3. intros t t' H.
  destruct H as [a n c l|a n c l args L PL SL|raw g ch mid ch' PM SM F2]; try reflexivity.
  destruct g as [[[ga gn] gl]|]; [reflexivity|].
  rewrite !location_parent.
  assert (E : forall m c', Forall2 (sorted_perm attr rev) m c' -> map location c' = map location m).
  { clear -IH. fix IHl 3. intros m c' F.
    destruct F as [|x y l l' Hxy Hl]; simpl; [reflexivity|].
    f_equal; [apply IH; exact Hxy|apply IHl; exact Hl]. }
  rewrite (E mid ch' F2). apply fold_min_perm. apply Permutation_map. apply Permutation_sym. exact PM.
Qed.

Lemma sp_shallow : forall attr rev t t', sorted_perm attr rev t t' ->
  entry_addr t' = entry_addr t /\ kind t' = kind t /\ display_name t' = display_name t /\
  leaf_const t' = leaf_const t.
Proof. intros attr rev t t' H. destruct H; repeat split; reflexivity. Qed.

Lemma sp_cmp : forall attr rev a x x' y y',
  sorted_perm attr rev x x' -> sorted_perm attr rev y y' ->
  cmp_by_attr a x' y' = cmp_by_attr a x y.
Proof.
  intros attr rev a x x' y y' Hx Hy.
  destruct (sp_shallow _ _ _ _ Hx) as (Ax & Kx & Nx & Cx).
  destruct (sp_shallow _ _ _ _ Hy) as (Ay & Ky & Ny & Cy).
  pose proof (sp_location _ _ _ _ Hx) as Lx. pose proof (sp_location _ _ _ _ Hy) as Ly.
  assert (EA : addr_ordering x' y' = addr_ordering x y) by (unfold addr_ordering; rewrite Ax, Ay; reflexivity).
  assert (EC : forall b, attr_cmp_tree b x' y' = attr_cmp_tree b x y).
  { intros [| |]; unfold attr_cmp_tree.
    - rewrite Kx, Ky. reflexivity.
    - unfold name_cmp_tree. rewrite Cx, Cy, Nx, Ny. reflexivity.
    - rewrite Lx, Ly, EA. reflexivity. }
  unfold cmp_by_attr. rewrite EA.
  assert (ECs : forall l, cascade (map attr_cmp_tree l) x' y' = cascade (map attr_cmp_tree l) x y).
  { induction l as [|b l IHl]; simpl; [reflexivity|]. rewrite EC, IHl. reflexivity. }
  rewrite ECs. reflexivity.
Qed.

Lemma ssorted_F2 {A} (R : A -> A -> Prop) (c : A -> A -> comparison) :
  (forall x x' y y', R x x' -> R y y' -> c x' y' = c x y) ->
  forall l l', Forall2 R l l' -> ssorted c l -> ssorted c l'.
Proof.
  intros HR. induction 1 as [|x x' l l' Hx Hl IH]; intros S; simpl; [exact I|].
  destruct S as [Sx Sl]. split; [|apply IH; exact Sl].
  clear IH Sl. induction Hl as [|y y' r r' Hy Hr IHr]; [constructor|].
  inversion Sx; subst. constructor; [rewrite (HR x x' y y' Hx Hy); assumption|apply IHr; assumption].
Qed.

(** Sorted at every level, the comparator being evaluated on the output. *)
Inductive tree_sorted (attr : sort_attr) (rev : bool) : tree -> Prop :=
| TS_leaf : forall a n c l args, tree_sorted attr rev (Leaf a n c l args)
| TS_parent : forall raw g ch,
    ssorted (revc rev (cmp_by_attr attr)) ch -> Forall (tree_sorted attr rev) ch ->
    tree_sorted attr rev (Parent raw g ch).

Lemma sp_tree_sorted : forall attr rev t t', sorted_perm attr rev t t' -> tree_sorted attr rev t'.
Proof.
  intros attr rev. fix IH 3. intros t t' H.
  destruct H as [a n c l|a n c l args L PL SL|raw g ch mid ch' PM SM F2]; try constructor.
  - apply (ssorted_F2 (sorted_perm attr rev) _) with (l := mid); [|exact F2|exact SM].
    intros x x' y y' Hx Hy. unfold revc. rewrite (sp_cmp attr rev attr x x' y y' Hx Hy). reflexivity.
  - assert (E : forall m c', Forall2 (sorted_perm attr rev) m c' -> Forall (tree_sorted attr rev) c').
    { clear -IH. fix IHl 3. intros m c' F.
      destruct F as [|x y l l' Hxy Hl]; [constructor|].
      constructor; [eapply IH; exact Hxy|eapply IHl; exact Hl]. }
    exact (E mid ch' F2).
Qed.

(** The statement used by Properties/C16.v. *)
Lemma sort_forest_total_sorted : forall attr rev ts,
  sib_ok ts -> Forall (wf_tree V vcmp fparse) ts ->
  exists ts', sort_forest V vcmp fparse attr rev ts = Ok ts' /\
    tree_perm (Parent [] None ts) (Parent [] None ts') /\
    sorted_perm attr rev (Parent [] None ts) (Parent [] None ts') /\
    tree_sorted attr rev (Parent [] None ts').
Proof.
  intros attr rev ts Hs Hw.
  destruct (sort_forest_total V vcmp fparse attr rev ts Hs Hw) as (ts' & E & SP & TP).
  exists ts'. split; [exact E|split; [exact TP|split; [exact SP|]]].
  eapply sp_tree_sorted. exact SP.
Qed.

End Invariance.

(** Any two sorted permutations of a sibling set (whatever the sorting
    algorithm, stable or not) agree position by position up to [Equal]: the
    printed order is determined except inside tie classes. *)
Lemma siblings_unique_upto_ties : forall (S : tree -> Prop) attr rev,
  addr_identity S -> loc_addr_uniform S -> consts_uniform S ->
  let c := revc rev (cmp_by_attr attr) in
  forall l l1 l2, Forall S l ->
  Permutation l l1 -> ssorted c l1 -> Permutation l l2 -> ssorted c l2 ->
  Forall2 (fun x y => c x y = Eq) l1 l2.
Proof.
  intros S attr rev H1 H2 H3 c l l1 l2 Hl P1 S1 P2 S2.
  assert (T : tpo_on S c) by (apply tpo_rev; apply (tpo_cmp_by_attr S H1 H2 H3)).
  apply (sorted_perm_unique_upto_ties S c T).
  - apply (Forall_perm _ l); assumption.
  - eapply perm_trans; [apply Permutation_sym; exact P1|exact P2].
  - exact S1.
  - exact S2.
Qed.
