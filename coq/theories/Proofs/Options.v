(** Proofs about Model/Options.v: per-field resolution through any nesting
    depth, field independence, counters per kind, thread-list normalisation,
    ignore flags, the runner level. *)
From DivanV Require Import Base.Res Model.Options.
Local Open Scope N_scope.

(** * first_some *)

Lemma first_some_app {A : Type} (xs ys : list (option A)) :
  first_some (xs ++ ys) = opt_or (first_some xs) (first_some ys).
Proof.
  induction xs as [|[a|] xs IH]; cbn [app first_some opt_or]; [destruct (first_some ys)| |exact IH]; reflexivity.
Qed.

Lemma opt_or_none_r {A : Type} (a : option A) : opt_or a None = a.
Proof. destruct a; reflexivity. Qed.

Lemma opt_or_assoc {A : Type} (a b c : option A) : opt_or (opt_or a b) c = opt_or a (opt_or b c).
Proof. destruct a; reflexivity. Qed.

(** * Resolution for any projection that [overwrite] treats field-wise *)
Section Homomorphic.
  Context {A : Type}.
  Variable f : options -> option A.
  Hypothesis Hf : forall a b, f (overwrite a b) = opt_or (f a) (f b).

  Lemma descend_step_proj (p c : option options) :
    lproj f (descend_step p c) = opt_or (lproj f c) (lproj f p).
  Proof.
    destruct p as [p|]; destruct c as [c|]; cbn [descend_step lproj opt_or].
    - apply Hf.
    - reflexivity.
    - symmetry. apply opt_or_none_r.
    - reflexivity.
  Qed.

  Lemma fold_descend_proj (levels : list (option options)) : forall acc,
    lproj f (fold_left descend_step levels acc)
    = opt_or (first_some (rev (map (lproj f) levels))) (lproj f acc).
  Proof.
    induction levels as [|l ls IH]; intros acc; cbn [fold_left map rev first_some opt_or]; [reflexivity|].
    rewrite IH, descend_step_proj, first_some_app. cbn [first_some].
    rewrite opt_or_assoc. f_equal. destruct (lproj f l); reflexivity.
  Qed.

  Lemma at_leaf_proj (runner : options) (e : option options) :
    f (at_leaf runner e) = opt_or (f runner) (lproj f e).
  Proof.
    destruct e as [e|]; cbn [at_leaf lproj]; [apply Hf | symmetry; apply opt_or_none_r].
  Qed.

  (** [C15_resolution] for one projection. *)
  Lemma resolve_proj (runner : options) (groups : list (option options)) (bench : option options) :
    f (resolve runner groups bench) = first_some (precedence f runner groups bench).
  Proof.
    unfold resolve, descend, precedence. rewrite at_leaf_proj, fold_descend_proj.
    cbn [lproj]. rewrite opt_or_none_r.
    rewrite map_app, rev_app_distr. cbn [map rev app].
    cbn [first_some]. destruct (f runner); [reflexivity|]. cbn [opt_or].
    destruct (lproj f bench); reflexivity.
  Qed.

  (** The effective value of this field depends on this field's values only. *)
  Lemma resolve_proj_independent (r1 r2 : options) (g1 g2 : list (option options)) (b1 b2 : option options) :
    f r1 = f r2 -> lproj f b1 = lproj f b2 -> Forall2 (fun x y => lproj f x = lproj f y) g1 g2 ->
    f (resolve r1 g1 b1) = f (resolve r2 g2 b2).
  Proof.
    intros Hr Hb Hg. rewrite !resolve_proj. unfold precedence. rewrite Hr, Hb.
    assert (Hmap : map (lproj f) g1 = map (lproj f) g2).
    { induction Hg as [|x y g1' g2' Hxy _ IH]; [reflexivity|]. cbn [map]. rewrite Hxy, IH. reflexivity. }
    rewrite Hmap. reflexivity.
  Qed.
End Homomorphic.

(** Every field is treated field-wise by [overwrite]. *)
Lemma option_map_opt_or {A B : Type} (g : A -> B) (a b : option A) :
  option_map g (opt_or a b) = opt_or (option_map g a) (option_map g b).
Proof. destruct a; reflexivity. Qed.

Lemma get_overwrite (fd : field) (a b : options) :
  get fd (overwrite a b) = opt_or (get fd a) (get fd b).
Proof.
  destruct fd as [| | | | | | |k]; cbn [get overwrite o_sample_count o_sample_size o_threads o_min_time o_max_time
    o_skip_ext_time o_ignore o_counters]; try apply option_map_opt_or.
  destruct k; cbn [cs_get cs_overwrite cs_bytes cs_chars cs_cycles cs_items]; apply option_map_opt_or.
Qed.

Lemma ignore_overwrite (a b : options) : o_ignore (overwrite a b) = opt_or (o_ignore a) (o_ignore b).
Proof. reflexivity. Qed.

Lemma threads_overwrite (a b : options) : o_threads (overwrite a b) = opt_or (o_threads a) (o_threads b).
Proof. reflexivity. Qed.

Lemma counter_overwrite (k : counter_kind) (a b : options) :
  cs_get (o_counters (overwrite a b)) k = opt_or (cs_get (o_counters a) k) (cs_get (o_counters b) k).
Proof. destruct k; reflexivity. Qed.

(** [C15_resolution] *)
Lemma resolution (fd : field) (runner : options) (groups : list (option options)) (bench : option options) :
  get fd (resolve runner groups bench) = first_some (precedence (get fd) runner groups bench).
Proof. apply resolve_proj. apply get_overwrite. Qed.

(** No nesting: the three-level reading of the property's title. *)
Lemma resolution_three_levels (fd : field) (runner bench group : options) :
  get fd (resolve runner [Some group] (Some bench))
  = match get fd runner with
    | Some v => Some v
    | None => match get fd bench with Some v => Some v | None => get fd group end
    end.
Proof.
  rewrite resolution. cbn [precedence map rev app lproj first_some].
  destruct (get fd runner); [reflexivity|]. destruct (get fd bench); [reflexivity|].
  destruct (get fd group); reflexivity.
Qed.

(** [C15_fieldwise_independent] *)
Lemma fieldwise_independent (g : field) (r1 r2 : options) (g1 g2 : list (option options)) (b1 b2 : option options) :
  get g r1 = get g r2 -> lproj (get g) b1 = lproj (get g) b2 ->
  Forall2 (fun x y => lproj (get g) x = lproj (get g) y) g1 g2 ->
  get g (resolve r1 g1 b1) = get g (resolve r2 g2 b2).
Proof. apply resolve_proj_independent. apply get_overwrite. Qed.

Lemma kind_eqb_eq (a b : counter_kind) : kind_eqb a b = true <-> a = b.
Proof. destruct a; destruct b; cbn; split; intros H; try reflexivity; try discriminate. Qed.

Lemma field_eqb_eq (a b : field) : field_eqb a b = true <-> a = b.
Proof.
  destruct a; destruct b; cbn [field_eqb]; split; intros H; try reflexivity; try discriminate.
  - apply kind_eqb_eq in H. congruence.
  - injection H as ->. apply kind_eqb_eq. reflexivity.
Qed.

(** Setting field [f] leaves every other field [g] as it was ... *)
Lemma get_set_other (f g : field) (v : option value) (o : options) :
  f <> g -> get g (set_field f v o) = get g o.
Proof.
  intros Hne.
  destruct f as [| | | | | | |kf]; destruct g as [| | | | | | |kg]; try contradiction; try reflexivity.
  destruct kf; destruct kg; try contradiction; try reflexivity; exfalso; apply Hne; reflexivity.
Qed.

(** ... hence changing [f] at any one level (runner, benchmark or any group,
    at any depth) never changes the effective value of [g]. *)
Lemma set_level_independent (f g : field) (v : option value)
  (runner : options) (before after : list (option options)) (lvl : options) (bench : option options) :
  f <> g ->
  get g (resolve runner (before ++ Some (set_field f v lvl) :: after) bench)
  = get g (resolve runner (before ++ Some lvl :: after) bench)
  /\ get g (resolve (set_field f v runner) (before ++ after) bench) = get g (resolve runner (before ++ after) bench)
  /\ get g (resolve runner (before ++ after) (Some (set_field f v lvl)))
     = get g (resolve runner (before ++ after) (Some lvl)).
Proof.
  intros Hne.
  assert (Hrefl : forall l, Forall2 (fun x y => lproj (get g) x = lproj (get g) y) l l).
  { intros l. induction l; constructor; auto. }
  repeat split.
  - apply fieldwise_independent; try reflexivity.
    apply Forall2_app; [apply Hrefl|]. constructor; [|apply Hrefl].
    cbn [lproj]. apply get_set_other. exact Hne.
  - apply fieldwise_independent; try reflexivity; [apply get_set_other; exact Hne | apply Hrefl].
  - apply fieldwise_independent; try reflexivity; [cbn [lproj]; apply get_set_other; exact Hne | apply Hrefl].
Qed.

(** And setting [f] sets [f]. *)
Lemma get_set_same (f : field) (v : option value) (o : options) :
  get f (set_field f v o) =
  match f, v with
  | (FSampleCount | FSampleSize | FMinTime | FMaxTime | FCounter _), Some (VNum n) => Some (VNum n)
  | FThreads, Some (VList l) => Some (VList l)
  | (FSkipExtTime | FIgnore), Some (VBool b) => Some (VBool b)
  | _, _ => None
  end.
Proof.
  destruct f as [| | | | | | |k]; destruct v as [[n|l|b]|]; try reflexivity; destruct k; reflexivity.
Qed.

(** * Counters *)

Lemma counters_resolution (k : counter_kind) (runner : options) (groups : list (option options)) (bench : option options) :
  to_collection (o_counters (resolve runner groups bench)) k
  = match first_some (precedence (fun o => cs_get (o_counters o) k) runner groups bench) with
    | Some c => [c]
    | None => []
    end.
Proof.
  unfold to_collection.
  rewrite (resolve_proj (fun o => cs_get (o_counters o) k) (counter_overwrite k)). reflexivity.
Qed.

Lemma cs_insert_get (cs : counter_set) (k k' : counter_kind) (c : N) :
  cs_get (cs_insert cs k c) k' = if kind_eqb k k' then Some c else cs_get cs k'.
Proof. destruct k; destruct k'; reflexivity. Qed.

Lemma set_counter_spec (coll : counter_kind -> list N) (k k' : counter_kind) (c : N) :
  set_counter coll k c k' =
  if kind_eqb k k' then match coll k' with [] => [c] | _ :: r => c :: r end else coll k'.
Proof. unfold set_counter. destruct k; destruct k'; reflexivity. Qed.

Lemma set_counter_own_kind_only (coll : counter_kind -> list N) (k k' : counter_kind) (c : N) :
  (k <> k' -> set_counter coll k c k' = coll k')
  /\ set_counter coll k c k = match coll k with [] => [c] | _ :: r => c :: r end.
Proof.
  split.
  - intros Hne. rewrite set_counter_spec. destruct (kind_eqb k k') eqn:E; [|reflexivity].
    apply kind_eqb_eq in E. contradiction.
  - rewrite set_counter_spec. replace (kind_eqb k k) with true; [reflexivity|].
    symmetry. apply kind_eqb_eq. reflexivity.
Qed.

(** * Thread lists *)

Fixpoint sorted_le (l : list N) : bool :=
  match l with
  | [] => true
  | x :: r => match r with [] => true | y :: _ => (x <=? y) && sorted_le r end
  end.

Lemma insert_sorted_in (x y : N) (l : list N) : In x (insert_sorted y l) <-> x = y \/ In x l.
Proof.
  induction l as [|z l IH]; cbn [insert_sorted In].
  - intuition.
  - destruct (y <=? z); cbn [In]; [intuition|]. rewrite IH. intuition.
Qed.

Lemma sort_in (x : N) (l : list N) : In x (sort l) <-> In x l.
Proof.
  unfold sort. induction l as [|y l IH]; cbn [fold_right In]; [reflexivity|].
  rewrite insert_sorted_in, IH. intuition.
Qed.

Lemma insert_sorted_sorted (x : N) (l : list N) : sorted_le l = true -> sorted_le (insert_sorted x l) = true.
Proof.
  induction l as [|y l IH]; intros Hs; cbn [insert_sorted]; [reflexivity|].
  destruct (x <=? y) eqn:E.
  - cbn [sorted_le]. cbn [sorted_le] in Hs. rewrite E. exact Hs.
  - cbn [sorted_le] in Hs. destruct l as [|z l].
    + cbn [insert_sorted sorted_le]. rewrite andb_true_r. apply N.leb_le. apply N.leb_gt in E. lia.
    + apply andb_true_iff in Hs. destruct Hs as [Hyz Hs]. specialize (IH Hs).
      cbn [insert_sorted] in IH |- *. destruct (x <=? z) eqn:E2.
      * cbn [sorted_le]. cbn [sorted_le] in IH. rewrite IH. rewrite andb_true_r.
        apply N.leb_le. apply N.leb_gt in E. lia.
      * cbn [sorted_le]. cbn [sorted_le] in IH. rewrite Hyz. exact IH.
Qed.

Lemma sort_sorted (l : list N) : sorted_le (sort l) = true.
Proof.
  unfold sort. induction l as [|y l IH]; cbn [fold_right]; [reflexivity|].
  apply insert_sorted_sorted. exact IH.
Qed.

Lemma dedup_in (x : N) (l : list N) : In x (dedup l) <-> In x l.
Proof.
  induction l as [|y l IH]; [reflexivity|].
  cbn [dedup]. destruct l as [|z l]; [reflexivity|].
  destruct (y =? z) eqn:E.
  - apply N.eqb_eq in E. subst z. rewrite IH. cbn [In]. intuition.
  - cbn [In]. rewrite IH. cbn [In]. intuition.
Qed.

Lemma dedup_head (l : list N) : forall y, exists t, dedup (y :: l) = y :: t.
Proof.
  induction l as [|z l IH]; intros y; cbn [dedup]; [eexists; reflexivity|].
  destruct (y =? z) eqn:E.
  - apply N.eqb_eq in E. subst z. apply IH.
  - eexists. reflexivity.
Qed.

Lemma dedup_strict (l : list N) : sorted_le l = true -> strictly_increasing (dedup l) = true.
Proof.
  induction l as [|x l IH]; intros Hs; [reflexivity|].
  cbn [dedup]. destruct l as [|y l]; [reflexivity|].
  cbn [sorted_le] in Hs. apply andb_true_iff in Hs. destruct Hs as [Hxy Hs].
  specialize (IH Hs).
  destruct (x =? y) eqn:E; [exact IH|].
  destruct (dedup_head l y) as [t Ht]. rewrite Ht in IH |- *.
  cbn [strictly_increasing]. cbn [strictly_increasing] in IH. rewrite IH. rewrite andb_true_r.
  apply N.ltb_lt. apply N.leb_le in Hxy. apply N.eqb_neq in E. lia.
Qed.

Lemma mem_N_in (x : N) (l : list N) : mem_N x l = true <-> In x l.
Proof.
  unfold mem_N. rewrite existsb_exists. split.
  - intros [y [Hin Heq]]. apply N.eqb_eq in Heq. subst. exact Hin.
  - intros Hin. exists x. split; [exact Hin | apply N.eqb_refl].
Qed.

Lemma list_N_eqb_refl (l : list N) : list_N_eqb l l = true.
Proof. induction l; cbn; [reflexivity|]. rewrite N.eqb_refl. assumption. Qed.

Definition wanted_threads (parallelism : N) (threads : option (list N)) : list N :=
  map (fun n => if n =? 0 then parallelism else n) (match threads with Some l => l | None => [] end).

(** [C15_threads_norm] *)
Lemma threads_norm (parallelism : N) (threads : option (list N)) :
  let out := thread_counts parallelism threads in
  strictly_increasing out = true
  /\ out <> []
  /\ (forall x, In x out <->
        (wanted_threads parallelism threads = [] /\ x = 1) \/ In x (wanted_threads parallelism threads))
  /\ (parallelism <> 0 -> forall x, In x out -> x <> 0).
Proof.
  cbn zeta. unfold thread_counts. fold (wanted_threads parallelism threads).
  set (w := wanted_threads parallelism threads).
  assert (Hstrict : strictly_increasing (dedup (sort w)) = true) by (apply dedup_strict, sort_sorted).
  assert (Hin : forall x, In x (dedup (sort w)) <-> In x w) by (intros x; rewrite dedup_in, sort_in; reflexivity).
  assert (Hmain : forall x, In x match dedup (sort w) with [] => [1] | _ :: _ => dedup (sort w) end <->
                            (w = [] /\ x = 1) \/ In x w).
  { intros x. destruct (dedup (sort w)) as [|d ds] eqn:E.
    - destruct w as [|w0 ws].
      + cbn [In]. intuition.
      + exfalso. apply (proj2 (Hin w0)). left. reflexivity.
    - rewrite Hin. split; [intros H; right; exact H|].
      intros [[Hw _]|H]; [|exact H]. exfalso. rewrite Hw in Hin. apply (proj1 (Hin d)). left. reflexivity. }
  split; [|split; [|split]].
  - destruct (dedup (sort w)); [reflexivity|exact Hstrict].
  - destruct (dedup (sort w)); discriminate.
  - exact Hmain.
  - intros HP x Hx. apply Hmain in Hx. destruct Hx as [[_ ->]|Hx]; [discriminate|].
    unfold w, wanted_threads in Hx. apply in_map_iff in Hx. destruct Hx as [n [Hn _]].
    destruct (n =? 0) eqn:E; [congruence|]. apply N.eqb_neq in E. congruence.
Qed.

Lemma thread_counts_sb_model (parallelism : N) (threads : option (list N)) :
  thread_counts_sb parallelism threads (thread_counts parallelism threads) = true.
Proof.
  destruct (threads_norm parallelism threads) as (H1 & H2 & H3 & _).
  unfold thread_counts_sb. fold (wanted_threads parallelism threads).
  rewrite H1. cbn [andb].
  destruct (wanted_threads parallelism threads) as [|w0 ws] eqn:Ew.
  - unfold thread_counts. fold (wanted_threads parallelism threads). rewrite Ew. reflexivity.
  - apply andb_true_iff. split; apply forallb_forall; intros x Hx; apply mem_N_in.
    + apply H3. right. exact Hx.
    + apply H3 in Hx. destruct Hx as [[Hnil _]|Hx]; [discriminate|exact Hx].
Qed.

(** A setter-normalised list is unchanged by a second normalisation, and the
    leaf's normalisation of a list without 0 is the setter's normalisation. *)
Lemma thread_counts_example :
  thread_counts 4 (Some [0; 1; 4]) = [1; 4] /\ thread_counts 4 None = [1]
  /\ thread_counts 8 (Some []) = [1] /\ thread_counts 2 (Some [3; 0; 2; 3]) = [2; 3].
Proof. repeat split; reflexivity. Qed.

(** * Ignoring *)

Definition ignore_value (runner : options) (groups : list (option options)) (bench : option options) : bool :=
  match first_some (precedence o_ignore runner groups bench) with Some b => b | None => false end.

(** [C15_ignore_flags] *)
Lemma ignore_flags (r : run_ignored) (runner : options) (groups : list (option options)) (bench : option options) :
  effective_ignore (resolve runner groups bench) = ignore_value runner groups bench
  /\ skipped r runner groups bench =
     match r with
     | RunNo => ignore_value runner groups bench
     | RunYes => false
     | RunOnly => negb (ignore_value runner groups bench)
     end.
Proof.
  assert (H : effective_ignore (resolve runner groups bench) = ignore_value runner groups bench).
  { unfold effective_ignore, ignore_value. rewrite (resolve_proj o_ignore ignore_overwrite). reflexivity. }
  split; [exact H|].
  unfold skipped, should_ignore, should_run. rewrite H.
  destruct (ignore_value runner groups bench); destruct r; reflexivity.
Qed.

(** * Runner level *)
Lemma get_norm_threads (fd : field) (o : options) :
  get fd (norm_threads o) =
  match fd with
  | FThreads => option_map (fun l => VList (set_threads l)) (o_threads o)
  | _ => get fd o
  end.
Proof. destruct fd; try reflexivity. cbn [get norm_threads o_threads]. destruct (o_threads o); reflexivity. Qed.

Lemma runner_level_spec (fd : field) (before flags env after : options) :
  get fd (runner_level before flags env after)
  = first_some [get fd (norm_threads after); get fd (norm_threads flags); get fd (norm_threads env);
                get fd (norm_threads before)].
Proof.
  unfold runner_level. rewrite !get_overwrite. cbn [first_some].
  destruct (get fd (norm_threads after)); [reflexivity|]. cbn [opt_or].
  destruct (get fd (norm_threads flags)); [reflexivity|]. cbn [opt_or].
  destruct (get fd (norm_threads env)); [reflexivity|]. cbn [opt_or].
  destruct (get fd (norm_threads before)); reflexivity.
Qed.

(** * The boolean specification holds of the model *)
Lemma opt_eqb_refl {A : Type} (eqb : A -> A -> bool) (a : option A) :
  (forall x, eqb x x = true) -> opt_eqb eqb a a = true.
Proof. intros H. destruct a; cbn; auto. Qed.

Lemma resolve_sb_model (runner : options) (groups : list (option options)) (bench : option options) :
  resolve_sb runner groups bench (resolve runner groups bench) = true.
Proof.
  unfold resolve_sb, field_ok.
  rewrite (resolve_proj o_sample_count (fun a b => eq_refl)).
  rewrite (resolve_proj o_sample_size (fun a b => eq_refl)).
  rewrite (resolve_proj o_threads (fun a b => eq_refl)).
  rewrite (resolve_proj o_min_time (fun a b => eq_refl)).
  rewrite (resolve_proj o_max_time (fun a b => eq_refl)).
  rewrite (resolve_proj o_skip_ext_time (fun a b => eq_refl)).
  rewrite (resolve_proj o_ignore (fun a b => eq_refl)).
  rewrite !opt_eqb_refl; try apply N.eqb_refl; try apply list_N_eqb_refl; try (intros []; reflexivity).
  cbn [andb]. apply forallb_forall. intros k _.
  rewrite (resolve_proj (fun o => cs_get (o_counters o) k) (counter_overwrite k)).
  apply opt_eqb_refl. apply N.eqb_refl.
Qed.

(** Non-vacuity: a three-group nesting in which every level sets something
    else and the runner overrides one field only. *)
Example resolution_example :
  let g1 := set_field FSampleCount (Some (VNum 4)) (set_field FSampleSize (Some (VNum 2)) o_default) in
  let g2 := set_field FSampleCount (Some (VNum 3)) (set_field FThreads (Some (VList [1; 2])) o_default) in
  let g3 := set_field FSampleSize (Some (VNum 1)) (set_field FIgnore (Some (VBool true)) o_default) in
  let b := set_field FIgnore (Some (VBool false)) (set_field FThreads (Some (VList [1])) o_default) in
  let runner := set_field FSampleSize (Some (VNum 7)) o_default in
  let r := resolve runner [Some g1; Some g2; None; Some g3] (Some b) in
  o_sample_count r = Some 3 /\ o_sample_size r = Some 7 /\ o_threads r = Some [1] /\ o_ignore r = Some false
  /\ o_min_time r = None
  /\ skipped RunOnly runner [Some g1; Some g2; None; Some g3] (Some b) = true
  /\ skipped RunNo runner [Some g1; Some g2; None; Some g3] None = true.
Proof. repeat split; reflexivity. Qed.

(** The specification-only effective options are what the model resolves. *)
Lemma spec_effective_correct (runner : options) (groups : list (option options)) (bench : option options) :
  spec_effective runner groups bench = resolve runner groups bench.
Proof.
  unfold spec_effective.
  rewrite <- (resolve_proj o_sample_count (fun a b => eq_refl)).
  rewrite <- (resolve_proj o_sample_size (fun a b => eq_refl)).
  rewrite <- (resolve_proj o_threads (fun a b => eq_refl)).
  rewrite <- (resolve_proj o_min_time (fun a b => eq_refl)).
  rewrite <- (resolve_proj o_max_time (fun a b => eq_refl)).
  rewrite <- (resolve_proj o_skip_ext_time (fun a b => eq_refl)).
  rewrite <- (resolve_proj o_ignore (fun a b => eq_refl)).
  rewrite <- (resolve_proj (fun o => cs_bytes (o_counters o)) (fun a b => eq_refl)).
  rewrite <- (resolve_proj (fun o => cs_chars (o_counters o)) (fun a b => eq_refl)).
  rewrite <- (resolve_proj (fun o => cs_cycles (o_counters o)) (fun a b => eq_refl)).
  rewrite <- (resolve_proj (fun o => cs_items (o_counters o)) (fun a b => eq_refl)).
  destruct (resolve runner groups bench) as [sc ss th [cb cc cy ci] mn mx se ig]. reflexivity.
Qed.

Lemma first_some_four {A : Type} (a b c d : option A) :
  first_some [a; b; c; d] = opt_or a (opt_or (opt_or b c) d).
Proof. destruct a; destruct b; destruct c; destruct d; reflexivity. Qed.

Lemma spec_runner_correct (before flags env after : options) :
  spec_runner before flags env after = runner_level before flags env after.
Proof.
  unfold spec_runner, runner_level.
  destruct (norm_threads before) as [sc1 ss1 th1 [cb1 cc1 cy1 ci1] mn1 mx1 se1 ig1].
  destruct (norm_threads flags) as [sc2 ss2 th2 [cb2 cc2 cy2 ci2] mn2 mx2 se2 ig2].
  destruct (norm_threads env) as [sc3 ss3 th3 [cb3 cc3 cy3 ci3] mn3 mx3 se3 ig3].
  destruct (norm_threads after) as [sc4 ss4 th4 [cb4 cc4 cy4 ci4] mn4 mx4 se4 ig4].
  cbn [overwrite cs_overwrite o_sample_count o_sample_size o_threads o_counters o_min_time o_max_time
       o_skip_ext_time o_ignore cs_bytes cs_chars cs_cycles cs_items map].
  rewrite !first_some_four. reflexivity.
Qed.

Lemma bytes_format_level_spec (before flag env after : option bool) :
  bytes_format_level before flag env after
  = match first_some [after; flag; env; before] with Some b => b | None => false end.
Proof. unfold bytes_format_level. rewrite first_some_four. reflexivity. Qed.

Lemma skip_ext_resolution (runner : options) (groups : list (option options)) (bench : option options) :
  effective_skip_ext (resolve runner groups bench)
  = match first_some (precedence o_skip_ext_time runner groups bench) with Some b => b | None => false end.
Proof. unfold effective_skip_ext. rewrite (resolve_proj o_skip_ext_time (fun a b => eq_refl)). reflexivity. Qed.

(** * Decimal seconds *)

Lemma digit_of_range (c d : N) : digit_of c = Some d -> d < 10 /\ c = d + 48.
Proof.
  unfold digit_of. destruct ((48 <=? c) && (c <=? 57)) eqn:E; [|discriminate].
  intros H. injection H as <-. apply andb_true_iff in E. destruct E as [E1 E2].
  apply N.leb_le in E1. apply N.leb_le in E2. lia.
Qed.

(** Positional value: appending a digit multiplies by ten and adds it. *)
Lemma digits_val_acc_app (l : list N) : forall acc c,
  digits_val_acc acc (l ++ [c]) =
  match digits_val_acc acc l, digit_of c with
  | Some v, Some d => Some (v * 10 + d)
  | _, _ => None
  end.
Proof.
  induction l as [|x l IH]; intros acc c; cbn [app digits_val_acc].
  - destruct (digit_of c); reflexivity.
  - destruct (digit_of x); [apply IH|reflexivity].
Qed.

Lemma digits_val_app_digit (l : list N) (c : N) :
  digits_val (l ++ [c]) =
  match digits_val l, digit_of c with
  | Some v, Some d => Some (v * 10 + d)
  | _, _ => None
  end.
Proof. apply digits_val_acc_app. Qed.

(** The conversion is the exact decimal reading. *)
Lemma decimal_nanos_exact (text : list N) (s n : N) :
  decimal_nanos text = Some (s, n) ->
  exists ip fp i f,
    decimal_parts text = Some (ip, fp) /\ digits_val ip = Some i /\ digits_val fp = Some f /\
    N.of_nat (length fp) <= 9 /\
    n < 10 ^ 9 /\
    s * 10 ^ 9 + n = i * 10 ^ 9 + f * 10 ^ (9 - N.of_nat (length fp)).
Proof.
  unfold decimal_nanos. destruct (decimal_parts text) as [[ip fp]|]; [|discriminate].
  destruct (9 <? N.of_nat (length fp)) eqn:E9; [discriminate|].
  destruct (digits_val ip) as [i|] eqn:Ei; [|discriminate].
  destruct (digits_val fp) as [f|] eqn:Ef; [|discriminate].
  intros H. injection H as <- <-.
  exists ip, fp, i, f. apply N.ltb_ge in E9.
  assert (Hnz : 10 ^ 9 <> 0) by (apply N.pow_nonzero; discriminate).
  split; [reflexivity|]. split; [exact Ei|]. split; [exact Ef|]. split; [exact E9|].
  split; [apply N.mod_lt; exact Hnz|].
  rewrite N.mul_comm. symmetry. apply N.div_mod. exact Hnz.
Qed.

Lemma parse_seconds_sb_model (text : list N) : parse_seconds_sb text (decimal_nanos text) = true \/
  (exists ip fp, decimal_parts text = Some (ip, fp) /\ 9 < N.of_nat (length fp)).
Proof.
  unfold parse_seconds_sb, decimal_nanos.
  destruct (decimal_parts text) as [[ip fp]|]; [|left; reflexivity].
  destruct (9 <? N.of_nat (length fp)) eqn:E9.
  - right. exists ip, fp. split; [reflexivity|]. apply N.ltb_lt. exact E9.
  - left. apply N.ltb_ge in E9.
    destruct (digits_val ip) as [i|]; [|reflexivity].
    destruct (digits_val fp) as [f|]; [|reflexivity].
    set (k := N.of_nat (length fp)) in *.
    set (total := i * 10 ^ 9 + f * 10 ^ (9 - k)).
    assert (Hnz : 10 ^ 9 <> 0) by (apply N.pow_nonzero; discriminate).
    apply andb_true_iff. split.
    + apply N.ltb_lt. apply N.mod_lt. exact Hnz.
    + apply N.eqb_eq.
      replace (total / 10 ^ 9 * 10 ^ 9 + total mod 10 ^ 9) with total
        by (rewrite (N.mul_comm (total / 10 ^ 9)); apply N.div_mod; exact Hnz).
      unfold total. rewrite N.mul_add_distr_r.
      rewrite <- (N.mul_assoc f), <- N.pow_add_r.
      replace (9 - k + k) with 9 by lia.
      rewrite N.mul_add_distr_r. rewrite <- !N.mul_assoc. rewrite (N.mul_comm (10 ^ 9) (10 ^ k)). reflexivity.
Qed.

Example decimal_nanos_examples :
  decimal_nanos [48; 46; 48; 48; 48; 52] = Some (0, 400000)            (* "0.0004" *)
  /\ decimal_nanos [49; 50; 46; 53] = Some (12, 500000000)             (* "12.5" *)
  /\ decimal_nanos [46; 53] = Some (0, 500000000)                      (* ".5" *)
  /\ decimal_nanos [51; 46] = Some (3, 0)                              (* "3." *)
  /\ decimal_nanos [46] = None /\ decimal_nanos [] = None              (* ".", "" *)
  /\ decimal_nanos [45; 49] = None                                     (* "-1" *)
  /\ decimal_nanos [48; 46; 48; 48; 48; 48; 48; 48; 48; 48; 49] = Some (0, 1).   (* "0.000000001" *)
Proof. repeat split; reflexivity. Qed.
