(** Proofs about Model/SplitVec.v: insertion keeps the partition invariant, the
    first half in insertion order and the multiset of the second half. *)
From Coq Require Import Permutation.
From DivanV Require Import Base.Res Model.SplitVec.

Definition sv_wf {A : Type} (sv : split_vec A) : Prop :=
  (sv_split sv <= length (sv_items sv))%nat.

Lemma firstn_app_exact {A : Type} (l1 l2 : list A) : firstn (length l1) (l1 ++ l2) = l1.
Proof.
  rewrite firstn_app, Nat.sub_diag, firstn_all. cbn [firstn]. apply app_nil_r.
Qed.

Lemma skipn_app_exact {A : Type} (l1 l2 : list A) : skipn (length l1) (l1 ++ l2) = l2.
Proof.
  rewrite skipn_app, Nat.sub_diag, skipn_all. reflexivity.
Qed.

(** Every well-formed value is [F ++ R] split at [length F]. *)
Lemma sv_wf_repr {A : Type} (sv : split_vec A) :
  sv_wf sv ->
  sv_items sv = sv_before sv ++ sv_after sv /\ sv_split sv = length (sv_before sv).
Proof.
  intros Hwf. unfold sv_before, sv_after. split.
  - symmetry. apply firstn_skipn.
  - rewrite firstn_length_le; [reflexivity | exact Hwf].
Qed.

Lemma sv_split_index_ok {A : Type} (sv : split_vec A) :
  sv_wf sv -> sv_split_index sv = Ok (sv_split sv).
Proof.
  intros Hwf. unfold sv_split_index.
  destruct (Nat.leb (sv_split sv) (length (sv_items sv))) eqn:E; [reflexivity|].
  apply Nat.leb_gt in E. unfold sv_wf in Hwf. lia.
Qed.

Lemma sv_split_index_panics {A : Type} (sv : split_vec A) :
  ~ sv_wf sv -> sv_split_index sv = Panic OutOfBounds.
Proof.
  intros Hwf. unfold sv_split_index.
  destruct (Nat.leb (sv_split sv) (length (sv_items sv))) eqn:E; [|reflexivity].
  apply Nat.leb_le in E. contradiction.
Qed.

(** One insertion, in terms of the two halves. *)
Lemma sv_insert_spec {A : Type} (sv : split_vec A) (v : A) (after_split : bool) :
  sv_wf sv ->
  exists sv',
    sv_insert sv v after_split = Ok sv' /\
    sv_wf sv' /\
    length (sv_items sv') = S (length (sv_items sv)) /\
    sv_before sv' = sv_before sv ++ (if after_split then [] else [v]) /\
    Permutation (sv_after sv') (sv_after sv ++ (if after_split then [v] else [])).
Proof.
  intros Hwf.
  destruct (sv_wf_repr sv Hwf) as [Hitems Hsplit].
  unfold sv_insert. rewrite (sv_split_index_ok sv Hwf). cbn [bind].
  set (F := sv_before sv) in *. set (R := sv_after sv) in *.
  destruct after_split.
  - eexists. split; [reflexivity|]. unfold sv_wf, sv_before, sv_after. cbn [sv_items sv_split].
    rewrite Hitems, Hsplit.
    split; [|split; [|split]].
    + rewrite !app_length. cbn [length]. lia.
    + rewrite !app_length. cbn [length]. lia.
    + rewrite <- app_assoc. rewrite firstn_app_exact. rewrite app_nil_r. reflexivity.
    + rewrite <- app_assoc. rewrite skipn_app_exact. apply Permutation_refl.
  - fold (sv_after sv). fold R.
    destruct R as [|moved rest] eqn:ER.
    + eexists. split; [reflexivity|]. unfold sv_wf, sv_before, sv_after. cbn [sv_items sv_split].
      rewrite Hitems, Hsplit. rewrite !app_nil_r.
      split; [|split; [|split]].
      * rewrite app_length. cbn [length]. lia.
      * rewrite app_length. cbn [length]. lia.
      * replace (S (length F)) with (length (F ++ [v])) by (rewrite app_length; cbn [length]; lia).
        rewrite firstn_all. reflexivity.
      * replace (S (length F)) with (length (F ++ [v])) by (rewrite app_length; cbn [length]; lia).
        rewrite skipn_all. apply Permutation_refl.
    + eexists. split; [reflexivity|]. unfold sv_wf, sv_before, sv_after. cbn [sv_items sv_split].
      fold (sv_before sv). fold F. rewrite Hitems, Hsplit.
      assert (Hre : F ++ v :: rest ++ [moved] = (F ++ [v]) ++ rest ++ [moved]).
      { rewrite <- app_assoc. reflexivity. }
      assert (Hlen : S (length F) = length (F ++ [v])).
      { rewrite app_length. cbn [length]. lia. }
      split; [|split; [|split]].
      * rewrite !app_length. cbn [length]. rewrite app_length. cbn [length]. lia.
      * rewrite !app_length. cbn [length]. rewrite app_length. cbn [length]. lia.
      * rewrite Hre, Hlen. apply firstn_app_exact.
      * rewrite Hre, Hlen. rewrite skipn_app_exact. rewrite app_nil_r.
        apply Permutation_sym. apply Permutation_cons_append.
Qed.

(** The empty vector is well formed with two empty halves. *)
Lemma sv_empty_wf {A : Type} : sv_wf (@sv_empty A).
Proof. unfold sv_wf. cbn. lia. Qed.

(** Any history of insertions: no panic, the partition invariant holds, the
    first half is the before-split insertions in insertion order, the second
    half is a permutation of the after-split insertions. *)
Definition inserted_before {A : Type} (ops : list (A * bool)) : list A :=
  map fst (filter (fun o => negb (snd o)) ops).
Definition inserted_after {A : Type} (ops : list (A * bool)) : list A :=
  map fst (filter (fun o => snd o) ops).

Lemma sv_insert_all_spec {A : Type} (ops : list (A * bool)) : forall (sv : split_vec A),
  sv_wf sv ->
  exists sv',
    sv_insert_all sv ops = Ok sv' /\
    sv_wf sv' /\
    length (sv_items sv') = (length (sv_items sv) + length ops)%nat /\
    sv_before sv' = sv_before sv ++ inserted_before ops /\
    Permutation (sv_after sv') (sv_after sv ++ inserted_after ops).
Proof.
  induction ops as [|[v b] ops IH]; intros sv Hwf.
  - exists sv. cbn [sv_insert_all]. unfold inserted_before, inserted_after. cbn.
    rewrite !app_nil_r. repeat split; auto using Permutation_refl.
  - cbn [sv_insert_all].
    destruct (sv_insert_spec sv v b Hwf) as (sv1 & Hins & Hwf1 & Hlen1 & Hb1 & Ha1).
    rewrite Hins. cbn [bind].
    destruct (IH sv1 Hwf1) as (sv2 & Hall & Hwf2 & Hlen2 & Hb2 & Ha2).
    exists sv2. split; [exact Hall|]. split; [exact Hwf2|].
    split; [rewrite Hlen2, Hlen1; cbn [length]; lia|].
    unfold inserted_before, inserted_after in *. cbn [filter snd fst].
    destruct b; cbn [negb map fst].
    + split.
      * rewrite Hb2, Hb1. rewrite app_nil_r. reflexivity.
      * eapply Permutation_trans; [exact Ha2|].
        eapply Permutation_trans; [apply Permutation_app_tail; exact Ha1|].
        rewrite <- app_assoc. apply Permutation_refl.
    + split.
      * rewrite Hb2, Hb1. rewrite <- app_assoc. reflexivity.
      * eapply Permutation_trans; [exact Ha2|].
        eapply Permutation_trans; [apply Permutation_app_tail; exact Ha1|].
        rewrite app_nil_r. apply Permutation_refl.
Qed.

Lemma sv_build_spec {A : Type} (ops : list (A * bool)) :
  exists sv,
    sv_insert_all sv_empty ops = Ok sv /\
    sv_wf sv /\
    length (sv_items sv) = length ops /\
    sv_before sv = inserted_before ops /\
    Permutation (sv_after sv) (inserted_after ops).
Proof.
  destruct (sv_insert_all_spec ops sv_empty sv_empty_wf) as (sv & H1 & H2 & H3 & H4 & H5).
  exists sv. repeat split; auto.
Qed.

(** The crate's own unit test [mixed] as an example (the second half really is
    reordered: ["456"; "xyz"]). *)
Example sv_mixed_example :
  sv_insert_all sv_empty [(1%N, false); (2%N, true); (3%N, false); (4%N, true); (5%N, false)]
  = Ok {| sv_items := [1; 3; 5; 4; 2]%N; sv_split := 3 |}.
Proof. reflexivity. Qed.
