(** C12: under the guard "no name clash" the proved keyed semantics (the slot at
    prefix P holds the group registered with key P) is the intended flat
    semantics (every bench_group module above an entry contributes its name and
    options; a generic function's own group stands at its own key). *)
From Coq Require Import Permutation.
From DivanV Require Import Base.Res Model.Registry Model.Tree Model.Driver
  Proofs.TreeBase Proofs.DriverExec Proofs.DriverC14 Proofs.TreeLeaves Proofs.Flat.
Local Open Scope N_scope.

Definition slot_fn := list str -> option group_entry.

Fixpoint chain_by (f : slot_fn) (pre comps : list str) : chain :=
  match comps with
  | [] => []
  | c :: tl => (c, f (pre ++ [c])) :: chain_by f (pre ++ [c]) tl
  end.

Lemma path_eqb_spec : forall a b, path_eqb a b = true <-> a = b.
Proof. exact list_eqb_str_spec. Qed.

Lemma path_eqb_refl : forall a, path_eqb a a = true.
Proof. intro a. apply path_eqb_spec. reflexivity. Qed.

Lemma nones_chain_by : forall rp pre, nones rp = chain_by (fun _ => None) pre rp.
Proof. induction rp as [|r tl IH]; intro pre; cbn; [reflexivity|]. f_equal. apply IH. Qed.

(** Positions visited by [chain_by f pre comps] are proper extensions of [pre]. *)
Lemma chain_by_ext : forall f f' comps pre,
  (forall suf, suf <> [] -> f (pre ++ suf) = f' (pre ++ suf)) -> chain_by f pre comps = chain_by f' pre comps.
Proof.
  intros f f'. induction comps as [|c tl IH]; intros pre H; cbn [chain_by]; [reflexivity|].
  rewrite (H [c]) by discriminate. f_equal. apply IH. intros suf Hs. rewrite <- !app_assoc. apply H. discriminate.
Qed.

Definition set_slot (key : list str) (g : group_entry) (f : slot_fn) : slot_fn :=
  fun P => if path_eqb P key then Some g else f P.

Lemma app_inv_head_neq : forall (pre : list str) a b, a <> b -> pre ++ a <> pre ++ b.
Proof. intros pre a b H E. apply app_inv_head in E. exact (H E). Qed.

Lemma upd_chain_by : forall comps pre key' g f,
  upd key' g (chain_by f pre comps) = chain_by (set_slot (pre ++ key') g f) pre comps.
Proof.
  induction comps as [|c tl IH]; intros pre key' g f; cbn [chain_by].
  - apply upd_nil.
  - destruct key' as [|k key''].
    + (* empty key: nothing changes, and no visited position equals [pre] *)
      cbn [upd]. rewrite app_nil_r.
      assert (E : set_slot pre g f (pre ++ [c]) = f (pre ++ [c])).
      { unfold set_slot. destruct (path_eqb (pre ++ [c]) pre) eqn:E; [|reflexivity].
        apply path_eqb_spec in E. rewrite <- (app_nil_r pre) in E at 2. apply app_inv_head in E. discriminate. }
      rewrite E. f_equal. apply chain_by_ext. intros suf Hs. unfold set_slot.
      destruct (path_eqb ((pre ++ [c]) ++ suf) pre) eqn:E2; [|reflexivity].
      apply path_eqb_spec in E2. rewrite <- app_assoc in E2. rewrite <- (app_nil_r pre) in E2 at 2.
      apply app_inv_head in E2. discriminate.
    + destruct (str_eqb k c) eqn:Ek.
      * apply str_eqb_spec in Ek. subst k.
        destruct key'' as [|k2 key3].
        -- rewrite upd_last, str_eqb_refl. unfold set_slot at 1. rewrite path_eqb_refl. f_equal.
           apply chain_by_ext. intros suf Hs. unfold set_slot.
           destruct (path_eqb ((pre ++ [c]) ++ suf) (pre ++ [c])) eqn:E2; [|reflexivity].
           apply path_eqb_spec in E2. rewrite <- (app_nil_r (pre ++ [c])) in E2 at 2. apply app_inv_head in E2. contradiction.
        -- rewrite upd_more, str_eqb_refl.
           assert (E : set_slot (pre ++ c :: k2 :: key3) g f (pre ++ [c]) = f (pre ++ [c])).
           { unfold set_slot. destruct (path_eqb (pre ++ [c]) (pre ++ c :: k2 :: key3)) eqn:E; [|reflexivity].
             apply path_eqb_spec in E. apply app_inv_head in E. discriminate. }
           rewrite E. f_equal. rewrite IH. rewrite <- app_assoc. reflexivity.
      * assert (Hne : k <> c) by (intro; subst; rewrite str_eqb_refl in Ek; discriminate).
        rewrite (upd_head_false k key'' g c _ _ Ek).
        assert (E : set_slot (pre ++ k :: key'') g f (pre ++ [c]) = f (pre ++ [c])).
        { unfold set_slot. destruct (path_eqb (pre ++ [c]) (pre ++ k :: key'')) eqn:E; [|reflexivity].
          apply path_eqb_spec in E. apply app_inv_head in E. inversion E. congruence. }
        rewrite E. f_equal. apply chain_by_ext. intros suf Hs. unfold set_slot.
        destruct (path_eqb ((pre ++ [c]) ++ suf) (pre ++ k :: key'')) eqn:E2; [|reflexivity].
        apply path_eqb_spec in E2. rewrite <- app_assoc in E2. apply app_inv_head in E2. inversion E2. congruence.
Qed.

(** The group standing at key P after all insertions: the last registered one. *)
Lemma module_chain_by_gen : forall fm comps pre, module_chain fm pre comps = chain_by fm pre comps.
Proof. intros fm. induction comps as [|c tl IH]; intro pre; cbn; [reflexivity|]. rewrite IH. reflexivity. Qed.

Section Keyed.
  Variable kf : group_entry -> list str.
  Definition fmk (groups : list group_entry) : list str -> option group_entry :=
    find_module_group_by (fun g P => path_eqb (kf g) P) groups.

Definition last_with_key (groups : list group_entry) (init : option group_entry) (P : list str) : option group_entry :=
  fold_left (fun acc g => if path_eqb P (kf g) then Some g else acc) groups init.

Lemma upd_all_chain_by : forall groups f rp,
  upd_all kf groups (chain_by f [] rp) = chain_by (fun P => last_with_key groups (f P) P) [] rp.
Proof.
  induction groups as [|g gs IH]; intros f rp; [reflexivity|].
  unfold upd_all. cbn [fold_left]. rewrite (upd_chain_by rp [] (kf g) g f). cbn [app].
  fold (upd_all kf gs (chain_by (set_slot (kf g) g f) [] rp)). rewrite IH.
  apply chain_by_ext. intros suf _. unfold last_with_key. cbn [fold_left]. reflexivity.
Qed.

Lemma keyed_chain_by : forall groups rp,
  keyed_chain kf groups rp = chain_by (last_with_key groups None) [] rp.
Proof.
  intros. unfold keyed_chain. rewrite (nones_chain_by rp []). apply upd_all_chain_by.
Qed.

(** Facts about [last_with_key] and [find_module_group]. *)
Lemma last_with_key_some : forall groups init P h,
  last_with_key groups init P = Some h -> init = Some h \/ (In h groups /\ kf h = P).
Proof.
  induction groups as [|g gs IH]; intros init P h H; [left; exact H|].
  unfold last_with_key in H. cbn [fold_left] in H. apply IH in H. destruct H as [H|[H1 H2]].
  - destruct (path_eqb P (kf g)) eqn:E; [|left; exact H].
    inversion H; subst. right. split; [left; reflexivity|]. apply path_eqb_spec in E. congruence.
  - right. split; [right; exact H1|exact H2].
Qed.

Lemma last_with_key_in : forall groups init P h,
  NoDup (map kf groups) -> In h groups -> kf h = P -> last_with_key groups init P = Some h.
Proof.
  induction groups as [|g gs IH]; intros init P h Hnd Hin Hk; [contradiction|].
  cbn in Hnd. inversion Hnd as [|? ? Hn Hnd']; subst. unfold last_with_key. cbn [fold_left].
  destruct Hin as [Hin|Hin].
  - subst g. rewrite path_eqb_refl.
    (* no later group has this key *)
    assert (Hkeep : forall l acc, (forall x, In x l -> kf x <> kf h) ->
              fold_left (fun acc g => if path_eqb (kf h) (kf g) then Some g else acc) l acc = acc).
    { induction l as [|x tl IHl]; intros acc Hx; [reflexivity|]. cbn [fold_left].
      destruct (path_eqb (kf h) (kf x)) eqn:E.
      - apply path_eqb_spec in E. exfalso. apply (Hx x (or_introl eq_refl)). congruence.
      - apply IHl. intros y Hy. apply Hx. right. exact Hy. }
    apply Hkeep. intros x Hx E. apply Hn. rewrite <- E. apply in_map. exact Hx.
  - apply (IH _ (kf h) h Hnd' Hin eq_refl).
Qed.

Lemma last_with_key_none : forall groups P,
  (forall h, In h groups -> kf h <> P) -> last_with_key groups None P = None.
Proof.
  intros groups P H. destruct (last_with_key groups None P) as [h|] eqn:E; [|reflexivity].
  apply last_with_key_some in E. destruct E as [E|[H1 H2]]; [discriminate|]. exfalso. exact (H h H1 H2).
Qed.

Lemma NoDup_key_inj : forall groups h h',
  NoDup (map kf groups) -> In h groups -> In h' groups -> kf h = kf h' -> h = h'.
Proof.
  induction groups as [|g gs IH]; intros h h' Hnd H1 H2 Hk; [contradiction|].
  cbn in Hnd. inversion Hnd as [|? ? Hn Hnd']; subst.
  destruct H1 as [H1|H1], H2 as [H2|H2]; subst.
  - reflexivity.
  - exfalso. apply Hn. rewrite Hk. apply in_map. exact H2.
  - exfalso. apply Hn. rewrite <- Hk. apply in_map. exact H1.
  - apply (IH h h' Hnd' H1 H2 Hk).
Qed.

Lemma fmk_spec : forall groups P h,
  fmk groups P = Some h -> In h groups /\ is_module_group h = true /\ kf h = P.
Proof.
  intros groups P h H. unfold fmk, find_module_group_by in H. apply find_some in H. destruct H as [H1 H2].
  apply andb_true_iff in H2. destruct H2 as [H2 H3]. apply path_eqb_spec in H3. auto.
Qed.

Lemma last_eq_find : forall groups P,
  NoDup (map kf groups) ->
  (forall h, In h groups -> kf h = P -> is_module_group h = true) ->
  last_with_key groups None P = fmk groups P.
Proof.
  intros groups P Hnd Hmod.
  destruct (fmk groups P) as [h|] eqn:Ef.
  - apply fmk_spec in Ef. destruct Ef as [H1 [_ H3]]. apply last_with_key_in; assumption.
  - apply last_with_key_none. intros h Hin Hk.
    unfold fmk, find_module_group_by in Ef. pose proof (find_none _ _ Ef h Hin) as Hn. cbv beta in Hn.
    rewrite (Hmod h Hin Hk) in Hn. cbn in Hn. rewrite Hk, path_eqb_refl in Hn. discriminate.
Qed.

(** ** The guard *)
Definition is_prefix (p l : list str) : Prop := exists suf, l = p ++ suf.

Definition no_name_clash (benches : list bench_entry) (groups : list group_entry) : Prop :=
  NoDup (map kf groups) /\
  (forall h, In h groups -> is_module_group h = false ->
     kf h = group_key h /\      (* a generic function's entry stands at its own name, spelled as written *)
     (forall e, In e (all_entries benches groups) -> is_prefix (kf h) (entry_path e) -> exists ge, e = AGeneric h ge) /\
     (forall g', In g' groups -> is_prefix (kf h) (kf g') -> g' = h)).

Lemma module_chain_chain_by : forall groups comps pre,
  module_chain (fmk groups) pre comps = chain_by (fmk groups) pre comps.
Proof. intros groups. induction comps as [|c tl IH]; intro pre; cbn; [reflexivity|]. rewrite IH. reflexivity. Qed.

Lemma chain_by_app : forall f a b pre, chain_by f pre (a ++ b) = chain_by f pre a ++ chain_by f (pre ++ a) b.
Proof.
  intros f. induction a as [|x tl IH]; intros b pre; cbn [app chain_by]; [rewrite app_nil_r; reflexivity|].
  rewrite IH, <- app_assoc. reflexivity.
Qed.

Lemma chain_by_ext_prefix : forall f f' comps pre,
  (forall k, (0 < k <= length comps)%nat -> f (pre ++ firstn k comps) = f' (pre ++ firstn k comps)) ->
  chain_by f pre comps = chain_by f' pre comps.
Proof.
  intros f f'. induction comps as [|c tl IH]; intros pre H; cbn [chain_by]; [reflexivity|].
  pose proof (H 1%nat) as H1. cbn [firstn] in H1. rewrite H1 by (cbn; lia). f_equal. apply IH. intros k Hk.
  specialize (H (S k)). cbn [firstn length] in H. rewrite <- !app_assoc. cbn [app]. apply H. lia.
Qed.

Lemma in_generic_benches : forall benches groups g ge,
  In (AGeneric g ge) (all_entries benches groups) -> In g groups.
Proof.
  intros benches groups g ge H. unfold all_entries in H. apply in_app_or in H. destruct H as [H|H].
  - apply in_map_iff in H. destruct H as [b [Hb _]]. discriminate.
  - apply in_flat_map in H. destruct H as [g' [Hg' H]]. unfold generic_benches in H.
    destruct (g_generic g'); [|contradiction]. apply in_map_iff in H. destruct H as [x [Hx _]]. inversion Hx; subst. exact Hg'.
Qed.

Lemma is_module_false_of_entry : forall benches groups g ge,
  In (AGeneric g ge) (all_entries benches groups) -> is_module_group g = false.
Proof.
  intros benches groups g ge H. unfold all_entries in H. apply in_app_or in H. destruct H as [H|H].
  - apply in_map_iff in H. destruct H as [b [Hb _]]. discriminate.
  - apply in_flat_map in H. destruct H as [g' [Hg' H]]. unfold generic_benches in H.
    destruct (g_generic g') eqn:E; [|contradiction]. apply in_map_iff in H. destruct H as [x [Hx _]]. inversion Hx; subst.
    unfold is_module_group. rewrite E. reflexivity.
Qed.

(** Under the guard the keyed chain of every registered entry is its intended chain. *)
Lemma keyed_chain_entry : forall benches groups e,
  no_name_clash benches groups -> In e (all_entries benches groups) ->
  keyed_chain kf groups (entry_path e) = entry_chain (fmk groups) e.
Proof.
  intros benches groups e [Hnd Hg] He. rewrite keyed_chain_by.
  set (L := last_with_key groups None).
  (* at every position whose groups are all module groups, L is find_module_group *)
  assert (Hmodpos : forall P, is_prefix P (entry_path e) ->
            (forall h, In h groups -> kf h = P -> is_module_group h = false -> exists ge, e = AGeneric h ge) /\ True).
  { intros P HP. split; [|exact I]. intros h Hh Hk Hm. destruct (Hg h Hh Hm) as [_ [H1 _]]. apply (H1 e He). rewrite Hk. exact HP. }
  destruct e as [b|g ge].
  - (* plain benchmark: every prefix is a module position *)
    cbn [entry_path entry_chain]. rewrite module_chain_chain_by. apply chain_by_ext_prefix. intros k Hk. cbn [app].
    apply last_eq_find; [exact Hnd|]. intros h Hh Hkey.
    destruct (is_module_group h) eqn:Em; [reflexivity|]. exfalso.
    destruct (Hmodpos (firstn k (module_components (b_meta b)))) as [H _].
    { exists (skipn k (module_components (b_meta b))). cbn [entry_path]. symmetry. apply firstn_skipn. }
    destruct (H h Hh Hkey Em) as [ge Hge]. discriminate.
  - (* generic instantiation *)
    pose proof (in_generic_benches _ _ _ _ He) as Hgin.
    pose proof (is_module_false_of_entry _ _ _ _ He) as Hgm.
    cbn [entry_path entry_chain]. set (mc := module_components (g_meta g)). set (raw := m_raw (g_meta g)).
    assert (Hkey : kf g = mc ++ [raw]) by (destruct (Hg g Hgin Hgm) as [Hk _]; exact Hk).
    rewrite chain_by_app. cbn [app chain_by]. f_equal; [|f_equal].
    + (* module positions *)
      rewrite module_chain_chain_by. apply chain_by_ext_prefix. intros k Hk. cbn [app].
      apply last_eq_find; [exact Hnd|]. intros h Hh Hkh.
      destruct (is_module_group h) eqn:Em; [reflexivity|]. exfalso.
      destruct (Hg h Hh Em) as [_ [_ H2]].
      assert (Hp : is_prefix (kf h) (kf g)).
      { rewrite Hkh, Hkey. exists (skipn k mc ++ [raw]). rewrite app_assoc, firstn_skipn. reflexivity. }
      pose proof (H2 g Hgin Hp) as Heq. subst h.
      (* then key g = firstn k mc, shorter than mc ++ [raw] *)
      rewrite Hkey in Hkh. apply (f_equal (@length str)) in Hkh. rewrite app_length, firstn_length in Hkh. cbn in Hkh. lia.
    + (* the function's own key *)
      f_equal. unfold L. apply last_with_key_in; [exact Hnd|exact Hgin|exact Hkey].
    + (* the type component carries no group *)
      destruct (ge_kind ge) as [t|[t|] c0]; cbn [chain_by]; try reflexivity.
      f_equal. f_equal. unfold L. apply last_with_key_none. intros h Hh Hkh.
      destruct (Hg g Hgin Hgm) as [_ [_ H2]].
      assert (Hp : is_prefix (kf g) (kf h)).
      { rewrite Hkh, Hkey. cbn [app]. exists [type_display t]. rewrite <- app_assoc. reflexivity. }
      pose proof (H2 h Hh Hp) as Heq. subst h. rewrite Hkey in Hkh. cbn [app] in Hkh.
      apply (f_equal (@length str)) in Hkh. rewrite !app_length in Hkh. cbn in Hkh. lia.
Qed.

(** Hence, under the guard, what runs is the flat semantics. *)
Lemma keyed_case_flat : forall c benches groups e,
  no_name_clash benches groups -> In e (all_entries benches groups) ->
  filter (fun x => c_filter c (xpath x)) (keyed_case c kf groups e) = flat_case c (fmk groups) e.
Proof.
  intros c benches groups e Hg He. unfold keyed_case, case_of, flat_case, rekey, rleaf_of. cbn [fst snd].
  rewrite (keyed_chain_entry benches groups e Hg He).
  fold (chain_path (entry_chain (fmk groups) e)). fold (chain_options (entry_chain (fmk groups) e)).
  destruct (leaf_ignored c _); [reflexivity|].
  unfold leaf_args. destruct (entry_runner e) as [|o vals]; [|reflexivity].
  cbn [filter xpath fst snd]. destruct (c_filter c _); reflexivity.
Qed.

End Keyed.

(** The lookups of the flat semantics proper (group keys compared with the last
    component modulo "r#") and of the attachment keys agree on the module paths
    of the registry. *)
Definition lookups_agree (benches : list bench_entry) (groups : list group_entry) : Prop :=
  forall e P suf, In e (all_entries benches groups) -> P <> [] ->
    module_components (entry_meta e) = P ++ suf ->
    find_module_group groups P = fmk (attach_key benches groups) groups P.

Lemma module_chain_ext : forall fm fm' comps pre,
  (forall k, (0 < k <= length comps)%nat -> fm (pre ++ firstn k comps) = fm' (pre ++ firstn k comps)) ->
  module_chain fm pre comps = module_chain fm' pre comps.
Proof. intros fm fm' comps pre H. rewrite !module_chain_by_gen. apply chain_by_ext_prefix. exact H. Qed.

Lemma entry_chain_agree : forall benches groups e,
  lookups_agree benches groups -> In e (all_entries benches groups) ->
  entry_chain (find_module_group groups) e = entry_chain (fmk (attach_key benches groups) groups) e.
Proof.
  intros benches groups e H He.
  assert (Hm : module_chain (find_module_group groups) [] (module_components (entry_meta e))
               = module_chain (fmk (attach_key benches groups) groups) [] (module_components (entry_meta e))).
  { apply module_chain_ext. intros k Hk. cbn [app].
    apply (H e (firstn k (module_components (entry_meta e))) (skipn k (module_components (entry_meta e))) He).
    - intro E. apply (f_equal (@length str)) in E. rewrite firstn_length in E. cbn in E. lia.
    - symmetry. apply firstn_skipn. }
  destruct e as [b|g ge]; cbn [entry_chain entry_meta] in *; rewrite Hm; reflexivity.
Qed.

Lemma exec_flat : forall c benches groups,
  no_name_clash (attach_key benches groups) benches groups -> lookups_agree benches groups ->
  Permutation (exec_forest c [] None (retain (c_filter c) (build_tree benches groups)))
              (flat_exec c benches groups).
Proof.
  intros c benches groups Hg Hl. eapply Permutation_trans; [apply exec_keyed_filtered|].
  rewrite filter_flat_map. unfold flat_exec.
  assert (E : forall e, In e (all_entries benches groups) ->
              filter (fun x => c_filter c (xpath x)) (keyed_case c (attach_key benches groups) groups e)
              = flat_case c (find_module_group groups) e).
  { intros e He. rewrite (keyed_case_flat (attach_key benches groups) c benches groups e Hg He).
    unfold flat_case. rewrite (entry_chain_agree benches groups e Hl He). reflexivity. }
  rewrite (flat_map_ext_in _ _ _ _ (all_entries benches groups) E). apply Permutation_refl.
Qed.

(** The guard is satisfiable by a registry with a module group; a generic function of the module's name breaks it. *)
Example no_name_clash_example :
  no_name_clash (attach_key [w_bench_a] [w_mod_group]) [w_bench_a] [w_mod_group] /\
  lookups_agree [w_bench_a] [w_mod_group] /\
  ~ no_name_clash (attach_key [w_bench_a] [w_mod_group; w_fn_group]) [w_bench_a] [w_mod_group; w_fn_group].
Proof.
  split; [|split].
  - split; [cbn; constructor; [intros []|constructor]|]. intros h [Hh|[]] Hm. subst h. discriminate.
  - intros e P suf [He|[]] HP Hsuf. subst e. cbn [entry_meta] in Hsuf.
    change (module_components (b_meta w_bench_a)) with [w_c; w_f] in Hsuf.
    destruct P as [|p1 [|p2 [|p3 P]]]; [congruence| | |]; cbn in Hsuf; inversion Hsuf; subst; vm_compute; reflexivity.
  - intros [Hnd _]. vm_compute in Hnd. inversion Hnd as [|? ? Hn _]. apply Hn. left. reflexivity.
Qed.
