(** Which samples get an allocation record: the [is_empty] gate of the
    recording loop. *)
From DivanV Require Import Base.Res Model.Stats.
From Coq Require Import ZifyN ZifyBool ZifyNat.
Local Open Scope N_scope.

(** [is_empty] is true iff all eight figures are 0. *)
Lemma tallies_is_empty_spec i :
  tallies_is_empty i = true <->
  forall op, t_count (ai_tally op i) = 0 /\ t_size (ai_tally op i) = 0.
Proof.
  unfold tallies_is_empty, tally_row_empty, tallies_of_info.
  cbn [flat_map all_ops app forallb]. rewrite !andb_true_iff, !N.eqb_eq. split.
  - intros (H1 & H2 & H3 & H4 & H5 & H6 & H7 & H8 & _) []; split; assumption.
  - intros H. pose proof (H Grow) as [? ?]. pose proof (H Shrink) as [? ?].
    pose proof (H Alloc) as [? ?]. pose proof (H Dealloc) as [? ?]. tauto.
Qed.

Definition keys_lt (m : list (N * alloc_info)) (k : N) : Prop := Forall (fun p => fst p < k) m.

Lemma find_keys_lt m k j : keys_lt m k -> k <= j -> alist_find j m = None.
Proof.
  induction m as [|[key v] r IH]; intros H Hj; [reflexivity|]. inversion H as [|? ? Hk Hr]; subst.
  cbn [alist_find]. cbn [fst] in Hk. destruct (key =? j) eqn:E; [apply N.eqb_eq in E; lia|]. apply IH; assumption.
Qed.

Definition gate (o : option alloc_info) : option alloc_info :=
  match o with
  | Some i => if tallies_is_empty i then None else Some i
  | None => None
  end.

Lemma find_record infos : forall k m j,
  keys_lt m k ->
  alist_find j (record_alloc_infos k infos m) =
  if j <? k then alist_find j m else gate (nth_error infos (N.to_nat (j - k))).
Proof.
  induction infos as [|i r IH]; intros k m j Hm; cbn [record_alloc_infos].
  - destruct (j <? k) eqn:E; [reflexivity|]. apply N.ltb_ge in E.
    rewrite (find_keys_lt m k j Hm E). destruct (N.to_nat (j - k)); reflexivity.
  - rewrite IH.
    + destruct (j <? k + 1) eqn:E1; destruct (j <? k) eqn:E2;
        try apply N.ltb_lt in E1; try apply N.ltb_ge in E1; try apply N.ltb_lt in E2; try apply N.ltb_ge in E2; try lia.
      * destruct (tallies_is_empty i); [reflexivity|]. cbn [alist_find].
        destruct (k =? j) eqn:E; [apply N.eqb_eq in E; lia|reflexivity].
      * assert (j = k) by lia. subst j. rewrite N.sub_diag. cbn [N.to_nat nth_error gate].
        destruct (tallies_is_empty i); [apply (find_keys_lt m k k Hm); lia|].
        cbn [alist_find]. rewrite N.eqb_refl. reflexivity.
      * replace (N.to_nat (j - k)) with (S (N.to_nat (j - (k + 1)))) by lia. reflexivity.
    + destruct (tallies_is_empty i).
      * eapply Forall_impl; [|exact Hm]. cbn beta. intros; lia.
      * constructor; [cbn [fst]; lia|]. eapply Forall_impl; [|exact Hm]. cbn beta. intros; lia.
Qed.

(** [C05_alloc_gate]: sample [j] has an allocation record iff one of its eight
    tally figures is not 0, and the record is its own info. *)
Theorem alloc_gate infos j :
  alist_find j (record_alloc_infos 0 infos []) =
  match nth_error infos (N.to_nat j) with
  | Some i => if tallies_is_empty i then None else Some i
  | None => None
  end.
Proof.
  rewrite find_record by constructor. replace (j <? 0) with false by (symmetry; apply N.ltb_ge; lia).
  rewrite N.sub_0_r. reflexivity.
Qed.

Lemma list_eqb_refl l : list_eqb l l = true.
Proof. induction l as [|a r IH]; [reflexivity|]. cbn [list_eqb]. rewrite N.eqb_refl. exact IH. Qed.

Lemma record_keys_lt infos : forall k m,
  keys_lt m k -> keys_lt (record_alloc_infos k infos m) (k + N.of_nat (length infos)).
Proof.
  induction infos as [|i r IH]; intros k m Hm; cbn [record_alloc_infos length].
  - eapply Forall_impl; [|exact Hm]. cbn beta. intros; lia.
  - replace (k + N.of_nat (S (length r))) with (k + 1 + N.of_nat (length r)) by lia. apply IH.
    destruct (tallies_is_empty i).
    + eapply Forall_impl; [|exact Hm]. cbn beta. intros; lia.
    + constructor; [cbn [fst]; lia|]. eapply Forall_impl; [|exact Hm]. cbn beta. intros; lia.
Qed.

Lemma record_nodup infos : forall k m,
  keys_lt m k -> nodup_keys m = true -> nodup_keys (record_alloc_infos k infos m) = true.
Proof.
  induction infos as [|i r IH]; intros k m Hm Hn; cbn [record_alloc_infos]; [exact Hn|].
  apply IH.
  - destruct (tallies_is_empty i).
    + eapply Forall_impl; [|exact Hm]. cbn beta. intros; lia.
    + constructor; [cbn [fst]; lia|]. eapply Forall_impl; [|exact Hm]. cbn beta. intros; lia.
  - destruct (tallies_is_empty i); [exact Hn|]. cbn [nodup_keys].
    rewrite (find_keys_lt m k k Hm) by lia. exact Hn.
Qed.

Lemma records_from_ok infos suffix : forall k,
  (forall t, nth_error suffix t = nth_error infos (N.to_nat k + t)) ->
  alloc_records_from k (map tallies_of_info suffix) (record_alloc_infos 0 infos []) = true.
Proof.
  induction suffix as [|i r IH]; intros k H; [reflexivity|]. cbn [map alloc_records_from].
  rewrite alloc_gate. pose proof (H 0%nat) as H0. cbn [nth_error] in H0. rewrite Nat.add_0_r in H0. rewrite <- H0.
  apply andb_true_iff. split.
  - unfold tallies_is_empty. destruct (tally_row_empty (tallies_of_info i)) eqn:E; cbn [negb andb];
      [reflexivity|apply list_eqb_refl].
  - apply IH. intros t. specialize (H (S t)). cbn [nth_error] in H. rewrite H. f_equal. lia.
Qed.

(** The specification evaluated on the real runs' dumps holds of the gate model. *)
Theorem alloc_records_model_sb infos :
  alloc_records_sb (map tallies_of_info infos) (record_alloc_infos 0 infos []) = true.
Proof.
  unfold alloc_records_sb. rewrite records_from_ok by (intros t; reflexivity). cbn [andb].
  rewrite record_nodup by (constructor || reflexivity). rewrite andb_true_r.
  apply forallb_forall. intros p Hp. pose proof (record_keys_lt infos 0 [] ltac:(constructor)) as Hk.
  unfold keys_lt in Hk. rewrite Forall_forall in Hk. specialize (Hk p Hp). rewrite map_length.
  apply N.ltb_lt. lia.
Qed.

(** * Tuning rounds discard the records of the samples they discard *)

Definition alloc_inv (st : nat * list (N * alloc_info)) (kept : list alloc_info) : Prop :=
  fst st = length kept /\ keys_lt (snd st) (N.of_nat (fst st)) /\
  forall j, alist_find j (snd st) = gate (nth_error kept (N.to_nat j)).

Lemma alloc_round_inv st kept round :
  alloc_inv st kept ->
  alloc_inv (record_alloc_round st round) ((if fst round then [] else kept) ++ snd round).
Proof.
  intros Hinv. destruct round as [tune infos]. unfold record_alloc_round. cbn [fst snd].
  assert (alloc_inv (if tune then (0%nat, []) else st) (if tune then [] else kept)) as H0.
  { destruct tune; [|exact Hinv]. split; [reflexivity|]. split; [constructor|].
    intros j. cbn [snd alist_find]. destruct (N.to_nat j); reflexivity. }
  set (st0 := if tune then (0%nat, []) else st) in *. set (k0 := if tune then [] else kept) in *.
  destruct H0 as (Hn & Hk & Hf). split; [|split]; cbn [fst snd].
  - rewrite app_length, Hn. reflexivity.
  - replace (N.of_nat (fst st0 + length infos)) with (N.of_nat (fst st0) + N.of_nat (length infos)) by lia.
    apply record_keys_lt. exact Hk.
  - intros j. rewrite find_record by exact Hk.
    destruct (j <? N.of_nat (fst st0)) eqn:E; [apply N.ltb_lt in E|apply N.ltb_ge in E].
    + rewrite Hf. rewrite nth_error_app1 by (rewrite <- Hn; lia). reflexivity.
    + rewrite nth_error_app2 by (rewrite <- Hn; lia). f_equal. f_equal. rewrite <- Hn. lia.
Qed.

Lemma alloc_rounds_inv rounds : forall st kept,
  alloc_inv st kept ->
  alloc_inv (fold_left record_alloc_round rounds st)
            (fold_left (fun (kept : list alloc_info) (round : bool * list alloc_info) =>
                          (if fst round then [] else kept) ++ snd round) rounds kept).
Proof.
  induction rounds as [|r rest IH]; intros st kept H; cbn [fold_left]; [exact H|].
  apply IH. apply alloc_round_inv. exact H.
Qed.

(** [C05_alloc_gate_rounds]: after any sequence of tuning and collecting
    rounds, the number of stored samples is that of the kept ones, and stored
    sample [j] has an allocation record iff *its own* tally is not empty — never
    the record of a discarded sample with the same index. *)
Theorem alloc_gate_rounds rounds :
  fst (record_alloc_rounds rounds) = length (kept_infos rounds) /\
  forall j, alist_find j (snd (record_alloc_rounds rounds)) =
            match nth_error (kept_infos rounds) (N.to_nat j) with
            | Some i => if tallies_is_empty i then None else Some i
            | None => None
            end.
Proof.
  destruct (alloc_rounds_inv rounds (0%nat, []) []) as (H1 & _ & H3).
  { split; [reflexivity|]. split; [constructor|]. intros j. cbn. destruct (N.to_nat j); reflexivity. }
  split; [exact H1|exact H3].
Qed.

(** Lazy initialisation: the first call allocates in a tuning sample that is
    discarded; the recorded samples allocate nothing and have no record. *)
Example lazy_init_leaves_no_record :
  let a := {| ai_grow := tally_zero; ai_shrink := tally_zero; ai_alloc := {| t_count := 1; t_size := 24 |};
              ai_dealloc := {| t_count := 1; t_size := 24 |}; ai_max_count := 1; ai_max_size := 24 |} in
  let z := {| ai_grow := tally_zero; ai_shrink := tally_zero; ai_alloc := tally_zero;
              ai_dealloc := tally_zero; ai_max_count := 0; ai_max_size := 0 |} in
  record_alloc_rounds [(true, [a]); (true, [z]); (true, [z]); (false, [z]); (false, [z])] = (3%nat, []).
Proof. reflexivity. Qed.

(** A sample whose timed section only frees memory does get a record. *)
Example free_only_sample_is_recorded :
  let i := {| ai_grow := tally_zero; ai_shrink := tally_zero; ai_alloc := tally_zero;
              ai_dealloc := {| t_count := 1; t_size := 688 |}; ai_max_count := 0; ai_max_size := 0 |} in
  let z := {| ai_grow := tally_zero; ai_shrink := tally_zero; ai_alloc := tally_zero;
              ai_dealloc := tally_zero; ai_max_count := 0; ai_max_size := 0 |} in
  record_alloc_infos 0 [z; i] [] = [(1, i)].
Proof. reflexivity. Qed.
