(** Group [round] (C08): the boolean specification evaluated on observed global
    logs ([log_sb], a monitor) accepts the log of every execution of the model:
    Sb x (M x) = true, for any number of threads, rounds, interleaving, fault set. *)
From Coq Require Import List Arith Bool Lia NArith.
From DivanV Require Import Model.Round Proofs.RoundBase Proofs.RoundInv.
Import ListNotations.

(** Full classification of the action at a position. *)
Lemma prog_at : forall n sh p a,
  nth_error (prog n sh) p = Some a ->
  (p < n /\ a = AGen p) \/ (p = n /\ a = AWait 1) \/ (p = n + 1 /\ a = AClear) \/
  (p = n + 2 /\ a = AWait 2) \/ (p = n + 3 /\ a = ATsStart) \/
  (n + 4 <= p < 2 * n + 4 /\ a = ACall (p - (n + 4))) \/ (p = 2 * n + 4 /\ a = ATsEnd) \/
  (p = 2 * n + 5 /\ a = AWait 3) \/ (p = 2 * n + 6 /\ a = ASnapshot) \/
  (2 * n + 7 <= p /\ exists k o, a = ADrop k o).
Proof.
  intros n sh p a H. rewrite prog_nth in H.
  destruct (Nat.ltb_spec p n) as [H1|H1].
  { inversion H; subst. left. auto. }
  destruct (Nat.ltb_spec p (n + 4)) as [H2|H2].
  { assert (p - n = 0 \/ p - n = 1 \/ p - n = 2 \/ p - n = 3) as [E|[E|[E|E]]] by lia;
      rewrite E in H; cbn in H; inversion H; subst.
    - right; left. split; [lia|auto].
    - right; right; left. split; [lia|auto].
    - right; right; right; left. split; [lia|auto].
    - right; right; right; right; left. split; [lia|auto]. }
  destruct (Nat.ltb_spec p (2 * n + 4)) as [H3|H3].
  { inversion H; subst. do 5 right. left. split; [lia|auto]. }
  destruct (Nat.ltb_spec p (2 * n + 7)) as [H4|H4].
  { assert (p - (2 * n + 4) = 0 \/ p - (2 * n + 4) = 1 \/ p - (2 * n + 4) = 2) as [E|[E|E]] by lia;
      rewrite E in H; cbn in H; inversion H; subst.
    - do 6 right. left. split; [lia|auto].
    - do 7 right. left. split; [lia|auto].
    - do 8 right. left. split; [lia|auto]. }
  do 9 right. split; [lia|]. apply nth_error_In in H. eapply drops_are_drops; eauto.
Qed.

(** The monitor's counters of a thread, as a function of the model state. *)
Definition counters (g0 n r : nat) (th : thread) : mcnt :=
  {| m_gen := g0 + Nat.min (pc th) n;
     m_clear := r + b2n (n + 1 <? pc th);
     m_start := r + b2n (n + 3 <? pc th);
     m_end := r + b2n (2 * n + 4 <? pc th);
     m_pan := panicked th |}.

Definition full (g0 r : nat) : mcnt :=
  {| m_gen := g0; m_clear := r; m_start := r; m_end := r; m_pan := false |}.

Definition cnt (c : config) (r : nat) (th : thread) : mcnt :=
  counters (cum (ssize c) r) (ssize c r) r th.

Definition Sim (c : config) (st : state) (ms : list mcnt) : Prop :=
  length ms = nthreads c /\
  match gp st with
  | GRun => forall j th m, nth_error (ths st) j = Some th -> nth_error ms j = Some m -> m = cnt c (round st) th
  | GIdle => forall m, In m ms -> m = full (cum (ssize c) (round st)) (round st)
  | GEnd _ => True
  end.

Lemma counters_fresh : forall g0 n r th, counters g0 n r (fresh th) = full g0 r.
Proof.
  intros. unfold counters, full, fresh, panicked; cbn [pc md].
  rewrite Nat.min_0_l.
  replace (n + 1 <? 0) with false by (symmetry; apply Nat.ltb_ge; lia).
  replace (n + 3 <? 0) with false by (symmetry; apply Nat.ltb_ge; lia).
  replace (2 * n + 4 <? 0) with false by (symmetry; apply Nat.ltb_ge; lia).
  cbn [b2n]. f_equal; lia.
Qed.

Lemma counters_returned : forall g0 n sh r th,
  plen n sh <= pc th -> panicked th = false -> counters g0 n r th = full (g0 + n) (S r).
Proof.
  intros g0 n sh r th PL P. unfold counters, full. rewrite P. unfold plen in PL.
  rewrite Nat.min_r by lia.
  replace (n + 1 <? pc th) with true by (symmetry; apply Nat.ltb_lt; lia).
  replace (n + 3 <? pc th) with true by (symmetry; apply Nat.ltb_lt; lia).
  replace (2 * n + 4 <? pc th) with true by (symmetry; apply Nat.ltb_lt; lia).
  cbn [b2n]. f_equal; lia.
Qed.

(** Two threads with the same position and panic status have the same counters. *)
Lemma counters_same : forall g0 n r th th',
  pc th' = pc th -> panicked th' = panicked th -> counters g0 n r th' = counters g0 n r th.
Proof. intros g0 n r th th' P Q. unfold counters. rewrite P, Q. reflexivity. Qed.

(** Moving over a wait position changes no counter. *)
Lemma counters_over_wait : forall g0 n r th th',
  iswait n (pc th) = true -> pc th' = S (pc th) -> panicked th' = panicked th ->
  counters g0 n r th' = counters g0 n r th.
Proof.
  intros g0 n r th th' W P Q. unfold counters. rewrite P, Q. apply iswait_cases in W.
  f_equal.
  - f_equal. lia.
  - f_equal. destruct (Nat.ltb_spec (n + 1) (S (pc th))), (Nat.ltb_spec (n + 1) (pc th)); auto; lia.
  - f_equal. destruct (Nat.ltb_spec (n + 3) (S (pc th))), (Nat.ltb_spec (n + 3) (pc th)); auto; lia.
  - f_equal. destruct (Nat.ltb_spec (2 * n + 4) (S (pc th))), (Nat.ltb_spec (2 * n + 4) (pc th)); auto; lia.
Qed.

(** Executing the action at a non-wait position updates the counters as the
    monitor does on the corresponding event. *)
Lemma counters_exec : forall g0 n sh r th th' a,
  nth_error (prog n sh) (pc th) = Some a -> iswait n (pc th) = false ->
  pc th' = S (pc th) -> panicked th' = panicked th ->
  counters g0 n r th' = mon_upd (counters g0 n r th) (ev_of_act a).
Proof.
  intros g0 n sh r th th' a N W P Q. unfold counters. rewrite P, Q.
  destruct (prog_at _ _ _ _ N) as [[L ->]|[[L ->]|[[L ->]|[[L ->]|[[L ->]|[[L ->]|[[L ->]|[[L ->]|[[L ->]|[L (k & o & ->)]]]]]]]]]];
    cbn [ev_of_act mon_upd m_gen m_clear m_start m_end m_pan];
    try (exfalso; unfold iswait in W; rewrite L in W;
         repeat match goal with H : context[?x =? ?y] |- _ => destruct (Nat.eqb_spec x y); try lia end;
         cbn in W; discriminate);
    try (destruct o; cbn [mon_upd m_gen m_clear m_start m_end m_pan]);
    f_equal; try lia;
    repeat match goal with
           | |- context[?x <? ?y] => destruct (Nat.ltb_spec x y); try lia
           end; cbn [b2n]; lia.
Qed.

Lemma nth_error_upd_same : forall A i (x : A) l j y,
  nth_error l i = Some x -> nth_error (upd i x l) j = Some y -> nth_error l j = Some y.
Proof.
  intros A i x l j y N H. destruct (nth_error_upd_inv _ _ _ _ _ _ H) as [[-> ->]|[_ H']]; auto.
Qed.

Section Monitor.
Variable c : config.
Hypothesis T1 : 1 <= nthreads c.
Hypothesis GD : fixed_code c.

(** Simulation after a thread step that logs [e] (or nothing). *)
Lemma sim_thread : forall st ms i th th' b' m e,
  gp st = GRun -> Sim c st ms -> nth_error (ths st) i = Some th -> nth_error ms i = Some m ->
  cnt c (round st) th' = match e with Some ev => mon_upd m ev | None => m end ->
  Sim c {| gp := GRun; round := round st; bar := b'; ths := upd i th' (ths st) |}
      (match e with Some ev => upd i (mon_upd m ev) ms | None => ms end).
Proof.
  intros st ms i th th' b' m e G [L S] N M C. rewrite G in S. split.
  - destruct e; [rewrite upd_length|]; exact L.
  - cbn [gp round ths]. intros j y mj Hj Hm.
    destruct (nth_error_upd_inv _ _ _ _ _ _ Hj) as [[-> ->]|[NE Hj']].
    + destruct e as [ev|].
      * rewrite (nth_error_upd_eq _ _ _ _ _ M) in Hm. inversion Hm; subst. auto.
      * rewrite M in Hm. inversion Hm; subst. auto.
    + apply (S j y mj Hj'). destruct e as [ev|]; auto.
      rewrite nth_error_upd_neq in Hm; auto.
Qed.

(** Every thread of the monitor state corresponds to a model thread. *)
Lemma sim_lookup : forall st ms mj,
  Inv c st -> gp st = GRun -> Sim c st ms -> In mj ms ->
  exists j thj, nth_error (ths st) j = Some thj /\ In thj (ths st) /\ mj = cnt c (round st) thj.
Proof.
  intros st ms mj [L _] G [LM S] HI. rewrite G in S.
  destruct (In_nth_error_ex _ _ _ HI) as [j Hj].
  assert (j < length (ths st)) as JL.
  { rewrite L, <- LM. apply nth_error_Some. congruence. }
  destruct (nth_error (ths st) j) as [thj|] eqn:N; [|apply nth_error_None in N; lia].
  exists j, thj. split; [exact N|]. split; [eapply nth_error_In; eauto|].
  apply (S j thj mj); auto.
Qed.

Ltac simt e :=
  eapply (sim_thread _ _ _ _ _ _ _ e);
  [match goal with H : gp _ = GRun |- _ => exact H end
  |match goal with H : Sim _ _ _ |- _ => exact H end
  |match goal with H : nth_error (ths _) _ = Some _ |- _ => exact H end
  |match goal with H : nth_error _ _ = Some _ |- _ => exact H end
  |].

(** One step: the monitor accepts the event and the simulation carries on. *)
Ltac foldn :=
  match goal with n := _ |- _ => fold n; repeat match goal with H : _ |- _ => progress (fold n in H) end end.

Lemma monitor_step : forall gev st ms l st',
  Inv c st -> Sim c st ms -> step c st l = Some st' ->
  match step_event_g gev c st l with
  | Some (t, e) => exists m, nth_error ms t = Some m /\ mon_ok (ssize c) ms m e = true /\ Sim c st' (upd t (mon_upd m e) ms)
  | None => Sim c st' ms
  end.
Proof.
  intros gev st ms l st' I SM ST. pose proof ST as ST0. set (n := ssize c (round st)) in *. apply (step_cases _ _ _ _ (proj2 GD)) in ST.
  destruct ST as [G R|G R|k G F X|G F X|i th th' b' G N TC]; unfold step_event_g; try rewrite G.
  - (* start *)
    destruct SM as [L SS]. rewrite G in SS. split; auto. cbn [gp round ths].
    intros j th m Hj Hm. apply nth_error_In in Hj. apply in_map_iff in Hj. destruct Hj as (y & <- & _).
    unfold cnt. rewrite counters_fresh. apply SS. eapply nth_error_In; eauto.
  - destruct SM as [L SS]. split; auto. cbn. auto.
  - destruct SM as [L SS]. split; auto. cbn. auto.
  - (* join, all returned *)
    pose proof I as [LI K]. destruct (K G) as (_ & _ & C).
    destruct SM as [L SS]. rewrite G in SS. split; auto. cbn [gp round].
    intros m HI. destruct (In_nth_error_ex _ _ _ HI) as [j Hj].
    assert (j < length (ths st)) as JL by (rewrite LI, <- L; apply nth_error_Some; congruence).
    destruct (nth_error (ths st) j) as [thj|] eqn:Nj; [|apply nth_error_None in Nj; lia].
    rewrite (SS j thj m Nj Hj).
    pose proof (find_idx_none _ _ _ X thj (nth_error_In _ _ Nj)) as RT.
    pose proof (C thj (nth_error_In _ _ Nj)) as OK. fold n in OK.
    unfold returned in RT. unfold thread_ok in OK.
    destruct (md thj) eqn:M; try discriminate. destruct (blk thj); [contradiction|].
    destruct OK as (_ & _ & PL).
    unfold cnt. cbn [cum]. fold n. eapply counters_returned; eauto. unfold panicked. rewrite M. reflexivity.
  - (* thread step *)
    rewrite N. rewrite (tprog_info c (round st) i (proj2 GD i)).
    pose proof I as [LI K]. destruct (K G) as (A & B & C).
    pose proof (C th (nth_error_In _ _ N)) as OK. fold n in OK.
    pose proof SM as [LM SS]. rewrite G in SS.
    assert (i < length ms) as IL by (rewrite LM, <- LI; apply nth_error_Some; congruence).
    destruct (nth_error ms i) as [m|] eqn:Mi; [|apply nth_error_None in Mi; lia].
    pose proof (SS i th m N Mi) as EM.
    foldn.
    destruct TC as [a M BL NE|a M BL NE|M BL PL|M BL W PL NL|M BL W PL LT|M BL U PL FL|a M BL NA W PL FL|M BL R0|k M BL RK NL|k M BL RK LT];
      rewrite M, ?BL; cbv iota; foldn; unfold cnt in *; foldn.
    + (* leave, running: ELeave or nothing; no counter changes *)
      unfold thread_ok in OK. rewrite M, BL in OK. destruct OK as (W & _).
      assert (cnt c (round st) (next_pc (set_blk th None)) = m) as CE.
      { unfold cnt; try foldn; rewrite EM. apply counters_over_wait; auto. }
      destruct (nth_error (prog n (shp c)) (pc th)) as [[]|] eqn:NA;
        try (simt (@None evk); exact CE).
      exists m. split; [exact Mi|]. split; [reflexivity|].
      simt (Some (ELeave w)). exact CE.
    + (* leave, unwinding: EGLeave if logged *)
      destruct gev; [|simt (@None evk); unfold cnt; try foldn; rewrite EM;
        apply counters_same; auto; try (unfold panicked; cbn; rewrite ?M; reflexivity)].
      exists m. split; [exact Mi|]. split; [reflexivity|].
      simt (Some EGLeave). cbn [mon_upd]. unfold cnt; try foldn; rewrite EM.
      apply counters_same; auto; try (unfold panicked; cbn; rewrite ?M; reflexivity).
    + (* return *)
      apply prog_none in PL. rewrite PL.
      simt (@None evk). unfold cnt; try foldn; rewrite EM.
      apply counters_same; auto; try (unfold panicked; cbn; rewrite ?M; reflexivity).
    + (* wait, releasing: EArrive *)
      destruct (nth_error (prog n (shp c)) (pc th)) as [a|] eqn:NA; [|apply prog_none in NA; lia].
      destruct (prog_kind _ _ _ _ NA) as (_ & IW & F & _).
      destruct a; cbn in IW; try congruence. cbn [faultable andb].
      exists m. split; [exact Mi|]. split; [reflexivity|].
      simt (Some (EArrive w)). cbn [mon_upd].
      unfold cnt; try foldn; rewrite EM. apply counters_over_wait; auto; try (unfold panicked; cbn; rewrite ?M; reflexivity).
    + (* wait, blocking: EArrive *)
      destruct (nth_error (prog n (shp c)) (pc th)) as [a|] eqn:NA; [|apply prog_none in NA; lia].
      destruct (prog_kind _ _ _ _ NA) as (_ & IW & F & _).
      destruct a; cbn in IW; try congruence. cbn [faultable andb].
      exists m. split; [exact Mi|]. split; [reflexivity|].
      simt (Some (EArrive w)). cbn [mon_upd].
      unfold cnt; try foldn; rewrite EM. apply counters_same; auto.
    + (* panic: EPanic *)
      destruct (nth_error (prog n (shp c)) (pc th)) as [a|] eqn:NA; [|apply prog_none in NA; lia].
      destruct (prog_kind _ _ _ _ NA) as (_ & IW & F & _).
      rewrite F, U, FL. cbn [andb].
      exists m. split; [exact Mi|]. split; [reflexivity|].
      simt (Some EPanic).
      rewrite (proj1 GD). unfold cnt; try foldn; rewrite EM. unfold counters, mon_upd, panicked; cbn. reflexivity.
    + (* non-wait action: its event; the check uses the invariant *)
      rewrite NA.
      destruct (prog_kind _ _ _ _ NA) as (_ & IW & F & _).
      assert (faultable a && fault c i (round st) (pc th) = false) as NF.
      { rewrite F. destruct (userpos n (shp c) (pc th)); [rewrite FL|]; auto. }
      rewrite NF.
      exists m. split; auto.
      assert (cnt c (round st) (exec a (allocs c i (round st) (pc th)) th) = mon_upd m (ev_of_act a)) as CE.
      { unfold cnt; try foldn; rewrite EM. eapply counters_exec; eauto.
        - apply exec_pc.
        - unfold panicked. rewrite exec_md. reflexivity. }
      split; [|simt (Some (ev_of_act a)); exact CE].
      (* mon_ok *)
      unfold thread_ok in OK. rewrite M, BL in OK. destruct OK as (RW & GW).
      assert (forall mj, In mj ms -> m_pan mj = false ->
                (2 <= wb n (pc th) -> n + 2 <= m_clear mj - round st + (n + 1) /\ m_clear mj = S (round st) /\ m_gen mj = cum (ssize c) (S (round st))) /\
                (3 <= wb n (pc th) -> m_end mj = S (round st))) as LIVE.
      { intros mj HI PJ. destruct (sim_lookup _ _ _ I G SM HI) as (j & thj & Nj & Ij & ->).
        pose proof (C thj Ij) as OJ. fold n in OJ.
        unfold cnt in PJ. cbn [m_pan counters] in PJ.
        destruct (live_thread_pos _ _ _ _ OJ PJ) as [X2 X3]. rewrite GW in X2, X3.
        split; intros G2.
        - specialize (X2 G2). unfold cnt, counters; fold n; cbn [m_clear m_gen cum]; fold n.
          replace (n + 1 <? pc thj) with true by (symmetry; apply Nat.ltb_lt; lia).
          rewrite Nat.min_r by lia. cbn [b2n]. repeat split; lia.
        - specialize (X3 G2). unfold cnt, counters; fold n; cbn [m_end].
          replace (2 * n + 4 <? pc thj) with true by (symmetry; apply Nat.ltb_lt; lia).
          cbn [b2n]. lia. }
      assert (wb n (pc th) <> 2 -> untimed_ok ms = true) as UNT.
      { intros W2. apply forallb_forall. intros mj HI. destruct (m_pan mj) eqn:PJ; auto. cbn [orb].
        destruct (sim_lookup _ _ _ I G SM HI) as (j & thj & Nj & Ij & ->).
        pose proof (C thj Ij) as OJ. foldn.
        unfold cnt in PJ. cbn [m_pan counters] in PJ.
        pose proof (live_not_timed _ _ _ _ OJ PJ) as NT. rewrite GW in NT. specialize (NT W2).
        unfold cnt, counters; foldn; cbn [m_start m_end]. apply Nat.leb_le.
        destruct (Nat.ltb_spec (n + 3) (pc thj)), (Nat.ltb_spec (2 * n + 4) (pc thj)); cbn [b2n]; lia. }
      destruct (prog_at _ _ _ _ NA) as [[L ->]|[[L ->]|[[L ->]|[[L ->]|[[L ->]|[[L ->]|[[L ->]|[[L ->]|[[L ->]|[L (k & o & ->)]]]]]]]]]];
        cbn [ev_of_act mon_ok]; auto.
      * (* generator call *)
        apply UNT. assert (~ 2 <= wb n (pc th)) by (rewrite wb_ge2; lia). lia.
      * (* clear *)
        apply UNT. assert (~ 2 <= wb n (pc th)) by (rewrite wb_ge2; lia). lia.
      * (* start timestamp *)
        apply forallb_forall. intros mj HI. destruct (m_pan mj) eqn:PJ; auto. cbn [orb].
        destruct (LIVE mj HI PJ) as [L2 _].
        assert (2 <= wb n (pc th)) as G2 by (apply wb_ge2; lia).
        destruct (L2 G2) as (_ & CL & GE).
        assert (m_start m = round st) as MS.
        { unfold cnt; try foldn; rewrite EM. unfold counters; cbn [m_start].
          replace (n + 3 <? pc th) with false by (symmetry; apply Nat.ltb_ge; lia). cbn [b2n]. lia. }
        rewrite MS. apply andb_true_iff. split; apply Nat.leb_le; lia.
      * (* snapshot *)
        assert (3 <= wb n (pc th)) as G3' by (apply wb_ge3; lia).
        rewrite (UNT ltac:(lia)), andb_true_r.
        apply forallb_forall. intros mj HI. destruct (m_pan mj) eqn:PJ; auto. cbn [orb].
        destruct (LIVE mj HI PJ) as [_ L3].
        assert (3 <= wb n (pc th)) as G3 by (apply wb_ge3; lia).
        assert (m_end m = S (round st)) as ME.
        { unfold cnt; try foldn; rewrite EM. unfold counters; cbn [m_end].
          replace (2 * n + 4 <? pc th) with true by (symmetry; apply Nat.ltb_lt; lia). cbn [b2n]. lia. }
        rewrite ME, (L3 G3). apply Nat.leb_le. lia.
      * (* drop *)
        assert (3 <= wb n (pc th)) as G3' by (apply wb_ge3; lia).
        pose proof (UNT ltac:(lia)) as UN.
        assert (forallb (fun mj => m_pan mj || (m_end m <=? m_end mj)) ms = true) as D.
        { apply forallb_forall. intros mj HI. destruct (m_pan mj) eqn:PJ; auto. cbn [orb].
          destruct (LIVE mj HI PJ) as [_ L3].
          assert (3 <= wb n (pc th)) as G3 by (apply wb_ge3; lia).
          assert (m_end m = S (round st)) as ME.
          { unfold cnt; try foldn; rewrite EM. unfold counters; cbn [m_end].
            replace (2 * n + 4 <? pc th) with true by (symmetry; apply Nat.ltb_lt; lia). cbn [b2n]. lia. }
          rewrite ME, (L3 G3). apply Nat.leb_le. lia. }
        destruct o; cbn [mon_ok]; rewrite D, UN; reflexivity.
    + (* guard: done, no event *)
      rewrite R0. cbn [Nat.eqb negb]. rewrite andb_false_r.
      simt (@None evk). unfold cnt; try foldn; rewrite EM.
      apply counters_same; auto; try (unfold panicked; cbn; rewrite ?M; reflexivity).
    + (* guard wait, releasing: EGArrive if logged *)
      rewrite RK. cbn [Nat.eqb negb]. rewrite andb_true_r.
      destruct gev; [|simt (@None evk); unfold cnt; try foldn; rewrite EM;
        apply counters_same; auto; try (unfold panicked; cbn; rewrite ?M; reflexivity)].
      exists m. split; [exact Mi|]. split; [reflexivity|].
      simt (Some EGArrive). cbn [mon_upd]. unfold cnt; try foldn; rewrite EM.
      apply counters_same; auto; try (unfold panicked; cbn; rewrite ?M; reflexivity).
    + (* guard wait, blocking: EGArrive if logged *)
      rewrite RK. cbn [Nat.eqb negb]. rewrite andb_true_r.
      destruct gev; [|simt (@None evk); unfold cnt; try foldn; rewrite EM;
        apply counters_same; auto; try (unfold panicked; cbn; rewrite ?M; reflexivity)].
      exists m. split; [exact Mi|]. split; [reflexivity|].
      simt (Some EGArrive). cbn [mon_upd]. unfold cnt; try foldn; rewrite EM.
      apply counters_same; auto; try (unfold panicked; cbn; rewrite ?M; reflexivity).
Qed.

Lemma monitor_events : forall gev tr st ms,
  Inv c st -> Sim c st ms -> monitor (ssize c) ms (events_g gev c st tr) = true.
Proof.
  intros gev. induction tr as [|l t IH]; intros st ms I SM; [reflexivity|]. cbn [events_g].
  destruct (step c st l) as [st'|] eqn:ST; [|reflexivity].
  pose proof (monitor_step gev _ _ _ _ I SM ST) as MS.
  assert (Inv c st') as I' by (eapply inv_step; eauto).
  destruct (step_event_g gev c st l) as [[t0 e]|].
  - destruct MS as (m & Hm & OKm & SM'). cbn [monitor]. rewrite Hm, OKm. cbn [andb]. apply IH; auto.
  - apply IH; auto.
Qed.

Lemma log_sb_model_g : forall gev tr, log_sb (nthreads c) (ssize c) (events_g gev c (init c) tr) = true.
Proof.
  intros gev tr. unfold log_sb. apply monitor_events.
  - apply inv_init.
  - split; [apply repeat_length|]. cbn [gp init round].
    intros m HI. apply repeat_spec in HI. subst. reflexivity.
Qed.

Theorem log_sb_model : forall tr, log_sb (nthreads c) (ssize c) (events c (init c) tr) = true.
Proof. exact (log_sb_model_g false). Qed.

(** ... and of the full log, the guard's waits (hook H5) included. *)
Theorem log_sb_model_full : forall tr, log_sb (nthreads c) (ssize c) (events_full c (init c) tr) = true.
Proof. exact (log_sb_model_g true). Qed.

End Monitor.
