(** Proofs about the model of [compute_stats] (Model/Stats.v). *)
From DivanV Require Import Base.Res Model.Stats Proofs.StatsLists.
From Coq Require Import ZifyN ZifyBool ZifyNat Permutation Sorted.
Local Open Scope N_scope.
Ltac Zify.zify_post_hook ::= Z.div_mod_to_equations.
Local Arguments N.add : simpl never.
Local Arguments N.sub : simpl never.
Local Arguments N.mul : simpl never.
Local Arguments N.div : simpl never.
Local Arguments N.modulo : simpl never.
Local Arguments N.pow : simpl never.

Lemma two128_val : 2 ^ 128 = 340282366920938463463374607431768211456. Proof. reflexivity. Qed.
Lemma two64_val : 2 ^ 64 = 18446744073709551616. Proof. reflexivity. Qed.
Lemma two32_val : 2 ^ 32 = 4294967296. Proof. reflexivity. Qed.

(** * Old behaviour and the remaining panic *)

Definition empty_inputs (s : N) : inputs :=
  {| in_size := s; in_durs := []; in_allocs := []; in_counters := [ {| ci_counts := []; ci_input := false |} ] |}.

(** The code before commit f2a8733 (F1): with no samples the median counter
    divides by [median_samples.len() = 0] ... *)
Example old_code_divides_by_zero :
  compute_stats false true [] (empty_inputs 1) = Panic DivByZero.
Proof. reflexivity. Qed.

(** ... and, had it not panicked, every allocation figure would be [0.0/0.0]. *)
Example old_code_nan :
  exists st, compute_stats false true []
               {| in_size := 0; in_durs := []; in_allocs := []; in_counters := [] |} = Ok st
             /\ existsb xq_is_nan (all_xq st) = true.
Proof. eexists. split; [reflexivity|]. reflexivity. Qed.

(** The current code still divides by the sample size when samples exist. *)
Lemma zero_sample_size_panics :
  forall dbg, compute_stats true dbg [(0, 1)]
    {| in_size := 0; in_durs := [1]; in_allocs := []; in_counters := [] |} = Panic DivByZero.
Proof. intros []; reflexivity. Qed.

(** * Pieces: when they are [Ok], and what they return *)

Lemma add128_ok dbg a b :
  (dbg = true -> a + b < 2 ^ 128) -> exists v, add128 dbg a b = Ok v.
Proof.
  intros H. unfold add128, checked_add. destruct dbg; [|eexists; reflexivity].
  specialize (H eq_refl). apply N.ltb_lt in H. rewrite H. eexists; reflexivity.
Qed.

Lemma add128_val dbg a b v : add128 dbg a b = Ok v -> a + b < 2 ^ 128 -> v = a + b.
Proof.
  unfold add128, checked_add. intros H Hlt. destruct dbg.
  - destruct (a + b <? 2 ^ 128); [injection H as <-; reflexivity|discriminate].
  - injection H as <-. apply N.mod_small. exact Hlt.
Qed.

Lemma sum128_val dbg l : forall acc v,
  sum128 dbg acc l = Ok v -> acc + sum_list l < 2 ^ 128 -> v = acc + sum_list l.
Proof.
  induction l as [|x r IH]; intros acc v H Hlt; cbn [sum128 sum_list] in *.
  - injection H as <-. lia.
  - destruct (add128 dbg acc x) as [a|] eqn:E; cbn [bind] in H; [|discriminate].
    apply add128_val in E; [|lia]. subst a. apply IH in H; lia.
Qed.

Lemma sum128_ok dbg l : forall acc,
  (dbg = true -> acc + sum_list l < 2 ^ 128) -> exists v, sum128 dbg acc l = Ok v.
Proof.
  induction l as [|x r IH]; intros acc H; cbn [sum128 sum_list] in *; [eexists; reflexivity|].
  destruct (add128_ok dbg acc x) as [a Ea]; [intros D; specialize (H D); lia|].
  rewrite Ea. cbn [bind]. apply IH. intros D. specialize (H D).
  apply add128_val in Ea; [|lia]. subst a. lia.
Qed.

Lemma mul64_ok dbg a b : (dbg = true -> a * b < 2 ^ 64) -> exists v, mul64 dbg a b = Ok v.
Proof.
  intros H. unfold mul64, checked_mul. destruct dbg; [|eexists; reflexivity].
  specialize (H eq_refl). apply N.ltb_lt in H. rewrite H. eexists; reflexivity.
Qed.

Lemma mul64_val dbg a b v : mul64 dbg a b = Ok v -> a * b < 2 ^ 64 -> v = a * b.
Proof.
  unfold mul64, checked_mul. intros H Hlt. destruct dbg.
  - destruct (a * b <? 2 ^ 64); [injection H as <-; reflexivity|discriminate].
  - injection H as <-. apply N.mod_small. exact Hlt.
Qed.

Lemma checked_div_ok a b : b <> 0 -> checked_div a b = Ok (a / b).
Proof. intros H. unfold checked_div. destruct (b =? 0) eqn:E; [apply N.eqb_eq in E; contradiction|reflexivity]. Qed.

Lemma checked_div_inv a b v : checked_div a b = Ok v -> b <> 0 /\ v = a / b.
Proof.
  unfold checked_div. destruct (b =? 0) eqn:E; [discriminate|]. intros [= <-].
  apply N.eqb_neq in E. split; [exact E|reflexivity].
Qed.

(** ** [slice_middle] *)

Lemma firstn_skipn_1 {A} (l : list A) : forall a, (a < length l)%nat ->
  exists x, nth_error l a = Some x /\ firstn 1 (skipn a l) = [x].
Proof.
  induction l as [|y r IH]; intros a H; cbn [length] in H; [lia|].
  destruct a as [|a].
  - exists y. split; reflexivity.
  - cbn [nth_error skipn]. apply IH. lia.
Qed.

Lemma firstn_skipn_2 {A} (l : list A) : forall a, (S a < length l)%nat ->
  exists x y, nth_error l a = Some x /\ nth_error l (S a) = Some y /\ firstn 2 (skipn a l) = [x; y].
Proof.
  induction l as [|z r IH]; intros a H; cbn [length] in H; [lia|].
  destruct a as [|a].
  - destruct r as [|y r']; [cbn [length] in H; lia|]. exists z, y. repeat split; reflexivity.
  - cbn [skipn]. destruct (IH a ltac:(lia)) as (x & y & H1 & H2 & H3).
    exists x, y. repeat split; assumption.
Qed.

Lemma even_half n : Nat.even n = true -> n <> 0%nat -> (S (n / 2 - 1) = n / 2 /\ n / 2 < n /\ 1 <= n / 2)%nat.
Proof.
  intros He Hn. apply Nat.even_spec in He. destruct He as [k ->].
  replace (2 * k / 2)%nat with k by (symmetry; rewrite Nat.mul_comm; apply Nat.div_mul; lia). lia.
Qed.

Lemma half_lt n : n <> 0%nat -> (n / 2 < n)%nat.
Proof. intros H. apply Nat.div_lt; lia. Qed.

(** What [slice_middle] returns: never a panic; nothing, the middle element,
    or the two middle elements. *)
Inductive middle_of {A} (l : list A) : list A -> Prop :=
| MidNone : l = [] -> middle_of l []
| MidOne x : Nat.even (length l) = false -> nth_error l (length l / 2) = Some x -> middle_of l [x]
| MidTwo x y : l <> [] -> Nat.even (length l) = true ->
               nth_error l (length l / 2 - 1) = Some x -> nth_error l (length l / 2) = Some y ->
               middle_of l [x; y].

Lemma slice_middle_ok {A} (l : list A) : exists m, slice_middle l = Ok m /\ middle_of l m.
Proof.
  unfold slice_middle. destruct (length l =? 0)%nat eqn:E0.
  - apply Nat.eqb_eq in E0. destruct l; [|discriminate]. exists []. split; [reflexivity|constructor; reflexivity].
  - apply Nat.eqb_neq in E0. destruct (Nat.even (length l)) eqn:Ev.
    + destruct (even_half _ Ev E0) as (H1 & H2 & H3).
      destruct (firstn_skipn_2 l (length l / 2 - 1) ltac:(lia)) as (x & y & Hx & Hy & Hf).
      rewrite H1 in Hy.
      unfold slice_from. destruct (length l / 2 - 1 <=? length l)%nat eqn:Eb; [|apply Nat.leb_gt in Eb; lia].
      cbn [bind]. unfold slice_to. rewrite skipn_length.
      destruct (2 <=? length l - (length l / 2 - 1))%nat eqn:Ec; [|apply Nat.leb_gt in Ec; lia].
      exists [x; y]. split; [rewrite Hf; reflexivity|].
      apply MidTwo; try assumption. intros ->. apply E0. reflexivity.
    + pose proof (half_lt _ E0) as H2.
      destruct (firstn_skipn_1 l (length l / 2) H2) as (x & Hx & Hf).
      unfold slice_from. destruct (length l / 2 <=? length l)%nat eqn:Eb; [|apply Nat.leb_gt in Eb; lia].
      cbn [bind]. unfold slice_to. rewrite skipn_length.
      destruct (1 <=? length l - length l / 2)%nat eqn:Ec; [|apply Nat.leb_gt in Ec; lia].
      exists [x]. split; [rewrite Hf; reflexivity|]. apply MidOne; assumption.
Qed.

Lemma slice_middle_inv {A} (l m : list A) : slice_middle l = Ok m -> middle_of l m.
Proof. intros H. destruct (slice_middle_ok l) as (m' & H1 & H2). rewrite H in H1. injection H1 as ->. exact H2. Qed.

Lemma middle_length {A} (l m : list A) : middle_of l m -> (length m <= 2)%nat /\ (l <> [] -> m <> []).
Proof. intros H. destruct H; cbn [length]; split; try lia; try congruence. Qed.

(** ** Counters *)

Lemma count_for_some_nonempty ci s c : count_for ci s = Some c -> ci_counts ci <> [].
Proof. unfold count_for. intros H Hn. rewrite Hn in H. destruct (if ci_input ci then _ else _); discriminate. Qed.

Lemma kind_stats_ok ci sv mids : exists o, kind_stats true ci sv mids = Ok o.
Proof.
  unfold kind_stats. destruct (median_counter_sum ci mids 0) as [sum|]; [|eexists; reflexivity].
  rewrite checked_div_ok by lia. cbn [bind].
  destruct (opt_bind (hd_error sv) (count_for ci)) as [f|] eqn:Ef; [|eexists; reflexivity].
  destruct (opt_bind (last_error sv) (count_for ci)) as [l|]; [|eexists; reflexivity].
  assert (ci_counts ci <> []) as Hne.
  { destruct (hd_error sv) as [s|]; [|discriminate]. cbn [opt_bind] in Ef. eapply count_for_some_nonempty; eassumption. }
  unfold mean_count. rewrite checked_div_ok.
  - cbn [bind]. eexists; reflexivity.
  - destruct (ci_counts ci); [congruence|]. cbn [length]. lia.
Qed.

Lemma map_res_ok {A B} (f : A -> res B) l : (forall x, exists y, f x = Ok y) -> exists ys, map_res f l = Ok ys.
Proof.
  intros H. induction l as [|x r IH]; cbn [map_res]; [eexists; reflexivity|].
  destruct (H x) as [y ->]. destruct IH as [ys ->]. cbn [bind]. eexists; reflexivity.
Qed.

(** * Inversion of [compute_stats] *)

Lemma compute_stats_inv fixed dbg sv inp st :
  compute_stats fixed dbg sv inp = Ok st ->
  exists tc td mids mn mx md counts,
    mul64 dbg (in_size inp) (N.of_nat (length (in_durs inp))) = Ok tc /\
    sum128 dbg 0 (in_durs inp) = Ok td /\
    slice_middle sv = Ok mids /\
    end_duration (hd_error sv) (in_size inp) = Ok mn /\
    end_duration (last_error sv) (in_size inp) = Ok mx /\
    median_duration_of dbg mids (in_size inp) = Ok md /\
    map_res (fun ci => kind_stats fixed ci sv mids) (in_counters inp) = Ok counts /\
    st = assemble fixed inp sv mids tc mn mx md (if tc =? 0 then 0 else td / tc) counts.
Proof.
  unfold compute_stats. intros H.
  destruct (mul64 dbg _ _) as [tc|] eqn:E1; cbn [bind] in H; [|discriminate].
  destruct (sum128 dbg 0 _) as [td|] eqn:E2; cbn [bind] in H; [|discriminate].
  destruct (slice_middle sv) as [mids|] eqn:E3; cbn [bind] in H; [|discriminate].
  destruct (end_duration (hd_error sv) _) as [mn|] eqn:E4; cbn [bind] in H; [|discriminate].
  destruct (end_duration (last_error sv) _) as [mx|] eqn:E5; cbn [bind] in H; [|discriminate].
  destruct (median_duration_of dbg mids _) as [md|] eqn:E6; cbn [bind] in H; [|discriminate].
  destruct (map_res _ _) as [counts|] eqn:E7; cbn [bind] in H; [|discriminate].
  injection H as <-. exists tc, td, mids, mn, mx, md, counts.
  repeat split; first [reflexivity | assumption].
Qed.

(** * Domain of the property *)

(** A sample size of zero occurs only together with no samples. *)
Definition size_ok (inp : inputs) : Prop := in_size inp <> 0 \/ in_durs inp = [].
(** The u128 total of the durations and the u64 iteration count do not overflow. *)
Definition no_overflow (inp : inputs) : Prop :=
  sum_list (in_durs inp) < 2 ^ 128 /\ in_size inp * N.of_nat (length (in_durs inp)) < 2 ^ 64.

Lemma admissible_nil durs : admissibleb durs [] = true -> durs = [].
Proof.
  intros H. destruct (admissible_vals _ _ H) as (_ & _ & L). destruct durs; [reflexivity|discriminate].
Qed.

Lemma admissible_size_ok inp sv :
  admissibleb (in_durs inp) sv = true -> size_ok inp -> in_size inp <> 0 \/ sv = [].
Proof.
  intros H [Hs|Hd]; [left; exact Hs|right].
  destruct (admissible_vals _ _ H) as (_ & _ & L). rewrite Hd in L. destruct sv; [reflexivity|discriminate].
Qed.

Lemma end_duration_ok o s : s <> 0 \/ o = None -> exists v, end_duration o s = Ok v.
Proof.
  intros [H| ->]; [|eexists; reflexivity].
  destruct o as [x|]; cbn [end_duration]; [|eexists; reflexivity].
  rewrite checked_div_ok by exact H. eexists; reflexivity.
Qed.

Lemma mids_sum_le (sv mids : list (N * N)) : middle_of sv mids -> sum_list (map snd mids) <= sum_list (map snd sv).
Proof.
  intros H. destruct H as [->|x Hev Hx|x y Hne Hev Hx Hy]; cbn [map sum_list].
  - lia.
  - apply nth_error_In in Hx. pose proof (sum_list_in_le (map (@snd N N) sv) (@snd N N x) (in_map (@snd N N) _ _ Hx)). lia.
  - destruct (even_half _ Hev) as (H1 & H2 & H3); [intros E; apply Hne; destruct sv; [reflexivity|discriminate]|].
    rewrite <- H1 in Hy.
    (* split sv at position k = len/2 - 1 *)
    destruct (nth_error_split _ _ Hx) as (l1 & l2 & -> & Hl).
    rewrite <- Hl in Hy. rewrite nth_error_app2 in Hy by lia.
    replace (S (length l1) - length l1)%nat with 1%nat in Hy by lia.
    destruct l2 as [|y' l2']; [discriminate|]. cbn in Hy. injection Hy as ->.
    rewrite map_app, sum_list_app. cbn [map sum_list]. lia.
Qed.

Lemma median_duration_ok dbg sv mids s :
  middle_of sv mids -> (s <> 0 \/ sv = []) -> (dbg = true -> sum_list (map snd sv) < 2 ^ 128) ->
  exists v, median_duration_of dbg mids s = Ok v.
Proof.
  intros Hm Hs Hov. pose proof (mids_sum_le _ _ Hm) as Hle.
  unfold median_duration_of. destruct mids as [|a r] eqn:Em; [eexists; reflexivity|].
  destruct (sum128_ok dbg (map snd (a :: r)) 0) as [v Hv]; [intros D; specialize (Hov D); lia|].
  rewrite Hv. cbn [bind]. rewrite checked_div_ok by (cbn [length]; lia). cbn [bind].
  destruct Hs as [Hs| ->].
  - rewrite checked_div_ok by exact Hs. eexists; reflexivity.
  - exfalso. inversion Hm; subst; try congruence.
    match goal with H : nth_error [] ?k = Some _ |- _ => destruct k; discriminate H end.
Qed.

(** ** Totality *)

Lemma compute_stats_total dbg sv inp :
  admissibleb (in_durs inp) sv = true -> size_ok inp -> (dbg = true -> no_overflow inp) ->
  exists st, compute_stats true dbg sv inp = Ok st.
Proof.
  intros Ha Hs Hov. destruct (admissible_vals _ _ Ha) as (P & S & L).
  pose proof (admissible_size_ok _ _ Ha Hs) as Hs'.
  unfold compute_stats.
  destruct (mul64_ok dbg (in_size inp) (N.of_nat (length (in_durs inp)))) as [tc ->];
    [intros D; apply (Hov D)|]. cbn [bind].
  destruct (sum128_ok dbg (in_durs inp) 0) as [td ->]; [intros D; destruct (Hov D); lia|]. cbn [bind].
  destruct (slice_middle_ok sv) as (mids & -> & Hm). cbn [bind].
  destruct (end_duration_ok (hd_error sv) (in_size inp)) as [mn ->];
    [destruct Hs' as [H| ->]; [left; exact H|right; reflexivity]|]. cbn [bind].
  destruct (end_duration_ok (last_error sv) (in_size inp)) as [mx ->];
    [destruct Hs' as [H| ->]; [left; exact H|right; reflexivity]|]. cbn [bind].
  destruct (median_duration_ok dbg sv mids (in_size inp) Hm Hs') as [md ->].
  { intros D. destruct (Hov D) as [H1 _]. rewrite (sum_list_perm _ _ P). exact H1. }
  cbn [bind].
  destruct (map_res_ok (fun ci => kind_stats true ci sv mids) (in_counters inp)) as [cs ->];
    [intros ci; apply kind_stats_ok|]. cbn [bind].
  eexists; reflexivity.
Qed.

(** * The time figures are the order statistics *)

Lemma zero_div s : 0 / s = 0.
Proof. destruct s; reflexivity. Qed.

Lemma admissible_nonempty durs sv x r : admissibleb durs sv = true -> sv = x :: r -> durs <> [].
Proof.
  intros H -> ->. destruct (admissible_vals _ _ H) as (_ & _ & L). discriminate.
Qed.

Lemma end_duration_hd durs sv s mn :
  admissibleb durs sv = true -> end_duration (hd_error sv) s = Ok mn -> mn = spec_fastest durs s.
Proof.
  intros Ha H. unfold spec_fastest. destruct sv as [|x r]; cbn [hd_error end_duration] in H.
  - injection H as <-. apply admissible_nil in Ha. subst. cbn. symmetry. apply zero_div.
  - apply checked_div_inv in H. destruct H as [_ ->].
    rewrite (admissible_hd durs (x :: r) x Ha eq_refl). reflexivity.
Qed.

Lemma end_duration_last durs sv s mx :
  admissibleb durs sv = true -> end_duration (last_error sv) s = Ok mx -> mx = spec_slowest durs s.
Proof.
  intros Ha H. unfold spec_slowest. destruct (last_error sv) as [x|] eqn:El; cbn [end_duration] in H.
  - apply checked_div_inv in H. destruct H as [_ ->].
    rewrite (admissible_last durs sv x Ha El). reflexivity.
  - injection H as <-. apply last_error_none in El. subst. apply admissible_nil in Ha. subst.
    cbn. symmetry. apply zero_div.
Qed.

Lemma nth_of_view durs sv k x :
  admissibleb durs sv = true -> nth_error sv k = Some x -> nth k (sort_vals durs) 0 = snd x.
Proof.
  intros Ha Hx. rewrite <- (admissible_sorted_vals _ _ Ha).
  apply nth_error_nth. rewrite nth_error_map, Hx. reflexivity.
Qed.

Lemma median_duration_val dbg durs sv mids s md :
  admissibleb durs sv = true -> sum_list durs < 2 ^ 128 -> middle_of sv mids ->
  median_duration_of dbg mids s = Ok md -> md = spec_median durs s.
Proof.
  intros Ha Hov Hm H. destruct (admissible_vals _ _ Ha) as (P & S & L).
  pose proof (mids_sum_le _ _ Hm) as Hle. rewrite (sum_list_perm _ _ P) in Hle.
  unfold spec_median, mid_lo, mid_hi. rewrite <- L.
  destruct Hm as [->|x Hev Hx|x y Hne Hev Hx Hy].
  - apply admissible_nil in Ha. subst. cbn in H. injection H as <-. reflexivity.
  - assert (durs <> []) as Hd.
    { intros ->. destruct sv; [destruct (length (@nil (N*N)) / 2)%nat; discriminate|discriminate]. }
    destruct durs as [|d0 dr] eqn:Ed; [congruence|]. rewrite <- Ed in *. rewrite Hev.
    cbn [median_duration_of map length] in H.
    destruct (sum128 dbg 0 [snd x]) as [v|] eqn:Es; cbn [bind] in H; [|discriminate].
    apply sum128_val in Es; [|cbn [sum_list map] in *; lia]. cbn [sum_list] in Es.
    destruct (checked_div v (N.of_nat 1)) as [a|] eqn:E1; cbn [bind] in H; [|discriminate].
    apply checked_div_inv in E1. destruct E1 as [_ ->].
    apply checked_div_inv in H. destruct H as [_ ->].
    rewrite (nth_of_view _ _ _ _ Ha Hx). subst v. change (N.of_nat 1) with 1. rewrite N.div_1_r.
    f_equal. lia.
  - assert (durs <> []) as Hd.
    { intros ->. apply Hne. destruct sv; [reflexivity|discriminate]. }
    destruct durs as [|d0 dr] eqn:Ed; [congruence|]. rewrite <- Ed in *. rewrite Hev.
    cbn [median_duration_of map length] in H.
    destruct (sum128 dbg 0 [snd x; snd y]) as [v|] eqn:Es; cbn [bind] in H; [|discriminate].
    apply sum128_val in Es; [|cbn [sum_list map] in *; lia]. cbn [sum_list] in Es.
    destruct (checked_div v (N.of_nat 2)) as [a|] eqn:E1; cbn [bind] in H; [|discriminate].
    apply checked_div_inv in E1. destruct E1 as [_ ->].
    apply checked_div_inv in H. destruct H as [_ ->].
    rewrite (nth_of_view _ _ _ _ Ha Hx), (nth_of_view _ _ _ _ Ha Hy). subst v. change (N.of_nat 2) with 2.
    f_equal. f_equal. lia.
Qed.

Lemma order_stats dbg sv inp st :
  admissibleb (in_durs inp) sv = true -> no_overflow inp ->
  compute_stats true dbg sv inp = Ok st ->
  fastest (st_time st) = spec_fastest (in_durs inp) (in_size inp) /\
  slowest (st_time st) = spec_slowest (in_durs inp) (in_size inp) /\
  median (st_time st) = spec_median (in_durs inp) (in_size inp) /\
  mean (st_time st) = spec_mean (in_durs inp) (in_size inp) /\
  st_iter_count st = in_size inp * N.of_nat (length (in_durs inp)) /\
  st_sample_count st = N.of_nat (length (in_durs inp)) mod 2 ^ 32.
Proof.
  intros Ha [Hov1 Hov2] H.
  apply compute_stats_inv in H.
  destruct H as (tc & td & mids & mn & mx & md & counts & E1 & E2 & E3 & E4 & E5 & E6 & E7 & ->).
  apply mul64_val in E1; [|exact Hov2]. apply sum128_val in E2; [|lia]. apply slice_middle_inv in E3.
  cbn [assemble st_time st_iter_count st_sample_count fastest slowest median mean].
  split; [eapply end_duration_hd; eassumption|].
  split; [eapply end_duration_last; eassumption|].
  split; [eapply median_duration_val; eassumption|].
  split; [|split; [exact E1|reflexivity]].
  unfold spec_mean. subst tc td. rewrite N.add_0_l. reflexivity.
Qed.

(** * Bounds *)

Lemma nth_sorted_between durs k :
  (k < length durs)%nat -> list_min durs <= nth k (sort_vals durs) 0 <= list_max durs.
Proof.
  intros Hk. assert (durs <> []) as Hne by (intros ->; cbn in Hk; lia).
  assert (In (nth k (sort_vals durs) 0) durs) as Hin.
  { eapply Permutation_in; [apply sort_vals_perm|]. apply nth_In.
    rewrite (Permutation_length (sort_vals_perm durs)). exact Hk. }
  destruct (list_min_spec _ Hne) as [_ F1]. destruct (list_max_spec _ Hne) as [_ F2].
  rewrite Forall_forall in F1, F2. split; [apply F1|apply F2]; exact Hin.
Qed.

Lemma spec_bounds durs s :
  s <> 0 \/ durs = [] ->
  spec_fastest durs s <= spec_median durs s <= spec_slowest durs s /\
  spec_fastest durs s <= spec_mean durs s <= spec_slowest durs s.
Proof.
  intros [Hs| ->]; [|unfold spec_fastest, spec_slowest, spec_median, spec_mean; cbn; rewrite !zero_div;
                     destruct (s * 0 =? 0); lia].
  destruct durs as [|d0 dr] eqn:Ed.
  { unfold spec_fastest, spec_slowest, spec_median, spec_mean; cbn. rewrite !zero_div. destruct (s * 0 =? 0); lia. }
  rewrite <- Ed. assert (durs <> []) as Hne by (rewrite Ed; discriminate).
  assert (length durs <> 0%nat) as Hn by (rewrite Ed; discriminate).
  unfold spec_fastest, spec_slowest. split.
  - unfold spec_median. rewrite Ed. rewrite <- Ed.
    pose proof (nth_sorted_between durs (length durs / 2) (half_lt _ Hn)) as Hhi. fold (mid_hi durs) in Hhi.
    destruct (Nat.even (length durs)) eqn:Hev.
    + destruct (even_half _ Hev Hn) as (H1 & H2 & H3).
      pose proof (nth_sorted_between durs (length durs / 2 - 1) ltac:(lia)) as Hlo.
      assert (mid_lo durs = nth (length durs / 2 - 1) (sort_vals durs) 0) as Elo by (unfold mid_lo; rewrite Hev; reflexivity).
      rewrite <- Elo in Hlo.
      split; apply N.div_le_mono; try exact Hs.
      * apply N.div_le_lower_bound; lia.
      * apply N.div_le_upper_bound; lia.
    + split; apply N.div_le_mono; try exact Hs; lia.
  - unfold spec_mean.
    destruct (list_min_spec _ Hne) as [_ F1]. destruct (list_max_spec _ Hne) as [_ F2].
    destruct (sum_list_bounds durs _ _ F1 F2) as [B1 B2].
    set (n := N.of_nat (length durs)) in *. assert (n <> 0) as Hn' by lia.
    destruct (s * n =? 0) eqn:E0; [apply N.eqb_eq in E0; nia|].
    split.
    + rewrite <- (N.div_mul_cancel_r (list_min durs) s n) by assumption.
      apply N.div_le_mono; [nia|lia].
    + rewrite <- (N.div_mul_cancel_r (list_max durs) s n) by assumption.
      apply N.div_le_mono; [nia|lia].
Qed.

Lemma bounds dbg sv inp st :
  admissibleb (in_durs inp) sv = true -> size_ok inp -> no_overflow inp ->
  compute_stats true dbg sv inp = Ok st ->
  fastest (st_time st) <= median (st_time st) <= slowest (st_time st) /\
  fastest (st_time st) <= mean (st_time st) <= slowest (st_time st).
Proof.
  intros Ha Hs Hov H. destruct (order_stats _ _ _ _ Ha Hov H) as (-> & -> & -> & -> & _).
  apply spec_bounds. exact Hs.
Qed.

(** * No NaN, no infinity *)

Lemma per_size_fin x c : c <> 0 -> xq_is_fin (per_size x (xq_of_N c)) = true.
Proof.
  intros H. unfold per_size, xq_of_N, xq_div. destruct (c =? 0) eqn:E; [apply N.eqb_eq in E; contradiction|].
  cbn [xq_is_fin]. apply negb_true_iff. apply N.eqb_neq. lia.
Qed.

Lemma med_entry_fin a b m c : m <> 0 -> c <> 0 -> xq_is_fin (med_entry a b (xq_of_N m) (xq_of_N c)) = true.
Proof.
  intros Hm Hc. unfold med_entry, xq_of_N, xq_add, xq_div.
  destruct (m =? 0) eqn:E; [apply N.eqb_eq in E; contradiction|].
  destruct (c =? 0) eqn:E'; [apply N.eqb_eq in E'; contradiction|].
  cbn [xq_is_fin]. apply negb_true_iff. apply N.eqb_neq. lia.
Qed.

Lemma column_fin inp sv mids tc f total :
  let c := column true inp sv mids tc f total in
  xq_is_fin (fastest c) = true /\ xq_is_fin (slowest c) = true /\
  xq_is_fin (median c) = true /\ xq_is_fin (mean c) = true.
Proof.
  cbn zeta. unfold column. cbn [fastest slowest median mean].
  repeat split; try (apply per_size_fin; lia); try (apply med_entry_fin; lia).
Qed.

Lemma assemble_all_fin inp sv mids tc mn mx md me counts :
  forallb xq_is_fin (all_xq (assemble true inp sv mids tc mn mx md me counts)) = true.
Proof.
  unfold all_xq, column_of, assemble.
  cbn [st_max_count st_max_size st_tallies map flat_map all_ops app fst snd forallb].
  repeat match goal with
         | |- context [xq_is_fin (?sel (column true inp sv mids tc ?f ?t))] =>
             let H := fresh in
             pose proof (column_fin inp sv mids tc f t) as H; cbn zeta in H;
             destruct H as (-> & -> & -> & ->)
         end.
  reflexivity.
Qed.

Lemma total_no_nan dbg sv inp :
  admissibleb (in_durs inp) sv = true -> size_ok inp -> (dbg = true -> no_overflow inp) ->
  exists st, compute_stats true dbg sv inp = Ok st /\
             forallb xq_is_fin (all_xq st) = true /\ existsb xq_is_nan (all_xq st) = false.
Proof.
  intros Ha Hs Hov. destruct (compute_stats_total dbg sv inp Ha Hs Hov) as [st H].
  exists st. split; [exact H|].
  apply compute_stats_inv in H.
  destruct H as (tc & td & mids & mn & mx & md & counts & _ & _ & _ & _ & _ & _ & _ & ->).
  pose proof (assemble_all_fin inp sv mids tc mn mx md (if tc =? 0 then 0 else td / tc) counts) as Hf.
  split; [exact Hf|].
  apply not_true_iff_false. intros He. apply existsb_exists in He. destruct He as (x & Hin & Hx).
  rewrite forallb_forall in Hf. specialize (Hf _ Hin). destruct x; discriminate.
Qed.

(** * What [admissibleb] means: exactly the sorted permutations of the samples *)

Definition admissible (durs : list N) (sv : list (N * N)) : Prop :=
  Permutation sv (indexed durs) /\ StronglySorted (fun a b => snd a <= snd b) sv.

Lemma pair_eqb_refl a : pair_eqb a a = true.
Proof. unfold pair_eqb. rewrite !N.eqb_refl. reflexivity. Qed.

Lemma remove_first_in a l : In a l -> exists l', remove_first a l = Some l'.
Proof.
  induction l as [|x r IH]; intros H; [destruct H|]. cbn [remove_first].
  destruct (pair_eqb a x) eqn:E; [eexists; reflexivity|].
  destruct H as [->|H]; [rewrite pair_eqb_refl in E; discriminate|].
  destruct (IH H) as [r' ->]. eexists; reflexivity.
Qed.

Lemma is_perm_complete l1 : forall l2, Permutation l1 l2 -> is_perm l1 l2 = true.
Proof.
  induction l1 as [|a r IH]; intros l2 P; cbn [is_perm].
  - apply Permutation_nil in P. subst. reflexivity.
  - destruct (remove_first_in a l2) as [l2' R]; [eapply Permutation_in; [exact P|left; reflexivity]|].
    rewrite R. apply IH. apply remove_first_perm in R.
    eapply Permutation_cons_inv. eapply Permutation_trans; [exact P|exact R].
Qed.

Lemma sorted_by_snd_iff l : sorted_by_snd l = true <-> StronglySorted (fun a b => snd a <= snd b) l.
Proof.
  split.
  - intros H. apply Sorted_StronglySorted; [intros x y z; apply N.le_trans|].
    induction l as [|x r IH]; [constructor|]. cbn [sorted_by_snd] in H. destruct r as [|y r'].
    + constructor; constructor.
    + apply andb_true_iff in H. destruct H as [H1 H2]. constructor; [apply IH; exact H2|].
      constructor. apply N.leb_le. exact H1.
  - intros H. apply StronglySorted_Sorted in H.
    induction l as [|x r IH]; [reflexivity|]. cbn [sorted_by_snd]. destruct r as [|y r']; [reflexivity|].
    inversion H as [|? ? Hr Hx]; subst. apply andb_true_iff. split; [|apply IH; exact Hr].
    inversion Hx; subst. apply N.leb_le. assumption.
Qed.

Lemma admissibleb_iff durs sv : admissibleb durs sv = true <-> admissible durs sv.
Proof.
  unfold admissibleb, admissible. rewrite andb_true_iff, sorted_by_snd_iff. split; intros [H1 H2]; split; try exact H2.
  - apply is_perm_sound. exact H1.
  - apply is_perm_complete. exact H1.
Qed.

(** What the specification functions mean. *)
Lemma spec_meaning durs :
  (durs <> [] -> In (list_min durs) durs /\ Forall (fun y => list_min durs <= y) durs) /\
  (durs <> [] -> In (list_max durs) durs /\ Forall (fun y => y <= list_max durs) durs) /\
  Permutation (sort_vals durs) durs /\ StronglySorted N.le (sort_vals durs) /\
  (forall s, spec_fastest durs s = list_min durs / s) /\
  (forall s, spec_slowest durs s = list_max durs / s) /\
  (forall s, durs <> [] -> spec_median durs s =
     if Nat.even (length durs)
     then ((nth (length durs / 2 - 1) (sort_vals durs) 0 + nth (length durs / 2) (sort_vals durs) 0) / 2) / s
     else nth (length durs / 2) (sort_vals durs) 0 / s) /\
  (forall s, s * N.of_nat (length durs) <> 0 ->
     spec_mean durs s = sum_list durs / (s * N.of_nat (length durs))) /\
  (forall s, spec_median [] s = 0 /\ spec_mean [] s = 0 /\ spec_fastest [] s = 0 /\ spec_slowest [] s = 0).
Proof.
  split; [apply list_min_spec|]. split; [apply list_max_spec|].
  split; [apply sort_vals_perm|]. split; [apply sort_vals_sorted|].
  split; [reflexivity|]. split; [reflexivity|]. split; [|split].
  - intros s Hne. unfold spec_median, mid_lo, mid_hi. destruct durs; [congruence|].
    destruct (Nat.even (length (n :: durs))); reflexivity.
  - intros s Hc. unfold spec_mean. destruct (s * N.of_nat (length durs) =? 0) eqn:E; [apply N.eqb_eq in E; contradiction|].
    reflexivity.
  - intros s. unfold spec_median, spec_mean, spec_fastest, spec_slowest, list_min, list_max.
    cbn [length fold_left sum_list]. rewrite !zero_div. destruct (s * N.of_nat 0 =? 0); repeat split; reflexivity.
Qed.

(** The hypotheses of the theorems are satisfiable by non-trivial inputs: four
    samples with a tie at the minimum, two different admissible views. *)
Definition example_inputs : inputs :=
  {| in_size := 2; in_durs := [5; 3; 3; 9];
     in_allocs := [(1, {| ai_grow := tally_zero; ai_shrink := tally_zero;
                          ai_alloc := {| t_count := 4; t_size := 64 |}; ai_dealloc := tally_zero;
                          ai_max_count := 2; ai_max_size := 48 |})];
     in_counters := [ {| ci_counts := [10; 20; 30; 40]; ci_input := true |} ] |}.

Example hypotheses_satisfiable :
  admissibleb (in_durs example_inputs) [(1, 3); (2, 3); (0, 5); (3, 9)] = true /\
  admissibleb (in_durs example_inputs) [(2, 3); (1, 3); (0, 5); (3, 9)] = true /\
  size_ok example_inputs /\ no_overflow example_inputs /\
  (exists st, compute_stats true true [(2, 3); (1, 3); (0, 5); (3, 9)] example_inputs = Ok st /\
              st_time st = {| fastest := 1; slowest := 4; median := 2; mean := 2 |}).
Proof.
  split; [reflexivity|]. split; [reflexivity|].
  split; [left; discriminate|]. split; [split; reflexivity|].
  eexists. split; reflexivity.
Qed.
