From DivanV Require Import Base.Res Model.Stats.
From Coq Require Import ZifyN ZifyBool ZifyNat Permutation Sorted.
Local Open Scope N_scope.
Ltac Zify.zify_post_hook ::= Z.div_mod_to_equations.

Definition empty_inputs (s : N) : inputs :=
  {| in_size := s; in_durs := []; in_allocs := []; in_counters := [ {| ci_counts := []; ci_input := false |} ] |}.

(** The code before commit f2a8733 (F1): with no samples the median counter
    divides by [median_samples.len() = 0]. *)
Example old_code_divides_by_zero :
  compute_stats false true [] (empty_inputs 1) = Panic DivByZero.
Proof. reflexivity. Qed.

(** The current code panics when samples exist but the sample size is 0. *)
Lemma zero_sample_size_panics :
  forall dbg, compute_stats true dbg [(0, 1)]
    {| in_size := 0; in_durs := [1]; in_allocs := []; in_counters := [] |} = Panic DivByZero.
Proof. intros []; reflexivity. Qed.
