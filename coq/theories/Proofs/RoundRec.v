(** Group [round] (C08): the caller's bookkeeping stores thread t's sample of
    round r under index r*T + t, and nothing for an empty tally. *)
From Coq Require Import List Arith Bool Lia NArith.
From DivanV Require Import Model.Round Proofs.RoundBase.
Import ListNotations.

Lemma tally_empty_iff : forall s, tally_empty s = false <-> s <> [].
Proof. intros [|a s]; cbn; split; intros; congruence. Qed.

Lemma record_samples_in : forall samples idx m k s,
  In (k, s) (record_samples idx samples m) <->
  In (k, s) m \/ exists j, nth_error samples j = Some s /\ k = idx + j /\ s <> [].
Proof.
  induction samples as [|h t IH]; intros idx m k s; cbn [record_samples].
  - split; [auto|]. intros [H|(j & H & _)]; auto. destruct j; discriminate.
  - rewrite IH. split.
    + intros [H|(j & N & K & E)].
      * destruct (tally_empty h) eqn:TE; auto.
        apply in_app_or in H. destruct H as [H|[H|[]]]; auto.
        inversion H; subst. right. exists 0. cbn. repeat split; auto; try lia.
        apply tally_empty_iff. exact TE.
      * right. exists (S j). cbn. repeat split; auto. lia.
    + intros [H|(j & N & K & E)].
      * left. destruct (tally_empty h); auto. apply in_or_app. auto.
      * destruct j as [|j]; cbn in N.
        -- inversion N; subst. left. apply tally_empty_iff in E. rewrite E.
           apply in_or_app. right. left. f_equal. lia.
        -- right. exists j. repeat split; auto. lia.
Qed.

Lemma run_records_in : forall c n r idx m k s,
  In (k, s) (run_records c r n idx m) <->
  In (k, s) m \/
  exists j t, j < n /\ t < nthreads c /\ k = idx + j * nthreads c + t /\
              s = own_allocs c t (r + j) /\ s <> [].
Proof.
  intros c n. induction n as [|n IH]; intros r idx m k s; cbn [run_records].
  - split; [auto|]. intros [H|(j & t & H & _)]; auto. lia.
  - rewrite IH, record_samples_in. split.
    + intros [[H|(t & N & K & E)]|(j & t & J & T & K & SO & E)].
      * auto.
      * right. exists 0, t.
        assert (t < nthreads c) as TL.
        { rewrite <- (seq_length (nthreads c) 0), <- (map_length (fun t0 => own_allocs c t0 r)).
          apply nth_error_Some. congruence. }
        rewrite nth_error_map, nth_error_seq in N by lia. cbn in N. inversion N; subst.
        repeat split; auto; try lia; try (rewrite Nat.add_0_r; reflexivity).
      * right. exists (S j), t. repeat split; auto; try lia;
          try (rewrite SO; f_equal; lia).
    + intros [H|(j & t & J & T & K & SO & E)]; auto.
      destruct j as [|j].
      * left. right. exists t. repeat split; auto; try lia.
        rewrite nth_error_map, nth_error_seq by lia. cbn. rewrite SO, Nat.add_0_r. reflexivity.
      * right. exists j, t. repeat split; auto; try lia;
          try (rewrite SO; f_equal; lia).
Qed.

(** What is stored, and under which index. *)
Theorem sample_index : forall c k s,
  In (k, s) (records c) <->
  exists r t, r < nrounds c /\ t < nthreads c /\ k = r * nthreads c + t /\
              s = own_allocs c t r /\ s <> [].
Proof.
  intros c k s. unfold records. rewrite run_records_in. cbn. split.
  - intros [[]|(j & t & H)]. exists j, t. exact H.
  - intros (r & t & H). right. exists r, t. exact H.
Qed.

(** The entry under index r*T + t is thread t's sample of round r - never
    another thread's - and there is none when thread t's tally is empty. *)
Theorem sample_index_own : forall c r t s,
  t < nthreads c -> In (r * nthreads c + t, s) (records c) ->
  r < nrounds c /\ s = own_allocs c t r /\ s <> [].
Proof.
  intros c r t s T H. apply sample_index in H. destruct H as (r' & t' & R & T' & K & SO & E).
  assert (r = r' /\ t = t') as [-> ->].
  { assert (r = r') by nia. subst. split; auto. lia. }
  auto.
Qed.
