(** The driver model paints exactly the layout of the expected picture (C20):
    every node once, in depth-first order, with the indentation units and the
    glyph its position demands. *)
From DivanV Require Import Base.Res Model.Painter Model.DriverPaint Model.Parse Proofs.Painter.
From Coq Require Import Lia.

(** ** exec over concatenation *)

Lemma exec_app_ok : forall o1 o2 p p1 out1 p2 out2,
  exec p o1 = Ok (p1, out1) -> exec p1 o2 = Ok (p2, out2) ->
  exec p (o1 ++ o2) = Ok (p2, out1 ++ out2).
Proof.
  induction o1 as [|o r IH]; intros o2 p p1 out1 p2 out2 E1 E2.
  - cbn in E1. inversion E1; subst. cbn. exact E2.
  - cbn [exec app] in *. destruct (step p o) as [[pa oa]|] eqn:Es; [|discriminate].
    cbn [bind fst snd] in *.
    destruct (exec pa r) as [[pb ob]|] eqn:Er; [|discriminate].
    cbn [bind fst snd] in *. inversion E1; subst.
    rewrite (IH o2 pa p1 ob p2 out2 Er E2). cbn [bind fst snd]. rewrite app_assoc. reflexivity.
Qed.

Lemma exec_one : forall p o p' out, step p o = Ok (p', out) -> exec p [o] = Ok (p', out).
Proof. intros. cbn. rewrite H. cbn. rewrite app_nil_r. reflexivity. Qed.

Ltac pfin := split; [assumption | split; [first [assumption | congruence | lia] | split; [first [assumption | congruence] | ]]].

(** ** Painting below the top level *)

Definition paints (a : action) (fl : list bool) (ops : list op) (specs : list lspec) : Prop :=
  forall p, inv a p -> depth p = S (length fl) -> prefix p = units_str fl ->
    exists p' out, exec p ops = Ok (p', out) /\ inv a p' /\ depth p' = S (length fl) /\
                   prefix p' = units_str fl /\ lines_shape specs out.

Lemma paints_nil : forall a fl, paints a fl [] [].
Proof. intros a fl p Hi Hd Hp. exists p, []. split; [reflexivity|]. pfin. apply lines_shape_nil. Qed.

Lemma paints_app : forall a fl o1 o2 s1 s2,
  paints a fl o1 s1 -> paints a fl o2 s2 -> paints a fl (o1 ++ o2) (s1 ++ s2).
Proof.
  intros a fl o1 o2 s1 s2 H1 H2 p Hi Hd Hp.
  destruct (H1 p Hi Hd Hp) as (p1 & out1 & E1 & Hi1 & Hd1 & Hp1 & L1).
  destruct (H2 p1 Hi1 Hd1 Hp1) as (p2 & out2 & E2 & Hi2 & Hd2 & Hp2 & L2).
  exists p2, (out1 ++ out2). split; [eapply exec_app_ok; eauto|].
  pfin. apply lines_shape_app; auto.
Qed.

Lemma paints_parent : forall a fl name l body specs,
  paints a (fl ++ [negb l]) body specs ->
  paints a fl ([StartParent name l] ++ body ++ [FinishParent])
         (LNode fl l name (parent_cells a false) :: specs).
Proof.
  intros a fl name l body specs Hb p Hi Hd Hp.
  destruct (start_parent_inner a p fl name l Hi Hd Hp) as (p1 & line & E1 & Lk & Hi1 & Hd1 & Hp1).
  assert (Hd1' : depth p1 = S (length (fl ++ [negb l]))) by (rewrite app_length; cbn; lia).
  destruct (Hb p1 Hi1 Hd1' Hp1) as (p2 & out2 & E2 & Hi2 & Hd2 & Hp2 & L2).
  assert (Hd2' : depth p2 = S (S (length fl))) by (rewrite Hd2, app_length; cbn; lia).
  destruct (finish_parent_inner a p2 fl (negb l) Hi2 Hd2' Hp2) as (p3 & E3 & Hi3 & Hd3 & Hp3).
  exists p3, ((line ++ [nl]) ++ out2 ++ []).
  split.
  - eapply exec_app_ok; [apply exec_one; exact E1|].
    eapply exec_app_ok; [exact E2 | apply exec_one; exact E3].
  - pfin. rewrite app_nil_r.
    change (LNode fl l name (parent_cells a false) :: specs)
      with ([LNode fl l name (parent_cells a false)] ++ specs).
    apply lines_shape_app; [apply lines_shape_one; exact Lk | exact L2].
Qed.

Lemma paints_ignore : forall a fl name l,
  paints a fl [IgnoreLeaf name l]
         [LNode fl l name (Some (if is_bench a then from_first s_ignored else [s_ignored]))].
Proof.
  intros a fl name l p Hi Hd Hp.
  destruct (ignore_leaf_line a p fl name l Hi Hp) as (p1 & line & E1 & Lk & Hi1 & Hd1 & Hp1).
  exists p1, (line ++ [nl]). split; [apply exec_one; exact E1|].
  pfin. apply lines_shape_one; exact Lk.
Qed.

(** A leaf that ends with [finish_empty_leaf], with any calls in between. *)
Lemma paints_leaf_empty : forall a fl name l mid,
  (forall p, exec p mid = Ok (p, [])) ->
  paints a fl ([StartLeaf name l] ++ mid ++ [FinishEmptyLeaf]) [LNode fl l name None].
Proof.
  intros a fl name l mid Hmid p Hi Hd Hp.
  destruct (start_leaf_text a p fl name l Hi Hp) as (p1 & k & E1 & Hk & Hi1 & Hd1 & Hp1).
  exists p1, ((units_str fl ++ branch_glyph l ++ name ++ spaces k) ++ [] ++ [nl]).
  split.
  - eapply exec_app_ok; [apply exec_one; exact E1|].
    eapply exec_app_ok; [apply Hmid | apply exec_one; reflexivity].
  - pfin. cbn [app].
    apply lines_shape_one. cbn. exists (spaces k). split; [rewrite <- ?app_assoc; reflexivity|].
    exists k. split; [reflexivity|]. destruct (is_bench a); lia.
Qed.

(** A leaf that ends with [finish_leaf]. *)
Lemma paints_leaf_stats : forall fl name l mid c,
  (forall p, exec p mid = Ok (p, [])) -> wf_cells c ->
  paints ABench fl ([StartLeaf name l] ++ mid ++ [FinishLeaf l c])
         (LNode fl l name (Some (time_row c)) :: map (LRow fl l) (cont_rows c)).
Proof.
  intros fl name l mid c Hmid Hwf p Hi Hd Hp.
  destruct (start_leaf_text ABench p fl name l Hi Hp) as (p1 & k & E1 & Hk & Hi1 & Hd1 & Hp1).
  assert (Hp1' : prefix p1 = units_str fl) by congruence.
  destruct (finish_leaf_text p1 fl l c Hi1 Hp1' Hwf) as (p2 & s & out & E2 & Sh & L2 & Hi2 & Hd2 & Hp2).
  exists p2, ((units_str fl ++ branch_glyph l ++ name ++ spaces k) ++ [] ++ (s ++ [nl] ++ out)).
  split.
  - eapply exec_app_ok; [apply exec_one; exact E1|].
    eapply exec_app_ok; [apply Hmid | apply exec_one; exact E2].
  - pfin. cbn [app].
    replace ((units_str fl ++ branch_glyph l ++ name ++ spaces k) ++ s ++ nl :: out)
      with (((units_str fl ++ branch_glyph l ++ name ++ spaces k ++ s) ++ [nl]) ++ out)
      by (rewrite <- !app_assoc; reflexivity).
    change (LNode fl l name (Some (time_row c)) :: map (LRow fl l) (cont_rows c))
      with ([LNode fl l name (Some (time_row c))] ++ map (LRow fl l) (cont_rows c)).
    apply lines_shape_app; [|exact L2].
    apply lines_shape_one. cbn. eexists. split; [reflexivity|]. exists k, s. cbn in Hk. auto.
Qed.

(** ** [is_last] by index is "no later sibling" *)

Fixpoint for_last {A B} (l : list A) (i : nat) (f : nat -> bool -> A -> list B) : list B :=
  match l with
  | [] => []
  | x :: r => f i (match r with [] => true | _ => false end) x ++ for_last r (S i) f
  end.

Lemma last_index : forall A (r : list A) i,
  Nat.eqb i (i + S (length r) - 1) = match r with [] => true | _ => false end.
Proof.
  intros. destruct r; cbn [length].
  - apply PeanoNat.Nat.eqb_eq. lia.
  - apply PeanoNat.Nat.eqb_neq. lia.
Qed.

Lemma for_enum_eq : forall A B (l : list A) (f : nat -> bool -> A -> list B),
  for_enum l f = for_last l 0 f.
Proof.
  intros A B l f. unfold for_enum.
  assert (H : forall l i len, len = i + length l ->
    flat_map (fun ix => f (fst ix) (Nat.eqb (fst ix) (len - 1)) (snd ix)) (enum_from i l) = for_last l i f).
  { induction l0 as [|x r IH]; intros i len Hlen; [reflexivity|].
    cbn [enum_from flat_map for_last fst snd]. cbn [length] in Hlen.
    rewrite (IH (S i) len) by lia. subst len. rewrite last_index. reflexivity. }
  apply H. reflexivity.
Qed.

Fixpoint run_kids (a : action) (l : list node) : list op :=
  match l with
  | [] => []
  | c :: r => run_node a (match r with [] => true | _ => false end) c ++ run_kids a r
  end.

Lemma run_list_from_eq : forall a l len i, len = i + length l ->
  run_list_from a len i l = run_kids a l.
Proof.
  induction l as [|c r IH]; intros len i Hlen; [reflexivity|].
  cbn [run_list_from run_kids]. cbn [length] in Hlen. rewrite (IH len (S i)) by lia.
  subst len. rewrite last_index. reflexivity.
Qed.

Lemma inner_go_eq : forall a len l i,
  (fix go (i : nat) (l : list node) {struct l} : list op :=
     match l with
     | [] => []
     | c :: r => run_node a (Nat.eqb i (len - 1)) c ++ go (S i) r
     end) i l = run_list_from a len i l.
Proof. induction l as [|c r IH]; intros i; [reflexivity|]. cbn [run_list_from]. rewrite <- IH. reflexivity. Qed.

Lemma run_node_group : forall a l name sc children,
  run_node a l (Group name sc children) =
  [StartParent name l] ++ run_kids a children ++ [FinishParent].
Proof.
  intros. cbn [run_node]. rewrite inner_go_eq, run_list_from_eq by reflexivity. reflexivity.
Qed.

Lemma lay_node_eq : forall fl last n c rows kids,
  lay_node fl last (Pic n c rows kids) =
  LNode fl last n c :: map (LRow fl last) rows ++ lay_kids (fl ++ [negb last]) kids.
Proof.
  intros. cbn [lay_node]. f_equal. f_equal.
  induction kids as [|k r IH]; [reflexivity|]. cbn [lay_kids]. rewrite IH. reflexivity.
Qed.

(** ** Runs, thread-count branches, argument cases *)

Lemma invoke_mid : forall id arg tc p, exec p [Invoke id arg tc] = Ok (p, []).
Proof. reflexivity. Qed.

Definition fin_ops (a : action) (il : bool) (r : run) : list op :=
  if did_run r && is_bench a then [FinishLeaf il (cells r)] else [FinishEmptyLeaf].

Lemma paints_run : forall a fl name il id arg tc r,
  wf_cells (cells r) ->
  paints a fl ([StartLeaf name il] ++ [Invoke id arg tc] ++ fin_ops a il r)
         (lay_node fl il (pic_run a name r)).
Proof.
  intros a fl name il id arg tc r Hwf. unfold fin_ops, pic_run.
  destruct (did_run r && is_bench a) eqn:E.
  - apply andb_prop in E. destruct E as [_ Ea]. destruct a; try discriminate.
    rewrite lay_node_eq. cbn [lay_kids]. rewrite app_nil_r.
    exact (paints_leaf_stats fl name il [Invoke id arg tc] (cells r) (invoke_mid id arg tc) Hwf).
  - exact (paints_leaf_empty a fl name il [Invoke id arg tc] (invoke_mid id arg tc)).
Qed.

Lemma enum_map_nil : forall A B (g : nat * A -> B) i (l : list A),
  match map g (enum_from i l) with [] => true | _ => false end =
  match l with [] => true | _ => false end.
Proof. intros. destruct l; reflexivity. Qed.

Lemma paints_threads : forall a fl id arg outf tcs i,
  (forall j, wf_cells (cells (outf j))) ->
  paints a fl
    (for_last tcs i (fun i il tc =>
       [StartLeaf (thread_name tc) il] ++ [Invoke id arg tc] ++ fin_ops a il (outf i)))
    (lay_kids fl (map (fun jt => pic_run a (thread_name (snd jt)) (outf (fst jt))) (enum_from i tcs))).
Proof.
  intros a fl id arg outf tcs. induction tcs as [|tc r IH]; intros i Hwf.
  - apply paints_nil.
  - cbn [for_last enum_from map lay_kids fst snd].
    rewrite enum_map_nil.
    apply paints_app; [apply paints_run; apply Hwf | apply IH; exact Hwf].
Qed.

Lemma ltb_1_length : forall A (l : list A), l <> [] -> Nat.ltb 1 (length l) = false -> exists x, l = [x].
Proof.
  intros A l Hne H. destruct l as [|x [|y r]]; [congruence | eauto |].
  cbn in H. discriminate.
Qed.

Lemma paints_bench : forall a fl id arg tcs outf name l,
  tcs <> [] -> (forall j, wf_cells (cells (outf j))) ->
  paints a fl (run_bench a id arg tcs outf name l) (lay_node fl l (pic_bench a tcs outf name)).
Proof.
  intros a fl id arg tcs outf name l Hne Hwf.
  unfold run_bench, pic_bench. rewrite for_enum_eq.
  destruct (Nat.ltb 1 (length tcs)) eqn:E.
  - rewrite lay_node_eq. cbn [map app].
    apply paints_parent.
    exact (paints_threads a (fl ++ [negb l]) id arg outf tcs 0 Hwf).
  - destruct (ltb_1_length _ tcs Hne E) as (tc & ->).
    cbn [for_last]. rewrite !app_nil_r. cbn [app].
    exact (paints_run a fl name l id arg tc (outf 0) (Hwf 0)).
Qed.

Lemma paints_args : forall a fl id tcs out names i,
  tcs <> [] -> (forall i j, wf_cells (cells (out i j))) ->
  paints a fl
    (for_last names i (fun i il an => run_bench a id (Some i) tcs (out i) an il))
    (lay_kids fl (map (fun ia => pic_bench a tcs (out (fst ia)) (snd ia)) (enum_from i names))).
Proof.
  intros a fl id tcs out names. induction names as [|an r IH]; intros i Hne Hwf.
  - apply paints_nil.
  - cbn [for_last enum_from map lay_kids fst snd].
    rewrite enum_map_nil.
    apply paints_app; [apply paints_bench; auto | apply IH; auto].
Qed.

Lemma paints_entry : forall a fl id name ignored args threads out l,
  (forall i j, wf_cells (cells (out i j))) ->
  paints a fl (run_bench_entry a id name ignored args threads out l)
         (lay_node fl l (pic_entry a name ignored args threads out)).
Proof.
  intros a fl id name ignored args threads out l Hwf.
  unfold run_bench_entry, pic_entry.
  destruct ignored.
  { exact (paints_ignore a fl name l). }
  destruct (is_list a) eqn:El.
  { exact (paints_leaf_empty a fl name l [] (fun p => eq_refl)). }
  set (tcs := match threads with [] => [1%N] | _ :: _ => threads end).
  assert (Hne : tcs <> []) by (unfold tcs; destruct threads; congruence).
  destruct args as [names|].
  - rewrite for_enum_eq, lay_node_eq. cbn [map app].
    apply paints_parent. apply paints_args; auto.
  - apply paints_bench; auto.
Qed.

(** ** Whole trees *)

Inductive wf_node : node -> Prop :=
| WfGroup : forall name sc children, Forall wf_node children -> wf_node (Group name sc children)
| WfBench : forall id name sc ignored args threads out,
    (forall i j, wf_cells (cells (out i j))) -> wf_node (Bench id name sc ignored args threads out).

Lemma node_ind2 (P : node -> Prop) :
  (forall name sc children, Forall P children -> P (Group name sc children)) ->
  (forall id name sc ignored args threads out, P (Bench id name sc ignored args threads out)) ->
  forall n, P n.
Proof.
  intros HG HB. fix IH 1. intros [name sc children | id name sc ignored args threads out].
  - apply HG. induction children as [|c r IHr]; constructor; [apply IH | exact IHr].
  - apply HB.
Qed.

Lemma map_nil_match : forall A B (g : A -> B) (l : list A),
  match map g l with [] => true | _ => false end = match l with [] => true | _ => false end.
Proof. intros. destruct l; reflexivity. Qed.

Lemma paints_node : forall a n fl l,
  wf_node n -> paints a fl (run_node a l n) (lay_node fl l (pic_node a false n)).
Proof.
  intros a n. induction n as [name sc children IH | id name sc ignored args threads out] using node_ind2;
    intros fl l Hwf.
  - rewrite run_node_group. cbn [pic_node]. rewrite lay_node_eq. cbn [map app].
    apply paints_parent.
    inversion Hwf as [? ? ? Hc|]; subst. clear Hwf.
    generalize (fl ++ [negb l]) as fl'.
    induction children as [|c r IHr]; intros fl'.
    + apply paints_nil.
    + cbn [run_kids map lay_kids]. rewrite map_nil_match.
      inversion IH as [|? ? Hc1 Hr1]; subst. inversion Hc as [|? ? Hw1 Hw2]; subst.
      apply paints_app; [apply Hc1; exact Hw1 | apply IHr; auto].
  - cbn [run_node pic_node]. inversion Hwf; subst. apply paints_entry; auto.
Qed.

Lemma paints_kids : forall a l fl,
  Forall wf_node l -> paints a fl (run_kids a l) (lay_kids fl (map (pic_node a false) l)).
Proof.
  intros a l. induction l as [|c r IH]; intros fl Hwf.
  - apply paints_nil.
  - cbn [run_kids map lay_kids]. rewrite map_nil_match. inversion Hwf; subst.
    apply paints_app; [apply paints_node; auto | apply IH; auto].
Qed.

(** Top level: the painter is at depth 0 with an empty prefix before and
    after every top-level group. *)
Definition paints_top (a : action) (ops : list op) (specs : list lspec) : Prop :=
  forall p, inv a p -> depth p = 0 -> prefix p = [] ->
    exists p' out, exec p ops = Ok (p', out) /\ inv a p' /\ depth p' = 0 /\ prefix p' = [] /\
                   lines_shape specs out.

Definition is_group (n : node) : bool := match n with Group _ _ _ => true | _ => false end.

Lemma paints_top_group : forall a l name sc children,
  Forall wf_node children ->
  paints_top a (run_node a l (Group name sc children)) (lay_top (pic_node a true (Group name sc children))).
Proof.
  intros a l name sc children Hwf p Hi Hd Hp.
  rewrite run_node_group. cbn [pic_node lay_top].
  destruct (start_parent_top a p name l Hi Hd Hp) as (p1 & line & E1 & Lk & Hi1 & Hd1 & Hp1).
  destruct (paints_kids a children [] Hwf p1 Hi1 Hd1 Hp1) as (p2 & out2 & E2 & Hi2 & Hd2 & Hp2 & L2).
  destruct (finish_parent_top a p2 Hi2 Hd2 Hp2) as (p3 & E3 & Hi3 & Hd3 & Hp3).
  exists p3, ((line ++ [nl]) ++ out2 ++ [nl]).
  split.
  - eapply exec_app_ok; [apply exec_one; exact E1|].
    eapply exec_app_ok; [exact E2 | apply exec_one; exact E3].
  - pfin.
    change (LTop name (parent_cells a true) :: lay_kids [] (map (pic_node a false) children) ++ [LBlank])
      with ([LTop name (parent_cells a true)] ++ lay_kids [] (map (pic_node a false) children) ++ [LBlank]).
    apply lines_shape_app; [apply lines_shape_one; exact Lk|].
    apply lines_shape_app; [exact L2|].
    apply (lines_shape_one LBlank []). reflexivity.
Qed.

Lemma paints_top_list : forall a t,
  forallb is_group t = true -> Forall wf_node t ->
  paints_top a (run_kids a t) (layout (picture a t)).
Proof.
  intros a t. induction t as [|n r IH]; intros Hg Hwf p Hi Hd Hp.
  - exists p, []. split; [reflexivity|]. pfin. apply lines_shape_nil.
  - cbn [forallb] in Hg. apply andb_prop in Hg. destruct Hg as [Hn Hr].
    inversion Hwf as [|? ? Hw1 Hw2]; subst.
    destruct n as [name sc children|]; [|discriminate].
    inversion Hw1; subst.
    cbn [run_kids picture map layout flat_map].
    destruct (paints_top_group a (match r with [] => true | _ => false end) name sc children H0 p Hi Hd Hp)
      as (p1 & out1 & E1 & Hi1 & Hd1 & Hp1 & L1).
    destruct (IH Hr Hw2 p1 Hi1 Hd1 Hp1) as (p2 & out2 & E2 & Hi2 & Hd2 & Hp2 & L2).
    exists p2, (out1 ++ out2). split; [eapply exec_app_ok; eauto|].
    pfin. apply lines_shape_app; auto.
Qed.

Lemma inv_new : forall a t, inv a (painter_new (max_span 0 t) (initial_widths a t)).
Proof.
  intros. unfold inv, painter_new, initial_widths. cbn [widths].
  destruct (is_bench a); [split; [reflexivity | cbn; unfold max_common_column_width; lia] | reflexivity].
Qed.

(** The text [paint] writes is, line for line, the layout of the picture. *)
Theorem paint_layout : forall a t,
  forallb is_group t = true -> Forall wf_node t ->
  exists p out, paint a t = Ok (p, out) /\ depth p = 0 /\ prefix p = [] /\
                lines_shape (layout (picture a t)) out.
Proof.
  intros a t Hg Hwf. unfold paint, paint_ops.
  assert (Hops : match t with [] => [] | _ :: _ => run_tree a t end = run_kids a t).
  { destruct t; [reflexivity|]. unfold run_tree. apply run_list_from_eq. reflexivity. }
  rewrite Hops.
  destruct (paints_top_list a t Hg Hwf _ (inv_new a t) eq_refl eq_refl) as (p & out & E & _ & Hd & Hp & L).
  exists p, out. auto.
Qed.
