(** C12, macro level: what [expand_bench] registers for one [#[divan::bench]]. *)
From DivanV Require Import Base.Res Model.Registry.
Local Open Scope N_scope.

Lemma number_row_kinds : forall run kinds first, map ge_kind (number_row run first kinds) = kinds.
Proof. intros run. induction kinds as [|k tl IH]; intro first; cbn; [reflexivity|]. rewrite IH. reflexivity. Qed.

Lemma number_rows_kinds : forall run rows first, map (map ge_kind) (number_rows run first rows) = rows.
Proof.
  intros run. induction rows as [|r tl IH]; intro first; cbn; [reflexivity|]. rewrite number_row_kinds, IH. reflexivity.
Qed.

Lemma number_row_runner : forall run kinds first e, In e (number_row run first kinds) -> ge_runner e = run.
Proof.
  intros run. induction kinds as [|k tl IH]; intros first e H; cbn in H; [contradiction|].
  destruct H as [H|H]; [subst; reflexivity|apply (IH _ _ H)].
Qed.

Lemma number_rows_runner : forall run rows first e, In e (concat (number_rows run first rows)) -> ge_runner e = run.
Proof.
  intros run. induction rows as [|r tl IH]; intros first e H; cbn in H; [contradiction|].
  apply in_app_or in H. destruct H as [H|H]; [apply (number_row_runner _ _ _ _ H)|apply (IH _ _ H)].
Qed.

Lemma number_row_ids : forall run kinds first,
  map ge_id (number_row run first kinds) = map (fun i => first + N.of_nat i) (seq 0 (length kinds)).
Proof.
  intros run. induction kinds as [|k tl IH]; intro first; cbn [number_row map length seq ge_id]; [reflexivity|].
  rewrite IH. f_equal; [cbn; lia|]. rewrite <- seq_shift, map_map. apply map_ext. intro i. lia.
Qed.

Lemma number_row_length : forall run kinds first, length (number_row run first kinds) = length kinds.
Proof. intros run. induction kinds as [|k tl IH]; intro first; cbn; [reflexivity|]. rewrite IH. reflexivity. Qed.

Lemma map_seq_from : forall A (f : nat -> A) n k, map f (seq k n) = map (fun i => f (k + i)%nat) (seq 0 n).
Proof.
  intros A f. induction n as [|n IH]; intro k; cbn [seq map]; [reflexivity|].
  rewrite Nat.add_0_r. f_equal. rewrite IH, <- seq_shift, map_map. apply map_ext. intro i. f_equal. lia.
Qed.

Lemma number_rows_ids : forall run rows first,
  map ge_id (concat (number_rows run first rows))
  = map (fun i => first + N.of_nat i) (seq 0 (length (concat rows))).
Proof.
  intros run. induction rows as [|r tl IH]; intro first; cbn [number_rows concat]; [reflexivity|].
  rewrite map_app, number_row_ids, IH, app_length, seq_app, map_app. f_equal.
  cbn [plus]. rewrite (map_seq_from _ (fun i => first + N.of_nat i) (length (concat tl)) (length r)).
  apply map_ext. intro i. lia.
Qed.

Lemma number_rows_length : forall run rows first,
  length (concat (number_rows run first rows)) = length (concat rows).
Proof.
  intros run. induction rows as [|r tl IH]; intro first; cbn; [reflexivity|].
  rewrite !app_length, number_row_length, IH. reflexivity.
Qed.

(** The sequence of kinds one benchmark function must produce: one entry per
    type, or per type x const combination (types outer, consts inner). *)
Definition expected_kinds (types : option (list str)) (consts : option (list str)) : list (list gkind) :=
  match consts with
  | None => match types with Some ts => [map GType ts] | None => [] end
  | Some cs => map (fun t => map (GConst t) cs) (types_iter types)
  end.

Lemma product_length : forall (ts : list (option str)) (cs : list str),
  length (concat (map (fun t => map (GConst t) cs) ts)) = (length ts * length cs)%nat.
Proof.
  induction ts as [|t tl IH]; intro cs; cbn; [reflexivity|]. rewrite app_length, map_length, IH. reflexivity.
Qed.

(** External consts. *)
Lemma firstn_map_seq : forall A (F : nat -> A) n m, (n <= m)%nat -> firstn n (map F (seq 0 m)) = map F (seq 0 n).
Proof.
  intros A F n m H. rewrite firstn_map. f_equal. replace m with (n + (m - n))%nat by lia.
  rewrite seq_app, firstn_app, seq_length, Nat.sub_diag, firstn_O, app_nil_r.
  rewrite <- (seq_length n 0) at 1. apply firstn_all.
Qed.

Lemma map_nth_error_seq : forall (cs : list str) (d : str),
  map (fun i => match nth_error cs (if (i <? length cs)%nat then i else O) with Some c => c | None => d end)
      (seq 0 (length cs)) = cs.
Proof.
  intros cs d.
  transitivity (map (fun i => match nth_error cs i with Some c => c | None => d end) (seq 0 (length cs))).
  { apply map_ext_in. intros i Hi. apply in_seq in Hi.
    assert (H : (i <? length cs)%nat = true) by (apply Nat.ltb_lt; lia). rewrite H. reflexivity. }
  induction cs as [|c tl IH]; [reflexivity|]. cbn [length seq map nth_error]. f_equal.
  rewrite <- seq_shift, map_map. cbn [nth_error]. exact IH.
Qed.

Lemma extern_consts_ok : forall cs, (0 < length cs <= max_extern_count)%nat -> extern_consts cs = Ok cs.
Proof.
  intros [|c0 tl] [H1 H2]; [cbn in H1; lia|]. unfold extern_consts.
  assert (E : (max_extern_count <? length (c0 :: tl))%nat = false) by (apply Nat.ltb_ge; exact H2).
  rewrite E. f_equal. rewrite firstn_map_seq by exact H2. apply map_nth_error_seq.
Qed.

Lemma extern_consts_none : extern_consts [] = Panic OutOfBounds.
Proof. reflexivity. Qed.

Lemma extern_consts_too_many : forall cs, (max_extern_count < length cs)%nat -> extern_consts cs = Panic Other.
Proof.
  intros [|c0 tl] H; [cbn in H; lia|]. unfold extern_consts.
  assert (E : (max_extern_count <? length (c0 :: tl))%nat = true) by (apply Nat.ltb_lt; exact H).
  rewrite E. reflexivity.
Qed.

Definition consts_values (c : option consts_spec) : option (list str) :=
  match c with None => None | Some (CLit cs) => Some cs | Some (CExt cs) => Some cs end.

Definition consts_compile (c : option consts_spec) : Prop :=
  match c with Some (CExt cs) => (0 < length cs <= max_extern_count)%nat | _ => True end.

(** Nothing for exclusively empty lists; one [BenchEntry] without generics; one
    [GroupEntry] carrying exactly the types x consts product otherwise. *)
Lemma expand_bench_empty : forall mp n b,
  generic_is_empty (bd_types b) (bd_consts b) = true -> expand_bench mp n b = Ok ([], [], n).
Proof. intros mp n b H. unfold expand_bench. rewrite H. reflexivity. Qed.

Lemma expand_bench_plain : forall mp n b,
  bd_types b = None -> bd_consts b = None ->
  expand_bench mp n b = Ok ([{| b_id := n; b_meta := bench_meta mp b; b_runner := runner_of n (bd_args b) |}], [], n + 1).
Proof. intros mp n b Ht Hc. unfold expand_bench. rewrite Ht, Hc. reflexivity. Qed.

Lemma expand_bench_generic : forall mp n b,
  generic_is_empty (bd_types b) (bd_consts b) = false ->
  (bd_types b <> None \/ bd_consts b <> None) ->
  consts_compile (bd_consts b) ->
  exists rows,
    expand_bench mp n b
    = Ok ([], [{| g_id := n; g_meta := bench_meta mp b; g_generic := Some rows |}], n + 1 + N.of_nat (length (concat rows)))
    /\ map (map ge_kind) rows = expected_kinds (bd_types b) (consts_values (bd_consts b))
    /\ (forall e, In e (concat rows) -> ge_runner e = runner_of n (bd_args b))
    /\ map ge_id (concat rows) = map (fun i => n + 1 + N.of_nat i) (seq 0 (length (concat rows))).
Proof.
  intros mp n b He Hg Hc. unfold expand_bench. rewrite He.
  destruct (bd_consts b) as [[cs|cs]|] eqn:Ec; cbn [consts_values expected_kinds].
  - eexists. split; [unfold row_count; rewrite <- number_rows_length with (run := runner_of n (bd_args b)) (first := n + 1); reflexivity|].
    split; [apply number_rows_kinds|]. split; [intros e H; eapply number_rows_runner; exact H|].
    rewrite number_rows_ids, number_rows_length. reflexivity.
  - cbn in Hc. rewrite (extern_consts_ok cs Hc). cbn [bind].
    eexists. split; [unfold row_count; rewrite <- number_rows_length with (run := runner_of n (bd_args b)) (first := n + 1); reflexivity|].
    split; [apply number_rows_kinds|]. split; [intros e H; eapply number_rows_runner; exact H|].
    rewrite number_rows_ids, number_rows_length. reflexivity.
  - destruct (bd_types b) as [ts|] eqn:Et; [|destruct Hg as [Hg|Hg]; congruence].
    eexists. split; [unfold row_count; rewrite <- number_rows_length with (run := runner_of n (bd_args b)) (first := n + 1); reflexivity|].
    split; [apply number_rows_kinds|]. split; [intros e H; eapply number_rows_runner; exact H|].
    rewrite number_rows_ids, number_rows_length. reflexivity.
Qed.

Lemma expected_kinds_count : forall types cs,
  length (concat (expected_kinds types (Some cs))) = (length (types_iter types) * length cs)%nat.
Proof. intros. cbn [expected_kinds]. apply product_length. Qed.

Lemma expand_bench_extern_limit : forall mp n b cs,
  bd_consts b = Some (CExt cs) -> (max_extern_count < length cs)%nat ->
  expand_bench mp n b = Panic Other.
Proof.
  intros mp n b cs Hc Hl. unfold expand_bench. rewrite Hc.
  assert (He : generic_is_empty (bd_types b) (Some (CExt cs)) = false) by (destruct (bd_types b) as [[|]|]; reflexivity).
  rewrite He, (extern_consts_too_many cs Hl). reflexivity.
Qed.
