(** Group [round] (C08): the inductive invariant relating every thread's
    program position and guard counter to the barrier generation, for any number
    of threads; phase order and deadlock freedom follow from it. *)
From Coq Require Import List Arith Bool Lia NArith.
From DivanV Require Import Model.Round Proofs.RoundBase.
Import ListNotations.

(** * Arithmetic of [wb] (number of waits before a position) *)

Ltac cmp_all :=
  repeat match goal with
         | |- context[?x =? ?y] => destruct (Nat.eqb_spec x y); try lia
         | |- context[?x <=? ?y] => destruct (Nat.leb_spec x y); try lia
         | |- context[?x <? ?y] => destruct (Nat.ltb_spec x y); try lia
         | H : context[?x =? ?y] |- _ => destruct (Nat.eqb_spec x y); try lia
         | H : context[?x <=? ?y] |- _ => destruct (Nat.leb_spec x y); try lia
         | H : context[?x <? ?y] |- _ => destruct (Nat.ltb_spec x y); try lia
         end.

Ltac wb_tac := unfold wb, iswait, userpos, plen, b2n in *; cmp_all; cbn [andb orb negb] in *; try discriminate; try lia.

Lemma iswait_cases : forall n p, iswait n p = true -> p = n \/ p = n + 2 \/ p = 2 * n + 5.
Proof. intros. wb_tac. Qed.
Lemma wb_S_wait : forall n p, iswait n p = true -> wb n (S p) = S (wb n p).
Proof. intros. wb_tac. Qed.
Lemma wb_S_nowait : forall n p, iswait n p = false -> wb n (S p) = wb n p.
Proof. intros. wb_tac. Qed.
Lemma wb_wait_le2 : forall n p, iswait n p = true -> wb n p <= 2.
Proof. intros. wb_tac. Qed.
Lemma wb_0 : forall n, wb n 0 = 0.
Proof. intros. wb_tac. Qed.
Lemma wb_le3 : forall n p, wb n p <= 3.
Proof. intros. wb_tac. Qed.
Lemma wb_end : forall n sh p, plen n sh <= p -> wb n p = 3.
Proof. intros n sh p. generalize (ndrops n sh). intros. wb_tac. Qed.
Lemma wb_ge1 : forall n p, 1 <= wb n p <-> n < p.
Proof. intros. split; intros; wb_tac. Qed.
Lemma wb_ge2 : forall n p, 2 <= wb n p <-> n + 2 < p.
Proof. intros. split; intros; wb_tac. Qed.
Lemma wb_ge3 : forall n p, 3 <= wb n p <-> 2 * n + 5 < p.
Proof. intros. split; intros; wb_tac. Qed.
Lemma userpos_nowait : forall n sh p, userpos n sh p = true -> iswait n p = false.
Proof. intros n sh p. generalize (ndrops n sh). intros. wb_tac. Qed.
Lemma userpos_lt : forall n sh p, userpos n sh p = true -> p < plen n sh.
Proof. intros n sh p. generalize (ndrops n sh). intros. wb_tac. Qed.

(** * The invariant *)

Definition thread_ok (n : nat) (sh : shape) (g : nat) (th : thread) : Prop :=
  match md th, blk th with
  | Run, None => remaining th + wb n (pc th) = 3 /\ g = wb n (pc th)
  | Run, Some a => iswait n (pc th) = true /\ a = wb n (pc th) /\ remaining th + a + 1 = 3 /\ (a = g \/ S a = g)
  | Unwind, None => remaining th + g = 3 /\ wb n (pc th) <= g /\ userpos n sh (pc th) = true
  | Unwind, Some a => remaining th + a + 1 = 3 /\ (a = g \/ S a = g) /\ wb n (pc th) <= a /\ userpos n sh (pc th) = true
  | Returned, None => remaining th = 0 /\ g = 3 /\ plen n sh <= pc th
  | Unwound, None => remaining th = 0 /\ g = 3 /\ userpos n sh (pc th) = true
  | _, Some _ => False
  end.

Definition Inv (c : config) (st : state) : Prop :=
  length (ths st) = nthreads c /\
  (gp st = GRun ->
   bcount (bar st) < nthreads c /\
   bcount (bar st) = countb (blocked_on (bgen (bar st))) (ths st) /\
   forall th, In th (ths st) -> thread_ok (ssize c (round st)) (shp c) (bgen (bar st)) th).

(** The executable invariant checked by the explorer is this invariant. *)
Lemma thread_ok_b_iff : forall n sh g th, thread_ok_b n sh g th = true <-> thread_ok n sh g th.
Proof.
  intros. unfold thread_ok_b, thread_ok.
  destruct (md th), (blk th);
    rewrite ?andb_true_iff, ?orb_true_iff, ?Nat.eqb_eq, ?Nat.leb_le; try tauto;
    try (split; [discriminate|contradiction]).
  all: split; intros; intuition (try congruence).
Qed.

Lemma inv_b_iff : forall c st, inv_b c st = true <-> Inv c st.
Proof.
  intros c st. unfold inv_b, Inv. rewrite andb_true_iff, Nat.eqb_eq.
  destruct (gp st) eqn:G.
  - split; [intros [H _]|intros [H _]]; split; auto; intros; discriminate.
  - rewrite !andb_true_iff, Nat.ltb_lt, Nat.eqb_eq, forallb_forall.
    split.
    + intros (H & (A & B) & C). split; auto. intros _. repeat split; auto.
      intros th X. apply thread_ok_b_iff. auto.
    + intros (H & K). destruct (K eq_refl) as (A & B & C). repeat split; auto.
      intros th X. apply thread_ok_b_iff. auto.
  - split; [intros [H _]|intros [H _]]; split; auto; intros; discriminate.
Qed.

Lemma inv_init : forall c, Inv c (init c).
Proof.
  intros c. split; cbn.
  - apply repeat_length.
  - discriminate.
Qed.

(** ** Updating one thread *)

Lemma blocked_on_some : forall g th, blocked_on g th = true -> blk th = Some g.
Proof.
  unfold blocked_on. intros g th H. destruct (blk th) as [a|]; [|discriminate].
  apply Nat.eqb_eq in H. congruence.
Qed.

(** The barrier generation does not change. *)
Lemma inv_upd_same : forall c st i th th' b',
  Inv c st -> gp st = GRun -> nth_error (ths st) i = Some th ->
  bgen b' = bgen (bar st) ->
  bcount b' + b2n (blocked_on (bgen (bar st)) th) = bcount (bar st) + b2n (blocked_on (bgen (bar st)) th') ->
  bcount b' < nthreads c ->
  thread_ok (ssize c (round st)) (shp c) (bgen (bar st)) th' ->
  Inv c {| gp := GRun; round := round st; bar := b'; ths := upd i th' (ths st) |}.
Proof.
  intros c st i th th' b' [L K] G N GE CN LT OK. destruct (K G) as (A & B & C).
  split; cbn [ths gp round bar].
  - rewrite upd_length. exact L.
  - intros _. rewrite GE. repeat split.
    + exact LT.
    + pose proof (countb_upd _ (blocked_on (bgen (bar st))) i th' th (ths st) N). lia.
    + intros x HI. destruct (In_nth_error_ex _ _ _ HI) as [j Hj].
      destruct (nth_error_upd_inv _ _ _ _ _ _ Hj) as [[_ ->]|[_ Hj']]; auto.
      apply C. eapply nth_error_In; eauto.
Qed.

(** The releasing arrival: everybody else is blocked in the generation that ends. *)
Lemma inv_upd_rel : forall c st i th th',
  Inv c st -> gp st = GRun -> nth_error (ths st) i = Some th ->
  blk th = None -> blk th' = None ->
  ~ S (bcount (bar st)) < nthreads c ->
  thread_ok (ssize c (round st)) (shp c) (S (bgen (bar st))) th' ->
  Inv c {| gp := GRun; round := round st; bar := {| bcount := 0; bgen := S (bgen (bar st)) |}; ths := upd i th' (ths st) |}.
Proof.
  intros c st i th th' [L K] G N BN BN' NL OK. destruct (K G) as (A & B & C).
  assert (forall j y, j <> i -> nth_error (ths st) j = Some y -> blocked_on (bgen (bar st)) y = true) as OTH.
  { apply (countb_others _ (blocked_on (bgen (bar st))) (ths st) i th); auto.
    - unfold blocked_on. rewrite BN. reflexivity.
    - lia. }
  split; cbn [ths gp round bar bcount bgen].
  - rewrite upd_length. exact L.
  - intros _. repeat split.
    + lia.
    + symmetry. apply countb_zero. intros x HI.
      destruct (In_nth_error_ex _ _ _ HI) as [j Hj].
      destruct (nth_error_upd_inv _ _ _ _ _ _ Hj) as [[_ ->]|[NE Hj']].
      * unfold blocked_on. rewrite BN'. reflexivity.
      * specialize (OTH j x NE Hj'). apply blocked_on_some in OTH.
        unfold blocked_on. rewrite OTH. apply Nat.eqb_neq. lia.
    + intros x HI. destruct (In_nth_error_ex _ _ _ HI) as [j Hj].
      destruct (nth_error_upd_inv _ _ _ _ _ _ Hj) as [[_ ->]|[NE Hj']]; auto.
      pose proof (OTH j x NE Hj') as BO. apply blocked_on_some in BO.
      pose proof (C x (nth_error_In _ _ Hj')) as OKx.
      unfold thread_ok in *. rewrite BO in *.
      destruct (md x); try contradiction; intuition lia.
Qed.

(** ** One thread step preserves [thread_ok] (same generation) *)

Ltac tok_unfold M B :=
  unfold thread_ok in *; cbn [pc md blk remaining next_pc set_blk set_md set_rem] in *;
  rewrite ?exec_pc, ?exec_md, ?exec_blk, ?exec_remaining in *;
  rewrite ?M, ?B in *;
  cbn [pc md blk remaining next_pc set_blk set_md set_rem] in *.

Ltac side :=
  unfold blocked_on; cbn [blk set_blk set_md set_rem next_pc bcount bgen]; rewrite ?exec_blk;
  repeat match goal with H : blk _ = _ |- _ => rewrite H end; rewrite ?Nat.eqb_refl;
  try match goal with |- context[?a =? ?b] => destruct (Nat.eqb_spec a b); [contradiction|] end;
  cbn [b2n]; lia.

Lemma inv_step : forall c st l st',
  1 <= nthreads c -> fixed_code c -> Inv c st -> step c st l = Some st' -> Inv c st'.
Proof.
  intros c st l st' T1 GD I S. apply (step_cases _ _ _ _ (proj2 GD)) in S.
  destruct S as [G R|G R|k G F X|G F X|i th th' b' G N TC].
  - (* start *)
    destruct I as [L _]. split; cbn [ths gp round bar bcount bgen].
    + rewrite map_length. exact L.
    + intros _. repeat split.
      * lia.
      * symmetry. apply countb_zero. intros x HI. apply in_map_iff in HI. destruct HI as (y & <- & _). reflexivity.
      * intros x HI. apply in_map_iff in HI. destruct HI as (y & <- & _).
        unfold thread_ok, fresh; cbn [md blk pc remaining]. rewrite wb_0. lia.
  - destruct I as [L _]. split; cbn; auto. discriminate.
  - destruct I as [L _]. split; cbn; auto. discriminate.
  - destruct I as [L _]. split; cbn; auto. discriminate.
  - (* thread step *)
    pose proof I as [L K]. destruct (K G) as (A & B & C).
    pose proof (C th (nth_error_In _ _ N)) as OK.
    set (n := ssize c (round st)) in *. set (g := bgen (bar st)) in *.
    destruct TC as [a M BL NE|a M BL NE|M BL PL|M BL W PL NL|M BL W PL LT|M BL U PL FL|a M BL NA W PL FL|M BL R0|k M BL RK NL|k M BL RK LT].
    + (* leave, running *)
      eapply inv_upd_same; eauto; try solve [side].
      fold n g. tok_unfold M BL. destruct OK as (W & E & R & D). fold g in NE.
      rewrite (wb_S_wait _ _ W). lia.
    + (* leave, unwinding *)
      eapply inv_upd_same; eauto; try solve [side].
      fold n g. tok_unfold M BL. fold g in NE. intuition lia.
    + (* return *)
      eapply inv_upd_same; eauto; try solve [side].
      fold n g. tok_unfold M BL. fold n in PL.
      pose proof (wb_end _ _ _ PL). intuition lia.
    + (* wait, releasing *)
      eapply inv_upd_rel; eauto.
      fold n g. tok_unfold M BL. fold n in W. rewrite (wb_S_wait _ _ W).
      pose proof (wb_wait_le2 _ _ W). lia.
    + (* wait, blocking *)
      eapply inv_upd_same; eauto; try solve [side].
      fold n g. tok_unfold M BL. fold n in W.
      pose proof (wb_wait_le2 _ _ W). intuition lia.
    + (* panic *)
      rewrite (proj1 GD). eapply inv_upd_same; eauto; try solve [side].
      fold n g. tok_unfold M BL. fold n in U. intuition lia.
    + (* non-wait action *)
      eapply inv_upd_same; eauto; try solve [side].
      fold n g. tok_unfold M BL. fold n in W. rewrite (wb_S_nowait _ _ W). exact OK.
    + (* guard: no wait left *)
      eapply inv_upd_same; eauto; try solve [side].
      fold n g. tok_unfold M BL. intuition lia.
    + (* guard wait, releasing *)
      eapply inv_upd_rel; eauto.
      fold n g. tok_unfold M BL. intuition lia.
    + (* guard wait, blocking *)
      eapply inv_upd_same; eauto; try solve [side].
      fold n g. tok_unfold M BL. intuition lia.
Qed.

Lemma inv_reachable : forall c st,
  1 <= nthreads c -> fixed_code c -> reachable c st -> Inv c st.
Proof.
  intros c st T1 GD R. eapply (reachable_ind' c (Inv c)); eauto.
  - apply inv_init.
  - intros. eapply inv_step; eauto.
Qed.

(** * Phase order *)

Lemma gen_ge_wb : forall n sh g th, thread_ok n sh g th -> wb n (pc th) <= g.
Proof.
  intros n sh g th H. unfold thread_ok in H.
  destruct (md th), (blk th); try contradiction; try (intuition lia).
  - destruct H as (_ & -> & _). apply wb_le3.
  - destruct H as (_ & -> & _). apply wb_le3.
Qed.

(** A thread that has not panicked is at most one wait behind the generation,
    and only while it sits in that wait. *)
Lemma live_thread_pos : forall n sh g th,
  thread_ok n sh g th -> panicked th = false ->
  (2 <= g -> n + 2 <= pc th) /\ (3 <= g -> 2 * n + 5 <= pc th).
Proof.
  intros n sh g th H P. unfold thread_ok, panicked in *.
  destruct (md th) eqn:M; try discriminate; destruct (blk th) eqn:B; try contradiction.
  - destruct H as (W & E & R & D). apply iswait_cases in W.
    split; intros G.
    + assert (1 <= wb n (pc th)) as X by lia. apply (proj1 (wb_ge1 _ _)) in X. lia.
    + assert (2 <= wb n (pc th)) as X by lia. apply (proj1 (wb_ge2 _ _)) in X. lia.
  - destruct H as (R & ->). split; intros G.
    + apply (proj1 (wb_ge2 _ _)) in G. lia.
    + apply (proj1 (wb_ge3 _ _)) in G. lia.
  - destruct H as (_ & _ & PL). unfold plen in PL. lia.
Qed.

(** Unless the generation is 2 (between the second and the third wait), no live
    thread is between its two timestamps. *)
Lemma live_not_timed : forall n sh g th,
  thread_ok n sh g th -> panicked th = false -> g <> 2 -> ~ (n + 3 < pc th <= 2 * n + 4).
Proof.
  intros n sh g th H P G2 [A B]. unfold thread_ok, panicked in *.
  destruct (md th) eqn:M; try discriminate; destruct (blk th) eqn:Bk; try contradiction.
  - destruct H as (W & _). apply iswait_cases in W. lia.
  - destruct H as (_ & ->). assert (2 <= wb n (pc th)) by (apply wb_ge2; lia).
    assert (~ 3 <= wb n (pc th)) by (rewrite wb_ge3; lia). lia.
  - destruct H as (_ & _ & PL). unfold plen in PL. lia.
Qed.

(** Prop-level statement of C08's order of phases.  Positions of round r
    (sample size n): generator calls 0..n-1, clear n+1, start timestamp n+3,
    end timestamp 2n+4, last wait 2n+5, snapshot 2n+6, drops from 2n+7. *)
Definition phase_order (c : config) (st : state) : Prop :=
  gp st = GRun ->
  let n := ssize c (round st) in
  forall ti tj, In ti (ths st) -> In tj (ths st) ->
    (* ti took its start timestamp: tj has generated all its inputs and cleared its tally, unless it panicked *)
    (n + 3 < pc ti -> n + 1 < pc tj \/ panicked tj = true) /\
    (* ti is past the last wait (before its snapshot and any drop): tj took its end timestamp, unless it panicked *)
    (2 * n + 5 < pc ti -> 2 * n + 4 < pc tj \/ panicked tj = true).

Lemma inv_phase_order : forall c st, Inv c st -> phase_order c st.
Proof.
  intros c st [L K] G n ti tj Hi Hj. destruct (K G) as (A & B & C).
  pose proof (gen_ge_wb _ _ _ _ (C ti Hi)) as GI. fold n in GI.
  pose proof (C tj Hj) as OJ. fold n in OJ.
  split; intros P; destruct (panicked tj) eqn:PJ; auto; left;
    destruct (live_thread_pos _ _ _ _ OJ PJ) as [X2 X3].
  - assert (2 <= wb n (pc ti)) as Y by (apply wb_ge2; lia). lia.
  - assert (3 <= wb n (pc ti)) as Y by (apply wb_ge3; lia). lia.
Qed.

Lemma phase_sb_iff : forall c st, phase_sb c st = true <-> phase_order c st.
Proof.
  intros c st. unfold phase_sb, phase_order. destruct (gp st) eqn:G.
  - split; auto. intros; discriminate.
  - rewrite forallb_forall. split.
    + intros H _ ti tj Hi Hj. specialize (H ti Hi). rewrite forallb_forall in H. specialize (H tj Hj).
      apply andb_true_iff in H. destruct H as [H1 H2]. unfold executed in *.
      split; intros P.
      * apply Nat.ltb_lt in P. rewrite P in H1. cbn in H1. apply orb_true_iff in H1.
        destruct H1 as [H1|H1]; auto. left. apply Nat.ltb_lt in H1. exact H1.
      * apply Nat.ltb_lt in P. rewrite P in H2. cbn in H2. apply orb_true_iff in H2.
        destruct H2 as [H2|H2]; auto. left. apply Nat.ltb_lt in H2. exact H2.
    + intros H ti Hi. rewrite forallb_forall. intros tj Hj.
      destruct (H eq_refl ti tj Hi Hj) as [H1 H2]. unfold executed.
      apply andb_true_iff. split.
      * destruct (Nat.ltb_spec (ssize c (round st) + 3) (pc ti)) as [P|P]; cbn; auto.
        apply orb_true_iff. destruct (H1 P) as [X|X]; auto. left. apply Nat.ltb_lt. exact X.
      * destruct (Nat.ltb_spec (2 * ssize c (round st) + 5) (pc ti)) as [P|P]; cbn; auto.
        apply orb_true_iff. destruct (H2 P) as [X|X]; auto. left. apply Nat.ltb_lt. exact X.
  - split; auto. intros; discriminate.
Qed.

Theorem phase_order_reachable : forall c st,
  2 <= nthreads c -> fixed_code c -> reachable c st -> phase_order c st /\ phase_sb c st = true.
Proof.
  intros c st T2 GD R. assert (phase_order c st) as P.
  { apply inv_phase_order. apply inv_reachable; auto. lia. }
  split; auto. apply phase_sb_iff. exact P.
Qed.

(** While a live thread is strictly inside its timed section (it took the
    start timestamp and not yet the end timestamp), every other live thread is
    between its second and its third wait: leaving the second wait, taking a
    timestamp, running the benchmarked function or sitting in the third wait -
    never in a generator call, a clear, a snapshot or a drop. *)
Lemma no_overlap : forall c st,
  Inv c st -> gp st = GRun ->
  let n := ssize c (round st) in
  forall ti tj, In ti (ths st) -> In tj (ths st) ->
    panicked ti = false -> n + 3 < pc ti <= 2 * n + 4 ->
    panicked tj = false -> n + 2 <= pc tj <= 2 * n + 5.
Proof.
  intros c st [L K] G n ti tj Hi Hj Pi Ri Pj. destruct (K G) as (A & B & C).
  pose proof (C ti Hi) as OI. pose proof (C tj Hj) as OJ. fold n in OI, OJ.
  assert (bgen (bar st) = 2) as G2.
  { unfold thread_ok, panicked in *. destruct (md ti) eqn:M; try discriminate; destruct (blk ti) eqn:Bk; try contradiction.
    - destruct OI as (W & _). apply iswait_cases in W. lia.
    - destruct OI as (_ & ->). assert (2 <= wb n (pc ti)) by (apply wb_ge2; lia).
      assert (~ 3 <= wb n (pc ti)) by (rewrite wb_ge3; lia). lia.
    - destruct OI as (_ & _ & PL). unfold plen in PL. lia. }
  rewrite G2 in OJ. destruct (live_thread_pos _ _ _ _ OJ Pj) as [X2 _].
  split; [apply X2; lia|].
  unfold thread_ok, panicked in *. destruct (md tj) eqn:M; try discriminate; destruct (blk tj) eqn:Bk; try contradiction.
  - destruct OJ as (W & _). apply iswait_cases in W. lia.
  - destruct OJ as (_ & E). destruct (Nat.le_gt_cases (pc tj) (2 * n + 5)); auto.
    assert (3 <= wb n (pc tj)) by (apply wb_ge3; lia). lia.
  - destruct OJ as (_ & E & _). lia.
Qed.

(** * Deadlock freedom *)

Definition enabled_b (g : nat) (th : thread) : bool :=
  match md th, blk th with
  | (Run | Unwind), None => true
  | (Run | Unwind), Some a => negb (a =? g)
  | _, _ => false
  end.

Lemma enabled_tstep : forall c r i th b, enabled_b (bgen b) th = true -> tstep c r i th b <> None.
Proof.
  intros c r i th b H. unfold enabled_b, tstep in *.
  destruct (md th), (blk th) as [a|]; try discriminate.
  - destruct (a =? bgen b); [discriminate|]. discriminate.
  - destruct (nth_error _ _) as [x|]; [|discriminate].
    destruct x; try (destruct (_ && _); discriminate).
    destruct (arrive _ _) as [b' [|]]; discriminate.
  - destruct (a =? bgen b); [discriminate|]. discriminate.
  - destruct (remaining th); [discriminate|]. destruct (arrive _ _) as [b' [|]]; discriminate.
Qed.

Theorem deadlock_free : forall c st,
  Inv c st -> final st = false -> exists l st', step c st l = Some st'.
Proof.
  intros c st [L K] NF. unfold final in NF. destruct (gp st) eqn:G; [| |discriminate].
  - (* idle: the caller can start a round or finish *)
    exists LStart. unfold step. rewrite G. destruct (round st <? nrounds c); eauto.
  - destruct (K eq_refl) as (A & B & C).
    destruct (forallb finished (ths st)) eqn:F.
    { exists LJoin. unfold step. rewrite G, F. destruct (find_idx _ _); eauto. }
    destruct (existsb (enabled_b (bgen (bar st))) (ths st)) eqn:E.
    { apply existsb_exists in E. destruct E as (th & HI & EN).
      destruct (In_nth_error_ex _ _ _ HI) as [i Hi]. exists (LThread i).
      unfold step. rewrite G, Hi.
      pose proof (enabled_tstep c (round st) i th (bar st) EN) as X.
      destruct (tstep c (round st) i th (bar st)) as [[th' b']|]; [eauto|congruence]. }
    exfalso.
    (* no enabled thread: every thread is finished or blocked in the current generation *)
    assert (forall th, In th (ths st) -> finished th = true \/ blocked_on (bgen (bar st)) th = true) as ALL.
    { intros th HI. assert (enabled_b (bgen (bar st)) th = false) as X.
      { destruct (enabled_b (bgen (bar st)) th) eqn:Y; auto.
        assert (existsb (enabled_b (bgen (bar st))) (ths st) = true) by (apply existsb_exists; eauto). congruence. }
      pose proof (C th HI) as OK. unfold thread_ok, enabled_b, finished, blocked_on in *.
      destruct (md th), (blk th); try discriminate; try contradiction; auto;
        right; apply negb_false_iff in X; exact X. }
    (* some thread is unfinished, hence blocked with a generation below 3 *)
    assert (exists th, In th (ths st) /\ finished th = false) as (tu & HU & FU).
    { clear - F. induction (ths st) as [|h t IH]; [discriminate|]. cbn in F.
      destruct (finished h) eqn:X.
      - destruct (IH F) as (x & HI & FX). exists x. split; auto. right; auto.
      - exists h. split; auto. left; auto. }
    assert (bgen (bar st) <= 2) as G2.
    { destruct (ALL tu HU) as [X|X]; [congruence|]. apply blocked_on_some in X.
      pose proof (C tu HU) as OK. unfold thread_ok in OK. rewrite X in OK.
      destruct (md tu); try contradiction; intuition lia. }
    (* so no thread is finished and all are blocked: the count would be T *)
    assert (countb (blocked_on (bgen (bar st))) (ths st) = length (ths st)) as FULL.
    { clear - ALL C G2. revert ALL C. induction (ths st) as [|h t IH]; intros ALL C; [reflexivity|].
      rewrite countb_cons. cbn [length].
      assert (blocked_on (bgen (bar st)) h = true) as X.
      { destruct (ALL h (or_introl eq_refl)) as [X|X]; auto.
        pose proof (C h (or_introl eq_refl)) as OK. unfold thread_ok, finished in *.
        destruct (md h), (blk h); try discriminate; try contradiction; intuition lia. }
      rewrite X. cbn. f_equal. apply IH; intros; [apply ALL|apply C]; right; auto. }
    lia.
Qed.
