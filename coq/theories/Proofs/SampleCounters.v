(** Counter-set resolution: the last counter call of a kind decides; calls of
    other kinds do not matter. *)
From DivanV Require Import Base.Res Model.Sample.

Lemma resolve_snoc l c : resolve (l ++ [c]) = cc_step (resolve l) c.
Proof. unfold resolve. rewrite fold_left_app. reflexivity. Qed.

Lemma kind_eqb_refl k : kind_eqb k k = true.
Proof. destruct k; reflexivity. Qed.

Lemma kind_eqb_eq a b : kind_eqb a b = true <-> a = b.
Proof. destruct a, b; cbn; split; intros H; try reflexivity; discriminate. Qed.

Theorem resolve_last l c : resolve (l ++ [c]) (ccall_kind c) = ccall_stat c.
Proof. rewrite resolve_snoc. unfold cc_step. rewrite kind_eqb_refl. reflexivity. Qed.

Theorem resolve_other l c k : k <> ccall_kind c -> resolve (l ++ [c]) k = resolve l k.
Proof.
  intros H. rewrite resolve_snoc. unfold cc_step.
  destruct (kind_eqb k (ccall_kind c)) eqn:E; [|reflexivity].
  apply kind_eqb_eq in E. contradiction.
Qed.

Theorem resolve_none k : resolve [] k = KNone.
Proof. reflexivity. Qed.

(** Hence: kind [k] has an input counter in force iff the last call of kind [k]
    exists and is an input-counter call. *)
Theorem in_force_iff_last_is_input l1 c l2 k :
  ccall_kind c = k -> Forall (fun c' => ccall_kind c' <> k) l2 ->
  uses (counters_in_force (resolve (l1 ++ c :: l2)) false) k =
  match c with CInput _ _ => true | CConst _ => false end.
Proof.
  intros Hk Hl2.
  assert (H : resolve (l1 ++ c :: l2) k = ccall_stat c).
  { clear - Hk Hl2. induction l2 as [|c' l2 IH] using rev_ind.
    - subst k. apply resolve_last.
    - apply Forall_app in Hl2. destruct Hl2 as (Hl2 & Hc'). inversion Hc' as [|? ? Hne _]; subst.
      replace (l1 ++ c :: l2 ++ [c']) with ((l1 ++ c :: l2) ++ [c']) by (rewrite <- app_assoc; reflexivity).
      rewrite resolve_other by (intros E; apply Hne; symmetry; exact E). apply IH. exact Hl2. }
  unfold counters_in_force. destruct k; cbn; rewrite H; destruct c; reflexivity.
Qed.
