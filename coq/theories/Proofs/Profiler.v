(** Proofs about Model/Profiler.v (property C09). *)
From DivanV Require Import Base.Res Model.Tally Model.Profiler Proofs.Tally.
From Coq Require Import ZifyN ZifyBool ZifyNat.

(** The tally slot after the requests, computed without any reference to the
    wrapped allocator. *)
Definition slot_run (chk : bool) (slot : option info) (ops : list aop) : res (option info) :=
  match slot with
  | None => Ok None
  | Some i => do i' <- run_from chk i ops; Ok (Some i')
  end.

(** The [k]-th response is the wrapped allocator's answer to the history made
    of [hist] and the first [k+1] requests. *)
Definition responses (inner : list req -> resp) (hist reqs : list req) : list resp :=
  map (fun k => inner (hist ++ firstn (S k) reqs)) (seq 0 (length reqs)).

Lemma forward_id r : forward r = r.
Proof. destruct r; reflexivity. Qed.

Lemma responses_cons inner hist r rest :
  responses inner hist (r :: rest) = inner (hist ++ [r]) :: responses inner (hist ++ [r]) rest.
Proof.
  unfold responses. cbn [length seq map firstn]. f_equal.
  rewrite <- seq_shift, map_map. apply map_ext. intros k.
  cbn [firstn]. rewrite <- app_assoc. reflexivity.
Qed.

Lemma run_prof_char inner chk reqs : forall slot hist,
  run_prof inner chk slot hist reqs =
  (do s <- slot_run chk slot (map op_of_req reqs);
   Ok (hist ++ reqs, responses inner hist reqs, s)).
Proof.
  induction reqs as [|r rest IH]; intros slot hist.
  - cbn [run_prof map]. rewrite app_nil_r. destruct slot as [i|]; reflexivity.
  - cbn [run_prof map]. rewrite responses_cons. destruct slot as [i|].
    + cbn [profiler_step slot_run run_from].
      destruct (step chk i (op_of_req r)) as [i'|p]; cbn [bind]; [|reflexivity].
      cbn [fst snd]. rewrite forward_id. rewrite IH. cbn [slot_run].
      destruct (run_from chk i' (map op_of_req rest)) as [i''|p]; cbn [bind fst snd]; [|reflexivity].
      rewrite <- app_assoc. reflexivity.
    + cbn [profiler_step slot_run bind fst snd]. rewrite forward_id. rewrite IH.
      cbn [slot_run bind fst snd]. rewrite <- app_assoc. reflexivity.
Qed.

Lemma responses_length inner hist reqs : length (responses inner hist reqs) = length reqs.
Proof. unfold responses. rewrite map_length, seq_length. reflexivity. Qed.

Lemma nth_error_map_seq {A} (f : nat -> A) n k :
  (k < n)%nat -> nth_error (map f (seq 0 n)) k = Some (f k).
Proof.
  intros H. rewrite (map_nth_error f k (seq 0 n) (d := k)); [reflexivity|].
  rewrite (nth_error_nth' (seq 0 n) 0%nat) by (rewrite seq_length; exact H).
  rewrite seq_nth by exact H. reflexivity.
Qed.

Lemma responses_nth inner hist reqs k :
  (k < length reqs)%nat ->
  nth_error (responses inner hist reqs) k = Some (inner (hist ++ firstn (S k) reqs)).
Proof. intros H. unfold responses. apply (nth_error_map_seq (fun k => inner (hist ++ firstn (S k) reqs))). exact H. Qed.

(** Transparency: what reached the wrapped allocator is the request sequence
    itself (same methods, same arguments, same order, one call per request)
    and what came back to the caller is what the wrapped allocator answered. *)
Theorem transparent inner chk slot reqs log rets s :
  run_prof inner chk slot [] reqs = Ok (log, rets, s) ->
  log = reqs /\ length log = length reqs /\ length rets = length reqs /\
  (forall k, (k < length reqs)%nat -> nth_error rets k = Some (inner (firstn (S k) reqs))) /\
  slot_run chk slot (map op_of_req reqs) = Ok s.
Proof.
  rewrite run_prof_char. destruct (slot_run chk slot (map op_of_req reqs)) as [s'|p]; cbn [bind]; [|discriminate].
  cbn [app]. intros E. inversion E. subst log rets s.
  split; [reflexivity|]. split; [reflexivity|]. split; [apply responses_length|].
  split; [|reflexivity]. intros k Hk. apply (responses_nth inner [] reqs k Hk).
Qed.

(** The tally never depends on what the wrapped allocator answers (the code
    tallies before the inner call, null or not). *)
Definition final_slot (r : res (list req * list resp * option info)) : res (option info) :=
  do x <- r; Ok (snd x).

Theorem tally_independent inner1 inner2 chk slot reqs :
  final_slot (run_prof inner1 chk slot [] reqs) = final_slot (run_prof inner2 chk slot [] reqs) /\
  final_slot (run_prof inner1 chk slot [] reqs) = slot_run chk slot (map op_of_req reqs).
Proof.
  rewrite !run_prof_char. unfold final_slot.
  destruct (slot_run chk slot (map op_of_req reqs)); split; reflexivity.
Qed.

(** A panic can only be the tally's overflow check (debug build). *)
Theorem panic_only_from_tally inner chk slot reqs p :
  run_prof inner chk slot [] reqs = Panic p ->
  exists i, slot = Some i /\ run_from chk i (map op_of_req reqs) = Panic p.
Proof.
  rewrite run_prof_char. destruct slot as [i|]; cbn [slot_run bind]; [|discriminate].
  intros H. exists i. split; [reflexivity|].
  destruct (run_from chk i (map op_of_req reqs)); cbn [bind] in H; [discriminate|inversion H; reflexivity].
Qed.

Lemma add_u64_release a b : exists v, add_u64 false a b = Ok v.
Proof. unfold add_u64. destruct (N.ltb _ _); eexists; reflexivity. Qed.

Lemma add_i64_release a b : exists v, add_i64 false a b = Ok v.
Proof. unfold add_i64. destruct (in_i64 _); eexists; reflexivity. Qed.

Lemma sub_i64_release a b : exists v, sub_i64 false a b = Ok v.
Proof. unfold sub_i64. destruct (in_i64 _); eexists; reflexivity. Qed.

Lemma tally_op_release i k s : exists i', tally_op false i k s = Ok i'.
Proof.
  unfold tally_op.
  destruct (add_u64_release (t_count (get_tally i k)) 1) as [c ->]. cbn [bind].
  destruct (add_u64_release (t_size (get_tally i k)) s) as [z ->]. cbn [bind].
  eexists; reflexivity.
Qed.

Lemma step_release i o : exists i', step false i o = Ok i'.
Proof.
  destruct o as [s|s|a b]; cbn [step].
  - unfold tally_alloc. destruct (tally_op_release i KAlloc s) as [i1 ->]. cbn [bind].
    destruct (add_i64_release (i_cur_count i1) 1) as [c ->]. cbn [bind].
    match goal with |- context [add_i64 false ?x ?y] => destruct (add_i64_release x y) as [z ->] end.
    cbn [bind]. eexists; reflexivity.
  - unfold tally_dealloc. destruct (tally_op_release i KDealloc s) as [i1 ->]. cbn [bind].
    destruct (sub_i64_release (i_cur_count i1) 1) as [c ->]. cbn [bind].
    match goal with |- context [sub_i64 false ?x ?y] => destruct (sub_i64_release x y) as [z ->] end.
    cbn [bind]. eexists; reflexivity.
  - unfold tally_realloc. destruct (overflowing_sub_u64 b a) as [du sh].
    match goal with |- context [tally_op false i ?k ?s] => destruct (tally_op_release i k s) as [i1 ->] end.
    cbn [bind].
    match goal with |- context [add_i64 false ?x ?y] => destruct (add_i64_release x y) as [z ->] end.
    cbn [bind]. eexists; reflexivity.
Qed.

Lemma run_from_release ops : forall i, exists i', run_from false i ops = Ok i'.
Proof.
  induction ops as [|o ops IH]; intros i.
  - exists i. reflexivity.
  - cbn [run_from]. destruct (step_release i o) as [i1 ->]. cbn [bind]. apply IH.
Qed.

(** Release build, or no tally slot: total, whatever the requests. *)
Theorem release_total inner slot reqs :
  exists s, run_prof inner false slot [] reqs = Ok (reqs, responses inner [] reqs, s).
Proof.
  rewrite run_prof_char. destruct slot as [i|]; cbn [slot_run].
  - destruct (run_from_release (map op_of_req reqs) i) as [i' ->]. cbn [bind app]. eexists; reflexivity.
  - cbn [bind app]. eexists; reflexivity.
Qed.

Theorem no_slot_total inner chk reqs :
  run_prof inner chk None [] reqs = Ok (reqs, responses inner [] reqs, None).
Proof. rewrite run_prof_char. reflexivity. Qed.

(** Inside C10's guard: no panic in either build and the tally is the specified one. *)
Theorem guarded_total inner chk reqs :
  no_overflow (map op_of_req reqs) = true ->
  run_prof inner chk (Some info_init) [] reqs
  = Ok (reqs, responses inner [] reqs, Some (spec_info (map op_of_req reqs))).
Proof.
  intros H. rewrite run_prof_char. cbn [slot_run]. fold (run chk (map op_of_req reqs)).
  rewrite run_exact by exact H. reflexivity.
Qed.

(** * The boolean specification *)

Lemma layout_eqb_spec a b : layout_eqb a b = true <-> a = b.
Proof.
  destruct a as [s a], b as [s' a']. unfold layout_eqb. cbn [l_size l_align].
  rewrite andb_true_iff, !N.eqb_eq. split; [intros [-> ->]; reflexivity|intros E; inversion E; split; reflexivity].
Qed.

Lemma req_eqb_spec a b : req_eqb a b = true <-> a = b.
Proof.
  destruct a as [l|l|p l n|p l], b as [l'|l'|p' l' n'|p' l']; cbn [req_eqb];
    try (split; [discriminate|intros E; discriminate E]).
  - rewrite layout_eqb_spec. split; [intros ->; reflexivity|intros E; inversion E; reflexivity].
  - rewrite layout_eqb_spec. split; [intros ->; reflexivity|intros E; inversion E; reflexivity].
  - rewrite !andb_true_iff, !N.eqb_eq, layout_eqb_spec.
    split; [intros [[-> ->] ->]; reflexivity|intros E; inversion E; repeat split; reflexivity].
  - rewrite !andb_true_iff, !N.eqb_eq, layout_eqb_spec.
    split; [intros [-> ->]; reflexivity|intros E; inversion E; repeat split; reflexivity].
Qed.

Lemma resp_eqb_spec a b : resp_eqb a b = true <-> a = b.
Proof.
  destruct a as [p|], b as [q|]; cbn [resp_eqb]; try (split; [discriminate|intros E; discriminate E]).
  - rewrite N.eqb_eq. split; [intros ->; reflexivity|intros E; inversion E; reflexivity].
  - split; reflexivity.
Qed.

Lemma list_eqb_spec {A} (eqb : A -> A -> bool) :
  (forall a b, eqb a b = true <-> a = b) ->
  forall l1 l2, list_eqb eqb l1 l2 = true <-> l1 = l2.
Proof.
  intros Heq. induction l1 as [|x l1 IH]; intros [|y l2]; cbn [list_eqb];
    try (split; [discriminate|intros E; discriminate E]).
  - split; reflexivity.
  - rewrite andb_true_iff, Heq, IH. split; [intros [-> ->]; reflexivity|intros E; inversion E; split; reflexivity].
Qed.

Theorem prof_sb_meaning reqs script log rets :
  prof_sb reqs script log rets = true <-> log = reqs /\ rets = script.
Proof.
  unfold prof_sb. rewrite andb_true_iff, (list_eqb_spec req_eqb req_eqb_spec), (list_eqb_spec resp_eqb resp_eqb_spec).
  reflexivity.
Qed.

Theorem prof_model_sb inner chk slot reqs log rets s :
  run_prof inner chk slot [] reqs = Ok (log, rets, s) ->
  prof_sb reqs (responses inner [] reqs) log rets = true.
Proof.
  rewrite run_prof_char. destruct (slot_run chk slot (map op_of_req reqs)); cbn [bind app]; [|discriminate].
  intros E. inversion E. subst. apply prof_sb_meaning. split; reflexivity.
Qed.

(** * Satisfiable, non-trivial instance: an inner allocator that fails the
    second request. *)
Example transparent_example :
  run_prof (fun h => match length h with 2%nat => RespPtr 0 | 4%nat => RespUnit | n => RespPtr (N.of_nat n * 4096) end)
           true (Some info_init) []
           [RAlloc (mkL 5 8); RAllocZeroed (mkL 0 4096); RRealloc 4096 (mkL 5 8) 1099511627776; RDealloc 12288 (mkL 1099511627776 8)]
  = Ok ([RAlloc (mkL 5 8); RAllocZeroed (mkL 0 4096); RRealloc 4096 (mkL 5 8) 1099511627776; RDealloc 12288 (mkL 1099511627776 8)],
        [RespPtr 4096; RespPtr 0; RespPtr 12288; RespUnit],
        Some (mkI (mkT 1 1099511627771) tally_zero (mkT 2 5) (mkT 1 1099511627776) 1 2 0 1099511627776)).
Proof. vm_compute. reflexivity. Qed.

(** * What was forwarded before a panic *)

Lemma run_prof_trace_agrees inner chk reqs : forall slot hist,
  run_prof inner chk slot hist reqs =
  match run_prof_trace inner chk slot hist reqs with
  | (log, rets, Ok s) => Ok (log, rets, s)
  | (_, _, Panic p) => Panic p
  end.
Proof.
  induction reqs as [|r rest IH]; intros slot hist.
  - reflexivity.
  - cbn [run_prof run_prof_trace]. destruct (profiler_step chk slot r) as [fs|p]; cbn [bind]; [|reflexivity].
    rewrite IH. destruct (run_prof_trace inner chk (snd fs) (hist ++ [fst fs]) rest) as [[log rets] [s|p]];
      cbn [bind fst snd]; reflexivity.
Qed.

(** Full characterisation of the trace: for some [k] (the index of the first
    request whose tally panics, or the number of requests), exactly the first
    [k] requests were forwarded and answered by the wrapped allocator. *)
Lemma run_prof_trace_char inner chk reqs : forall slot hist log rets out,
  run_prof_trace inner chk slot hist reqs = (log, rets, out) ->
  exists k, (k <= length reqs)%nat /\
    log = hist ++ firstn k reqs /\
    rets = responses inner hist (firstn k reqs) /\
    match out with
    | Ok s => k = length reqs /\ slot_run chk slot (map op_of_req reqs) = Ok s
    | Panic p =>
        (k < length reqs)%nat /\
        exists sk r, slot_run chk slot (map op_of_req (firstn k reqs)) = Ok sk /\
                     nth_error reqs k = Some r /\ profiler_step chk sk r = Panic p
    end.
Proof.
  induction reqs as [|r rest IH]; intros slot hist log rets out H.
  - cbn [run_prof_trace] in H. inversion H. subst. exists 0%nat.
    cbn [firstn length map]. rewrite app_nil_r. split; [lia|]. split; [reflexivity|]. split; [reflexivity|].
    split; [reflexivity|]. destruct slot; reflexivity.
  - cbn [run_prof_trace] in H. destruct (profiler_step chk slot r) as [fs|p] eqn:Es.
    + destruct (run_prof_trace inner chk (snd fs) (hist ++ [fst fs]) rest) as [[log' rets'] out'] eqn:Et.
      cbn [fst snd] in H. inversion H. subst log rets out. clear H.
      destruct (IH _ _ _ _ _ Et) as [k [Hk [Hlog [Hrets Hout]]]].
      assert (Hf : fst fs = r /\ slot_run chk slot [op_of_req r] = Ok (snd fs)).
      { unfold profiler_step in Es. destruct slot as [i|].
        - destruct (step chk i (op_of_req r)) as [i'|q] eqn:E1; cbn [bind] in Es; [|discriminate].
          inversion Es. cbn [fst snd slot_run run_from]. rewrite E1. cbn [bind]. rewrite forward_id. split; reflexivity.
        - inversion Es. cbn [fst snd slot_run]. rewrite forward_id. split; reflexivity. }
      destruct Hf as [Hf1 Hf2]. rewrite Hf1 in *.
      assert (Hcomp : forall ops, slot_run chk slot (op_of_req r :: ops) = slot_run chk (snd fs) ops).
      { intros ops. destruct slot as [i|]; cbn [slot_run run_from] in *.
        - destruct (step chk i (op_of_req r)) as [i'|q]; cbn [bind] in *; [|discriminate].
          inversion Hf2. reflexivity.
        - inversion Hf2. reflexivity. }
      exists (S k). cbn [length firstn]. split; [lia|].
      split; [rewrite Hlog, <- app_assoc; reflexivity|].
      split; [rewrite responses_cons, Hrets; reflexivity|].
      destruct out' as [s|p].
      * destruct Hout as [Hk' Hs]. split; [lia|]. cbn [map]. rewrite Hcomp. exact Hs.
      * destruct Hout as [Hk' [sk [r' [Hsk [Hnth Hp]]]]]. split; [lia|].
        exists sk, r'. cbn [map nth_error]. rewrite Hcomp. repeat split; assumption.
    + inversion H. subst log rets out. exists 0%nat. cbn [firstn length map]. rewrite app_nil_r.
      split; [lia|]. split; [reflexivity|]. split; [reflexivity|]. split; [lia|].
      exists slot, r. cbn [nth_error]. split; [destruct slot; reflexivity|]. split; [reflexivity|exact Es].
Qed.

(** When the (debug) tally panics at request [k]: the wrapped allocator has
    received exactly the first [k] requests — none dropped, none added, nothing
    for request [k] or later — and the caller got its answers to those. *)
Theorem forwarded_prefix inner chk slot reqs log rets p :
  run_prof_trace inner chk slot [] reqs = (log, rets, Panic p) ->
  run_prof inner chk slot [] reqs = Panic p /\
  exists k, (k < length reqs)%nat /\
    log = firstn k reqs /\ length log = k /\
    rets = responses inner [] (firstn k reqs) /\ length rets = k /\
    (forall j, (j < k)%nat -> nth_error rets j = Some (inner (firstn (S j) reqs))) /\
    exists sk r, run_prof inner chk slot [] (firstn k reqs) = Ok (firstn k reqs, rets, sk) /\
                 nth_error reqs k = Some r /\ profiler_step chk sk r = Panic p.
Proof.
  intros H. split; [rewrite run_prof_trace_agrees, H; reflexivity|].
  destruct (run_prof_trace_char _ _ _ _ _ _ _ _ H) as [k [Hk [Hlog [Hrets [Hlt [sk [r [Hsk [Hnth Hp]]]]]]]]].
  cbn [app] in Hlog. exists k. split; [exact Hlt|]. split; [exact Hlog|].
  split; [rewrite Hlog, firstn_length; lia|]. split; [exact Hrets|].
  assert (Hlen : length (firstn k reqs) = k) by (rewrite firstn_length; lia).
  split; [rewrite Hrets, responses_length; exact Hlen|].
  split.
  - intros j Hj. rewrite Hrets. rewrite responses_nth by (rewrite Hlen; exact Hj). cbn [app].
    rewrite firstn_firstn. replace (Nat.min (S j) k) with (S j) by lia. reflexivity.
  - exists sk, r. split; [|split; assumption].
    rewrite run_prof_char, Hsk. cbn [bind app]. rewrite Hrets. reflexivity.
Qed.

(** And without a panic the trace is the run of [C09_transparent]. *)
Theorem trace_ok inner chk slot reqs log rets s :
  run_prof_trace inner chk slot [] reqs = (log, rets, Ok s) <->
  run_prof inner chk slot [] reqs = Ok (log, rets, s).
Proof.
  rewrite run_prof_trace_agrees.
  destruct (run_prof_trace inner chk slot [] reqs) as [[l r] [s'|p]]; split; intros E; inversion E; reflexivity.
Qed.

(** Debug build: the third request's tally overflows; two requests were
    forwarded and answered, the third was not. *)
Example forwarded_prefix_example :
  run_prof_trace (fun h => RespPtr (N.of_nat (length h) * 4096)) true (Some info_init) []
    [RAlloc (mkL 9223372036854775807 1); RDealloc 4096 (mkL 0 1); RAlloc (mkL 1 1); RAlloc (mkL 5 1)]
  = ([RAlloc (mkL 9223372036854775807 1); RDealloc 4096 (mkL 0 1)], [RespPtr 4096; RespPtr 8192], Panic Overflow).
Proof. vm_compute. reflexivity. Qed.

(** * Re-entrant requests *)

Scheme rtree_mind := Induction for rtree Sort Prop
  with rforest_mind := Induction for rforest Sort Prop.
Combined Scheme rtree_forest_ind from rtree_mind, rforest_mind.

Lemma slot_run_app chk slot a b :
  slot_run chk slot (a ++ b) = (do s <- slot_run chk slot a; slot_run chk s b).
Proof.
  destruct slot as [i|]; cbn [slot_run bind]; [|reflexivity].
  rewrite run_from_app. destruct (run_from chk i a) as [i'|p]; cbn [bind slot_run]; reflexivity.
Qed.

Lemma slot_run_one chk slot r :
  (do fs <- profiler_step chk slot r; Ok (snd fs)) = slot_run chk slot [op_of_req r].
Proof.
  destruct slot as [i|]; cbn [profiler_step slot_run run_from bind snd]; [|reflexivity].
  destruct (step chk i (op_of_req r)); reflexivity.
Qed.

Lemma prof_tree_forest_char chk :
  (forall t slot log,
      prof_tree chk slot log t =
      (do s <- slot_run chk slot (map op_of_req (pre_reqs_t t)); Ok (s, log ++ pre_reqs_t t, pre_ans_t t))) /\
  (forall f slot log,
      prof_forest chk slot log f =
      (do s <- slot_run chk slot (map op_of_req (pre_reqs_f f)); Ok (s, log ++ pre_reqs_f f, pre_ans_f f))).
Proof.
  apply rtree_forest_ind.
  - intros r a nested IH slot log. cbn [prof_tree pre_reqs_t pre_ans_t map].
    change (op_of_req r :: map op_of_req (pre_reqs_f nested)) with ([op_of_req r] ++ map op_of_req (pre_reqs_f nested)).
    rewrite slot_run_app, <- slot_run_one.
    destruct (profiler_step chk slot r) as [fs|p] eqn:Es; cbn [bind]; [|reflexivity].
    assert (Hf : fst fs = r).
    { unfold profiler_step in Es. destruct slot as [i|].
      - destruct (step chk i (op_of_req r)); cbn [bind] in Es; [|discriminate]. inversion Es. apply forward_id.
      - inversion Es. apply forward_id. }
    rewrite Hf, IH.
    destruct (slot_run chk (snd fs) (map op_of_req (pre_reqs_f nested))) as [s|p]; cbn [bind fst snd]; [|reflexivity].
    rewrite <- app_assoc. reflexivity.
  - intros slot log. cbn [prof_forest pre_reqs_f pre_ans_f map]. rewrite app_nil_r.
    destruct slot; reflexivity.
  - intros t IHt rest IHf slot log. cbn [prof_forest pre_reqs_f pre_ans_f]. rewrite map_app, slot_run_app, IHt.
    destruct (slot_run chk slot (map op_of_req (pre_reqs_t t))) as [s|p]; cbn [bind fst snd]; [|reflexivity].
    rewrite IHf.
    destruct (slot_run chk s (map op_of_req (pre_reqs_f rest))) as [s'|p]; cbn [bind fst snd]; [|reflexivity].
    rewrite <- app_assoc. reflexivity.
Qed.

(** Transparency with re-entrant requests: for every forest (every behaviour
    of the wrapped allocator, nested requests included), what the wrapped
    allocator received is the pre-order of the requests — top-level and nested
    alike, one call each, nothing else —, every requester was handed the wrapped
    allocator's answer, and the tally is that of the pre-order sequence. *)
Theorem nested_transparent chk slot f s log rets :
  prof_forest chk slot [] f = Ok (s, log, rets) ->
  log = pre_reqs_f f /\ rets = pre_ans_f f /\
  slot_run chk slot (map op_of_req (pre_reqs_f f)) = Ok s.
Proof.
  rewrite (proj2 (prof_tree_forest_char chk)).
  destruct (slot_run chk slot (map op_of_req (pre_reqs_f f))) as [s'|p]; cbn [bind app]; [|discriminate].
  intros E. inversion E. repeat split; reflexivity.
Qed.

Theorem nested_panic_only_from_tally chk slot f p :
  prof_forest chk slot [] f = Panic p ->
  slot_run chk slot (map op_of_req (pre_reqs_f f)) = Panic p.
Proof.
  rewrite (proj2 (prof_tree_forest_char chk)).
  destruct (slot_run chk slot (map op_of_req (pre_reqs_f f))) as [s'|q]; cbn [bind]; [discriminate|].
  intros E. inversion E. reflexivity.
Qed.

Theorem nested_release_total slot f :
  exists s, prof_forest false slot [] f = Ok (s, pre_reqs_f f, pre_ans_f f).
Proof.
  rewrite (proj2 (prof_tree_forest_char false)). destruct slot as [i|]; cbn [slot_run].
  - destruct (run_from_release (map op_of_req (pre_reqs_f f)) i) as [i' ->]. cbn [bind app]. eexists; reflexivity.
  - cbn [bind app]. eexists; reflexivity.
Qed.

Theorem nest_model_sb chk slot f s log rets :
  prof_forest chk slot [] f = Ok (s, log, rets) -> nest_sb f log rets = true.
Proof.
  intros H. destruct (nested_transparent _ _ _ _ _ _ H) as [-> [-> _]].
  unfold nest_sb. apply prof_sb_meaning. split; reflexivity.
Qed.

(** A forest of leaves is the flat run of [C09_transparent]. *)
Fixpoint leaves (reqs : list req) (answers : list resp) : rforest :=
  match reqs, answers with
  | r :: rs, a :: ans => FCons (RNode r a FNil) (leaves rs ans)
  | _, _ => FNil
  end.

Lemma leaves_pre reqs : forall answers, length answers = length reqs ->
  pre_reqs_f (leaves reqs answers) = reqs /\ pre_ans_f (leaves reqs answers) = answers.
Proof.
  induction reqs as [|r rs IH]; intros [|a ans] H; cbn in H; try discriminate; cbn [leaves pre_reqs_f pre_ans_f pre_reqs_t pre_ans_t app].
  - split; reflexivity.
  - destruct (IH ans) as [E1 E2]; [lia|]. rewrite E1, E2. split; reflexivity.
Qed.

Theorem nested_flat inner chk slot reqs :
  prof_forest chk slot [] (leaves reqs (responses inner [] reqs)) =
  (do x <- run_prof inner chk slot [] reqs; Ok (snd x, fst (fst x), snd (fst x))).
Proof.
  rewrite (proj2 (prof_tree_forest_char chk)), run_prof_char.
  destruct (leaves_pre reqs (responses inner [] reqs) (responses_length inner [] reqs)) as [-> ->].
  destruct (slot_run chk slot (map op_of_req reqs)); reflexivity.
Qed.

(** Three levels, both a nested allocation and a nested deallocation. *)
Example nested_example :
  prof_forest true (Some info_init) []
    (FCons (RNode (RAlloc (mkL 100 8)) (RespPtr 4096)
              (FCons (RNode (RAllocZeroed (mkL 24 8)) (RespPtr 1)
                        (FCons (RNode (RDealloc 77 (mkL 8 1)) RespUnit FNil) FNil))
              (FCons (RNode (RRealloc 1 (mkL 24 8) 48) (RespPtr 0) FNil) FNil)))
     (FCons (RNode (RDealloc 4096 (mkL 100 8)) RespUnit FNil) FNil))
  = Ok (Some (mkI (mkT 1 24) tally_zero (mkT 2 124) (mkT 2 108) 0 2 40 140),
        [RAlloc (mkL 100 8); RAllocZeroed (mkL 24 8); RDealloc 77 (mkL 8 1); RRealloc 1 (mkL 24 8) 48; RDealloc 4096 (mkL 100 8)],
        [RespPtr 4096; RespPtr 1; RespUnit; RespPtr 0; RespUnit]).
Proof. vm_compute. reflexivity. Qed.
