(** C12: group attachment modulo a leading "r#" (F12).  [module_path!()] spells a
    raw-identifier module without the prefix when the name is not a keyword in
    the crate's edition ([mod r#try] in edition 2015 is [krate::try]) while the
    group's [raw_name] is the identifier as written. *)
From Coq Require Import Permutation.
From DivanV Require Import Base.Res Model.Registry Model.Tree Model.Driver
  Proofs.TreeBase Proofs.DriverExec Proofs.TreeLeaves Proofs.Flat.
Local Open Scope N_scope.

(** [insert_group] with the walked module path, the name looked for and the stored group as separate arguments. *)
Definition attach (comps : list str) (raw : str) (stored : group_entry) (l : list tree) : list tree :=
  descend comps (fun t => or_same t (update_first (is_parent_named_raw raw) (set_group stored) t)) l.

Lemma insert_group_attach : forall l g,
  insert_group l g = attach (module_components (g_meta g)) (m_raw (g_meta g)) g l.
Proof. reflexivity. Qed.

Lemma update_first_pred_ext : forall (p p' : tree -> bool) f l, (forall x, p x = p' x) -> update_first p f l = update_first p' f l.
Proof.
  intros p p' f l H. induction l as [|x tl IH]; [reflexivity|]. cbn. rewrite H, IH. reflexivity.
Qed.

Lemma descend_ext : forall k k' comps l, (forall t, k t = k' t) -> descend comps k l = descend comps k' l.
Proof.
  intros k k'. induction comps as [|c rest IH]; intros l H; cbn [descend]; [apply H|].
  f_equal. apply update_first_ext. intro x. apply map_children_ext. intro l0. apply IH. exact H.
Qed.

(** Adding or removing a leading "r#" on the name looked for changes nothing. *)
Lemma groups_attach_raw : forall comps raw raw' stored l,
  strip_raw raw = strip_raw raw' -> attach comps raw stored l = attach comps raw' stored l.
Proof.
  intros comps raw raw' stored l H. unfold attach. apply descend_ext. intro t. f_equal.
  apply update_first_pred_ext. intros [r g ch|e a]; cbn; [rewrite H|]; reflexivity.
Qed.

(** No two sibling modules differ only by a leading "r#". *)
Fixpoint skel_names (l : list skel) : list str :=
  match l with
  | [] => []
  | SNode r _ :: tl => r :: skel_names tl
  | SLeaf :: tl => skel_names tl
  end.
Definition no_raw_twins_level (l : list skel) : Prop := NoDup (map strip_raw (skel_names l)).

(** Then the sibling a group attaches to is the only one carrying its name up to
    the prefix, whatever the order of the siblings. *)
Lemma attach_name_in : forall raw r l,
  no_raw_twins_level l -> In r (skel_names l) -> strip_raw r = strip_raw raw -> attach_name raw l = r.
Proof.
  intros raw r. induction l as [|[|r0 ch] tl IH]; intros Hn Hin Hs; cbn in *.
  - contradiction.
  - apply IH; assumption.
  - unfold no_raw_twins_level in Hn. cbn in Hn. inversion Hn as [|? ? Hnot Hnd]; subst.
    destruct (str_eqb (strip_raw r0) (strip_raw raw)) eqn:E.
    + apply str_eqb_spec in E. destruct Hin as [Hin|Hin]; [exact Hin|].
      exfalso. apply Hnot. rewrite E, <- Hs. apply in_map. exact Hin.
    + destruct Hin as [Hin|Hin].
      * subst r0. rewrite Hs, str_eqb_refl in E. discriminate.
      * apply IH; assumption.
Qed.

Lemma attach_name_none : forall raw l,
  (forall r, In r (skel_names l) -> strip_raw r <> strip_raw raw) -> attach_name raw l = raw.
Proof.
  intros raw. induction l as [|[|r0 ch] tl IH]; intro H; cbn in *; [reflexivity|apply IH; exact H|].
  destruct (str_eqb (strip_raw r0) (strip_raw raw)) eqn:E.
  - apply str_eqb_spec in E. exfalso. apply (H r0 (or_introl eq_refl) E).
  - apply IH. intros r Hr. apply H. right. exact Hr.
Qed.

Lemma skel_names_perm : forall l l', Permutation l l' -> Permutation (skel_names l) (skel_names l').
Proof.
  intros l l' H. induction H as [|x l l' Hp IH|x y l|l l' l'' H1 IH1 H2 IH2].
  - apply Permutation_refl.
  - destruct x; cbn; [exact IH|apply perm_skip; exact IH].
  - destruct x, y; cbn; try apply Permutation_refl. apply perm_swap.
  - eapply Permutation_trans; eassumption.
Qed.

Lemma attach_name_order_independent : forall raw l l',
  Permutation l l' -> no_raw_twins_level l -> attach_name raw l = attach_name raw l'.
Proof.
  intros raw l l' Hp Hn.
  assert (Hn' : no_raw_twins_level l').
  { unfold no_raw_twins_level in *. eapply Permutation_NoDup; [|exact Hn]. apply Permutation_map. apply skel_names_perm. exact Hp. }
  destruct (in_dec (list_eq_dec N.eq_dec) (strip_raw raw) (map strip_raw (skel_names l))) as [Hin|Hnot].
  - apply in_map_iff in Hin. destruct Hin as [r [Hs Hr]].
    rewrite (attach_name_in raw r l Hn Hr Hs). symmetry. apply attach_name_in; [exact Hn'| |exact Hs].
    apply (Permutation_in r (skel_names_perm l l' Hp) Hr).
  - rewrite attach_name_none.
    + symmetry. apply attach_name_none. intros r Hr E. apply Hnot. rewrite <- E. apply in_map.
      apply (Permutation_in r (Permutation_sym (skel_names_perm l l' Hp)) Hr).
    + intros r Hr E. apply Hnot. rewrite <- E. apply in_map. exact Hr.
Qed.

(** ** The exact-match version (the code before the repair) loses the group.
    Edition 2015: [#[divan::bench_group(name = "G", ignore)] mod r#try { #[divan::bench] fn a() {} }]:
    the benchmark's module path is "k::try", the group's raw name "r#try". *)
Definition insert_group_exact (t : list tree) (g : group_entry) : list tree :=
  descend (module_components (g_meta g))
          (fun t => or_same t (update_first (is_parent_named (m_raw (g_meta g))) (set_group g) t)) t.

Definition x_k : str := [107].
Definition x_try : str := [116; 114; 121].
Definition x_rtry : str := [114; 35; 116; 114; 121].
Definition x_ktry : str := [107; 58; 58; 116; 114; 121].
Definition x_bench : bench_entry :=
  {| b_id := 0; b_meta := {| m_display := w_a; m_raw := w_a; m_modpath := x_ktry; m_line := 3; m_col := 5; m_opts := None |};
     b_runner := RPlain |}.
Definition x_group (raw : str) : group_entry :=
  {| g_id := 10; g_meta := {| m_display := w_G; m_raw := raw; m_modpath := x_k; m_line := 2; m_col := 1; m_opts := Some w_opts_ign |};
     g_generic := None |}.

Example exact_match_refuted :
  let T0 := from_benches [ABench x_bench] in
  (* as written: the group's ignore applies, [a] does not run *)
  runs_a (flat_exec cfg_plain [x_bench] [x_group x_rtry]) = false /\
  (* exact match: the group is not attached, [a] runs under "k::try::a" *)
  map xpath (exec_forest cfg_plain [] None (insert_group_exact T0 (x_group x_rtry))) = [[107; 58; 58; 116; 114; 121; 58; 58; 97]] /\
  (* match modulo "r#" (the model of the repaired code): attached, ignored; same for the other spelling *)
  exec_forest cfg_plain [] None (insert_group T0 (x_group x_rtry)) = [] /\
  exec_forest cfg_plain [] None (insert_group T0 (x_group x_try)) = [] /\
  exec_forest cfg_plain [] None (build_tree [x_bench] [x_group x_rtry]) = [].
Proof. repeat split; vm_compute; reflexivity. Qed.

Example no_raw_twins_example :
  no_raw_twins_level (map skel_of (from_benches [ABench x_bench; ABench w_bench_a])) /\
  ~ no_raw_twins_level [SNode x_try []; SNode x_rtry []].
Proof.
  split.
  - vm_compute. constructor; [|constructor; [intros []|constructor]]. intros [H|[]]. discriminate.
  - intro H. vm_compute in H. inversion H as [|? ? Hn _]. apply Hn. left. reflexivity.
Qed.
