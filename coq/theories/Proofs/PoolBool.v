(** Proofs about the pool model, part 7: the boolean invariants evaluated by the
    explorer (ocaml/pool.ml, mode pool-bfs) on small scripts hold in every
    reachable state of every script. *)

From DivanV Require Import Base.Res Generated.Consts Model.Pool Proofs.Pool Proofs.PoolCalls Proofs.PoolViews Proofs.PoolSlots.
From Coq Require Import Arith Lia List Bool.
Import ListNotations.
Import PoolM.

Arguments Nat.sub : simpl never.
Arguments Nat.mul : simpl never.
Arguments Nat.eqb : simpl never.
Arguments Nat.leb : simpl never.
Arguments Nat.ltb : simpl never.

Lemma b_rc s : Inv s -> inv_rc s = true.
Proof.
  intro I. pose proof (I_rc s I) as R. unfold rc_ok in R. unfold inv_rc.
  destruct (cst s); repeat (apply andb_true_intro; split);
    try (apply Nat.eqb_eq; lia); try (apply Nat.leb_le; lia).
Qed.

Lemma b_pre_current s : Inv s -> inv_pre_current s = true.
Proof.
  intro I. unfold inv_pre_current. apply forallb_forall. intros w Hw.
  pose proof (I_wf s I) as W. rewrite Forall_forall in W. specialize (W _ Hw).
  destruct w; cbn in *; auto; try (destruct W as [-> ->]; now rewrite Nat.eqb_refl).
  apply Nat.leb_le. exact W.
Qed.

Lemma b_alive s : Inv s -> inv_alive s = true.
Proof. intro I. unfold inv_alive. rewrite (I_alive s I). apply eqb_reflx. Qed.

Lemma b_wakeup s : Inv s -> inv_wakeup s = true.
Proof.
  intro I. pose proof (I_wake s I) as W. unfold wake_ok in W. unfold inv_wakeup.
  destruct (cst s); auto.
  destruct (Nat.eqb (rc s) 0) eqn:E; cbn; auto. destruct (token s) eqn:T; cbn; auto.
  apply Nat.eqb_eq in E. apply existsb_exists.
  apply Exists_exists in W; auto. destruct W as (w & Hin & ->).
  exists (WUnpark (cur s)). split; auto. cbn. apply Nat.eqb_refl.
Qed.

Lemma b_exit s : Inv s -> inv_exit s = true.
Proof.
  intro I. unfold inv_exit.
  assert (X : cst s <> CDone -> forallb (fun w => negb (is_wexit w)) (ws s) = true).
  { intro N. apply forallb_forall. intros w Hw.
    pose proof (I_exit s I N) as F. rewrite Forall_forall in F. specialize (F _ Hw). now destruct w. }
  destruct (cst s); auto; apply X; discriminate.
Qed.

Lemma b_sent s : Inv s -> inv_sent s = true.
Proof.
  intro I. unfold inv_sent. apply forallb_forall. intros k Hk. apply in_seq in Hk.
  destruct k as [|j]; [lia|]. cbn.
  destruct (nth_error (ws s) j) as [w|] eqn:E; auto.
  destruct (any_pre w) eqn:P; auto. apply Nat.ltb_lt. eapply (I_sent s I); eauto.
Qed.

Lemma nodupb_intro l : NoDup l -> nodupb l = true.
Proof.
  induction 1 as [|x l H N IH]; cbn; auto. rewrite IH, andb_true_r.
  destruct (vmem x l) eqn:E; auto. apply vmem_In in E. contradiction.
Qed.

Lemma b_calls scr s : Inv2 scr s -> inv_calls s = true.
Proof.
  intro J. unfold inv_calls. repeat (apply andb_true_intro; split).
  - apply nodupb_intro. apply J.
  - apply forallb_forall. intros d Hd. apply Nat.leb_le. now apply (J_le _ _ J).
  - apply forallb_forall. intros d Hd. apply vmem_In. now apply (J_pan _ _ J).
  - destruct (in_broadcast (cst s)) eqn:B; auto.
    apply forallb_forall. intros i _.
    pose proof (J_cur _ _ J B i) as H.
    destruct (vmem (cur s, i) (calls s)) eqn:A, (called s i) eqn:C; auto; exfalso.
    + apply vmem_In in A. apply H in A. discriminate.
    + assert (X : In (cur s, i) (calls s)) by now apply H. apply vmem_In in X. congruence.
Qed.

Lemma b_slots s : InvS s -> inv_slots s = true.
Proof.
  intro SS. unfold inv_slots. destruct (in_broadcast (cst s)) eqn:B; auto.
  rewrite (S_cur _ SS B) at 1. apply slots_eqb_refl.
Qed.

Lemma b_views c s : Inv s -> InvV c s -> inv_views c s = true.
Proof.
  intros I V. unfold inv_views. destruct (in_broadcast (cst s)) eqn:B; auto.
  apply andb_true_intro. split.
  - destruct (caller_ran (cst s)) eqn:R; auto. apply vmem_In. now apply (V_caller _ _ V).
  - apply forallb_forall. intros k Hk. apply in_seq in Hk. destruct k as [|j]; [lia|].
    destruct (called s (S j)) eqn:C; auto.
    cbn [getw getview].
    assert (W : forall b, at_clone_or_dec s j b -> vmem (cur s, S j) (nth j (wviews s) []) = true).
    { intros b H. apply vmem_In.
      assert (b = cur s) as <-.
      { destruct H as [H|H]; pose proof (Forall_nth_error _ _ _ _ (I_wf s I) H) as X; cbn in X; tauto. }
      now apply (V_worker _ _ V). }
    destruct (nth_error (ws s) j) as [w|] eqn:E.
    + destruct w; try (apply (W b); unfold at_clone_or_dec; auto);
        (destruct (is_release (c_dec c)) eqn:Rl; auto;
         destruct (V_loc _ _ V Rl B j C) as [(b0 & [H|H])|H]; try (unfold at_clone_or_dec in H; congruence);
         now apply vmem_In).
    + destruct (is_release (c_dec c)) eqn:Rl; auto.
      destruct (V_loc _ _ V Rl B j C) as [(b0 & [H|H])|H]; try (unfold at_clone_or_dec in H; congruence).
      now apply vmem_In.
Qed.

Lemma b_returned c scr s : Inv2 scr s -> InvV c s -> InvS s -> inv_returned c s = true.
Proof.
  intros J V SS. unfold inv_returned. apply andb_true_intro. split.
  - apply forallb_forall. intros r Hr.
    pose proof (J_ret _ _ J) as Rt. rewrite Forall_forall in Rt. destruct (Rt _ Hr) as [R1 R2].
    pose proof (S_ret _ SS) as Sr. rewrite Forall_forall in Sr. specialize (Sr _ Hr).
    apply andb_true_intro; split; [apply andb_true_intro; split; [apply andb_true_intro; split|]|].
    + apply once_per_index_intro; auto. apply J.
    + destruct (is_release (c_dec c)) eqn:Rl; auto. destruct (is_acquire (c_load c)) eqn:Aq; auto. cbn.
      pose proof (V_ret _ _ V Rl Aq) as Vr. rewrite Forall_forall in Vr.
      apply view_has_all_intro. now apply Vr.
    + rewrite Sr. apply slots_eqb_refl.
    + destruct (in_broadcast (cst s)); [apply Nat.ltb_lt|apply Nat.leb_le]; auto.
  - apply Nat.eqb_eq. apply J.
Qed.

Lemma and12 a1 a2 a3 a4 a5 a6 a7 a8 a9 a10 a11 a12 :
  a1 = true -> a2 = true -> a3 = true -> a4 = true -> a5 = true -> a6 = true -> a7 = true -> a8 = true ->
  a9 = true -> a10 = true -> a11 = true -> a12 = true ->
  a1 && a2 && a3 && a4 && a5 && a6 && a7 && a8 && a9 && a10 && a11 && a12 = true.
Proof. intros -> -> -> -> -> -> -> -> -> -> -> ->. reflexivity. Qed.

Theorem inv_all_reachable c scr s : good c -> reachable c scr s -> inv_all c s = true.
Proof.
  intros G R.
  pose proof (inv_reachable _ _ _ G R) as I. pose proof (inv2_reachable _ _ _ G R) as J.
  pose proof (invv_reachable _ _ _ G R) as V. pose proof (invs_reachable _ _ _ G R) as SS.
  unfold inv_all. apply and12.
  - now apply b_rc.
  - now apply b_pre_current.
  - now apply b_alive.
  - now apply b_wakeup.
  - now apply b_exit.
  - now rewrite (I_bad s I).
  - apply Nat.eqb_eq. apply I.
  - now apply b_sent.
  - eapply b_calls; eauto.
  - now apply b_slots.
  - now apply b_views.
  - eapply b_returned; eauto.
Qed.
