(** [EntryList::push]: for every interleaving of the memory accesses of any
    number of overlapping pushes, including spurious CAS failures, the list
    always spells the nodes whose push has returned (most recent first) followed
    by the initial list — each exactly once. *)
From Coq Require Import Permutation.
From DivanV Require Import Base.Res Model.ListPush.
Local Open Scope N_scope.

Fixpoint spells (next : N -> option N) (h : option N) (L : list N) : Prop :=
  match L with
  | [] => h = None
  | x :: tl => h = Some x /\ spells next (next x) tl
  end.

Lemma upd_same : forall A (f : N -> A) k v, upd f k v k = v.
Proof. intros. unfold upd. rewrite N.eqb_refl. reflexivity. Qed.

Lemma upd_other : forall A (f : N -> A) k v x, x <> k -> upd f k v x = f x.
Proof. intros A f k v x H. unfold upd. apply N.eqb_neq in H. rewrite H. reflexivity. Qed.

Lemma spells_upd : forall next i v L h, ~ In i L -> spells next h L -> spells (upd next i v) h L.
Proof.
  intros next i v. induction L as [|x tl IH]; intros h Hn H; cbn in *; [exact H|].
  destruct H as [H1 H2]. split; [exact H1|]. rewrite upd_other by (intro E; apply Hn; left; exact E).
  apply IH; [intro Hin; apply Hn; right; exact Hin|exact H2].
Qed.

Lemma opt_eqb_spec : forall a b, opt_eqb a b = true <-> a = b.
Proof.
  intros [x|] [y|]; cbn; split; intro H; try discriminate; try reflexivity.
  - apply N.eqb_eq in H. congruence.
  - inversion H. apply N.eqb_refl.
Qed.

Lemma spells_walk : forall next L h, spells next h L -> forall fuel, (length L <= fuel)%nat -> walk fuel next h = L.
Proof.
  intros next. induction L as [|x tl IH]; intros h H fuel Hf; cbn in H.
  - subst h. destruct fuel; reflexivity.
  - destruct H as [H1 H2]. subst h. destruct fuel as [|f]; [cbn in Hf; lia|]. cbn. f_equal. apply IH; [exact H2|cbn in Hf; lia].
Qed.

Lemma NoDup_app_l : forall (a b : list N), NoDup (a ++ b) -> NoDup a.
Proof.
  induction a as [|x tl IH]; intros b H; [constructor|]. cbn in H. inversion H as [|? ? Hn Hd]; subst.
  constructor; [intro Hin; apply Hn; apply in_or_app; left; exact Hin|apply (IH b Hd)].
Qed.

Section Push.
  Variable ops : list N.         (* the nodes being pushed, one operation each *)
  Variable L0 : list N.          (* the list before *)
  Hypothesis ops_fresh : forall i, In i ops -> ~ In i L0.

  Record inv (s : lstate) (D : list N) : Prop := {
    inv_spells : spells (l_next s) (l_head s) (D ++ L0);
    inv_nodup : NoDup (D ++ L0);
    inv_sub : forall i, In i D -> In i ops;
    inv_done : forall i, In i ops -> (l_pc s i = PDone <-> In i D);
    inv_cas : forall i old, In i ops -> l_pc s i = PCas old -> l_next s i = old
  }.

  Lemma not_done_not_linked : forall s D i, inv s D -> In i ops -> l_pc s i <> PDone -> ~ In i (D ++ L0).
  Proof.
    intros s D i H Hi Hp Hin. apply in_app_or in Hin. destruct Hin as [Hin|Hin].
    - apply Hp. apply (inv_done s D H i Hi). exact Hin.
    - exact (ops_fresh i Hi Hin).
  Qed.

  (** Changing only the program counter of a not yet finished push to a not finished value. *)
  Lemma inv_pc_only : forall s D i p,
    inv s D -> In i ops -> l_pc s i <> PDone -> p <> PDone -> (forall old, p <> PCas old) ->
    inv {| l_head := l_head s; l_next := l_next s; l_pc := upd (l_pc s) i p |} D.
  Proof.
    intros s D i p H Hi Hnd Hp Hc. constructor; cbn.
    - apply (inv_spells s D H).
    - apply (inv_nodup s D H).
    - apply (inv_sub s D H).
    - intros j Hj. destruct (N.eq_dec j i) as [E|E].
      + subst j. rewrite upd_same. split; [intro; contradiction|].
        intro Hin. exfalso. apply Hnd. apply (inv_done s D H i Hi). exact Hin.
      + rewrite upd_other by exact E. apply (inv_done s D H j Hj).
    - intros j old Hj Hpc. destruct (N.eq_dec j i) as [E|E].
      + subst j. rewrite upd_same in Hpc. exfalso. exact (Hc old Hpc).
      + rewrite upd_other in Hpc by exact E. apply (inv_cas s D H j old Hj Hpc).
  Qed.

  Lemma inv_step : forall s D i b, inv s D -> In i ops -> exists D', inv (push_step s i b) D'.
  Proof.
    intros s D i b H Hi. unfold push_step. destruct (l_pc s i) as [|old|old|] eqn:Epc.
    - exists D. apply inv_pc_only; try assumption; try congruence; intros; congruence.
    - (* the store into the node's own next field: the node is not linked yet *)
      exists D. assert (Hnl : ~ In i (D ++ L0)) by (apply (not_done_not_linked s D i H Hi); congruence).
      constructor; cbn.
      + apply spells_upd; [exact Hnl|apply (inv_spells s D H)].
      + apply (inv_nodup s D H).
      + apply (inv_sub s D H).
      + intros j Hj. destruct (N.eq_dec j i) as [E|E].
        * subst j. rewrite upd_same. split; [discriminate|].
          intro Hin. exfalso. apply Hnl. apply in_or_app. left. exact Hin.
        * rewrite upd_other by exact E. apply (inv_done s D H j Hj).
      + intros j o Hj Hpc. destruct (N.eq_dec j i) as [E|E].
        * subst j. rewrite upd_same in Hpc. inversion Hpc. subst o. apply upd_same.
        * rewrite upd_other in Hpc by exact E. rewrite upd_other by exact E. apply (inv_cas s D H j o Hj Hpc).
    - destruct (negb b && opt_eqb (l_head s) old) eqn:Ecas.
      + (* the CAS succeeds: the node, whose next field holds the old head, becomes the head *)
        apply andb_true_iff in Ecas. destruct Ecas as [_ Eh]. apply opt_eqb_spec in Eh.
        assert (Hnl : ~ In i (D ++ L0)) by (apply (not_done_not_linked s D i H Hi); congruence).
        exists (i :: D). constructor; cbn.
        * split; [reflexivity|]. rewrite (inv_cas s D H i old Hi Epc), <- Eh. apply (inv_spells s D H).
        * constructor; [exact Hnl|apply (inv_nodup s D H)].
        * intros j [Hj|Hj]; [subst; exact Hi|apply (inv_sub s D H j Hj)].
        * intros j Hj. destruct (N.eq_dec j i) as [E|E].
          -- subst j. rewrite upd_same. split; [intro; left; reflexivity|reflexivity].
          -- rewrite upd_other by exact E. split.
             ++ intro Hd. right. apply (inv_done s D H j Hj). exact Hd.
             ++ intros [Hd|Hd]; [congruence|apply (inv_done s D H j Hj); exact Hd].
        * intros j o Hj Hpc. destruct (N.eq_dec j i) as [E|E].
          -- subst j. rewrite upd_same in Hpc. discriminate.
          -- rewrite upd_other in Hpc by exact E. apply (inv_cas s D H j o Hj Hpc).
      + (* lost the race (or failed spuriously): retry with the current head *)
        exists D. apply inv_pc_only; try assumption; try congruence; intros; congruence.
    - exists D. exact H.
  Qed.

  Lemma inv_init : forall h next, spells next h L0 -> NoDup L0 -> inv (push_init h next) [].
  Proof.
    intros h next Hs Hn. constructor; cbn.
    - exact Hs.
    - exact Hn.
    - intros i [].
    - intros i Hi. split; [discriminate|intros []].
    - intros i old Hi Hpc. discriminate.
  Qed.

  Lemma inv_run : forall sched s D,
    inv s D -> Forall (fun x => In (fst x) ops) sched -> exists D', inv (push_run s sched) D'.
  Proof.
    induction sched as [|[i b] tl IH]; intros s D H Hall; [exists D; exact H|].
    inversion Hall as [|? ? Hi Htl]; subst. cbn [fst] in Hi.
    destruct (inv_step s D i b H Hi) as [D1 H1]. unfold push_run. cbn [fold_left fst snd].
    apply (IH _ D1 H1 Htl).
  Qed.

  (** Every interleaving; when all pushes have returned the list holds each
      pushed node exactly once, in front of the initial list. *)
  Lemma push_linearizable : forall h next sched,
    NoDup ops -> spells next h L0 -> NoDup L0 ->
    Forall (fun x => In (fst x) ops) sched ->
    let s := push_run (push_init h next) sched in
    (forall i, In i ops -> l_pc s i = PDone) ->
    exists D, Permutation D ops /\ NoDup (D ++ L0) /\
              forall fuel, (length (D ++ L0) <= fuel)%nat -> walk fuel (l_next s) (l_head s) = D ++ L0.
  Proof.
    intros h next sched Hnd Hs Hn0 Hall s Hdone.
    destruct (inv_run sched (push_init h next) [] (inv_init h next Hs Hn0) Hall) as [D H]. fold s in H.
    exists D. split; [|split].
    - apply NoDup_Permutation.
      + apply (NoDup_app_l _ _ (inv_nodup s D H)).
      + exact Hnd.
      + intro i. split; [apply (inv_sub s D H)|]. intro Hi. apply (inv_done s D H i Hi). apply Hdone. exact Hi.
    - apply (inv_nodup s D H).
    - intros fuel Hf. apply spells_walk; [apply (inv_spells s D H)|exact Hf].
  Qed.

  (** At every moment (also while pushes are in flight) the list is well formed:
      the finished pushes, each once, then the initial list. *)
  Lemma push_always_consistent : forall h next sched,
    spells next h L0 -> NoDup L0 -> Forall (fun x => In (fst x) ops) sched ->
    let s := push_run (push_init h next) sched in
    exists D, (forall i, In i D <-> In i ops /\ l_pc s i = PDone) /\ NoDup (D ++ L0) /\ spells (l_next s) (l_head s) (D ++ L0).
  Proof.
    intros h next sched Hs Hn0 Hall s.
    destruct (inv_run sched (push_init h next) [] (inv_init h next Hs Hn0) Hall) as [D H]. fold s in H.
    exists D. split; [|split; [apply (inv_nodup s D H)|apply (inv_spells s D H)]].
    intro i. split.
    - intro Hi. split; [apply (inv_sub s D H i Hi)|]. apply (inv_done s D H i (inv_sub s D H i Hi)). exact Hi.
    - intros [Hi Hd]. apply (inv_done s D H i Hi). exact Hd.
  Qed.
End Push.

(** The hoisted store refutes it: with [other.next.store] before the loop only,
    two overlapping pushes lose a node.  (Nodes 1 and 2 onto the empty list:
    1 loads, 2 loads, 2 stores, 2's CAS succeeds, 1 stores None -- once --,
    1's CAS fails, retries without storing, succeeds: the list is [1], node 2 is lost.) *)
Definition bad_step (s : lstate) (i : N) : lstate :=
  match l_pc s i with
  | PLoad => {| l_head := l_head s; l_next := upd (l_next s) i (l_head s); l_pc := upd (l_pc s) i (PCas (l_head s)) |}
  | PCas old =>
      if opt_eqb (l_head s) old
      then {| l_head := Some i; l_next := l_next s; l_pc := upd (l_pc s) i PDone |}
      else {| l_head := l_head s; l_next := l_next s; l_pc := upd (l_pc s) i (PCas (l_head s)) |}
  | _ => s
  end.

Example hoisted_store_loses_a_node :
  let s := fold_left bad_step [1; 2; 2; 1; 1] (push_init None (fun _ => None)) in
  l_pc s 1 = PDone /\ l_pc s 2 = PDone /\ walk 5 (l_next s) (l_head s) = [1].
Proof. repeat split; vm_compute; reflexivity. Qed.

(** The hypotheses are satisfiable: two pushes onto a one-element list, interleaved with a lost race. *)
Example push_example :
  let s := push_run (push_init (Some 7) (fun _ => None)) [(1, false); (2, false); (2, false); (2, false); (1, false); (1, false); (1, false); (1, false)] in
  l_pc s 1 = PDone /\ l_pc s 2 = PDone /\ walk 5 (l_next s) (l_head s) = [1; 2; 7].
Proof. repeat split; vm_compute; reflexivity. Qed.
