(** C02: the timed section of a sample contains only the calls; the tally
    snapshot is exactly the tally of the calls' allocator operations. *)

From DivanV Require Import Base.Res Model.Sample Proofs.Sample.
From Coq Require Import Arith.
Local Open Scope nat_scope.

(** * Splitting an event list at a marker *)

Lemma split_at_spec {A} (p : A -> bool) (a : list A) (y : A) (b : list A) :
  Forall (fun x => p x = false) a -> p y = true ->
  split_at p (a ++ y :: b) = (a, Some (y, b)).
Proof.
  induction 1 as [|x a Hx Ha IH]; intros Hy; cbn.
  - rewrite Hy. reflexivity.
  - rewrite Hx, (IH Hy). reflexivity.
Qed.

Lemma Forall_forallb {A} (p : A -> bool) (l : list A) :
  Forall (fun x => p x = true) l -> forallb p l = true.
Proof. intros H. apply forallb_forall. rewrite Forall_forall in H. exact H. Qed.

Lemma Forall_flat_map_seq {B} (P : B -> Prop) (blk : nat -> list B) a k :
  (forall i, Forall P (blk i)) -> Forall P (flat_map blk (seq a k)).
Proof.
  intros H. apply Forall_forall. intros x Hx. apply in_flat_map in Hx.
  destruct Hx as (i & _ & Hx). specialize (H i). rewrite Forall_forall in H. apply H. exact Hx.
Qed.

(** * The decomposition of a sample's observable events *)

Definition start_sync (multi : bool) : list (oev nat) :=
  if multi then [OBarArrive 1; OBarLeave 1; OClear; OBarArrive 2; OBarLeave 2] else [OClear].

Definition end_sync (multi : bool) : list (oev nat) :=
  if multi then [OBarArrive 0; OBarLeave 0] else [].

(** What a call shows: the call, and the drop the called function itself makes
    of an input it owns (when it has a destructor). *)
Definition call_events (v : vis) (r u : bool) (i : nat) : list (oev nat) :=
  OCall i i :: (if negb r && u && v_idrop v then [OUDropIn i] else []).

Lemma obs_call_block v p r u i : obs v (call_block p r u i) = call_events v r u i.
Proof. unfold call_events. destruct v as [? [] ? ?], p, r, u; reflexivity. Qed.

Lemma obs_gen_pre v p cs i : Forall (fun e => is_pre_ev e = true) (obs v (gen_block p cs i)).
Proof. destruct v as [[] ? ? ?], p, cs as [[] [] [] []]; repeat constructor. Qed.

Lemma obs_gen_noclear v p cs i : filter is_clear (obs v (gen_block p cs i)) = [].
Proof. destruct v as [[] ? ? ?], p, cs as [[] [] [] []]; reflexivity. Qed.

Lemma obs_drop_post v p sh r i : Forall (fun e => is_post_ev e = true) (obs v (drop_block p sh r i)).
Proof. destruct v as [? [] [] ?], p, sh as [[] [] [] []], r; repeat constructor. Qed.

Lemma filter_flat_map_nil {A B} (f : B -> bool) (blk : A -> list B) l :
  (forall i, filter f (blk i) = []) -> filter f (flat_map blk l) = [].
Proof.
  intros H. induction l as [|x l IH]; cbn; [reflexivity|].
  rewrite filter_app, H, IH. reflexivity.
Qed.

Lemma obs_drop_phase_post v p sh r n :
  Forall (fun e => is_post_ev e = true) (obs v (drop_phase p sh r n)).
Proof.
  unfold drop_phase.
  destruct p; try (rewrite obs_flat_map; apply Forall_flat_map_seq; intros i; apply obs_drop_post).
  destruct (i_drop sh); [rewrite obs_flat_map; apply Forall_flat_map_seq; intros i; apply obs_drop_post|constructor].
Qed.

Theorem timed_decomposition e sh n cs u multi :
  let v := vis_of e sh multi in
  let s := eff_shape e sh in
  exists pre post,
    obs v (sample_prog e sh n cs u) =
      (pre ++ start_sync multi) ++ OTsStart ::
      flat_map (call_events v (by_ref e) u) (seq 0 n) ++ OTsEnd ::
      end_sync multi ++ OSnapshot :: post
    /\ Forall (fun ev => match ev with OGen _ | OCount _ _ => True | _ => False end) pre
    /\ Forall (fun ev => match ev with ODropOut _ | ODropIn _ => True | _ => False end) post.
Proof.
  intros v s. unfold sample_prog, sample_core, gen_phase, call_phase. fold s.
  set (p := path_of s).
  exists (obs v (flat_map (gen_block p (eff_counters e cs)) (seq 0 n))),
         (obs v (drop_phase p s (by_ref e) n)).
  split; [|split].
  - rewrite !obs_app. rewrite (obs_flat_map v (call_block p (by_ref e) u)).
    rewrite (flat_map_ext _ _ (fun i => obs_call_block v p (by_ref e) u i)).
    unfold start_sync, end_sync, v, vis_of. cbn [v_multi].
    destruct multi; cbn [obs flat_map obs1 v_multi app]; rewrite <- ?app_assoc; reflexivity.
  - rewrite obs_flat_map. apply Forall_flat_map_seq. intros i.
    destruct v as [[] ? ? ?], p, (eff_counters e cs) as [[] [] [] []]; repeat constructor.
  - unfold drop_phase.
    assert (H : forall i, Forall (fun ev => match ev with ODropOut _ | ODropIn _ => True | _ => False end)
                            (obs v (drop_block p s (by_ref e) i))).
    { intros i. destruct v as [? [] [] ?], p, s as [[] [] [] []], (by_ref e); repeat constructor. }
    destruct p; try (rewrite obs_flat_map; apply Forall_flat_map_seq; exact H).
    destruct (i_drop s); [rewrite obs_flat_map; apply Forall_flat_map_seq; exact H|constructor].
Qed.

(** The calls of the timed section are exactly the [n] calls, in order. *)
Lemma calls_in_order v r u n :
  filter (fun e => match e with OCall _ _ => true | _ => false end)
         (flat_map (call_events v r u) (seq 0 n))
  = map (fun i => OCall i i) (seq 0 n).
Proof.
  generalize 0. induction n as [|n IH]; intros a; cbn; [reflexivity|].
  rewrite filter_app, IH. unfold call_events.
  destruct (negb r && u && v_idrop v); reflexivity.
Qed.

Lemma call_events_timed v r u i : Forall (fun e => is_timed_ev e = true) (call_events v r u i).
Proof. unfold call_events. destruct (negb r && u && v_idrop v); repeat constructor. Qed.

(** The boolean form used on implementation logs holds of the model. *)
Theorem sb_timed_model e sh n cs u multi :
  sb_timed (obs (vis_of e sh multi) (sample_prog e sh n cs u)) = true.
Proof.
  unfold sample_prog, sample_core, gen_phase, call_phase.
  set (v := vis_of e sh multi). set (s := eff_shape e sh). set (p := path_of s).
  set (pre := obs v (flat_map (gen_block p (eff_counters e cs)) (seq 0 n)) ++ start_sync multi).
  set (timed := obs v (flat_map (call_block p (by_ref e) u) (seq 0 n))).
  set (post := obs v (drop_phase p s (by_ref e) n)).
  assert (Hshape : obs v (flat_map (gen_block p (eff_counters e cs)) (seq 0 n) ++ [SyncStart; TsStart] ++
                          flat_map (call_block p (by_ref e) u) (seq 0 n) ++ [TsEnd; SyncEnd; Snapshot] ++
                          drop_phase p s (by_ref e) n)
                   = pre ++ OTsStart :: timed ++ OTsEnd :: end_sync multi ++ OSnapshot :: post).
  { rewrite !obs_app. unfold pre, timed, post, start_sync, end_sync, v, vis_of. cbn [v_multi].
    destruct multi; cbn [obs flat_map obs1 v_multi app]; rewrite <- ?app_assoc; reflexivity. }
  rewrite Hshape. clear Hshape.
  assert (Hpre : Forall (fun e => is_pre_ev e = true) pre).
  { unfold pre. apply Forall_app. split.
    - rewrite obs_flat_map. apply Forall_flat_map_seq. intros i. apply obs_gen_pre.
    - unfold start_sync. destruct multi; repeat constructor. }
  assert (Hclear : length (filter is_clear pre) = 1).
  { unfold pre. rewrite filter_app, obs_flat_map.
    rewrite (filter_flat_map_nil is_clear (fun i => obs v (gen_block p (eff_counters e cs) i))
               (seq 0 n) (fun i => obs_gen_noclear v p (eff_counters e cs) i)).
    unfold start_sync. destruct multi; reflexivity. }
  assert (Htimed : Forall (fun e => is_timed_ev e = true) timed).
  { unfold timed. rewrite obs_flat_map. apply Forall_flat_map_seq. intros i.
    rewrite obs_call_block. apply call_events_timed. }
  assert (Hsync : Forall (fun e => is_end_sync_ev e = true) (end_sync multi)).
  { unfold end_sync. destruct multi; repeat constructor. }
  assert (Hpost : Forall (fun e => is_post_ev e = true) post).
  { apply obs_drop_phase_post. }
  unfold sb_timed.
  rewrite (split_at_spec is_ts_start pre OTsStart).
  2:{ eapply Forall_impl; [|exact Hpre]. intros ev Hev. destruct ev; try discriminate; reflexivity. }
  2:{ reflexivity. }
  rewrite (split_at_spec is_ts_end timed OTsEnd).
  2:{ eapply Forall_impl; [|exact Htimed]. intros ev Hev. destruct ev; try discriminate; reflexivity. }
  2:{ reflexivity. }
  rewrite (split_at_spec is_snapshot (end_sync multi) OSnapshot).
  2:{ eapply Forall_impl; [|exact Hsync]. intros ev Hev. destruct ev; try discriminate; reflexivity. }
  2:{ reflexivity. }
  rewrite (Forall_forallb _ _ Hpre), (Forall_forallb _ _ Htimed), (Forall_forallb _ _ Hsync),
          (Forall_forallb _ _ Hpost), Hclear. reflexivity.
Qed.

(** On the internal actions: between the timestamps there is, per index in
    order, the call, possibly the called function's own drop of its argument,
    and the loop's disposal of the output — nothing else. *)
Theorem timed_actions e sh n cs u :
  let s := eff_shape e sh in
  let p := path_of s in
  sample_prog e sh n cs u =
    gen_phase p (eff_counters e cs) n ++ [SyncStart; TsStart] ++
    flat_map (fun i => [Call i (by_ref e) (in_cell p)]
                       ++ (if negb (by_ref e) && u then [UserDropIn i] else [])
                       ++ [out_action p i]) (seq 0 n) ++
    [TsEnd; SyncEnd; Snapshot] ++ drop_phase p s (by_ref e) n
  /\ Forall (fun a => match a with Gen _ | Count _ _ | ForgetIn _ => True | _ => False end)
            (gen_phase p (eff_counters e cs) n)
  /\ Forall (fun a => match a with DropOut _ _ | DropIn _ _ => True | _ => False end)
            (drop_phase p s (by_ref e) n).
Proof.
  intros s p. split; [reflexivity|]. split.
  - unfold gen_phase. apply Forall_flat_map_seq. intros i.
    destruct p, (eff_counters e cs) as [[] [] [] []]; repeat constructor.
  - assert (H : forall i, Forall (fun a => match a with DropOut _ _ | DropIn _ _ => True | _ => False end)
                            (drop_block p s (by_ref e) i)).
    { intros i. destruct p, s as [[] [] [] []], (by_ref e); repeat constructor. }
    unfold drop_phase. destruct p; try (apply Forall_flat_map_seq; exact H).
    destruct (i_drop s); [apply Forall_flat_map_seq; exact H|constructor].
Qed.

(** * Allocation attribution *)

Definition is_ctl (a : action) : bool :=
  match a with SyncStart | Snapshot => true | _ => false end.

Lemma run_tally_app script l1 l2 t :
  run_tally script (l1 ++ l2) t = run_tally script l2 (run_tally script l1 t).
Proof. apply fold_left_app. Qed.

Lemma run_tally_noctl script l :
  Forall (fun a => is_ctl a = false) l ->
  forall t, run_tally script l t = mkT (t_cur t ++ flat_map (ops_of script) l) (t_snap t).
Proof.
  induction 1 as [|a l Ha Hl IH]; intros t; cbn.
  - rewrite app_nil_r. destruct t; reflexivity.
  - unfold run_tally in IH. rewrite IH.
    destruct a; try discriminate; cbn; rewrite <- ?app_assoc; reflexivity.
Qed.

Lemma gen_phase_noctl p cs n : Forall (fun a => is_ctl a = false) (gen_phase p cs n).
Proof.
  unfold gen_phase. apply Forall_flat_map_seq. intros i.
  destruct p, cs as [[] [] [] []]; repeat constructor.
Qed.

Lemma call_phase_noctl p r u n : Forall (fun a => is_ctl a = false) (call_phase p r u n).
Proof.
  unfold call_phase. apply Forall_flat_map_seq. intros i. destruct p, r, u; repeat constructor.
Qed.

Lemma drop_phase_noctl p sh r n : Forall (fun a => is_ctl a = false) (drop_phase p sh r n).
Proof.
  assert (H : forall i, Forall (fun a => is_ctl a = false) (drop_block p sh r i)).
  { intros i. destruct p, sh as [[] [] [] []], r; repeat constructor. }
  unfold drop_phase. destruct p; try (apply Forall_flat_map_seq; exact H).
  destruct (i_drop sh); [apply Forall_flat_map_seq; exact H|constructor].
Qed.

(** For every allocation script of generator / counters / benchmarked function
    / destructors, whatever was tallied before the sample: the copy taken by
    [save_alloc_info] holds exactly the operations of the calls, in order. *)
Theorem alloc_attribution_core p sh cs r u n script before :
  t_snap (run_tally script (sample_core p sh cs r u n) (tstate0 before))
  = Some (timed_ops script p r u n).
Proof.
  unfold sample_core. rewrite run_tally_app.
  rewrite (run_tally_noctl script _ (gen_phase_noctl p cs n)).
  change ([SyncStart; TsStart] ++ ?l) with (SyncStart :: TsStart :: l).
  cbn [run_tally fold_left tally_act t_cur t_snap tstate0 ops_of is_user app].
  change (fold_left (tally_act script) ?l ?t) with (run_tally script l t).
  rewrite run_tally_app.
  rewrite (run_tally_noctl script _ (call_phase_noctl p r u n)).
  change ([TsEnd; SyncEnd; Snapshot] ++ ?l) with (TsEnd :: SyncEnd :: Snapshot :: l).
  cbn [run_tally fold_left tally_act t_cur t_snap ops_of is_user app].
  change (fold_left (tally_act script) ?l ?t) with (run_tally script l t).
  rewrite (run_tally_noctl script _ (drop_phase_noctl p sh r n)).
  cbn [t_snap]. rewrite !app_nil_r. reflexivity.
Qed.

Theorem alloc_attribution e sh n cs u script before :
  snapshot_figures (run_tally script (sample_prog e sh n cs u) (tstate0 before))
  = Some (tally_of (timed_ops script (path_of (eff_shape e sh)) (by_ref e) u n)).
Proof.
  unfold snapshot_figures, sample_prog. rewrite alloc_attribution_core. reflexivity.
Qed.

(** The operations of the calls are those of the user code run inside them:
    the benchmarked function and its own drop of an owned argument. *)
Lemma timed_ops_calls script p r u n :
  timed_ops script p r u n =
  flat_map (fun i => script (Call i r (in_cell p))
                     ++ (if negb r && u then script (UserDropIn i) else [])) (seq 0 n).
Proof.
  unfold timed_ops, call_phase. rewrite flat_map_flat_map. apply flat_map_ext. intros i.
  destruct p, r, u; cbn; rewrite ?app_nil_r; reflexivity.
Qed.

(** Run level: what the model reports for a sample equals the specification's figures. *)
Theorem sample_figures_spec c s before :
  sample_figures c s before = Some (spec_figures c s).
Proof. unfold sample_figures, spec_figures. apply alloc_attribution. Qed.

(** No user allocation inside the calls: all-zero figures, whatever the
    generator, the counters and the destructors allocate. *)
Theorem no_call_ops_zero e sh n cs u script before :
  (forall i r c, script (Call i r c) = []) -> (forall i, script (UserDropIn i) = []) ->
  snapshot_figures (run_tally script (sample_prog e sh n cs u) (tstate0 before)) = Some figures0.
Proof.
  intros Hc Hu. rewrite alloc_attribution, timed_ops_calls.
  assert (H : forall a, flat_map (fun i => script (Call i (by_ref e) (in_cell (path_of (eff_shape e sh))))
                                       ++ (if negb (by_ref e) && u then script (UserDropIn i) else []))
                                 (seq a n) = []).
  { induction n as [|n IH]; intros a; cbn; [reflexivity|].
    rewrite Hc, IH. destruct (negb (by_ref e) && u); rewrite ?Hu; reflexivity. }
  rewrite H. reflexivity.
Qed.

(** The hypotheses of [no_call_ops_zero] are satisfiable by a script that does allocate. *)
Example outside_script_example :
  let script := fun a => match a with
                         | Gen _ => [Alloc 16; Dealloc 16]
                         | DropOut _ _ => [Alloc 8]
                         | DropIn _ _ => [Alloc 3; Dealloc 3]
                         | _ => []
                         end in
  (forall i r c, script (Call i r c) = []) /\ (forall i, script (UserDropIn i) = []) /\
  script (Gen 0) <> [] /\
  snapshot_figures (run_tally script (sample_prog ERefs (mkShape false true false true) 3 no_counters true)
                              (tstate0 [Alloc 5])) = Some figures0.
Proof. cbn. repeat split; discriminate. Qed.
