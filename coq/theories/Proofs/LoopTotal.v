(** Proofs about Model/Loop.v, part 3: the model never panics on well-formed
    histories while the tuned size stays below 2^31 ([loop_total]). *)

From DivanV Require Import Base.Res Generated.Consts Model.Timestamp Model.Loop Proofs.Timestamp Proofs.Loop Proofs.LoopProps.
From Coq Require Import ZifyN ZifyBool ZifyNat Lia.
Local Open Scope N_scope.
Ltac Zify.zify_post_hook ::= Z.div_mod_to_equations.
Arguments N.add : simpl never.
Arguments N.sub : simpl never.
Arguments N.mul : simpl never.
Arguments N.div : simpl never.
Arguments N.modulo : simpl never.
Arguments N.pow : simpl never.
Arguments N.min : simpl never.
Arguments N.max : simpl never.

Definition wf_raw (r : raw) : Prop := r_start r < 2 ^ 64 /\ r_end r < 2 ^ 64.

Definition wf_round (o : round_obs) : Prop := o <> [] /\ forall r, In r o -> wf_raw r.

Lemma tsc_total b a f : f <> 0 -> a < 2 ^ 64 -> b < 2 ^ 64 -> exists d, tsc_duration b a f = Ok d.
Proof. intros Hf Ha Hb. destruct (tsc_exact a b f Hf Ha Hb) as [H _]. eexists. exact H. Qed.

Lemma map_res_total c obs : c_freq c <> 0 -> (forall r, In r obs -> wf_raw r) ->
  map_res (raw_duration c) obs = Ok (map (dur_of c) obs).
Proof.
  intros Hf. induction obs as [|r obs IH]; intros Hw; cbn [map_res map]; [reflexivity|].
  destruct (Hw r (or_introl eq_refl)) as [Hs He].
  unfold raw_duration at 1. destruct (tsc_total (r_end r) (r_start r) (c_freq c) Hf Hs He) as [d Hd].
  rewrite Hd. cbn [bind]. rewrite IH by (intros x Hx; apply Hw; right; exact Hx). cbn [bind].
  apply tsc_duration_ok in Hd. subst d. reflexivity.
Qed.

Lemma nmax_list_lt l b : 0 < b -> (forall x, In x l -> x < b) -> nmax_list l < b.
Proof.
  intros Hb. induction l as [|x l IH]; intros H; cbn [nmax_list fold_right]; [exact Hb|].
  fold (nmax_list l). specialize (IH (fun y Hy => H y (or_intror Hy))). specialize (H x (or_introl eq_refl)). lia.
Qed.

Lemma latest_end_lt obs : (forall r, In r obs -> wf_raw r) -> nmax_list (map r_end obs) < 2 ^ 64.
Proof.
  intros Hw. apply nmax_list_lt; [reflexivity|]. intros x Hx. apply in_map_iff in Hx.
  destruct Hx as [r [Hr Hin]]. subst x. apply (Hw r Hin).
Qed.

Lemma size_nonzero c pre : c_test c = false -> zero_case c = false -> mode_size (mode_of c pre) <> 0.
Proof.
  intros Ht Hz. unfold mode_of. destruct (c_size c) as [s|] eqn:Es.
  - cbn [mode_size]. unfold zero_case, has_samples, opt_is in Hz. rewrite Es in Hz.
    destruct (s =? 0) eqn:E; [|lia]. cbn [negb] in Hz. rewrite Bool.andb_false_r in Hz. cbn [negb] in Hz.
    rewrite Bool.orb_true_r in Hz. discriminate.
  - destruct (first_pass c pre); cbn [mode_size]; pose proof (pow2_pos (length pre)); try pose proof (pow2_pos n); lia.
Qed.

Lemma round_step_total c init pre obs :
  c_test c = false -> zero_case c = false ->
  c_freq c <> 0 -> init < 2 ^ 64 -> wf_round obs ->
  (c_size c = None -> c_prec c <> 0 /\ (first_pass c (pre ++ [obs]) = None -> pow2 (length pre) < 2 ^ 31)) ->
  exists st', round_step c init (spec_state c init pre) obs = Ok st'.
Proof.
  intros Ht Hz Hf Hi [Hne Hw] Hg. unfold round_step.
  destruct obs as [|r0 obs0] eqn:Eo; [contradiction|]. rewrite <- Eo in *. clear Eo r0 obs0 Hne.
  unfold round_body. rewrite (map_res_total c obs Hf Hw). cbn [bind].
  rewrite slowest_of_eq, combine_map. fold (with_dur c obs).
  set (size := mode_size (s_mode (spec_state c init pre))).
  assert (Hsz : size <> 0) by (apply size_nonzero; assumption).
  assert (Hic : qany (c_input_counts c) && (size =? 0) = false).
  { apply N.eqb_neq in Hsz. rewrite Hsz. apply Bool.andb_false_r. }
  assert (Hel : forall e, exists el,
     (if c_skip c then Ok (sat_add 128 e (N.max (slowest_of c obs) min_progress_picos))
      else tsc_duration (nmax_list (map r_end obs)) init (c_freq c)) = Ok el).
  { intros e. destruct (c_skip c); [eexists; reflexivity|].
    apply tsc_total; [exact Hf|exact Hi|apply latest_end_lt; exact Hw]. }
  assert (Htb : exists st1, tune_branch c (with_round (spec_state c init pre) size) (slowest_of c obs) = Ok st1).
  { unfold tune_branch. cbn [with_round s_mode spec_state]. unfold mode_of.
    destruct (c_size c) as [s|] eqn:Es; [eexists; reflexivity|].
    destruct (first_pass c pre) as [j0|] eqn:Ef; [eexists; reflexivity|].
    destruct (Hg eq_refl) as [Hp Hov].
    rewrite (prec_used_tuned c Ht Es). unfold checked_div.
    apply N.eqb_neq in Hp. rewrite Hp. cbn [bind]. unfold tune_threshold, tune_factor.
    destruct (slowest_of c obs / c_prec c <=? 100) eqn:El; [|eexists; reflexivity].
    assert (Hnp : passes c obs = false) by (unfold passes; apply N.ltb_ge; lia).
    assert (Hlt : pow2 (length pre) < 2 ^ 31) by (apply Hov; rewrite first_pass_snoc, Ef, Hnp; reflexivity).
    unfold checked_mul. assert (Hlt2 : pow2 (length pre) * 2 <? 2 ^ 32 = true).
    { apply N.ltb_lt. assert (E : 2 ^ 32 = 2 * 2 ^ 31) by reflexivity. lia. }
    rewrite Hlt2. cbn [bind]. eexists. reflexivity. }
  destruct Htb as [st1 Hst1]. rewrite Hst1. cbn [bind]. rewrite Hic.
  rewrite record_fold. destruct (Hel (s_elapsed st1)) as [el Hel1]. rewrite Hel1. cbn [bind].
  eexists. reflexivity.
Qed.

Lemma run_total c init :
  c_test c = false -> zero_case c = false -> c_freq c <> 0 -> init < 2 ^ 64 ->
  forall rest pre,
  (forall o, In o rest -> wf_round o) ->
  (c_size c = None -> c_prec c <> 0 /\
     forall i, (i < length rest)%nat -> first_pass c (pre ++ firstn (S i) rest) = None ->
               pow2 (length pre + i) < 2 ^ 31) ->
  exists out, run c init (spec_state c init pre) rest = Ok out.
Proof.
  intros Ht Hz Hf Hi. induction rest as [|obs rest IH]; intros pre Hw Hg; cbn [run].
  - destruct (loop_cond c (spec_state c init pre)); eexists; reflexivity.
  - destruct (loop_cond c (spec_state c init pre)); [|eexists; reflexivity].
    rewrite Ht.
    destruct (round_step_total c init pre obs Ht Hz Hf Hi (Hw obs (or_introl eq_refl))) as [st' Hst'].
    { intros Hs. destruct (Hg Hs) as [Hp Hov]. split; [exact Hp|]. intros Hfp.
      specialize (Hov O ltac:(cbn [length]; lia)). cbn [firstn] in Hov. rewrite Nat.add_0_r in Hov. apply Hov. exact Hfp. }
    rewrite Hst'. cbn [bind]. apply (round_step_spec c init pre obs st' Ht) in Hst'. subst st'.
    apply IH.
    + intros o Ho. apply Hw. right. exact Ho.
    + intros Hs. destruct (Hg Hs) as [Hp Hov]. split; [exact Hp|]. intros i Hil Hfp.
      rewrite app_length. cbn [length]. replace (length pre + 1 + i)%nat with (length pre + S i)%nat by lia.
      apply Hov; [cbn [length]; lia|]. cbn [firstn]. rewrite <- app_assoc in Hfp. exact Hfp.
Qed.

(** No panic: bench mode, timestamps are u64 values, the frequency is not 0
    (NonZeroU64), every round brought back at least one sample, and — when the
    size is tuned — the precision is not 0 and every round that did not pass
    the threshold had a size below 2^31 (so that doubling fits u32). *)
Theorem loop_total c init hist :
  c_test c = false -> c_freq c <> 0 -> init < 2 ^ 64 ->
  (forall o, In o hist -> wf_round o) ->
  (c_size c = None -> c_prec c <> 0 /\
     forall i, (i < length hist)%nat -> first_pass c (firstn (S i) hist) = None -> pow2 i < 2 ^ 31) ->
  exists out, bench_loop c init hist = Ok out.
Proof.
  intros Ht Hf Hi Hw Hg. unfold bench_loop. destruct (zero_case c) eqn:Hz.
  - unfold zero_case in Hz. rewrite Hz. eexists. reflexivity.
  - unfold zero_case in Hz. rewrite Hz. rewrite (spec_state_nil c init Ht).
    apply (run_total c init Ht Hz Hf Hi hist [] Hw). exact Hg.
Qed.

(** In particular: at most 31 rounds can never overflow. *)
Corollary loop_total_31 c init hist :
  c_test c = false -> c_freq c <> 0 -> init < 2 ^ 64 ->
  (forall o, In o hist -> wf_round o) -> (c_size c = None -> c_prec c <> 0) ->
  (length hist <= 31)%nat ->
  exists out, bench_loop c init hist = Ok out.
Proof.
  intros Ht Hf Hi Hw Hp Hl. apply loop_total; try assumption.
  intros Hs. split; [apply Hp; exact Hs|]. intros i Hil _.
  unfold pow2. apply N.pow_lt_mono_r; lia.
Qed.

(** The guard is needed: 32 rounds that never pass the threshold overflow the
    u32 doubling. *)
Example doubling_overflows :
  bench_loop ex_tune_cfg 0 (repeat [ex_raw 0 1] 32) = Panic Overflow.
Proof. vm_compute. reflexivity. Qed.
