(** Proofs about [Model/ArgCmp.v]: the argument-name comparator is a total
    preorder on every list of names on which the float oracle is exact on the
    integer names; with the position as tie-breaker it is a strict total order;
    hence the sort never panics and its result is the unique sorted permutation. *)

From Coq Require Import Permutation QArith.
From DivanV Require Import Base.Res Generated.Consts Model.Natural Model.SortBy Model.ArgCmp
  Proofs.SortCmp Proofs.Natural.
Local Open Scope N_scope.

(** * Cascades *)

Lemma tpo_cascade {A} (P : A -> Prop) (cs : list (A -> A -> comparison)) :
  Forall (tpo_on P) cs -> tpo_on P (cascade cs).
Proof.
  induction cs as [|c r IH]; intros H.
  - apply tpo_const_eq.
  - inversion H; subst. apply (tpo_ext P _ (thenc c (cascade r))).
    + intros x y _ _. reflexivity.
    + apply tpo_thenc; auto.
Qed.

Lemma cascade_eq_in {A} (cs : list (A -> A -> comparison)) c x y :
  In c cs -> cascade cs x y = Eq -> c x y = Eq.
Proof.
  induction cs as [|d r IH]; intros Hin H; [destruct Hin|].
  simpl in H. destruct Hin as [->|Hin].
  - destruct (c x y); congruence.
  - apply IH; [exact Hin|]. destruct (d x y); congruence.
Qed.

(** * Integer parsing *)

Lemma parse_u128_shape : forall s v, parse_u128 s = Some v ->
  exists c r, s = c :: r /\ c <> 45 /\
    let d := if c =? 43 then r else s in
    int_digits_ok d = true /\ v = digits_val d /\ v < 2 ^ 128.
Proof.
  intros [|c r] v H; [discriminate|]. exists c, r.
  unfold parse_u128 in H. cbv zeta in H. cbv zeta.
  split; [reflexivity|].
  destruct (c =? 43) eqn:E43.
  - apply N.eqb_eq in E43. subst c. split; [lia|].
    destruct (int_digits_ok r) eqn:D; [|discriminate].
    destruct (digits_val r <? 2 ^ 128) eqn:L; [|discriminate].
    injection H as <-. apply N.ltb_lt in L. auto.
  - destruct (int_digits_ok (c :: r)) eqn:D; [|discriminate].
    destruct (digits_val (c :: r) <? 2 ^ 128) eqn:L; [|discriminate].
    injection H as <-. apply N.ltb_lt in L.
    split; [|auto].
    unfold int_digits_ok in D. apply Bool.andb_true_iff in D. destruct D as [_ D].
    unfold all_digits in D. cbn [forallb] in D. apply Bool.andb_true_iff in D. destruct D as [Dc _].
    apply is_digit_range in Dc. lia.
Qed.

Lemma parse_i128_shape : forall s z, parse_i128 s = Some z ->
  exists c r, s = c :: r /\
    let d := if (c =? 43) || (c =? 45) then r else s in
    int_digits_ok d = true /\
    z = (if c =? 45 then (- Z.of_N (digits_val d))%Z else Z.of_N (digits_val d)).
Proof.
  intros [|c r] z H; [discriminate|]. exists c, r.
  unfold parse_i128 in H. cbv zeta in H. cbv zeta.
  split; [reflexivity|].
  revert H.
  match goal with |- context [int_digits_ok ?x] => destruct (int_digits_ok x) eqn:D end; [|discriminate].
  intros H. split; [reflexivity|]. revert H.
  destruct (c =? 45).
  - destruct (_ <=? _); [|discriminate]. intros [= <-]. reflexivity.
  - destruct (_ <? _); [|discriminate]. intros [= <-]. reflexivity.
Qed.

(** An [i128] name that is not a [u128] name and not negative is a spelling of
    zero ("-0", "-00", ...). *)
Lemma nonneg_i128_not_u128 : forall s z,
  parse_u128 s = None -> parse_i128 s = Some z -> (0 <= z)%Z -> z = 0%Z.
Proof.
  intros [|c r] z U I0 Hz; [discriminate|].
  unfold parse_i128 in I0. unfold parse_u128 in U. cbv zeta in *.
  destruct (c =? 45) eqn:E45.
  - rewrite Bool.orb_true_r in I0. revert I0.
    destruct (int_digits_ok r); [|discriminate].
    destruct (digits_val r <=? 2 ^ 127); [|discriminate].
    intros [= <-]. lia.
  - rewrite Bool.orb_false_r in I0. revert I0 U.
    match goal with |- context [int_digits_ok ?d] => destruct (int_digits_ok d); [|discriminate];
      destruct (digits_val d <? 2 ^ 127) eqn:L; [|discriminate];
      destruct (digits_val d <? 2 ^ 128) eqn:L2; [discriminate|] end.
    apply N.ltb_lt in L. apply N.ltb_ge in L2. exfalso.
    assert (2 ^ 127 < 2 ^ 128) by (apply N.pow_lt_mono_r; lia). lia.
Qed.

(** * The comparator through its key *)

Section ArgCmpProofs.
Variable V : Type.
Variable vcmp : V -> V -> comparison.
Variable fparse : bytes -> option V.

Notation name_cmp := (name_cmp V vcmp fparse).
Notation float_cmp := (float_cmp V vcmp fparse).
Notation arg_cmp := (arg_cmp V vcmp fparse).
Notation arg_cmp_attr := (arg_cmp_attr V vcmp fparse).
Notation sort_args := (sort_args V vcmp fparse).
Notation spec_name_cmp := (spec_name_cmp V vcmp fparse).
Notation spec_arg_cmp := (spec_arg_cmp V vcmp fparse).
Notation spec_before := (spec_before V vcmp fparse).
Notation sort_sb := (sort_sb V vcmp fparse).

(** What the proofs need of the float oracle on a set [P] of names:
    [vcmp] is a total preorder; a name that parses as an integer parses as a
    float; the oracle is monotone on integer names (a smaller integer never
    gets a greater float: rounding may merge neighbours but never swaps them);
    an integer that is not zero is not rounded to the float of a zero.
    A correctly rounding [str::parse::<f64>] satisfies all of this for every
    name; no exactness is required. *)
Definition oracle_ok_on (P : bytes -> Prop) : Prop :=
  tpo_on all vcmp /\
  (forall s, P s -> int_val s <> None -> fparse s <> None) /\
  (forall a b x y va vb, P a -> P b ->
     int_val a = Some x -> int_val b = Some y ->
     fparse a = Some va -> fparse b = Some vb -> (x <= y)%Z -> vcmp va vb <> Gt) /\
  (forall a b x va vb, P a -> P b ->
     int_val a = Some x -> int_val b = Some 0%Z ->
     fparse a = Some va -> fparse b = Some vb -> vcmp va vb = Eq -> x = 0%Z).

(** Key of a number: its float value, then integers before other spellings,
    then the exact integer value. *)
Definition num_key : Type := V * (N * Z).

Definition num_key_of (s : bytes) (v : V) : num_key :=
  (v, match int_val s with Some z => (0, z) | None => (1, 0%Z) end).

Definition num_key_cmp : num_key -> num_key -> comparison :=
  thenc (fun a b => vcmp (fst a) (fst b))
        (thenc (fun a b => fst (snd a) ?= fst (snd b))
               (fun a b => (snd (snd a) ?= snd (snd b))%Z)).

Definition name_key (s : bytes) : num_key + bytes :=
  match fparse s with Some v => inl (num_key_of s v) | None => inr s end.

Definition key_cmp : num_key + bytes -> num_key + bytes -> comparison :=
  sumcmp num_key_cmp natural_cmp.

Variable P : bytes -> Prop.
Hypothesis OK : oracle_ok_on P.

Lemma neg_i128_spec : forall s, neg_i128 s = true ->
  exists z, parse_i128 s = Some z /\ (z < 0)%Z.
Proof.
  intros s H. unfold neg_i128 in H. destruct (parse_i128 s) as [z|]; [|discriminate].
  exists z. split; [reflexivity|]. apply Z.ltb_lt. exact H.
Qed.

Lemma is_int_int_val : forall s, is_int s = match int_val s with Some _ => true | None => false end.
Proof.
  intros s. unfold is_int, int_val. destruct (parse_u128 s); [reflexivity|].
  destruct (parse_i128 s); reflexivity.
Qed.

(** The specification's comparison of names is the comparison of the keys. *)
Lemma spec_name_cmp_key : forall a b,
  spec_name_cmp a b = key_cmp (name_key a) (name_key b).
Proof.
  intros a b. unfold ArgCmp.spec_name_cmp, key_cmp, name_key.
  destruct (fparse a) as [x|], (fparse b) as [y|]; try reflexivity.
  - simpl. unfold num_key_cmp, thenc, num_key_of. simpl.
    destruct (vcmp x y); try reflexivity.
    destruct (int_val a), (int_val b); reflexivity.
  - simpl. unfold natural_spec. symmetry. apply natural_cmp_key.
Qed.

(** Monotone oracle: consequences for two integer names. *)
Lemma ints_cmp_consistent : forall a b x y va vb, P a -> P b ->
  int_val a = Some x -> int_val b = Some y -> fparse a = Some va -> fparse b = Some vb ->
  (x ?= y)%Z = match vcmp va vb with Eq => (x ?= y)%Z | o => o end.
Proof.
  intros a b x y va vb Pa Pb Ia Ib Fa Fb. destruct OK as (Tv & _ & Hmono & _).
  destruct (vcmp va vb) eqn:E; [reflexivity| |].
  - (* Lt: then not y <= x ... *)
    apply Z.compare_lt_iff. destruct (Z.lt_ge_cases x y) as [H|H]; [exact H|].
    exfalso. apply (Hmono b a y x vb va Pb Pa Ib Ia Fb Fa H).
    rewrite (tpo_anti all vcmp Tv va vb I I), E. reflexivity.
  - apply Z.compare_gt_iff. destruct (Z.lt_ge_cases y x) as [H|H]; [exact H|].
    exfalso. apply (Hmono a b x y va vb Pa Pb Ia Ib Fa Fb H). exact E.
Qed.

(** The whole [Name] arm answers what the specification says. *)
Lemma name_cmp_spec : forall a b, P a -> P b -> name_cmp a b = spec_name_cmp a b.
Proof.
  intros a b Pa Pb. pose proof OK as (Tv & Hnum & Hmono & Hzero).
  unfold ArgCmp.name_cmp, ArgCmp.spec_name_cmp.
  destruct (parse_u128 a) as [x|] eqn:Ua; destruct (parse_u128 b) as [y|] eqn:Ub.
  - (* both u128 *)
    assert (Ia : int_val a = Some (Z.of_N x)) by (unfold int_val; rewrite Ua; reflexivity).
    assert (Ib : int_val b = Some (Z.of_N y)) by (unfold int_val; rewrite Ub; reflexivity).
    destruct (fparse a) as [va|] eqn:Fa; [|exfalso; apply (Hnum a Pa); congruence].
    destruct (fparse b) as [vb|] eqn:Fb; [|exfalso; apply (Hnum b Pb); congruence].
    rewrite Ia, Ib. rewrite <- N2Z.inj_compare.
    apply (ints_cmp_consistent a b _ _ va vb Pa Pb Ia Ib Fa Fb).
  - (* a u128, b not *)
    destruct (neg_i128 b) eqn:Nb.
    + apply neg_i128_spec in Nb. destruct Nb as (z & Ib' & Hz).
      assert (Ia : int_val a = Some (Z.of_N x)) by (unfold int_val; rewrite Ua; reflexivity).
      assert (Ib : int_val b = Some z) by (unfold int_val; rewrite Ub; exact Ib').
      destruct (fparse a) as [va|] eqn:Fa; [|exfalso; apply (Hnum a Pa); congruence].
      destruct (fparse b) as [vb|] eqn:Fb; [|exfalso; apply (Hnum b Pb); congruence].
      rewrite Ia, Ib.
      rewrite <- (ints_cmp_consistent a b _ _ va vb Pa Pb Ia Ib Fa Fb).
      symmetry. apply Z.compare_gt_iff. lia.
    + unfold ArgCmp.float_cmp.
      assert (Ia : int_val a = Some (Z.of_N x)) by (unfold int_val; rewrite Ua; reflexivity).
      destruct (fparse a) as [va|] eqn:Fa; [|exfalso; apply (Hnum a Pa); congruence].
      destruct (fparse b) as [vb|] eqn:Fb; [|reflexivity].
      destruct (vcmp va vb) eqn:E; try reflexivity.
      rewrite !is_int_int_val, Ia.
      destruct (int_val b) as [z|] eqn:Ib; [|reflexivity].
      (* b is an integer, not u128, not negative: its value is 0 *)
      assert (z = 0%Z) as ->.
      { unfold int_val in Ib. rewrite Ub in Ib. unfold neg_i128 in Nb. rewrite Ib in Nb.
        apply Z.ltb_ge in Nb. eapply nonneg_i128_not_u128; eauto. }
      simpl.
      assert (Hx : Z.of_N x = 0%Z) by (eapply (Hzero a b); eauto).
      rewrite Hx. reflexivity.
  - (* b u128, a not *)
    destruct (neg_i128 a) eqn:Na.
    + apply neg_i128_spec in Na. destruct Na as (z & Ia' & Hz).
      assert (Ia : int_val a = Some z) by (unfold int_val; rewrite Ua; exact Ia').
      assert (Ib : int_val b = Some (Z.of_N y)) by (unfold int_val; rewrite Ub; reflexivity).
      destruct (fparse a) as [va|] eqn:Fa; [|exfalso; apply (Hnum a Pa); congruence].
      destruct (fparse b) as [vb|] eqn:Fb; [|exfalso; apply (Hnum b Pb); congruence].
      rewrite Ia, Ib.
      rewrite <- (ints_cmp_consistent a b _ _ va vb Pa Pb Ia Ib Fa Fb).
      symmetry. apply Z.compare_lt_iff. lia.
    + unfold ArgCmp.float_cmp.
      assert (Ib : int_val b = Some (Z.of_N y)) by (unfold int_val; rewrite Ub; reflexivity).
      destruct (fparse b) as [vb|] eqn:Fb; [|exfalso; apply (Hnum b Pb); congruence].
      destruct (fparse a) as [va|] eqn:Fa; [|reflexivity].
      destruct (vcmp va vb) eqn:E; try reflexivity.
      rewrite !is_int_int_val, Ib.
      destruct (int_val a) as [z|] eqn:Ia; [|reflexivity].
      assert (z = 0%Z) as ->.
      { unfold int_val in Ia. rewrite Ua in Ia. unfold neg_i128 in Na. rewrite Ia in Na.
        apply Z.ltb_ge in Na. eapply nonneg_i128_not_u128; eauto. }
      simpl.
      assert (Hy : Z.of_N y = 0%Z).
      { eapply (Hzero b a); eauto. rewrite (tpo_anti all vcmp Tv va vb I I), E. reflexivity. }
      rewrite Hy. reflexivity.
  - (* neither u128 *)
    destruct (parse_i128 a) as [x|] eqn:Ia'; destruct (parse_i128 b) as [y|] eqn:Ib'.
    + assert (Ia : int_val a = Some x) by (unfold int_val; rewrite Ua; exact Ia').
      assert (Ib : int_val b = Some y) by (unfold int_val; rewrite Ub; exact Ib').
      destruct (fparse a) as [va|] eqn:Fa; [|exfalso; apply (Hnum a Pa); congruence].
      destruct (fparse b) as [vb|] eqn:Fb; [|exfalso; apply (Hnum b Pb); congruence].
      rewrite Ia, Ib. apply (ints_cmp_consistent a b _ _ va vb Pa Pb Ia Ib Fa Fb).
    + unfold ArgCmp.float_cmp.
      assert (Ia : int_val a = Some x) by (unfold int_val; rewrite Ua; exact Ia').
      assert (Ib : int_val b = None) by (unfold int_val; rewrite Ub; exact Ib').
      rewrite !is_int_int_val, Ia, Ib.
      destruct (fparse a); destruct (fparse b); try reflexivity; apply natural_cmp_key.
    + unfold ArgCmp.float_cmp.
      assert (Ia : int_val a = None) by (unfold int_val; rewrite Ua; exact Ia').
      assert (Ib : int_val b = Some y) by (unfold int_val; rewrite Ub; exact Ib').
      rewrite !is_int_int_val, Ia, Ib.
      destruct (fparse a); destruct (fparse b); try reflexivity; apply natural_cmp_key.
    + unfold ArgCmp.float_cmp.
      assert (Ia : int_val a = None) by (unfold int_val; rewrite Ua; exact Ia').
      assert (Ib : int_val b = None) by (unfold int_val; rewrite Ub; exact Ib').
      rewrite !is_int_int_val, Ia, Ib.
      destruct (fparse a); destruct (fparse b); try reflexivity; try apply natural_cmp_key.
Qed.

Lemma name_cmp_key : forall a b, P a -> P b ->
  name_cmp a b = key_cmp (name_key a) (name_key b).
Proof. intros. rewrite name_cmp_spec by assumption. apply spec_name_cmp_key. Qed.

Lemma tpo_num_key_cmp : tpo_on all num_key_cmp.
Proof.
  destruct OK as (Tv & _). unfold num_key_cmp. apply tpo_thenc; [|apply tpo_thenc].
  - apply (tpo_pull all all (fun a : num_key => fst a) vcmp); [intros; exact I|exact Tv].
  - apply (tpo_pull all all (fun a : num_key => fst (snd a)) N.compare); [intros; exact I|exact tpo_N].
  - apply (tpo_pull all all (fun a : num_key => snd (snd a)) Z.compare); [intros; exact I|exact tpo_Z].
Qed.

Lemma tpo_key_cmp : tpo_on all key_cmp.
Proof.
  apply (tpo_weaken all (sumP all all)); [intros [x|x] _; exact I|].
  apply tpo_sum; [exact tpo_num_key_cmp|exact tpo_natural_cmp].
Qed.

Lemma tpo_name_cmp : tpo_on P name_cmp.
Proof.
  apply (tpo_ext P _ (fun a b => key_cmp (name_key a) (name_key b))).
  - intros; apply name_cmp_key; assumption.
  - apply (tpo_pull P all name_key key_cmp); [intros; exact I|exact tpo_key_cmp].
Qed.

(** Two numeric names compare by value; at equal value integers come first
    (two integers by their exact value), other spellings tie. *)
Lemma name_cmp_numeric : forall a b x y, P a -> P b ->
  fparse a = Some x -> fparse b = Some y ->
  name_cmp a b = match vcmp x y with
                 | Eq => match int_val a, int_val b with
                         | Some p, Some q => (p ?= q)%Z
                         | Some _, None => Lt
                         | None, Some _ => Gt
                         | None, None => Eq
                         end
                 | o => o
                 end.
Proof.
  intros a b x y Pa Pb Fa Fb. rewrite name_cmp_spec by assumption.
  unfold ArgCmp.spec_name_cmp. rewrite Fa, Fb. reflexivity.
Qed.

Lemma name_cmp_number_first : forall a b x, P a -> P b ->
  fparse a = Some x -> fparse b = None -> name_cmp a b = Lt /\ name_cmp b a = Gt.
Proof.
  intros a b x Pa Pb Fa Fb. rewrite !name_cmp_spec by assumption.
  unfold ArgCmp.spec_name_cmp. rewrite Fa, Fb. split; reflexivity.
Qed.

Lemma name_cmp_natural : forall a b, P a -> P b ->
  fparse a = None -> fparse b = None -> name_cmp a b = natural_cmp a b.
Proof.
  intros a b Pa Pb Fa Fb. rewrite name_cmp_spec by assumption.
  unfold ArgCmp.spec_name_cmp. rewrite Fa, Fb. unfold natural_spec. symmetry. apply natural_cmp_key.
Qed.

(** * The full comparator on (position, name) *)

Definition PD (x : N * bytes) : Prop := P (snd x).

Lemma tpo_arg_cmp_attr : forall attr, tpo_on PD (arg_cmp_attr attr).
Proof.
  intros [| |]; unfold ArgCmp.arg_cmp_attr.
  - apply tpo_const_eq.
  - apply (tpo_pull PD P snd name_cmp); [intros x Hx; exact Hx|exact tpo_name_cmp].
  - apply (tpo_weaken PD all); [intros; exact I|].
    apply (tpo_pull all all fst N.compare); [intros; exact I|exact tpo_N].
Qed.

Lemma tpo_arg_cmp : forall attr, tpo_on PD (arg_cmp attr).
Proof.
  intros attr. unfold ArgCmp.arg_cmp. apply tpo_cascade.
  apply Forall_forall. intros c Hc. apply in_map_iff in Hc.
  destruct Hc as (a & <- & _). apply tpo_arg_cmp_attr.
Qed.

(** Every cascade ends in the position, so only an argument itself is [Equal] to it. *)
Lemma location_in_tie_breakers : forall attr, In SLocation (with_tie_breakers attr).
Proof. intros [| |]; simpl; auto. Qed.

Lemma arg_cmp_eq_pos : forall attr x y, arg_cmp attr x y = Eq -> fst x = fst y.
Proof.
  intros attr x y H. unfold ArgCmp.arg_cmp in H.
  apply (cascade_eq_in _ (arg_cmp_attr SLocation)) in H.
  - simpl in H. apply N.compare_eq in H. exact H.
  - apply in_map. apply location_in_tie_breakers.
Qed.

End ArgCmpProofs.

(** * Indexed lists *)

Lemma index_from_fst {A} : forall (l : list A) i x, In x (index_from i l) ->
  i <= fst x < i + N.of_nat (length l).
Proof.
  induction l as [|a l IH]; intros i x H; simpl in *; [destruct H|].
  destruct H as [<-|H]; simpl; [lia|]. apply IH in H. lia.
Qed.

Lemma index_from_inj {A} : forall (l : list A) i x y,
  In x (index_from i l) -> In y (index_from i l) -> fst x = fst y -> x = y.
Proof.
  induction l as [|a l IH]; intros i x y Hx Hy E; simpl in *; [destruct Hx|].
  destruct Hx as [<-|Hx]; destruct Hy as [<-|Hy]; simpl in *.
  - reflexivity.
  - apply index_from_fst in Hy. lia.
  - apply index_from_fst in Hx. lia.
  - eapply IH; eauto.
Qed.

Lemma index_from_snd {A} : forall (l : list A) i x, In x (index_from i l) -> In (snd x) l.
Proof.
  induction l as [|a l IH]; intros i x H; simpl in *; [destruct H|].
  destruct H as [<-|H]; [left; reflexivity|right; eapply IH; eauto].
Qed.

Lemma index_from_nodup {A} : forall (l : list A) i, NoDup (index_from i l).
Proof.
  induction l as [|a l IH]; intros i; simpl; [constructor|].
  constructor; [|apply IH]. intros H. apply index_from_fst in H. simpl in H. lia.
Qed.

Lemma nth_opt_index_from {A} : forall (l : list A) i x, In x (index_from i l) ->
  nth_opt l (fst x - i) = Some (snd x).
Proof.
  induction l as [|a l IH]; intros i x H; simpl in *; [destruct H|].
  destruct H as [<-|H]; simpl.
  - rewrite N.sub_diag. reflexivity.
  - pose proof (index_from_fst _ _ _ H) as B. apply IH in H.
    destruct (fst x - i =? 0) eqn:E; [apply N.eqb_eq in E; lia|].
    replace (fst x - i - 1) with (fst x - (i + 1)) by lia. exact H.
Qed.

(** * Sorting the arguments *)

Section SortArgs.
Variable V : Type.
Variable vcmp : V -> V -> comparison.
Variable fparse : bytes -> option V.
Variable names : list bytes.

Definition in_names (s : bytes) : Prop := In s names.
Definition D (x : N * bytes) : Prop := In x (indexed names).

Hypothesis OK : oracle_ok_on V vcmp fparse in_names.

Notation arg_cmp := (arg_cmp V vcmp fparse).

Lemma D_PD : forall x, D x -> PD in_names x.
Proof. intros x H. unfold PD, in_names. eapply index_from_snd. exact H. Qed.

Lemma tpo_arg_cmp_D : forall attr, tpo_on D (arg_cmp attr).
Proof.
  intros attr. apply (tpo_weaken D (PD in_names)); [exact D_PD|].
  apply tpo_arg_cmp. exact OK.
Qed.

Lemma arg_cmp_strict : forall attr x y, D x -> D y -> (arg_cmp attr x y = Eq <-> x = y).
Proof.
  intros attr x y Dx Dy. split.
  - intros H. apply arg_cmp_eq_pos in H. eapply index_from_inj; eauto.
  - intros <-. apply (tpo_refl D _ (tpo_arg_cmp_D attr)). exact Dx.
Qed.

Lemma tpo_rev_arg_cmp_D : forall attr b, tpo_on D (revc b (arg_cmp attr)).
Proof. intros. apply tpo_rev. apply tpo_arg_cmp_D. Qed.

Lemma rev_arg_cmp_strict : forall attr b x y, D x -> D y ->
  revc b (arg_cmp attr) x y = Eq -> x = y.
Proof.
  intros attr b x y Dx Dy H. apply (arg_cmp_strict attr x y Dx Dy).
  unfold revc, apply_reverse in H. destruct b; [|exact H].
  destruct (arg_cmp attr x y); simpl in H; congruence.
Qed.

Lemma Forall_D_indexed : Forall D (indexed names).
Proof. apply Forall_forall. intros x H. exact H. Qed.

(** The sort never reaches std's "not a total order" panic, and returns the
    insertion-sorted list. *)
Lemma sort_args_ok : forall attr b,
  sort_args V vcmp fparse attr b names =
  Ok (map fst (isort (revc b (arg_cmp attr)) (indexed names))).
Proof.
  intros attr b. unfold sort_args.
  rewrite (sort_by_ok D _ (tpo_rev_arg_cmp_D attr b) _ Forall_D_indexed). reflexivity.
Qed.

(** Whatever algorithm [sort_by] uses: any sorted permutation of the indexed
    arguments is this one. *)
Lemma sort_args_unique : forall attr b l,
  Permutation (indexed names) l -> ssorted (revc b (arg_cmp attr)) l ->
  l = isort (revc b (arg_cmp attr)) (indexed names).
Proof.
  intros attr b l HP HS. symmetry.
  apply (sorted_perm_unique D _ (tpo_rev_arg_cmp_D attr b) (rev_arg_cmp_strict attr b)).
  - apply (Forall_perm _ (indexed names)); [apply isort_perm|apply Forall_D_indexed].
  - eapply perm_trans; [apply Permutation_sym, isort_perm|exact HP].
  - apply (isort_sorted D _ (tpo_rev_arg_cmp_D attr b)). apply Forall_D_indexed.
  - exact HS.
Qed.

(** [--sortr] is exactly the reverse of [--sort]. *)
Lemma sort_args_reverse : forall attr,
  isort (revc true (arg_cmp attr)) (indexed names) =
  rev (isort (revc false (arg_cmp attr)) (indexed names)).
Proof.
  intros attr. symmetry. apply sort_args_unique.
  - eapply perm_trans; [apply isort_perm|apply Permutation_rev].
  - apply (ssorted_rev D _ (tpo_arg_cmp_D attr)).
    + apply (Forall_perm _ (indexed names)); [apply isort_perm|apply Forall_D_indexed].
    + apply (isort_sorted D _ (tpo_arg_cmp_D attr)). apply Forall_D_indexed.
Qed.

End SortArgs.

(** * The exact decimal oracle satisfies the hypotheses, for all names *)

Lemma tpo_fval_cmp : tpo_on all fval_cmp.
Proof.
  split; [|split].
  - intros [|p|] [|q|] _ _; simpl; try reflexivity. symmetry. apply Qcompare_antisym.
  - intros [|p|] [|q|] [|r|] _ _ _; simpl; try discriminate; try reflexivity.
    rewrite <- !Qlt_alt. apply Qlt_trans.
  - intros [|p|] [|q|] [|r|] _ _ _; simpl; try discriminate; try reflexivity.
    intros H. apply Qeq_alt in H. rewrite H. reflexivity.
Qed.

Lemma span_digits_all : forall d, all_digits d = true -> span_digits d = (d, []).
Proof.
  induction d as [|c r IH]; intros H; simpl; [reflexivity|].
  simpl in H. apply Bool.andb_true_iff in H. destruct H as [Hc Hr].
  rewrite Hc, (IH Hr). reflexivity.
Qed.

Lemma parse_number_digits : forall d, int_digits_ok d = true ->
  parse_number d = Some (digits_val d, 0%Z).
Proof.
  intros d H. unfold int_digits_ok in H. apply Bool.andb_true_iff in H. destruct H as [Hn Hd].
  unfold parse_number. rewrite (span_digits_all d Hd).
  destruct d as [|c r]; [discriminate|]. simpl is_nil. simpl andb. cbv iota.
  rewrite app_nil_r. reflexivity.
Qed.

Lemma dec_q_int : forall neg m,
  dec_q neg m 0 = Qmake ((if neg then - Z.of_N m else Z.of_N m) * 1)%Z 1.
Proof. intros. reflexivity. Qed.

(** A name that parses as [u128] or [i128] with value [z] parses, in the exact
    oracle, as the rational [z]. *)
Lemma dec_parse_int : forall s z, int_val s = Some z ->
  dec_parse s = Some (FFin (Qmake (z * 1) 1)).
Proof.
  intros s z H. unfold int_val in H.
  destruct (parse_u128 s) as [v|] eqn:U.
  - injection H as <-. apply parse_u128_shape in U.
    destruct U as (c & r & -> & Hc & Hd & -> & _).
    unfold dec_parse.
    assert (E45 : (c =? 45) = false) by (apply N.eqb_neq; exact Hc).
    rewrite E45, Bool.orb_false_r.
    destruct (c =? 43) eqn:E43.
    + pose proof Hd as Hd'. unfold int_digits_ok in Hd'. apply Bool.andb_true_iff in Hd'.
      destruct Hd' as [Hn _]. apply Bool.negb_true_iff in Hn. rewrite Hn.
      rewrite (parse_number_digits _ Hd). rewrite dec_q_int. reflexivity.
    + simpl is_nil. cbv iota. rewrite (parse_number_digits _ Hd). rewrite dec_q_int. reflexivity.
  - apply parse_i128_shape in H. destruct H as (c & r & -> & Hd & ->).
    unfold dec_parse.
    pose proof Hd as Hd'. unfold int_digits_ok in Hd'. apply Bool.andb_true_iff in Hd'.
    destruct Hd' as [Hn _]. apply Bool.negb_true_iff in Hn. rewrite Hn.
    rewrite (parse_number_digits _ Hd). rewrite dec_q_int. reflexivity.
Qed.

Lemma oracle_dec_ok : forall P, oracle_ok_on fval fval_cmp dec_parse P.
Proof.
  intros P. split; [exact tpo_fval_cmp|split; [|split]].
  - intros s _ H. destruct (int_val s) as [z|] eqn:E; [|congruence].
    rewrite (dec_parse_int s z E). discriminate.
  - intros a b x y va vb _ _ Ia Ib Fa Fb Hle.
    rewrite (dec_parse_int a x Ia) in Fa. rewrite (dec_parse_int b y Ib) in Fb.
    injection Fa as <-. injection Fb as <-. simpl. unfold Qcompare. simpl.
    rewrite !Z.mul_1_r. apply Z.compare_le_iff. exact Hle.
  - intros a b x va vb _ _ Ia Ib Fa Fb E.
    rewrite (dec_parse_int a x Ia) in Fa. rewrite (dec_parse_int b 0%Z Ib) in Fb.
    injection Fa as <-. injection Fb as <-. simpl in E. unfold Qcompare in E. simpl in E.
    rewrite !Z.mul_1_r in E. apply Z.compare_eq in E. exact E.
Qed.

(** * A rounding oracle (like f64 beyond 2^53)

    An oracle that maps 2^53, 2^53+1 and "9007199254740992.0" to one value is
    monotone but not exact.  The comparator as it was before commit 6cb0c72
    (float-[Equal] names simply tie) is then not a preorder on these three
    names: the integers are ordered exactly, yet both tie with the decimal (the
    real crate panicked in [sort_by] on 21 such names).  The comparator as it is
    now orders them: 2^53 < 2^53+1 < "9007199254740992.0". *)
Definition n_2p53 : bytes := [57;48;48;55;49;57;57;50;53;52;55;52;48;57;57;50].
Definition n_2p53_1 : bytes := [57;48;48;55;49;57;57;50;53;52;55;52;48;57;57;51].
Definition n_2p53_dot0 : bytes := n_2p53 ++ [46; 48].

Definition rounding_oracle (s : bytes) : option Z :=
  if bytes_eqb s n_2p53 || bytes_eqb s n_2p53_1 || bytes_eqb s n_2p53_dot0
  then Some (2 ^ 53)%Z else None.

(** [cmp_bench_arg_names]' [Name] arm before 6cb0c72. *)
Definition old_float_cmp {V} (vcmp : V -> V -> comparison) (fparse : bytes -> option V) (a b : bytes) : comparison :=
  match fparse a, fparse b with
  | Some x, Some y => vcmp x y
  | Some _, None => Lt
  | None, Some _ => Gt
  | None, None => natural_cmp a b
  end.

Definition old_name_cmp {V} (vcmp : V -> V -> comparison) (fparse : bytes -> option V) (a b : bytes) : comparison :=
  match parse_u128 a, parse_u128 b with
  | Some x, Some y => x ?= y
  | Some _, None => if neg_i128 b then Gt else old_float_cmp vcmp fparse a b
  | None, Some _ => if neg_i128 a then Lt else old_float_cmp vcmp fparse a b
  | None, None =>
      match parse_i128 a, parse_i128 b with
      | Some x, Some y => (x ?= y)%Z
      | _, _ => old_float_cmp vcmp fparse a b
      end
  end.

Example rounding_oracle_broke_old_comparator :
  old_name_cmp Z.compare rounding_oracle n_2p53 n_2p53_1 = Lt /\
  old_name_cmp Z.compare rounding_oracle n_2p53 n_2p53_dot0 = Eq /\
  old_name_cmp Z.compare rounding_oracle n_2p53_1 n_2p53_dot0 = Eq.
Proof. vm_compute. repeat split. Qed.

Example rounding_oracle_new_comparator :
  name_cmp Z Z.compare rounding_oracle n_2p53 n_2p53_1 = Lt /\
  name_cmp Z Z.compare rounding_oracle n_2p53 n_2p53_dot0 = Lt /\
  name_cmp Z Z.compare rounding_oracle n_2p53_1 n_2p53_dot0 = Lt.
Proof. vm_compute. repeat split. Qed.

(** The rounding oracle satisfies the hypotheses on these names (it is not
    exact, only monotone): the theorems apply to it. *)
Example rounding_oracle_ok :
  oracle_ok_on Z Z.compare rounding_oracle (fun s => In s [n_2p53; n_2p53_1; n_2p53_dot0]).
Proof.
  split; [exact tpo_Z|split; [|split]].
  - intros s [<-|[<-|[<-|[]]]] _; vm_compute; discriminate.
  - intros a b x y va vb [<-|[<-|[<-|[]]]] [<-|[<-|[<-|[]]]]; vm_compute;
      intros Ia Ib Fa Fb; try discriminate; injection Fa as <-; injection Fb as <-; intros _; discriminate.
  - intros a b x va vb [<-|[<-|[<-|[]]]] [<-|[<-|[<-|[]]]]; vm_compute;
      intros Ia Ib; discriminate.
Qed.

(** * Statements in the shape used by Properties/C16.v *)

Lemma argcmp_strict_total : forall V vcmp fparse names attr,
  oracle_ok_on V vcmp fparse (in_names names) ->
  let c := arg_cmp V vcmp fparse attr in
  let D := D names in
  (forall x y, D x -> D y -> c y x = CompOpp (c x y)) /\
  (forall x y z, D x -> D y -> D z -> c x y = Lt -> c y z = Lt -> c x z = Lt) /\
  (forall x y z, D x -> D y -> D z -> c x y = Eq -> c x z = c y z) /\
  (forall x y, D x -> D y -> (c x y = Eq <-> x = y)).
Proof.
  intros V vcmp fparse names attr OK. split; [|split; [|split]].
  - exact (proj1 (tpo_arg_cmp_D V vcmp fparse names OK attr)).
  - exact (proj1 (proj2 (tpo_arg_cmp_D V vcmp fparse names OK attr))).
  - exact (proj2 (proj2 (tpo_arg_cmp_D V vcmp fparse names OK attr))).
  - exact (arg_cmp_strict V vcmp fparse names OK attr).
Qed.

Lemma argcmp_numeric : forall V vcmp fparse (P : bytes -> Prop),
  oracle_ok_on V vcmp fparse P ->
  forall a b, P a -> P b ->
  (forall x y, fparse a = Some x -> fparse b = Some y ->
     name_cmp V vcmp fparse a b =
     match vcmp x y with
     | Eq => match int_val a, int_val b with
             | Some p, Some q => (p ?= q)%Z
             | Some _, None => Lt
             | None, Some _ => Gt
             | None, None => Eq
             end
     | o => o
     end) /\
  (forall x, fparse a = Some x -> fparse b = None ->
     name_cmp V vcmp fparse a b = Lt /\ name_cmp V vcmp fparse b a = Gt) /\
  (fparse a = None -> fparse b = None ->
     name_cmp V vcmp fparse a b = natural_cmp a b).
Proof.
  intros V vcmp fparse P OK a b Pa Pb. split; [|split].
  - intros x y. exact (name_cmp_numeric V vcmp fparse P OK a b x y Pa Pb).
  - intros x. exact (name_cmp_number_first V vcmp fparse P OK a b x Pa Pb).
  - exact (name_cmp_natural V vcmp fparse P OK a b Pa Pb).
Qed.

Lemma sort_perm_unique : forall V vcmp fparse names attr rev,
  oracle_ok_on V vcmp fparse (in_names names) ->
  let c := revc rev (arg_cmp V vcmp fparse attr) in
  sort_args V vcmp fparse attr rev names = Ok (map fst (isort c (indexed names))) /\
  Permutation (indexed names) (isort c (indexed names)) /\
  ssorted c (isort c (indexed names)) /\
  (forall l, Permutation (indexed names) l -> ssorted c l -> l = isort c (indexed names)).
Proof.
  intros V vcmp fparse names attr rev OK. split; [|split; [|split]].
  - exact (sort_args_ok V vcmp fparse names OK attr rev).
  - apply isort_perm.
  - apply (isort_sorted (D names) _ (tpo_rev_arg_cmp_D V vcmp fparse names OK attr rev)).
    apply Forall_D_indexed.
  - exact (sort_args_unique V vcmp fparse names OK attr rev).
Qed.

Lemma tie_breakers_table :
  with_tie_breakers SKind = [SKind; SName; SLocation] /\
  with_tie_breakers SName = [SName; SLocation; SKind] /\
  with_tie_breakers SLocation = [SLocation; SKind; SName].
Proof. repeat split; reflexivity. Qed.
