(** Proofs about [Model/ArgCmp.v]: the argument-name comparator is a total
    preorder on every list of names on which the float oracle is exact on the
    integer names; with the position as tie-breaker it is a strict total order;
    hence the sort never panics and its result is the unique sorted permutation. *)

From Coq Require Import Permutation QArith.
From DivanV Require Import Base.Res Generated.Consts Model.Natural Model.SortBy Model.ArgCmp
  Proofs.SortCmp Proofs.Natural.
Local Open Scope N_scope.

(** * Cascades *)

Lemma tpo_cascade {A} (P : A -> Prop) (cs : list (A -> A -> comparison)) :
  Forall (tpo_on P) cs -> tpo_on P (cascade cs).
Proof.
  induction cs as [|c r IH]; intros H.
  - apply tpo_const_eq.
  - inversion H; subst. apply (tpo_ext P _ (thenc c (cascade r))).
    + intros x y _ _. reflexivity.
    + apply tpo_thenc; auto.
Qed.

Lemma cascade_eq_in {A} (cs : list (A -> A -> comparison)) c x y :
  In c cs -> cascade cs x y = Eq -> c x y = Eq.
Proof.
  induction cs as [|d r IH]; intros Hin H; [destruct Hin|].
  simpl in H. destruct Hin as [->|Hin].
  - destruct (c x y); congruence.
  - apply IH; [exact Hin|]. destruct (d x y); congruence.
Qed.

(** * Integer parsing *)

Lemma parse_u128_shape : forall s v, parse_u128 s = Some v ->
  exists c r, s = c :: r /\ c <> 45 /\
    let d := if c =? 43 then r else s in
    int_digits_ok d = true /\ v = digits_val d /\ v < 2 ^ 128.
Proof.
  intros [|c r] v H; [discriminate|]. exists c, r.
  unfold parse_u128 in H. cbv zeta in H. cbv zeta.
  split; [reflexivity|].
  destruct (c =? 43) eqn:E43.
  - apply N.eqb_eq in E43. subst c. split; [lia|].
    destruct (int_digits_ok r) eqn:D; [|discriminate].
    destruct (digits_val r <? 2 ^ 128) eqn:L; [|discriminate].
    injection H as <-. apply N.ltb_lt in L. auto.
  - destruct (int_digits_ok (c :: r)) eqn:D; [|discriminate].
    destruct (digits_val (c :: r) <? 2 ^ 128) eqn:L; [|discriminate].
    injection H as <-. apply N.ltb_lt in L.
    split; [|auto].
    unfold int_digits_ok in D. apply Bool.andb_true_iff in D. destruct D as [_ D].
    unfold all_digits in D. cbn [forallb] in D. apply Bool.andb_true_iff in D. destruct D as [Dc _].
    apply is_digit_range in Dc. lia.
Qed.

Lemma parse_i128_shape : forall s z, parse_i128 s = Some z ->
  exists c r, s = c :: r /\
    let d := if (c =? 43) || (c =? 45) then r else s in
    int_digits_ok d = true /\
    z = (if c =? 45 then (- Z.of_N (digits_val d))%Z else Z.of_N (digits_val d)).
Proof.
  intros [|c r] z H; [discriminate|]. exists c, r.
  unfold parse_i128 in H. cbv zeta in H. cbv zeta.
  split; [reflexivity|].
  revert H.
  match goal with |- context [int_digits_ok ?x] => destruct (int_digits_ok x) eqn:D end; [|discriminate].
  intros H. split; [reflexivity|]. revert H.
  destruct (c =? 45).
  - destruct (_ <=? _); [|discriminate]. intros [= <-]. reflexivity.
  - destruct (_ <? _); [|discriminate]. intros [= <-]. reflexivity.
Qed.

(** * The comparator through its key *)

Section ArgCmpProofs.
Variable V : Type.
Variable vcmp : V -> V -> comparison.
Variable fparse : bytes -> option V.

Notation name_cmp := (name_cmp V vcmp fparse).
Notation float_cmp := (float_cmp V vcmp fparse).
Notation arg_cmp := (arg_cmp V vcmp fparse).
Notation arg_cmp_attr := (arg_cmp_attr V vcmp fparse).
Notation sort_args := (sort_args V vcmp fparse).
Notation spec_name_cmp := (spec_name_cmp V vcmp fparse).
Notation spec_arg_cmp := (spec_arg_cmp V vcmp fparse).
Notation spec_before := (spec_before V vcmp fparse).
Notation sort_sb := (sort_sb V vcmp fparse).

(** What the proofs need of the float oracle on a set [P] of names:
    [vcmp] is a total preorder; a name that parses as an integer parses as a
    float; on two integer names the float comparison agrees with the integer
    comparison (parsing is exact, or at least order-reflecting, there). *)
Definition oracle_ok_on (P : bytes -> Prop) : Prop :=
  tpo_on all vcmp /\
  (forall s, P s -> int_val s <> None -> fparse s <> None) /\
  (forall a b x y va vb, P a -> P b ->
     int_val a = Some x -> int_val b = Some y ->
     fparse a = Some va -> fparse b = Some vb -> vcmp va vb = (x ?= y)%Z).

Definition name_key (s : bytes) : V + bytes :=
  match fparse s with Some v => inl v | None => inr s end.

Definition key_cmp : V + bytes -> V + bytes -> comparison := sumcmp vcmp natural_cmp.

Variable P : bytes -> Prop.
Hypothesis OK : oracle_ok_on P.

Lemma float_cmp_key : forall a b, float_cmp a b = key_cmp (name_key a) (name_key b).
Proof.
  intros a b. unfold float_cmp, key_cmp, name_key.
  destruct (fparse a), (fparse b); reflexivity.
Qed.

Lemma neg_i128_spec : forall s, neg_i128 s = true ->
  exists z, parse_i128 s = Some z /\ (z < 0)%Z.
Proof.
  intros s H. unfold neg_i128 in H. destruct (parse_i128 s) as [z|]; [|discriminate].
  exists z. split; [reflexivity|]. apply Z.ltb_lt. exact H.
Qed.

(** The whole [Name] arm is "compare the keys": numbers first by value, then
    the other names in natural order. *)
Lemma name_cmp_key : forall a b, P a -> P b ->
  name_cmp a b = key_cmp (name_key a) (name_key b).
Proof.
  intros a b Pa Pb. destruct OK as (Tv & Hnum & Hex).
  unfold ArgCmp.name_cmp.
  destruct (parse_u128 a) as [x|] eqn:Ua; destruct (parse_u128 b) as [y|] eqn:Ub.
  - (* both u128 *)
    assert (Ia : int_val a = Some (Z.of_N x)) by (unfold int_val; rewrite Ua; reflexivity).
    assert (Ib : int_val b = Some (Z.of_N y)) by (unfold int_val; rewrite Ub; reflexivity).
    unfold key_cmp, name_key.
    destruct (fparse a) as [va|] eqn:Fa; [|exfalso; apply (Hnum a Pa); congruence].
    destruct (fparse b) as [vb|] eqn:Fb; [|exfalso; apply (Hnum b Pb); congruence].
    simpl. rewrite (Hex a b _ _ va vb Pa Pb Ia Ib Fa Fb). symmetry. apply N2Z.inj_compare.
  - (* a u128, b not *)
    destruct (neg_i128 b) eqn:Nb; [|apply float_cmp_key].
    apply neg_i128_spec in Nb. destruct Nb as (z & Ib' & Hz).
    assert (Ia : int_val a = Some (Z.of_N x)) by (unfold int_val; rewrite Ua; reflexivity).
    assert (Ib : int_val b = Some z) by (unfold int_val; rewrite Ub; exact Ib').
    unfold key_cmp, name_key.
    destruct (fparse a) as [va|] eqn:Fa; [|exfalso; apply (Hnum a Pa); congruence].
    destruct (fparse b) as [vb|] eqn:Fb; [|exfalso; apply (Hnum b Pb); congruence].
    simpl. rewrite (Hex a b _ _ va vb Pa Pb Ia Ib Fa Fb). symmetry. apply Z.compare_gt_iff. lia.
  - (* b u128, a not *)
    destruct (neg_i128 a) eqn:Na; [|apply float_cmp_key].
    apply neg_i128_spec in Na. destruct Na as (z & Ia' & Hz).
    assert (Ia : int_val a = Some z) by (unfold int_val; rewrite Ua; exact Ia').
    assert (Ib : int_val b = Some (Z.of_N y)) by (unfold int_val; rewrite Ub; reflexivity).
    unfold key_cmp, name_key.
    destruct (fparse a) as [va|] eqn:Fa; [|exfalso; apply (Hnum a Pa); congruence].
    destruct (fparse b) as [vb|] eqn:Fb; [|exfalso; apply (Hnum b Pb); congruence].
    simpl. rewrite (Hex a b _ _ va vb Pa Pb Ia Ib Fa Fb). symmetry. apply Z.compare_lt_iff. lia.
  - (* neither u128 *)
    destruct (parse_i128 a) as [x|] eqn:Ia'; [|apply float_cmp_key].
    destruct (parse_i128 b) as [y|] eqn:Ib'; [|apply float_cmp_key].
    assert (Ia : int_val a = Some x) by (unfold int_val; rewrite Ua; exact Ia').
    assert (Ib : int_val b = Some y) by (unfold int_val; rewrite Ub; exact Ib').
    unfold key_cmp, name_key.
    destruct (fparse a) as [va|] eqn:Fa; [|exfalso; apply (Hnum a Pa); congruence].
    destruct (fparse b) as [vb|] eqn:Fb; [|exfalso; apply (Hnum b Pb); congruence].
    simpl. rewrite (Hex a b _ _ va vb Pa Pb Ia Ib Fa Fb). reflexivity.
Qed.

Lemma tpo_key_cmp : tpo_on all key_cmp.
Proof.
  destruct OK as (Tv & _).
  apply (tpo_weaken all (sumP all all)); [intros [x|x] _; exact I|].
  apply tpo_sum; [exact Tv|exact tpo_natural_cmp].
Qed.

Lemma tpo_name_cmp : tpo_on P name_cmp.
Proof.
  apply (tpo_ext P _ (fun a b => key_cmp (name_key a) (name_key b))).
  - intros; apply name_cmp_key; assumption.
  - apply (tpo_pull P all name_key key_cmp); [intros; exact I|exact tpo_key_cmp].
Qed.

(** The specification's comparison of names is the same function of the keys. *)
Lemma spec_name_cmp_key : forall a b,
  spec_name_cmp a b = key_cmp (name_key a) (name_key b).
Proof.
  intros a b. unfold ArgCmp.spec_name_cmp, key_cmp, name_key.
  destruct (fparse a), (fparse b); try reflexivity.
  simpl. unfold natural_spec. symmetry. apply natural_cmp_key.
Qed.

Lemma name_cmp_spec : forall a b, P a -> P b -> name_cmp a b = spec_name_cmp a b.
Proof. intros. rewrite name_cmp_key, spec_name_cmp_key by assumption. reflexivity. Qed.

(** Two numeric names compare by value. *)
Lemma name_cmp_numeric : forall a b x y, P a -> P b ->
  fparse a = Some x -> fparse b = Some y -> name_cmp a b = vcmp x y.
Proof.
  intros a b x y Pa Pb Fa Fb. rewrite name_cmp_key by assumption.
  unfold key_cmp, name_key. rewrite Fa, Fb. reflexivity.
Qed.

Lemma name_cmp_number_first : forall a b x, P a -> P b ->
  fparse a = Some x -> fparse b = None -> name_cmp a b = Lt /\ name_cmp b a = Gt.
Proof.
  intros a b x Pa Pb Fa Fb. rewrite !name_cmp_key by assumption.
  unfold key_cmp, name_key. rewrite Fa, Fb. split; reflexivity.
Qed.

Lemma name_cmp_natural : forall a b, P a -> P b ->
  fparse a = None -> fparse b = None -> name_cmp a b = natural_cmp a b.
Proof.
  intros a b Pa Pb Fa Fb. rewrite name_cmp_key by assumption.
  unfold key_cmp, name_key. rewrite Fa, Fb. reflexivity.
Qed.

(** * The full comparator on (position, name) *)

Definition PD (x : N * bytes) : Prop := P (snd x).

Lemma tpo_arg_cmp_attr : forall attr, tpo_on PD (arg_cmp_attr attr).
Proof.
  intros [| |]; unfold ArgCmp.arg_cmp_attr.
  - apply tpo_const_eq.
  - apply (tpo_pull PD P snd name_cmp); [intros x Hx; exact Hx|exact tpo_name_cmp].
  - apply (tpo_weaken PD all); [intros; exact I|].
    apply (tpo_pull all all fst N.compare); [intros; exact I|exact tpo_N].
Qed.

Lemma tpo_arg_cmp : forall attr, tpo_on PD (arg_cmp attr).
Proof.
  intros attr. unfold ArgCmp.arg_cmp. apply tpo_cascade.
  apply Forall_forall. intros c Hc. apply in_map_iff in Hc.
  destruct Hc as (a & <- & _). apply tpo_arg_cmp_attr.
Qed.

(** Every cascade ends in the position, so only an argument itself is [Equal] to it. *)
Lemma location_in_tie_breakers : forall attr, In SLocation (with_tie_breakers attr).
Proof. intros [| |]; simpl; auto. Qed.

Lemma arg_cmp_eq_pos : forall attr x y, arg_cmp attr x y = Eq -> fst x = fst y.
Proof.
  intros attr x y H. unfold ArgCmp.arg_cmp in H.
  apply (cascade_eq_in _ (arg_cmp_attr SLocation)) in H.
  - simpl in H. apply N.compare_eq in H. exact H.
  - apply in_map. apply location_in_tie_breakers.
Qed.

End ArgCmpProofs.

(** * Indexed lists *)

Lemma index_from_fst {A} : forall (l : list A) i x, In x (index_from i l) ->
  i <= fst x < i + N.of_nat (length l).
Proof.
  induction l as [|a l IH]; intros i x H; simpl in *; [destruct H|].
  destruct H as [<-|H]; simpl; [lia|]. apply IH in H. lia.
Qed.

Lemma index_from_inj {A} : forall (l : list A) i x y,
  In x (index_from i l) -> In y (index_from i l) -> fst x = fst y -> x = y.
Proof.
  induction l as [|a l IH]; intros i x y Hx Hy E; simpl in *; [destruct Hx|].
  destruct Hx as [<-|Hx]; destruct Hy as [<-|Hy]; simpl in *.
  - reflexivity.
  - apply index_from_fst in Hy. lia.
  - apply index_from_fst in Hx. lia.
  - eapply IH; eauto.
Qed.

Lemma index_from_snd {A} : forall (l : list A) i x, In x (index_from i l) -> In (snd x) l.
Proof.
  induction l as [|a l IH]; intros i x H; simpl in *; [destruct H|].
  destruct H as [<-|H]; [left; reflexivity|right; eapply IH; eauto].
Qed.

Lemma index_from_nodup {A} : forall (l : list A) i, NoDup (index_from i l).
Proof.
  induction l as [|a l IH]; intros i; simpl; [constructor|].
  constructor; [|apply IH]. intros H. apply index_from_fst in H. simpl in H. lia.
Qed.

Lemma nth_opt_index_from {A} : forall (l : list A) i x, In x (index_from i l) ->
  nth_opt l (fst x - i) = Some (snd x).
Proof.
  induction l as [|a l IH]; intros i x H; simpl in *; [destruct H|].
  destruct H as [<-|H]; simpl.
  - rewrite N.sub_diag. reflexivity.
  - pose proof (index_from_fst _ _ _ H) as B. apply IH in H.
    destruct (fst x - i =? 0) eqn:E; [apply N.eqb_eq in E; lia|].
    replace (fst x - i - 1) with (fst x - (i + 1)) by lia. exact H.
Qed.

(** * Sorting the arguments *)

Section SortArgs.
Variable V : Type.
Variable vcmp : V -> V -> comparison.
Variable fparse : bytes -> option V.
Variable names : list bytes.

Definition in_names (s : bytes) : Prop := In s names.
Definition D (x : N * bytes) : Prop := In x (indexed names).

Hypothesis OK : oracle_ok_on V vcmp fparse in_names.

Notation arg_cmp := (arg_cmp V vcmp fparse).

Lemma D_PD : forall x, D x -> PD in_names x.
Proof. intros x H. unfold PD, in_names. eapply index_from_snd. exact H. Qed.

Lemma tpo_arg_cmp_D : forall attr, tpo_on D (arg_cmp attr).
Proof.
  intros attr. apply (tpo_weaken D (PD in_names)); [exact D_PD|].
  apply tpo_arg_cmp. exact OK.
Qed.

Lemma arg_cmp_strict : forall attr x y, D x -> D y -> (arg_cmp attr x y = Eq <-> x = y).
Proof.
  intros attr x y Dx Dy. split.
  - intros H. apply arg_cmp_eq_pos in H. eapply index_from_inj; eauto.
  - intros <-. apply (tpo_refl D _ (tpo_arg_cmp_D attr)). exact Dx.
Qed.

Lemma tpo_rev_arg_cmp_D : forall attr b, tpo_on D (revc b (arg_cmp attr)).
Proof. intros. apply tpo_rev. apply tpo_arg_cmp_D. Qed.

Lemma rev_arg_cmp_strict : forall attr b x y, D x -> D y ->
  revc b (arg_cmp attr) x y = Eq -> x = y.
Proof.
  intros attr b x y Dx Dy H. apply (arg_cmp_strict attr x y Dx Dy).
  unfold revc, apply_reverse in H. destruct b; [|exact H].
  destruct (arg_cmp attr x y); simpl in H; congruence.
Qed.

Lemma Forall_D_indexed : Forall D (indexed names).
Proof. apply Forall_forall. intros x H. exact H. Qed.

(** The sort never reaches std's "not a total order" panic, and returns the
    insertion-sorted list. *)
Lemma sort_args_ok : forall attr b,
  sort_args V vcmp fparse attr b names =
  Ok (map fst (isort (revc b (arg_cmp attr)) (indexed names))).
Proof.
  intros attr b. unfold sort_args.
  rewrite (sort_by_ok D _ (tpo_rev_arg_cmp_D attr b) _ Forall_D_indexed). reflexivity.
Qed.

(** Whatever algorithm [sort_by] uses: any sorted permutation of the indexed
    arguments is this one. *)
Lemma sort_args_unique : forall attr b l,
  Permutation (indexed names) l -> ssorted (revc b (arg_cmp attr)) l ->
  l = isort (revc b (arg_cmp attr)) (indexed names).
Proof.
  intros attr b l HP HS. symmetry.
  apply (sorted_perm_unique D _ (tpo_rev_arg_cmp_D attr b) (rev_arg_cmp_strict attr b)).
  - apply (Forall_perm _ (indexed names)); [apply isort_perm|apply Forall_D_indexed].
  - eapply perm_trans; [apply Permutation_sym, isort_perm|exact HP].
  - apply (isort_sorted D _ (tpo_rev_arg_cmp_D attr b)). apply Forall_D_indexed.
  - exact HS.
Qed.

(** [--sortr] is exactly the reverse of [--sort]. *)
Lemma sort_args_reverse : forall attr,
  isort (revc true (arg_cmp attr)) (indexed names) =
  rev (isort (revc false (arg_cmp attr)) (indexed names)).
Proof.
  intros attr. symmetry. apply sort_args_unique.
  - eapply perm_trans; [apply isort_perm|apply Permutation_rev].
  - apply (ssorted_rev D _ (tpo_arg_cmp_D attr)).
    + apply (Forall_perm _ (indexed names)); [apply isort_perm|apply Forall_D_indexed].
    + apply (isort_sorted D _ (tpo_arg_cmp_D attr)). apply Forall_D_indexed.
Qed.

End SortArgs.

(** * The exact decimal oracle satisfies the hypotheses, for all names *)

Lemma tpo_fval_cmp : tpo_on all fval_cmp.
Proof.
  split; [|split].
  - intros [|p|] [|q|] _ _; simpl; try reflexivity. symmetry. apply Qcompare_antisym.
  - intros [|p|] [|q|] [|r|] _ _ _; simpl; try discriminate; try reflexivity.
    rewrite <- !Qlt_alt. apply Qlt_trans.
  - intros [|p|] [|q|] [|r|] _ _ _; simpl; try discriminate; try reflexivity.
    intros H. apply Qeq_alt in H. rewrite H. reflexivity.
Qed.

Lemma span_digits_all : forall d, all_digits d = true -> span_digits d = (d, []).
Proof.
  induction d as [|c r IH]; intros H; simpl; [reflexivity|].
  simpl in H. apply Bool.andb_true_iff in H. destruct H as [Hc Hr].
  rewrite Hc, (IH Hr). reflexivity.
Qed.

Lemma parse_number_digits : forall d, int_digits_ok d = true ->
  parse_number d = Some (digits_val d, 0%Z).
Proof.
  intros d H. unfold int_digits_ok in H. apply Bool.andb_true_iff in H. destruct H as [Hn Hd].
  unfold parse_number. rewrite (span_digits_all d Hd).
  destruct d as [|c r]; [discriminate|]. simpl is_nil. simpl andb. cbv iota.
  rewrite app_nil_r. reflexivity.
Qed.

Lemma dec_q_int : forall neg m,
  dec_q neg m 0 = Qmake ((if neg then - Z.of_N m else Z.of_N m) * 1)%Z 1.
Proof. intros. reflexivity. Qed.

(** A name that parses as [u128] or [i128] with value [z] parses, in the exact
    oracle, as the rational [z]. *)
Lemma dec_parse_int : forall s z, int_val s = Some z ->
  dec_parse s = Some (FFin (Qmake (z * 1) 1)).
Proof.
  intros s z H. unfold int_val in H.
  destruct (parse_u128 s) as [v|] eqn:U.
  - injection H as <-. apply parse_u128_shape in U.
    destruct U as (c & r & -> & Hc & Hd & -> & _).
    unfold dec_parse.
    assert (E45 : (c =? 45) = false) by (apply N.eqb_neq; exact Hc).
    rewrite E45, Bool.orb_false_r.
    destruct (c =? 43) eqn:E43.
    + pose proof Hd as Hd'. unfold int_digits_ok in Hd'. apply Bool.andb_true_iff in Hd'.
      destruct Hd' as [Hn _]. apply Bool.negb_true_iff in Hn. rewrite Hn.
      rewrite (parse_number_digits _ Hd). rewrite dec_q_int. reflexivity.
    + simpl is_nil. cbv iota. rewrite (parse_number_digits _ Hd). rewrite dec_q_int. reflexivity.
  - apply parse_i128_shape in H. destruct H as (c & r & -> & Hd & ->).
    unfold dec_parse.
    pose proof Hd as Hd'. unfold int_digits_ok in Hd'. apply Bool.andb_true_iff in Hd'.
    destruct Hd' as [Hn _]. apply Bool.negb_true_iff in Hn. rewrite Hn.
    rewrite (parse_number_digits _ Hd). rewrite dec_q_int. reflexivity.
Qed.

Lemma oracle_dec_ok : forall P, oracle_ok_on fval fval_cmp dec_parse P.
Proof.
  intros P. split; [exact tpo_fval_cmp|split].
  - intros s _ H. destruct (int_val s) as [z|] eqn:E; [|congruence].
    rewrite (dec_parse_int s z E). discriminate.
  - intros a b x y va vb _ _ Ia Ib Fa Fb.
    rewrite (dec_parse_int a x Ia) in Fa. rewrite (dec_parse_int b y Ib) in Fb.
    injection Fa as <-. injection Fb as <-. simpl. unfold Qcompare. simpl.
    rewrite !Z.mul_1_r. reflexivity.
Qed.

(** * The hypothesis on the oracle is needed: a rounding oracle breaks the order

    An oracle that, like [f64], maps 2^53, 2^53+1 and "9007199254740992.0" to
    the same value satisfies everything except exactness on integers, and the
    comparator is then not a preorder on these three names: the two integers
    are ordered exactly, but both are [Equal] to the decimal. *)
Definition n_2p53 : bytes := [57;48;48;55;49;57;57;50;53;52;55;52;48;57;57;50].
Definition n_2p53_1 : bytes := [57;48;48;55;49;57;57;50;53;52;55;52;48;57;57;51].
Definition n_2p53_dot0 : bytes := n_2p53 ++ [46; 48].

Definition rounding_oracle (s : bytes) : option Z :=
  if bytes_eqb s n_2p53 || bytes_eqb s n_2p53_1 || bytes_eqb s n_2p53_dot0
  then Some (2 ^ 53)%Z else None.

Lemma rounding_oracle_breaks_preorder :
  name_cmp Z Z.compare rounding_oracle n_2p53 n_2p53_1 = Lt /\
  name_cmp Z Z.compare rounding_oracle n_2p53 n_2p53_dot0 = Eq /\
  name_cmp Z Z.compare rounding_oracle n_2p53_1 n_2p53_dot0 = Eq.
Proof. vm_compute. repeat split. Qed.

(** * Statements in the shape used by Properties/C16.v *)

Lemma argcmp_strict_total : forall V vcmp fparse names attr,
  oracle_ok_on V vcmp fparse (in_names names) ->
  let c := arg_cmp V vcmp fparse attr in
  let D := D names in
  (forall x y, D x -> D y -> c y x = CompOpp (c x y)) /\
  (forall x y z, D x -> D y -> D z -> c x y = Lt -> c y z = Lt -> c x z = Lt) /\
  (forall x y z, D x -> D y -> D z -> c x y = Eq -> c x z = c y z) /\
  (forall x y, D x -> D y -> (c x y = Eq <-> x = y)).
Proof.
  intros V vcmp fparse names attr OK. split; [|split; [|split]].
  - exact (proj1 (tpo_arg_cmp_D V vcmp fparse names OK attr)).
  - exact (proj1 (proj2 (tpo_arg_cmp_D V vcmp fparse names OK attr))).
  - exact (proj2 (proj2 (tpo_arg_cmp_D V vcmp fparse names OK attr))).
  - exact (arg_cmp_strict V vcmp fparse names OK attr).
Qed.

Lemma argcmp_numeric : forall V vcmp fparse (P : bytes -> Prop),
  oracle_ok_on V vcmp fparse P ->
  forall a b, P a -> P b ->
  (forall x y, fparse a = Some x -> fparse b = Some y ->
     name_cmp V vcmp fparse a b = vcmp x y) /\
  (forall x, fparse a = Some x -> fparse b = None ->
     name_cmp V vcmp fparse a b = Lt /\ name_cmp V vcmp fparse b a = Gt) /\
  (fparse a = None -> fparse b = None ->
     name_cmp V vcmp fparse a b = natural_cmp a b).
Proof.
  intros V vcmp fparse P OK a b Pa Pb. split; [|split].
  - intros x y. exact (name_cmp_numeric V vcmp fparse P OK a b x y Pa Pb).
  - intros x. exact (name_cmp_number_first V vcmp fparse P OK a b x Pa Pb).
  - exact (name_cmp_natural V vcmp fparse P OK a b Pa Pb).
Qed.

Lemma sort_perm_unique : forall V vcmp fparse names attr rev,
  oracle_ok_on V vcmp fparse (in_names names) ->
  let c := revc rev (arg_cmp V vcmp fparse attr) in
  sort_args V vcmp fparse attr rev names = Ok (map fst (isort c (indexed names))) /\
  Permutation (indexed names) (isort c (indexed names)) /\
  ssorted c (isort c (indexed names)) /\
  (forall l, Permutation (indexed names) l -> ssorted c l -> l = isort c (indexed names)).
Proof.
  intros V vcmp fparse names attr rev OK. split; [|split; [|split]].
  - exact (sort_args_ok V vcmp fparse names OK attr rev).
  - apply isort_perm.
  - apply (isort_sorted (D names) _ (tpo_rev_arg_cmp_D V vcmp fparse names OK attr rev)).
    apply Forall_D_indexed.
  - exact (sort_args_unique V vcmp fparse names OK attr rev).
Qed.

Lemma tie_breakers_table :
  with_tie_breakers SKind = [SKind; SName; SLocation] /\
  with_tie_breakers SName = [SName; SLocation; SKind] /\
  with_tie_breakers SLocation = [SLocation; SKind; SName].
Proof. repeat split; reflexivity. Qed.
