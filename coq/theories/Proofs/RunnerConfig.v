(** Proofs about Model/RunnerConfig.v: per-field resolution of the runner's
    scalar settings and the filter-set glue. *)
From Coq Require Import Permutation.
From DivanV Require Import Base.Res Model.SplitVec Model.Filter Model.Options Model.RunnerConfig
  Proofs.SplitVec Proofs.Filter Proofs.Options.

(** * Builder calls: the last call that sets a field decides it. *)
Section FieldOfCalls.
  Context {A : Type}.
  Variable g : config -> A.
  Variable f : builder_call -> option A.
  Hypothesis Hstep : forall c b, g (apply_call c b) = match f b with Some x => x | None => g c end.

  Lemma last_set_snoc (l : list builder_call) (b : builder_call) :
    last_set f (l ++ [b]) = opt_or (f b) (last_set f l).
  Proof.
    unfold last_set. rewrite map_app, rev_app_distr. cbn [map rev app first_some].
    destruct (f b); reflexivity.
  Qed.

  Lemma field_of_calls (calls : list builder_call) : forall c,
    g (apply_calls c calls) = match last_set f calls with Some x => x | None => g c end.
  Proof.
    induction calls as [|b l IH] using rev_ind; intros c.
    - reflexivity.
    - unfold apply_calls in *. rewrite fold_left_app. cbn [fold_left].
      rewrite Hstep, last_set_snoc. destruct (f b); [reflexivity|]. cbn [opt_or]. apply IH.
  Qed.
End FieldOfCalls.

Lemma color_step c b : cfg_color (apply_call c b) = match call_color b with Some x => x | None => cfg_color c end.
Proof. destruct b; reflexivity. Qed.
Lemma bytes_step c b : cfg_bytes_binary (apply_call c b) = match call_bytes b with Some x => x | None => cfg_bytes_binary c end.
Proof. destruct b; reflexivity. Qed.
Lemma ignored_step c b : cfg_ignored (apply_call c b) = match call_ignored b with Some x => x | None => cfg_ignored c end.
Proof. destruct b; reflexivity. Qed.

Definition never {A : Type} (_ : builder_call) : option A := None.
Lemma action_step c b : cfg_action (apply_call c b) = match @never action b with Some x => x | None => cfg_action c end.
Proof. destruct b; reflexivity. Qed.
Lemma timer_step c b : cfg_timer (apply_call c b) = match @never timer_kind b with Some x => x | None => cfg_timer c end.
Proof. destruct b; reflexivity. Qed.
Lemma sort_step c b : cfg_sort (apply_call c b) = match @never sorting b with Some x => x | None => cfg_sort c end.
Proof. destruct b; reflexivity. Qed.
Lemma reverse_step c b : cfg_reverse (apply_call c b) = match @never bool b with Some x => x | None => cfg_reverse c end.
Proof. destruct b; reflexivity. Qed.

Lemma last_set_never {A : Type} (calls : list builder_call) : last_set (@never A) calls = None.
Proof.
  induction calls as [|b l IH] using rev_ind; [reflexivity|].
  rewrite last_set_snoc. exact IH.
Qed.

Lemma untouched_by_calls {A : Type} (g : config -> A)
  (H : forall c b, g (apply_call c b) = match @never A b with Some x => x | None => g c end)
  (c : config) (calls : list builder_call) : g (apply_calls c calls) = g c.
Proof. rewrite (field_of_calls g never H). rewrite last_set_never. reflexivity. Qed.

(** A call leaves alone every field it is not about. *)
Lemma call_independent (c : config) (b : builder_call) :
  cfg_action (apply_call c b) = cfg_action c
  /\ cfg_timer (apply_call c b) = cfg_timer c
  /\ cfg_sort (apply_call c b) = cfg_sort c
  /\ cfg_reverse (apply_call c b) = cfg_reverse c
  /\ (call_color b = None -> cfg_color (apply_call c b) = cfg_color c)
  /\ (call_bytes b = None -> cfg_bytes_binary (apply_call c b) = cfg_bytes_binary c)
  /\ (call_ignored b = None -> cfg_ignored (apply_call c b) = cfg_ignored c).
Proof. destruct b; cbn; repeat split; intros; try reflexivity; discriminate. Qed.

(** * The whole chain *)
Lemma resolve_rejects (before after : list builder_call) (a : cli) :
  runner_config_resolve before a after = None <-> clap_accepts a = false.
Proof.
  unfold runner_config_resolve, config_with_args.
  destruct (clap_accepts a); split; intros H; try discriminate; reflexivity.
Qed.

(** Per-field resolution (the process is not refused by clap). *)
Lemma resolve_fields (before after : list builder_call) (a : cli) (r : config) :
  runner_config_resolve before a after = Some r ->
  cfg_action r = spec_action a
  /\ cfg_timer r = pick [a_timer a; e_timer a] TOs
  /\ cfg_sort r = pick [val_sortr a; val_sort a] SKind
  /\ cfg_reverse r = match val_sortr a, val_sort a with Some _, _ => true | None, _ => false end
  /\ cfg_color r = pick [last_set call_color after; a_color a; last_set call_color before] CAuto
  /\ cfg_bytes_binary r =
     pick [last_set call_bytes after; a_bytes_binary a; e_bytes_binary a; last_set call_bytes before] false
  /\ cfg_ignored r = pick [last_set call_ignored after; args_ignored a; last_set call_ignored before] RunNo.
Proof.
  unfold runner_config_resolve, config_with_args.
  destruct (clap_accepts a); [|discriminate].
  intros H. injection H as <-.
  set (c0 := apply_calls config_default before).
  set (c1 := config_from_matches c0 a).
  assert (H0a : cfg_timer c0 = TOs) by (unfold c0; rewrite (untouched_by_calls cfg_timer timer_step); reflexivity).
  assert (H0s : cfg_sort c0 = SKind) by (unfold c0; rewrite (untouched_by_calls cfg_sort sort_step); reflexivity).
  assert (H0r : cfg_reverse c0 = false) by (unfold c0; rewrite (untouched_by_calls cfg_reverse reverse_step); reflexivity).
  assert (H0c : cfg_color c0 = match last_set call_color before with Some x => x | None => CAuto end)
    by (unfold c0; rewrite (field_of_calls cfg_color call_color color_step); reflexivity).
  assert (H0b : cfg_bytes_binary c0 = match last_set call_bytes before with Some x => x | None => false end)
    by (unfold c0; rewrite (field_of_calls cfg_bytes_binary call_bytes bytes_step); reflexivity).
  assert (H0i : cfg_ignored c0 = match last_set call_ignored before with Some x => x | None => RunNo end)
    by (unfold c0; rewrite (field_of_calls cfg_ignored call_ignored ignored_step); reflexivity).
  split.
  { rewrite (untouched_by_calls cfg_action action_step). unfold c1, config_from_matches, spec_action. cbn [cfg_action].
    destruct (a_list a); [|reflexivity]. destruct (a_format_terse a) as [[|]|]; reflexivity. }
  split.
  { rewrite (untouched_by_calls cfg_timer timer_step). unfold c1, config_from_matches, pick. cbn [cfg_timer first_some].
    rewrite H0a. destruct (a_timer a); [reflexivity|]. cbn [opt_or]. destruct (e_timer a); reflexivity. }
  split.
  { rewrite (untouched_by_calls cfg_sort sort_step). unfold c1, config_from_matches, pick. cbn [cfg_sort first_some].
    rewrite H0s. destruct (val_sortr a); [reflexivity|]. destruct (val_sort a); reflexivity. }
  split.
  { rewrite (untouched_by_calls cfg_reverse reverse_step). unfold c1, config_from_matches. cbn [cfg_reverse].
    rewrite H0r. destruct (val_sortr a); [reflexivity|]. destruct (val_sort a); reflexivity. }
  split.
  { rewrite (field_of_calls cfg_color call_color color_step). unfold c1, config_from_matches, pick. cbn [cfg_color first_some].
    rewrite H0c. destruct (last_set call_color after); [reflexivity|]. destruct (a_color a); [reflexivity|].
    destruct (last_set call_color before); reflexivity. }
  split.
  { rewrite (field_of_calls cfg_bytes_binary call_bytes bytes_step). unfold c1, config_from_matches, pick.
    cbn [cfg_bytes_binary first_some]. rewrite H0b.
    destruct (last_set call_bytes after); [reflexivity|]. destruct (a_bytes_binary a); [reflexivity|]. cbn [opt_or].
    destruct (e_bytes_binary a); [reflexivity|]. destruct (last_set call_bytes before); reflexivity. }
  { rewrite (field_of_calls cfg_ignored call_ignored ignored_step). unfold c1, config_from_matches, pick, args_ignored.
    cbn [cfg_ignored first_some]. rewrite H0i.
    destruct (last_set call_ignored after); [reflexivity|].
    destruct (a_ignored a); [reflexivity|]. destruct (a_include_ignored a); [reflexivity|].
    destruct (last_set call_ignored before); reflexivity. }
Qed.

Lemma config_spec_correct (before after : list builder_call) (a : cli) :
  runner_config_resolve before a after = config_spec before a after.
Proof.
  destruct (runner_config_resolve before a after) as [r|] eqn:E.
  - destruct (resolve_fields before after a r E) as (H1 & H2 & H3 & H4 & H5 & H6 & H7).
    assert (Hacc : clap_accepts a = true).
    { destruct (clap_accepts a) eqn:Ha; [reflexivity|]. apply (resolve_rejects before after a) in Ha. rewrite Ha in E. discriminate. }
    unfold config_spec. rewrite Hacc. rewrite <- H1, <- H2, <- H3, <- H4, <- H5, <- H6, <- H7.
    destruct r. reflexivity.
  - apply (resolve_rejects before after a) in E. unfold config_spec. rewrite E. reflexivity.
Qed.

(** Sort: on the command line the later of [--sort] / [--sortr] wins, a flag
    beats its own variable, and a value for both is refused. *)
Lemma sort_flags_last_wins (a : cli) (s r : sorting) :
  a_sort a = Some s -> a_sortr a = Some r ->
  cli_sort a = (if a_sortr_last a then None else Some s) /\ cli_sortr a = (if a_sortr_last a then Some r else None).
Proof. intros Hs Hr. unfold cli_sort, cli_sortr. rewrite Hs, Hr. split; reflexivity. Qed.

Lemma sort_conflict_refused (a : cli) (s r : sorting) :
  val_sort a = Some s -> val_sortr a = Some r -> clap_accepts a = false.
Proof.
  intros Hs Hr. unfold clap_accepts. rewrite Hs, Hr. cbn [negb]. rewrite !andb_false_r. reflexivity.
Qed.

(** Non-vacuity. *)
Example resolve_example :
  let a := {| a_bench := true; a_test := false; a_list := false; a_format_terse := None; a_nextest := false;
              a_sort := Some SName; a_sortr := Some SLocation; a_sortr_last := true; e_sort := None; e_sortr := None;
              a_timer := None; e_timer := Some TTsc; a_color := Some CNever;
              a_bytes_binary := None; e_bytes_binary := Some true; a_ignored := false; a_include_ignored := true |} in
  runner_config_resolve [BColor CAlways; BRunOnlyIgnored; BBytesFormat false] a [BColor CAuto]
  = Some {| cfg_action := ABench; cfg_timer := TTsc; cfg_sort := SLocation; cfg_reverse := true; cfg_color := CAuto;
            cfg_bytes_binary := true; cfg_ignored := RunYes |}.
Proof. reflexivity. Qed.

(** * Filter-set glue *)
Section WithRegexOracle.
  Variable matches : str -> str -> bool.

  Lemma existsb_map_pair {A : Type} (p : pfilter * bool -> bool) (g : A -> pfilter * bool) (l : list A) :
    existsb p (map g l) = existsb (fun x => p (g x)) l.
  Proof. induction l as [|x l IH]; cbn [map existsb]; [reflexivity|]. rewrite IH. reflexivity. Qed.

  Lemma runner_filter_glue (sb : list pfilter) (ex : bool) (pos sk : list str) (sa : list pfilter) (p : str) :
    runner_filter_is_match matches sb ex pos sk sa p = Ok (runner_filter_spec matches sb ex pos sk sa p).
  Proof.
    unfold runner_filter_is_match. rewrite is_match_correct. f_equal.
    unfold is_match_spec, runner_filter_spec, any_skip, any_positive, no_positives, runner_filter_ops, cli_ops.
    rewrite !existsb_app, !existsb_map_pair. cbn [fst snd negb andb].
    assert (Hf : forall (A : Type) (l : list A), existsb (fun _ : A => false) l = false).
    { intros A l. induction l; cbn; auto. }
    assert (Ht : forall (l : list str), existsb (fun _ : str => true) l = match l with [] => false | _ => true end).
    { intros l. destruct l; reflexivity. }
    rewrite !Hf, Ht. rewrite !orb_false_r, !orb_false_l.
    replace (existsb (fun x : str => filter_is_match matches (mk_filter ex x) p) pos)
      with (existsb (fun s : str => filter_is_match matches (mk_filter ex s) p) pos) by reflexivity.
    f_equal.
    - f_equal. rewrite orb_assoc. reflexivity.
    - destruct pos; reflexivity.
  Qed.

  (** The order in which the filters were given does not matter. *)
  Lemma filter_order_irrelevant (ops ops' : list (pfilter * bool)) (p : str) :
    Permutation ops ops' -> fs_query matches ops p = fs_query matches ops' p.
  Proof.
    intros H. rewrite !is_match_correct. f_equal. unfold is_match_spec, any_skip, any_positive, no_positives.
    rewrite (existsb_perm _ _ _ H).
    rewrite (existsb_perm (fun o : pfilter * bool => snd o) _ _ H).
    rewrite (existsb_perm (fun o => snd o && filter_is_match matches (fst o) p) _ _ H).
    reflexivity.
  Qed.
End WithRegexOracle.
