(** Soundness of the boolean [picture_okb] and the final forms of the C20
    parser theorems; examples that the hypotheses are satisfiable. *)
From DivanV Require Import Base.Res Model.Painter Model.DriverPaint Model.Parse Model.PaintOk
  Proofs.Painter Proofs.PaintDriver Proofs.PaintOrder Proofs.PaintParse Proofs.PaintParse2.
From Coq Require Import Lia.

Lemma neqb : forall a b, negb (N.eqb a b) = true -> a <> b.
Proof. intros a b H E. subst. rewrite N.eqb_refl in H. discriminate. Qed.

Lemma plainb_sound : forall s, forallb plain_charb s = true -> plain s.
Proof.
  intros s H c Hc. rewrite forallb_forall in H. specialize (H c Hc). unfold plain_charb in H.
  repeat (apply andb_prop in H; destruct H as [H ?]). repeat split; apply neqb; assumption.
Qed.

Lemma tameb_sound : forall s, forallb tame_charb s = true -> tame s.
Proof.
  intros s H c Hc. rewrite forallb_forall in H. specialize (H c Hc). unfold tame_charb in H.
  repeat (apply andb_prop in H; destruct H as [H ?]). repeat split; apply neqb; assumption.
Qed.

Lemma nobarb_sound : forall s, nobarb s = true -> nobar s.
Proof.
  intros s H Hin. unfold nobarb in H. rewrite forallb_forall in H. specialize (H _ Hin).
  rewrite N.eqb_refl in H. discriminate.
Qed.

Lemma name_tail_okb_eq : forall s, name_tail_okb s = name_tail_ok s.
Proof.
  induction s as [|a r IH]; [reflexivity|]. destruct r as [|b r']; [reflexivity|].
  change (name_tail_okb (a :: b :: r')) with (negb (N.eqb a sp && N.eqb b sp) && name_tail_okb (b :: r')).
  change (name_tail_ok (a :: b :: r')) with (negb (N.eqb a sp && N.eqb b sp) && name_tail_ok (b :: r')).
  rewrite IH. reflexivity.
Qed.

Lemma forallb_Forall : forall A (f : A -> bool) (P : A -> Prop) l,
  (forall x, f x = true -> P x) -> forallb f l = true -> Forall P l.
Proof.
  intros A f P l H Hl. rewrite Forall_forall. intros x Hx. apply H.
  rewrite forallb_forall in Hl. apply Hl. exact Hx.
Qed.

Lemma name_okb_sound : forall n, name_okb n = true -> name_ok n.
Proof.
  intros n H. unfold name_okb in H. apply andb_prop in H. destruct H as [H1 H2].
  split; [apply plainb_sound; exact H1 | rewrite <- name_tail_okb_eq; exact H2].
Qed.

Lemma cells_okb_sound : forall c, cells_okb c = true -> cells_ok c.
Proof.
  intros [row|] H; [|exact I]. cbn in *.
  apply andb_prop in H. destruct H as [H H3]. apply andb_prop in H. destruct H as [H1 H2].
  split; [eapply forallb_Forall; [apply nobarb_sound | exact H1]|].
  split; [eapply forallb_Forall; [apply tameb_sound | exact H2]|].
  unfold row_visibleb in H3. apply orb_prop in H3. destruct H3 as [H3|H3].
  - left. apply PeanoNat.Nat.leb_le. exact H3.
  - right. destruct row as [|c [|? ?]]; try discriminate. exists c. split; [reflexivity|].
    destruct (trim c); [discriminate | congruence].
Qed.

Lemma spec_okb_sound : forall l, spec_okb l = true -> spec_ok l.
Proof.
  intros [n c | fl last n c | fl last row |] H; cbn in *.
  - apply andb_prop in H. destruct H as [H H3]. apply andb_prop in H. destruct H as [H1 H2].
    split; [apply name_okb_sound; exact H1|]. split; [apply cells_okb_sound; exact H2|].
    destruct n as [|a r]; [discriminate|]. exists a, r. split; [reflexivity | apply neqb; exact H3].
  - apply andb_prop in H. destruct H as [H1 H2].
    split; [apply name_okb_sound; exact H1 | apply cells_okb_sound; exact H2].
  - apply andb_prop in H. destruct H as [H1 H2].
    split; [eapply forallb_Forall; [apply nobarb_sound | exact H1] |
            eapply forallb_Forall; [apply tameb_sound | exact H2]].
  - exact I.
Qed.

Lemma picture_okb_sound : forall a t, picture_okb a t = true -> Forall spec_ok (layout (picture a t)).
Proof. intros a t H. eapply forallb_Forall; [apply spec_okb_sound | exact H]. Qed.

(** Final form of the parse-back theorem. *)
Theorem parse_render_b : forall a t,
  forallb is_group t = true -> Forall wf_node t -> picture_okb a t = true ->
  exists p out, paint a t = Ok (p, out) /\ parse out = Some (skeleton a t).
Proof. intros a t Hg Hw Hok. apply parse_render; auto. apply picture_okb_sound; exact Hok. Qed.

Theorem rows_belong : forall fl last row line,
  forallb nobarb row = true -> forallb (forallb tame_charb) row = true ->
  line_ok (LRow fl last row) line ->
  classify line = TRow line /\
  exists t', strip_prefix (row_prefix fl last) line = Some t' /\
             map trim (split_on c_bar t') = map trim row.
Proof.
  intros fl last row line H1 H2 Hl. apply row_line_belongs; auto.
  - eapply forallb_Forall; [apply nobarb_sound | exact H1].
  - eapply forallb_Forall; [apply tameb_sound | exact H2].
Qed.

(** ** The hypotheses are satisfiable by a non-trivial tree *)

Local Open Scope N_scope.
Definition ex_row (x : N) : list str := [[49; x]; [50; 32; 110; 115]; [51]; [52]; []; []].
Definition ex_cells : stats_cells :=
  mkCells [[49; 32; 110; 115]; [50; 32; 110; 115]; [49; 46; 53; 32; 110; 115]; [49; 32; 110; 115]; [50]; [50]]
          [ex_row 66; six_empty; six_empty; ex_row 105]
          (Some ([[32; 32; 49]; [49]; [49]; [49]; []; []], [[32; 32; 56; 32; 66]; [56; 32; 66]; [56; 32; 66]; [56; 32; 66]; []; []]))
          [([97; 108; 108; 111; 99; 58], [[32; 32; 49]; [49]; [49]; [49]; []; []], ex_row 66)].
Definition ex_out (i j : nat) : run := mkRun (Nat.eqb j 0 || Nat.eqb i 1) ex_cells.
Definition ex_tree : list node :=
  [Group [99; 114; 97; 116; 101] None
     [Bench 1 [97; 32; 98] None false None [] ex_out;
      Bench 2 [105; 103; 110] (Some None) true None [] ex_out;
      Group [26085; 26412] (Some (Some 1000))
        [Bench 3 [119] (Some (Some 5)) false (Some [[49]; []; [50; 50]]) [1; 2; 16] ex_out;
         Bench 4 [122] None false None [2; 4] ex_out];
      Bench 5 [108; 97; 115; 116] None false None [] ex_out];
   Group [111; 116; 104; 101; 114] None [Bench 6 [111] None false None [] ex_out]].

Example ex_top_groups : forallb is_group ex_tree = true.
Proof. reflexivity. Qed.

Example ex_wf : Forall wf_node ex_tree.
Proof.
  assert (Hc : wf_cells ex_cells) by (split; [reflexivity | repeat constructor]).
  repeat (constructor; try (intros; exact Hc)).
Qed.

Example ex_picture_ok :
  picture_okb ABench ex_tree = true /\ picture_okb ATest ex_tree = true /\ picture_okb AList ex_tree = true.
Proof. repeat split; vm_compute; reflexivity. Qed.

Example ex_parse_render :
  match paint ABench ex_tree with
  | Ok (_, out) => parse out = Some (skeleton ABench ex_tree) /\ paint_sb ABench ex_tree out = true
  | Panic _ => False
  end.
Proof. vm_compute. split; reflexivity. Qed.

Example ex_row_hyps : forallb nobarb (ex_row 66) = true /\ forallb (forallb tame_charb) (ex_row 66) = true.
Proof. split; reflexivity. Qed.

(** ** The boolean specification holds of the model *)

Lemma str_eqb_refl : forall s, str_eqb s s = true.
Proof. induction s as [|c r IH]; [reflexivity|]. cbn. rewrite N.eqb_refl, IH. reflexivity. Qed.

Lemma list_eqb_refl : forall A (eqb : A -> A -> bool) l,
  (forall x, In x l -> eqb x x = true) -> list_eqb eqb l l = true.
Proof.
  induction l as [|x r IH]; intros H; [reflexivity|]. cbn [list_eqb].
  rewrite (H x (or_introl eq_refl)), IH; [reflexivity | intros y Hy; apply H; right; exact Hy].
Qed.

Lemma sk_ind2 (P : sk -> Prop) :
  (forall n c r k, Forall P k -> P (Sk n c r k)) -> forall s, P s.
Proof.
  intros H. fix IH 1. intros [n c r k]. apply H.
  induction k as [|x k' IHk]; constructor; [apply IH | exact IHk].
Qed.

Lemma sk_eqb_refl : forall s, sk_eqb s s = true.
Proof.
  induction s as [n c r k IH] using sk_ind2. cbn [sk_eqb].
  rewrite str_eqb_refl.
  rewrite (list_eqb_refl _ str_eqb c) by (intros; apply str_eqb_refl).
  rewrite (list_eqb_refl _ (list_eqb str_eqb) r)
    by (intros; apply list_eqb_refl; intros; apply str_eqb_refl).
  cbn [andb]. induction k as [|x k' IHk]; [reflexivity|].
  inversion IH; subst. rewrite H1. cbn [andb]. apply IHk. assumption.
Qed.

Theorem model_sb : forall a t,
  forallb is_group t = true -> Forall wf_node t -> picture_okb a t = true ->
  exists p out, paint a t = Ok (p, out) /\ paint_sb a t out = true.
Proof.
  intros a t Hg Hw Hok. destruct (parse_render_b a t Hg Hw Hok) as (p & out & E & Hp).
  exists p, out. split; [exact E|]. unfold paint_sb. destruct t as [|n r].
  - unfold paint, paint_ops in E. cbn in E. inversion E; subst. reflexivity.
  - rewrite Hp. apply list_eqb_refl. intros x _. apply sk_eqb_refl.
Qed.
