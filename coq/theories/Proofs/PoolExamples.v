(** Proofs about the pool model, part 6: deadlock freedom in terms of the
    executable [enabled_labels], and a concrete execution showing that the
    hypotheses of the C06/C07 theorems are satisfiable by a non-trivial run
    (two broadcasts on one pool, a panicking call, a wake-up by token, a
    spurious wake-up, worker reuse, pool drop). *)

From DivanV Require Import Base.Res Generated.Consts Model.Pool Proofs.Pool Proofs.PoolLive.
From Coq Require Import Arith Lia List Bool.
Import ListNotations.
Import PoolM.

Arguments Nat.sub : simpl never.
Arguments Nat.eqb : simpl never.

Lemma run_reachable c scr s ls s' : reachable c scr s -> run c s ls = Some s' -> reachable c scr s'.
Proof.
  revert s. induction ls as [|l ls IH]; cbn; intros s R H.
  - now inversion H; subst.
  - destruct (step c s l) as [s1|] eqn:E; [|discriminate]. apply (IH s1); [|exact H]. econstructor; eauto.
Qed.

Definition ex_labels : list label :=
  [EBegin 2; ESend 1; ESend 2; EWRun 1 true; EWRun 2 false; ERun0 false; EWClone 1; EWDec 1; ELoad;
   EWClone 2; EWDec 2; EWUnpark 2; EPark; ELoad;
   EBegin 1; ESend 1; ERun0 false; ELoad; ESpurious; ELoad; EWRun 1 false; EWClone 1; EWDec 1; EWUnpark 1; EPark; ELoad;
   EDrop; EWExit 1; EWExit 2].

Example ex_run :
  match run code_cfg (init [2; 1]) ex_labels with
  | Some s => final s && inv_all code_cfg s
              && once_per_index s 1 2 && published s 1 2 && results_indexed s 1 2
              && once_per_index s 2 1 && published s 2 1 && results_indexed s 2 1
              && slots_eqb (match returned s with r :: _ => r_slots r | [] => [] end) [Some 0; None; Some 2]
              && Nat.eqb (length (ws s)) 2
  | None => false
  end = true.
Proof. vm_compute. reflexivity. Qed.

(** The hypotheses [reachable code_cfg scr s], [In r (returned s)], [final s = true]
    are satisfiable together. *)
Theorem nonvacuous :
  exists s r, reachable code_cfg [2; 1] s /\ final s = true /\ In r (returned s)
              /\ r_b r = 1 /\ r_n r = 2 /\ r_slots r = [Some 0; None; Some 2].
Proof.
  destruct (run code_cfg (init [2; 1]) ex_labels) as [s|] eqn:E; [|vm_compute in E; discriminate].
  assert (R : reachable code_cfg [2; 1] s) by (eapply run_reachable; [constructor|exact E]).
  vm_compute in E. injection E as <-.
  eexists. eexists. split; [exact R|].
  split; [reflexivity|]. split; [left; reflexivity|]. repeat split.
Qed.

(** A stale wake-up token: the caller sees the counter at zero before the last
    worker's [unpark], returns without parking, the token is set afterwards and
    is still pending when the next broadcast waits.  The next [park] returns at
    once, the loop re-checks the counter and parks again; the run completes. *)
Definition ex_stale_prefix : list label :=
  [EBegin 1; ESend 1; ERun0 false; EWRun 1 false; EWClone 1; EWDec 1; ELoad; EWUnpark 1].
Definition ex_stale_rest : list label :=
  [EBegin 1; ESend 1; ERun0 false; ELoad; EPark; ELoad; EWRun 1 true; EWClone 1; EWDec 1; EWUnpark 1; EPark; ELoad;
   EDrop; EWExit 1].

Example ex_stale_token :
  match run code_cfg (init [1; 1]) ex_stale_prefix with
  | Some s1 =>
      token s1 && negb (in_broadcast (cst s1)) && Nat.eqb (length (returned s1)) 1
      && match run code_cfg s1 ex_stale_rest with
         | Some s => final s && inv_all code_cfg s && once_per_index s 2 1 && published s 2 1 && results_indexed s 2 1
         | None => false
         end
  | None => false
  end = true.
Proof. vm_compute. reflexivity. Qed.

(** * Deadlock freedom for the executable label enumeration *)

Lemma in_cand s l :
  match l with
  | EBegin n => exists rest, script s = n :: rest
  | EDrop => script s = []
  | ERun0 p => p = false
  | ELoad | EPark => True
  | ESpurious => False
  | ESend k | EWClone k | EWDec k | EWUnpark k | EWExit k => 1 <= k <= length (ws s)
  | EWRun k p => 1 <= k <= length (ws s) /\ p = false
  end -> In l (candidate_labels s).
Proof.
  unfold candidate_labels.
  assert (K : forall k, 1 <= k <= length (ws s) -> In k (seq 1 (length (ws s)))) by (intros k H; apply in_seq; lia).
  rewrite !in_app_iff.
  destruct l; intro H.
  - destruct H as (rest & ->). left. now left.
  - right. left. apply in_map. auto.
  - subst. right. right. left. now left.
  - right. right. left. right. now left.
  - right. right. left. right. right. now left.
  - contradiction.
  - destruct H as [H ->]. right. right. right. left.
    apply (in_map (fun k => EWRun k false)). auto.
  - right. right. right. right. left. apply in_map. auto.
  - right. right. right. right. right. left. apply in_map. auto.
  - right. right. right. right. right. right. left. apply in_map. auto.
  - rewrite H. left. now left.
  - right. right. right. right. right. right. right. apply in_map. auto.
Qed.

Lemma getw_range s k w : getw s k = Some w -> 1 <= k <= length (ws s).
Proof.
  intro H. destruct (getw_pos _ _ _ H) as (j & -> & Hj). apply nth_error_lt in Hj. lia.
Qed.

Theorem deadlock_free_enabled c scr s :
  good c -> reachable c scr s -> final s = false -> enabled_labels c s <> [].
Proof.
  intros G R F.
  assert (X : exists l, In l (candidate_labels s) /\ enabled c s l = true).
  { destruct (deadlock_free c scr s G R F) as (l & s1 & NS & St).
    (* any enabled non-spurious label is a candidate, up to the panic flag *)
    pose proof (step_inv _ _ _ _ St) as Sp.
    destruct l; cbn in Sp; try contradiction.
    - exists (EBegin n). split; [|unfold enabled; now rewrite St].
      apply in_cand. destruct Sp as (_ & rest & Es & _). eauto.
    - exists (ESend k). split; [|unfold enabled; now rewrite St].
      apply in_cand. destruct Sp as (n & _ & Hg & _). eapply getw_range; eauto.
    - exists (ERun0 false). destruct Sp as (n & Hc & _). split; [now apply in_cand|].
      unfold enabled, step. now rewrite Hc.
    - exists ELoad. split; [now apply in_cand|unfold enabled; now rewrite St].
    - exists EPark. split; [now apply in_cand|unfold enabled; now rewrite St].
    - exists (EWRun k false). destruct Sp as (b & Hg & _). split.
      + apply in_cand. split; auto. eapply getw_range; eauto.
      + unfold enabled, step. rewrite Hg. now destruct (cst s).
    - exists (EWClone k). split; [|unfold enabled; now rewrite St].
      apply in_cand. destruct Sp as (b & Hg & _). eapply getw_range; eauto.
    - exists (EWDec k). split; [|unfold enabled; now rewrite St].
      apply in_cand. destruct Sp as (b & Hg & _). eapply getw_range; eauto.
    - exists (EWUnpark k). split; [|unfold enabled; now rewrite St].
      apply in_cand. destruct Sp as (b & Hg & _). eapply getw_range; eauto.
    - exists EDrop. split; [|unfold enabled; now rewrite St].
      apply in_cand. destruct Sp as (_ & Es & _). exact Es.
    - exists (EWExit k). split; [|unfold enabled; now rewrite St].
      apply in_cand. destruct Sp as (_ & Hg & _). eapply getw_range; eauto. }
  destruct X as (l & Hin & En). intro E.
  assert (Y : In l (enabled_labels c s)) by (apply filter_In; auto).
  rewrite E in Y. contradiction.
Qed.
