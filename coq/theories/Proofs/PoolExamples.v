(** Proofs about the pool model, part 6: concrete executions showing that the
    hypotheses of the C06/C07 theorems are satisfiable by non-trivial runs (two
    broadcasts on one pool, a panicking call, a wake-up by token, a spurious
    wake-up, a stale token, worker reuse, pool drop). *)

From DivanV Require Import Base.Res Generated.Consts Model.Pool Proofs.Pool Proofs.PoolLive.
From Coq Require Import Arith Lia List Bool.
Import ListNotations.
Import PoolM.

Arguments Nat.sub : simpl never.
Arguments Nat.eqb : simpl never.

Lemma run_reachable c scr s ls s' : reachable c scr s -> run c s ls = Some s' -> reachable c scr s'.
Proof.
  revert s. induction ls as [|l ls IH]; cbn; intros s R H.
  - now inversion H; subst.
  - destruct (step c s l) as [s1|] eqn:E; [|discriminate]. apply (IH s1); [|exact H]. econstructor; eauto.
Qed.

(** The configuration of the unchanged source, written out (the examples that
    look at views are computed with it, so that they do not depend on the
    generated constants; [nonvacuous] below is about [code_cfg] itself). *)
Definition ref_cfg : cfg :=
  {| c_load := OAcquire; c_dec := ORelease; c_unpark_old := 1; c_loop := true; c_nonzero := true |}.

Definition ex_labels : list label :=
  [EBegin 2; ESend 1; ESend 2; EWRun 1 true; EWRun 2 false; ERun0 false; EWClone 1; EWDec 1; ELoad;
   EWClone 2; EWDec 2; EWUnpark 2; EPark; ELoad;
   EBegin 1; ESend 1; ERun0 false; ELoad; ESpurious; ELoad; EWRun 1 false; EWClone 1; EWDec 1; EWUnpark 1; EPark; ELoad;
   EDrop; EWExit 1; EWExit 2].

Example ex_run :
  match run ref_cfg (init [2; 1]) ex_labels with
  | Some s => final s && inv_all ref_cfg s
              && once_per_index s 1 2 && published s 1 2 && results_indexed s 1 2
              && once_per_index s 2 1 && published s 2 1 && results_indexed s 2 1
              && slots_eqb (match returned s with r :: _ => r_slots r | [] => [] end) [Some 0; None; Some 2]
              && Nat.eqb (length (ws s)) 2
  | None => false
  end = true.
Proof. vm_compute. reflexivity. Qed.

(** The hypotheses [reachable code_cfg scr s], [In r (returned s)], [final s = true]
    are satisfiable together. *)
Theorem nonvacuous :
  exists s r, reachable code_cfg [2; 1] s /\ final s = true /\ In r (returned s)
              /\ r_b r = 1 /\ r_n r = 2 /\ r_slots r = [Some 0; None; Some 2].
Proof.
  destruct (run code_cfg (init [2; 1]) ex_labels) as [s|] eqn:E; [|vm_compute in E; discriminate].
  assert (R : reachable code_cfg [2; 1] s) by (eapply run_reachable; [constructor|exact E]).
  vm_compute in E. injection E as <-.
  eexists. eexists. split; [exact R|].
  split; [reflexivity|]. split; [left; reflexivity|]. repeat split.
Qed.

(** A stale wake-up token: the caller sees the counter at zero before the last
    worker's [unpark], returns without parking, the token is set afterwards and
    is still pending when the next broadcast waits.  The next [park] returns at
    once, the loop re-checks the counter and parks again; the run completes. *)
Definition ex_stale_prefix : list label :=
  [EBegin 1; ESend 1; ERun0 false; EWRun 1 false; EWClone 1; EWDec 1; ELoad; EWUnpark 1].
Definition ex_stale_rest : list label :=
  [EBegin 1; ESend 1; ERun0 false; ELoad; EPark; ELoad; EWRun 1 true; EWClone 1; EWDec 1; EWUnpark 1; EPark; ELoad;
   EDrop; EWExit 1].

Example ex_stale_token :
  match run ref_cfg (init [1; 1]) ex_stale_prefix with
  | Some s1 =>
      token s1 && negb (in_broadcast (cst s1)) && Nat.eqb (length (returned s1)) 1
      && match run ref_cfg s1 ex_stale_rest with
         | Some s => final s && inv_all ref_cfg s && once_per_index s 2 1 && published s 2 1 && results_indexed s 2 1
         | None => false
         end
  | None => false
  end = true.
Proof. vm_compute. reflexivity. Qed.

(** * The trace monitor on concrete traces

    It accepts the event trace induced by the execution above (panicking
    subset: call (1,1)), ... *)
Example ex_monitor_accepts :
  PoolMon.check [2; 1] [(1, 1)] (PoolMon.trace ref_cfg (init [2; 1]) ex_labels) = []
  /\ PoolMon.violations [(1, 1)] (PoolMon.trace ref_cfg (init [2; 1]) (firstn 9 ex_labels)) = [].
Proof. vm_compute. split; reflexivity. Qed.

(** ... and it is not vacuous: on the trace of a pool that drops the caller's
    caught payload before the wait loop (seeded change C06-b: the caller leaves
    [broadcast] by an escaping panic while worker 1 has not even called the task;
    harness trace [B.1 N.1 S.1 R.1.1.1 Q.1 C.0.0.1 Z.-,- B.1 N.1 C.1.1.x]) it
    reports once-per-index, results, dead access, incomplete and
    "left broadcast with non-zero counter". *)
Example ex_monitor_rejects :
  PoolMon.check [1; 1] [(1, 0)]
    [PoolMon.VBcast 1; PoolMon.VNew 1; PoolMon.VSpawn 1; PoolMon.VRecv 1 1 true; PoolMon.VSent 1;
     PoolMon.VCall 0 0 true; PoolMon.VRet [None; None]; PoolMon.VBcast 1; PoolMon.VNew 1; PoolMon.VDead 1]
  = [PoolMon.F_incomplete; PoolMon.F_dead; PoolMon.F_wake; PoolMon.F_results; PoolMon.F_once].
Proof. vm_compute. reflexivity. Qed.
