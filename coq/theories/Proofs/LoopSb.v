(** Proofs about Model/Loop.v, part 4: the boolean specifications evaluated by
    the violation search hold of the model's own output, for every history
    ([c04_model_sb], [c03_model_sb], [c19_model_sb]). *)

From DivanV Require Import Base.Res Generated.Consts Model.Timestamp Model.Loop Proofs.Loop Proofs.LoopProps.
From Coq Require Import ZifyN ZifyBool ZifyNat Lia.
Local Open Scope N_scope.
Ltac Zify.zify_post_hook ::= Z.div_mod_to_equations.
Arguments N.add : simpl never.
Arguments N.sub : simpl never.
Arguments N.mul : simpl never.
Arguments N.div : simpl never.
Arguments N.modulo : simpl never.
Arguments N.pow : simpl never.
Arguments N.min : simpl never.
Arguments N.max : simpl never.

Lemma continue_after_firstn c init hist k j : (j <= k)%nat ->
  continue_after c init (firstn k hist) j = continue_after c init hist j.
Proof. intros H. unfold continue_after. rewrite firstn_firstn_le by exact H. reflexivity. Qed.

Lemma seen_fields t out s : seen_of_outcome t out = Ok s ->
  o_done s = out_done out /\ o_sizes s = s_sizes (out_state out).
Proof.
  unfold seen_of_outcome. destruct (stat_iter_count (out_state out)); cbn [bind]; [|discriminate].
  intros H. injection H as H; subst s. split; reflexivity.
Qed.

(** Test mode: at most one round, and only if the history has one. *)
Lemma test_rounds c init hist out : c_test c = true ->
  bench_loop c init hist = Ok out -> (rounds_of (out_state out) <= length hist)%nat.
Proof.
  intros Ht. unfold bench_loop. destruct ((c_max c =? 0) || negb (has_samples c)).
  - intros H. injection H as H; subst out. cbn. lia.
  - destruct hist as [|obs rest]; cbn [run]; destruct (loop_cond c (init_state c)).
    + intros H. injection H as H; subst out. cbn. lia.
    + intros H. injection H as H; subst out. cbn. lia.
    + rewrite Ht. destruct obs; [discriminate|]. intros H. injection H as H; subst out.
      cbn. lia.
    + intros H. injection H as H; subst out. cbn. lia.
Qed.

Theorem c04_model_sb c init hist out t s :
  bench_loop c init hist = Ok out -> seen_of_outcome t out = Ok s ->
  c04_sb c init (firstn (rounds_of (out_state out)) hist) s = true.
Proof.
  intros H Hs. destruct (seen_fields t out s Hs) as [Hd Hsz].
  unfold c04_sb. rewrite Hsz, Hd. fold (rounds_of (out_state out)).
  set (k := rounds_of (out_state out)).
  destruct (zero_case c) eqn:Hz.
  - unfold bench_loop in H. unfold zero_case in Hz. rewrite Hz in H. injection H as H; subst out.
    reflexivity.
  - destruct (c_test c) eqn:Ht.
    + pose proof (test_rounds c init hist out Ht H) as Hle. fold k in Hle.
      rewrite (firstn_len_le hist k Hle). rewrite Nat.eqb_refl. reflexivity.
    + assert (Hh : has_samples c = true).
      { unfold zero_case in Hz. destruct (has_samples c); [reflexivity|]. rewrite Bool.orb_true_r in Hz. discriminate. }
      destruct (rounds_least c init hist out Ht Hh H) as [Hk [Hlt Hend]]. fold k in Hk, Hlt, Hend.
      rewrite (firstn_len_le hist k Hk). rewrite Nat.eqb_refl. cbn [andb].
      assert (Hall : forallb (fun j => continue_after c init (firstn k hist) j) (seq 0 k) = true).
      { apply forallb_forall. intros j Hj. apply in_seq in Hj.
        rewrite continue_after_firstn by lia. apply Hlt. lia. }
      rewrite Hall. cbn [andb]. rewrite continue_after_firstn by lia.
      destruct (out_done out).
      * rewrite Hend. reflexivity.
      * destruct Hend as [_ Hc]. exact Hc.
Qed.

(** * C03: the boolean specification holds of the model's output *)

Lemma seen_all t out s : seen_of_outcome t out = Ok s ->
  let st := out_state out in
  o_done s = out_done out /\ o_sizes s = s_sizes st /\ o_calls s = repeat (calls_per_thread st) t /\
  o_final_size s = s_size st /\ o_samples s = st_samples (s_store st) /\
  o_alloc_keys s = map fst (st_allocs (s_store st)) /\ o_counts s = st_counts (s_store st) /\
  o_stat_samples s = stat_sample_count st /\ stat_iter_count st = Ok (o_stat_iters s).
Proof.
  unfold seen_of_outcome. destruct (stat_iter_count (out_state out)) as [it|] eqn:E; cbn [bind]; [|discriminate].
  intros H. injection H as H; subst s. cbn. repeat split; reflexivity.
Qed.

Lemma all_eq_repeat v k : all_eq v (repeat v k) = true.
Proof. induction k as [|k IH]; cbn [repeat all_eq forallb]; [reflexivity|]. rewrite N.eqb_refl. exact IH. Qed.

Lemma uniform_b_p t l : uniform_p t l -> uniform t l = true.
Proof.
  intros H. unfold uniform. apply forallb_forall. intros o Ho. apply Nat.eqb_eq. apply H. exact Ho.
Qed.

Lemma elapsed_after_firstn c init hist k j : (j <= k)%nat ->
  elapsed_after c init (firstn k hist) j = elapsed_after c init hist j.
Proof. intros H. unfold elapsed_after. rewrite firstn_firstn_le by exact H. reflexivity. Qed.

Lemma iter_count_val st v : stat_iter_count st = Ok v ->
  N.of_nat (length (st_samples (s_store st))) < 2 ^ 32 ->
  v = N.of_nat (length (st_samples (s_store st))) * s_size st.
Proof.
  unfold stat_iter_count, checked_mul. intros H Hm.
  assert (E : N.of_nat (length (st_samples (s_store st))) mod 2 ^ 64 = N.of_nat (length (st_samples (s_store st)))).
  { apply N.mod_small. assert (2 ^ 32 < 2 ^ 64) by reflexivity. lia. }
  rewrite E in H. destruct (_ <? _); [|discriminate]. injection H as H. lia.
Qed.

Theorem c03_model_sb c init hist out t s :
  bench_loop c init hist = Ok out -> out_done out = true ->
  seen_of_outcome t out = Ok s ->
  let pre := firstn (rounds_of (out_state out)) hist in
  uniform_p t pre -> (0 < t)%nat ->
  N.of_nat (length (st_samples (s_store (out_state out)))) < 2 ^ 32 ->
  c03_sb c t init pre s = true.
Proof.
  intros H Hdone Hs pre Hu Htpos Hm.
  destruct (seen_all t out s Hs) as [_ [Hsz [Hcalls [Hfs [Hsam [_ [_ [Hss Hsi]]]]]]]].
  unfold c03_sb. rewrite Hcalls, Hsz, Hsam, Hfs, Hss. rewrite repeat_length, Nat.eqb_refl. cbn [andb].
  rewrite (uniform_b_p t pre Hu). rewrite Bool.andb_true_r.
  destruct (zero_case c) eqn:Hz.
  { unfold bench_loop in H. unfold zero_case in Hz. rewrite Hz in H. injection H as H; subst out.
    unfold pre. cbn [out_state]. replace (rounds_of (init_state c)) with O by reflexivity. cbn [firstn length].
    cbn. rewrite all_eq_repeat.
    pose proof (iter_count_val (init_state c) _ Hsi) as Hv. cbn in Hv. rewrite Hv by reflexivity. reflexivity. }
  destruct (c_test c) eqn:Ht.
  { (* test mode, returned: exactly one round *)
    unfold bench_loop in H. unfold zero_case in Hz. rewrite Hz in H.
    assert (Hlc : loop_cond c (init_state c) = true).
    { unfold loop_cond, init_state, initial_mode. rewrite Ht. cbn [s_elapsed s_rem is_collect].
      unfold max_reached, max_time_cmp_is_ge. apply Bool.orb_false_elim in Hz. destruct Hz as [Hmx _].
      apply N.eqb_neq in Hmx. assert (E : c_max c <=? 0 = false) by (apply N.leb_gt; lia). rewrite E. reflexivity. }
    destruct hist as [|obs rest]; cbn [run] in H; rewrite Hlc in H.
    - injection H as H; subst out. discriminate.
    - rewrite Ht in H. destruct obs as [|r0 obs0]; [discriminate|]. injection H as H; subst out.
      unfold pre. cbn [out_state]. unfold rounds_of, with_round, init_state, initial_mode. rewrite Ht.
      cbn [s_sizes app length firstn mode_size s_mode]. cbn [Nat.eqb andb].
      unfold calls_per_thread. cbn [s_sizes app fold_right]. replace (1 + 0) with 1 by lia. rewrite all_eq_repeat.
      cbn [s_store st_samples store_empty length Nat.eqb andb].
      unfold stat_sample_count. cbn [s_store st_samples store_empty length].
      match type of Hsi with stat_iter_count ?st = _ => pose proof (iter_count_val st _ Hsi) as Hv end.
      cbn [s_store st_samples store_empty length] in Hv. rewrite Hv by reflexivity. reflexivity. }
  (* bench mode *)
  destruct (bench_loop_spec c init hist out Ht Hz H) as [k [Hk [Hst [Hlt Hend]]]].
  rewrite Hdone in Hend.
  assert (Hpre : pre = firstn k hist).
  { unfold pre. rewrite Hst, rounds_spec_state, (firstn_len_le hist k Hk). reflexivity. }
  assert (Hlen : length pre = k) by (rewrite Hpre; apply firstn_len_le; exact Hk).
  rewrite Hlen. rewrite Hst in *. rewrite <- Hpre in *.
  cbn [spec_state s_sizes s_size s_store] in *. rewrite Hlen.
  assert (Hszlen : length (sizes_of c pre k) = k) by (unfold sizes_of; rewrite map_length, seq_length; reflexivity).
  rewrite Hszlen, Nat.eqb_refl. cbn [andb].
  set (m := N.of_nat (length (st_samples (store_of c pre)))) in *.
  assert (Hss1 : stat_sample_count (spec_state c init pre) = m).
  { unfold stat_sample_count. cbn [spec_state s_store]. fold m. apply N.mod_small. exact Hm. }
  rewrite Hss1, N.eqb_refl. cbn [andb].
  pose proof (iter_count_val (spec_state c init pre) _ Hsi Hm) as Hv. cbn [spec_state s_store s_size] in Hv. fold m in Hv.
  rewrite Hv, N.eqb_refl. cbn [andb].
  assert (Hlast : last (sizes_of c pre k) 0 = last_size c pre).
  { unfold last_size. rewrite Hlen. destruct k as [|k']; [reflexivity|].
    unfold sizes_of. rewrite seq_S, map_app. cbn [map Nat.add]. apply last_last. }
  rewrite Hlast, !N.eqb_refl. cbn [andb].
  destruct (c_size c) as [sz|] eqn:Es; [|reflexivity].
  rewrite (sizes_of_explicit c pre sz k Ht Es). rewrite all_eq_repeat. cbn [andb].
  unfold calls_per_thread. cbn [spec_state s_sizes]. rewrite Hlen, (sizes_of_explicit c pre sz k Ht Es), sum_repeat.
  rewrite all_eq_repeat. cbn [andb].
  assert (Hrec : m = N.of_nat t * N.of_nat k).
  { unfold m. rewrite store_of_samples_len, (kept_of_explicit c _ sz Ht Es).
    rewrite (concat_len_uniform t pre Hu), Hlen. lia. }
  rewrite Hrec, N.eqb_refl. cbn [andb].
  assert (Hfin : last_size c pre = (if (k =? 0)%nat then 0 else sz)).
  { unfold last_size. rewrite Hlen. destruct k as [|k']; [reflexivity|].
    cbn [Nat.eqb]. unfold size_of_round. rewrite Ht, Es. reflexivity. }
  rewrite Hfin, N.eqb_refl. cbn [andb].
  (* the clause on the budgets *)
  set (n := sample_count_of c). set (r := ceil_div n (N.of_nat t)).
  assert (Htn : 0 < N.of_nat t) by lia.
  assert (Hcnt : forall j, (j <= k)%nat -> counted_of c (firstn j hist) = N.of_nat t * N.of_nat j).
  { intros j Hj. rewrite <- (firstn_firstn_le hist j k Hj). rewrite <- Hpre.
    rewrite (counted_of_explicit c _ sz Ht Es).
    rewrite (total_len_uniform t) by (apply uniform_firstn; exact Hu).
    rewrite firstn_length, Hlen. f_equal. lia. }
  destruct (forallb _ _) eqn:Hfree; [|reflexivity].
  rewrite forallb_forall in Hfree.
  destruct (N.of_nat k <? r) eqn:Hkr.
  - (* fewer rounds than R: only the ceiling can have stopped the loop *)
    apply N.ltb_lt in Hkr.
    unfold continue_after, continue_of in Hend. rewrite (Hcnt k (le_n k)) in Hend.
    assert (Hc : N.of_nat t * N.of_nat k <? sample_count_of c = true).
    { apply N.ltb_lt. apply (ceil_div_lt n (N.of_nat t) (N.of_nat k) Htn). exact Hkr. }
    rewrite Hc in Hend. cbn [orb] in Hend. rewrite Bool.andb_true_r in Hend.
    apply N.leb_le. apply N.ltb_ge in Hend.
    rewrite Hpre. unfold elapsed_after. rewrite firstn_firstn_le by lia. exact Hend.
  - apply N.ltb_ge in Hkr.
    destruct ((c_min c <=? elapsed_after c init pre (N.to_nat r)) || (c_max c <=? elapsed_after c init pre (N.to_nat r))) eqn:Hb;
      [|reflexivity].
    apply N.eqb_eq. destruct (N.eq_dec (N.of_nat k) r) as [E|E]; [exact E|exfalso].
    assert (Hrk : (N.to_nat r < k)%nat) by lia.
    specialize (Hlt (N.to_nat r) Hrk). apply continue_after_spec in Hlt. destruct Hlt as [Hmax Hor].
    unfold counted_after in Hor. rewrite (Hcnt (N.to_nat r)) in Hor by lia. rewrite N2Nat.id in Hor.
    pose proof (ceil_div_ge n (N.of_nat t) Htn) as Hge. fold r in Hge. fold n in Hor.
    rewrite Hpre in Hb. rewrite (elapsed_after_firstn c init hist k (N.to_nat r)) in Hb by lia.
    apply Bool.orb_true_iff in Hb. rewrite !N.leb_le in Hb. lia.
Qed.

(** * C19: the boolean specification holds of the model's output *)

Lemma list_eqb_refl l : list_eqb l l = true.
Proof.
  unfold list_eqb. rewrite Nat.eqb_refl. cbn [andb].
  induction l as [|x l IH]; cbn [combine forallb fst snd]; [reflexivity|]. rewrite N.eqb_refl. exact IH.
Qed.

Lemma total_len_concat (l : list round_obs) : total_len l = N.of_nat (length (concat l)).
Proof.
  induction l as [|o l IH]; cbn [total_len fold_right concat length]; [reflexivity|].
  fold (total_len l). rewrite IH, app_length. lia.
Qed.

Lemma flat_map_map_concat {A B} (f : A -> B) (l : list (list A)) :
  flat_map (fun o => map f o) l = map f (concat l).
Proof.
  induction l as [|o l IH]; cbn [flat_map concat map]; [reflexivity|]. rewrite IH, map_app. reflexivity.
Qed.

(** The keys of the allocation map are exactly the indices of the recorded
    samples that came with allocation info (fewer than 2^32 samples). *)
Lemma filter_keys_id (k : N) (m : list (N * alloc_info)) :
  (forall x, In x (map fst m) -> x < k) -> filter (fun p => negb (fst p =? k)) m = m.
Proof.
  induction m as [|p m IH]; intros H; cbn [filter]; [reflexivity|].
  assert (Hp : fst p < k) by (apply H; left; reflexivity).
  assert (E : (fst p =? k) = false) by (apply N.eqb_neq; lia). rewrite E. cbn [negb].
  f_equal. apply IH. intros x Hx. apply H. right. exact Hx.
Qed.

Lemma alloc_keys_exact c size l : forall sto,
  (forall k, In k (map fst (st_allocs sto)) -> k < N.of_nat (length (st_samples sto))) ->
  N.of_nat (length (st_samples sto)) + N.of_nat (length l) < 2 ^ 32 ->
  map fst (st_allocs (fold_left (record_one c size) l sto)) =
  map fst (st_allocs sto) ++ alloc_keys_from (N.of_nat (length (st_samples sto))) (map fst l).
Proof.
  induction l as [|[r d] l IH]; intros sto Hinv Hb; cbn [fold_left map alloc_keys_from fst].
  - rewrite app_nil_r. reflexivity.
  - cbn [length] in Hb.
    set (len := N.of_nat (length (st_samples sto))) in *.
    assert (Hlen' : N.of_nat (length (st_samples (record_one c size sto (r, d)))) = len + 1).
    { cbn [record_one st_samples]. rewrite app_length. cbn [length]. unfold len. lia. }
    rewrite IH.
    + rewrite Hlen'. cbn [record_one st_allocs]. fold len.
      destruct (ai_is_empty (r_alloc r)); cbn [app]; [reflexivity|].
      assert (Hmod : len mod 2 ^ 32 = len) by (apply N.mod_small; lia).
      rewrite Hmod. unfold map_insert. rewrite (filter_keys_id len _ Hinv).
      rewrite map_app. cbn [map fst]. rewrite <- app_assoc. reflexivity.
    + intros k Hk. rewrite Hlen'. cbn [record_one st_allocs] in Hk. fold len in Hk.
      destruct (ai_is_empty (r_alloc r)).
      * specialize (Hinv k Hk). lia.
      * assert (Hmod : len mod 2 ^ 32 = len) by (apply N.mod_small; lia).
        rewrite Hmod in Hk. unfold map_insert in Hk. rewrite (filter_keys_id len _ Hinv) in Hk.
        rewrite map_app in Hk. apply in_app_or in Hk. destruct Hk as [Hk|Hk].
        -- specialize (Hinv k Hk). lia.
        -- cbn [map fst In] in Hk. destruct Hk as [Hk|[]]. lia.
    + rewrite Hlen'. lia.
Qed.

Lemma map_fst_with_dur c l : map fst (with_dur c l) = l.
Proof. unfold with_dur. rewrite map_map. cbn [fst]. apply map_id. Qed.

Lemma kept_size_last c pre : c_test c = false -> c_size c = None -> pre <> [] ->
  kept_size c pre = last_size c pre.
Proof.
  intros Ht Hs Hne. unfold kept_size, last_size. rewrite Hs.
  destruct (length pre) as [|k'] eqn:El; [destruct pre; [contradiction|discriminate]|].
  unfold size_of_round. rewrite Ht, Hs. replace (S k' - 1)%nat with k' by lia.
  destruct (first_pass c pre) as [j0|] eqn:Ef.
  - pose proof (first_pass_lt c pre j0 Ef) as Hlt. rewrite El in Hlt.
    destruct (Nat.eq_dec j0 k') as [E|E].
    + subst j0. rewrite (first_pass_firstn_none c pre k' k' Ef) by lia. reflexivity.
    + rewrite (first_pass_firstn_some c pre j0 k' Ef) by lia. reflexivity.
  - rewrite (first_pass_firstn_none' c pre k' Ef). reflexivity.
Qed.

Theorem c19_model_sb c init hist out t s :
  c_test c = false ->
  bench_loop c init hist = Ok out ->
  seen_of_outcome t out = Ok s ->
  N.of_nat (length (st_samples (s_store (out_state out)))) < 2 ^ 32 ->
  c19_sb c init (firstn (rounds_of (out_state out)) hist) s = true.
Proof.
  intros Ht H Hs Hm. unfold c19_sb.
  destruct (zero_case c) eqn:Hz; [reflexivity|]. cbn [orb].
  rewrite (tuned_bench c Ht). destruct (c_size c) as [sz|] eqn:Es; [reflexivity|]. cbn [negb].
  destruct (seen_all t out s Hs) as [Hd [Hsz [_ [Hfs [Hsam [Hak [Hcn [Hss Hsi]]]]]]]].
  assert (Hh : has_samples c = true).
  { unfold zero_case in Hz. destruct (has_samples c); [reflexivity|]. rewrite Bool.orb_true_r in Hz. discriminate. }
  destruct (bench_loop_spec c init hist out Ht Hz H) as [k [Hk [Hst [Hlt Hend]]]].
  assert (Hpre : firstn (rounds_of (out_state out)) hist = firstn k hist).
  { rewrite Hst, rounds_spec_state, (firstn_len_le hist k Hk). reflexivity. }
  rewrite Hpre. set (pre := firstn k hist) in *.
  assert (Hlen : length pre = k) by (apply firstn_len_le; exact Hk).
  rewrite Hsz, Hsam, Hfs, Hak, Hcn, Hss, Hd. rewrite Hst in *.
  cbn [spec_state s_sizes s_size s_store] in *.
  (* sizes *)
  rewrite list_eqb_refl. cbn [andb].
  (* number of samples *)
  rewrite store_of_samples_len. rewrite total_len_concat, N.eqb_refl. cbn [andb].
  (* the samples themselves *)
  assert (Hexp : st_samples (store_of c pre) = expected_samples c (last_size c pre) (kept_of c pre)).
  { rewrite store_of_samples. unfold expected_samples. rewrite flat_map_map_concat.
    destruct pre as [|o0 pre0] eqn:Ep.
    - unfold kept_of. rewrite (tuned_bench c Ht), Es. reflexivity.
    - rewrite (kept_size_last c (o0 :: pre0) Ht Es) by discriminate. reflexivity. }
  rewrite <- Hexp, list_eqb_refl. cbn [andb].
  (* final size *)
  assert (Hfin : last_size c pre = match length pre with O => 0 | S k' => size_of_round c pre k' end) by reflexivity.
  rewrite <- Hfin, N.eqb_refl. cbn [andb].
  (* per-input counts, every kind *)
  assert (Hcnt : forallb (fun k => list_eqb (qget k (st_counts (store_of c pre)))
                     (if qget k (c_input_counts c) then expected_counts k (last_size c pre) (kept_of c pre) else []))
                   all_kinds = true).
  { apply forallb_forall. intros kd _. unfold store_of. rewrite record_one_counts.
    cbn [store_empty st_counts]. replace (qget kd (qconst (@nil N))) with (@nil N) by (destruct kd; reflexivity).
    cbn [app]. unfold expected_counts.
    destruct (qget kd (c_input_counts c)); [|apply list_eqb_refl].
    destruct pre as [|o0 pre0] eqn:Ep.
    - unfold kept_of. rewrite (tuned_bench c Ht), Es. reflexivity.
    - rewrite (kept_size_last c (o0 :: pre0) Ht Es) by discriminate. apply list_eqb_refl. }
  rewrite Hcnt. cbn [andb].
  (* allocation keys *)
  assert (Hkeys : map fst (st_allocs (store_of c pre)) = alloc_keys_from 0 (concat (kept_of c pre))).
  { unfold store_of. rewrite alloc_keys_exact.
    - cbn [store_empty st_allocs st_samples map length app]. rewrite map_fst_with_dur. reflexivity.
    - intros k0 Hk0. cbn in Hk0. contradiction.
    - cbn [store_empty st_samples length]. rewrite length_with_dur. rewrite <- store_of_samples_len. lia. }
  rewrite Hkeys, list_eqb_refl. cbn [andb].
  (* the rule *)
  assert (Hall : forallb (fun j => continue_after c init pre j) (seq 0 (length pre)) = true).
  { apply forallb_forall. intros j Hj. apply in_seq in Hj. unfold pre.
    rewrite continue_after_firstn by lia. apply Hlt. lia. }
  rewrite Hall. cbn [andb].
  assert (Hlast : (if out_done out then negb (continue_after c init pre (length pre)) else continue_after c init pre (length pre)) = true).
  { rewrite Hlen. unfold pre. rewrite continue_after_firstn by lia.
    destruct (out_done out); [rewrite Hend; reflexivity|]. destruct Hend as [_ Hc]. exact Hc. }
  rewrite Hlast. cbn [andb].
  (* reported figures *)
  set (m := N.of_nat (length (concat (kept_of c pre)))).
  assert (Hm' : N.of_nat (length (st_samples (store_of c pre))) = m) by (unfold m; rewrite store_of_samples_len; reflexivity).
  assert (Hss1 : stat_sample_count (spec_state c init pre) = m).
  { unfold stat_sample_count. cbn [spec_state s_store]. rewrite Hm'. apply N.mod_small. rewrite <- Hm'. exact Hm. }
  rewrite Hss1, N.eqb_refl. cbn [andb].
  pose proof (iter_count_val (spec_state c init pre) _ Hsi Hm) as Hv. cbn [spec_state s_store s_size] in Hv.
  rewrite Hm' in Hv. rewrite Hv. apply N.eqb_refl.
Qed.

(** * C03 end to end: the figures the model reports satisfy [c03_e2e_sb] *)
Theorem c03_e2e_model c init hist out s t sn :
  c_test c = false -> zero_case c = false -> c_size c = Some s ->
  (0 < t)%nat -> uniform_p t hist ->
  let n := sample_count_of c in
  let r := N.to_nat (ceil_div n (N.of_nat t)) in
  (r <= length hist)%nat ->
  (forall j, (j < r)%nat -> elapsed_after c init hist j < c_max c) ->
  c_min c <= elapsed_after c init hist r ->
  bench_loop c init hist = Ok out -> seen_of_outcome t out = Ok sn ->
  N.of_nat (t * r) < 2 ^ 32 ->
  c03_e2e_sb (c_count c) s (N.of_nat t) false (o_stat_samples sn) (o_stat_iters sn) (o_calls sn) = true.
Proof.
  intros Ht Hz Hs Htpos Hu n r Hr Hmax Hmin H Hsn Hb.
  pose proof (exact_counts c init hist out s t Ht Hz Hs Htpos Hu Hr Hmax Hmin H) as He. cbv zeta in He.
  assert (Hrdef : N.to_nat (ceil_div (sample_count_of c) (N.of_nat t)) = r) by reflexivity.
  rewrite Hrdef in He. clearbody r. destruct He as [_ [_ [Hlen [_ [Hcalls Hsize]]]]].
  destruct (seen_all t out sn Hsn) as [_ [_ [Hc [_ [_ [_ [_ [Hss Hsi]]]]]]]].
  assert (Hm : N.of_nat (length (st_samples (s_store (out_state out)))) < 2 ^ 32) by (rewrite Hlen; exact Hb).
  pose proof (iter_count_val (out_state out) _ Hsi Hm) as Hv.
  unfold c03_e2e_sb. rewrite Hc, repeat_length, N.eqb_refl. cbn [andb].
  assert (Hnn : match c_count c with Some x => x | None => 100 end = n) by reflexivity. rewrite Hnn.
  assert (Hn0 : n <> 0).
  { apply has_samples_count. unfold zero_case in Hz. destruct (has_samples c); [reflexivity|]. rewrite Bool.orb_true_r in Hz. discriminate. }
  assert (Hs0 : s <> 0).
  { unfold zero_case, has_samples, opt_is in Hz. rewrite Hs in Hz. destruct (s =? 0) eqn:E; [|apply N.eqb_neq; exact E].
    cbn [negb] in Hz. rewrite Bool.andb_false_r in Hz. cbn [negb] in Hz. rewrite Bool.orb_true_r in Hz. discriminate. }
  apply N.eqb_neq in Hn0. apply N.eqb_neq in Hs0. rewrite Hn0, Hs0. cbn [orb].
  assert (Hr1 : (r <> 0)%nat).
  { rewrite <- Hrdef. fold n. assert (0 < ceil_div n (N.of_nat t)); [|lia].
    apply (ceil_div_lt n (N.of_nat t) 0); [lia|]. apply N.eqb_neq in Hn0. lia. }
  assert (Hrr : ceil_div n (N.of_nat t) = N.of_nat r) by (rewrite <- Hrdef; fold n; rewrite N2Nat.id; reflexivity).
  rewrite Hrr, Hss. unfold stat_sample_count. rewrite Hlen.
  rewrite (N.mod_small _ _ Hb). rewrite Hv, Hlen, Hcalls.
  destruct (r =? 0)%nat eqn:Er; [apply Nat.eqb_eq in Er; contradiction|]. rewrite Hsize.
  rewrite all_eq_repeat.
  assert (E1 : N.of_nat (t * r) =? N.of_nat t * N.of_nat r = true) by (apply N.eqb_eq; lia).
  assert (E2 : N.of_nat (t * r) * s =? N.of_nat t * N.of_nat r * s = true) by (apply N.eqb_eq; lia).
  rewrite E1, E2. reflexivity.
Qed.
