(** Proofs about [Model/Natural.v]: the tokeniser, [cmp_int] and [natural_cmp]. *)

From Coq Require Import Permutation.
From DivanV Require Import Base.Res Model.Natural Model.SortBy Proofs.SortCmp.
Local Open Scope N_scope.

(** * The tokeniser, right to left *)

(** Put one more piece of text of kind [k] in front of a token list. *)
Definition glue (kt : token) (ts : list token) : list token :=
  match ts with
  | (k', t') :: r => if Bool.eqb k' (fst kt) then (fst kt, snd kt ++ t') :: r else kt :: ts
  | [] => [kt]
  end.

Fixpoint tok_r (s : bytes) : list token :=
  match s with
  | [] => []
  | c :: r => glue (is_digit c, [c]) (tok_r r)
  end.

Lemma eqb_neq_false : forall a b : bool, a <> b -> Bool.eqb a b = false.
Proof. intros [] []; simpl; congruence. Qed.

Lemma tok_go_glue : forall s k acc,
  tok_go k acc s = glue (k, rev acc) (tok_r s).
Proof.
  induction s as [|c r IH]; intros k acc; simpl; [reflexivity|].
  destruct (Bool.eqb (is_digit c) k) eqn:E.
  - apply Bool.eqb_prop in E. subst k. rewrite IH. simpl.
    destruct (tok_r r) as [|[k' t'] ts]; simpl.
    + rewrite Bool.eqb_reflx. reflexivity.
    + destruct (Bool.eqb k' (is_digit c)) eqn:E'; simpl.
      * rewrite Bool.eqb_reflx. rewrite <- app_assoc. reflexivity.
      * rewrite Bool.eqb_reflx. reflexivity.
  - rewrite IH. change (rev [c]) with [c].
    assert (H : exists t' ts, glue (is_digit c, [c]) (tok_r r) = (is_digit c, t') :: ts).
    { destruct (tok_r r) as [|[k' t'] ts]; simpl; [eauto|].
      destruct (Bool.eqb k' (is_digit c)); eauto. }
    destruct H as (t' & ts & H). rewrite H. simpl. rewrite E. reflexivity.
Qed.

Lemma tokenize_tok_r : forall s, tokenize s = tok_r s.
Proof. intros [|c r]; simpl; [reflexivity|]. apply tok_go_glue. Qed.

(** Well-formed token: non-empty text whose bytes all have the token's kind. *)
Definition wf_token (t : token) : Prop :=
  snd t <> [] /\ Forall (fun c => is_digit c = fst t) (snd t).

Lemma glue_wf : forall c ts, Forall wf_token ts -> Forall wf_token (glue (is_digit c, [c]) ts).
Proof.
  intros c [|[k' t'] r] H; simpl.
  - constructor; [|constructor]. split; simpl; [discriminate|]. constructor; [reflexivity|constructor].
  - inversion H as [|? ? [Hne Hall] Hr]; subst. simpl in *.
    destruct (Bool.eqb k' (is_digit c)) eqn:E; simpl.
    + apply Bool.eqb_prop in E. subst k'. constructor; [|exact Hr].
      split; simpl; [discriminate|]. constructor; [reflexivity|exact Hall].
    + constructor; [|exact H]. split; simpl; [discriminate|]. constructor; [reflexivity|constructor].
Qed.

Lemma tok_r_wf : forall s, Forall wf_token (tok_r s).
Proof. induction s as [|c r IH]; simpl; [constructor|]. apply glue_wf. exact IH. Qed.

Lemma tokenize_wf : forall s, Forall wf_token (tokenize s).
Proof. intros s. rewrite tokenize_tok_r. apply tok_r_wf. Qed.

Lemma glue_concat : forall kt ts, concat (map snd (glue kt ts)) = snd kt ++ concat (map snd ts).
Proof.
  intros [k t] [|[k' t'] r]; simpl; [reflexivity|].
  destruct (Bool.eqb k' k); simpl; [rewrite app_assoc|]; reflexivity.
Qed.

(** The tokens, concatenated, are the input: nothing is lost or invented. *)
Lemma tokenize_concat : forall s, concat (map snd (tokenize s)) = s.
Proof.
  intros s. rewrite tokenize_tok_r. induction s as [|c r IH]; simpl; [reflexivity|].
  rewrite glue_concat. simpl. rewrite IH. reflexivity.
Qed.

(** Adjacent tokens have different kinds (runs are maximal). *)
Fixpoint alternating (ts : list token) : Prop :=
  match ts with
  | t1 :: ((t2 :: _) as r) => fst t1 <> fst t2 /\ alternating r
  | _ => True
  end.

Lemma tok_r_alternating : forall s, alternating (tok_r s).
Proof.
  induction s as [|c r IH]; simpl; [exact I|].
  destruct (tok_r r) as [|[k' t'] ts]; simpl; [exact I|].
  destruct (Bool.eqb k' (is_digit c)) eqn:E; simpl.
  - apply Bool.eqb_prop in E. subst k'. destruct ts; simpl in *; [exact I|]. exact IH.
  - split; [|exact IH]. intros H. subst k'. rewrite Bool.eqb_reflx in E. discriminate.
Qed.

(** First byte decides the kind of the first token. *)
Definition first_kind (s : bytes) : option bool :=
  match s with [] => None | c :: _ => Some (is_digit c) end.

Definition last_kind (s : bytes) : option bool := first_kind (rev s).

Lemma tok_r_first : forall s, first_kind s = match tok_r s with [] => None | t :: _ => Some (fst t) end.
Proof.
  intros [|c r]; simpl; [reflexivity|].
  destruct (tok_r r) as [|[k' t'] ts]; simpl; [reflexivity|].
  destruct (Bool.eqb k' (is_digit c)); reflexivity.
Qed.

(** Tokenising a concatenation whose two sides meet at a kind change. *)
Lemma glue_app : forall kt t ts rest, glue kt ((t :: ts) ++ rest) = glue kt (t :: ts) ++ rest.
Proof. intros kt [k t] ts rest. simpl. destruct (Bool.eqb k (fst kt)); reflexivity. Qed.

Lemma tok_r_app : forall a b,
  (forall ka kb, last_kind a = Some ka -> first_kind b = Some kb -> ka <> kb) ->
  tok_r (a ++ b) = tok_r a ++ tok_r b.
Proof.
  induction a as [|c r IH]; intros b H; [reflexivity|].
  destruct r as [|c' r'].
  - simpl. pose proof (tok_r_first b) as F.
    destruct (tok_r b) as [|[k' t'] ts]; simpl; [reflexivity|].
    destruct (Bool.eqb k' (is_digit c)) eqn:E; [|reflexivity].
    apply Bool.eqb_prop in E. exfalso. apply (H (is_digit c) k'); [reflexivity| |congruence].
    simpl in F. exact F.
  - change (tok_r ((c :: c' :: r') ++ b)) with (glue (is_digit c, [c]) (tok_r ((c' :: r') ++ b))).
    change (tok_r (c :: c' :: r')) with (glue (is_digit c, [c]) (tok_r (c' :: r'))).
    rewrite IH.
    + pose proof (tok_r_first (c' :: r')) as F.
      destruct (tok_r (c' :: r')) as [|t ts]; [simpl in F; discriminate|]. apply glue_app.
    + intros ka kb Ha Hb. apply H; [|exact Hb].
      unfold last_kind in *. simpl in *.
      destruct (rev r' ++ [c']) eqn:R; [destruct (rev r'); discriminate|].
      simpl in *. exact Ha.
Qed.

Lemma tok_r_digits : forall d, d <> [] -> all_digits d = true -> tok_r d = [(true, d)].
Proof.
  induction d as [|c r IH]; intros Hne Hd; [congruence|].
  simpl in Hd. apply Bool.andb_true_iff in Hd. destruct Hd as [Hc Hr].
  simpl. rewrite Hc. destruct r as [|c' r'].
  - reflexivity.
  - rewrite IH by (assumption || discriminate). reflexivity.
Qed.

(** * [cmp_int] compares values *)

Definition dstep (acc c : N) : N := acc * 10 + (c - 48).

Lemma digits_val_unfold : forall s, digits_val s = fold_left dstep s 0.
Proof. reflexivity. Qed.

Definition p10 (n : nat) : N := 10 ^ N.of_nat n.

Lemma p10_0 : p10 0 = 1.
Proof. reflexivity. Qed.

Lemma p10_S : forall n, p10 (S n) = 10 * p10 n.
Proof. intros n. unfold p10. rewrite Nat2N.inj_succ, N.pow_succ_r'. reflexivity. Qed.

Lemma p10_pos : forall n, 0 < p10 n.
Proof. induction n; [rewrite p10_0|rewrite p10_S]; lia. Qed.

Lemma fold_dstep_acc : forall s acc, fold_left dstep s acc = acc * p10 (length s) + fold_left dstep s 0.
Proof.
  induction s as [|c r IH]; intros acc; simpl.
  - rewrite p10_0. lia.
  - rewrite IH. rewrite (IH (dstep 0 c)). rewrite p10_S. unfold dstep. lia.
Qed.

Lemma is_digit_range : forall c, is_digit c = true <-> 48 <= c <= 57.
Proof. intros c. unfold is_digit. rewrite Bool.andb_true_iff, !N.leb_le. reflexivity. Qed.

Lemma digits_val_bound : forall s, all_digits s = true -> fold_left dstep s 0 < p10 (length s).
Proof.
  induction s as [|c r IH]; intros H; simpl.
  - rewrite p10_0. lia.
  - simpl in H. apply Bool.andb_true_iff in H. destruct H as [Hc Hr].
    apply is_digit_range in Hc. specialize (IH Hr).
    rewrite fold_dstep_acc, p10_S. pose proof (p10_pos (length r)).
    assert (Hd : dstep 0 c <= 9) by (unfold dstep; lia).
    set (d := dstep 0 c) in *. set (p := p10 (length r)) in *.
    set (v := fold_left dstep r 0) in *. clearbody d p v. nia.
Qed.

Lemma trim0_val : forall s, fold_left dstep (trim0 s) 0 = fold_left dstep s 0.
Proof.
  induction s as [|c r IH]; simpl; [reflexivity|].
  destruct (c =? 48) eqn:E; [|reflexivity].
  apply N.eqb_eq in E. subst c. exact IH.
Qed.

Lemma trim0_digits : forall s, all_digits s = true -> all_digits (trim0 s) = true.
Proof.
  induction s as [|c r IH]; intros H; simpl; [reflexivity|].
  simpl in H. apply Bool.andb_true_iff in H. destruct H as [Hc Hr].
  destruct (c =? 48); [apply IH; exact Hr|]. simpl. rewrite Hc, Hr. reflexivity.
Qed.

(** A trimmed run is empty or starts with a non-zero digit. *)
Definition no_lead0 (s : bytes) : Prop := match s with [] => True | c :: _ => c <> 48 end.

Lemma trim0_no_lead0 : forall s, no_lead0 (trim0 s).
Proof.
  induction s as [|c r IH]; simpl; [exact I|].
  destruct (c =? 48) eqn:E; [exact IH|]. simpl. apply N.eqb_neq. exact E.
Qed.

Lemma val_lower : forall s, all_digits s = true -> no_lead0 s -> s <> [] ->
  p10 (length s - 1) <= fold_left dstep s 0.
Proof.
  intros [|c r] Hd Hn Hne; [congruence|].
  simpl in *. apply Bool.andb_true_iff in Hd. destruct Hd as [Hc Hr].
  apply is_digit_range in Hc. rewrite Nat.sub_0_r.
  rewrite fold_dstep_acc. unfold dstep. pose proof (p10_pos (length r)). nia.
Qed.

Lemma p10_mono : forall n m, (n < m)%nat -> p10 n * 10 <= p10 m.
Proof.
  intros n m H. induction H.
  - rewrite p10_S. lia.
  - rewrite p10_S. pose proof (p10_pos m). lia.
Qed.

Lemma same_len_lex : forall a b, length a = length b ->
  all_digits a = true -> all_digits b = true ->
  bytes_cmp a b = (fold_left dstep a 0 ?= fold_left dstep b 0).
Proof.
  unfold bytes_cmp.
  induction a as [|x a IH]; intros [|y b] HL Ha Hb; simpl in *; try discriminate; [reflexivity|].
  apply Bool.andb_true_iff in Ha. destruct Ha as [Hx Ha].
  apply Bool.andb_true_iff in Hb. destruct Hb as [Hy Hb].
  injection HL as HL.
  rewrite (fold_dstep_acc a), (fold_dstep_acc b). rewrite <- HL.
  pose proof (digits_val_bound a Ha) as Ba. pose proof (digits_val_bound b Hb) as Bb.
  rewrite <- HL in Bb.
  apply is_digit_range in Hx. apply is_digit_range in Hy.
  assert (Ex : dstep 0 x = x - 48) by (unfold dstep; lia).
  assert (Ey : dstep 0 y = y - 48) by (unfold dstep; lia).
  rewrite Ex, Ey.
  set (p := p10 (length a)) in *.
  set (u := fold_left dstep a 0) in *. set (v := fold_left dstep b 0) in *.
  destruct (x ?= y) eqn:E.
  - apply N.compare_eq in E. subst y. rewrite (IH b HL Ha Hb). fold u v.
    clearbody p u v. clear IH.
    destruct (u ?= v) eqn:E2; symmetry.
    + apply N.compare_eq in E2. apply N.compare_eq_iff. lia.
    + rewrite N.compare_lt_iff in E2. apply N.compare_lt_iff. lia.
    + rewrite N.compare_gt_iff in E2. apply N.compare_gt_iff. lia.
  - rewrite N.compare_lt_iff in E. symmetry. apply N.compare_lt_iff.
    assert (M : (x - 48 + 1) * p <= (y - 48) * p) by (apply N.mul_le_mono_r; lia).
    clearbody p u v. lia.
  - rewrite N.compare_gt_iff in E. symmetry. apply N.compare_gt_iff.
    assert (M : (y - 48 + 1) * p <= (x - 48) * p) by (apply N.mul_le_mono_r; lia).
    clearbody p u v. lia.
Qed.

Lemma is_nil_spec {A} : forall l : list A, is_nil l = true <-> l = [].
Proof. intros [|x l]; simpl; split; congruence. Qed.

(** [cmp_int] on two digit runs is the comparison of their values: leading
    zeros are ignored, the length of the runs is unbounded. *)
Lemma cmp_int_val : forall a b, all_digits a = true -> all_digits b = true ->
  cmp_int a b = (digits_val a ?= digits_val b).
Proof.
  intros a b Ha Hb. unfold cmp_int. rewrite !digits_val_unfold.
  rewrite <- (trim0_val a), <- (trim0_val b).
  pose proof (trim0_digits a Ha) as Da. pose proof (trim0_digits b Hb) as Db.
  pose proof (trim0_no_lead0 a) as Na. pose proof (trim0_no_lead0 b) as Nb.
  set (a' := trim0 a) in *. set (b' := trim0 b) in *.
  destruct a' as [|x ar] eqn:Ea; destruct b' as [|y br] eqn:Eb; simpl is_nil; cbv iota.
  - reflexivity.
  - symmetry. apply N.compare_lt_iff.
    pose proof (val_lower (y :: br) Db Nb ltac:(discriminate)) as L.
    pose proof (p10_pos (length (y :: br) - 1)). change (fold_left dstep [] 0) with 0. lia.
  - symmetry. apply N.compare_gt_iff.
    pose proof (val_lower (x :: ar) Da Na ltac:(discriminate)) as L.
    pose proof (p10_pos (length (x :: ar) - 1)). change (fold_left dstep [] 0) with 0. lia.
  - rewrite <- Ea, <- Eb in *.
    assert (Hna : a' <> []) by (subst a'; rewrite Ea; discriminate).
    assert (Hnb : b' <> []) by (subst b'; rewrite Eb; discriminate).
    clear Ea Eb.
    pose proof (val_lower a' Da Na Hna) as La. pose proof (val_lower b' Db Nb Hnb) as Lb.
    pose proof (digits_val_bound a' Da) as Ua. pose proof (digits_val_bound b' Db) as Ub.
    destruct (N.of_nat (length a') ?= N.of_nat (length b')) eqn:E.
    + apply N.compare_eq in E. apply Nat2N.inj in E. apply same_len_lex; assumption.
    + rewrite N.compare_lt_iff in E. symmetry. apply N.compare_lt_iff.
      assert (HL : (length a' <= length b' - 1)%nat) by lia.
      assert (p10 (length a') <= p10 (length b' - 1)).
      { destruct (Nat.eq_dec (length a') (length b' - 1)) as [->|Hne]; [lia|].
        pose proof (p10_mono (length a') (length b' - 1) ltac:(lia)). pose proof (p10_pos (length a')). lia. }
      lia.
    + rewrite N.compare_gt_iff in E. symmetry. apply N.compare_gt_iff.
      assert (HL : (length b' <= length a' - 1)%nat) by lia.
      assert (p10 (length b') <= p10 (length a' - 1)).
      { destruct (Nat.eq_dec (length b') (length a' - 1)) as [->|Hne]; [lia|].
        pose proof (p10_mono (length b') (length a' - 1) ltac:(lia)). pose proof (p10_pos (length b')). lia. }
      lia.
Qed.

(** * The key of a token and of a string *)

Lemma tkey_cmp_thenc : forall x y, tkey_cmp x y =
  thenc (fun x y : tkey => fst x ?= fst y)
        (thenc (fun x y : tkey => fst (snd x) ?= fst (snd y))
               (fun x y : tkey => bytes_cmp (snd (snd x)) (snd (snd y)))) x y.
Proof. reflexivity. Qed.

Lemma Forall_all {A} : forall l : list A, Forall all l.
Proof. intros l. apply Forall_forall. intros; exact I. Qed.

Lemma tpo_bytes_cmp : tpo_on all bytes_cmp.
Proof.
  apply (tpo_weaken all (Forall all)); [intros; apply Forall_all|].
  apply tpo_lex. exact tpo_N.
Qed.

Lemma tpo_tkey_cmp : tpo_on all tkey_cmp.
Proof.
  apply (tpo_ext all _ _ (fun x y _ _ => tkey_cmp_thenc x y)).
  apply tpo_thenc; [|apply tpo_thenc].
  - apply (tpo_pull all all fst N.compare); [auto|exact tpo_N].
  - apply (tpo_pull all all (fun x : tkey => fst (snd x)) N.compare); [auto|exact tpo_N].
  - apply (tpo_pull all all (fun x : tkey => snd (snd x)) bytes_cmp); [auto|exact tpo_bytes_cmp].
Qed.

Lemma wf_all_digits : forall t, wf_token t -> fst t = true -> all_digits (snd t) = true.
Proof.
  intros [k t] [_ H] E. simpl in *. subst k. apply forallb_forall. intros c Hc.
  rewrite Forall_forall in H. apply H. exact Hc.
Qed.

Lemma token_cmp_key : forall x y, wf_token x -> wf_token y ->
  token_cmp x y = tkey_cmp (token_key x) (token_key y).
Proof.
  intros [kx tx] [ky ty] Wx Wy. unfold token_cmp, token_key, tkey_cmp, thenc. simpl fst. simpl snd.
  destruct kx, ky; simpl andb; cbv iota.
  - simpl. rewrite cmp_int_val by (apply (wf_all_digits (true, _)); auto).
    destruct (digits_val tx ?= digits_val ty); reflexivity.
  - destruct Wx as [Nx Ax]. destruct Wy as [Ny Ay]. simpl in *.
    destruct tx as [|cx rx]; [congruence|]. destruct ty as [|cy ry]; [congruence|].
    inversion Ax as [|? ? Dx _]; subst. inversion Ay as [|? ? Dy _]; subst.
    apply is_digit_range in Dx.
    assert (Hy : cy < 48 \/ 57 < cy).
    { destruct (is_digit cy) eqn:E; [discriminate|]. unfold is_digit in E.
      apply Bool.andb_false_iff in E. rewrite !N.leb_gt in E. lia. }
    unfold bytes_cmp. simpl lex.
    destruct (cy <? 48) eqn:E.
    + apply N.ltb_lt in E. assert (G : (cx ?= cy) = Gt) by (apply N.compare_gt_iff; lia).
      rewrite G. reflexivity.
    + apply N.ltb_ge in E. assert (G : (cx ?= cy) = Lt) by (apply N.compare_lt_iff; lia).
      rewrite G. reflexivity.
  - destruct Wx as [Nx Ax]. destruct Wy as [Ny Ay]. simpl in *.
    destruct tx as [|cx rx]; [congruence|]. destruct ty as [|cy ry]; [congruence|].
    inversion Ax as [|? ? Dx _]; subst. inversion Ay as [|? ? Dy _]; subst.
    apply is_digit_range in Dy.
    assert (Hx : cx < 48 \/ 57 < cx).
    { destruct (is_digit cx) eqn:E; [discriminate|]. unfold is_digit in E.
      apply Bool.andb_false_iff in E. rewrite !N.leb_gt in E. lia. }
    unfold bytes_cmp. simpl lex.
    destruct (cx <? 48) eqn:E.
    + apply N.ltb_lt in E. assert (G : (cx ?= cy) = Lt) by (apply N.compare_lt_iff; lia).
      rewrite G. reflexivity.
    + apply N.ltb_ge in E. assert (G : (cx ?= cy) = Gt) by (apply N.compare_gt_iff; lia).
      rewrite G. reflexivity.
  - destruct Wx as [Nx Ax]. destruct Wy as [Ny Ay]. simpl in *.
    destruct tx as [|cx rx]; [congruence|]. destruct ty as [|cy ry]; [congruence|].
    inversion Ax as [|? ? Dx _]; subst. inversion Ay as [|? ? Dy _]; subst.
    assert (Hx : cx < 48 \/ 57 < cx).
    { unfold is_digit in Dx. apply Bool.andb_false_iff in Dx. rewrite !N.leb_gt in Dx. lia. }
    assert (Hy : cy < 48 \/ 57 < cy).
    { unfold is_digit in Dy. apply Bool.andb_false_iff in Dy. rewrite !N.leb_gt in Dy. lia. }
    unfold bytes_cmp at 1. simpl lex.
    destruct (cx <? 48) eqn:Ex; destruct (cy <? 48) eqn:Ey; simpl fst; simpl snd;
      rewrite ?N.ltb_lt, ?N.ltb_ge in *.
    + simpl. unfold bytes_cmp. simpl. reflexivity.
    + assert (G : (cx ?= cy) = Lt) by (apply N.compare_lt_iff; lia). rewrite G. reflexivity.
    + assert (G : (cx ?= cy) = Gt) by (apply N.compare_gt_iff; lia). rewrite G. reflexivity.
    + simpl. unfold bytes_cmp. simpl. reflexivity.
Qed.

(** [natural_cmp] is the lexicographic comparison of the key sequences. *)
Lemma natural_cmp_key : forall a b, natural_cmp a b = lex tkey_cmp (nat_key a) (nat_key b).
Proof.
  intros a b. unfold natural_cmp, nat_key. rewrite lex_map.
  apply (lex_ext _ _ wf_token); [|apply tokenize_wf|apply tokenize_wf].
  intros x y Wx Wy. apply token_cmp_key; assumption.
Qed.

Lemma tpo_natural_cmp : tpo_on all natural_cmp.
Proof.
  apply (tpo_ext all _ (fun a b => lex tkey_cmp (nat_key a) (nat_key b))).
  - intros x y _ _. apply natural_cmp_key.
  - apply (tpo_pull all (Forall all) nat_key (lex tkey_cmp)).
    + intros; apply Forall_all.
    + apply tpo_lex. exact tpo_tkey_cmp.
Qed.

(** The statement in the shape used by Properties/C16.v. *)
Lemma natural_total_preorder :
  (forall a, natural_cmp a a = Eq) /\
  (forall a b, natural_cmp b a = CompOpp (natural_cmp a b)) /\
  (forall a b c, natural_cmp a b <> Gt -> natural_cmp b c <> Gt -> natural_cmp a c <> Gt) /\
  (forall a b c, natural_cmp a b = Lt -> natural_cmp b c = Lt -> natural_cmp a c = Lt) /\
  (forall a b c, natural_cmp a b = Eq -> natural_cmp a c = natural_cmp b c).
Proof.
  pose proof tpo_natural_cmp as T. repeat split.
  - intros a. apply (tpo_refl all _ T). exact I.
  - intros a b. apply (tpo_anti all _ T); exact I.
  - intros a b c. apply (tpo_le_trans all _ T); exact I.
  - intros a b c. apply (tpo_lt_trans all _ T); exact I.
  - intros a b c. apply (tpo_eq_l all _ T); exact I.
Qed.

(** When are two names tied?  Exactly when their key sequences coincide up to
    [tkey_cmp = Eq], i.e. same non-digit runs and digit runs of equal value:
    "a01" and "a1" are tied, "a1" and "a1b" are not. *)
Lemma tkey_cmp_eq : forall x y, tkey_cmp x y = Eq -> x = y.
Proof.
  intros [cx [vx tx]] [cy [vy ty]]. unfold tkey_cmp, thenc. simpl.
  destruct (cx ?= cy) eqn:E1; try discriminate. apply N.compare_eq in E1. subst cy.
  destruct (vx ?= vy) eqn:E2; try discriminate. apply N.compare_eq in E2. subst vy.
  intros H. f_equal. f_equal. revert ty H. unfold bytes_cmp.
  induction tx as [|a tx IH]; intros [|b ty]; simpl; try discriminate; [reflexivity|].
  destruct (a ?= b) eqn:E; try discriminate. apply N.compare_eq in E. subst b.
  intros H. f_equal. apply IH. exact H.
Qed.

Lemma lex_eq_iff {A} (c : A -> A -> comparison) :
  (forall x y, c x y = Eq -> x = y) -> (forall x, c x x = Eq) ->
  forall a b, lex c a b = Eq <-> a = b.
Proof.
  intros H R. induction a as [|x a IH]; intros [|y b]; simpl; split; try discriminate; try reflexivity.
  - destruct (c x y) eqn:E; try discriminate. apply H in E. subst y. intros L. f_equal. apply IH. exact L.
  - intros [= -> ->]. rewrite R. apply IH. reflexivity.
Qed.

Lemma natural_cmp_eq_iff : forall a b, natural_cmp a b = Eq <-> nat_key a = nat_key b.
Proof.
  intros a b. rewrite natural_cmp_key. apply lex_eq_iff.
  - apply tkey_cmp_eq.
  - intros x. apply (tpo_refl all _ tpo_tkey_cmp). exact I.
Qed.

(** * Digit runs compare by numeric value *)

Lemma lex_common_prefix {A} (c : A -> A -> comparison) (P : A -> Prop) :
  (forall x, P x -> c x x = Eq) ->
  forall l a b, Forall P l -> lex c (l ++ a) (l ++ b) = lex c a b.
Proof.
  intros R. induction l as [|x l IH]; intros a b Pl; simpl; [reflexivity|].
  inversion Pl; subst. rewrite R by assumption. apply IH. assumption.
Qed.

Lemma token_cmp_refl : forall t, wf_token t -> token_cmp t t = Eq.
Proof.
  intros t W. rewrite token_cmp_key by assumption.
  apply (tpo_refl all _ tpo_tkey_cmp). exact I.
Qed.

(** A maximal digit run [d1] resp. [d2] after a common prefix [p]: the names
    compare as the values of the runs; if the values are equal (whatever the
    number of leading zeros) the comparison continues with the rests. *)
Lemma natural_numeric : forall p d1 d2 s1 s2,
  last_kind p <> Some true ->
  d1 <> [] -> d2 <> [] -> all_digits d1 = true -> all_digits d2 = true ->
  first_kind s1 <> Some true -> first_kind s2 <> Some true ->
  natural_cmp (p ++ d1 ++ s1) (p ++ d2 ++ s2) =
  match digits_val d1 ?= digits_val d2 with
  | Eq => natural_cmp s1 s2
  | o => o
  end.
Proof.
  intros p d1 d2 s1 s2 Hp N1 N2 D1 D2 S1 S2.
  assert (FK : forall d, d <> [] -> all_digits d = true -> first_kind d = Some true).
  { intros [|c r] Hn Hd; [congruence|]. simpl in *. apply Bool.andb_true_iff in Hd. destruct Hd as [-> _]. reflexivity. }
  assert (LK : forall d, d <> [] -> all_digits d = true -> last_kind d = Some true).
  { intros d Hn Hd. unfold last_kind. apply FK.
    - intros E. apply Hn. rewrite <- (rev_involutive d), E. reflexivity.
    - unfold all_digits in *. rewrite forallb_forall in *. intros x Hx. apply Hd. apply in_rev. exact Hx. }
  assert (TK : forall d s, d <> [] -> all_digits d = true -> first_kind s <> Some true ->
               tok_r (p ++ d ++ s) = tok_r p ++ (true, d) :: tok_r s).
  { intros d s Hn Hd Hs.
    rewrite tok_r_app.
    - f_equal. rewrite tok_r_app.
      + rewrite tok_r_digits by assumption. reflexivity.
      + intros ka kb Ha Hb. rewrite (LK d Hn Hd) in Ha. injection Ha as <-. intros <-. apply Hs. exact Hb.
    - intros ka kb Ha Hb.
      assert (first_kind (d ++ s) = Some true) as F.
      { destruct d as [|c r]; [congruence|]. simpl. specialize (FK (c :: r) Hn Hd). simpl in FK. exact FK. }
      rewrite F in Hb. injection Hb as <-. intros ->. apply Hp. exact Ha. }
  unfold natural_cmp. rewrite !tokenize_tok_r.
  rewrite (TK d1 s1 N1 D1 S1), (TK d2 s2 N2 D2 S2).
  rewrite (lex_common_prefix token_cmp wf_token token_cmp_refl) by apply tok_r_wf.
  simpl lex. unfold token_cmp at 1. simpl.
  rewrite cmp_int_val by assumption. reflexivity.
Qed.


(** * Cuts fall on UTF-8 character boundaries *)

(** Well-formed UTF-8 (the sequences accepted by [core::str::from_utf8]). *)
Inductive utf8_valid : bytes -> Prop :=
| U_nil : utf8_valid []
| U_1 : forall b r, b < 128 -> utf8_valid r -> utf8_valid (b :: r)
| U_2 : forall b0 b1 r, 194 <= b0 <= 223 -> is_cont b1 = true -> utf8_valid r ->
    utf8_valid (b0 :: b1 :: r)
| U_3 : forall b0 b1 b2 r, 224 <= b0 <= 239 -> is_cont b1 = true -> is_cont b2 = true ->
    (b0 = 224 -> 160 <= b1) -> (b0 = 237 -> b1 <= 159) -> utf8_valid r ->
    utf8_valid (b0 :: b1 :: b2 :: r)
| U_4 : forall b0 b1 b2 b3 r, 240 <= b0 <= 244 ->
    is_cont b1 = true -> is_cont b2 = true -> is_cont b3 = true ->
    (b0 = 240 -> 144 <= b1) -> (b0 = 244 -> b1 <= 143) -> utf8_valid r ->
    utf8_valid (b0 :: b1 :: b2 :: b3 :: r).

Lemma utf8_valid_app : forall p t, utf8_valid p -> utf8_valid t -> utf8_valid (p ++ t).
Proof.
  intros p t Hp Ht. induction Hp; simpl; [exact Ht| | | |].
  - apply U_1; assumption.
  - apply U_2; assumption.
  - apply U_3; assumption.
  - apply U_4; assumption.
Qed.

Lemma glue_glue : forall k a b ts, glue (k, a) (glue (k, b) ts) = glue (k, a ++ b) ts.
Proof.
  intros k a b [|[k' t'] r]; simpl.
  - rewrite Bool.eqb_reflx. reflexivity.
  - destruct (Bool.eqb k' k) eqn:E; simpl.
    + rewrite Bool.eqb_reflx, app_assoc. reflexivity.
    + rewrite Bool.eqb_reflx. reflexivity.
Qed.

(** A non-empty run of non-digit bytes in front of [r] goes into one token. *)
Lemma tok_r_nondigit_prefix : forall p r, p <> [] -> Forall (fun c => is_digit c = false) p ->
  tok_r (p ++ r) = glue (false, p) (tok_r r).
Proof.
  induction p as [|c p IH]; intros r Hne Hp; [congruence|].
  inversion Hp as [|? ? Hc Hp']; subst. simpl. rewrite Hc.
  destruct p as [|c' p'].
  - reflexivity.
  - rewrite IH by (assumption || discriminate). apply glue_glue.
Qed.

Definition token_valid (t : token) : Prop := utf8_valid (snd t).

Lemma glue_valid : forall k p ts, utf8_valid p -> Forall token_valid ts ->
  Forall token_valid (glue (k, p) ts).
Proof.
  intros k p [|[k' t'] r] Hp Hts; simpl.
  - constructor; [exact Hp|constructor].
  - inversion Hts as [|? ? Ht Hr]; subst. destruct (Bool.eqb k' k).
    + constructor; [|exact Hr]. unfold token_valid. simpl. apply utf8_valid_app; assumption.
    + constructor; [exact Hp|exact Hts].
Qed.

Lemma high_not_digit : forall b, 128 <= b -> is_digit b = false.
Proof. intros b H. unfold is_digit. apply Bool.andb_false_iff. right. apply N.leb_gt. lia. Qed.

Lemma is_cont_high : forall b, is_cont b = true -> 128 <= b.
Proof. intros b H. unfold is_cont in H. apply Bool.andb_true_iff in H. destruct H as [H _]. apply N.leb_le in H. exact H. Qed.

(** On valid UTF-8 every token the tokeniser cuts out is itself valid UTF-8:
    the [get_unchecked] splits never fall inside a multi-byte character (a cut
    is always next to an ASCII digit). *)
Lemma tokens_valid_utf8 : forall s, utf8_valid s -> Forall token_valid (tokenize s).
Proof.
  intros s H. rewrite tokenize_tok_r. induction H.
  - constructor.
  - simpl. apply glue_valid; [|exact IHutf8_valid]. apply U_1; [assumption|constructor].
  - change (b0 :: b1 :: r) with ([b0; b1] ++ r).
    rewrite tok_r_nondigit_prefix.
    + apply glue_valid; [|exact IHutf8_valid]. apply U_2; [assumption|assumption|constructor].
    + discriminate.
    + repeat constructor; apply high_not_digit; [lia|apply is_cont_high; assumption].
  - change (b0 :: b1 :: b2 :: r) with ([b0; b1; b2] ++ r).
    rewrite tok_r_nondigit_prefix.
    + apply glue_valid; [|exact IHutf8_valid]. apply U_3; try assumption. constructor.
    + discriminate.
    + repeat constructor; apply high_not_digit; try lia; apply is_cont_high; assumption.
  - change (b0 :: b1 :: b2 :: b3 :: r) with ([b0; b1; b2; b3] ++ r).
    rewrite tok_r_nondigit_prefix.
    + apply glue_valid; [|exact IHutf8_valid]. apply U_4; try assumption. constructor.
    + discriminate.
    + repeat constructor; apply high_not_digit; try lia; apply is_cont_high; assumption.
Qed.

(** Satisfiability of the hypothesis by a non-trivial value: "a1é2" *)
Example utf8_valid_example : utf8_valid [97; 49; 195; 169; 50].
Proof.
  apply U_1; [lia|]. apply U_1; [lia|]. apply U_2; [lia|reflexivity|]. apply U_1; [lia|]. constructor.
Qed.
