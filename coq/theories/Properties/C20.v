(** C20 — the printed tree is a faithful, well-formed picture of what ran.
    Statements only; each closed by [exact] of a lemma in Proofs/Paint*.v.

    Vocabulary (definitions in Model/Painter.v, Model/DriverPaint.v,
    Model/Parse.v, Proofs/Painter.v, Proofs/PaintDriver.v, Proofs/PaintPrefix.v):
    [paint a t] is the model of what [run_action] writes for the filtered,
    sorted tree [t] under action [a]; [picture a t] is the expected picture
    computed from the tree alone (groups, benchmarks, argument cases,
    thread-count branches, their cells and continuation rows); [layout] lists
    its lines with, for each node line, the flags of its ancestors below the
    top level ([true] = has later siblings) and whether it is the last of its
    siblings; [line_ok] says a text line is: one unit per flag ("│  " for true,
    "   " for false), then "├─ " (not last) or "╰─ " (last) — nothing for a
    top-level line —, then the name, then padding and the cells. *)
From DivanV Require Import Base.Res Model.Painter Model.DriverPaint Model.Parse
  Proofs.Painter Proofs.PaintDriver Proofs.PaintPrefix Proofs.PaintOrder.

(** For ANY sequence of painter operations that does not panic: the depth is
    the number of open parents and the prefix is exactly one 3-column unit per
    open parent below the top level, a bar iff that parent was opened with
    [is_last = false]. *)
Theorem C20_prefix_invariant : forall span ws ops p out,
  exec (painter_new span ws) ops = Ok (p, out) ->
  exists st, track_ops None ops = Some st /\ depth p = st_depth st /\
             prefix p = units_str (st_flags st) /\
             length (prefix p) = 3 * (depth p - 1).
Proof. exact prefix_invariant_ops. Qed.
Print Assumptions C20_prefix_invariant.

(** ... in particular at every point of the painting of a tree. *)
Theorem C20_prefix_invariant_paint : forall a t before after p out,
  paint a t = Ok (p, out) -> paint_ops a t = before ++ after ->
  exists p1 out1 st,
    exec (painter_new (max_span 0 t) (initial_widths a t)) before = Ok (p1, out1) /\
    track_ops None before = Some st /\ depth p1 = st_depth st /\
    prefix p1 = units_str (st_flags st) /\ length (prefix p1) = 3 * (depth p1 - 1).
Proof. exact prefix_invariant_paint. Qed.
Print Assumptions C20_prefix_invariant_paint.

(** The driver never panics, closes every parent it opens and ends at depth 0
    with an empty prefix. *)
Theorem C20_paint_balanced : forall a t,
  forallb is_group t = true -> Forall wf_node t ->
  exists p out, paint a t = Ok (p, out) /\ track_ops None (paint_ops a t) = Some None.
Proof. exact paint_balanced. Qed.
Print Assumptions C20_paint_balanced.

(** Every line of the output is the line the layout of the picture demands:
    bars exactly under ancestors with later siblings, branch glyph for
    non-last and corner glyph for last children, none at the top level;
    continuation rows carry the ancestors' units, a bar iff their node is not
    last, and no glyph; a blank line closes each top-level group. *)
Theorem C20_glyphs_encode_position : forall a t,
  forallb is_group t = true -> Forall wf_node t ->
  exists p out ls, paint a t = Ok (p, out) /\ out = unlines ls /\
                   Forall2 line_ok (layout (picture a t)) ls.
Proof. exact glyphs_encode_position. Qed.
Print Assumptions C20_glyphs_encode_position.

(** The node lines of that layout are the nodes of the picture — every
    selected group, benchmark, argument case and thread-count branch — each
    exactly once, in depth-first order of the given (sorted) tree. *)
Theorem C20_preorder_once : forall a t,
  lay_names (layout (picture a t)) = flat_map preorder (picture a t).
Proof. exact preorder_once. Qed.
Print Assumptions C20_preorder_once.

(** An ignored entry paints one [(ignored)] line and calls nothing. *)
Theorem C20_ignored_entry_ops : forall a id name args threads out is_last,
  run_bench_entry a id name true args threads out is_last = [IgnoreLeaf name is_last].
Proof. exact ignored_entry_ops. Qed.
Print Assumptions C20_ignored_entry_ops.
