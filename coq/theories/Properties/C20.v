(** C20 — the printed tree is a faithful, well-formed picture of what ran.
    Statements only; each closed by [exact] of a lemma in Proofs/Painter*.v. *)
From DivanV Require Import Base.Res Model.Painter Model.DriverPaint Model.Parse Proofs.Painter.

Theorem C20_ignored_entry_ops : forall a id name args threads out is_last,
  run_bench_entry a id name true args threads out is_last = [IgnoreLeaf name is_last].
Proof. exact ignored_entry_ops. Qed.
Print Assumptions C20_ignored_entry_ops.
