(** C20 — the printed tree is a faithful, well-formed picture of what ran.
    Statements only; each closed by [exact] of a lemma in Proofs/Paint*.v.

    Vocabulary (definitions in Model/Painter.v, Model/DriverPaint.v,
    Model/Parse.v, Proofs/Painter.v, Proofs/PaintDriver.v, Proofs/PaintPrefix.v):
    [paint a t] is the model of what [run_action] writes for the filtered,
    sorted tree [t] under action [a]; [picture a t] is the expected picture
    computed from the tree alone (groups, benchmarks, argument cases,
    thread-count branches, their cells and continuation rows); [layout] lists
    its lines with, for each node line, the flags of its ancestors below the
    top level ([true] = has later siblings) and whether it is the last of its
    siblings; [line_ok] says a text line is: one unit per flag ("│  " for true,
    "   " for false), then "├─ " (not last) or "╰─ " (last) — nothing for a
    top-level line —, then the name, then padding and the cells. *)
From DivanV Require Import Model.PaintThreads Proofs.PaintThreads.
From DivanV Require Import Base.Res Generated.Consts2 Model.Painter Model.DriverPaint Model.Parse Model.PaintOk
  Proofs.Painter Proofs.PaintDriver Proofs.PaintPrefix Proofs.PaintOrder
  Proofs.PaintParse Proofs.PaintParse2 Proofs.PaintCalls Proofs.PaintOk.

(** For ANY sequence of painter operations that does not panic: the depth is
    the number of open parents and the prefix is exactly one 3-column unit per
    open parent below the top level, a bar iff that parent was opened with
    [is_last = false]. *)
Theorem C20_prefix_invariant : forall span ws ops p out,
  exec (painter_new span ws) ops = Ok (p, out) ->
  exists st, track_ops None ops = Some st /\ depth p = st_depth st /\
             prefix p = units_str (st_flags st) /\
             length (prefix p) = 3 * (depth p - 1).
Proof. exact prefix_invariant_ops. Qed.
Print Assumptions C20_prefix_invariant.

(** ... in particular at every point of the painting of a tree. *)
Theorem C20_prefix_invariant_paint : forall a t before after p out,
  paint a t = Ok (p, out) -> paint_ops a t = before ++ after ->
  exists p1 out1 st,
    exec (painter_new (max_span 0 t) (initial_widths a t)) before = Ok (p1, out1) /\
    track_ops None before = Some st /\ depth p1 = st_depth st /\
    prefix p1 = units_str (st_flags st) /\ length (prefix p1) = 3 * (depth p1 - 1).
Proof. exact prefix_invariant_paint. Qed.
Print Assumptions C20_prefix_invariant_paint.

(** The driver never panics, closes every parent it opens and ends at depth 0
    with an empty prefix. *)
Theorem C20_paint_balanced : forall a t,
  forallb is_group t = true -> Forall wf_node t ->
  exists p out, paint a t = Ok (p, out) /\ track_ops None (paint_ops a t) = Some None.
Proof. exact paint_balanced. Qed.
Print Assumptions C20_paint_balanced.

(** Every line of the output is the line the layout of the picture demands:
    bars exactly under ancestors with later siblings, branch glyph for
    non-last and corner glyph for last children, none at the top level;
    continuation rows carry the ancestors' units, a bar iff their node is not
    last, and no glyph; a blank line closes each top-level group. *)
Theorem C20_glyphs_encode_position : forall a t,
  forallb is_group t = true -> Forall wf_node t ->
  exists p out ls, paint a t = Ok (p, out) /\ out = unlines ls /\
                   Forall2 line_ok (layout (picture a t)) ls.
Proof. exact glyphs_encode_position. Qed.
Print Assumptions C20_glyphs_encode_position.

(** The node lines of that layout are the nodes of the picture — every
    selected group, benchmark, argument case and thread-count branch — each
    exactly once, in depth-first order of the given (sorted) tree. *)
Theorem C20_preorder_once : forall a t,
  lay_names (layout (picture a t)) = flat_map preorder (picture a t).
Proof. exact preorder_once. Qed.
Print Assumptions C20_preorder_once.

(** The picture is unambiguous: for ALL trees (any depth, any fan-out) whose
    top-level nodes are groups, whose rows have six cells ([wf_node]) and
    whose picture satisfies [picture_okb] (Model/PaintOk.v: names without
    newline, box-drawing character, double or trailing space; top-level names
    non-empty and not starting with a space; cells without newline, glyph or
    separator), the text painted parses back — using only newlines,
    indentation units, glyphs, double spaces and separators, and validating
    every unit, glyph and row prefix on the way — to exactly the skeleton of
    the tree. *)
Theorem C20_parse_render : forall a t,
  forallb is_group t = true -> Forall wf_node t -> picture_okb a t = true ->
  exists p out, paint a t = Ok (p, out) /\ parse out = Some (skeleton a t).
Proof. exact parse_render_b. Qed.
Print Assumptions C20_parse_render.

(** Continuation rows (throughput, max alloc, alloc tallies) belong to the
    node line above them: a row line is never read as a node line (it has no
    glyph), it repeats exactly the units of that node's ancestors followed by
    a bar iff the node is not the last child ([row_prefix]), and its cells are
    the row's cells.  ([C20_glyphs_encode_position] places every [LRow fl last]
    directly under its [LNode fl last]; [C20_parse_render] attaches them in the
    skeleton.) *)
Theorem C20_rows_belong : forall fl last row line,
  forallb nobarb row = true -> forallb (forallb tame_charb) row = true ->
  line_ok (LRow fl last row) line ->
  classify line = TRow line /\
  exists t', strip_prefix (row_prefix fl last) line = Some t' /\
             map trim (split_on c_bar t') = map trim row.
Proof. exact rows_belong. Qed.
Print Assumptions C20_rows_belong.

(** Ignored benchmarks: exactly one [ignore_leaf] operation, whose line shows
    [(ignored)] as its first cell, and no call; over the whole tree the calls
    of benchmark functions are exactly [all_calls] (none for ignored entries,
    none when listing, otherwise one per argument case and thread count, in
    order). *)
Theorem C20_ignored_marked : forall a,
  (forall id name args threads out l,
     run_bench_entry a id name true args threads out l = [IgnoreLeaf name l] /\
     calls_entry a id true args threads = [] /\
     pic_entry a name true args threads out =
       Pic name (Some (if is_bench a then from_first s_ignored else [s_ignored])) [] []) /\
  (forall t, invokes (paint_ops a t) = all_calls a t).
Proof. exact ignored_marked. Qed.
Print Assumptions C20_ignored_marked.

(** The boolean specification evaluated by the violation search holds of the
    model. *)
Theorem C20_model_sb : forall a t,
  forallb is_group t = true -> Forall wf_node t -> picture_okb a t = true ->
  exists p out, paint a t = Ok (p, out) /\ paint_sb a t out = true.
Proof. exact model_sb. Qed.
Print Assumptions C20_model_sb.

(** Obligations on the generated constants (tools/extract_consts2.py): the
    glyph strings and prefix units typed into the model are the ones in
    tree_painter.rs (all branch/corner sites agree), and the common column width
    cap is the code's. *)
Theorem C20_glyph_consts :
  glyph_branch = g_branch /\ glyph_corner = g_corner /\
  glyph_bar_unit = u_bar /\ glyph_space_unit = u_blank /\
  glyph_sites_agree = true /\
  Consts2.max_common_column_width = N.of_nat DriverPaint.max_common_column_width.
Proof. repeat split; reflexivity. Qed.
Print Assumptions C20_glyph_consts.

(** The thread-count branches painted for a benchmark: every 0 read as the
    available parallelism [par], then strictly increasing — each distinct
    resolved count exactly once, in sorted order ([run_bench_entry]'s
    normalisation, modelled in Model/PaintThreads.v). *)
Theorem C20_threads_norm : forall par raw,
  incr (norm_threads par raw) /\
  forall n, In n (norm_threads par raw) <-> In n (resolve_threads par raw).
Proof. exact threads_norm. Qed.
Print Assumptions C20_threads_norm.
