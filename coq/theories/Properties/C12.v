(** C12 — placeholder while the proofs are being written. *)
From DivanV Require Import Base.Res Model.Registry Model.Tree Model.Driver.
Theorem C12_tmp : is_list List = true.
Proof. reflexivity. Qed.
