(** C12 — every #[divan::bench] / #[divan::bench_group] item is registered exactly once.
    Statements only.  PARTIAL at proof level: the linker / .init_array constructor
    mechanism and [syn] parsing are exercised end to end by generated crates
    (tools/props/c12.py), not modelled; the theorems start from the two global
    entry lists (tree level) and from abstract programs (macro level). *)
From Coq Require Import Permutation.
From DivanV Require Import Base.Res Model.Registry Model.Tree Model.Driver
  Proofs.TreeBase Proofs.DriverExec Proofs.DriverC14 Proofs.TreeLeaves Proofs.Flat Proofs.FlatBridge Proofs.Expand
  Proofs.TreeEquiv Proofs.ListView Model.ListPush Proofs.ListPush Proofs.RawAttach Proofs.LookupsAgree.
Local Open Scope N_scope.

(** The leaves of the tree are the registered entries — each exactly once, under
    the raw path its module path (plus, for generic entries, function name and
    type) spells, with all its arguments; nothing else. *)
Theorem C12_tree_complete : forall benches groups,
  Permutation (raw_leaves (build_tree benches groups)) (map rleaf_of (all_entries benches groups)).
Proof. exact tree_complete. Qed.
Print Assumptions C12_tree_complete.

(** Sibling modules are merged: at every level parent names are distinct, i.e.
    the tree is the trie of the raw paths (so it is determined, up to sibling
    order, by its leaves). *)
Theorem C12_modules_merged : forall benches groups, trie_forest (build_tree benches groups).
Proof. exact modules_merged. Qed.
Print Assumptions C12_modules_merged.

Theorem C12_order_independent_leaves : forall es es',
  Permutation es es' -> Permutation (raw_leaves (from_benches es)) (raw_leaves (from_benches es')).
Proof. exact order_independent_leaves. Qed.
Print Assumptions C12_order_independent_leaves.

(** Groups attach by key: in the built tree the chain of (raw name, group) pairs
    above every leaf is a function of the leaf's raw path alone — the slot at
    prefix P holds the last registered group whose attachment key is P
    ([keyed_chain]); group insertion changes nothing else.  The attachment key
    ([attach_key]) of a group is its module path followed by the name of the first
    sibling module equal to its raw name up to a leading "r#". *)
Theorem C12_groups_attach : forall benches groups,
  flat_map leaves_rel (build_tree benches groups)
  = map (rekey (attach_key benches groups) groups) (raw_leaves (build_tree benches groups)).
Proof. exact build_tree_leaves_rel. Qed.
Print Assumptions C12_groups_attach.

(** Hence what a run executes (any ignore flag, run-time options, filter) is,
    as a multiset, what the entries say one by one: display path and options
    of every case come from its own raw path and the groups keyed by its
    prefixes. *)
Theorem C12_registered_cases : forall c benches groups,
  Permutation (exec_forest c [] None (retain (c_filter c) (build_tree benches groups)))
              (filter (fun x => c_filter c (xpath x))
                      (flat_map (keyed_case c (attach_key benches groups) groups) (all_entries benches groups))).
Proof. exact exec_keyed_filtered. Qed.
Print Assumptions C12_registered_cases.

(** With --include-ignored and no filter every registered case runs exactly
    once: one call per plain entry, one per argument value. *)
Theorem C12_all_run_once : forall benches groups,
  Permutation (map call_of (exec_forest cfg_all [] None (retain (c_filter cfg_all) (build_tree benches groups))))
              (flat_map entry_calls (all_entries benches groups)).
Proof. exact all_run_once. Qed.
Print Assumptions C12_all_run_once.

(** Link / constructor order is irrelevant as long as no two group entries attach
    under the same key and the permuted registry attaches them under the same keys
    (it does when no two sibling modules differ only by "r#": C12_attach_order_independent). *)
Theorem C12_order_independent : forall c benches groups benches' groups',
  Permutation benches benches' -> Permutation groups groups' ->
  NoDup (map (attach_key benches groups) groups) ->
  (forall g, In g groups -> attach_key benches' groups' g = attach_key benches groups g) ->
  Permutation (exec_forest c [] None (retain (c_filter c) (build_tree benches groups)))
              (exec_forest c [] None (retain (c_filter c) (build_tree benches' groups'))).
Proof. exact order_independent. Qed.
Print Assumptions C12_order_independent.

(** The property as promised: provided no generic function shares its key with
    another group, with a module that holds benchmarks, or with a prefix of another
    group's key ([no_name_clash]), what a run executes is, as a multiset, the flat
    semantics — every entry under the display names and with the options of the
    [#[divan::bench_group]] modules above it, a generic function's own entry
    standing at its own key, nothing else. *)
Theorem C12_flat_semantics : forall c benches groups,
  no_name_clash (attach_key benches groups) benches groups -> no_raw_twins benches groups ->
  Permutation (exec_forest c [] None (retain (c_filter c) (build_tree benches groups)))
              (flat_exec c benches groups).
Proof. exact exec_flat_no_twins. Qed.
Print Assumptions C12_flat_semantics.

(** [no_raw_twins]: in the tree of the benchmarks' module paths no two sibling
    modules differ only by a leading "r#" (always true of a Rust program: [r#x] and
    [x] are the same identifier).  It gives the agreement of the two lookups the
    previous theorem goes through: *)
Theorem C12_lookups_agree_of_no_twins : forall benches groups,
  no_raw_twins benches groups -> lookups_agree benches groups.
Proof. exact lookups_agree_of_no_twins. Qed.
Print Assumptions C12_lookups_agree_of_no_twins.

Theorem C12_flat_semantics_lookups : forall c benches groups,
  no_name_clash (attach_key benches groups) benches groups -> lookups_agree benches groups ->
  Permutation (exec_forest c [] None (retain (c_filter c) (build_tree benches groups)))
              (flat_exec c benches groups).
Proof. exact exec_flat. Qed.
Print Assumptions C12_flat_semantics_lookups.

Theorem C12_no_raw_twins_registry :
  no_raw_twins [w_bench_a; x_bench] [w_mod_group] /\
  no_name_clash (attach_key [w_bench_a; x_bench] [w_mod_group]) [w_bench_a; x_bench] [w_mod_group].
Proof. exact no_raw_twins_registry. Qed.
Print Assumptions C12_no_raw_twins_registry.

Theorem C12_guard_satisfiable :
  no_name_clash (attach_key [w_bench_a] [w_mod_group]) [w_bench_a] [w_mod_group] /\
  lookups_agree [w_bench_a] [w_mod_group] /\
  ~ no_name_clash (attach_key [w_bench_a] [w_mod_group; w_fn_group]) [w_bench_a] [w_mod_group; w_fn_group].
Proof. exact no_name_clash_example. Qed.
Print Assumptions C12_guard_satisfiable.

(** Registration order changes the built tree itself only by the order of
    siblings: permuting the benchmark entries and the group entries (distinct
    group keys) gives [forest_equiv] trees — equal up to sibling order at every
    level, group slots and argument lists included. *)
Theorem C12_order_independent_tree : forall benches groups benches' groups',
  Permutation benches benches' -> Permutation groups groups' ->
  NoDup (map (attach_key benches groups) groups) ->
  (forall g, In g groups -> attach_key benches' groups' g = attach_key benches groups g) ->
  forest_equiv (build_tree benches groups) (build_tree benches' groups').
Proof. exact tree_order_independent. Qed.
Print Assumptions C12_order_independent_tree.

(** A trie without empty parents is determined, up to sibling order, by the
    chains of its leaves (what the previous theorem rests on). *)
Theorem C12_trie_determined : forall T T',
  trie_forest T -> forallb inhab T = true -> trie_forest T' -> forallb inhab T' = true ->
  Permutation (LR T) (LR T') -> forest_equiv T T'.
Proof. exact (fun T T' HT Hi HT' Hi' Hp =>
  forest_determined T (proj2 (Forall_forall determined T) (fun t _ => all_determined t)) HT Hi T' HT' Hi' Hp). Qed.
Print Assumptions C12_trie_determined.

Theorem C12_built_tree_inhabited : forall benches groups, forallb inhab (build_tree benches groups) = true.
Proof. exact inhab_build_tree. Qed.
Print Assumptions C12_built_tree_inhabited.

(** The [--list] view: for any sort, under the no-name-clash guard, the leaves
    painted by the list action (marked ignored or not; parents left out) are, as a
    multiset, the flat semantics' listing — every registered entry the filter
    keeps (an argument entry if at least one of its arguments passes), under its
    display path — and the walk does not panic. *)
Theorem C12_list_view : forall srt, (forall t, forest_perm t (srt t)) ->
  forall c benches groups,
  no_name_clash (attach_key benches groups) benches groups -> no_raw_twins benches groups ->
  snd (run_action c srt List benches groups) = None /\
  Permutation (painted_leaves (fst (run_action c srt List benches groups))) (flat_list c benches groups).
Proof. exact list_view_no_twins. Qed.
Print Assumptions C12_list_view.

(** Without that guard the property FAILS in divan (finding F8): a module and a
    generic function of the same name share one node; the bench_group's
    [ignore] is lost or not depending on registration order.
    Full statement that cannot hold: [forall groups', Permutation groups groups' -> ...]
    without [NoDup (map group_key groups)]. *)
Theorem C12_name_clash_refuted :
  runs_a (flat_exec cfg_plain [w_bench_a] [w_mod_group; w_fn_group]) = false /\
  runs_a (exec_forest cfg_plain [] None (build_tree [w_bench_a] [w_mod_group; w_fn_group])) = true /\
  runs_a (exec_forest cfg_plain [] None (build_tree [w_bench_a] [w_fn_group; w_mod_group])) = false.
Proof. exact name_clash_refuted. Qed.
Print Assumptions C12_name_clash_refuted.

(** Second member of the F8 class: two generic functions of the same name under
    one module path (nested in different function bodies) share one node and one
    group slot; a function that leaves [ignore] unset is ignored or not depending
    on which of the two was registered last.  [no_name_clash] excludes it
    ([NoDup] of the group keys).  When both functions set the field, each keeps
    its own setting in both orders. *)
Theorem C12_same_name_generic_refuted :
  runs_id 2 (flat_exec cfg_plain [] [s_first; s_second_unset]) = true /\
  runs_id 2 (exec_forest cfg_plain [] None (build_tree [] [s_first; s_second_unset])) = true /\
  runs_id 2 (exec_forest cfg_plain [] None (build_tree [] [s_second_unset; s_first])) = false.
Proof. exact same_name_generic_refuted. Qed.
Print Assumptions C12_same_name_generic_refuted.

Theorem C12_same_name_generic_both_set :
  runs_id 2 (exec_forest cfg_plain [] None (build_tree [] [s_first; s_second_set])) = true /\
  runs_id 2 (exec_forest cfg_plain [] None (build_tree [] [s_second_set; s_first])) = true /\
  runs_id 1 (exec_forest cfg_plain [] None (build_tree [] [s_first; s_second_set])) = false /\
  runs_id 1 (exec_forest cfg_plain [] None (build_tree [] [s_second_set; s_first])) = false.
Proof. exact same_name_generic_both_set. Qed.
Print Assumptions C12_same_name_generic_both_set.

(** The registration lists themselves ([EntryList::push], a lock-free push with the
    store into the new node's [next] field inside the CAS retry loop): for any number
    of overlapping pushes of distinct fresh nodes, every interleaving of their memory
    accesses and any spurious CAS failures, once all pushes have returned the list
    read from the head is the pushed nodes — each exactly once — followed by the
    initial list. *)
Theorem C12_push_linearizable : forall ops L0,
  (forall i, In i ops -> ~ In i L0) ->
  forall h next sched,
  NoDup ops -> spells next h L0 -> NoDup L0 ->
  Forall (fun x => In (fst x) ops) sched ->
  let s := push_run (push_init h next) sched in
  (forall i, In i ops -> l_pc s i = PDone) ->
  exists D, Permutation D ops /\ NoDup (D ++ L0) /\
            forall fuel, (length (D ++ L0) <= fuel)%nat -> walk fuel (l_next s) (l_head s) = D ++ L0.
Proof. exact push_linearizable. Qed.
Print Assumptions C12_push_linearizable.

(** ... and at every moment in between it spells exactly the finished pushes and the initial list. *)
Theorem C12_push_always_consistent : forall ops L0,
  (forall i, In i ops -> ~ In i L0) ->
  forall h next sched,
  spells next h L0 -> NoDup L0 -> Forall (fun x => In (fst x) ops) sched ->
  let s := push_run (push_init h next) sched in
  exists D, (forall i, In i D <-> In i ops /\ l_pc s i = PDone) /\ NoDup (D ++ L0) /\ spells (l_next s) (l_head s) (D ++ L0).
Proof. exact push_always_consistent. Qed.
Print Assumptions C12_push_always_consistent.

(** With the store hoisted out of the retry loop two overlapping pushes lose a node. *)
Theorem C12_push_hoisted_store_refuted :
  let s := fold_left bad_step [1; 2; 2; 1; 1] (push_init None (fun _ => None)) in
  l_pc s 1 = PDone /\ l_pc s 2 = PDone /\ walk 5 (l_next s) (l_head s) = [1].
Proof. exact hoisted_store_loses_a_node. Qed.
Print Assumptions C12_push_hoisted_store_refuted.

Theorem C12_push_hypotheses_satisfiable :
  let s := push_run (push_init (Some 7) (fun _ => None)) [(1, false); (2, false); (2, false); (2, false); (1, false); (1, false); (1, false); (1, false)] in
  l_pc s 1 = PDone /\ l_pc s 2 = PDone /\ walk 5 (l_next s) (l_head s) = [1; 2; 7].
Proof. exact push_example. Qed.
Print Assumptions C12_push_hypotheses_satisfiable.

(** F12 (raw-identifier modules).  The group attaches to the sibling module whose
    name equals its raw name up to a leading "r#": adding or removing the prefix on
    the name looked for changes nothing (edition 2015 spells [mod r#try] as "try" in
    [module_path!()], the group's raw name stays "r#try"). *)
Theorem C12_groups_attach_raw : forall comps raw raw' stored l,
  strip_raw raw = strip_raw raw' -> attach comps raw stored l = attach comps raw' stored l.
Proof. exact groups_attach_raw. Qed.
Print Assumptions C12_groups_attach_raw.

Theorem C12_insert_group_is_attach : forall l g,
  insert_group l g = attach (module_components (g_meta g)) (m_raw (g_meta g)) g l.
Proof. exact insert_group_attach. Qed.
Print Assumptions C12_insert_group_is_attach.

(** ... and it is the insertion at the attachment key, exact from there on. *)
Theorem C12_insert_group_by_key : forall l g, insert_group l g = ig (raw_key l g) g l.
Proof. exact insert_group_ig. Qed.
Print Assumptions C12_insert_group_by_key.

(** Provided no two sibling modules differ only by "r#" ([no_raw_twins_level]), the
    sibling a group attaches to does not depend on the order of the siblings. *)
Theorem C12_attach_order_independent : forall raw l l',
  Permutation l l' -> no_raw_twins_level l -> attach_name raw l = attach_name raw l'.
Proof. exact attach_name_order_independent. Qed.
Print Assumptions C12_attach_order_independent.

Theorem C12_no_raw_twins_satisfiable :
  no_raw_twins_level (map skel_of (from_benches [ABench x_bench; ABench w_bench_a])) /\
  ~ no_raw_twins_level [SNode x_try []; SNode x_rtry []].
Proof. exact no_raw_twins_example. Qed.
Print Assumptions C12_no_raw_twins_satisfiable.

(** The exact-match version (divan before the repair) loses the group: the
    benchmark below [#[divan::bench_group(name = "G", ignore)] mod r#try] runs. *)
Theorem C12_exact_match_refuted :
  let T0 := from_benches [ABench x_bench] in
  runs_a (flat_exec cfg_plain [x_bench] [x_group x_rtry]) = false /\
  map xpath (exec_forest cfg_plain [] None (insert_group_exact T0 (x_group x_rtry))) = [[107; 58; 58; 116; 114; 121; 58; 58; 97]] /\
  exec_forest cfg_plain [] None (insert_group T0 (x_group x_rtry)) = [] /\
  exec_forest cfg_plain [] None (insert_group T0 (x_group x_try)) = [] /\
  exec_forest cfg_plain [] None (build_tree [x_bench] [x_group x_rtry]) = [].
Proof. exact exact_match_refuted. Qed.
Print Assumptions C12_exact_match_refuted.

(** Macro level: one [#[divan::bench]] registers nothing for exclusively empty
    [types]/[consts]; one [BenchEntry] without generics; otherwise one
    [GroupEntry] whose generic entries are exactly the types x consts product
    (types outer, consts inner), all sharing the function's argument list and
    numbered consecutively. *)
Theorem C12_expand_empty : forall mp n b,
  generic_is_empty (bd_types b) (bd_consts b) = true -> expand_bench mp n b = Ok ([], [], n).
Proof. exact expand_bench_empty. Qed.
Print Assumptions C12_expand_empty.

Theorem C12_expand_plain : forall mp n b,
  bd_types b = None -> bd_consts b = None ->
  expand_bench mp n b = Ok ([{| b_id := n; b_meta := bench_meta mp b; b_runner := runner_of n (bd_args b) |}], [], n + 1).
Proof. exact expand_bench_plain. Qed.
Print Assumptions C12_expand_plain.

Theorem C12_expand_exact : forall mp n b,
  generic_is_empty (bd_types b) (bd_consts b) = false ->
  (bd_types b <> None \/ bd_consts b <> None) ->
  consts_compile (bd_consts b) ->
  exists rows,
    expand_bench mp n b
    = Ok ([], [{| g_id := n; g_meta := bench_meta mp b; g_generic := Some rows |}], n + 1 + N.of_nat (length (concat rows)))
    /\ map (map ge_kind) rows = expected_kinds (bd_types b) (consts_values (bd_consts b))
    /\ (forall e, In e (concat rows) -> ge_runner e = runner_of n (bd_args b))
    /\ map ge_id (concat rows) = map (fun i => n + 1 + N.of_nat i) (seq 0 (length (concat rows))).
Proof. exact expand_bench_generic. Qed.
Print Assumptions C12_expand_exact.

Theorem C12_expand_product_count : forall types cs,
  length (concat (expected_kinds types (Some cs))) = (length (types_iter types) * length cs)%nat.
Proof. exact expected_kinds_count. Qed.
Print Assumptions C12_expand_product_count.

(** External consts: 1..20 values are all registered, 0 or more than 20 do not compile. *)
Theorem C12_extern_consts : forall cs,
  ((0 < length cs <= max_extern_count)%nat -> extern_consts cs = Ok cs) /\
  ((max_extern_count < length cs)%nat -> extern_consts cs = Panic Other) /\
  extern_consts [] = Panic OutOfBounds.
Proof. exact (fun cs => conj (extern_consts_ok cs) (conj (extern_consts_too_many cs) extern_consts_none)). Qed.
Print Assumptions C12_extern_consts.

(** The specification evaluated on the implementation's output. *)
Theorem C12_flat_sb_meaning : forall expected got,
  c12_flat_sb expected got = true <-> Permutation expected got.
Proof. exact multiset_eqb_spec. Qed.
Print Assumptions C12_flat_sb_meaning.
