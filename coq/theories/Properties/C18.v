(** C18 — Printed durations, sizes and throughputs are truthful truncations.
    Statements only; each closed by [exact] of a lemma in Proofs/Fmt*.v. *)
From DivanV Require Import Base.Res Generated.Consts Model.FmtF64 Model.FmtDuration Model.FmtScale.
Local Open Scope N_scope.

(** Obligations on the generated constants: the code's tables are the ones the
    property names. *)
Theorem C18_unit_table : unit_picos_table = map fst (tl spec_units).
Proof. reflexivity. Qed.

Theorem C18_suffix_table : unit_suffix_table = map snd spec_units.
Proof. reflexivity. Qed.

Theorem C18_default_sig_figs : fmt_default_sig_figs = 4.
Proof. reflexivity. Qed.

Theorem C18_pico_as_nano : fmt_pico_as_nano_above = 3.
Proof. reflexivity. Qed.

Theorem C18_starts_decimal : scale_starts_decimal = spec_starts false.
Proof. reflexivity. Qed.

Theorem C18_starts_binary : scale_starts_binary = spec_starts true.
Proof. reflexivity. Qed.
