(** C18 — Printed durations, sizes and throughputs are truthful truncations.
    Statements only; each closed by [exact] of a lemma in Proofs/Fmt*.v. *)
From DivanV Require Import Base.Res Generated.Consts Generated.Consts2 Model.FmtF64 Model.FmtDuration Model.FmtScale
  Proofs.FmtF64 Proofs.FmtDuration Proofs.FmtScale.
Local Open Scope N_scope.

(** Obligations on the generated constants: the code's tables are the ones the
    property names. *)
Theorem C18_unit_table : unit_picos_table = map fst (tl spec_units).
Proof. reflexivity. Qed.

Theorem C18_suffix_table : unit_suffix_table = map snd spec_units.
Proof. reflexivity. Qed.

Theorem C18_default_sig_figs : fmt_default_sig_figs = 4.
Proof. reflexivity. Qed.

Theorem C18_pico_as_nano : fmt_pico_as_nano_above = 3.
Proof. reflexivity. Qed.

Theorem C18_starts_decimal : scale_starts_decimal = spec_starts false.
Proof. reflexivity. Qed.

Theorem C18_starts_binary : scale_starts_binary = spec_starts true.
Proof. reflexivity. Qed.

(** * Durations *)

(** For EVERY picosecond value [p] (all of [N], in particular all of u128):
    [Display] prints the numeral of [p / u] truncated toward zero to
    [k = max 0 (4 - d)] decimal places ([render_fix t k] is the canonical
    numeral of [t / 10^k]: integer digits in full, no trailing zeros, no
    exponent — see [C18_numeral_meaning]), a space, and the suffix of [u],
    where [u] is the unit of [C18_unit_largest] and [d] the number of integer
    digits of [floor (p / u)] ([C18_digit_count]). *)
Theorem C18_duration_trunc : forall p,
  let '(u, suffix) := spec_unit 4 p in
  let d := len (digits_of (p / u)) in
  let k := 4 - d in
  fmt_duration p = FOk (render_fix (p * 10 ^ k / u) k ++ [ch_space] ++ suffix).
Proof. exact duration_trunc. Qed.
Print Assumptions C18_duration_trunc.

(** The unit: one of ps ns µs ms s m h d; the largest not exceeding [p];
    values below 1 ns are shown in ns (by default; in ps when at most 3
    significant figures are requested). *)
Theorem C18_unit_largest : forall sig p,
  In (spec_unit sig p) spec_units /\
  (1000 <= p -> fst (spec_unit sig p) <= p /\
                forall u, In u spec_units -> fst u <= p -> fst u <= fst (spec_unit sig p)) /\
  (p < 1000 -> spec_unit sig p = if 3 <? sig then spec_ns else spec_ps).
Proof. exact spec_unit_largest. Qed.
Print Assumptions C18_unit_largest.

(** [digits_of n] is the decimal numeral of [n] (so the fuel of its definition
    never runs out), and its length is the number of integer digits. *)
Theorem C18_digits_of_correct : forall n,
  canon (digits_of n) /\ val (digits_of n) = n.
Proof. exact digits_of_spec. Qed.
Print Assumptions C18_digits_of_correct.

Theorem C18_digit_count : forall n,
  n < 10 ^ len (digits_of n) /\ (0 < n -> 10 ^ (len (digits_of n) - 1) <= n).
Proof. exact digits_of_len_bounds. Qed.
Print Assumptions C18_digit_count.

(** What "the numeral of [a/b] truncated to [max 0 (sig - d)] places" means,
    stated on the parsed string over integers ([numeral_sb]): a canonical
    integer part equal to [floor (a/b)], optionally '.' and at most [sig - d]
    fraction digits not ending in '0', whose value is [floor (a 10^k / b) / 10^k]
    exactly, and nothing else.  There is exactly one such string. *)
Theorem C18_numeral_meaning : forall s a b sig, b <> 0 ->
  (numeral_sb s a b sig = true <-> s = trunc_numeral a b sig).
Proof. exact numeral_sb_spec. Qed.
Print Assumptions C18_numeral_meaning.

(** The same for the precision / width forms, for up to 7 significant figures
    (the table printer uses the default form only; for more than 7 figures the
    pre-scaled integer can exceed 2^53 and, from 11 on, overflow u128 in the
    float path: outside the model's float assumption, see FInexact). *)
Theorem C18_duration_with_trunc : forall prec width p,
  sig_of prec <= 7 ->
  let sig := sig_of prec in
  let '(u, suffix) := spec_unit sig p in
  let d := len (digits_of (p / u)) in
  let k := sig - d in
  fmt_duration_with prec width p =
  FOk (fill_to width (render_fix (p * 10 ^ k / u) k ++ [ch_space] ++ suffix)).
Proof. exact duration_with_trunc. Qed.
Print Assumptions C18_duration_with_trunc.

(** Formatting never panics for any picosecond value, and on the float path
    the 128-bit product cannot overflow and the integer converted to [f64] is
    below 10^15 < 2^53 (so the conversion is exact). *)
Theorem C18_total : forall p, exists s, fmt_duration p = FOk s.
Proof. exact fmt_duration_total. Qed.
Print Assumptions C18_total.

Theorem C18_total_with : forall prec width p, sig_of prec <= 7 ->
  exists s, fmt_duration_with prec width p = FOk s.
Proof. exact fmt_duration_with_total. Qed.
Print Assumptions C18_total_with.

Theorem C18_no_overflow : forall sig p, sig <= 7 -> p < day_v * 10 ^ sig ->
  p * pow10_sat128 sig < 2 ^ 128.
Proof. exact float_path_no_overflow. Qed.
Print Assumptions C18_no_overflow.

Theorem C18_float_operand_exact : forall p, p < day_v * 10 ^ 4 ->
  p * 10 ^ 4 / fst (spec_unit 4 p) < 10 ^ 15 /\ 10 ^ 15 < 2 ^ 53.
Proof. exact float_operand_small. Qed.
Print Assumptions C18_float_operand_exact.

(** The boolean specification evaluated on the implementation's outputs says
    exactly "the output is the specified string", and the model satisfies it. *)
Theorem C18_duration_sb_meaning : forall sig width p out,
  duration_sb sig width p out = true <-> out = FOk (spec_duration_string sig width p).
Proof. exact duration_sb_spec. Qed.
Print Assumptions C18_duration_sb_meaning.

Theorem C18_duration_model_sb : forall prec width p, sig_of prec <= 7 ->
  duration_sb (sig_of prec) width p (fmt_duration_with prec width p) = true.
Proof. exact duration_model_sb. Qed.
Print Assumptions C18_duration_model_sb.

(** * Byte sizes and throughputs (over exact non-negative rationals [a/b]) *)

(** The same rule with decimal (1000^i) or binary (1024^i) prefixes: the model
    ([scale_value]'s comparison chain over the generated tables, the division,
    [format_f64] on the decimal string) prints the numeral of
    [a / (b * st)] truncated to [max 0 (sig - d)] places and the suffix of the
    prefix [i] chosen by [C18_scale_largest].  The floating-point arithmetic
    of the code is idealised as exact here; the implementation is tied to
    this statement "up to double-precision rounding" by [scaled_sb_approx]
    ([C18_scaled_sb_approx_sound]) in the correspondence check. *)
Theorem C18_scaled_trunc : forall f sig a b, b <> 0 -> sig + 1 < 2 ^ 64 ->
  let '(i, st) := spec_scale (sfmt_binary f) a b in
  let d := len (digits_of (a / (b * st))) in
  let k := sig - d in
  fmt_scaled f sig (VQ a b) = Ok (render_fix (a * 10 ^ k / (b * st)) k ++ [ch_space] ++ spec_suffix f i).
Proof. exact scaled_trunc. Qed.
Print Assumptions C18_scaled_trunc.

Theorem C18_scale_largest : forall binary a b, b <> 0 ->
  let '(i, st) := spec_scale binary a b in
  let base := if binary then 1024 else 1000 in
  i <= 5 /\ st = base ^ i /\ (i <> 0 -> st * b <= a) /\ (i <> 5 -> a < base ^ (i + 1) * b).
Proof. exact spec_scale_largest. Qed.
Print Assumptions C18_scale_largest.

(** [format_f64] alone (allocation counts): the numeral rule without a unit. *)
Theorem C18_format_f64_trunc : forall sig a b, b <> 0 -> sig + 1 < 2 ^ 64 ->
  format_f64 sig (VQ a b) = Ok (trunc_numeral a b sig).
Proof. exact format_f64_spec. Qed.
Print Assumptions C18_format_f64_trunc.

(** A zero count prints 0; a zero duration with a non-zero count prints inf. *)
Theorem C18_zero_inf : forall kind binary f, thr_format kind binary = Ok f ->
  (forall picos, display_throughput kind 0 picos binary = Ok ([ch_0; ch_space] ++ spec_suffix f 0)) /\
  (forall count, count <> 0 ->
     display_throughput kind count 0 binary = Ok ([105; 110; 102; ch_space] ++ spec_suffix f 0)).
Proof.
  exact (fun kind binary f Hf =>
    conj (fun picos => throughput_zero_count kind picos binary f Hf)
         (fun count Hc => throughput_zero_duration kind count binary f Hf Hc)).
Qed.
Print Assumptions C18_zero_inf.

(** Otherwise the throughput is the scaled rule for [count * 10^12 / picos]
    with 4 significant figures. *)
Theorem C18_throughput_scaled : forall kind count picos binary f, thr_format kind binary = Ok f ->
  count <> 0 -> picos <> 0 ->
  display_throughput kind count picos binary
  = Ok (spec_scaled_string f 4 (count * 1000000000000) picos).
Proof. exact throughput_scaled. Qed.
Print Assumptions C18_throughput_scaled.

(** No panic for any count, any duration, any of the four counter kinds. *)
Theorem C18_throughput_total : forall kind count picos binary, kind <= 3 ->
  exists s, display_throughput kind count picos binary = Ok s.
Proof. exact throughput_total. Qed.
Print Assumptions C18_throughput_total.

(** Boolean specifications: meaning, the model satisfies them, and the
    tolerant variant only accepts strings that are the exact rule's string
    for a rational within relative 2^-50 of the exact value. *)
Theorem C18_scaled_sb_meaning : forall f sig a b out, b <> 0 ->
  (scaled_sb f sig a b out = true <-> out = spec_scaled_string f sig a b).
Proof. exact scaled_sb_spec. Qed.
Print Assumptions C18_scaled_sb_meaning.

Theorem C18_scaled_model_sb : forall f sig a b, b <> 0 -> sig + 1 < 2 ^ 64 ->
  match fmt_scaled f sig (VQ a b) with
  | Ok s => scaled_sb f sig a b s = true /\ scaled_sb_approx f sig a b s = true
  | Panic _ => False
  end.
Proof. exact scaled_model_sb. Qed.
Print Assumptions C18_scaled_model_sb.

Theorem C18_throughput_model_sb : forall kind count picos binary, kind <= 3 ->
  throughput_sb kind count picos binary (display_throughput kind count picos binary) = true.
Proof. exact throughput_model_sb. Qed.
Print Assumptions C18_throughput_model_sb.

Theorem C18_scaled_sb_approx_sound : forall f sig a b out, b <> 0 ->
  scaled_sb_approx f sig a b out = true ->
  exists x y, y <> 0 /\
    a * (tol - 1) * y <= x * (b * tol) <= a * (tol + 1) * y /\
    out = spec_scaled_string f sig x y.
Proof. exact scaled_sb_approx_sound. Qed.
Print Assumptions C18_scaled_sb_approx_sound.

(** Obligations on the generated suffix tables of util/fmt.rs
    (tools/extract_consts2.py): the unit suffixes typed into [spec_suffix] are
    the code's, for every scale One..Peta. *)
Theorem C18_suffix_tables :
  suffix_bytes_decimal = map (spec_suffix (SBytes false)) [0; 1; 2; 3; 4; 5] /\
  suffix_bytes_binary = map (spec_suffix (SBytes true)) [0; 1; 2; 3; 4; 5] /\
  suffix_chars = map (spec_suffix SChars) [0; 1; 2; 3; 4; 5] /\
  suffix_cycles = map (spec_suffix SCycles) [0; 1; 2; 3; 4; 5] /\
  suffix_items = map (spec_suffix SItems) [0; 1; 2; 3; 4; 5].
Proof. repeat split; reflexivity. Qed.
Print Assumptions C18_suffix_tables.

(** * Glue for C05's printing clause *)

(** Finite non-negative values never print "NaN" or "inf": for every finite
    value [a/b] (b <> 0), every [sig], every suffix family and both byte
    formats, [format_f64] prints a numeral and [fmt_scaled] (so [format_bytes]
    and the finite throughputs) prints [numeral ++ " " ++ suffix] where the
    numeral consists of digits and at most one '.' ([numeral_chars]) and the
    whole string contains neither "NaN" nor "inf"; likewise [fmt_duration p]
    for every [p]. *)
Theorem C18_finite_prints_no_nan :
  (forall sig a b, b <> 0 -> sig + 1 < 2 ^ 64 ->
     exists num, format_f64 sig (VQ a b) = Ok num /\ numeral_chars num /\
       ~ contains nan_str num /\ ~ contains inf_str num) /\
  (forall f sig a b, b <> 0 -> sig + 1 < 2 ^ 64 ->
     exists num i, i <= 5 /\
       fmt_scaled f sig (VQ a b) = Ok (num ++ [ch_space] ++ spec_suffix f i) /\
       numeral_chars num /\
       ~ contains nan_str (num ++ [ch_space] ++ spec_suffix f i) /\
       ~ contains inf_str (num ++ [ch_space] ++ spec_suffix f i)) /\
  (forall p,
     exists num suffix,
       fmt_duration p = FOk (num ++ [ch_space] ++ suffix) /\
       numeral_chars num /\ In suffix (map snd spec_units) /\
       ~ contains nan_str (num ++ [ch_space] ++ suffix) /\
       ~ contains inf_str (num ++ [ch_space] ++ suffix)).
Proof. exact (conj format_f64_prints_no_nan (conj fmt_scaled_prints_no_nan duration_prints_no_nan)). Qed.
Print Assumptions C18_finite_prints_no_nan.

(** The throughput starts with "inf" iff the count is non-zero and the
    duration zero, and never contains "NaN", for the four counter kinds. *)
Theorem C18_inf_iff_zero_duration : forall kind count picos binary, kind <= 3 ->
  exists s, display_throughput kind count picos binary = Ok s /\
    (starts_with inf_str s <-> count <> 0 /\ picos = 0) /\
    ~ contains nan_str s.
Proof. exact throughput_inf_iff. Qed.
Print Assumptions C18_inf_iff_zero_duration.

(** * Explicit precision / width of a throughput
    ([format!("{t:<w$.p$}")] of a [DisplayThroughput]) *)

(** The precision has ONE reader — the number of significant figures — and the
    width only pads (on the right, by byte length): for every precision and
    every width the output is the rule's string for [thr_sig prec] figures
    followed by spaces; it is never cut. *)
Theorem C18_throughput_with_trunc : forall kind count picos binary prec width f,
  thr_format kind binary = Ok f -> thr_sig prec + 1 < 2 ^ 64 -> count <> 0 -> picos <> 0 ->
  display_throughput_with kind count picos binary prec width
  = Ok (fill_to width (spec_scaled_string f (thr_sig prec) (count * 1000000000000) picos)).
Proof. exact throughput_with_spec. Qed.
Print Assumptions C18_throughput_with_trunc.

Theorem C18_throughput_with_default : forall kind count picos binary,
  display_throughput_with kind count picos binary None None = display_throughput kind count picos binary.
Proof. exact throughput_with_default. Qed.
Print Assumptions C18_throughput_with_default.

Theorem C18_throughput_with_model_sb : forall kind count picos binary prec width,
  kind <= 3 -> thr_sig prec + 1 < 2 ^ 64 ->
  throughput_with_sb kind count picos binary prec width
    (display_throughput_with kind count picos binary prec width) = true.
Proof. exact throughput_with_model_sb. Qed.
Print Assumptions C18_throughput_with_model_sb.
