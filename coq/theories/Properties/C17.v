(** C17 — each row is measured with the argument, constant and type it names.
    Statements only.  Pointers into the names slice are indices in the model
    ([slice_ptr_index] is the identity on them), so the theorems are short; the
    weight is on the correspondence (tools/props/c17.py): every argument
    container kind, lengths 0..30, all sorts and reversals, strict-subset
    filters, generated crates with types x consts x args. *)
From Coq Require Import Permutation.
From DivanV Require Import Base.Res Model.Registry Model.Tree Model.Driver
  Proofs.TreeBase Proofs.DriverExec Proofs.DriverC14 Proofs.TreeLeaves Proofs.Flat Proofs.Expand Proofs.DriverC17 Proofs.TypeLabel.
Local Open Scope N_scope.

(** For every registry, filter, ignore flag, sort (any permutation of siblings
    and of argument pointers) and running action: the run does not panic (the
    index taken from a name pointer is always in range) and every executed
    argument case is displayed under a path ending in "::" ++ to_string of the
    value it received. *)
Theorem C17_label_value : forall srt, (forall t, forest_perm t (srt t)) ->
  forall c a benches groups,
  is_list a = false -> a <> ListTerse ->
  snd (run_action c srt a benches groups) = None /\
  Forall label_ok (executed (fst (run_action c srt a benches groups))).
Proof. exact label_value. Qed.
Print Assumptions C17_label_value.

(** The received value is value number [i] of the argument list of the entry
    whose function ran. *)
Theorem C17_received_value : forall srt, (forall t, forest_perm t (srt t)) ->
  forall c a benches groups,
  is_list a = false -> a <> ListTerse ->
  Forall (value_ok (all_entries benches groups)) (executed (fst (run_action c srt a benches groups))).
Proof. exact received_value. Qed.
Print Assumptions C17_received_value.

(** The executed multiset is exactly the selected subset: the registered cases
    that are not ignored and whose display path passes the filter — each once. *)
Theorem C17_selected_subset : forall srt, (forall t, forest_perm t (srt t)) ->
  forall c a benches groups,
  is_list a = false -> a <> ListTerse ->
  Permutation (executed (fst (run_action c srt a benches groups)))
              (filter (fun x => c_filter c (xpath x))
                      (flat_map (keyed_case c (attach_key benches groups) groups) (all_entries benches groups))).
Proof. exact selected_subset. Qed.
Print Assumptions C17_selected_subset.

(** Same statement on any forest, any parent path and inherited options. *)
Theorem C17_label_value_forest : forall c l pp po, Forall label_ok (exec_forest c pp po l).
Proof. exact exec_forest_label. Qed.
Print Assumptions C17_label_value_forest.

(** Thread counts (run-time [--threads] / [Divan::threads]): the row of a case is
    painted under the case's own path (for an argument case: ending in the
    argument's label) whatever the number of thread counts — a leaf for one count, a
    parent with one leaf "t=N" per count for two or more — and the function receives
    the same argument for every count. *)
Theorem C17_row_labels : forall tcs a id name path il arg,
  painted (run_bench tcs a id name path il arg)
  = match tcs with
    | _ :: _ :: _ => (0, path) :: map (fun tc => (2, join_path path (thread_name tc))) tcs
    | _ => [(2, path)]
    end.
Proof. exact row_labels. Qed.
Print Assumptions C17_row_labels.

Theorem C17_same_argument_every_thread_count : forall tcs a id name path il arg,
  invoked_args (run_bench tcs a id name path il arg)
  = match tcs with _ :: _ :: _ => map (fun _ => (id, arg)) tcs | _ => [(id, arg)] end.
Proof. exact same_argument_every_thread_count. Qed.
Print Assumptions C17_same_argument_every_thread_count.

(** Type labels ([EntryType::display_name], repaired: F13).  For every type name:
    the label and [std::any::type_name] agree once every [ident::] path qualifier
    is deleted from both ("the type so named") ... *)
Theorem C17_label_names_type : forall raw, unqualify (type_display raw) = unqualify raw.
Proof. exact label_names_type. Qed.
Print Assumptions C17_label_names_type.

(** ... hence two instantiations of one function share a label only if their type
    names agree up to qualifiers ([a::X] and [b::X] still share "X": the FIXME in
    entry/generic.rs). *)
Theorem C17_labels_distinguish : forall raw1 raw2,
  type_display raw1 = type_display raw2 -> unqualify raw1 = unqualify raw2.
Proof. exact labels_distinguish. Qed.
Print Assumptions C17_labels_distinguish.

(** The label function before the repair fails both: "&a::S" and "a::S" are both labelled "S". *)
Theorem C17_old_label_refuted :
  let r1 := [38; 97; 58; 58; 83] in
  let r2 := [97; 58; 58; 83] in
  type_display_old r1 = type_display_old r2 /\
  unqualify r1 <> unqualify r2 /\
  unqualify (type_display_old r1) <> unqualify r1 /\
  type_display r1 = r1 /\ type_display r2 = [83].
Proof. exact old_label_refuted. Qed.
Print Assumptions C17_old_label_refuted.

(** The argument list of a function is evaluated once per process (first use of
    its [BenchArgs] static) and every runner finds it initialised ... *)
Theorem C17_once : forall es,
  NoDup (args_evaluations es) /\
  (forall e o vals, In e es -> entry_runner e = RArgs o vals -> In o (args_evaluations es)).
Proof. exact evaluated_once. Qed.
Print Assumptions C17_once.

(** ... and is shared by all generic instantiations of the function. *)
Theorem C17_once_shared : forall mp n b rows,
  expand_bench mp n b = Ok ([], [{| g_id := n; g_meta := bench_meta mp b; g_generic := Some rows |}],
                            n + 1 + N.of_nat (length (concat rows))) ->
  generic_is_empty (bd_types b) (bd_consts b) = false ->
  (bd_types b <> None \/ bd_consts b <> None) -> consts_compile (bd_consts b) ->
  forall e, In e (concat rows) -> ge_runner e = runner_of n (bd_args b).
Proof. exact shared_by_instantiations. Qed.
Print Assumptions C17_once_shared.

Theorem C17_label_sb_meaning : forall path v,
  c17_label_sb path v = true <-> exists base, path = base ++ s_colons ++ value_to_string v.
Proof. exact c17_label_sb_spec. Qed.
Print Assumptions C17_label_sb_meaning.
