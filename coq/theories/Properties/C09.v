(** C09 — AllocProfiler is a transparent wrapper around the wrapped allocator.
    Statements only; each closed by [exact] of a lemma in Proofs/Profiler.v.
    [inner] — the wrapped allocator — is an arbitrary function from the history
    of requests it has received to its response (null = [RespPtr 0] included);
    [chk] is the build; [slot] the thread's tally slot ([None]: [try_current()]
    found none).  The logic core below is near-definitional (the model forwards
    what the code forwards); the weight of C09 is the correspondence check of
    the model against the real [AllocProfiler] around a logging mock, and the
    run-time part (no re-entrancy, start-up / tear-down) is tested, not proved. *)
From DivanV Require Import Base.Res Model.Tally Model.Profiler Proofs.Tally Proofs.Profiler.

(** For every request sequence and every behaviour of the wrapped allocator:
    what reached it is exactly the request sequence (same methods, same
    arguments, same order, exactly one call per request), the caller got back
    exactly its answers, and the tally is a function of the requests alone. *)
Theorem C09_transparent : forall inner chk slot reqs log rets s,
  run_prof inner chk slot [] reqs = Ok (log, rets, s) ->
  log = reqs /\ length log = length reqs /\ length rets = length reqs /\
  (forall k, (k < length reqs)%nat -> nth_error rets k = Some (inner (firstn (S k) reqs))) /\
  slot_run chk slot (map op_of_req reqs) = Ok s.
Proof. exact transparent. Qed.
Print Assumptions C09_transparent.

(** The tally update never depends on the wrapped allocator's answers (the
    code tallies before the inner call, failed or not). *)
Theorem C09_tally_independent : forall inner1 inner2 chk slot reqs,
  final_slot (run_prof inner1 chk slot [] reqs) = final_slot (run_prof inner2 chk slot [] reqs) /\
  final_slot (run_prof inner1 chk slot [] reqs) = slot_run chk slot (map op_of_req reqs).
Proof. exact tally_independent. Qed.
Print Assumptions C09_tally_independent.

(** No outcome other than the above exists, except the tally's own overflow
    check in a debug build. *)
Theorem C09_panic_only_from_tally : forall inner chk slot reqs p,
  run_prof inner chk slot [] reqs = Panic p ->
  exists i, slot = Some i /\ run_from chk i (map op_of_req reqs) = Panic p.
Proof. exact panic_only_from_tally. Qed.
Print Assumptions C09_panic_only_from_tally.

(** When the debug tally panics at request [k] ([run_prof_trace] keeps what
    happened before): the wrapped allocator received exactly the first [k]
    requests (none dropped, none added, nothing for request [k] or any later
    one), the caller got the wrapped allocator's answers to those, the run on
    the first [k] requests alone is the panic-free run of [C09_transparent],
    and it is request [k]'s own tally update that panics. *)
Theorem C09_forwarded_prefix : forall inner chk slot reqs log rets p,
  run_prof_trace inner chk slot [] reqs = (log, rets, Panic p) ->
  run_prof inner chk slot [] reqs = Panic p /\
  exists k, (k < length reqs)%nat /\
    log = firstn k reqs /\ length log = k /\
    rets = responses inner [] (firstn k reqs) /\ length rets = k /\
    (forall j, (j < k)%nat -> nth_error rets j = Some (inner (firstn (S j) reqs))) /\
    exists sk r, run_prof inner chk slot [] (firstn k reqs) = Ok (firstn k reqs, rets, sk) /\
                 nth_error reqs k = Some r /\ profiler_step chk sk r = Panic p.
Proof. exact forwarded_prefix. Qed.
Print Assumptions C09_forwarded_prefix.

Theorem C09_trace_ok : forall inner chk slot reqs log rets s,
  run_prof_trace inner chk slot [] reqs = (log, rets, Ok s) <->
  run_prof inner chk slot [] reqs = Ok (log, rets, s).
Proof. exact trace_ok. Qed.
Print Assumptions C09_trace_ok.

Theorem C09_release_total : forall inner slot reqs,
  exists s, run_prof inner false slot [] reqs = Ok (reqs, responses inner [] reqs, s).
Proof. exact release_total. Qed.
Print Assumptions C09_release_total.

Theorem C09_no_slot_total : forall inner chk reqs,
  run_prof inner chk None [] reqs = Ok (reqs, responses inner [] reqs, None).
Proof. exact no_slot_total. Qed.
Print Assumptions C09_no_slot_total.

Theorem C09_guarded_total : forall inner chk reqs,
  no_overflow (map op_of_req reqs) = true ->
  run_prof inner chk (Some info_init) [] reqs
  = Ok (reqs, responses inner [] reqs, Some (spec_info (map op_of_req reqs))).
Proof. exact guarded_total. Qed.
Print Assumptions C09_guarded_total.

(** The boolean specification evaluated on the mock's call log and on the
    values the real profiler returned. *)
Theorem C09_sb_meaning : forall reqs script log rets,
  prof_sb reqs script log rets = true <-> log = reqs /\ rets = script.
Proof. exact prof_sb_meaning. Qed.
Print Assumptions C09_sb_meaning.

Theorem C09_model_sb : forall inner chk slot reqs log rets s,
  run_prof inner chk slot [] reqs = Ok (log, rets, s) ->
  prof_sb reqs (responses inner [] reqs) log rets = true.
Proof. exact prof_model_sb. Qed.
Print Assumptions C09_model_sb.

(** * Re-entrant requests: the wrapped allocator itself issues requests through
    an AllocProfiler (the one wrapping it or another instance) while serving a
    request.  Its behaviour during a run is a forest [f] of (request, answer,
    nested requests); [prof_forest] tallies and forwards nested requests like
    any other (the profiler keeps no state about being "inside" a call).  For
    every forest: the wrapped allocator received exactly the pre-order of the
    requests (nested ones included, one call each, nothing else, nothing
    diverted to another allocator), every requester - the caller or the wrapped
    allocator - was handed the wrapped allocator's answer, and the tally is that
    of the pre-order sequence. *)
Theorem C09_nested_transparent : forall chk slot f s log rets,
  prof_forest chk slot [] f = Ok (s, log, rets) ->
  log = pre_reqs_f f /\ rets = pre_ans_f f /\
  slot_run chk slot (map op_of_req (pre_reqs_f f)) = Ok s.
Proof. exact nested_transparent. Qed.
Print Assumptions C09_nested_transparent.

Theorem C09_nested_panic_only_from_tally : forall chk slot f p,
  prof_forest chk slot [] f = Panic p ->
  slot_run chk slot (map op_of_req (pre_reqs_f f)) = Panic p.
Proof. exact nested_panic_only_from_tally. Qed.
Print Assumptions C09_nested_panic_only_from_tally.

Theorem C09_nested_release_total : forall slot f,
  exists s, prof_forest false slot [] f = Ok (s, pre_reqs_f f, pre_ans_f f).
Proof. exact nested_release_total. Qed.
Print Assumptions C09_nested_release_total.

(** Without nesting this is the flat run of [C09_transparent]. *)
Theorem C09_nested_flat : forall inner chk slot reqs,
  prof_forest chk slot [] (leaves reqs (responses inner [] reqs)) =
  (do x <- run_prof inner chk slot [] reqs; Ok (snd x, fst (fst x), snd (fst x))).
Proof. exact nested_flat. Qed.
Print Assumptions C09_nested_flat.

Theorem C09_nest_model_sb : forall chk slot f s log rets,
  prof_forest chk slot [] f = Ok (s, log, rets) -> nest_sb f log rets = true.
Proof. exact nest_model_sb. Qed.
Print Assumptions C09_nest_model_sb.
