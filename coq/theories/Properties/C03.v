(** C03 — sample_count, sample_size and threads fix the number of calls exactly.
    Statements only; each closed by [exact] of a lemma in Proofs/Loop.v / Proofs/LoopProps.v.
    Model: Model/Loop.v ([bench_loop c init hist]: the sampling loop run on a
    history [hist] = the raw samples each round brought back, one per thread). *)
From DivanV Require Import Base.Res Generated.Consts Model.Timestamp Model.Loop Proofs.Loop Proofs.LoopProps Proofs.LoopSb Proofs.LoopExamples Proofs.LoopMeaning Proofs.LoopTuned.
Local Open Scope N_scope.

(** Obligations on the generated constants: the default sample count and the
    comparisons of the loop condition are the documented ones. *)
Theorem C03_default_count_const : default_sample_count = 100.
Proof. reflexivity. Qed.

Theorem C03_loop_consts :
  default_sample_count = 100 /\ tune_threshold = 100 /\ min_progress_picos = 1000 /\
  tune_factor = 2 /\ max_time_cmp_is_ge = true /\ min_time_cmp_is_lt = true.
Proof. exact consts_loop. Qed.

(** Bench mode, explicit size [s], count [n] (default 100), [t >= 1] threads
    in every round, any history of at least R = ceil(n/t) rounds in which no
    time limit binds (the ceiling is not reached before any of the first R
    rounds, the floor is reached after them): the loop returns after exactly R
    rounds, has recorded t*R samples, every round had size s, and each thread
    (index 0 = the caller) made s*R calls. *)
Theorem C03_exact_counts : forall c init hist out s t,
  c_test c = false -> zero_case c = false -> c_size c = Some s ->
  (0 < t)%nat -> uniform_p t hist ->
  let n := sample_count_of c in
  let r := N.to_nat (ceil_div n (N.of_nat t)) in
  (r <= length hist)%nat ->
  (forall j, (j < r)%nat -> elapsed_after c init hist j < c_max c) ->
  c_min c <= elapsed_after c init hist r ->
  bench_loop c init hist = Ok out ->
  out_done out = true /\
  rounds_of (out_state out) = r /\
  length (st_samples (s_store (out_state out))) = (t * r)%nat /\
  s_sizes (out_state out) = repeat s r /\
  calls_per_thread (out_state out) = s * N.of_nat r /\
  s_size (out_state out) = (if (r =? 0)%nat then 0 else s).
Proof. exact exact_counts. Qed.
Print Assumptions C03_exact_counts.

(** The hypotheses are satisfiable (2 threads, n = 5, s = 3: three rounds, six samples, nine calls per thread). *)
Theorem C03_exact_counts_example :
  exists out, bench_loop ex_cfg 0 ex_hist = Ok out /\ out_done out = true /\
    rounds_of (out_state out) = 3%nat /\ length (st_samples (s_store (out_state out))) = 6%nat /\
    calls_per_thread (out_state out) = 9.
Proof. exact exact_counts_example. Qed.
Print Assumptions C03_exact_counts_example.

(** Test mode (whatever n, s, min, max, skip, as long as none of n, s, max is 0):
    exactly one round of size 1, one call per thread, nothing stored. *)
Theorem C03_test_mode_once : forall c init obs rest,
  c_test c = true -> zero_case c = false -> obs <> [] ->
  exists st, bench_loop c init (obs :: rest) = Ok (Done st) /\
    s_sizes st = [1] /\ calls_per_thread st = 1 /\ s_size st = 1 /\
    s_store st = store_empty /\ stat_sample_count st = 0 /\ stat_iter_count st = Ok 0.
Proof. exact test_mode_once. Qed.
Print Assumptions C03_test_mode_once.

(** n = 0, s = 0 or max_time = 0: no round at all, in bench and in test mode. *)
Theorem C03_zero_runs_nothing : forall c init hist,
  c_count c = Some 0 \/ c_size c = Some 0 \/ c_max c = 0 ->
  bench_loop c init hist = Ok (Done (init_state c)) /\
  rounds_of (init_state c) = 0%nat /\ calls_per_thread (init_state c) = 0 /\
  s_store (init_state c) = store_empty /\
  stat_sample_count (init_state c) = 0 /\ stat_iter_count (init_state c) = Ok 0.
Proof. exact zero_runs_nothing. Qed.
Print Assumptions C03_zero_runs_nothing.

(** Stats.sample_count is the number of recorded samples, Stats.iter_count that
    number times the sample size (guards: the u32 / u64 casts do not truncate). *)
Theorem C03_reported_figures : forall c init hist out,
  c_test c = false -> zero_case c = false ->
  bench_loop c init hist = Ok out ->
  let st := out_state out in
  let m := N.of_nat (length (st_samples (s_store st))) in
  m < 2 ^ 32 -> s_size st * m < 2 ^ 64 ->
  stat_sample_count st = m /\ stat_iter_count st = Ok (s_size st * m) /\
  (forall s, c_size c = Some s -> (0 < rounds_of st)%nat -> s_size st = s).
Proof. exact reported_figures. Qed.
Print Assumptions C03_reported_figures.

(** The boolean specification used by the violation search ([c03_sb]) holds of
    the model's own output whenever the loop returned, for every history with
    [t >= 1] raw samples per round, in both modes, zero cases included (guard:
    fewer than 2^32 recorded samples, so that the u32 cast of the count is exact). *)
Theorem C03_model_sb : forall c init hist out t s,
  bench_loop c init hist = Ok out -> out_done out = true ->
  seen_of_outcome t out = Ok s ->
  let pre := firstn (rounds_of (out_state out)) hist in
  uniform_p t pre -> (0 < t)%nat ->
  N.of_nat (length (st_samples (s_store (out_state out)))) < 2 ^ 32 ->
  c03_sb c t init pre s = true.
Proof. exact c03_model_sb. Qed.
Print Assumptions C03_model_sb.

(** Non-vacuity of [C03_test_mode_once] and [C03_zero_runs_nothing]. *)
Theorem C03_test_mode_example :
  c_test ex_test_cfg = true /\ zero_case ex_test_cfg = false /\
  exists st, bench_loop ex_test_cfg 0 [[ex_raw 1 2; ex_raw 1 3; ex_raw 0 9]; [ex_raw 5 6]] = Ok (Done st) /\
             s_sizes st = [1] /\ s_store st = store_empty.
Proof. exact test_mode_example. Qed.

(** End to end ([c03_e2e_sb]: what one row of the runner's table and the
    per-thread call counters must show for count n, explicit size s on t
    threads): it holds of the figures the model reports whenever no time limit
    binds. *)
Theorem C03_e2e_model : forall c init hist out s t sn,
  c_test c = false -> zero_case c = false -> c_size c = Some s ->
  (0 < t)%nat -> uniform_p t hist ->
  let n := sample_count_of c in
  let r := N.to_nat (ceil_div n (N.of_nat t)) in
  (r <= length hist)%nat ->
  (forall j, (j < r)%nat -> elapsed_after c init hist j < c_max c) ->
  c_min c <= elapsed_after c init hist r ->
  bench_loop c init hist = Ok out -> seen_of_outcome t out = Ok sn ->
  N.of_nat (t * r) < 2 ^ 32 ->
  c03_e2e_sb (c_count c) s (N.of_nat t) false (o_stat_samples sn) (o_stat_iters sn) (o_calls sn) = true.
Proof. exact c03_e2e_model. Qed.
Print Assumptions C03_e2e_model.

(** What the boolean specification [c03_sb] (evaluated on the implementation's
    output by the violation search; [hist] = the rounds that were run, [t] =
    threads, [o] = what was seen) means, in arithmetic. *)
Theorem C03_sb_meaning : forall c t init hist o,
  c03_sb c t init hist o = true <->
  (let k := length hist in
  length (o_calls o) = t /\ length (o_sizes o) = k /\ uniform_p t hist /\
  if zero_case c then
    (* nothing runs *)
    k = 0%nat /\ (forall x, In x (o_calls o) -> x = 0) /\ length (o_samples o) = 0%nat /\
    o_stat_samples o = 0 /\ o_stat_iters o = 0
  else if c_test c then
    (* test mode: one round, one call per thread, nothing stored *)
    k = 1%nat /\ (forall x, In x (o_calls o) -> x = 1) /\ length (o_samples o) = 0%nat /\
    o_stat_samples o = 0 /\ o_stat_iters o = 0
  else
    let recorded := N.of_nat (length (o_samples o)) in
    let last_sz := last (o_sizes o) 0 in
    (* reported figures: samples = recorded, iters = recorded x size, the size
       being the number of calls each recorded sample took (the last round's) *)
    o_stat_samples o = recorded /\ o_stat_iters o = recorded * o_final_size o /\
    o_final_size o = last_sz /\ o_stat_iters o = recorded * last_sz /\
    match c_size c with
    | None => True
    | Some s =>
        let n := sample_count_of c in
        let r := ceil_div n (N.of_nat t) in
        (forall x, In x (o_sizes o) -> x = s) /\
        (forall x, In x (o_calls o) -> x = s * N.of_nat k) /\
        recorded = N.of_nat t * N.of_nat k /\
        o_final_size o = (if (k =? 0)%nat then 0 else s) /\
        (* no time limit reached before the first min(R, k) rounds => k = R = ceil(n/t)
           rounds, unless the ceiling stopped the run earlier or the floor prolonged it *)
        ((forall j, (j < N.to_nat (N.min r (N.of_nat k)))%nat -> elapsed_after c init hist j < c_max c) ->
         (N.of_nat k < r -> c_max c <= elapsed_after c init hist k) /\
         (r <= N.of_nat k ->
          c_min c <= elapsed_after c init hist (N.to_nat r) \/ c_max c <= elapsed_after c init hist (N.to_nat r) ->
          N.of_nat k = r))
    end).
Proof. exact c03_sb_meaning. Qed.
Print Assumptions C03_sb_meaning.

(** Tuned sample size ([c03_tuned_sb], evaluated with [c03_sb] by the violation
    search): with [j0] the first round passing the tuning threshold and
    R = ceil(n/t), when no time limit is reached in the first j0 + R rounds and
    the floor is reached by then, exactly j0 + R rounds are run and t*R samples
    recorded; fewer rounds only if the ceiling was reached.  It holds of the
    model's output for every history ([C19_threshold_round_counts] is the
    same count as a proposition). *)
Theorem C03_tuned_sample_count : forall c init hist out t s,
  c_test c = false ->
  bench_loop c init hist = Ok out -> out_done out = true ->
  seen_of_outcome t out = Ok s -> (0 < t)%nat ->
  c03_tuned_sb c t init (firstn (rounds_of (out_state out)) hist) s = true.
Proof. exact c03_tuned_model_sb. Qed.
Print Assumptions C03_tuned_sample_count.
