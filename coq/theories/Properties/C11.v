(** C11 — Timestamp differences convert to picoseconds exactly, without overflow.
    Statements only; each closed by [exact] of a lemma in Proofs/Timestamp.v. *)
From DivanV Require Import Base.Res Generated.Consts Model.Timestamp Proofs.Timestamp.
Local Open Scope N_scope.

(** Obligation on the generated constant: the code's PICOS is 10^12. *)
Theorem C11_picos_const : tsc_picos_const = 10 ^ 12.
Proof. reflexivity. Qed.

(** Full 64-bit range, any non-zero frequency: exact floor, zero when the counter
    went backwards, and the 128-bit intermediate never overflows. *)
Theorem C11_tsc_exact : forall a b f,
  f <> 0 -> a < 2 ^ 64 -> b < 2 ^ 64 ->
  tsc_duration b a f = Ok (if b <? a then 0 else ((b - a) * 10 ^ 12) / f)
  /\ (b - a) * tsc_picos_const < 2 ^ 128.
Proof. exact tsc_exact. Qed.
Print Assumptions C11_tsc_exact.

Theorem C11_duration_exact : forall secs nanos,
  secs < 2 ^ 64 -> nanos < 10 ^ 9 ->
  fine_from_duration secs nanos = Ok ((secs * 10 ^ 9 + nanos) * 1000).
Proof. exact duration_exact. Qed.
Print Assumptions C11_duration_exact.

Theorem C11_monotone : forall a b b' f,
  f <> 0 -> b <= b' -> tsc_spec b a f <= tsc_spec b' a f.
Proof. exact tsc_monotone. Qed.
Print Assumptions C11_monotone.

Theorem C11_additive : forall a b c f,
  f <> 0 -> a <= b -> b <= c ->
  tsc_spec b a f + tsc_spec c b f <= tsc_spec c a f /\
  tsc_spec c a f <= tsc_spec b a f + tsc_spec c b f + 1.
Proof. exact tsc_additive. Qed.
Print Assumptions C11_additive.

Theorem C11_shift_invariant : forall a b k f,
  a <= b -> tsc_spec (b + k) (a + k) f = tsc_spec b a f.
Proof. exact tsc_shift_invariant. Qed.
Print Assumptions C11_shift_invariant.

(** A clock that advances by the same non-zero amount between any two
    successive reads: the measured precision is that amount, whatever the
    length of the (sufficiently long) stream. *)
Theorem C11_precision_uniform : forall d n,
  0 < d -> d < u128_max -> (101 <= n)%nat ->
  measure_precision (repeat d n) = Some d.
Proof. exact precision_uniform. Qed.
Print Assumptions C11_precision_uniform.

Theorem C11_precision_uniform_ticks : forall t f n,
  f <> 0 -> t < 2 ^ 64 -> 0 < tsc_spec t 0 f -> (101 <= n)%nat ->
  measure_precision (repeat (tsc_spec t 0 f) n) = Some (tsc_spec t 0 f).
Proof. exact precision_uniform_ticks. Qed.
Print Assumptions C11_precision_uniform_ticks.

(** The boolean specifications used by the violation search hold of the model
    ([tsc_sb_spec] says what [tsc_sb] means). *)
Theorem C11_tsc_sb_meaning : forall a b f v,
  f <> 0 -> (tsc_sb a b f (Ok v) = true <-> v = tsc_spec b a f).
Proof. exact tsc_sb_spec. Qed.
Print Assumptions C11_tsc_sb_meaning.

Theorem C11_tsc_model_sb : forall a b f,
  f <> 0 -> a < 2 ^ 64 -> b < 2 ^ 64 -> tsc_sb a b f (tsc_duration b a f) = true.
Proof. exact tsc_model_sb. Qed.
Print Assumptions C11_tsc_model_sb.

Theorem C11_dur_model_sb : forall secs nanos,
  secs < 2 ^ 64 -> nanos < 10 ^ 9 -> dur_sb secs nanos (fine_from_duration secs nanos) = true.
Proof. exact dur_model_sb. Qed.
Print Assumptions C11_dur_model_sb.

Theorem C11_prec_model_sb : forall t f n,
  f <> 0 -> t < 2 ^ 64 -> 0 < tsc_spec t 0 f -> (101 <= n)%nat ->
  prec_sb f t (measure_precision (repeat (tsc_spec t 0 f) n)) = true.
Proof. exact prec_model_sb. Qed.
Print Assumptions C11_prec_model_sb.

(** The precision that is *reported* (and used by the sampling loop) goes
    through a per-kind cache: for every sequence of queries in one process,
    the answer to a query of kind [k] is the value measured by the first query
    of kind [k] — queries of the other kind never change it. *)
Theorem C11_precision_cached_per_kind : forall qs i k m,
  nth_error qs i = Some (k, m) ->
  nth_error (prec_queries pcache_empty qs) i = first_of_kind k qs.
Proof. exact precision_cached_per_kind. Qed.
Print Assumptions C11_precision_cached_per_kind.

Theorem C11_precision_kinds_independent : forall qs k,
  first_of_kind k (filter (fun q => tkind_eqb k (fst q)) qs) = first_of_kind k qs.
Proof. exact precision_kinds_independent. Qed.
Print Assumptions C11_precision_kinds_independent.

Theorem C11_precq_model_sb : forall qs tscv,
  Forall (fun q => match fst q with KTsc => snd q = tscv | KOs => 0 < snd q /\ snd q mod 1000 = 0 end) qs ->
  precq_sb (map fst qs) tscv (prec_queries pcache_empty qs) = true.
Proof. exact precq_model_sb. Qed.
Print Assumptions C11_precq_model_sb.

(** The OS arm of [Timestamp::duration_since] (also what [RawSample::duration]
    computes on the OS timer): the elapsed time between two instants converts
    to exactly its nanoseconds times 1000 — whole seconds included — and to
    zero when the instants are reversed. *)
Theorem C11_os_duration_exact : forall later earlier,
  later < 2 ^ 64 * 10 ^ 9 ->
  os_duration_since later earlier = Ok ((later - earlier) * 1000).
Proof. exact os_duration_exact. Qed.
Print Assumptions C11_os_duration_exact.

Theorem C11_os_duration_reversed : forall later earlier,
  later <= earlier -> os_duration_since later earlier = Ok 0.
Proof. exact os_duration_reversed. Qed.
Print Assumptions C11_os_duration_reversed.

Theorem C11_osd_model_sb : forall earlier later,
  later < 2 ^ 64 * 10 ^ 9 ->
  osd_sb earlier later (os_duration_since later earlier) = true.
Proof. exact osd_model_sb. Qed.
Print Assumptions C11_osd_model_sb.
