(** C15 — options resolve per field: run time over benchmark over innermost group.
    Statements only; each closed by [exact] of a lemma in Proofs/Options.v. *)
From Coq Require Import Permutation.
From DivanV Require Import Base.Res Model.Options Proofs.Options Model.RunnerConfig Proofs.RunnerConfig Model.Filter Model.TreeBuild Proofs.TreeBuild Proofs.TreeGroups.
Local Open Scope N_scope.

(** For every nesting depth ([groups] = the options of the nodes on the path
    from the root, outermost first; [None] = a module without attribute or a
    node without options) and every field: the effective value is the first
    [Some] in [runner; bench; innermost group; ...; outermost group]
    ([None] = the default applies). *)
Theorem C15_resolution : forall (fd : field) (runner : options) (groups : list (option options)) (bench : option options),
  get fd (resolve runner groups bench)
  = first_some (get fd runner :: lproj (get fd) bench :: rev (map (lproj (get fd)) groups)).
Proof. exact resolution. Qed.
Print Assumptions C15_resolution.

Theorem C15_resolution_three_levels : forall (fd : field) (runner bench group : options),
  get fd (resolve runner [Some group] (Some bench))
  = match get fd runner with
    | Some v => Some v
    | None => match get fd bench with Some v => Some v | None => get fd group end
    end.
Proof. exact resolution_three_levels. Qed.
Print Assumptions C15_resolution_three_levels.

(** [BenchOptions::overwrite] itself: field-wise [Option::or], for every field. *)
Theorem C15_overwrite_fieldwise : forall (fd : field) (a b : options),
  get fd (overwrite a b) = opt_or (get fd a) (get fd b).
Proof. exact get_overwrite. Qed.
Print Assumptions C15_overwrite_fieldwise.

(** The effective value of a field depends on that field's values along the
    path only: two configurations that agree on [g] at every level resolve [g]
    identically, whatever their other fields are. *)
Theorem C15_fieldwise_independent : forall (g : field) (r1 r2 : options) (g1 g2 : list (option options)) (b1 b2 : option options),
  get g r1 = get g r2 -> lproj (get g) b1 = lproj (get g) b2 ->
  Forall2 (fun x y => lproj (get g) x = lproj (get g) y) g1 g2 ->
  get g (resolve r1 g1 b1) = get g (resolve r2 g2 b2).
Proof. exact fieldwise_independent. Qed.
Print Assumptions C15_fieldwise_independent.

(** Changing field [f] at one level (a group at any depth, the runner, or the
    benchmark) never changes the effective value of another field [g]. *)
Theorem C15_set_one_level : forall (f g : field) (v : option value)
  (runner : options) (before after : list (option options)) (lvl : options) (bench : option options),
  f <> g ->
  get g (resolve runner (before ++ Some (set_field f v lvl) :: after) bench)
  = get g (resolve runner (before ++ Some lvl :: after) bench)
  /\ get g (resolve (set_field f v runner) (before ++ after) bench) = get g (resolve runner (before ++ after) bench)
  /\ get g (resolve runner (before ++ after) (Some (set_field f v lvl)))
     = get g (resolve runner (before ++ after) (Some lvl)).
Proof. exact set_level_independent. Qed.
Print Assumptions C15_set_one_level.

(** Counters resolve per kind; what the [Bencher] starts with is the resolved
    count of each kind (or nothing). *)
Theorem C15_counters_per_kind : forall (k : counter_kind) (runner : options) (groups : list (option options)) (bench : option options),
  to_collection (o_counters (resolve runner groups bench)) k
  = match first_some (precedence (fun o => cs_get (o_counters o) k) runner groups bench) with
    | Some c => [c]
    | None => []
    end.
Proof. exact counters_resolution. Qed.
Print Assumptions C15_counters_per_kind.

(** [Bencher::counter] replaces the count of its own kind only. *)
Theorem C15_bencher_counter_own_kind : forall (coll : counter_kind -> list N) (k k' : counter_kind) (c : N),
  (k <> k' -> set_counter coll k c k' = coll k')
  /\ set_counter coll k c k = match coll k with [] => [c] | _ :: r => c :: r end.
Proof. exact set_counter_own_kind_only. Qed.
Print Assumptions C15_bencher_counter_own_kind.

(** Thread counts actually run: strictly increasing (sorted, no duplicates),
    never empty, exactly the requested counts with 0 standing for the available
    parallelism ([1] when nothing is requested), never 0. *)
Theorem C15_threads_norm : forall (parallelism : N) (threads : option (list N)),
  let out := thread_counts parallelism threads in
  strictly_increasing out = true
  /\ out <> []
  /\ (forall x, In x out <->
        (wanted_threads parallelism threads = [] /\ x = 1) \/ In x (wanted_threads parallelism threads))
  /\ (parallelism <> 0 -> forall x, In x out -> x <> 0).
Proof. exact threads_norm. Qed.
Print Assumptions C15_threads_norm.

(** A benchmark whose effective [ignore] is true is skipped unless
    [--ignored] / [--include-ignored]; [--ignored] skips exactly those whose
    effective [ignore] is false; [--include-ignored] skips nothing. *)
Theorem C15_ignore_flags : forall (r : run_ignored) (runner : options) (groups : list (option options)) (bench : option options),
  effective_ignore (resolve runner groups bench) = ignore_value runner groups bench
  /\ skipped r runner groups bench =
     match r with
     | RunNo => ignore_value runner groups bench
     | RunYes => false
     | RunOnly => negb (ignore_value runner groups bench)
     end.
Proof. exact ignore_flags. Qed.
Print Assumptions C15_ignore_flags.

(** The runner level: builder calls after parsing, then flags, then DIVAN_*
    variables, then builder calls before parsing; thread lists normalised. *)
Theorem C15_runner_level : forall (fd : field) (before flags env after : options),
  get fd (runner_level before flags env after)
  = first_some [get fd (norm_threads after); get fd (norm_threads flags); get fd (norm_threads env);
                get fd (norm_threads before)].
Proof. exact runner_level_spec. Qed.
Print Assumptions C15_runner_level.

Theorem C15_resolve_model_sb : forall (runner : options) (groups : list (option options)) (bench : option options),
  resolve_sb runner groups bench (resolve runner groups bench) = true.
Proof. exact resolve_sb_model. Qed.
Print Assumptions C15_resolve_model_sb.

Theorem C15_threads_model_sb : forall (parallelism : N) (threads : option (list N)),
  thread_counts_sb parallelism threads (thread_counts parallelism threads) = true.
Proof. exact thread_counts_sb_model. Qed.
Print Assumptions C15_threads_model_sb.

(** The options the violation search derives from the specification alone
    (first [Some] per field) are the model's. *)
Theorem C15_spec_effective : forall (runner : options) (groups : list (option options)) (bench : option options),
  spec_effective runner groups bench = resolve runner groups bench.
Proof. exact spec_effective_correct. Qed.
Print Assumptions C15_spec_effective.

Theorem C15_spec_runner : forall (before flags env after : options),
  spec_runner before flags env after = runner_level before flags env after.
Proof. exact spec_runner_correct. Qed.
Print Assumptions C15_spec_runner.

(** [skip_ext_time] as the bench loop reads it: first set value in precedence
    order, else false. *)
Theorem C15_skip_ext_time : forall (runner : options) (groups : list (option options)) (bench : option options),
  effective_skip_ext (resolve runner groups bench)
  = match first_some (precedence o_skip_ext_time runner groups bench) with Some b => b | None => false end.
Proof. exact skip_ext_resolution. Qed.
Print Assumptions C15_skip_ext_time.

(** The runner-only [bytes_format]: builder call after parsing, then flag, then
    DIVAN_BYTES_FORMAT, then builder call before parsing, else decimal. *)
Theorem C15_runner_bytes_format : forall (before flag env after : option bool),
  bytes_format_level before flag env after
  = match first_some [after; flag; env; before] with Some b => b | None => false end.
Proof. exact bytes_format_level_spec. Qed.
Print Assumptions C15_runner_bytes_format.

(** Seconds given as decimal text ([--min-time] / [--max-time] and their
    DIVAN_* variables): what the model takes the value to be is the exact
    decimal reading — [secs * 10^9 + nanos = int * 10^9 + frac * 10^(9 - k)] for
    [k <= 9] fractional digits, [nanos < 10^9]. (That std's f64 route yields
    this value is an assumption, checked against [parse_seconds] on every run.) *)
Theorem C15_decimal_seconds : forall (text : list N) (s n : N),
  decimal_nanos text = Some (s, n) ->
  exists ip fp i f,
    decimal_parts text = Some (ip, fp) /\ digits_val ip = Some i /\ digits_val fp = Some f /\
    N.of_nat (length fp) <= 9 /\
    n < 10 ^ 9 /\
    s * 10 ^ 9 + n = i * 10 ^ 9 + f * 10 ^ (9 - N.of_nat (length fp)).
Proof. exact decimal_nanos_exact. Qed.
Print Assumptions C15_decimal_seconds.

Theorem C15_digits_positional : forall (l : list N) (c : N),
  digits_val (l ++ [c]) =
  match digits_val l, digit_of c with
  | Some v, Some d => Some (v * 10 + d)
  | _, _ => None
  end.
Proof. exact digits_val_app_digit. Qed.
Print Assumptions C15_digits_positional.

Theorem C15_parse_seconds_model_sb : forall (text : list N),
  parse_seconds_sb text (decimal_nanos text) = true \/
  (exists ip fp, decimal_parts text = Some (ip, fp) /\ 9 < N.of_nat (length fp)).
Proof. exact parse_seconds_sb_model. Qed.
Print Assumptions C15_parse_seconds_model_sb.

(** * The runner's scalar settings (action, timer, sort + reverse, color,
    bytes format, ignored): builder calls, then [config_with_args], then
    builder calls.  The process is refused exactly when clap refuses the
    command line / environment; otherwise every field is decided by the
    highest-precedence source that sets IT — a builder call made after
    parsing, then the flag, then the DIVAN_* variable (where one exists), then
    a builder call made before parsing, then the default — and by nothing else
    (each right-hand side mentions that field's inputs only). *)
Theorem C15_config_refused : forall (before after : list builder_call) (a : cli),
  runner_config_resolve before a after = None <-> clap_accepts a = false.
Proof. exact resolve_rejects. Qed.
Print Assumptions C15_config_refused.

Theorem C15_config_fields : forall (before after : list builder_call) (a : cli) (r : config),
  runner_config_resolve before a after = Some r ->
  cfg_action r = spec_action a
  /\ cfg_timer r = pick [a_timer a; e_timer a] TOs
  /\ cfg_sort r = pick [val_sortr a; val_sort a] SKind
  /\ cfg_reverse r = match val_sortr a, val_sort a with Some _, _ => true | None, _ => false end
  /\ cfg_color r = pick [last_set call_color after; a_color a; last_set call_color before] CAuto
  /\ cfg_bytes_binary r =
     pick [last_set call_bytes after; a_bytes_binary a; e_bytes_binary a; last_set call_bytes before] false
  /\ cfg_ignored r = pick [last_set call_ignored after; args_ignored a; last_set call_ignored before] RunNo.
Proof. exact resolve_fields. Qed.
Print Assumptions C15_config_fields.

(** A builder call changes the field it is about and no other. *)
Theorem C15_config_call_independent : forall (c : config) (b : builder_call),
  cfg_action (apply_call c b) = cfg_action c
  /\ cfg_timer (apply_call c b) = cfg_timer c
  /\ cfg_sort (apply_call c b) = cfg_sort c
  /\ cfg_reverse (apply_call c b) = cfg_reverse c
  /\ (call_color b = None -> cfg_color (apply_call c b) = cfg_color c)
  /\ (call_bytes b = None -> cfg_bytes_binary (apply_call c b) = cfg_bytes_binary c)
  /\ (call_ignored b = None -> cfg_ignored (apply_call c b) = cfg_ignored c).
Proof. exact call_independent. Qed.
Print Assumptions C15_config_call_independent.

(** [--sort] / [--sortr]: the later flag wins; a value for both (flag or
    variable, after that) is refused. *)
Theorem C15_config_sort_flags : forall (a : cli) (s r : sorting),
  a_sort a = Some s -> a_sortr a = Some r ->
  cli_sort a = (if a_sortr_last a then None else Some s) /\ cli_sortr a = (if a_sortr_last a then Some r else None).
Proof. exact sort_flags_last_wins. Qed.
Print Assumptions C15_config_sort_flags.

Theorem C15_config_sort_conflict : forall (a : cli) (s r : sorting),
  val_sort a = Some s -> val_sortr a = Some r -> clap_accepts a = false.
Proof. exact sort_conflict_refused. Qed.
Print Assumptions C15_config_sort_conflict.

Theorem C15_config_spec : forall (before after : list builder_call) (a : cli),
  runner_config_resolve before a after = config_spec before a after.
Proof. exact config_spec_correct. Qed.
Print Assumptions C15_config_spec.

(** * The tree whose groups lend their options ("else the nearest enclosing
    bench_group that sets it"): [from_benches] in ANY registration order puts
    every benchmark into the tree exactly once, below exactly the parents its
    module path names (none carrying a group yet), and never makes two sibling
    parents with the same raw name — so there is one node per module for a
    group to sit on, wherever a same-named function's leaf was registered. *)
Theorem C15_tree_from_benches : forall (paths : list (list str)),
  Permutation (leaf_chains (from_benches paths)) (expected_from 0 paths)
  /\ uniq (from_benches paths).
Proof. exact from_benches_spec. Qed.
Print Assumptions C15_tree_from_benches.

(** Kept for reference; the full statement is now [C15_tree_groups_shape] /
    [C15_options_on_tree_spec] below.  Formerly: PARTIAL.  Full statement (checked on every run by the boolean
    specification of the stream [tree-build-options], not yet proved):
      for all [paths], [groups], options and [runner], and every benchmark [i]
      with module path [p], [options_on_tree runner gopt bopt (build_tree paths groups)]
      gives [i] the options [spec_options_of_bench runner groups gopt (bopt i) p]
      (level [k] of [p] carries the LAST registered group whose module path is the
      first [k-1] components of [p] and whose raw name is component [k] up to [r#]),
      provided no two sibling modules differ by an [r#] prefix only.
    Proved here: inserting the groups changes group slots only — names, leaves
    and their order stay as [from_benches] built them — and keeps sibling parents
    distinct.  Missing: that the slot [insert_group] sets is the one the
    specification names (needs the address of a node to be tied to the module
    paths of the benchmarks below it). *)
Theorem C15_tree_groups_shape_partial : forall (paths : list (list str)) (groups : list (list str * str)),
  map erase_tree (build_tree paths groups) = map erase_tree (from_benches paths)
  /\ uniq (build_tree paths groups).
Proof. exact build_tree_shape. Qed.
Print Assumptions C15_tree_groups_shape_partial.

(** Full: in any registration order of the benchmarks and the groups, the
    chain of (module, group) pairs above every benchmark of the built tree is the
    specification's — level [k] of its module path [p] carries the LAST registered
    group whose module path is the first [k-1] components of [p] and whose raw
    name is component [k] up to an [r#] prefix, or none — provided no two module
    names differ by an [r#] prefix only. *)
Theorem C15_tree_groups_shape : forall (paths : list (list str)) (groups : list (list str * str)),
  no_raw_twins paths ->
  Permutation (leaf_chains (build_tree paths groups)) (spec_chains_from groups 0 paths).
Proof. exact tree_groups_shape. Qed.
Print Assumptions C15_tree_groups_shape.

(** Hence the options every benchmark gets when [run_tree] walks the built
    tree are those of its nearest enclosing groups, resolved field-wise
    (runner, benchmark, innermost .. outermost group). *)
Theorem C15_options_on_tree_spec : forall (runner : options) (gopt bopt : nat -> option options)
  (paths : list (list str)) (groups : list (list str * str)),
  no_raw_twins paths ->
  Permutation (options_on_tree runner gopt bopt (build_tree paths groups))
              (spec_options_from runner groups gopt bopt 0 paths).
Proof. exact options_on_tree_correct. Qed.
Print Assumptions C15_options_on_tree_spec.
