(** C02 — Only the benchmarked calls happen inside a sample's timed section.
    Statements only; each closed by [exact] of a lemma in Proofs/SampleTimed.v. *)
From DivanV Require Import Base.Res Model.Sample Proofs.Sample Proofs.SampleTimed Proofs.SampleMeaning.
Local Open Scope nat_scope.

(** For every entry point, type shape, sample size, counter set, with and
    without barrier: the observable events of a sample are
    [generation and counting] ++ [start synchronisation with the one tally clear]
    ++ start timestamp ++ [the n calls, in order, each with at most the called
    function's own drop of its argument] ++ end timestamp ++ [end barrier] ++
    tally snapshot ++ [drops of outputs and inputs]. *)
Theorem C02_timed_section_pure : forall e sh n cs u multi,
  let v := vis_of e sh multi in
  exists pre post,
    obs v (sample_prog e sh n cs u) =
      (pre ++ start_sync multi) ++ OTsStart ::
      flat_map (call_events v (by_ref e) u) (seq 0 n) ++ OTsEnd ::
      end_sync multi ++ OSnapshot :: post
    /\ Forall (fun ev => match ev with OGen _ | OCount _ _ => True | _ => False end) pre
    /\ Forall (fun ev => match ev with ODropOut _ | ODropIn _ => True | _ => False end) post.
Proof. exact timed_decomposition. Qed.
Print Assumptions C02_timed_section_pure.

Theorem C02_calls_in_order : forall v r u n,
  filter (fun e => match e with OCall _ _ => true | _ => false end)
         (flat_map (call_events v r u) (seq 0 n))
  = map (fun i => OCall i i) (seq 0 n).
Proof. exact calls_in_order. Qed.
Print Assumptions C02_calls_in_order.

(** The same on the internal actions of the loop: between the timestamps, per
    index in order, the call, possibly the callee's own drop of its argument,
    and the loop's disposal of the output (store / forget / trivial drop). *)
Theorem C02_timed_actions : forall e sh n cs u,
  let s := eff_shape e sh in
  let p := path_of s in
  sample_prog e sh n cs u =
    gen_phase p (eff_counters e cs) n ++ [SyncStart; TsStart] ++
    flat_map (fun i => [Call i (by_ref e) (in_cell p)]
                       ++ (if negb (by_ref e) && u then [UserDropIn i] else [])
                       ++ [out_action p i]) (seq 0 n) ++
    [TsEnd; SyncEnd; Snapshot] ++ drop_phase p s (by_ref e) n
  /\ Forall (fun a => match a with Gen _ | Count _ _ | ForgetIn _ => True | _ => False end)
            (gen_phase p (eff_counters e cs) n)
  /\ Forall (fun a => match a with DropOut _ _ | DropIn _ _ => True | _ => False end)
            (drop_phase p s (by_ref e) n).
Proof. exact timed_actions. Qed.
Print Assumptions C02_timed_actions.

(** The boolean specification evaluated on implementation logs holds of the model. *)
Theorem C02_sb_timed_model : forall e sh n cs u multi,
  sb_timed (obs (vis_of e sh multi) (sample_prog e sh n cs u)) = true.
Proof. exact sb_timed_model. Qed.
Print Assumptions C02_sb_timed_model.

(** For every allocation script attached to generator, counters, benchmarked
    function and destructors, and whatever the thread had tallied before: the
    figures copied by the snapshot are the tally of exactly the operations
    performed inside the calls, in order. *)
Theorem C02_alloc_attribution : forall e sh n cs u script before,
  snapshot_figures (run_tally script (sample_prog e sh n cs u) (tstate0 before))
  = Some (tally_of (timed_ops script (path_of (eff_shape e sh)) (by_ref e) u n)).
Proof. exact alloc_attribution. Qed.
Print Assumptions C02_alloc_attribution.

Theorem C02_timed_ops_are_the_calls : forall script p r u n,
  timed_ops script p r u n =
  flat_map (fun i => script (Call i r (in_cell p))
                     ++ (if negb r && u then script (UserDropIn i) else [])) (seq 0 n).
Proof. exact timed_ops_calls. Qed.
Print Assumptions C02_timed_ops_are_the_calls.

(** Allocations of generator, counters and destructors are never reported. *)
Theorem C02_outside_allocations_invisible : forall e sh n cs u script before,
  (forall i r c, script (Call i r c) = []) -> (forall i, script (UserDropIn i) = []) ->
  snapshot_figures (run_tally script (sample_prog e sh n cs u) (tstate0 before)) = Some figures0.
Proof. exact no_call_ops_zero. Qed.
Print Assumptions C02_outside_allocations_invisible.

(** Run level: the figures the model reports per sample are the specification's. *)
Theorem C02_sample_figures : forall c s before,
  sample_figures c s before = Some (spec_figures c s).
Proof. exact sample_figures_spec. Qed.
Print Assumptions C02_sample_figures.

(** What [sb_timed] means for ANY event list (in particular an implementation
    log): nothing but calls between the two timestamps; generation, counting and
    the one tally clear before the start; the snapshot after the end and before
    every drop. *)
Theorem C02_sb_timed_meaning : forall (l : list (oev N)),
  sb_timed l = true ->
  exists pre timed sync post,
    l = pre ++ OTsStart :: timed ++ OTsEnd :: sync ++ OSnapshot :: post
    /\ Forall (fun e => is_pre_ev e = true) pre
    /\ length (filter is_clear pre) = 1
    /\ Forall (fun e => is_timed_ev e = true) timed
    /\ Forall (fun e => is_end_sync_ev e = true) sync
    /\ Forall (fun e => is_post_ev e = true) post.
Proof. exact (@sb_timed_meaning N). Qed.
Print Assumptions C02_sb_timed_meaning.
