(** C05 — Reported statistics are the exact order statistics of the samples.
    Statements only; each closed by [exact] of a lemma in Proofs/Stats.v. *)
From DivanV Require Import Base.Res Model.Stats Proofs.Stats.
Local Open Scope N_scope.

Theorem C05_total_refuted_zero_sample_size :
  forall dbg, compute_stats true dbg [(0, 1)]
    {| in_size := 0; in_durs := [1]; in_allocs := []; in_counters := [] |} = Panic DivByZero.
Proof. exact zero_sample_size_panics. Qed.
Print Assumptions C05_total_refuted_zero_sample_size.
