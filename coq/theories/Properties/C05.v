(** C05 — Reported statistics are the exact order statistics of the samples.
    Statements only; each closed by [exact] of a lemma in Proofs/Stats.v.

    [compute_stats fixed dbg sv inp] is the model of [BenchContext::compute_stats]
    ([fixed = true]: the current code; [dbg]: overflow checks on/off); [sv] is
    the sorted view of the samples the sort produced.  All theorems hold for
    *every* admissible view, i.e. every permutation of the indexed samples that
    is sorted by duration ([C05_admissible_meaning]). *)
From Coq Require Import Permutation Sorted.
From DivanV Require Import Base.Res Model.Stats Proofs.Stats.
Local Open Scope N_scope.

Theorem C05_admissible_meaning : forall durs sv,
  admissibleb durs sv = true <->
  Permutation sv (indexed durs) /\ StronglySorted (fun a b => snd a <= snd b) sv.
Proof. exact admissibleb_iff. Qed.
Print Assumptions C05_admissible_meaning.

(** The specification functions: least and greatest element, the sorted
    permutation of the durations, and the four figures in terms of them. *)
Theorem C05_spec_meaning : forall durs,
  (durs <> [] -> In (list_min durs) durs /\ Forall (fun y => list_min durs <= y) durs) /\
  (durs <> [] -> In (list_max durs) durs /\ Forall (fun y => y <= list_max durs) durs) /\
  Permutation (sort_vals durs) durs /\ StronglySorted N.le (sort_vals durs) /\
  (forall s, spec_fastest durs s = list_min durs / s) /\
  (forall s, spec_slowest durs s = list_max durs / s) /\
  (forall s, durs <> [] -> spec_median durs s =
     if Nat.even (length durs)
     then ((nth (length durs / 2 - 1) (sort_vals durs) 0 + nth (length durs / 2) (sort_vals durs) 0) / 2) / s
     else nth (length durs / 2) (sort_vals durs) 0 / s) /\
  (forall s, s * N.of_nat (length durs) <> 0 ->
     spec_mean durs s = sum_list durs / (s * N.of_nat (length durs))) /\
  (forall s, spec_median [] s = 0 /\ spec_mean [] s = 0 /\ spec_fastest [] s = 0 /\ spec_slowest [] s = 0).
Proof. exact spec_meaning. Qed.
Print Assumptions C05_spec_meaning.

(** fastest / slowest = least / greatest duration / sample size; median = the
    middle sample (floor of the mean of the two middle ones for an even count)
    / sample size; mean = total duration / total iteration count; all in floor
    division on integer picoseconds.  Guard: the u128 total and the u64
    iteration count do not overflow ([no_overflow]). *)
Theorem C05_order_stats : forall dbg sv inp st,
  admissibleb (in_durs inp) sv = true -> no_overflow inp ->
  compute_stats true dbg sv inp = Ok st ->
  fastest (st_time st) = spec_fastest (in_durs inp) (in_size inp) /\
  slowest (st_time st) = spec_slowest (in_durs inp) (in_size inp) /\
  median (st_time st) = spec_median (in_durs inp) (in_size inp) /\
  mean (st_time st) = spec_mean (in_durs inp) (in_size inp) /\
  st_iter_count st = in_size inp * N.of_nat (length (in_durs inp)) /\
  st_sample_count st = N.of_nat (length (in_durs inp)) mod 2 ^ 32.
Proof. exact order_stats. Qed.
Print Assumptions C05_order_stats.

(** The inequalities hold with the floor divisions (mean divides the total by
    the total count, the others one sample by the size). *)
Theorem C05_bounds : forall dbg sv inp st,
  admissibleb (in_durs inp) sv = true -> size_ok inp -> no_overflow inp ->
  compute_stats true dbg sv inp = Ok st ->
  fastest (st_time st) <= median (st_time st) <= slowest (st_time st) /\
  fastest (st_time st) <= mean (st_time st) <= slowest (st_time st).
Proof. exact bounds. Qed.
Print Assumptions C05_bounds.

(** No panic and every f64 field finite (neither NaN nor infinite), for all
    inputs in which a sample size of 0 comes with no samples ([size_ok]); a
    build without overflow checks needs no further guard.  Includes the empty
    sample list, sample size 0, no counters. *)
Theorem C05_total_no_nan : forall dbg sv inp,
  admissibleb (in_durs inp) sv = true -> size_ok inp -> (dbg = true -> no_overflow inp) ->
  exists st, compute_stats true dbg sv inp = Ok st /\
             forallb xq_is_fin (all_xq st) = true /\ existsb xq_is_nan (all_xq st) = false.
Proof. exact total_no_nan. Qed.
Print Assumptions C05_total_no_nan.

(** Without [size_ok] the clause is false: samples with sample size 0 make the
    current code divide by zero (not reachable from the sampling loop, which
    returns early for a sample size of 0). *)
Theorem C05_total_refuted_zero_sample_size :
  forall dbg, compute_stats true dbg [(0, 1)]
    {| in_size := 0; in_durs := [1]; in_allocs := []; in_counters := [] |} = Panic DivByZero.
Proof. exact zero_sample_size_panics. Qed.
Print Assumptions C05_total_refuted_zero_sample_size.
