(** C05 — Reported statistics are the exact order statistics of the samples.
    Statements only; each closed by [exact] of a lemma in Proofs/Stats.v.

    [compute_stats fixed dbg sv inp] is the model of [BenchContext::compute_stats]
    ([fixed = true]: the current code; [dbg]: overflow checks on/off); [sv] is
    the sorted view of the samples the sort produced.  All theorems hold for
    *every* admissible view, i.e. every permutation of the indexed samples that
    is sorted by duration ([C05_admissible_meaning]). *)
From Coq Require Import Permutation Sorted.
From DivanV Require Import Base.Res Model.Stats Proofs.Stats Proofs.StatsProv Proofs.StatsSb Proofs.StatsStore Proofs.StatsAlloc Proofs.StatsBlocks.
Local Open Scope N_scope.

Theorem C05_admissible_meaning : forall durs sv,
  admissibleb durs sv = true <->
  Permutation sv (indexed durs) /\ StronglySorted (fun a b => snd a <= snd b) sv.
Proof. exact admissibleb_iff. Qed.
Print Assumptions C05_admissible_meaning.

(** The specification functions: least and greatest element, the sorted
    permutation of the durations, and the four figures in terms of them. *)
Theorem C05_spec_meaning : forall durs,
  (durs <> [] -> In (list_min durs) durs /\ Forall (fun y => list_min durs <= y) durs) /\
  (durs <> [] -> In (list_max durs) durs /\ Forall (fun y => y <= list_max durs) durs) /\
  Permutation (sort_vals durs) durs /\ StronglySorted N.le (sort_vals durs) /\
  (forall s, spec_fastest durs s = list_min durs / s) /\
  (forall s, spec_slowest durs s = list_max durs / s) /\
  (forall s, durs <> [] -> spec_median durs s =
     if Nat.even (length durs)
     then ((nth (length durs / 2 - 1) (sort_vals durs) 0 + nth (length durs / 2) (sort_vals durs) 0) / 2) / s
     else nth (length durs / 2) (sort_vals durs) 0 / s) /\
  (forall s, s * N.of_nat (length durs) <> 0 ->
     spec_mean durs s = sum_list durs / (s * N.of_nat (length durs))) /\
  (forall s, spec_median [] s = 0 /\ spec_mean [] s = 0 /\ spec_fastest [] s = 0 /\ spec_slowest [] s = 0).
Proof. exact spec_meaning. Qed.
Print Assumptions C05_spec_meaning.

(** fastest / slowest = least / greatest duration / sample size; median = the
    middle sample (floor of the mean of the two middle ones for an even count)
    / sample size; mean = total duration / total iteration count; all in floor
    division on integer picoseconds.  Guard: the u128 total and the u64
    iteration count do not overflow ([no_overflow]). *)
Theorem C05_order_stats : forall dbg sv inp st,
  admissibleb (in_durs inp) sv = true -> no_overflow inp ->
  compute_stats true dbg sv inp = Ok st ->
  fastest (st_time st) = spec_fastest (in_durs inp) (in_size inp) /\
  slowest (st_time st) = spec_slowest (in_durs inp) (in_size inp) /\
  median (st_time st) = spec_median (in_durs inp) (in_size inp) /\
  mean (st_time st) = spec_mean (in_durs inp) (in_size inp) /\
  st_iter_count st = in_size inp * N.of_nat (length (in_durs inp)) /\
  st_sample_count st = N.of_nat (length (in_durs inp)) mod 2 ^ 32.
Proof. exact order_stats. Qed.
Print Assumptions C05_order_stats.

(** The inequalities hold with the floor divisions (mean divides the total by
    the total count, the others one sample by the size). *)
Theorem C05_bounds : forall dbg sv inp st,
  admissibleb (in_durs inp) sv = true -> size_ok inp -> no_overflow inp ->
  compute_stats true dbg sv inp = Ok st ->
  fastest (st_time st) <= median (st_time st) <= slowest (st_time st) /\
  fastest (st_time st) <= mean (st_time st) <= slowest (st_time st).
Proof. exact bounds. Qed.
Print Assumptions C05_bounds.

(** No panic and every f64 field finite (neither NaN nor infinite), for all
    inputs in which a sample size of 0 comes with no samples ([size_ok]); a
    build without overflow checks needs no further guard.  Includes the empty
    sample list, sample size 0, no counters. *)
Theorem C05_total_no_nan : forall dbg sv inp,
  admissibleb (in_durs inp) sv = true -> size_ok inp -> (dbg = true -> no_overflow inp) ->
  exists st, compute_stats true dbg sv inp = Ok st /\
             forallb xq_is_fin (all_xq st) = true /\ existsb xq_is_nan (all_xq st) = false.
Proof. exact total_no_nan. Qed.
Print Assumptions C05_total_no_nan.

(** Without [size_ok] the clause is false: samples with sample size 0 make the
    current code divide by zero (not reachable from the sampling loop, which
    returns early for a sample size of 0). *)
Theorem C05_total_refuted_zero_sample_size :
  forall dbg, compute_stats true dbg [(0, 1)]
    {| in_size := 0; in_durs := [1]; in_allocs := []; in_counters := [] |} = Panic DivByZero.
Proof. exact zero_sample_size_panics. Qed.
Print Assumptions C05_total_refuted_zero_sample_size.

(** Same-sample clause.  [column_of_sample inp st selq seln smp]: column
    [selq]/[seln] of [st] shows, for the one sample [smp] = (index, duration) of
    the recorded samples, its duration / sample size, the ten allocation figures
    recorded for *its index* / sample size (0 when none were recorded) and its
    counter values.  [median_of_two]: two different samples, durations, allocation
    figures and counter values averaged.  Guards: a non-zero sample size, at
    least one sample, no overflow of the totals, counter values are u64. *)
Theorem C05_provenance : forall dbg sv inp st,
  admissibleb (in_durs inp) sv = true -> in_size inp <> 0 -> in_durs inp <> [] ->
  no_overflow inp -> counts_u64 inp ->
  compute_stats true dbg sv inp = Ok st ->
  (exists f, snd f = list_min (in_durs inp) /\ column_of_sample inp st fastest fastest f) /\
  (exists l, snd l = list_max (in_durs inp) /\ column_of_sample inp st slowest slowest l) /\
  (if Nat.even (length (in_durs inp))
   then exists m0 m1, snd m0 = mid_lo (in_durs inp) /\ snd m1 = mid_hi (in_durs inp) /\
                      median_of_two inp st m0 m1
   else exists m, snd m = mid_hi (in_durs inp) /\ column_of_sample inp st median median m).
Proof. exact provenance. Qed.
Print Assumptions C05_provenance.

(** Means: every allocation mean is the total over all recorded allocation
    infos / total iteration count (at least 1); a counter's mean is the sum of
    its recorded values / their number. *)
Theorem C05_means : forall dbg sv inp st,
  no_overflow inp -> counts_u64 inp -> compute_stats true dbg sv inp = Ok st ->
  Forall2 (fun x t => xq_eqb x (Fin t (N.max (in_size inp * N.of_nat (length (in_durs inp))) 1)) = true)
          (column_of mean st) (totals_of inp) /\
  Forall2 (fun ci o => forall set, o = Some set ->
             ci_counts ci <> [] /\
             mean set = sum_list (ci_counts ci) / N.of_nat (length (ci_counts ci)))
          (in_counters inp) (st_counts st).
Proof. exact means. Qed.
Print Assumptions C05_means.

(** A counter kind is reported iff samples exist and a value was recorded (for
    every sample, when the counter is per input). *)
Theorem C05_counter_presence : forall dbg sv inp st,
  admissibleb (in_durs inp) sv = true -> compute_stats true dbg sv inp = Ok st ->
  Forall2 (fun ci o => forall b, expect_counter (length (in_durs inp)) ci = Some b -> b = is_some o)
          (in_counters inp) (st_counts st).
Proof. exact presence. Qed.
Print Assumptions C05_counter_presence.

(** The value stored for a per-input counter with a sample: the sum over the
    sample's inputs / sample size; with one u64 count per iteration the cast to
    u64 loses nothing. *)
Theorem C05_counter_per_iter : forall input_counts ssize,
  ssize <> 0 -> sum_list input_counts < 2 ^ 128 ->
  per_iter_count input_counts ssize = Ok ((sum_list input_counts / ssize) mod 2 ^ 64) /\
  (N.of_nat (length input_counts) = ssize -> Forall (fun c => c < 2 ^ 64) input_counts ->
   per_iter_count input_counts ssize = Ok (sum_list input_counts / ssize)).
Proof. exact counter_per_iter. Qed.
Print Assumptions C05_counter_per_iter.

(** The boolean specification evaluated by the violation search on the
    implementation's outputs holds of the model, for every admissible view and
    every input of the property's domain ([C05_in_domain_meaning]). *)
Theorem C05_in_domain_meaning : forall inp,
  in_domain inp = true -> size_ok inp /\ no_overflow inp /\ counts_u64 inp.
Proof. exact in_domain_props. Qed.
Print Assumptions C05_in_domain_meaning.

Theorem C05_model_sb : forall dbg sv inp,
  admissibleb (in_durs inp) sv = true -> in_domain inp = true ->
  stats_sb inp (compute_stats true dbg sv inp) = true.
Proof. exact model_sb. Qed.
Print Assumptions C05_model_sb.

Theorem C05_per_iter_model_sb : forall input_counts ssize,
  per_iter_sb input_counts ssize (per_iter_count input_counts ssize) = true.
Proof. exact per_iter_model_sb. Qed.
Print Assumptions C05_per_iter_model_sb.

(** What the boolean specification says (it is evaluated on the
    implementation's outputs; these lemmas keep it readable). *)
Theorem C05_sb_meaning : forall inp out,
  stats_sb inp out = true <->
  (in_domain inp = true ->
   exists st, out = Ok st /\ time_ok inp st = true /\ forallb xq_is_fin (all_xq st) = true /\
              presence_ok inp st = true /\ means_ok inp st = true /\ provenance_ok inp st = true).
Proof. exact stats_sb_spec. Qed.
Print Assumptions C05_sb_meaning.

Theorem C05_sb_time_meaning : forall inp st,
  time_ok inp st = true <->
  st_sample_count st = N.of_nat (length (in_durs inp)) mod 2 ^ 32 /\
  st_iter_count st = in_size inp * N.of_nat (length (in_durs inp)) /\
  fastest (st_time st) = spec_fastest (in_durs inp) (in_size inp) /\
  slowest (st_time st) = spec_slowest (in_durs inp) (in_size inp) /\
  median (st_time st) = spec_median (in_durs inp) (in_size inp) /\
  mean (st_time st) = spec_mean (in_durs inp) (in_size inp) /\
  fastest (st_time st) <= median (st_time st) <= slowest (st_time st) /\
  fastest (st_time st) <= mean (st_time st) <= slowest (st_time st).
Proof. exact time_ok_spec. Qed.
Print Assumptions C05_sb_time_meaning.

Theorem C05_sb_provenance_meaning : forall inp st,
  provenance_ok inp st = true <->
  match in_durs inp with
  | [] => Forall (fun x => xq_eqb x (Fin 0 1) = true)
                 (column_of fastest st ++ column_of slowest st ++ column_of median st)
  | _ => column_from_one fastest fastest inp st (list_min (in_durs inp)) = true /\
         column_from_one slowest slowest inp st (list_max (in_durs inp)) = true /\
         (if Nat.even (length (in_durs inp)) then median_from_two inp st = true
          else column_from_one median median inp st (mid_hi (in_durs inp)) = true)
  end.
Proof. exact provenance_ok_spec. Qed.
Print Assumptions C05_sb_provenance_meaning.

Theorem C05_sb_column_meaning : forall selq seln inp st d,
  column_from_one selq seln inp st d = true <->
  exists smp, In smp (indexed (in_durs inp)) /\ snd smp = d /\
    Forall2 (fun x v => xq_close x (Fin v (in_size inp)) = true)
            (column_of selq st) (figures_of_index inp (fst smp)) /\
    Forall2 (fun ci o => forall set, o = Some set -> exists c, count_for ci smp = Some c /\ seln set = c)
            (in_counters inp) (st_counts st).
Proof. exact column_from_one_spec. Qed.
Print Assumptions C05_sb_column_meaning.

Theorem C05_sb_median_two_meaning : forall inp st,
  median_from_two inp st = true <->
  exists s1 s2, In s1 (indexed (in_durs inp)) /\ In s2 (indexed (in_durs inp)) /\ fst s1 <> fst s2 /\
    snd s1 = mid_lo (in_durs inp) /\ snd s2 = mid_hi (in_durs inp) /\
    Forall2 (fun x v => xq_close x (Fin v (2 * in_size inp)) = true)
            (column_of median st)
            (map (fun p => fst p + snd p)
                 (combine (figures_of_index inp (fst s1)) (figures_of_index inp (fst s2)))) /\
    Forall2 (fun ci o => forall set, o = Some set ->
               exists c1 c2, count_for ci s1 = Some c1 /\ count_for ci s2 = Some c2 /\
                             median set = (c1 + c2) / 2)
            (in_counters inp) (st_counts st).
Proof. exact median_from_two_spec. Qed.
Print Assumptions C05_sb_median_two_meaning.

(** [xq_close x y]: within relative 1e-12 of the exact value, denominators non-zero. *)
Theorem C05_sb_close_meaning : forall a b c d,
  xq_close (Fin a b) (Fin c d) = true <->
  b <> 0 /\ d <> 0 /\
  (a * d <= c * b -> (c * b - a * d) * 10 ^ 12 <= c * b) /\
  (c * b <= a * d -> (a * d - c * b) * 10 ^ 12 <= c * b).
Proof. exact xq_close_spec. Qed.
Print Assumptions C05_sb_close_meaning.

(** The counts stored for a per-input counter kind ([record_rounds]: model of
    the recording loop as far as one kind is concerned; a round = (tuning?,
    sample size, the input counts of each raw sample)).  Whatever was stored for
    the kind before [input_counter] was called (a constant from the options or
    from [Bencher::counter]), and however the rounds are split between tuning
    and collecting: never a panic, the kind stays per-input, the number of
    stored counts is the number of stored samples, and each is its own sample's
    sum over the inputs / sample size. *)
Theorem C05_counts_length : forall ci0 rounds,
  Forall round_wf rounds ->
  exists n ci, record_rounds (0%nat, set_input_counter ci0) rounds = Ok (n, ci) /\
    ci_input ci = true /\
    length (ci_counts ci) = n /\ n = length (kept_samples [] rounds) /\
    ci_counts ci = map stored_value (kept_samples [] rounds).
Proof. exact counts_length. Qed.
Print Assumptions C05_counts_length.

Theorem C05_stored_model_sb : forall ci0 rounds ssize n ci,
  Forall round_wf rounds ->
  Forall (fun p => fst p = ssize) (kept_samples [] rounds) ->
  record_rounds (0%nat, set_input_counter ci0) rounds = Ok (n, ci) ->
  stored_counts_sb ssize (map (fun p => sum_list (snd p)) (kept_samples [] rounds)) ci = true.
Proof. exact stored_model_sb. Qed.
Print Assumptions C05_stored_model_sb.

(** [Bencher::counter] of kind K called after [input_counter] of kind K
    (current code, after the fix 5377f60): the constant replaces the per-input
    counter.  For any rounds: no panic, one stored count, the kind is not
    per-input, every sample reports the constant. *)
Theorem C05_counter_overrides_input_counter : forall ci0 c rounds,
  let ci := {| ci_counts := [c]; ci_input := false |} in
  set_counter c (set_input_counter ci0) = ci /\
  record_rounds (0%nat, set_counter c (set_input_counter ci0)) rounds
    = Ok (length (kept_samples [] rounds), ci) /\
  constant_counter_sb c ci = true /\
  forall s, count_for ci s = Some c.
Proof. exact counter_overrides_input_counter. Qed.
Print Assumptions C05_counter_overrides_input_counter.

(** The behaviour before that fix, kept as a witness: the constant stayed as a
    stale first entry of a per-input kind (4 counts for 3 samples). *)
Theorem C05_old_counter_after_input_counter_stale :
  record_rounds (0%nat, set_counter_old 3023 (set_input_counter {| ci_counts := []; ci_input := false |}))
                [(false, 2, [[252; 726]; [432; 141]; [615; 321]])]
  = Ok (3%nat, {| ci_counts := [3023; 489; 286; 468]; ci_input := true |}).
Proof. exact old_counter_after_input_counter_is_stale. Qed.
Print Assumptions C05_old_counter_after_input_counter_stale.

(** The allocation records of a run ([record_alloc_infos]: the gate
    [if !tallies.is_empty() { alloc_info_by_sample.insert(index, ..) }] of the
    recording loop).  [is_empty] means that all eight tally figures are 0; sample
    [j] has a record iff one of its figures is not 0 (a timed section that only
    frees or shrinks memory included), and the record is its own info. *)
Theorem C05_alloc_is_empty_meaning : forall i,
  tallies_is_empty i = true <->
  forall op, t_count (ai_tally op i) = 0 /\ t_size (ai_tally op i) = 0.
Proof. exact tallies_is_empty_spec. Qed.
Print Assumptions C05_alloc_is_empty_meaning.

Theorem C05_alloc_gate : forall infos j,
  alist_find j (record_alloc_infos 0 infos []) =
  match nth_error infos (N.to_nat j) with
  | Some i => if tallies_is_empty i then None else Some i
  | None => None
  end.
Proof. exact alloc_gate. Qed.
Print Assumptions C05_alloc_gate.

Theorem C05_alloc_records_model_sb : forall infos,
  alloc_records_sb (map tallies_of_info infos) (record_alloc_infos 0 infos []) = true.
Proof. exact alloc_records_model_sb. Qed.
Print Assumptions C05_alloc_records_model_sb.

(** The same over whole runs ([record_alloc_rounds]: a tuning round discards
    the samples recorded so far *and* their allocation records,
    [SampleCollection::clear]): the number of stored samples is that of the kept
    ones, and stored sample [j] has a record iff its own tally is not empty —
    never the record of a discarded tuning sample that had the same index. *)
Theorem C05_alloc_gate_rounds : forall rounds,
  fst (record_alloc_rounds rounds) = length (kept_infos rounds) /\
  forall j, alist_find j (snd (record_alloc_rounds rounds)) =
            match nth_error (kept_infos rounds) (N.to_nat j) with
            | Some i => if tallies_is_empty i then None else Some i
            | None => None
            end.
Proof. exact alloc_gate_rounds. Qed.
Print Assumptions C05_alloc_gate_rounds.

(** Which allocation blocks the table shows.  [set_is_zero] models
    [StatsSet<f64>::is_zero]: all four columns are 0 ([C05_is_zero_meaning]);
    `max alloc:` is shown iff its size set is not zero, the block of an operation
    iff its count set or its size set is not zero ([printed_blocks]).  For the
    statistics [compute_stats] returns this is exactly: some recorded allocation
    info has a non-zero figure of that kind ([blocks_spec]) — whichever samples
    are fastest and slowest, so an allocation in an interior sample is shown. *)
Theorem C05_is_zero_meaning : forall s,
  set_is_zero s = true <->
  xq_is_zero (fastest s) = true /\ xq_is_zero (slowest s) = true /\
  xq_is_zero (median s) = true /\ xq_is_zero (mean s) = true.
Proof. exact set_is_zero_spec. Qed.
Print Assumptions C05_is_zero_meaning.

Theorem C05_printed_blocks : forall dbg sv inp st,
  compute_stats true dbg sv inp = Ok st -> printed_blocks st = blocks_spec inp.
Proof. exact printed_blocks_spec. Qed.
Print Assumptions C05_printed_blocks.
