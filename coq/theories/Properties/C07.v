(** C07 — The thread pool never deadlocks, loses a wake-up or leaks workers.
    Statements only; each closed by [exact] of a lemma in Proofs/Pool*.v.
    See Properties/C06.v for what [reachable code_cfg scr s] quantifies over. *)
From DivanV Require Import Base.Res Generated.Consts Model.Pool Model.PoolFail Proofs.PoolFail Proofs.Pool Proofs.PoolLive Proofs.PoolEnabled Proofs.PoolMonitor.
Import PoolM PoolF.

(** Obligation on the generated constants ([== 1], [while], [> 0]). *)
Theorem C07_cfg_good : good code_cfg.
Proof. exact (conj eq_refl (conj eq_refl eq_refl)). Qed.

(** Caller parked, counter zero, token clear: some worker of THIS broadcast is
    about to unpark (and that step is enabled). *)
Theorem C07_no_lost_wakeup : forall scr s n,
  reachable code_cfg scr s ->
  cst s = CPark n -> rc s = 0 -> token s = false ->
  exists k, getw s k = Some (WUnpark (cur s)) /\ step code_cfg s (EWUnpark k) = Some (st_wunpark s k).
Proof. exact (fun scr s n => no_lost_wakeup code_cfg scr s n C07_cfg_good). Qed.
Print Assumptions C07_no_lost_wakeup.

(** Every reachable non-final state has an enabled step that is not a spurious
    wake-up; the final state (pool dropped, all workers exited) has none. *)
Theorem C07_deadlock_free : forall scr s,
  reachable code_cfg scr s -> final s = false ->
  exists l s', l <> ESpurious /\ step code_cfg s l = Some s'.
Proof. exact (fun scr s => deadlock_free code_cfg scr s C07_cfg_good). Qed.
Print Assumptions C07_deadlock_free.

(** The same for the executable enumeration used by the explorer: the list of
    enabled non-spurious labels of a reachable non-final state is not empty. *)
Theorem C07_deadlock_free_enabled : forall scr s,
  reachable code_cfg scr s -> final s = false -> enabled_labels code_cfg s <> [].
Proof. exact (fun scr s => deadlock_free_enabled code_cfg scr s C07_cfg_good). Qed.
Print Assumptions C07_deadlock_free_enabled.

(** The lexicographic measure (broadcasts left; program counters + pending
    token) strictly decreases on every step that is not a spurious wake-up —
    also when a stale token of an earlier broadcast is pending. *)
Theorem C07_measure_decreases : forall scr s l s',
  reachable code_cfg scr s -> step code_cfg s l = Some s' -> l <> ESpurious -> lex_lt s' s.
Proof. exact (fun scr s l s' R => measure_decreases code_cfg s l s' (inv_reachable code_cfg scr s C07_cfg_good R)). Qed.
Print Assumptions C07_measure_decreases.

(** Hence: in every infinite execution spurious wake-ups occur infinitely
    often (an execution with finitely many of them is finite), ... *)
Theorem C07_terminates : forall scr (f : nat -> state) (ls : nat -> label),
  f 0 = init scr -> (forall i, step code_cfg (f i) (ls i) = Some (f (S i))) ->
  forall N, exists i, N <= i /\ ls i = ESpurious.
Proof. exact (fun scr f ls => no_infinite_run code_cfg scr f ls C07_cfg_good). Qed.
Print Assumptions C07_terminates.

(** ... and from every reachable state the final state is reached without
    relying on any spurious wake-up. *)
Theorem C07_reaches_final : forall scr s,
  reachable code_cfg scr s ->
  exists ls s', run code_cfg s ls = Some s' /\ final s' = true /\ ~ In ESpurious ls.
Proof. exact (fun scr s => reaches_final code_cfg scr s C07_cfg_good). Qed.
Print Assumptions C07_reaches_final.

(** After the pool is dropped no task is called any more, the pool stays
    dropped, and every worker reaches its exit. *)
Theorem C07_workers_exit : forall scr s,
  reachable code_cfg scr s -> cst s = CDone ->
  (forall l s', step code_cfg s l = Some s' -> cst s' = CDone /\ calls s' = calls s)
  /\ exists ls s', run code_cfg s ls = Some s' /\ cst s' = CDone /\ all_exited s' = true.
Proof. exact (fun scr s => workers_exit code_cfg scr s C07_cfg_good). Qed.
Print Assumptions C07_workers_exit.

(** The monitor evaluated on implementation traces reports a model execution
    that ends in the final state as complete and clean: every broadcast
    returned, the pool was dropped, every worker exited, no clause violated
    (deadlock / incomplete / worker-not-exited included). *)
Theorem C07_monitor_model : forall scr ls s',
  run code_cfg (init scr) ls = Some s' -> final s' = true ->
  PoolMon.check scr (panics s') (PoolMon.trace code_cfg (init scr) ls) = [].
Proof. exact (fun scr ls s' => monitor_complete code_cfg scr ls s' C07_cfg_good). Qed.
Print Assumptions C07_monitor_model.

(** * Failed thread creation (Model/PoolFail.v; see Properties/C06.v)

    Along every execution of the extended relation (aborted broadcasts anywhere
    in the script): no lost wake-up, every non-final state has an enabled step
    that is not a spurious wake-up, and the lexicographic measure decreases on
    every step that is not a spurious wake-up (the aborted broadcast included). *)
Theorem C07_later_broadcasts_live : forall scr x,
  xreachable code_cfg code_fcfg scr x ->
  (forall n, cst (base x) = CPark n -> rc (base x) = 0 -> token (base x) = false ->
     exists k x', getw (base x) k = Some (WUnpark (cur (base x)))
                  /\ xstep code_cfg code_fcfg x (XStep (EWUnpark k)) = Some x')
  /\ (xfinal x = false -> exists l x', l <> ESpurious /\ xstep code_cfg code_fcfg x (XStep l) = Some x')
  /\ (forall xl x', xstep code_cfg code_fcfg x xl = Some x' -> xl <> XStep ESpurious -> xlex_lt x' x).
Proof. exact (fun scr x => x_c07 code_cfg scr x C07_cfg_good). Qed.
Print Assumptions C07_later_broadcasts_live.

(** Hence no infinite extended execution has finitely many spurious wake-ups, ... *)
Theorem C07_fail_terminates : forall scr (f : nat -> xstate) (ls : nat -> xlabel),
  f 0 = xinit scr -> (forall i, xstep code_cfg code_fcfg (f i) (ls i) = Some (f (S i))) ->
  forall N, exists i, N <= i /\ ls i = XStep ESpurious.
Proof. exact (fun scr f ls => x_no_infinite_run code_cfg scr f ls C07_cfg_good). Qed.
Print Assumptions C07_fail_terminates.

(** ... and from every state of an extended execution the final state (pool
    dropped, every worker — also those created by an aborted broadcast —
    exited) is reached without relying on a spurious wake-up. *)
Theorem C07_fail_reaches_final : forall scr x,
  xreachable code_cfg code_fcfg scr x ->
  exists ls x', xrun code_cfg code_fcfg x ls = Some x' /\ xfinal x' = true /\ ~ In (XStep ESpurious) ls.
Proof. exact (fun scr x => x_reaches_final code_cfg scr x C07_cfg_good). Qed.
Print Assumptions C07_fail_reaches_final.
