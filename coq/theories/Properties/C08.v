(** C08 - threads of a parallel benchmark enter and leave timed sections
    together; each sample reports only its own thread's allocations; a panic on
    any thread ends the run with a panic on the calling thread instead of a hang.
    Statements only; each closed by [exact] of a lemma in Proofs/Round*.v.
    The model (Model/Round.v) is a transition system over any number of threads
    [nthreads c], any number of rounds, any sample sizes, any interleaving
    ([reachable]: any sequence of labels) and any fault set ([fault c]).
    [fixed_code c]: the configuration is the code after commit 80a110a (the
    guard exists) and ThreadAllocInfo::current() is Some on every thread. *)
From Coq Require Import List Arith Bool NArith.
From DivanV Require Import Generated.Consts2 Model.Round Proofs.RoundBase Proofs.RoundInv Proofs.RoundTerm Proofs.RoundAlloc Proofs.RoundEx Proofs.RoundMain Proofs.RoundMon Proofs.RoundRec.
Import ListNotations.

(** The invariant evaluated by the exhaustive explorer ([inv_b], DESIGN.md
    Appendix A) holds in every reachable state, for every thread count. *)
Theorem C08_invariant : forall c st,
  1 <= nthreads c -> fixed_code c -> reachable c st -> inv_b c st = true.
Proof. exact invariant_reachable. Qed.
Print Assumptions C08_invariant.

(** Phase order, in every reachable state of a round with sample size n
    (positions: generator calls 0..n-1, clear n+1, start timestamp n+3, end
    timestamp 2n+4, last wait 2n+5, snapshot 2n+6, drops from 2n+7):
    if some thread - panicked or not - took its start timestamp, every thread
    has finished generating and clearing or has already panicked (and then runs
    no further user code: [tstep] only lets it wait and leave); if some thread
    is past the last wait, i.e. before its snapshot and its first drop, every
    thread has taken its end timestamp or has already panicked.  [phase_sb] is
    the boolean form evaluated on states by the explorer. *)
Theorem C08_phase_order : forall c st,
  2 <= nthreads c -> fixed_code c -> reachable c st ->
  (gp st = GRun ->
   let n := ssize c (round st) in
   forall ti tj, In ti (ths st) -> In tj (ths st) ->
     (n + 3 < pc ti -> n + 1 < pc tj \/ panicked tj = true) /\
     (2 * n + 5 < pc ti -> 2 * n + 4 < pc tj \/ panicked tj = true))
  /\ phase_sb c st = true.
Proof. exact phase_order_reachable. Qed.
Print Assumptions C08_phase_order.

(** One thread's untimed work never overlaps another's timed section: while a
    live thread is between its two timestamps, every other live thread is
    between its second and third wait (positions n+2 .. 2n+5). *)
Theorem C08_no_overlap : forall c st,
  2 <= nthreads c -> fixed_code c -> reachable c st -> gp st = GRun ->
  let n := ssize c (round st) in
  forall ti tj, In ti (ths st) -> In tj (ths st) ->
    panicked ti = false -> n + 3 < pc ti <= 2 * n + 4 ->
    panicked tj = false -> n + 2 <= pc tj <= 2 * n + 5.
Proof. exact no_overlap_reachable. Qed.
Print Assumptions C08_no_overlap.

(** Deadlock freedom: a reachable state that is not final has an enabled step. *)
Theorem C08_deadlock_free : forall c st,
  1 <= nthreads c -> fixed_code c -> reachable c st -> final st = false ->
  exists l st', step c st l = Some st'.
Proof. exact deadlock_free_reachable. Qed.
Print Assumptions C08_deadlock_free.

(** Every step strictly decreases [measure]. *)
Theorem C08_measure_decreases : forall c st l st',
  1 <= nthreads c -> fixed_code c -> reachable c st ->
  step c st l = Some st' -> measure c st' < measure c st.
Proof. exact measure_decreases_reachable. Qed.
Print Assumptions C08_measure_decreases.

(** Every execution - any interleaving, any fault set - is at most
    [measure c (init c)] steps long, and when it cannot be extended the caller's
    loop is over with the outcome [expected c]: a normal return if no fault is
    in range, "Divan benchmarking thread k panicked" for the least faulting
    thread k of the first faulty round otherwise. *)
Theorem C08_panic_terminates : forall c tr st,
  1 <= nthreads c -> fixed_code c ->
  exec_from c (init c) tr st ->
  length tr <= measure c (init c) /\
  ((forall l, step c st l = None) -> gp st = GEnd (option_map snd (expected c))).
Proof. exact panic_terminates. Qed.
Print Assumptions C08_panic_terminates.

(** ... where the outcome is a panic iff the fault set is non-empty. *)
Theorem C08_no_panic_iff_no_fault : forall c,
  expected c = None <->
  (forall r i p, r < nrounds c -> i < nthreads c ->
     p < plen (ssize c r) (shp c) -> userpos (ssize c r) (shp c) p = true -> fault c i r p = false).
Proof. exact expected_none_iff. Qed.
Print Assumptions C08_no_panic_iff_no_fault.

Theorem C08_panic_names_least_thread : forall c r k,
  expected c = Some (r, k) ->
  r < nrounds c /\ k < nthreads c /\ thread_faults c r k = true /\
  (forall j, j < k -> thread_faults c r j = false) /\
  (forall r', r' < r -> round_faulty c r' = None).
Proof. exact expected_some. Qed.
Print Assumptions C08_panic_names_least_thread.

(** The protocol without the guard (before commit 80a110a) deadlocks: T = 2,
    thread 1 panics in its call, thread 0 blocks forever in the last wait. *)
Theorem C08_old_deadlocks :
  exists tr st, exec_from (cfg2 false flt1) (init (cfg2 false flt1)) tr st /\
                final st = false /\ forall l, step (cfg2 false flt1) st l = None.
Proof. exact old_deadlocks. Qed.
Print Assumptions C08_old_deadlocks.

(** A latent hazard (not reachable on Linux, where thread-local allocation info
    always exists while a benchmark runs): if ThreadAllocInfo::current() is None
    on one thread only, that thread skips the second wait and the round
    deadlocks even with the guard.  T = 2, no panic at all. *)
Theorem C08_mixed_info_deadlocks :
  exists tr st, exec_from cfg2_noinfo1 (init cfg2_noinfo1) tr st /\
                final st = false /\ forall l, step cfg2_noinfo1 st l = None.
Proof. exact mixed_info_deadlocks. Qed.
Print Assumptions C08_mixed_info_deadlocks.

(** Own allocations: the sample a thread hands back holds exactly the
    operations of its own calls of the benchmarked function in this round. *)
Theorem C08_own_allocs : forall c st i th,
  1 <= nthreads c -> fixed_code c -> reachable c st ->
  gp st = GRun -> nth_error (ths st) i = Some th -> md th = Returned ->
  result th = Some (own_allocs c i (round st)).
Proof. exact own_allocs_reachable. Qed.
Print Assumptions C08_own_allocs.

Theorem C08_own_allocs_are_own_calls : forall c i r,
  own_allocs c i r = flat_map (allocs c i r) (seq (ssize c r + 4) (ssize c r)).
Proof. exact own_allocs_calls. Qed.
Print Assumptions C08_own_allocs_are_own_calls.

Theorem C08_own_allocs_only_own : forall c c' i r,
  ssize c r = ssize c' r -> (forall p, allocs c i r p = allocs c' i r p) ->
  own_allocs c i r = own_allocs c' i r.
Proof. exact own_allocs_only_own. Qed.
Print Assumptions C08_own_allocs_only_own.

(** The caller's bookkeeping ([records]: alloc_info_by_sample after a run in
    which nothing panics): an entry exists exactly for every (round r, thread t)
    whose own tally is not empty, under index r*T + t, and holds that tally. *)
Theorem C08_sample_index : forall c k s,
  In (k, s) (records c) <->
  exists r t, r < nrounds c /\ t < nthreads c /\ k = r * nthreads c + t /\
              s = own_allocs c t r /\ s <> [].
Proof. exact sample_index. Qed.
Print Assumptions C08_sample_index.

(** The sample stored under index r*T + t is thread t's own, never another thread's. *)
Theorem C08_sample_index_own : forall c r t s,
  t < nthreads c -> In (r * nthreads c + t, s) (records c) ->
  r < nrounds c /\ s = own_allocs c t r /\ s <> [].
Proof. exact sample_index_own. Qed.
Print Assumptions C08_sample_index_own.

(** The boolean specification evaluated on the implementation's observed global
    logs ([log_sb], a monitor independent of [step]) accepts the log of every
    execution of the model - any thread count, interleaving and fault set
    and any sample size per round ([ssize c r]: constant when sample_size is
    given, 1, 2, 4, ... while the sample size is being tuned). *)
Theorem C08_log_sb_model : forall c,
  1 <= nthreads c -> fixed_code c ->
  forall tr, log_sb (nthreads c) (ssize c) (events c (init c) tr) = true.
Proof. exact log_sb_model. Qed.
Print Assumptions C08_log_sb_model.

Theorem C08_hyps_log_sb :
  (forall r, ssize (cfg2 true flt1) r = 1) /\
  length (events (cfg2 true flt1) (init (cfg2 true flt1)) (tr_upto_panic ++ [t1; t1; t0; t0; t0; LJoin])) = 18.
Proof. exact log_sb_hyps. Qed.
Print Assumptions C08_hyps_log_sb.

(** The hypotheses are satisfiable by non-trivial executions. *)
Theorem C08_hyps_phase_order :
  exists c st, 2 <= nthreads c /\ fixed_code c /\ reachable c st /\ gp st = GRun /\
               exists ti, In ti (ths st) /\ ssize c (round st) + 3 < pc ti.
Proof. exact phase_order_hyps. Qed.
Print Assumptions C08_hyps_phase_order.

Theorem C08_hyps_panic_run :
  exists tr st, exec_from (cfg2 true flt1) (init (cfg2 true flt1)) tr st /\
                gp st = GEnd (Some 1) /\ expected (cfg2 true flt1) = Some (0, 1).
Proof. exact new_terminates. Qed.
Print Assumptions C08_hyps_panic_run.

Theorem C08_hyps_clean_run :
  exists tr st, exec_from (cfg2 true nofault) (init (cfg2 true nofault)) tr st /\
                gp st = GEnd None /\ expected (cfg2 true nofault) = None /\
                map result (ths st) = [Some [Alloc 5%N]; Some [Alloc 105%N]].
Proof. exact clean_run. Qed.
Print Assumptions C08_hyps_clean_run.

(** Obligation on the generated constant (tools/extract_consts2.py re-reads the
    source on every run): [SampleBarrier::WAIT_COUNT] is the 3 waits per sample
    of the model's per-sample program and guard. *)
Theorem C08_wait_count_const : barrier_wait_count = 3%N.
Proof. reflexivity. Qed.
Print Assumptions C08_wait_count_const.

(** The same for the full log, which since hook H5 also contains the barrier
    waits performed by the guard while a thread unwinds. *)
Theorem C08_log_sb_model_full : forall c,
  1 <= nthreads c -> fixed_code c ->
  forall tr, log_sb (nthreads c) (ssize c) (events_full c (init c) tr) = true.
Proof. exact log_sb_model_full. Qed.
Print Assumptions C08_log_sb_model_full.
