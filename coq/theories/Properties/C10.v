(** C10 — Allocation tallies are exact, per thread, and track the true peak.
    Statements only; each closed by [exact] of a lemma in Proofs/Tally.v.
    [chk] is the build ([true]: overflow checks on, i.e. debug; [false]: release).
    [no_overflow ops]: every operand is a usize and (number of operations + bytes
    they move) < 2^63 — the guard under which the code's unchecked arithmetic is
    exact (src/alloc.rs:98 "does not check for overflow and assumes it will not happen"). *)
From DivanV Require Import Base.Res Model.Tally Model.Record Proofs.Tally Proofs.TallyWrap Proofs.Record.
Local Open Scope Z_scope.

(** Every row (grow, shrink, alloc, dealloc) holds exactly the number of such
    operations and the exact sum of their bytes; the current figures are the
    signed balances.  No panic in either build. *)
Theorem C10_tally_exact : forall chk ops,
  no_overflow ops = true ->
  exists i, run chk ops = Ok i /\
    (forall k, get_tally i k = mkT (spec_count k ops) (spec_bytes k ops)) /\
    i_cur_count i = live_count ops /\ i_cur_size i = live_size ops.
Proof. exact tally_exact. Qed.
Print Assumptions C10_tally_exact.

(** What the rows count: [spec_count]/[spec_bytes] are length and byte sum of
    the operations of that row; a reallocation contributes |new - old|; an
    equal-size reallocation is a 0-byte grow. *)
Theorem C10_row_meaning : forall k ops,
  spec_count k ops = N.of_nat (length (filter (fun o => opk_eqb (kind_of o) k) ops)) /\
  spec_bytes k ops = sumN (map op_bytes (filter (fun o => opk_eqb (kind_of o) k) ops)).
Proof. exact row_meaning. Qed.
Print Assumptions C10_row_meaning.

Theorem C10_realloc_bytes : forall a b,
  Z.of_N (op_bytes (ORealloc a b)) = Z.abs (Z.of_N b - Z.of_N a).
Proof. exact op_bytes_realloc. Qed.
Print Assumptions C10_realloc_bytes.

Theorem C10_equal_size_realloc : forall a,
  kind_of (ORealloc a a) = KGrow /\ op_bytes (ORealloc a a) = 0%N.
Proof. exact equal_size_realloc_is_zero_byte_grow. Qed.
Print Assumptions C10_equal_size_realloc.

(** max count / max size are the maximum, over all prefixes of the sequence
    (the empty prefix, value 0, included), of live allocations / live bytes
    relative to the clearing point: an upper bound of all of them and attained
    by one.  Deallocating more than was allocated (negative balances) is
    covered: the balances are in Z. *)
Theorem C10_max_is_peak : forall chk ops,
  no_overflow ops = true ->
  exists i, run chk ops = Ok i /\
    (forall n, live_count (firstn n ops) <= i_max_count i) /\
    (exists n, (n <= length ops)%nat /\ live_count (firstn n ops) = i_max_count i) /\
    (forall n, live_size (firstn n ops) <= i_max_size i) /\
    (exists n, (n <= length ops)%nat /\ live_size (firstn n ops) = i_max_size i).
Proof. exact max_is_peak. Qed.
Print Assumptions C10_max_is_peak.

(** One slot per thread: an operation on thread [t] leaves every other
    thread's tally unchanged, and for every interleaving [g] of the threads'
    events thread [t]'s tally is the one its own events produce. *)
Theorem C10_thread_isolated : forall chk g t,
  (forall m e t', t' <> t -> tmap_step chk m (t, e) t' = m t') /\
  tmap_run chk g t = run_ev chk (proj t g).
Proof. exact thread_isolated_full. Qed.
Print Assumptions C10_thread_isolated.

(** "Since its tally was last cleared": a tally read after any events equals
    the tally of the operations after the last [clear()] alone. *)
Theorem C10_clear_resets : forall chk evs i,
  run_ev chk evs = Ok i -> run chk (ops_since_clear evs) = Ok i.
Proof. exact clear_resets. Qed.
Print Assumptions C10_clear_resets.

(** Inside the guard debug and release builds compute the same tally. *)
Theorem C10_build_independent : forall ops,
  no_overflow ops = true -> run true ops = run false ops /\ is_ok (run true ops) = true.
Proof. exact run_build_independent. Qed.
Print Assumptions C10_build_independent.

(** Outside the guard, release build (no overflow checks), EVERY sequence of
    usize operands: no panic; each row holds the exact count modulo 2^64 and
    the byte sum modulo 2^64, where a reallocation contributes [op_bytes_m]:
    |new - old| as long as that is at most 2^63 (always the case for requests
    within [Layout]'s size <= isize::MAX: then the sum is the exact byte sum
    mod 2^64), and 2^64 - |new - old| beyond (Proofs/TallyWrap.v,
    [release_big_realloc_refutes_exact_sum]: growing 2 -> 2^64-1 is recorded as
    a 3-byte grow).  The current figures are the two's-complement wrap of the
    exact signed balances.  The max figures are the exact peaks provided the
    corresponding balance stays in the i64 range after every prefix (restricted
    half: once a balance has wrapped the recorded maximum can be below the true
    peak, [release_max_needs_range]). *)
Theorem C10_release_exact_mod : forall ops,
  forallb op_wf ops = true ->
  exists i, run false ops = Ok i /\
    (forall k, t_count (get_tally i k) = (spec_count k ops mod two64N)%N /\
               t_size (get_tally i k) = (spec_bytes_m k ops mod two64N)%N) /\
    (forallb realloc_small ops = true -> forall k, spec_bytes_m k ops = spec_bytes k ops) /\
    i_cur_count i = wrap_i64 (live_count ops) /\
    i_cur_size i = wrap_i64 (live_size ops) /\
    ((forall n, in_i64 (live_count (firstn n ops)) = true) -> i_max_count i = peak delta_count ops) /\
    ((forall n, in_i64 (live_size (firstn n ops)) = true) -> i_max_size i = peak delta_size ops).
Proof. exact release_exact_mod. Qed.
Print Assumptions C10_release_exact_mod.

(** The boolean specification evaluated on release-build outputs outside the
    guard, and that the release model satisfies it for every sequence. *)
Theorem C10_release_sb_meaning : forall ops i,
  release_sb ops (Ok i) = true <->
  (forallb op_wf ops = true ->
   (forall k, get_tally i k = mtally k ops) /\
   i_cur_count i = wrap_i64 (live_count ops) /\ i_cur_size i = wrap_i64 (live_size ops)).
Proof. exact release_sb_meaning. Qed.
Print Assumptions C10_release_sb_meaning.

Theorem C10_release_model_sb : forall ops, release_sb ops (run false ops) = true.
Proof. exact release_model_sb. Qed.
Print Assumptions C10_release_model_sb.

(** The boolean specification evaluated on the implementation's outputs says
    "inside the guard: no panic, and all twelve figures are the specified
    ones"; [peak] is the maximum over prefixes. *)
Theorem C10_sb_meaning : forall ops i,
  tally_sb ops (Ok i) = true <-> (no_overflow ops = true -> i = spec_info ops).
Proof. exact tally_sb_meaning. Qed.
Print Assumptions C10_sb_meaning.

Theorem C10_sb_no_panic : forall ops p, no_overflow ops = true -> tally_sb ops (Panic p) = false.
Proof. exact tally_sb_no_panic. Qed.
Print Assumptions C10_sb_no_panic.

Theorem C10_peak_meaning : forall d ops,
  (forall n, sumZ (map d (firstn n ops)) <= peak d ops) /\
  (exists n, (n <= length ops)%nat /\ sumZ (map d (firstn n ops)) = peak d ops).
Proof. exact peak_spec. Qed.
Print Assumptions C10_peak_meaning.

Theorem C10_ev_sb_meaning : forall evs i,
  ev_sb evs (Ok i) = true <->
  (no_overflow (all_ops evs) = true -> i = spec_info (ops_since_clear evs)).
Proof. exact ev_sb_meaning. Qed.
Print Assumptions C10_ev_sb_meaning.

(** The model satisfies the boolean specifications, for every sequence and both builds. *)
Theorem C10_model_sb : forall chk ops, tally_sb ops (run chk ops) = true.
Proof. exact tally_model_sb. Qed.
Print Assumptions C10_model_sb.

Theorem C10_ev_model_sb : forall chk evs, ev_sb evs (run_ev chk evs) = true.
Proof. exact ev_model_sb. Qed.
Print Assumptions C10_ev_model_sb.

(** * The recording step: what becomes of a thread's snapshot after it is read
    (Model/Record.v: [for raw_sample in raw_samples] of bench_loop_threaded and
    SampleCollection).  [ops] is any sequence of rounds (per-thread snapshots
    in thread order) and clears (a tuning round = clear, then round).  Guard:
    fewer than 2^32 snapshots are ever recorded (the key is [index as u32]).

    After the sequence: the number of time samples is the number of snapshots
    of the rounds kept since the last clear; the sample of thread [t] of kept
    round [i] (index [flat_index]) is associated with exactly that thread's
    snapshot of that round if the snapshot is non-empty and with nothing
    otherwise; no key at or beyond the number of samples has an entry; keys
    are distinct. *)
Theorem C10_record_exact : forall ops,
  record_guard ops = true ->
  s_len (rec_run ops) = N.of_nat (length (concat (kept_rounds ops))) /\
  (forall i t round snap,
      nth_error (kept_rounds ops) i = Some round -> nth_error round t = Some snap ->
      map_get (N.of_nat (flat_index (kept_rounds ops) i t)) (s_map (rec_run ops))
      = if tallies_empty snap then None else Some snap) /\
  (forall k, (N.of_nat (length (concat (kept_rounds ops))) <= k)%N -> map_get k (s_map (rec_run ops)) = None) /\
  keys_distinct (s_map (rec_run ops)) = true.
Proof. exact record_exact. Qed.
Print Assumptions C10_record_exact.

(** Injective keying: distinct (round, thread) pairs have distinct sample indices. *)
Theorem C10_record_keys_injective : forall (RS : list (list info)) i t round i' t' round',
  nth_error RS i = Some round -> (t < length round)%nat ->
  nth_error RS i' = Some round' -> (t' < length round')%nat ->
  flat_index RS i t = flat_index RS i' t' -> i = i' /\ t = t'.
Proof. exact flat_index_injective. Qed.
Print Assumptions C10_record_keys_injective.

(** Nothing survives a clear: state and kept rounds are those of the
    operations after it. *)
Theorem C10_record_clear_forgets : forall pre post,
  rec_run (pre ++ RClear :: post) = rec_run post.
Proof. exact clear_forgets. Qed.
Print Assumptions C10_record_clear_forgets.

Theorem C10_record_kept_after_clear : forall pre post,
  kept_rounds (pre ++ RClear :: post) = kept_rounds post.
Proof. exact kept_after_clear. Qed.
Print Assumptions C10_record_kept_after_clear.

Theorem C10_record_sb_meaning : forall ops len recs,
  record_sb ops len recs = true <->
  (record_guard ops = true ->
   len = N.of_nat (length (concat (kept_rounds ops))) /\
   (forall j, (j < length (concat (kept_rounds ops)))%nat ->
              map_get (N.of_nat j) recs = expected_record (concat (kept_rounds ops)) j) /\
   (forall kv, In kv recs -> (fst kv < N.of_nat (length (concat (kept_rounds ops))))%N) /\
   keys_distinct recs = true).
Proof. exact record_sb_meaning. Qed.
Print Assumptions C10_record_sb_meaning.

Theorem C10_record_model_sb : forall ops,
  record_sb ops (s_len (rec_run ops)) (s_map (rec_run ops)) = true.
Proof. exact record_model_sb. Qed.
Print Assumptions C10_record_model_sb.
