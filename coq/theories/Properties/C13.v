(** C13 — a benchmark case runs iff its full display path passes the filters.
    Statements only; each closed by [exact] of a lemma in Proofs/. *)
From Coq Require Import Permutation.
From DivanV Require Import Base.Res Model.SplitVec Model.Filter Model.Retain
  Proofs.SplitVec Proofs.Filter Proofs.Retain Model.RunnerConfig Proofs.RunnerConfig.

(** [SplitVec::insert] never panics on a well-formed vector, keeps the
    partition invariant, appends to the first half in order when inserting
    before the split and keeps the multiset of the second half (plus the value
    when inserting after the split). *)
Theorem C13_splitvec : forall (A : Type) (sv : split_vec A) (v : A) (after_split : bool),
  sv_wf sv ->
  exists sv',
    sv_insert sv v after_split = Ok sv' /\
    sv_wf sv' /\
    length (sv_items sv') = S (length (sv_items sv)) /\
    sv_before sv' = sv_before sv ++ (if after_split then [] else [v]) /\
    Permutation (sv_after sv') (sv_after sv ++ (if after_split then [v] else [])).
Proof. exact @sv_insert_spec. Qed.
Print Assumptions C13_splitvec.

(** Any history of insertions from the empty vector. *)
Theorem C13_splitvec_history : forall (A : Type) (ops : list (A * bool)),
  exists sv,
    sv_insert_all sv_empty ops = Ok sv /\
    sv_wf sv /\
    length (sv_items sv) = length ops /\
    sv_before sv = inserted_before ops /\
    Permutation (sv_after sv) (inserted_after ops).
Proof. exact @sv_build_spec. Qed.
Print Assumptions C13_splitvec_history.

(** For ANY interleaving of include/exclude insertions and any regex oracle:
    no panic, and a path passes iff no skip filter matches it and (there is no
    positive filter or some positive filter matches it). *)
Theorem C13_is_match_spec : forall (matches : str -> str -> bool) (ops : list (pfilter * bool)) (p : str),
  fs_query matches ops p =
  Ok (negb (any_skip matches ops p) && (no_positives ops || any_positive matches ops p)).
Proof. exact is_match_correct. Qed.
Print Assumptions C13_is_match_spec.

(** What the boolean specification used by the violation search means. *)
Theorem C13_is_match_sb_meaning : forall (matches : str -> str -> bool) (ops : list (pfilter * bool)) (p : str) (b : bool),
  is_match_sb matches ops p (Ok b) = true <->
  (b = true <->
   (forall f, In (f, false) ops -> filter_is_match matches f p = false) /\
   ((forall f, ~ In (f, true) ops) \/ exists f, In (f, true) ops /\ filter_is_match matches f p = true)).
Proof. exact is_match_sb_meaning. Qed.
Print Assumptions C13_is_match_sb_meaning.

Theorem C13_is_match_model_sb : forall (matches : str -> str -> bool) (ops : list (pfilter * bool)) (p : str),
  is_match_sb matches ops p (fs_query matches ops p) = true.
Proof. exact is_match_sb_model. Qed.
Print Assumptions C13_is_match_model_sb.

(** For every tree (any depth and fan-out, leaves with and without argument
    lists) and every predicate on paths: the cases kept are exactly the selected
    cases in the original order; no empty group or emptied leaf remains; the
    inner nodes kept are exactly those with a selected case below; a node
    survives iff a selected case lies below it. *)
Theorem C13_retain_spec : forall (f : str -> bool) (ts : list tree),
  cases (retain f ts) = filter f (cases ts)
  /\ forallb no_empty_tree (retain f ts) = true
  /\ parents (retain f ts) = flat_map (parents_with_selected f []) ts
  /\ (forall t pp, (exists t', retain_tree f pp t = Some t') <-> existsb f (cases_tree pp t) = true).
Proof. exact retain_spec. Qed.
Print Assumptions C13_retain_spec.

Theorem C13_retain_in : forall (f : str -> bool) (ts : list tree) (c : str),
  In c (cases (retain f ts)) <-> In c (cases ts) /\ f c = true.
Proof. exact retain_in. Qed.
Print Assumptions C13_retain_in.

Theorem C13_retain_removed : forall (f : str -> bool) (t : tree) (pp : str),
  retain_tree f pp t = None <-> filter f (cases_tree pp t) = [].
Proof. exact retain_tree_removed. Qed.
Print Assumptions C13_retain_removed.

(** Filters from any history of insertions, any tree: what [Divan::run_action]
    keeps (no panic; [select] runs the real [is_match] inside [retain]). *)
Theorem C13_runs_iff : forall (matches : str -> str -> bool) (ops : list (pfilter * bool)) (ts : list tree),
  exists out, select matches ops ts = Ok out /\
    cases out = filter (is_match_spec matches ops) (cases ts) /\
    (forall c, In c (cases out) <-> In c (cases ts) /\ is_match_spec matches ops c = true) /\
    forallb no_empty_tree out = true /\
    parents out = flat_map (parents_with_selected (is_match_spec matches ops) []) ts.
Proof. exact select_runs_iff. Qed.
Print Assumptions C13_runs_iff.

Theorem C13_retain_sb_meaning : forall (f : str -> bool) (ts out : list tree),
  retain_sb f ts out = true <->
  cases out = filter f (cases ts)
  /\ forallb no_empty_tree out = true
  /\ parents out = flat_map (parents_with_selected f []) ts.
Proof. exact retain_sb_meaning. Qed.
Print Assumptions C13_retain_sb_meaning.

Theorem C13_retain_model_sb : forall (f : str -> bool) (ts : list tree),
  retain_sb f ts (retain f ts) = true.
Proof. exact retain_sb_model. Qed.
Print Assumptions C13_retain_model_sb.

(** * The filter set a runner ends up with: builder skips made before parsing,
    positional filters, [--skip] filters ([--exact] governs these two), builder
    skips made afterwards.  A path is selected iff no skip (from any source)
    matches it and there is no positional filter or one of them matches. *)
Theorem C13_runner_filter_glue : forall (matches : str -> str -> bool)
  (skips_before : list pfilter) (is_exact : bool) (positional skip : list str) (skips_after : list pfilter) (p : str),
  runner_filter_is_match matches skips_before is_exact positional skip skips_after p =
  Ok (negb (existsb (fun f => filter_is_match matches f p) skips_before
            || existsb (fun s => filter_is_match matches (mk_filter is_exact s) p) skip
            || existsb (fun f => filter_is_match matches f p) skips_after)
      && (match positional with [] => true | _ => false end
          || existsb (fun s => filter_is_match matches (mk_filter is_exact s) p) positional)).
Proof. exact runner_filter_glue. Qed.
Print Assumptions C13_runner_filter_glue.

(** Whatever order the filters were given in. *)
Theorem C13_filter_order_irrelevant : forall (matches : str -> str -> bool) (ops ops' : list (pfilter * bool)) (p : str),
  Permutation ops ops' -> fs_query matches ops p = fs_query matches ops' p.
Proof. exact filter_order_irrelevant. Qed.
Print Assumptions C13_filter_order_irrelevant.
