(** C06 — Pool broadcast runs the task once per index and publishes its effects.
    Statements only; each closed by [exact] of a lemma in Proofs/Pool*.v.

    [reachable code_cfg scr s]: [s] is reachable in the transition system of
    Model/Pool.v from [init scr] — for EVERY script [scr] (any number of
    broadcasts, any thread counts), every interleaving of caller and workers,
    any subset of panicking calls, spurious wake-ups included.  [code_cfg] is
    the configuration read from pool.rs by tools/extract_consts.py. *)
From DivanV Require Import Base.Res Generated.Consts Generated.Consts2 Model.Pool Model.PoolFail Proofs.PoolFail Proofs.Pool Proofs.PoolLive Proofs.PoolCalls
  Proofs.PoolViews Proofs.PoolSlots Proofs.PoolExamples Proofs.PoolBool Proofs.PoolMonitor Proofs.PoolVec.
Import PoolM PoolF.

(** Obligations on the generated constants: the worker unparks iff [fetch_sub]
    returned 1, the caller waits in a [while] loop whose condition is "counter
    non-zero", the decrement releases and the load acquires. *)
Theorem C06_cfg_good : good code_cfg.
Proof. exact (conj eq_refl (conj eq_refl eq_refl)). Qed.

Theorem C06_dec_is_release : is_release (c_dec code_cfg) = true.
Proof. reflexivity. Qed.

Theorem C06_load_is_acquire : is_acquire (c_load code_cfg) = true.
Proof. reflexivity. Qed.

(** Every broadcast that has returned (record [r]: number [r_b], [r_n] auxiliary
    threads) had each index [0..=r_n] called exactly once and no other index,
    and that stays so for the rest of the execution. *)
Theorem C06_once_per_index : forall scr s r,
  reachable code_cfg scr s -> In r (returned s) ->
  once_per_index s (r_b r) (r_n r) = true
  /\ NoDup (calls s) /\ (forall i, In (r_b r, i) (calls s) <-> i <= r_n r).
Proof. exact (fun scr s r => once_per_index_returned code_cfg scr s r C06_cfg_good). Qed.
Print Assumptions C06_once_per_index.

(** Index 0 is called on the caller, index [k >= 1] on worker [k] (which was
    handed the task): these are the only transitions that call the task. *)
Theorem C06_call_sites : forall s l s',
  step code_cfg s l = Some s' ->
  calls s' = calls s
  \/ (exists p, l = ERun0 p /\ calls s' = calls s ++ [(cur s, 0)])
  \/ (exists k p b, l = EWRun k p /\ getw s k = Some (WRun b) /\ 1 <= k /\ calls s' = calls s ++ [(b, k)]).
Proof. exact (call_sites code_cfg). Qed.
Print Assumptions C06_call_sites.

(** When the whole script has run, the return records are exactly the
    broadcasts of the script, in order (so the two theorems above are not
    vacuous; the final state is reachable by C07). *)
Theorem C06_all_returned : forall scr s,
  reachable code_cfg scr s -> final s = true ->
  map r_n (returned s) = scr /\ map r_b (returned s) = seq 1 (length scr).
Proof. exact (fun scr s => returned_is_script code_cfg scr s C06_cfg_good). Qed.
Print Assumptions C06_all_returned.

(** The caller leaves [broadcast] only when the counter is zero, no worker is
    still before its decrement (all [n] worker calls have returned or
    panicked), and all [n + 1] indices have been called. *)
Theorem C06_returns_after_all : forall scr s l s',
  reachable code_cfg scr s -> step code_cfg s l = Some s' ->
  in_broadcast (cst s) = true -> in_broadcast (cst s') = false ->
  rc s = 0 /\ Forall (fun w => any_pre w = false) (ws s)
  /\ (forall i, In (cur s, i) (calls s) <-> i <= bcast_n (cst s))
  /\ exists r, returned s' = returned s ++ [r] /\ r_b r = cur s /\ r_n r = bcast_n (cst s).
Proof. exact (fun scr s l s' => returns_after_all code_cfg scr s l s' C06_cfg_good). Qed.
Print Assumptions C06_returns_after_all.

(** Whenever the caller is outside [broadcast] — in particular where pool.rs
    drops its caught panic payload, after the wait loop, and hence also when a
    panicking payload destructor makes that drop escape from [broadcast] — the
    task block is dead and no worker is still before its decrement. *)
Theorem C06_caller_past_loop : forall scr s,
  reachable code_cfg scr s -> in_broadcast (cst s) = false ->
  alive s = false /\ Forall (fun w => any_pre w = false) (ws s).
Proof. exact (fun scr s => caller_past_loop code_cfg scr s C06_cfg_good). Qed.
Print Assumptions C06_caller_past_loop.

(** No worker ever touches the task block when it is not alive or not the
    current one ([bad] is raised by such a touch and by a counter underflow);
    every worker before its decrement belongs to the current broadcast, whose
    block is alive. *)
Theorem C06_no_access_after_return : forall scr s,
  reachable code_cfg scr s ->
  bad s = false
  /\ Forall (fun w => any_pre w = true -> pre_dec (cur s) w = true /\ alive s = true) (ws s).
Proof. exact (fun scr s => no_access_after_return code_cfg scr s C06_cfg_good). Qed.
Print Assumptions C06_no_access_after_return.

(** Publication.  For ANY configuration with the code's control shape whose
    decrement is at least a release and whose load is at least an acquire, the
    caller's view at the return of a broadcast contains every call of that
    broadcast (the return happens-after all [n + 1] calls). *)
Theorem C06_publication_generic : forall c scr s r,
  good c -> is_release (c_dec c) = true -> is_acquire (c_load c) = true ->
  reachable c scr s -> In r (returned s) ->
  view_has_all (r_b r) (r_n r) (r_view r) = true
  /\ forall i, i <= r_n r -> In (r_b r, i) (r_view r).
Proof. exact publication. Qed.
Print Assumptions C06_publication_generic.

(** ... and the code's orderings (the generated constants) satisfy the two
    obligations. *)
Theorem C06_publication : forall scr s r,
  reachable code_cfg scr s -> In r (returned s) ->
  view_has_all (r_b r) (r_n r) (r_view r) = true
  /\ forall i, i <= r_n r -> In (r_b r, i) (r_view r).
Proof. exact (fun scr s r => publication code_cfg scr s r C06_cfg_good C06_dec_is_release C06_load_is_acquire). Qed.
Print Assumptions C06_publication.

(** [par_extend]: the slots handed back by a returned broadcast are in index
    order, slot [i] = [Some i] (the result of call [i]) unless call [i]
    panicked, in which case it is [None]; later broadcasts do not disturb them. *)
Theorem C06_results_indexed : forall scr s r,
  reachable code_cfg scr s -> In r (returned s) ->
  r_slots r = expected_slots s (r_b r) (r_n r)
  /\ length (r_slots r) = S (r_n r)
  /\ forall i, i <= r_n r ->
       nth_error (r_slots r) i = Some (if vmem (r_b r, i) (panics s) then None else Some i).
Proof. exact (fun scr s r => results_indexed_returned code_cfg scr s r C06_cfg_good). Qed.
Print Assumptions C06_results_indexed.

(** ... and they land in the caller's vector as a suffix: for a vector with
    [length v_elems <= v_cap] (any contents: reused after [clear()], appended to,
    little spare room), [par_extend] (reserve_exact(n+1), pre-clear of the spare
    slots, set_len, slot [old_len + i] written by call [i]) never violates
    [set_len]'s precondition, leaves the old elements in place, appends exactly
    the [n + 1] result slots [sl] of the broadcast and never shrinks the capacity. *)
Theorem C06_par_extend_vector : forall v n sl,
  length (v_elems v) <= v_cap v -> length sl = S n ->
  exists v', par_extend_vec v n sl = Ok v'
             /\ v_elems v' = v_elems v ++ sl
             /\ length (v_elems v') <= v_cap v'
             /\ v_cap v <= v_cap v'.
Proof. exact par_extend_vector. Qed.
Print Assumptions C06_par_extend_vector.

(** Worker threads are created only when a broadcast needs more than exist
    (exactly the missing ones, appended, idle) and no step ever removes one. *)
Theorem C06_spawn_reuse : forall s l s',
  step code_cfg s l = Some s' ->
  match l with
  | EBegin n => length (ws s') = Nat.max (length (ws s)) n /\ firstn (length (ws s)) (ws s') = ws s
                /\ skipn (length (ws s)) (ws s') = repeat WIdle (n - length (ws s))
  | _ => length (ws s') = length (ws s)
  end.
Proof. exact (spawn_reuse code_cfg). Qed.
Print Assumptions C06_spawn_reuse.

(** The executable invariants that the explorer (driver mode pool-bfs) checks
    by brute force on small scripts, and the trace replay checks at the end of
    every implementation trace, hold in every reachable state of every script. *)
Theorem C06_boolean_invariants : forall scr s,
  reachable code_cfg scr s -> inv_all code_cfg s = true.
Proof. exact (fun scr s => inv_all_reachable code_cfg scr s C06_cfg_good). Qed.
Print Assumptions C06_boolean_invariants.

(** The boolean specification that is evaluated on IMPLEMENTATION traces
    (PoolMon, driver modes c06.sb / c07.sb) holds of the model: for every
    script and every execution [ls] of the model from [init scr] (any
    interleaving, any panicking subset, spurious wake-ups), the monitor run on
    the event trace that the execution induces ([PoolMon.trace], the same
    label/event correspondence that ocaml/pool.ml applies to implementation
    tokens) reports no violated clause — at any point of the execution, since
    every prefix of an execution is an execution.  [panics s'] is the panicking
    subset the execution chose. *)
Theorem C06_monitor_model : forall scr ls s',
  run code_cfg (init scr) ls = Some s' ->
  PoolMon.violations (panics s') (PoolMon.trace code_cfg (init scr) ls) = [].
Proof. exact (fun scr ls s' => monitor_safe code_cfg scr ls s' C06_cfg_good). Qed.
Print Assumptions C06_monitor_model.

(** The hypotheses above are satisfiable together by a non-trivial execution:
    script [2; 1] (worker reuse), call (1,1) panics, one wake-up by token, one
    spurious wake-up, pool drop; the first record has an empty slot exactly at
    the panicked index. *)
Theorem C06_nonvacuous :
  exists s r, reachable code_cfg [2; 1] s /\ final s = true /\ In r (returned s)
              /\ r_b r = 1 /\ r_n r = 2 /\ r_slots r = [Some 0; None; Some 2].
Proof. exact nonvacuous. Qed.
Print Assumptions C06_nonvacuous.

(** Obligation on the source text (tools/extract_consts2.py): in
    [broadcast_task] the caught panic payload of call 0 is dropped textually
    after the wait loop, i.e. at the model's return step ([C06_caller_past_loop]
    then makes an escaping drop-panic harmless). *)
Theorem C06_payload_dropped_after_wait : pool_payload_drop_after_wait = true.
Proof. reflexivity. Qed.
Print Assumptions C06_payload_dropped_after_wait.

(** * Failed thread creation (Model/PoolFail.v)

    The extended relation [xstep] adds to the steps of Model/Pool.v the aborted
    broadcast [XAbort n j]: under the [threads] lock, [j] missing threads were
    created, the next creation was refused, the [expect] panicked (mutex
    poisoned, recovered by the next [lock()]), and the caller left [broadcast]
    before any send and before index 0.  [code_fcfg] is the shape of the code
    (sender pushed after the successful spawn, poisoned lock recovered).

    (a) From any state satisfying the pool invariants at a broadcast boundary an
    aborted broadcast leaves a state satisfying the same invariants, whose
    workers are the old ones plus the [j] created idle ones; nothing was handed
    out, nothing was called, counter, token, numbering and records untouched. *)
Theorem C06_fail_preserves_inv : forall scr s j n rest,
  Inv s -> Inv2 scr s -> InvV code_cfg s -> InvS s ->
  cst s = CIdle -> script s = n :: rest ->
  let s' := st_abort s j rest in
  Inv s' /\ (exists scr', Inv2 scr' s') /\ InvV code_cfg s' /\ InvS s'
  /\ ws s' = ws s ++ repeat WIdle j /\ script s' = rest /\ cst s' = CIdle
  /\ calls s' = calls s /\ panics s' = panics s /\ rc s' = rc s /\ token s' = token s
  /\ cur s' = cur s /\ returned s' = returned s /\ bad s' = bad s.
Proof. exact (fail_preserves_inv code_cfg). Qed.
Print Assumptions C06_fail_preserves_inv.

(** (b) Hence along EVERY execution of the extended relation (aborted
    broadcasts anywhere in the script, any number of them) the C06 statements
    hold: no worker touches a dead task block; every returned broadcast — in
    particular every broadcast after an aborted one — had each index called
    exactly once, its slots are indexed, its return happens-after all its calls
    (given the two ordering obligations); outside a broadcast no worker is
    before its decrement. *)
Theorem C06_later_broadcasts_correct : forall scr x,
  xreachable code_cfg code_fcfg scr x ->
  bad (base x) = false
  /\ (forall r, In r (returned (base x)) ->
        once_per_index (base x) (r_b r) (r_n r) = true
        /\ (forall i, In (r_b r, i) (calls (base x)) <-> i <= r_n r)
        /\ r_slots r = expected_slots (base x) (r_b r) (r_n r)
        /\ (is_release (c_dec code_cfg) = true -> is_acquire (c_load code_cfg) = true ->
            view_has_all (r_b r) (r_n r) (r_view r) = true))
  /\ NoDup (calls (base x))
  /\ (in_broadcast (cst (base x)) = false -> Forall (fun w => any_pre w = false) (ws (base x))).
Proof. exact (fun scr x => x_c06 code_cfg scr x C06_cfg_good). Qed.
Print Assumptions C06_later_broadcasts_correct.

(** The hypotheses are satisfiable: script [2; 2], first broadcast aborted after
    thread 1 was created, the second creates thread 2, reuses thread 1, call 2
    panics; one record. *)
Theorem C06_fail_nonvacuous :
  exists x, xreachable code_cfg code_fcfg [2; 2] x /\ xfinal x = true
            /\ map r_n (returned (base x)) = [2] /\ length (ws (base x)) = 2
            /\ map r_slots (returned (base x)) = [[Some 0; Some 1; None]].
Proof. exact x_example. Qed.
Print Assumptions C06_fail_nonvacuous.

(** (c) The two seeded shapes are refuted by witnesses: with [lock().unwrap()]
    a non-final state without any enabled step is reachable (the next broadcast
    cannot take the poisoned lock); with the sender pushed before the spawn a
    state is reachable in which [threads] holds a dead channel, counts a thread
    that does not exist, and the next broadcast is not a step. *)
Theorem C06_lock_not_recovered_refuted :
  exists x, xreachable code_cfg fcfg_no_recover [1; 1] x /\ xfinal x = false
            /\ script (base x) = [1] /\ forall xl, xstep code_cfg fcfg_no_recover x xl = None.
Proof. exact lock_not_recovered_refuted. Qed.
Print Assumptions C06_lock_not_recovered_refuted.

Theorem C06_push_before_spawn_refuted :
  exists x, xreachable code_cfg fcfg_push_first [2; 2] x
            /\ In false (chans x) /\ length (chans x) <> length (ws (base x))
            /\ script (base x) = [2] /\ xstep code_cfg fcfg_push_first x (XStep (EBegin 2)) = None.
Proof. exact push_before_spawn_refuted. Qed.
Print Assumptions C06_push_before_spawn_refuted.
