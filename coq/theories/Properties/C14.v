(** C14 — Listing runs nothing and agrees exactly with what a run would execute.
    Statements only; each closed by [exact] of a lemma in Proofs/. *)
From Coq Require Import Permutation.
From DivanV Require Import Base.Res Model.Registry Model.Tree Model.Driver
  Proofs.TreeBase Proofs.DriverExec Proofs.DriverC14.
Local Open Scope N_scope.

(** Whatever is registered, whatever the filter, the ignore flag, the run-time
    options and the sort: the action sequences of [--list], of the terse listing
    and of [Divan::list_benches] contain no runner construction, no [Bencher]
    and no invocation, and do not panic. *)
Theorem C14_list_runs_nothing : forall c srt benches groups a,
  a = List \/ a = ListTerse ->
  snd (run_action c srt a benches groups) = None /\
  forallb (fun x => negb (runs_something x)) (fst (run_action c srt a benches groups)) = true.
Proof. exact list_runs_nothing. Qed.
Print Assumptions C14_list_runs_nothing.

Theorem C14_list_benches_runs_nothing : forall c srt benches groups,
  snd (list_benches c srt benches groups) = None /\
  forallb (fun x => negb (runs_something x)) (fst (list_benches c srt benches groups)) = true.
Proof. exact list_benches_runs_nothing. Qed.
Print Assumptions C14_list_benches_runs_nothing.

(** Every well-formed forest (in particular every forest [run_action] can
    build, filter and sort), under any parent path and any inherited options
    ([ignore] set directly, inherited from any ancestor, or overridden), any
    ignore flag and run-time options: the terse walk prints exactly the lines
    [path ++ ": benchmark"] of the cases the test walk executes — same
    multiplicity, same order — and the test walk does not panic. *)
Theorem C14_terse_eq_run : forall c t pp po,
  wf_forest t = true ->
  snd (run_forest c Test pp po t) = None /\
  lines (list_forest c pp po t)
  = map (fun p => p ++ s_benchmark) (exec_paths (fst (run_forest c Test pp po t))).
Proof. exact terse_eq_run_forest. Qed.
Print Assumptions C14_terse_eq_run.

(** The forests [run_action] works on are well-formed. *)
Theorem C14_built_trees_wf : forall f benches groups,
  wf_forest (retain f (build_tree benches groups)) = true.
Proof. exact built_trees_wf. Qed.
Print Assumptions C14_built_trees_wf.

(** Whole actions: the run sorts, the terse listing does not, so for any sort
    (any permutation of siblings and argument names at every level) the two
    agree as multisets. *)
Theorem C14_terse_eq_run_action : forall srt,
  (forall t, forest_perm t (srt t)) ->
  forall c benches groups,
  snd (run_action c srt Test benches groups) = None /\
  Permutation (lines (fst (run_action c srt ListTerse benches groups)))
              (map (fun p => p ++ s_benchmark) (exec_paths (fst (run_action c srt Test benches groups)))).
Proof. exact terse_eq_run. Qed.
Print Assumptions C14_terse_eq_run_action.

Theorem C14_sort_hypothesis_satisfiable :
  (forall t, forest_perm t ((fun x => x) t)) /\ (forall t, forest_perm t (rev t)).
Proof. exact sort_hypothesis_satisfiable. Qed.
Print Assumptions C14_sort_hypothesis_satisfiable.

(** Exact round trip: if the display paths of the cases a run would execute
    are unique, any listed path used as the only (exact) filter lists exactly
    that line and executes exactly that case. *)
Theorem C14_exact_roundtrip : forall srt,
  (forall t, forest_perm t (srt t)) ->
  forall c benches groups p,
  NoDup (map xpath (exec_forest c [] None (build_tree benches groups))) ->
  In (p ++ s_benchmark) (lines (fst (run_action c srt ListTerse benches groups))) ->
  lines (fst (run_action (with_filter c (str_eqb p)) srt ListTerse benches groups)) = [p ++ s_benchmark] /\
  snd (run_action (with_filter c (str_eqb p)) srt Test benches groups) = None /\
  exec_paths (fst (run_action (with_filter c (str_eqb p)) srt Test benches groups)) = [p].
Proof. exact exact_roundtrip. Qed.
Print Assumptions C14_exact_roundtrip.

(** Filtering keeps exactly the executed cases whose path passes the filter
    (the ignore decision does not depend on the filter). *)
Theorem C14_retain_exec : forall c f l po,
  wf_forest l = true ->
  exec_forest c [] po (retain f l) = filter (fun x => f (xpath x)) (exec_forest c [] po l).
Proof. exact exec_retain. Qed.
Print Assumptions C14_retain_exec.

(** What the run executes is [exec_forest]: the direct description used above. *)
Theorem C14_run_executes : forall c a, is_list a = false ->
  forall l pp po, wf_forest l = true ->
  snd (run_forest c a pp po l) = None /\ executed (fst (run_forest c a pp po l)) = exec_forest c pp po l.
Proof. exact run_forest_ok. Qed.
Print Assumptions C14_run_executes.

(** The boolean specifications evaluated on the implementation's output mean
    what they should, and hold of the model. *)
Theorem C14_terse_sb_meaning : forall terse ran,
  c14_terse_sb terse ran = true <-> Permutation terse (map (fun p => p ++ s_benchmark) ran).
Proof. exact c14_terse_sb_spec. Qed.
Print Assumptions C14_terse_sb_meaning.

Theorem C14_roundtrip_sb_meaning : forall p terse ran,
  c14_roundtrip_sb p terse ran = true <-> terse = [p ++ s_benchmark] /\ ran = [p].
Proof. exact c14_roundtrip_sb_spec. Qed.
Print Assumptions C14_roundtrip_sb_meaning.

Theorem C14_model_terse_sb : forall srt, (forall t, forest_perm t (srt t)) ->
  forall c benches groups,
  c14_terse_sb (lines (fst (run_action c srt ListTerse benches groups)))
               (exec_paths (fst (run_action c srt Test benches groups))) = true.
Proof. exact model_terse_sb. Qed.
Print Assumptions C14_model_terse_sb.
