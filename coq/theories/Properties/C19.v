(** C19 — automatic sample size: first power of two outlasting 100x timer precision.
    Statements only; each closed by [exact] of a lemma in Proofs/LoopProps.v.
    Model: Model/Loop.v.  [passes c o]: the slowest sample of round [o], in
    whole multiples of the precision, exceeds 100; [first_pass c l]: index of
    the first such round of [l]; [pow2 j] = 2^j. *)
From DivanV Require Import Base.Res Generated.Consts Model.Timestamp Model.Loop Proofs.Loop Proofs.LoopProps Proofs.LoopTotal Proofs.LoopSb Proofs.LoopExamples Proofs.LoopMeaning.
Local Open Scope N_scope.

(** Obligations on the generated constants: threshold `<= 100`, doubling. *)
Theorem C19_loop_consts : tune_threshold = 100 /\ tune_factor = 2.
Proof. exact consts_c19. Qed.

Theorem C19_passes_meaning : forall c o,
  passes c o = true <-> 100 < slowest_of c o / c_prec c.
Proof. exact passes_spec. Qed.

(** Sizes 1, 2, 4, ...: round i has size 2^i while no earlier round passed the
    threshold, and 2^j0 once round j0 was the first to pass.  (A run that is
    [Ok] never doubled past u32: the doubling is overflow-checked in the model,
    so sizes stay below 2^32; see [C19_tune_example] for a satisfying run.) *)
Theorem C19_tune_sequence : forall c init hist out,
  c_test c = false -> c_size c = None -> has_samples c = true -> c_max c <> 0 ->
  bench_loop c init hist = Ok out ->
  let k := rounds_of (out_state out) in
  s_sizes (out_state out) = sizes_of c hist k /\
  (forall i, (i < k)%nat ->
     nth_error (s_sizes (out_state out)) i =
     Some (match first_pass c (firstn i hist) with Some j0 => pow2 j0 | None => pow2 i end)).
Proof. exact tune_sequence. Qed.
Print Assumptions C19_tune_sequence.

Theorem C19_tune_example :
  exists out, bench_loop ex_tune_cfg 0 ex_tune_hist = Ok out /\ out_done out = true /\
    s_sizes (out_state out) = [1; 2; 4; 4; 4] /\ first_pass ex_tune_cfg ex_tune_hist = Some 2%nat /\
    length (st_samples (s_store (out_state out))) = 6%nat /\ s_size (out_state out) = 4.
Proof. exact tune_example. Qed.
Print Assumptions C19_tune_example.

(** Samples, allocation info and per-input counts of the rounds before the
    first passing one are gone (while none has passed, of all rounds but the
    newest): the collections are exactly what recording the kept rounds into
    empty collections gives, and the first passing round is the first kept. *)
Theorem C19_discard_earlier : forall c init hist out,
  c_test c = false -> c_size c = None -> has_samples c = true -> c_max c <> 0 ->
  bench_loop c init hist = Ok out ->
  let k := rounds_of (out_state out) in
  let pre := firstn k hist in
  let kept := match first_pass c pre with Some j0 => skipn j0 pre | None => skipn (k - 1) pre end in
  let size := match first_pass c pre with Some j0 => pow2 j0 | None => pow2 (k - 1) end in
  s_store (out_state out) = fold_left (record_one c size) (with_dur c (concat kept)) store_empty /\
  st_samples (s_store (out_state out)) = map (fun r => sample_duration c size r (dur_of c r)) (concat kept) /\
  (k <> 0%nat -> s_size (out_state out) = size).
Proof. exact discard_earlier. Qed.
Print Assumptions C19_discard_earlier.

(** The first passing round counts against sample_count. *)
Theorem C19_threshold_round_counts : forall c init hist out t j0,
  c_test c = false -> c_size c = None -> has_samples c = true ->
  (0 < t)%nat -> uniform_p t hist ->
  first_pass c hist = Some j0 ->
  let n := sample_count_of c in
  let r := N.to_nat (ceil_div n (N.of_nat t)) in
  (j0 + r <= length hist)%nat ->
  (forall j, (j < j0 + r)%nat -> elapsed_after c init hist j < c_max c) ->
  c_min c <= elapsed_after c init hist (j0 + r) ->
  bench_loop c init hist = Ok out ->
  out_done out = true /\
  rounds_of (out_state out) = (j0 + r)%nat /\
  length (st_samples (s_store (out_state out))) = (t * r)%nat /\
  s_size (out_state out) = pow2 j0.
Proof. exact threshold_round_counts. Qed.
Print Assumptions C19_threshold_round_counts.

(** max_time covers the tuning rounds too. *)
Theorem C19_max_time_covers_tuning : forall c init hist out,
  c_test c = false -> c_size c = None -> has_samples c = true ->
  bench_loop c init hist = Ok out ->
  (forall j, (j < rounds_of (out_state out))%nat -> elapsed_after c init hist j < c_max c) /\
  (forall j, c_max c <= elapsed_after c init hist j -> (rounds_of (out_state out) <= j)%nat).
Proof. exact max_time_covers_tuning. Qed.
Print Assumptions C19_max_time_covers_tuning.

(** Guard: the doubling is a checked u32 multiplication.  A history of at most
    31 rounds never overflows it (sizes stay below 2^31 when doubled); 32 rounds
    that never pass the threshold do. *)
Theorem C19_no_overflow_below_2_31 : forall c init hist,
  c_test c = false -> c_freq c <> 0 -> init < 2 ^ 64 ->
  (forall o, In o hist -> wf_round o) -> (c_size c = None -> c_prec c <> 0) ->
  (length hist <= 31)%nat ->
  exists out, bench_loop c init hist = Ok out.
Proof. exact loop_total_31. Qed.
Print Assumptions C19_no_overflow_below_2_31.

Theorem C19_doubling_overflows_example :
  bench_loop ex_tune_cfg 0 (repeat [ex_raw 0 1] 32) = Panic Overflow.
Proof. exact doubling_overflows. Qed.
Print Assumptions C19_doubling_overflows_example.

(** The boolean specification used by the violation search ([c19_sb]: size
    sequence, kept samples equal to those of the kept rounds, counts and
    allocation keys within the kept samples, the round rule, the figures) holds
    of the model's own output for every history. *)
Theorem C19_model_sb : forall c init hist out t s,
  c_test c = false ->
  bench_loop c init hist = Ok out ->
  seen_of_outcome t out = Ok s ->
  N.of_nat (length (st_samples (s_store (out_state out)))) < 2 ^ 32 ->
  c19_sb c init (firstn (rounds_of (out_state out)) hist) s = true.
Proof. exact c19_model_sb. Qed.
Print Assumptions C19_model_sb.

(** Non-vacuity of [C19_threshold_round_counts] (the run of [C19_tune_example]). *)
Theorem C19_threshold_round_counts_example :
  c_test ex_tune_cfg = false /\ c_size ex_tune_cfg = None /\ has_samples ex_tune_cfg = true /\
  uniform_p 2 ex_tune_hist /\ first_pass ex_tune_cfg ex_tune_hist = Some 2%nat /\
  (2 + N.to_nat (ceil_div (sample_count_of ex_tune_cfg) 2) <= length ex_tune_hist)%nat /\
  (forall j, (j < 2 + 3)%nat -> elapsed_after ex_tune_cfg 0 ex_tune_hist j < c_max ex_tune_cfg) /\
  c_min ex_tune_cfg <= elapsed_after ex_tune_cfg 0 ex_tune_hist (2 + 3).
Proof. exact threshold_round_counts_example. Qed.

(** What the boolean specification [c19_sb] means ([hist] = the rounds that
    were run, [o] = what was seen of the run). *)
Theorem C19_sb_meaning : forall c init hist o,
  c19_sb c init hist o = true <->
  (let k := length hist in
  zero_case c = false -> tuned c = true ->
  (* sizes 1, 2, 4, ... up to the first passing round, then constant *)
  o_sizes o = sizes_of c hist k /\
  (* the recorded samples are those of the kept rounds, at the final size *)
  N.of_nat (length (o_samples o)) = total_len (kept_of c hist) /\
  o_samples o = expected_samples c (o_final_size o) (kept_of c hist) /\
  o_final_size o = match k with O => 0 | S k' => size_of_round c hist k' end /\
  (* every input-based counter kind: the per-iteration values of the kept samples; nothing otherwise *)
  (forall kd, qget kd (o_counts o) =
              if qget kd (c_input_counts c) then expected_counts kd (o_final_size o) (kept_of c hist) else []) /\
  (* allocation info for exactly the kept samples that allocated *)
  o_alloc_keys o = alloc_keys_from 0 (concat (kept_of c hist)) /\
  (* the rounds follow the rule (the first passing round counts, max_time covers tuning) *)
  (forall j, (j < k)%nat -> continue_after c init hist j = true) /\
  continue_after c init hist k = negb (o_done o) /\
  (* the figures *)
  o_stat_samples o = N.of_nat (length (o_samples o)) /\
  o_stat_iters o = N.of_nat (length (o_samples o)) * o_final_size o).
Proof. exact c19_sb_meaning. Qed.
Print Assumptions C19_sb_meaning.

(** End to end ([c19_e2e_sb]: the real runner, the benchmark on the virtual
    clock, rounds and sizes read from the event log): it holds of what the model
    reports, for every history. *)
Theorem C19_e2e_model : forall c init hist out t s,
  c_test c = false ->
  bench_loop c init hist = Ok out -> out_done out = true ->
  seen_of_outcome t out = Ok s ->
  N.of_nat (length (st_samples (s_store (out_state out)))) < 2 ^ 32 ->
  c19_e2e_sb c init (firstn (rounds_of (out_state out)) hist) (o_sizes s) (o_stat_samples s) (o_stat_iters s) = true.
Proof. exact c19_e2e_model. Qed.
Print Assumptions C19_e2e_model.
